import HsVerif.Model.Replica
import HsVerif.Gen.TimeoutCollector
/-! C08 — the tie by translation for `protocol/synchronizer/timeout_collector.go`.
`Gen/TimeoutCollector.lean` is regenerated from the Go source on every run (tools/gofacts/methods.go, "slice
forms"): `timeoutCollector.add` and `deleteOldViews` as pure functions of the field `timeouts` (a `List T` of an
opaque message type with the accessors `T_View`, `T_ID` for the struct fields `.View`, `.ID`), the parameters and
`s.config.QuorumSize()` (a parameter).  The theorems here instantiate `T` with the model's `TimeoutMsg` and say
that the regenerated functions ARE `collectorAdd` and the filter at the end of `onRemoteTimeout` of
`Model/Replica.lean`, for every list, message, quorum size and view; the Go result `([]T, bool)` is the model's
`Option`: `(list, true)` ↔ `some list`, `(nil, false)` ↔ `none`.  The last component of the regenerated
functions is the "no panic" flag (`make` with a negative capacity panics): true for every quorum size ≥ 0. -/
set_option linter.unusedVariables false
set_option linter.unusedSimpArgs false
namespace HsVerif.Props.C08Gen
open HsVerif.Model
open HsVerif.Gen.Methods (timeoutCollector_add timeoutCollector_deleteOldViews)

/-- Go's `([]T, bool)` result read as the model's `Option`. -/
def resultOpt {T : Type} (r : List T × Bool) : Option (List T) := if r.2 then some r.1 else none

/-- the accessors `.View`, `.ID` of the Go message, read on the model's message -/
abbrev tView (x : TimeoutMsg) : Int := (x.view : Int)
abbrev tID (x : TimeoutMsg) : Int := (x.id : Int)

/-! The model compares views and ids (`Nat`) with `==`, `!=`; the regenerated code compares the accessors' values
(`Int`) with `decide (… = …)`.  Both sides are brought to `decide` over `Nat` and the two decision trees are then
compared leaf by leaf, so the proofs do not depend on how the Go conditions are written (operand order, a negated
comparison, names). -/
theorem beq_nat (a b : Nat) : (a == b) = decide (a = b) := by
  rw [Bool.eq_iff_iff]; simp

theorem bne_nat (a b : Nat) : (a != b) = !decide (a = b) := by
  simp [bne, beq_nat]

/-- The regenerated `add` equals the model's `collectorAdd`, for every list, message and quorum size: the new field
is the model's first component; the Go result read as an `Option` is the model's second component (and where the
Go `bool` is false the Go list is nil); no `make` panics. -/
theorem gen_collectorAdd_eq_model (q : Nat) (ts : List TimeoutMsg) (t : TimeoutMsg) :
    (timeoutCollector_add tView tID (q : Int) ts t).1 = (collectorAdd q ts t).1 ∧
    resultOpt (timeoutCollector_add tView tID (q : Int) ts t).2.1 = (collectorAdd q ts t).2 ∧
    ((timeoutCollector_add tView tID (q : Int) ts t).2.1.2 = false → (timeoutCollector_add tView tID (q : Int) ts t).2.1.1 = []) ∧
    (timeoutCollector_add tView tID (q : Int) ts t).2.2 = true := by
  unfold timeoutCollector_add collectorAdd resultOpt
  by_cases he : ts.isEmpty = true
  · have := List.isEmpty_iff.mp he
    subst this
    simp only [tView, tID, Int.ofNat_inj, Int.ofNat_lt, Int.ofNat_le, beq_nat, bne_nat]
    refine ⟨?_, ?_, ?_, ?_⟩ <;> (repeat' split) <;> simp_all <;> first | omega | grind
  · simp only [he, tView, tID, Int.ofNat_inj, Int.ofNat_lt, Int.ofNat_le, beq_nat, bne_nat]
    refine ⟨?_, ?_, ?_, ?_⟩ <;> (repeat' split) <;> simp_all <;> first | omega | grind

/-- The regenerated `deleteOldViews` is the filter at the end of the model's `onRemoteTimeout`
(`timeouts.filter (fun x => !(x.view < currView))`), whatever the quorum size. -/
theorem gen_deleteOldViews_eq_model (qs : Int) (cur : Nat) (ts : List TimeoutMsg) :
    (timeoutCollector_deleteOldViews tView tID qs ts (cur : Int)).1 = ts.filter (fun x => !(x.view < cur)) ∧
    (timeoutCollector_deleteOldViews tView tID qs ts (cur : Int)).2.2 = true := by
  unfold timeoutCollector_deleteOldViews
  simp only [tView, Int.ofNat_inj, Int.ofNat_lt, Int.ofNat_le]
  simp

/-! ## Examples on the regenerated code (messages as pairs (view, id)) -/

/-- a quorum forms: the view's timeouts are handed out and removed, the other view stays -/
example : timeoutCollector_add (T := Int × Int) (·.1) (·.2) 3 [(1, 1), (1, 2), (2, 7)] (1, 3)
    = ([(2, 7)], ([(1, 1), (1, 2), (1, 3)], true), true) := by decide

/-- below the quorum the timeout is only recorded -/
example : timeoutCollector_add (T := Int × Int) (·.1) (·.2) 3 [(1, 1), (2, 7)] (1, 3)
    = ([(1, 1), (2, 7), (1, 3)], ([], false), true) := by decide

/-- a duplicate (same view, same sender) is ignored, even if it would complete the quorum -/
example : timeoutCollector_add (T := Int × Int) (·.1) (·.2) 2 [(1, 1), (2, 7)] (1, 1)
    = ([(1, 1), (2, 7)], ([], false), true) := by decide

/-- the same sender in another view is not a duplicate -/
example : timeoutCollector_add (T := Int × Int) (·.1) (·.2) 3 [(1, 1), (2, 7)] (2, 1)
    = ([(1, 1), (2, 7), (2, 1)], ([], false), true) := by decide

/-- `deleteOldViews` drops the views below the current one and nothing else -/
example : timeoutCollector_deleteOldViews (T := Int × Int) (·.1) (·.2) 3 [(1, 1), (2, 7), (3, 1), (1, 4)] 2
    = ([(2, 7), (3, 1)], (), true) := by decide

/-- the flag is not vacuous: a negative quorum size would make the first `make` panic -/
theorem no_panic_flag_nonvacuous :
    (timeoutCollector_add (T := Int × Int) (·.1) (·.2) (-1) [] (1, 1)).2.2 = false := by decide

end HsVerif.Props.C08Gen
