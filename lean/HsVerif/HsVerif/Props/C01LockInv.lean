import HsVerif.Proofs.ReplicaLockInv
import HsVerif.Props.C03
/-! C01, layer B (replica level) — what a vote obliges the lock to cover, and where the lock comes from.
Property theorems only.  Replica, events, `runEvents` as in Props/C03.lean; vocabulary (`sget`,
`LockCovers`, `LockFrom`) from Proofs/StoreWalk.lean; chained and simplified HotStuff
(`c.rules ≠ .fast`: Fast-HotStuff keeps no lock).

What is provable, and what is not:

* `voterVerify … = ok` guarantees that BOTH certificate links from the block are stored
  (`voted_links_stored`): the repaired vote rule obtains the block `p` certified by `x.qc` and, unless
  `p.qc.hash = ""`, the block certified by `p.qc`.  The `none` branch of the chained rule (`extendsM`
  with the QC block missing) can answer `true`, but then `x.qc.hash` is neither stored nor fetchable,
  stays so through `verifyAnyM`, and `verifyQCM x.qc` fails (a non-genesis QC only verifies if its
  block is stored; genesis is always stored).
* `commitRule` walks the same two links — except that CHAINED HotStuff goes through `qcRef`, which
  follows no certificate whose hash is the empty string, on BOTH links, while the vote rule and the
  verifier treat `""` on the FIRST link as an ordinary hash; and SIMPLIFIED HotStuff uses plain `Get`
  on both links, so it can lock on a block stored under `""`.  Hashes are a field of the modelled
  block, so a (Byzantine) proposal with hash `""` is accepted and stored like any other.  Hence
  - `LockCovers` fails for a chained vote whose QC names hash `""`
    (`votes_lock_grandparent_counterexample`); it holds whenever `x.qc.hash ≠ ""`, in particular for
    simplified HotStuff unconditionally and for both whenever no block is stored under `""`;
  - `LockFrom` holds for chained HotStuff as stated; for simplified HotStuff its side condition
    `p.qc.hash ≠ ""` fails when the lock is a block stored under `""`
    (`lock_from_votes_counterexample`); it holds whenever no block is stored under `""`.
  The invariant that IS preserved by every handler is `LInv` (Proofs/ReplicaLockInv.lean), which has
  the empty-hash side conditions exactly where `commitRule` has them (`LockCoversW`, `LockFromW`). -/
open Std.Do
set_option mvcgen.warning false
set_option linter.unusedVariables false
namespace HsVerif.Props.C01LockInv
open HsVerif.Model HsVerif.Proofs HsVerif.Props.C03

/-! ### 0. the invariant and its preservation -/

/-- The initial state satisfies the lock invariant. -/
theorem linv_init (c : RCfg) : LInv c {} :=
  ⟨fun _ _ h => h, fun _ _ hm => (by cases hm), Or.inl rfl⟩

/-- **One-step preservation**: from ANY state satisfying the lock invariant (genesis is stored; both
certificate links of every block voted for are stored and its certificate-grandparent is not above
the lock; the lock is genesis or the stored certificate-grandparent of a block voted for), the state
after delivering ANY event satisfies it again. -/
theorem step_linv (k : Keys) (c : RCfg) (hc : c.rules ≠ .fast) (s : RState) (e : Ev) (h : LInv c s) :
    LInv c (step k c s e).1 := by
  unfold step
  have h0 : LInv c { s with out := [], queue := s.queue ++ [e] } := h
  exact run_of_triple _ _ _ (runLoop_li k c hc 100000) _ h0

/-- the same for `Start` -/
theorem start_linv (k : Keys) (c : RCfg) (hc : c.rules ≠ .fast) (s : RState) (h : LInv c s) :
    LInv c (start k c s).1 := by
  unfold start
  have h0 : LInv c { s with out := [] } := h
  have spec : ⦃fun s => ⌜LInv c s⌝⦄ (do
      let s ← get
      if s.view == 1 && c.leader 1 == c.id then
        createAndPropose k c { qc := some s.highQC, tc := some s.highTC }
      runLoop k c 100000 : M Unit) ⦃⇓ _ s => ⌜LInv c s⌝⦄ := by
    have h1 := createAndPropose_li k c hc
    have h2 := runLoop_li k c hc
    mvcgen [h1, h2]
  exact run_of_triple _ _ _ spec _ h0

/-- from ANY state satisfying the invariant, along any event sequence -/
theorem run_linv (k : Keys) (c : RCfg) (hc : c.rules ≠ .fast) (es : List Ev) (s : RState) (h : LInv c s) :
    LInv c (runEvents k c s es) := by
  induction es generalizing s with
  | nil => exact h
  | cons e es ih => exact ih _ (step_linv k c hc s e h)

/-- **Changes from outside** (the harness writes fetchable blocks and other replicas' signatures into
the state between events): any change that leaves ghost history and lock alone and preserves every
lookup of the block store preserves the invariant. -/
theorem external_extension_linv (c : RCfg) (s s' : RState) (hg : s'.ghost = s.ghost) (hl : s'.lock = s.lock)
    (hS : ∀ h b, sget s h = some b → sget s' h = some b) (h : LInv c s) : LInv c s' :=
  linv_same ⟨hS, hl, hg⟩ c h

/-- Every reachable state (initial state, `Start`, then any sequence of delivered events) satisfies
the lock invariant. -/
theorem reachable_linv (k : Keys) (c : RCfg) (hc : c.rules ≠ .fast) (es : List Ev) :
    LInv c (runEvents k c (start k c {}).1 es) :=
  run_linv k c hc es _ (start_linv k c hc {} (linv_init c))

/-! ### 1. what a vote obliges the lock to cover -/

/-- what the invariant says about one vote, from any state satisfying it -/
theorem linv_vote_covered (c : RCfg) (s : RState) (h : LInv c s) (x : Block) (id : Nat)
    (hm : GRec.vote x id ∈ s.ghost) :
    (∃ p, sget s x.qc.hash = some p ∧ (p.qc.hash = "" ∨ ∃ g, sget s p.qc.hash = some g)) ∧
    ((c.rules = .chained ∧ x.qc.hash = "") ∨ LockCovers s x) :=
  h.2.1 x id hm

/-- **Both certificate links of a voted block are stored**: in every reachable state, for every
vote `GRec.vote x id`, the block `p` certified by `x.qc` is stored, and either `p.qc.hash = ""` or the
block certified by `p.qc` is stored too. -/
theorem voted_links_stored (k : Keys) (c : RCfg) (hc : c.rules ≠ .fast) (es : List Ev) (x : Block) (id : Nat)
    (h : GRec.vote x id ∈ (runEvents k c (start k c {}).1 es).ghost) :
    ∃ p, sget (runEvents k c (start k c {}).1 es) x.qc.hash = some p ∧
      (p.qc.hash = "" ∨ ∃ g, sget (runEvents k c (start k c {}).1 es) p.qc.hash = some g) :=
  (linv_vote_covered c _ (reachable_linv k c hc es) x id h).1

/-- the invariant gives `LockCovers` for every vote whose certificate does not name the empty hash
(chained), and for every vote (simplified) -/
theorem linv_lockCovers (c : RCfg) (hc : c.rules ≠ .fast) (s : RState) (h : LInv c s) (x : Block) (id : Nat)
    (hm : GRec.vote x id ∈ s.ghost) (hx : c.rules = .chained → x.qc.hash ≠ "") : LockCovers s x := by
  rcases (linv_vote_covered c s h x id hm).2 with ⟨h1, h2⟩ | h
  · exact absurd h2 (hx h1)
  · exact h

/- FULL STATEMENT of clause 1 (false of the model for chained HotStuff, see
`votes_lock_grandparent_counterexample`):
   c.rules ≠ .fast → GRec.vote x id ∈ (runEvents k c (start k c {}).1 es).ghost →
   LockCovers (runEvents k c (start k c {}).1 es) x -/

/-- **A vote obliges the lock to cover the certificate-grandparent** (chained and simplified
HotStuff): in every reachable state, for every vote `GRec.vote x id` whose certificate does not name
the empty hash — a condition needed for chained HotStuff only — the block `p` certified by `x.qc` is
stored, and `p.qc.hash = ""` or the block `g` certified by `p.qc` is stored and `g.view ≤ lock.view`. -/
theorem votes_lock_grandparent_partial (k : Keys) (c : RCfg) (hc : c.rules ≠ .fast) (es : List Ev)
    (x : Block) (id : Nat) (h : GRec.vote x id ∈ (runEvents k c (start k c {}).1 es).ghost)
    (hx : c.rules = .chained → x.qc.hash ≠ "") :
    LockCovers (runEvents k c (start k c {}).1 es) x :=
  linv_lockCovers c hc _ (reachable_linv k c hc es) x id h hx

/-- Clause 1 in full for simplified HotStuff. -/
theorem votes_lock_grandparent_simple (k : Keys) (c : RCfg) (hc : c.rules = .simple) (es : List Ev)
    (x : Block) (id : Nat) (h : GRec.vote x id ∈ (runEvents k c (start k c {}).1 es).ghost) :
    LockCovers (runEvents k c (start k c {}).1 es) x :=
  votes_lock_grandparent_partial k c (by rw [hc]; decide) es x id h (by rw [hc]; intro h; cases h)

/-- Clause 1 in full for both rule sets wherever no block is stored under the empty hash (lookups are
stable, so then none ever was). -/
theorem votes_lock_grandparent_noempty (k : Keys) (c : RCfg) (hc : c.rules ≠ .fast) (es : List Ev)
    (x : Block) (id : Nat) (h : GRec.vote x id ∈ (runEvents k c (start k c {}).1 es).ghost)
    (hne : sget (runEvents k c (start k c {}).1 es) "" = none) :
    LockCovers (runEvents k c (start k c {}).1 es) x := by
  refine votes_lock_grandparent_partial k c hc es x id h (fun _ hx => ?_)
  obtain ⟨p, hp, _⟩ := voted_links_stored k c hc es x id h
  rw [hx, hne] at hp; cases hp

/-- the unconditional form: `LockCovers`, or the rule set is chained and the vote's certificate names
the empty hash -/
theorem votes_lock_grandparent_weak (k : Keys) (c : RCfg) (hc : c.rules ≠ .fast) (es : List Ev)
    (x : Block) (id : Nat) (h : GRec.vote x id ∈ (runEvents k c (start k c {}).1 es).ghost) :
    (c.rules = .chained ∧ x.qc.hash = "") ∨ LockCovers (runEvents k c (start k c {}).1 es) x :=
  (linv_vote_covered c _ (reachable_linv k c hc es) x id h).2

/-- **One-step preservation of clause 1**, from any state satisfying the invariant: after delivering
any event, every vote (old or new) whose certificate does not name the empty hash is covered. -/
theorem step_votes_lock_grandparent_partial (k : Keys) (c : RCfg) (hc : c.rules ≠ .fast) (s : RState) (e : Ev)
    (h : LInv c s) (x : Block) (id : Nat) (hm : GRec.vote x id ∈ (step k c s e).1.ghost)
    (hx : c.rules = .chained → x.qc.hash ≠ "") : LockCovers (step k c s e).1 x :=
  linv_lockCovers c hc _ (step_linv k c hc s e h) x id hm hx

section Counterexamples
deriving instance DecidableEq for GRec

def cxKeys : Keys := ⟨tmoMsgKey⟩
/-- a BLS quorum certificate by replicas 1, 2, 3 (checkable without truth-table entries) -/
def cxQC (h : Hash) (v : Nat) : QC :=
  ⟨some (.bls [⟨1, blkMsg h⟩, ⟨2, blkMsg h⟩, ⟨3, blkMsg h⟩] [] (((Bitfield.empty.add 1).add 2).add 3)), v, h⟩

def cxChained : RCfg := { n := 4, id := 1, rules := .chained, agg := false, scheme := .bls12 }
def cxA : Block := { hash := "A", parent := "G", view := 1, proposer := 2, qc := genesisQC }
/-- a block whose hash is the empty string -/
def cxE : Block := { hash := "", parent := "A", view := 2, proposer := 3, qc := cxQC "A" 1 }
def cxC : Block := { hash := "C", parent := "", view := 3, proposer := 4, qc := cxQC "" 2 }
def cxEvents : List Ev := [.propose 2 cxA none, .propose 3 cxE none, .propose 4 cxC none]

/-- Chained HotStuff, three proposals by the leaders of views 1–3: `A`, then a block of hash `""`
certifying `A`, then `C` certifying the block of hash `""`.  All three are voted for; when `C` is
committed-checked, `qcRef` follows no certificate with the empty hash, so the lock stays at genesis
(view 0) although `C`'s certificate-grandparent `A` (view 1) is stored. -/
theorem votes_lock_grandparent_counterexample :
    ∃ (k : Keys) (c : RCfg) (es : List Ev) (x : Block) (id : Nat), c.rules ≠ .fast ∧
      GRec.vote x id ∈ (runEvents k c (start k c {}).1 es).ghost ∧
      ¬ LockCovers (runEvents k c (start k c {}).1 es) x := by
  refine ⟨cxKeys, cxChained, cxEvents, cxC, 4, by decide, by decide +kernel, ?_⟩
  rintro ⟨p, hp, h2⟩
  have h1 : sget (runEvents cxKeys cxChained (start cxKeys cxChained {}).1 cxEvents) "" = some cxE := by decide +kernel
  have h3 : sget (runEvents cxKeys cxChained (start cxKeys cxChained {}).1 cxEvents) "A" = some cxA := by decide +kernel
  have h4 : (runEvents cxKeys cxChained (start cxKeys cxChained {}).1 cxEvents).lock.view = 0 := by decide +kernel
  have hp' : sget (runEvents cxKeys cxChained (start cxKeys cxChained {}).1 cxEvents) "" = some p := hp
  rw [h1] at hp'
  cases hp'
  rcases h2 with h2 | ⟨g, hg, hv⟩
  · exact absurd h2 (by decide)
  · have hg' : sget (runEvents cxKeys cxChained (start cxKeys cxChained {}).1 cxEvents) "A" = some g := hg
    rw [h3] at hg'
    cases hg'
    rw [h4] at hv
    exact absurd hv (by decide)

def cxSimple : RCfg := { n := 4, id := 1, rules := .simple, agg := false, scheme := .bls12 }
/-- a view-1 proposal whose hash is the empty string -/
def cxS : Block := { hash := "", parent := "G", view := 1, proposer := 2, qc := genesisQC }

/-- Simplified HotStuff, one proposal by the leader of view 1 whose hash is `""`: it certifies genesis,
genesis's own certificate names the hash `""`, `commitRule` looks that up with plain `Get`, finds the
block just stored, and locks on it: the lock is reached over a link `p.qc.hash = ""`. -/
theorem lock_from_votes_counterexample :
    ∃ (k : Keys) (c : RCfg) (es : List Ev), c.rules ≠ .fast ∧ ¬ LockFrom (runEvents k c (start k c {}).1 es) := by
  refine ⟨cxKeys, cxSimple, [.propose 2 cxS none], by decide, ?_⟩
  have hl : (runEvents cxKeys cxSimple (start cxKeys cxSimple {}).1 [.propose 2 cxS none]).lock = cxS := by decide +kernel
  have hb : (runEvents cxKeys cxSimple (start cxKeys cxSimple {}).1 [.propose 2 cxS none]).chain.blocks
      = [("", cxS), (genesisHash, genesisBlock)] := by decide +kernel
  rintro (h | ⟨x, id, p, _, _, hne, hp⟩)
  · rw [hl] at h; exact absurd h (by decide)
  · unfold sget at hp
    rw [hb, hl] at hp
    simp only [List.lookup] at hp
    split at hp
    · rename_i heq
      exact hne (by simpa using heq)
    · split at hp
      · exact absurd (Option.some.inj hp) (by decide)
      · cases hp

/-- non-vacuity: with ordinary hashes the lock does move — after proposals `A`, `B` (certifying `A`),
`C` (certifying `B`) the chained replica has voted for `C` and is locked on `A` -/
def nvB : Block := { hash := "B", parent := "A", view := 2, proposer := 3, qc := cxQC "A" 1 }
def nvC : Block := { hash := "C", parent := "B", view := 3, proposer := 4, qc := cxQC "B" 2 }
example : GRec.vote nvC 4 ∈ (runEvents cxKeys cxChained (start cxKeys cxChained {}).1
    [.propose 2 cxA none, .propose 3 nvB none, .propose 4 nvC none]).ghost := by decide +kernel
example : (runEvents cxKeys cxChained (start cxKeys cxChained {}).1
    [.propose 2 cxA none, .propose 3 nvB none, .propose 4 nvC none]).lock = cxA := by decide +kernel
end Counterexamples

/-! ### 2. where the lock comes from -/

/-- what the invariant says about the lock: it is genesis, or the stored certificate-grandparent of a
block voted for, reached over links that — for chained HotStuff — do not name the empty hash -/
theorem linv_lock_from (c : RCfg) (s : RState) (h : LInv c s) :
    s.lock = genesisBlock ∨
    ∃ x id p, GRec.vote x id ∈ s.ghost ∧ sget s x.qc.hash = some p ∧
      (c.rules = .chained → x.qc.hash ≠ "" ∧ p.qc.hash ≠ "") ∧ sget s p.qc.hash = some s.lock := by
  rcases h.2.2 with h | ⟨x, id, hm, p, hp, hh, hl⟩
  · exact Or.inl h
  · exact Or.inr ⟨x, id, p, hm, hp, hh, hl⟩

/-- the invariant gives `LockFrom` for chained HotStuff, and for simplified HotStuff wherever no block
is stored under the empty hash -/
theorem linv_lockFrom (c : RCfg) (s : RState) (h : LInv c s) (hs : c.rules ≠ .chained → sget s "" = none) :
    LockFrom s := by
  rcases linv_lock_from c s h with h | ⟨x, id, p, hm, hp, hh, hl⟩
  · exact Or.inl h
  · refine Or.inr ⟨x, id, p, hm, hp, ?_, hl⟩
    by_cases hch : c.rules = .chained
    · exact (hh hch).2
    · intro he
      rw [he, hs hch] at hl; cases hl

/- FULL STATEMENT of clause 2 (false of the model for simplified HotStuff, see
`lock_from_votes_counterexample`):
   c.rules ≠ .fast → LockFrom (runEvents k c (start k c {}).1 es) -/

/-- **The lock comes from a vote**, clause 2 in full for chained HotStuff: in every reachable state the
lock is `genesisBlock` or the stored certificate-grandparent of a block voted for. -/
theorem lock_from_votes_chained (k : Keys) (c : RCfg) (hc : c.rules = .chained) (es : List Ev) :
    LockFrom (runEvents k c (start k c {}).1 es) :=
  linv_lockFrom c _ (reachable_linv k c (by rw [hc]; decide) es) (fun h => absurd hc h)

/-- Clause 2 for both rule sets; for simplified HotStuff wherever no block is stored under the empty
hash. -/
theorem lock_from_votes_partial (k : Keys) (c : RCfg) (hc : c.rules ≠ .fast) (es : List Ev)
    (hne : c.rules = .simple → sget (runEvents k c (start k c {}).1 es) "" = none) :
    LockFrom (runEvents k c (start k c {}).1 es) :=
  linv_lockFrom c _ (reachable_linv k c hc es) (fun h => hne (by cases hr : c.rules <;> simp_all))

/-- the unconditional form, with the empty-hash side conditions exactly where `commitRule` has them -/
theorem lock_from_votes_weak (k : Keys) (c : RCfg) (hc : c.rules ≠ .fast) (es : List Ev) :
    (runEvents k c (start k c {}).1 es).lock = genesisBlock ∨
    ∃ x id p, GRec.vote x id ∈ (runEvents k c (start k c {}).1 es).ghost ∧
      sget (runEvents k c (start k c {}).1 es) x.qc.hash = some p ∧
      (c.rules = .chained → x.qc.hash ≠ "" ∧ p.qc.hash ≠ "") ∧
      sget (runEvents k c (start k c {}).1 es) p.qc.hash = some (runEvents k c (start k c {}).1 es).lock :=
  linv_lock_from c _ (reachable_linv k c hc es)

/-- **One-step preservation of clause 2**, from any state satisfying the invariant. -/
theorem step_lock_from_votes_partial (k : Keys) (c : RCfg) (hc : c.rules ≠ .fast) (s : RState) (e : Ev)
    (h : LInv c s) (hne : c.rules = .simple → sget (step k c s e).1 "" = none) : LockFrom (step k c s e).1 :=
  linv_lockFrom c _ (step_linv k c hc s e h) (fun h => hne (by cases hr : c.rules <;> simp_all))

/-! ### 3. by-products -/

/-- The locked block is in the block store (under the hash its voted grandchild's certificate chain
names, or as genesis). -/
theorem lock_stored (k : Keys) (c : RCfg) (hc : c.rules ≠ .fast) (es : List Ev) :
    ∃ h, sget (runEvents k c (start k c {}).1 es) h = some (runEvents k c (start k c {}).1 es).lock := by
  have hi := reachable_linv k c hc es
  rcases linv_lock_from c _ hi with h | ⟨x, id, p, _, _, _, hl⟩
  · exact ⟨genesisHash, by rw [h]; exact hi.1 genesisHash genesisBlock (by simp [G0])⟩
  · exact ⟨_, hl⟩

/-- Genesis stays in the block store. -/
theorem genesis_stored (k : Keys) (c : RCfg) (hc : c.rules ≠ .fast) (es : List Ev) :
    sget (runEvents k c (start k c {}).1 es) genesisHash = some genesisBlock :=
  (reachable_linv k c hc es).1 genesisHash genesisBlock (by simp [G0])

end HsVerif.Props.C01LockInv
