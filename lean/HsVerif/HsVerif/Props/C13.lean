import HsVerif.Proofs.Blockchain
/-! C13 — the block store is content-addressed and its ancestry answers are exact.
Property theorems only.  Model: `HsVerif.Model.Chain` (security/blockchain/blockchain.go with
fixes/C13-prune-forks.diff, `qspec.RequestBlockQF`, protocol/consensus/committer.go). -/
set_option linter.unusedVariables false
namespace HsVerif.Props.C13
open HsVerif.Model.Chain

/-! ## 1. content addressing -/

/-- A block found locally under `h` has hash `h` (in every content-addressed store; all reachable
stores are, see `reachable_content_addressed`). -/
theorem get_has_hash_local (s : Store) (h : Nat) (b : Block) (hs : Consistent s)
    (hg : localGet s h = some b) : b.hash = h := hs h b hg

/-- `Get`, local or fetched, returns a block of the requested hash — whatever arrives concurrently
— as long as the sender's replies have the requested hash. -/
theorem get_has_hash (s : Store) (net : Net) (h : Nat) (b : Block) (hs : Consistent s)
    (hn : HonestNet net) (hg : (get s net h).2 = some b) : b.hash = h :=
  get_result_hash s net h b hs hn hg

/-- `RequestBlockQF` only lets a reply through whose recomputed hash is the requested one … -/
theorem requestBlockQF_filters (h : Nat) (replies : List Block) (b : Block)
    (hb : requestBlockQF h replies = some b) : b.hash = h ∧ b ∈ replies :=
  requestBlockQF_hash h replies b hb

/-- … and lets one through whenever some reply matches, so lying replies cannot mask an honest one. -/
theorem requestBlockQF_finds (h : Nat) (replies : List Block) (b : Block) (hb : b ∈ replies)
    (hh : b.hash = h) : ∃ r, requestBlockQF h replies = some r := by
  cases hq : requestBlockQF h replies with
  | some r => exact ⟨r, rfl⟩
  | none => exact absurd hh (requestBlockQF_none h replies hq b hb)

/-- Hence every sender that answers through the gorums quorum function is honest in the sense
needed above, for arbitrary (lying, missing, duplicated) replies and arbitrary concurrent arrivals. -/
theorem qf_net_honest (arr : Nat → Option Block) (replies : Nat → List Block) :
    HonestNet (fun h => { arrive := arr h, reply := requestBlockQF h (replies h) }) := by
  intro h b hb
  exact (requestBlockQF_hash h (replies h) b hb).1

/-- The assumption is needed: `Get` itself writes the reply under the requested hash unchecked
(a `core.Sender` other than the gorums one must filter too). -/
theorem get_unfiltered_counterexample :
    ∃ (s : Store) (net : Net) (h : Nat) (b : Block),
      Consistent s ∧ (get s net h).2 = some b ∧ b.hash ≠ h ∧ ¬ Consistent (get s net h).1 := by
  refine ⟨init, fun _ => { reply := some ⟨7, 1, 1⟩ }, 5, ⟨7, 1, 1⟩, consistent_init, ?_, by decide, ?_⟩
  · rw [init_eq]; rfl
  · intro hc
    have := hc 5 ⟨7, 1, 1⟩ (by rw [init_eq]; rfl)
    exact absurd this (by decide)

/-- Every store reachable from `New` by any sequence of Store / Get / Extends / PruneToHeight /
TryCommit (any fuel, any blocks, any filtered network behaviour) is content-addressed and its
per-view map points at stored blocks of that view. -/
theorem reachable_content_addressed (fuel : Nat) (ops : List Op) (hg : ∀ op ∈ ops, op.good) :
    Consistent (run fuel ops).1.store ∧ HeightWF (run fuel ops).1.store := by
  have := (inv_runFrom fuel ops cinit [] hg inv_cinit List.nodup_nil).1
  exact ⟨this.cons, this.wf⟩

/-- … so after any such sequence, whatever `Get` returns for `h` has hash `h`. -/
theorem get_has_hash_reachable (fuel : Nat) (ops : List Op) (hg : ∀ op ∈ ops, op.good)
    (net : Net) (hn : HonestNet net) (h : Nat) (b : Block)
    (hb : (get (run fuel ops).1.store net h).2 = some b) : b.hash = h :=
  get_result_hash _ net h b (reachable_content_addressed fuel ops hg).1 hn hb

/-- Storing the same block again changes nothing (no hypothesis at all). -/
theorem store_idempotent (s : Store) (b : Block) : store (store s b) b = store s b := by
  cases hm : mget s.blocks b.hash with
  | some x =>
    have : store s b = s := store_present s b x hm
    rw [this, this]
  | none =>
    have h1 : mget (store s b).blocks b.hash = some b := by
      unfold store; rw [hm]; simp [mget_mset]
    exact store_present _ b b h1

/-- More generally, storing any block whose hash is already present changes nothing. -/
theorem store_existing_noop (s : Store) (b x : Block) (h : mget s.blocks b.hash = some x) :
    store s b = s := store_present s b x h

/-- A stored block can be read back (content-addressed stores). -/
theorem store_then_get (s : Store) (b : Block) (hs : Consistent s) :
    ∃ x, localGet (store s b) b.hash = some x ∧ x.hash = b.hash := store_get_self s b hs

/-! ## 2. ancestry -/

/-- `Extends(b, t)` says yes only if a block with `t`'s hash is `b` or on `b`'s parent chain
(no assumption on views). -/
theorem extends_sound (s : Store) (f : Nat → Option Block) (b t : Block) (fuel : Nat)
    (h : (extendsAux (pureNet f) t fuel s b).2 = true) :
    ∃ c, OnChain (lookF s f) b c ∧ c.hash = t.hash :=
  let ⟨c, h1, h2, _⟩ := extendsAux_sound f t fuel s b h
  ⟨c, h1, h2⟩

/-- If views grow along parent links, `Extends(b, t)` says yes whenever `t` is `b` or on `b`'s
parent chain — forks, equal views on other branches, gaps elsewhere do not matter. -/
theorem extends_complete (s : Store) (f : Nat → Option Block) (b t : Block) (fuel : Nat)
    (hfuel : b.view < fuel) (hvg : ViewsGrow (lookF s f)) (hb : Grows (lookF s f) b)
    (hc : OnChain (lookF s f) b t) : (extendsAux (pureNet f) t fuel s b).2 = true :=
  extendsAux_complete f t fuel s b hvg hb hc hfuel

/-- Exactness: for every store and sender in which views grow along parent links, every fuel above
`b`'s view, `Extends(b, t)` is true exactly when `t` is `b` or lies on `b`'s parent chain (a chain
stops at a block that is neither stored nor fetchable).  `hinj` is collision resistance where it is
used: a block on the chain with `t`'s hash is `t`. -/
theorem extends_exact (s : Store) (f : Nat → Option Block) (b t : Block) (fuel : Nat)
    (hfuel : b.view < fuel) (hvg : ViewsGrow (lookF s f)) (hb : Grows (lookF s f) b)
    (hinj : ∀ c, OnChain (lookF s f) b c → c.hash = t.hash → c = t) :
    (extendsAux (pureNet f) t fuel s b).2 = true ↔ OnChain (lookF s f) b t := by
  constructor
  · intro h
    obtain ⟨c, h1, h2⟩ := extends_sound s f b t fuel h
    rw [← hinj c h1 h2]; exact h1
  · exact extends_complete s f b t fuel hfuel hvg hb

/-- The same for the model's `extends` (fuel = view + 1) on the local store alone; the store is
left untouched. -/
theorem extends_exact_local (s : Store) (b t : Block)
    (hvg : ViewsGrow (mget s.blocks)) (hb : Grows (mget s.blocks) b)
    (hinj : ∀ c, OnChain (mget s.blocks) b c → c.hash = t.hash → c = t) :
    ((«extends» s (pureNet fun _ => none) b t).2 = true ↔ OnChain (mget s.blocks) b t) ∧
    («extends» s (pureNet fun _ => none) b t).1 = s := by
  refine ⟨?_, extendsAux_local_store t _ s b⟩
  have := extends_exact s (fun _ => none) b t (b.view + 1) (Nat.lt_succ_self _)
    (by rw [lookF_none]; exact hvg) (by rw [lookF_none]; exact hb) (by rw [lookF_none]; exact hinj)
  rw [lookF_none] at this
  exact this

/-- What `Extends` fetched is kept, and nothing it could find before is lost or changed. -/
theorem extends_keeps_lookups (s : Store) (f : Nat → Option Block) (b t : Block) (fuel : Nat) :
    lookF (extendsAux (pureNet f) t fuel s b).1 f = lookF s f := extendsAux_look f t fuel s b

/-- Without growing views the answer can be wrong: a parent with a *higher* view than its child
(1 ← view 5, child view 2) is an ancestor, yet `Extends(child, parent)` is false. -/
theorem extends_inversion_counterexample :
    ∃ (s : Store) (b t : Block), Consistent s ∧ OnChain (mget s.blocks) b t ∧
      ¬ ViewsGrow (mget s.blocks) ∧ («extends» s (pureNet fun _ => none) b t).2 = false := by
  let p : Block := ⟨2, 1, 5⟩
  let c : Block := ⟨3, 2, 2⟩
  refine ⟨store (store init p) c, c, p, consistent_store _ _ (consistent_store _ _ consistent_init),
    OnChain.step (p := p) (by rw [init_eq]; rfl) (OnChain.refl p), ?_, by rw [init_eq]; rfl⟩
  intro hvg
  have := hvg 3 c (by rw [init_eq]; rfl) p (by rw [init_eq]; rfl)
  exact absurd this (by decide)

/-! ## 3. pruning and aborts -/

/-- `PruneToHeight(committed, height)` never reports a block that is the committed block or on
its parent chain, in every store whose per-view map is well formed (all reachable ones) and whose
views grow along parent links — whatever equivocating blocks, forks and gaps it contains. -/
theorem prune_reports_only_forks (fuel : Nat) (s : Store) (c : Block) (height : Nat) (r : Block)
    (hw : HeightWF s) (hvg : ViewsGrow (mget s.blocks)) (hc : Grows (mget s.blocks) c)
    (hfuel : c.view < fuel) (hr : r ∈ (pruneToHeight fuel s c height).2) :
    ¬ OnChain (mget s.blocks) c r := prune_only_forks fuel s c height r hw hvg hc hfuel hr

/-- Reported blocks are stored blocks from the pruned views, one per view at most. -/
theorem prune_reports_stored (fuel : Nat) (s : Store) (c : Block) (height : Nat) (r : Block)
    (hw : HeightWF s) (hr : r ∈ (pruneToHeight fuel s c height).2) :
    s.pruneHeight < r.view ∧ r.view ≤ height ∧ mget s.blocks r.hash = some r := by
  obtain ⟨v, h1, h2, h3, _⟩ := prune_forked_spec fuel s c height r hr
  obtain ⟨hv, hb⟩ := hw v r h3
  exact ⟨by omega, by omega, hb⟩

/-- Over any sequence of operations from `New` — stores, gets, ancestry queries, direct prunes and
commits through the committer, with any fuel, any blocks (equivocation and gaps included) and any
filtered network behaviour — no hash is reported as forked twice. -/
theorem prune_reports_once (fuel : Nat) (ops : List Op) (hg : ∀ op ∈ ops, op.good) :
    (run fuel ops).2.Nodup := (inv_runFrom fuel ops cinit [] hg inv_cinit List.nodup_nil).2

/-- The committer: the blocks for which `commit` emits an `AbortEvent` are never the newly
committed block nor on its parent chain. -/
theorem commit_aborts_only_forks (R : List Nat) (fuel : Nat) (net : Net) (cs cs' : CState)
    (block : Block) (ex ab : List Block) (hg : GoodNet net) (hi : Inv cs.store R)
    (h : commit fuel net cs block = (cs', .ok ex ab))
    (hvg : ViewsGrow (mget cs'.store.blocks)) (hc : Grows (mget cs'.store.blocks) cs'.committed)
    (hfuel : cs'.committed.view < fuel) :
    ∀ r ∈ ab, ¬ OnChain (mget cs'.store.blocks) cs'.committed r := by
  have h1 := inv_commitInner R net cs.committed fuel cs.store block hg.1 hg.2 hi
  unfold commit at h
  cases hci : commitInner net cs.committed fuel cs.store block with
  | mk s1 o =>
    rw [hci] at h h1
    cases o with
    | none => simp at h
    | some ex' =>
      simp only [Prod.mk.injEq, CommitResult.ok.injEq] at h
      obtain ⟨h2, _, h4⟩ := h
      subst h2 h4
      intro r hr
      exact prune_only_forks fuel s1 _ block.view r h1.wf hvg hc hfuel hr

/-- What `commit` executes is the new committed block and blocks on its parent chain … -/
theorem commit_executes_chain (fuel : Nat) (net : Net) (cs cs' : CState) (block : Block)
    (ex ab : List Block) (h : commit fuel net cs block = (cs', .ok ex ab)) :
    ∀ x ∈ ex, OnChain (mget cs'.store.blocks) cs'.committed x :=
  commit_exec_chain fuel net cs cs' block ex ab h

/-- … so no block is both executed and aborted by one commit. -/
theorem commit_never_aborts_executed (R : List Nat) (fuel : Nat) (net : Net) (cs cs' : CState)
    (block : Block) (ex ab : List Block) (hg : GoodNet net) (hi : Inv cs.store R)
    (h : commit fuel net cs block = (cs', .ok ex ab))
    (hvg : ViewsGrow (mget cs'.store.blocks)) (hc : Grows (mget cs'.store.blocks) cs'.committed)
    (hfuel : cs'.committed.view < fuel) : ∀ x ∈ ex, x ∉ ab := fun x hx hab =>
  commit_aborts_only_forks R fuel net cs cs' block ex ab hg hi h hvg hc hfuel x hab
    (commit_executes_chain fuel net cs cs' block ex ab h x hx)

/-- The unrepaired `PruneToHeight(committedHeight, height)` violates this.  Store g ← a(1) ← b(2)
← c(3), then the equivocating a2(view 1) and c2(view 3, parent a2); committing c reports b, which
is on c's chain (the block reached from the per-view map at view 3 is c2).  The repaired function
reports exactly the two abandoned blocks on the same input. -/
theorem prune_unrepaired_counterexample :
    ∃ (s : Store) (c r : Block), (∃ ops, (∀ op ∈ ops, op.good) ∧ (run 9 ops).1.store = s) ∧
      ViewsGrow (mget s.blocks) ∧ r ∈ (pruneToHeightOld 9 s c.view c.view).2 ∧
      OnChain (mget s.blocks) c r ∧ (pruneToHeight 9 s c c.view).2 = [⟨7, 6, 3⟩, ⟨6, 1, 1⟩] := by
  let a : Block := ⟨2, 1, 1⟩
  let b : Block := ⟨3, 2, 2⟩
  let c : Block := ⟨4, 3, 3⟩
  let a2 : Block := ⟨6, 1, 1⟩
  let c2 : Block := ⟨7, 6, 3⟩
  let s : Store := ⟨[(7, c2), (6, a2), (4, c), (3, b), (2, a), (1, genesis)], [(3, c2), (1, a2), (3, c), (2, b), (1, a), (0, genesis)], 0⟩
  have hs : (run 9 [.store a, .store b, .store c, .store a2, .store c2]).1.store = s := by
    simp only [run, runFrom, stepOp, cinit]
    rw [init_eq]; rfl
  refine ⟨s, c, b, ⟨_, ?_, hs⟩, viewsGrow_of_check _ (by decide), by decide,
    OnChain.step (p := b) rfl (OnChain.refl b), by decide⟩
  intro op hop; simp at hop; rcases hop with h | h | h | h | h <;> subst h <;> trivial

/-! ## non-vacuity -/

/-- a forest with a fork, equal views on two branches (3 and 3), and a gap (hash 9 is missing) -/
def demo : Store :=
  [⟨2, 1, 1⟩, ⟨3, 2, 2⟩, ⟨4, 3, 3⟩, ⟨6, 1, 1⟩, ⟨7, 6, 3⟩, (⟨10, 9, 5⟩ : Block)].foldl store init

example : («extends» demo (pureNet fun _ => none) ⟨4, 3, 3⟩ ⟨2, 1, 1⟩).2 = true ∧
    («extends» demo (pureNet fun _ => none) ⟨7, 6, 3⟩ ⟨2, 1, 1⟩).2 = false ∧
    («extends» demo (pureNet fun _ => none) ⟨7, 6, 3⟩ ⟨4, 3, 3⟩).2 = false ∧
    («extends» demo (pureNet fun _ => none) ⟨10, 9, 5⟩ genesis).2 = false ∧
    («extends» demo (pureNet fun h => if h = 9 then some ⟨9, 4, 4⟩ else none) ⟨10, 9, 5⟩ ⟨3, 2, 2⟩).2 = true := by
  decide

/-- the hypotheses of the theorems are satisfiable together: `demo` is reachable, content-addressed,
well formed, and its views grow -/
example : ViewsGrow (mget demo.blocks) ∧ Consistent demo ∧ HeightWF demo := by
  have h := reachable_content_addressed 9
    [.store ⟨2, 1, 1⟩, .store ⟨3, 2, 2⟩, .store ⟨4, 3, 3⟩, .store ⟨6, 1, 1⟩, .store ⟨7, 6, 3⟩, .store ⟨10, 9, 5⟩]
    (by intro op hop; simp at hop; rcases hop with h | h | h | h | h | h <;> subst h <;> trivial)
  have e : (run 9 [.store ⟨2, 1, 1⟩, .store ⟨3, 2, 2⟩, .store ⟨4, 3, 3⟩, .store ⟨6, 1, 1⟩, .store ⟨7, 6, 3⟩,
      .store ⟨10, 9, 5⟩]).1.store = demo := by
    simp only [run, runFrom, stepOp, cinit, demo, List.foldl]
  rw [e] at h
  exact ⟨viewsGrow_of_check _ (by decide), h.1, h.2⟩

example : (pruneToHeight 9 demo ⟨4, 3, 3⟩ 3).2 = [⟨7, 6, 3⟩, ⟨6, 1, 1⟩] ∧
    (pruneToHeight 9 (pruneToHeight 9 demo ⟨4, 3, 3⟩ 3).1 ⟨4, 3, 3⟩ 5).2 = [⟨10, 9, 5⟩] := by decide

example : requestBlockQF 4 [⟨5, 3, 3⟩, ⟨4, 3, 3⟩] = some ⟨4, 3, 3⟩ ∧ requestBlockQF 4 [⟨5, 3, 3⟩] = none := by
  decide

end HsVerif.Props.C13
