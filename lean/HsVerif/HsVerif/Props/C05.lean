import HsVerif.Proofs.ReplicaLive
import HsVerif.Props.C04
import HsVerif.Props.C08
/-! C05 — progress resumes once a quorum is synchronous.  Property theorems (partial).

Liveness of the whole system under timing assumptions is not a Lean theorem here (timers,
scheduling and message delay live in the runtime).  What is proved, for every state and input,
are the logical steps every progress argument rests on: (1) the synchronizer always leaves a view
on an accepted certificate for that or a later view; (2) a quorum of timeouts of one view always
yields that view's certificate (C08); (3) the vote rules never refuse a well-formed proposal built
on a certified block above the lock, once the replica knows the blocks; and the negative result
(4): under the aggregate timeout rule a plain QC refreshes the high QC but cannot move the view
(since `fix:` 4f3d40f; before, it was ignored altogether).  The end-to-end claim is judged on the real replicas
by the `clusterlive` oracle. -/
open Std.Do
namespace HsVerif.Props.C05
open HsVerif.Model HsVerif.Proofs

/-- **(1) Synchronizer progress.**  If `verifySyncInfo` accepts `si` in state `s` with certified
view `w` and `w` is at least the current view, `advanceView` ends in view `w + 1` — the view after the
certificate's (`EnterViewAfter`), which is at least `s.view + 1` (RESTATED: was `s.view + 1`). -/
theorem view_moves_on_accepted_certificate (k : Keys) (c : RCfg) (si : SyncInfo) (s : RState) (w : Nat)
    (ha : Accepts k c si s w) (hw : s.view ≤ w) :
    ((advanceView k c si).run s).2.view = w + 1 ∧ s.view + 1 ≤ ((advanceView k c si).run s).2.view := by
  have := run_res_of_triple (advanceView k c si) (fun s' => s'.view = s.view ∧ Accepts k c si s' w)
    (fun _ s' => s'.view = w + 1) (advanceView_progress k c si s.view w hw) s ⟨rfl, ha⟩
  exact ⟨this, by rw [this]; omega⟩

/-- **(2) A quorum of timeouts of one view yields the certificate material** (restating C08's
`collector_exact`): the message that completes `q` messages of its view makes the collector hand
out exactly the messages of that view. -/
theorem timeout_quorum_completes (q : Nat) (ts : List TimeoutMsg) (t : TimeoutMsg)
    (hk : HsVerif.Props.C08.Keyed ts) (hnew : ¬ ∃ x ∈ ts, x.view = t.view ∧ x.id = t.id)
    (hq : q ≤ (HsVerif.Props.C08.ofView (ts ++ [t]) t.view).length) :
    (collectorAdd q ts t).2 = some (HsVerif.Props.C08.ofView (ts ++ [t]) t.view) := by
  have := (HsVerif.Props.C08.collector_exact q ts t hk hnew).1 hq
  rw [this]

open HsVerif.Model.Rules HsVerif.Spec.Rules in
/-- **(3a) chained HotStuff**: a proposal whose certified block is known, higher than the lock, and
whose own certified block is known (or absent) is voted for — the liveness branch of `safeNode`. -/
theorem chained_votes_above_lock (s : HsVerif.Model.Rules.Store) (lock b j : HsVerif.Model.Rules.Block)
    (hj : s b.qcHash = some j) (hv : j.view > lock.view)
    (hk : j.qcHash = 0 ∨ (s j.qcHash).isSome = true) : chainedVote s lock b = true := by
  unfold chainedVote bcGet
  rw [hj]
  simp only
  have hno : ¬(j.qcHash ≠ 0 ∧ (s j.qcHash).isNone = true) := by
    rintro ⟨h0, hn⟩
    rcases hk with h | h
    · exact h0 h
    · cases hs : s j.qcHash with
      | none => simp [hs] at h
      | some _ => simp [hs] at hn
  rw [if_neg hno, if_pos hv]

open HsVerif.Model.Rules HsVerif.Spec.Rules in
/-- **(3b) simplified HotStuff**: a proposal for the current or a later view whose parent is known,
not below the lock, and whose grandparent is known is voted for. -/
theorem simple_votes_at_or_above_lock (s : HsVerif.Model.Rules.Store) (locked b p : HsVerif.Model.Rules.Block) (cur : Nat)
    (hcur : b.view ≥ cur) (hp : s b.qcHash = some p) (hv : p.view ≥ locked.view)
    (hk : p.qcHash = 0 ∨ (s p.qcHash).isSome = true) : simpleVote s locked cur b = true := by
  rw [HsVerif.Props.C04.simple_vote_eq_spec]
  refine ⟨⟨hcur, p, hp, hv⟩, ?_⟩
  intro j hj
  unfold justified at hj
  rw [hp] at hj; cases hj; exact hk

open HsVerif.Model.Rules HsVerif.Spec.Rules in
/-- **(3c) Fast-HotStuff, happy path**: a proposal for the current or a later view that directly
follows its certified block's view is voted for. -/
theorem fast_votes_next_view (s : HsVerif.Model.Rules.Store) (b : HsVerif.Model.Rules.Block) (cur : Nat)
    (hcur : b.view ≥ cur) (hn : b.view = b.qcView + 1) : fastVote s cur b false = true :=
  (HsVerif.Props.C04.fast_vote_plain_eq_spec s cur b).2 ⟨hn, hcur⟩

/-- **(4) The aggregate timeout rule and plain quorum certificates** (as repaired by `fix:` 4f3d40f;
before, the answer was `ok (none, 0, false)` whatever the certificate, so the high QC of a
Fast-HotStuff replica never moved and a Byzantine leader could fork below voted blocks —
corpus/cluster/02): a sync info that carries only a quorum certificate is rejected when the
certificate does not verify, and otherwise accepted with THAT certificate as high-QC candidate and
certified view 0 — it refreshes the high QC but, every current view being at least 1, cannot move
the view (the repository's TestAdvanceView demands the latter). -/
theorem aggregate_rule_plain_qc (k : Keys) (c : RCfg) (hc : c.agg = true) (q : QC) (s : RState) :
    ((verifySyncInfo k c { qc := some q, tc := none, agg := none }).run s).1 =
      if ((verifyQCM k c q).run s).1 = true then VRes.ok (some q, 0, false) else VRes.reject := by
  simp only [verifySyncInfo, hc, StateT.run, pure, bind, StateT.bind, if_true]
  split
  next a s' heq =>
    have h1 : (verifyQCM k c q s).fst = a := by rw [heq]
    simp only [h1]
    cases a <;> rfl

end HsVerif.Props.C05
