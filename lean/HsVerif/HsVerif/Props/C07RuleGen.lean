import HsVerif.Gen.TimeoutRuleSimple
import HsVerif.Gen.TimeoutRuleAggregate
/-! C07 (timeout rules) — "the view moves only on verified evidence" ON THE REGENERATED CODE of
`protocol/synchronizer/timeoutrule_simple.go` and `timeoutrule_aggregate.go`.
`Gen/TimeoutRuleSimple.lean` / `Gen/TimeoutRuleAggregate.lean` are regenerated from the Go source on every run
(tools/gofacts/methods.go): `(s *Simple) VerifySyncInfo` and `(s *Aggregate) VerifySyncInfo` as pure functions (no
modelled field: the state tuple is empty).  The sync info, the certificates and the signature are opaque values; the
accessors `TC()` / `QC()` / `AggQC()` (value, present), `View()`, `Sig()`, and the certificate checks of the authority
(`true` = an error; `VerifyAggregateQC` returns the high QC and an error) are ARBITRARY parameters, collected in an
environment.  The result `*hotstuff.QuorumCert` is `Option QC`.  The theorems are about the code as regenerated. -/
set_option linter.unusedVariables false
namespace HsVerif.Props.C07RuleGen
open HsVerif.Gen.Methods

section simple
variable {SI TC QC : Type}

/-- The environment of the simple timeout rule. -/
structure SEnv (SI TC QC : Type) where
  tc : SI → TC × Bool
  qc : SI → QC × Bool
  tcView : TC → Int
  qcView : QC → Int
  verifyTC : TC → Bool
  verifyQC : QC → Bool

/-- `Simple.VerifySyncInfo` as regenerated, on an environment: (qc, view, timeout, err). -/
def sVerify (E : SEnv SI TC QC) (si : SI) : Option QC × Int × Bool × Bool :=
  (Simple_VerifySyncInfo E.tc E.qc E.tcView E.qcView E.verifyTC E.verifyQC si).2.1

/-- The view of the TC of `si` (0 without TC). -/
def sTCView (E : SEnv SI TC QC) (si : SI) : Int := if (E.tc si).2 = true then E.tcView (E.tc si).1 else 0

/-- The QC of `si` is present and its view is at least the TC's. -/
abbrev sQCWins (E : SEnv SI TC QC) (si : SI) : Prop := (E.qc si).2 = true ∧ E.qcView (E.qc si).1 ≥ sTCView E si

/-- No nil dereference is possible in the method (the flag stays set). -/
theorem simple_no_panic (E : SEnv SI TC QC) (si : SI) :
    (Simple_VerifySyncInfo E.tc E.qc E.tcView E.qcView E.verifyTC E.verifyQC si).2.2 = true := by
  unfold Simple_VerifySyncInfo
  by_cases h1 : (E.tc si).2 = true <;> by_cases h2 : (E.qc si).2 = true <;> by_cases h3 : E.verifyTC (E.tc si).1 = true <;>
    by_cases h4 : E.verifyQC (E.qc si).1 = true <;> simp [h1, h2, h3, h4] <;> (try split) <;> (try simp_all) <;> (try omega)

/-- `Simple.VerifySyncInfo` returns no error IFF every certificate present passed its verifier; and then the returned
QC, view and timeout flag are exactly these. -/
theorem simple_verify_spec (E : SEnv SI TC QC) (si : SI) :
    ((sVerify E si).2.2.2 = false ↔
      ((E.tc si).2 = true → E.verifyTC (E.tc si).1 = false) ∧ ((E.qc si).2 = true → E.verifyQC (E.qc si).1 = false)) ∧
    ((sVerify E si).2.2.2 = false →
      (sVerify E si).1 = (if (E.qc si).2 = true then some (E.qc si).1 else none) ∧
      (sVerify E si).2.1 = (if sQCWins E si then E.qcView (E.qc si).1 else sTCView E si) ∧
      (sVerify E si).2.2.1 = (if sQCWins E si then false else (E.tc si).2)) := by
  unfold sVerify sTCView Simple_VerifySyncInfo
  by_cases h1 : (E.tc si).2 = true <;> by_cases h2 : (E.qc si).2 = true <;> by_cases h3 : E.verifyTC (E.tc si).1 = true <;>
    by_cases h4 : E.verifyQC (E.qc si).1 = true <;> simp [sTCView, h1, h2, h3, h4] <;> (try split) <;> (try simp_all [sTCView]) <;> (try omega)

/-- C07: no error and a returned view `v > 0` ⇒ a verified TC of view `v` or a verified QC of view `v` is present. -/
theorem simple_view_needs_evidence (E : SEnv SI TC QC) (si : SI)
    (hok : (sVerify E si).2.2.2 = false) (hv : (sVerify E si).2.1 > 0) :
    ((E.tc si).2 = true ∧ E.verifyTC (E.tc si).1 = false ∧ E.tcView (E.tc si).1 = (sVerify E si).2.1) ∨
    ((E.qc si).2 = true ∧ E.verifyQC (E.qc si).1 = false ∧ E.qcView (E.qc si).1 = (sVerify E si).2.1) := by
  have hs := simple_verify_spec E si
  obtain ⟨hiff, hval⟩ := hs
  obtain ⟨hq, hview, ht⟩ := hval hok
  obtain ⟨htc, hqc⟩ := hiff.mp hok
  by_cases hw : sQCWins E si
  · right
    rw [if_pos hw] at hview
    exact ⟨hw.1, hqc hw.1, hview.symm⟩
  · left
    rw [if_neg hw] at hview
    unfold sTCView at hview
    by_cases hp : (E.tc si).2 = true
    · rw [if_pos hp] at hview
      exact ⟨hp, htc hp, hview.symm⟩
    · rw [if_neg hp] at hview; omega
end simple

section aggregate
variable {SI TC QC AggQC Sig : Type} [DecidableEq Sig]

/-- The environment of the aggregate timeout rule. -/
structure AEnv (SI TC QC AggQC Sig : Type) where
  sigNil : Sig
  tc : SI → TC × Bool
  qc : SI → QC × Bool
  aggQC : SI → AggQC × Bool
  tcView : TC → Int
  qcView : QC → Int
  aggView : AggQC → Int
  aggSig : AggQC → Sig
  verifyTC : TC → Bool
  verifyQC : QC → Bool
  verifyAgg : AggQC → QC × Bool

/-- `Aggregate.VerifySyncInfo` as regenerated, on an environment: (qc, view, timeout, err). -/
def aVerify (E : AEnv SI TC QC AggQC Sig) (si : SI) : Option QC × Int × Bool × Bool :=
  (Aggregate_VerifySyncInfo E.sigNil E.tc E.qc E.aggQC E.tcView E.qcView E.aggView E.aggSig E.verifyTC E.verifyQC
    E.verifyAgg si).2.1

/-- The view of the TC of `si` (0 without TC). -/
def aTCView (E : AEnv SI TC QC AggQC Sig) (si : SI) : Int := if (E.tc si).2 = true then E.tcView (E.tc si).1 else 0

/-- The aggregate QC of `si` is present and its view is at least the TC's. -/
abbrev aAggWins (E : AEnv SI TC QC AggQC Sig) (si : SI) : Prop :=
  (E.aggQC si).2 = true ∧ E.aggView (E.aggQC si).1 ≥ aTCView E si

/-- The aggregate QC of `si` has a signature and passes `VerifyAggregateQC`. -/
def aAggOK (E : AEnv SI TC QC AggQC Sig) (si : SI) : Prop :=
  E.aggSig (E.aggQC si).1 ≠ E.sigNil ∧ (E.verifyAgg (E.aggQC si).1).2 = false

/-- No nil dereference is possible in the method (the flag stays set). -/
theorem aggregate_no_panic (E : AEnv SI TC QC AggQC Sig) (si : SI) :
    (Aggregate_VerifySyncInfo E.sigNil E.tc E.qc E.aggQC E.tcView E.qcView E.aggView E.aggSig E.verifyTC E.verifyQC
      E.verifyAgg si).2.2 = true := by
  unfold Aggregate_VerifySyncInfo
  by_cases h1 : (E.tc si).2 = true <;> by_cases h2 : (E.qc si).2 = true <;> by_cases h3 : E.verifyTC (E.tc si).1 = true <;>
    by_cases h4 : E.verifyQC (E.qc si).1 = true <;> by_cases h5 : (E.aggQC si).2 = true <;> by_cases h6 : (E.verifyAgg (E.aggQC si).1).2 = true <;>
    by_cases h7 : E.aggSig (E.aggQC si).1 = E.sigNil <;> simp [h1, h2, h3, h4, h5, h6, h7] <;> (try split) <;> (try simp_all) <;> (try omega)

/-- `Aggregate.VerifySyncInfo` returns no error IFF the TC (if present) is verified and: the aggregate QC, if present,
has a signature and passes `VerifyAggregateQC`; otherwise the plain QC (if present) is verified.  And then the returned
QC is the high QC of the aggregate QC / the plain QC / none, the view is the larger of the TC's and the aggregate
QC's — the plain QC does NOT change the view. -/
theorem aggregate_verify_spec (E : AEnv SI TC QC AggQC Sig) (si : SI) :
    ((aVerify E si).2.2.2 = false ↔
      ((E.tc si).2 = true → E.verifyTC (E.tc si).1 = false) ∧
      ((E.aggQC si).2 = true → aAggOK E si) ∧
      ((E.aggQC si).2 = false → (E.qc si).2 = true → E.verifyQC (E.qc si).1 = false)) ∧
    ((aVerify E si).2.2.2 = false →
      (aVerify E si).1 = (if (E.aggQC si).2 = true then some (E.verifyAgg (E.aggQC si).1).1
                          else if (E.qc si).2 = true then some (E.qc si).1 else none) ∧
      (aVerify E si).2.1 = (if aAggWins E si then E.aggView (E.aggQC si).1 else aTCView E si) ∧
      (aVerify E si).2.2.1 = (if aAggWins E si then true else (E.tc si).2)) := by
  unfold aVerify aAggOK aTCView Aggregate_VerifySyncInfo
  by_cases h1 : (E.tc si).2 = true <;> by_cases h2 : (E.qc si).2 = true <;> by_cases h3 : E.verifyTC (E.tc si).1 = true <;>
    by_cases h4 : E.verifyQC (E.qc si).1 = true <;> by_cases h5 : (E.aggQC si).2 = true <;> by_cases h6 : (E.verifyAgg (E.aggQC si).1).2 = true <;>
    by_cases h7 : E.aggSig (E.aggQC si).1 = E.sigNil <;> simp [aTCView, h1, h2, h3, h4, h5, h6, h7] <;> (try split) <;> (try simp_all [aTCView]) <;> (try omega)

/-- With an aggregate QC of a non-negative view (Go views are unsigned) the returned view is the maximum of the two
views and the timeout flag is set. -/
theorem aggregate_aggqc_view_max (E : AEnv SI TC QC AggQC Sig) (si : SI)
    (hok : (aVerify E si).2.2.2 = false) (ha : (E.aggQC si).2 = true) (hnn : 0 ≤ E.aggView (E.aggQC si).1) :
    (aVerify E si).2.1 = max (aTCView E si) (E.aggView (E.aggQC si).1) ∧ (aVerify E si).2.2.1 = true := by
  obtain ⟨_, hview, ht⟩ := (aggregate_verify_spec E si).2 hok
  by_cases hw : aAggWins E si
  · rw [if_pos hw] at hview ht
    have := hw.2
    exact ⟨by rw [hview]; omega, ht⟩
  · rw [if_neg hw] at hview ht
    have hlt : ¬ E.aggView (E.aggQC si).1 ≥ aTCView E si := fun h => hw ⟨ha, h⟩
    refine ⟨by rw [hview]; omega, ?_⟩
    rw [ht]
    unfold aTCView at hlt
    by_cases hp : (E.tc si).2 = true
    · exact hp
    · rw [if_neg hp] at hlt; omega

/-- C07: no error and a returned view `v > 0` ⇒ a verified TC of view `v` or a verified aggregate QC of view `v`. -/
theorem aggregate_view_needs_evidence (E : AEnv SI TC QC AggQC Sig) (si : SI)
    (hok : (aVerify E si).2.2.2 = false) (hv : (aVerify E si).2.1 > 0) :
    ((E.tc si).2 = true ∧ E.verifyTC (E.tc si).1 = false ∧ E.tcView (E.tc si).1 = (aVerify E si).2.1) ∨
    ((E.aggQC si).2 = true ∧ aAggOK E si ∧ E.aggView (E.aggQC si).1 = (aVerify E si).2.1) := by
  obtain ⟨hiff, hval⟩ := aggregate_verify_spec E si
  obtain ⟨hq, hview, ht⟩ := hval hok
  obtain ⟨htc, hagg, _⟩ := hiff.mp hok
  by_cases hw : aAggWins E si
  · right
    rw [if_pos hw] at hview
    exact ⟨hw.1, hagg hw.1, hview.symm⟩
  · left
    rw [if_neg hw] at hview
    unfold aTCView at hview
    by_cases hp : (E.tc si).2 = true
    · rw [if_pos hp] at hview
      exact ⟨hp, htc hp, hview.symm⟩
    · rw [if_neg hp] at hview; omega

/-- The recorded known finding: with no TC and no aggregate QC the returned view is 0 whatever QC is present (a plain
QC never moves the view under the aggregate rule), error or not. -/
theorem aggregate_plain_qc_never_moves_view (E : AEnv SI TC QC AggQC Sig) (si : SI)
    (hntc : (E.tc si).2 = false) (hnagg : (E.aggQC si).2 = false) :
    (aVerify E si).2.1 = 0 ∧ (aVerify E si).2.2.1 = false := by
  unfold aVerify Aggregate_VerifySyncInfo
  by_cases h2 : (E.qc si).2 = true <;> by_cases h4 : E.verifyQC (E.qc si).1 = true <;> simp [hntc, hnagg, h2, h4]
end aggregate

/-! Non-vacuity on a small concrete environment: a sync info is (TC?, QC?, AggQC?), certificates are their view
numbers, a certificate of view 99 fails verification, an aggregate QC's signature is its view (0 = nil) and its high QC
is its view minus one. -/
def sEnv : SEnv (Option Nat × Option Nat × Option Nat) Nat Nat :=
  { tc := fun s => (s.1.getD 0, s.1.isSome), qc := fun s => (s.2.1.getD 0, s.2.1.isSome),
    tcView := fun n => n, qcView := fun n => n, verifyTC := fun n => n == 99, verifyQC := fun n => n == 99 }

def aEnv : AEnv (Option Nat × Option Nat × Option Nat) Nat Nat Nat Nat :=
  { sigNil := 0, tc := fun s => (s.1.getD 0, s.1.isSome), qc := fun s => (s.2.1.getD 0, s.2.1.isSome),
    aggQC := fun s => (s.2.2.getD 0, s.2.2.isSome), tcView := fun n => n, qcView := fun n => n, aggView := fun n => n,
    aggSig := fun n => n, verifyTC := fun n => n == 99, verifyQC := fun n => n == 99,
    verifyAgg := fun n => (n - 1, n == 99) }

example : sVerify sEnv (some 5, some 7, none) = (some 7, 7, false, false) := by decide
example : sVerify sEnv (some 5, some 3, none) = (some 3, 5, true, false) := by decide
example : sVerify sEnv (some 5, some 99, none) = (none, 0, true, true) := by decide
example : aVerify aEnv (some 5, some 8, some 7) = (some 6, 7, true, false) := by decide
example : aVerify aEnv (none, some 8, none) = (some 8, 0, false, false) := by decide
example : aVerify aEnv (some 5, none, some 99) = (none, 0, true, true) := by decide

end HsVerif.Props.C07RuleGen
