import HsVerif.Proofs.ReplicaNoPanic
import HsVerif.Props.C07
/-! C10 — no message from a peer can crash a replica or disturb its state.  Property theorems only.

In the replica model a Go panic is the effect `Out.panic`; after the `fix:` commits the only
operation that can still panic is `VerifyAggregateQC` on an aggregate QC without signature (an
existing repository test demands that panic) and every call site guards it.  Decoding
(`*FromProto`) is total in the model (Model/Wire.lean); the Go-level nil dereferences it used to
contain are covered by the correspondence on messages with absent fields. -/
open Std.Do
set_option linter.unusedVariables false
namespace HsVerif.Props.C10
open HsVerif.Model HsVerif.Props.C03

/-- **No handler panics**: whatever is delivered (any proposal, vote, timeout, new-view with any
combination of absent / forged / inconsistent certificates and signatures, or a local timeout), in
any state, the effects of processing it to quiescence contain no panic. -/
theorem no_panic (k : Keys) (c : RCfg) (s : RState) (e : Ev) : ∀ o ∈ (step k c s e).2, o ≠ Out.panic := by
  unfold step
  have h0 : NP { s with out := [], queue := s.queue ++ [e] } := by intro o ho; simp at ho
  exact run_of_triple _ NP NP (runLoop_np k c 100000) _ h0

theorem no_panic_start (k : Keys) (c : RCfg) (s : RState) : ∀ o ∈ (start k c s).2, o ≠ Out.panic := by
  unfold start
  have h0 : NP { s with out := [] } := by intro o ho; simp at ho
  have spec : ⦃fun s => ⌜NP s⌝⦄ (do
      let s ← get
      if s.view == 1 && c.leader 1 == c.id then
        createAndPropose k c { qc := some s.highQC, tc := some s.highTC }
      runLoop k c 100000 : M Unit) ⦃⇓ _ s => ⌜NP s⌝⦄ := by
    mvcgen [createAndPropose_np, runLoop_np]
  exact run_of_triple _ NP NP spec _ h0

/-- **State moves only on verified input**: the protocol state is only changed together with a
history record, and every record carries verified evidence — a signed vote only for a proposal
whose QC verified (C03 `vote_wellformed`), a view change only on a verified certificate (C07
`advance_on_evidence`).  Input in which nothing verifies therefore signs nothing and moves no view. -/
theorem state_moves_on_evidence (k : Keys) (c : RCfg) (es : List Ev) :
    let s := runEvents k c (start k c {}).1 es
    (∀ b id, GRec.vote b id ∈ s.ghost → ∃ s0, verifyQC (env k c s0) b.qc = true) ∧
    (∀ v cert t, GRec.adv v cert t ∈ s.ghost → Evidence k c cert) := by
  refine ⟨?_, ?_⟩
  · intro b id h
    exact (vote_wellformed k c es b id h).2.2.2
  · intro v cert t h
    exact (C07.advance_on_evidence k c es v cert t h).2

end HsVerif.Props.C10
