import HsVerif.Proofs.ReplicaInert
import HsVerif.Props.C01Sys
import HsVerif.Props.C01Rule
/-! C10, last sentence — "Input in which nothing verifies (no valid certificate, no valid signature) leaves
the replica's protocol state (view, highest QC, lock, committed block, vote history) unchanged": the direct
statement about ONE delivered event of the replica model.  Property theorems only; vocabulary and proofs in
Proofs/ReplicaInert.lean.

* `PS s = (view, highQC, highTC, lock, committed, ghost, lastVoted, lastTimeout, lastProposed)`.
* `NothingVerifies k c s e` (peer input only: `.propose`, `.vote`, `.timeout`, `.newview`): every
  certificate and signature the message carries is rejected by the pure verifiers of Model/Cert.lean in
  EVERY state with the signature table of `s` — whatever the block store, because verification fetches.
  - `.propose id b agg`: `b.qc` fails, and `agg`, if present, fails;
  - `.vote id sig hash d`: `sig` is absent, or not a single signature, or fails as partial certificate for
    `hash`.  NOT "a signature of `id`": the sender id of a vote message is not compared with the signer (the
    voting machine counts the signer of the signature), see `relayed_vote_counts` below;
  - `.timeout t`: the view signature is absent / not by `t.id` / fails, and no certificate in `t.si` verifies;
  - `.newview id si`: no certificate present in `si` verifies (an empty `si` qualifies).
* `Rejected k c s.truth e`: the weaker condition that already suffices — the proposal's block QC fails (the
  aggregate QC is irrelevant: the block QC is verified after it), the timeout's view signature fails (the
  handler returns before it looks at the sync info).
* Extra hypothesis `1 ≤ s.view` (true of every state of a run: the view starts at 1 and never decreases) — it
  is needed for a new-view message WITHOUT a QC: its certified view is 0, and `advanceView` is stopped only
  by `0 < s.view`; `view_zero_counterexample`.
-/
set_option linter.unusedVariables false
namespace HsVerif.Props.C10Inert
open HsVerif.Model HsVerif.Props.C01Sys HsVerif.Props.C01Rule HsVerif.Props.C03

/-- **Input in which nothing verifies leaves the protocol state unchanged and has no effect.**
One peer message `e` in which no certificate and no signature verifies, delivered to a replica whose event
queue is empty, leaves view, high QC, high TC, lock, committed block, ghost history (what was signed, why
the view moved), `lastVoted`, `lastTimeout` and `lastProposed` as they were, and the step has NO effects at
all: no `sign`, `sendVote`, `sendPropose`, `sendTimeout`, `sendNewView`, `viewChange`, `commit`, `exec`,
`abort`, `panic` (block fetches are not effects of the model: they change the block store only).

The side conditions: the queue is empty (`step` runs the loop to quiescence, so this holds between steps);
nothing waits in the deferred lists — handling ANY proposal re-queues the votes deferred until a proposal
arrives (`tick`), and those are earlier, possibly valid, input (`inert_input_strong` shows that only
`waitingProp`, and only for a proposal, matters; `inert_input_then_deferred` drops the condition);
`1 ≤ s.view` (see above). -/
theorem inert_input_changes_nothing (k : Keys) (c : RCfg) (s : RState) (e : Ev)
    (hn : NothingVerifies k c s e) (hq : s.queue = []) (hp : s.waitingProp = []) (hvc : s.waitingVC = [])
    (hv : 1 ≤ s.view) :
    PS (step k c s e).1 = PS s ∧ (step k c s e).2 = [] := by
  obtain ⟨h1, _, h3⟩ := step_inert_quiet k c s e hn.rejected hq (fun _ => hp) (Or.inl hv)
  exact ⟨ps_of_kept h1, h3⟩

/-- the effects named one by one (a corollary of `(step k c s e).2 = []`) -/
theorem inert_input_no_effect (k : Keys) (c : RCfg) (s : RState) (e : Ev)
    (hn : NothingVerifies k c s e) (hq : s.queue = []) (hp : s.waitingProp = []) (hvc : s.waitingVC = [])
    (hv : 1 ≤ s.view) (o : Out) (ho : o ∈ (step k c s e).2) : False := by
  rw [(inert_input_changes_nothing k c s e hn hq hp hvc hv).2] at ho
  cases ho

/-- **Stronger form**: it is enough that the certificate / signature checked FIRST fails (`Rejected`), only
a proposal needs `waitingProp = []`, `waitingVC` is irrelevant, only a new-view needs `1 ≤ s.view`; and
besides the protocol state the collected votes, the signature table, the byte and command counters are
unchanged too (`Kept`), and the queue is empty again.  What MAY change: the block store (fetches),
`waitingVC` (a proposal for a later view is deferred before anything is verified), `waitingProp` (a vote
for an unknown block is deferred before it is verified), `timeouts` (entries below the current view are
dropped). -/
theorem inert_input_strong (k : Keys) (c : RCfg) (s : RState) (e : Ev)
    (hr : Rejected k c s.truth e) (hq : s.queue = []) (hp : e.isPropose = true → s.waitingProp = [])
    (hv : 1 ≤ s.view ∨ e.isNewview = false) :
    Kept (step k c s e).1 = Kept s ∧ (step k c s e).1.queue = [] ∧ (step k c s e).2 = [] :=
  step_inert_quiet k c s e hr hq hp hv

/-- **Without the hypotheses on the deferred lists**: the step is the event loop run on (`drain`: 99999
further ticks, then state and effects) from a state `s1` that agrees with `s` on every kept field, has
emitted nothing, and whose queue holds exactly the deferred events the first tick put back — the votes
deferred until a proposal (`s.waitingProp`) if `e` is a proposal, nothing otherwise.  So whatever the step
does is the processing of those earlier events. -/
theorem inert_input_then_deferred (k : Keys) (c : RCfg) (s : RState) (e : Ev)
    (hr : Rejected k c s.truth e) (hq : s.queue = []) (hv : 1 ≤ s.view ∨ e.isNewview = false) :
    ∃ s1, Kept s1 = Kept s ∧ s1.out = [] ∧ s1.queue = requeued e s ∧
      (e.isPropose = true → s1.waitingProp = []) ∧ step k c s e = drain k c s1 :=
  step_inert k c s e hr hq hv

/-! ### what is FALSE without the corrections -/

/-- **`1 ≤ s.view` is needed**: in view 0 (no run reaches it) an EMPTY new-view message — in which nothing
verifies, there being nothing — moves the replica to view 1: its certified view is 0 and `advanceView`
returns only if that is below the current view. -/
theorem view_zero_counterexample :
    let s : RState := { view := 0 }
    NothingVerifies nvKeys nvCfg s (.newview 2 {}) ∧ s.queue = [] ∧ s.waitingProp = [] ∧ s.waitingVC = [] ∧
      (step nvKeys nvCfg s (.newview 2 {})).1.view = 1 := by
  refine ⟨⟨?_, ?_, ?_⟩, rfl, rfl, rfl, by decide +kernel⟩ <;> intro x h <;> cases h

/-- a vote message from sender `from_` carrying the (BLS) signature of `signer` over block `h` -/
def relayedVote (from_ signer : Nat) (h : Hash) : Ev := .vote from_ (some (blsSign signer (blkMsg h))) h false

set_option maxRecDepth 100000 in
/-- **The sender of a vote is not compared with the signer** (`votingmachine.go`: `OnVote` verifies the
partial certificate and records its signer): a vote message from replica 4 carrying replica 2's signature is
counted as the vote of replica 2, and three such messages — all from 4, with the signatures of 1, 2, 3 —
form a QC that moves high QC and view.  So "the signature does not verify as a signature OF THE SENDER" is
not a condition under which the state stays put; `NothingVerifies` asks that the signature verifies for
nobody.  (No safety issue: the signatures are genuine votes of their signers for that block, and a second
vote of the same signer is not counted.) -/
theorem relayed_vote_counts :
    (step nvKeys nvCfg nvS3 (relayedVote 4 2 "P3")).1.votes = [("P3", [(2, blsSign 2 (blkMsg "P3"))])] ∧
    nvS3.highQC.hash = "P2" ∧ nvS3.view = 3 ∧
    (runEvents nvKeys nvCfg nvS3 [relayedVote 4 1 "P3", relayedVote 4 2 "P3", relayedVote 4 3 "P3"]).highQC.hash = "P3" ∧
    (runEvents nvKeys nvCfg nvS3 [relayedVote 4 1 "P3", relayedVote 4 2 "P3", relayedVote 4 3 "P3"]).view = 4 := by
  decide +kernel

/-! ### non-vacuity

The state of replica 1 in the kernel-evaluated 4-replica ECDSA run `exState` of Props/C01Sys.lean, with the
global signature table: the replica is in view 1, has voted for `P1`, its queue and deferred lists are
empty.  In the table, bytes 2 are the Byzantine replica 4's signature over `blk:X`; bytes 901..903
do not exist.  Three peer messages in which nothing verifies — and for each the theorem's conclusion. -/
section NonVacuity

def nvS : RState :=
  match exState.reps.lookup 1 with
  | some s => { s with truth := exState.truth, nextBytes := exState.nextBytes }
  | none => {}
def nvC : RCfg := exCfg.rcfg 1

/-- a "QC" for `P1` of three signature entries whose bytes nobody ever produced -/
def junkQC : QC := ⟨some (.multi .ecdsa [⟨1, 901⟩, ⟨2, 902⟩, ⟨3, 903⟩]), 1, "P1"⟩
/-- a proposal for view 2 by its leader (replica 3) that extends `P1` and justifies it with the junk QC -/
def junkPropose : Ev :=
  .propose 3 { hash := "P2", parent := "P1", view := 2, proposer := 3, qc := junkQC } none
/-- a vote for `P1` from replica 3 whose signature entry claims replica 3 but carries the bytes of replica
4's signature over another message -/
def foreignVote : Ev := .vote 3 (some (.multi .ecdsa [⟨3, 2⟩])) "P1" false
/-- a new-view with a timeout certificate for view 1 signed by one replica only (quorum: 3) -/
def thinNewView : Ev := .newview 2 { tc := some ⟨some (.multi .ecdsa [⟨1, 3⟩]), 1⟩ }

set_option maxRecDepth 100000 in
theorem nvS_facts : nvS.queue = [] ∧ nvS.waitingProp = [] ∧ nvS.waitingVC = [] ∧ nvS.view = 1 ∧
    nvS.lastVoted = 1 ∧
    nvS.truth.lookup 901 = none ∧ nvS.truth.lookup 2 = some ⟨4, blkMsg "X"⟩ ∧ nvC.cfg.quorum = 3 := by
  decide +kernel

theorem junkPropose_nothing : NothingVerifies exKeys nvC nvS junkPropose := by
  refine ⟨?_, fun a h => by cases h⟩
  exact qcFails_of_bad_entry exKeys nvC nvS.truth junkQC .ecdsa _ ⟨1, 901⟩ (by decide) rfl
    (List.mem_cons_self ..) (badEntry_of_unknown nvS_facts.2.2.2.2.2.1)

theorem foreignVote_nothing : NothingVerifies exKeys nvC nvS foreignVote :=
  voteFails_of_bad_entry exKeys nvC nvS.truth .ecdsa _ "P1" ⟨3, 2⟩ (List.mem_cons_self ..)
    (badEntry_of_other _ nvS_facts.2.2.2.2.2.2.1 (by decide))

theorem thinNewView_nothing : NothingVerifies exKeys nvC nvS thinNewView := by
  show SIFails exKeys nvC nvS.truth { tc := some ⟨some (.multi .ecdsa [⟨1, 3⟩]), 1⟩ }
  refine ⟨?_, ?_, ?_⟩
  · intro q h; cases h
  · intro t h; cases h
    exact tcFails_of_short exKeys nvC nvS.truth ⟨some (.multi .ecdsa [⟨1, 3⟩]), 1⟩ (.multi .ecdsa [⟨1, 3⟩])
      (by decide) rfl (by rw [nvS_facts.2.2.2.2.2.2.2]; decide)
  · intro a h; cases h

/-- the three messages satisfy the hypotheses of `inert_input_changes_nothing`, hence its conclusion -/
theorem nonvacuous (e : Ev) (he : e = junkPropose ∨ e = foreignVote ∨ e = thinNewView) :
    NothingVerifies exKeys nvC nvS e ∧ PS (step exKeys nvC nvS e).1 = PS nvS ∧ (step exKeys nvC nvS e).2 = [] := by
  have hn : NothingVerifies exKeys nvC nvS e := by
    rcases he with h | h | h <;> subst h
    · exact junkPropose_nothing
    · exact foreignVote_nothing
    · exact thinNewView_nothing
  obtain ⟨h1, h2, h3, h4, _⟩ := nvS_facts
  exact ⟨hn, inert_input_changes_nothing exKeys nvC nvS e hn h1 h2 h3 (by rw [h4]; exact Nat.le_refl 1)⟩

set_option maxRecDepth 100000 in
/-- cross-check by evaluation (independent of the theorem): the kernel computes the same — no effects, and the
junk proposal (view 2 > current view 1) is put on the deferred list WITHOUT any verification, the foreign
vote (block known) and the thin new-view leave no trace at all -/
example : (step exKeys nvC nvS junkPropose).2.isEmpty = true ∧ (step exKeys nvC nvS junkPropose).1.view = 1 ∧
    (step exKeys nvC nvS junkPropose).1.waitingVC.length = 1 ∧
    (step exKeys nvC nvS foreignVote).2.isEmpty = true ∧ (step exKeys nvC nvS foreignVote).1.votes.isEmpty = true ∧
    (step exKeys nvC nvS foreignVote).1.waitingProp.isEmpty = true ∧
    (step exKeys nvC nvS thinNewView).2.isEmpty = true ∧ (step exKeys nvC nvS thinNewView).1.view = 1 := by
  decide +kernel

end NonVacuity

end HsVerif.Props.C10Inert
