import HsVerif.Proofs.SysViewBounds
import HsVerif.Proofs.ReplicaCertBelow
import HsVerif.Props.C05Chain
/-! C05, task S14 — the "bookkeeping" hypotheses of the recovery / commit theorems, derived from reachability (or refuted).

1. VIEW BOUNDS of one replica (`VB`, Proofs/SysViewBounds.lean; every handler, any rule set, timeout rule and scheme):
   `committed.view < view`, `lastVoted ≤ view`, genesis stored — `view_bounds`, and `sys_view_bounds` for every reachable
   state of the system of replica models (any number of Byzantine replicas).
2. What follows for the theorems of Props/C05Cover.lean / Props/C05Chain.lean: `SyncPre.committed`
   (`syncPre_committed_of_reach`), `lastVoted ≤ v` of `RecPre.init` (`recPre_lastVoted_of_reach`), the clause
   `(D.hq i).view = (D.hb i).view` of `KnowsAll.qc` (`knowsAll_qc_blockview_of_reach`) and the view bound of `SyncPre.par`
   (`syncPre_par_view_of_reach`: the block under a certified block is older; needs the system-level safety context).
3. `RecPre'`, `KnowsAll'`, `SyncPre'`: the hypotheses without those clauses; `recPre_of_reach`, `syncPre_of_reach`;
   `recovery_from_reachable'`, `commit_after_recovery'`.
4. Non-vacuity: the kernel-evaluated run `cvRun` (`commit_after_recovery'_nonvacuous`).
5. (CHANGED by task S15, `EnterViewAfter`.)  With the OLD `advanceView` (`newView := s.view + 1`) `highQC.view < view`
   and `highTC.view < view` were NOT invariants: a replica that lags behind adopted a certificate of a later view and
   moved on by one view only; the kernel-evaluated witness `highqc_not_below_view` showed all four replicas honest and in
   view 4, replica 4 holding a QC and a TC of view 4.  With the repaired `advanceView` (`newView := view + 1`, the view
   AFTER THE CERTIFICATE) the SAME run ends with replica 4 in view 5, its certificates of view 4 BELOW its view: the three
   witnesses below keep their names and now state what the kernel evaluates on the repaired model (the lagging replica
   jumps from view 3 to view 5).  The last clauses of `KnowsAll.qc` / `KnowsAll.tc` (`… < D.v`) are still kept as
   hypotheses of the theorems here; the `_partial` lemmas name the missing fact.
6. (NEW, task S15.)  On the repaired model `highQC.view < view ∧ highTC.view < view` IS an invariant under the plain
   timeout rule (`c.agg = false`): `high_certificates_below_view` (every run of one replica),
   `sys_high_certificates_below_view` (every reachable state of the system, any number of Byzantine replicas) — helpers
   in Proofs/ReplicaCertBelow.lean.  Hence `knowsAll_qc_view_of_reach` / `knowsAll_tc_view_of_reach`: the last clauses
   of `KnowsAll.qc` / `KnowsAll.tc` now FOLLOW from reachability for replicas in view `D.v`.  (Under the aggregate timeout
   rule a plain QC still refreshes the high QC without moving the view — `fix:` 4f3d40f —, so `highQC.view < view` is
   not an invariant for `c.agg = true`.) -/
set_option linter.unusedVariables false
namespace HsVerif.Props.C05Pre
open HsVerif.Model HsVerif.Proofs HsVerif.Props.C01Sys HsVerif.Props.C01SysWF HsVerif.Props.C03
open HsVerif.SysSafety HsVerif.Props.C05Live HsVerif.Props.C05Cover HsVerif.Props.C05Chain

/-! ## 1. the view bounds of one replica -/

theorem view_bounds_init : VB {} := vb_init
theorem view_bounds_start (k : Keys) (c : RCfg) (s : RState) (h : VB s) : VB (start k c s).1 := start_vb k c s h
theorem view_bounds_step (k : Keys) (c : RCfg) (s : RState) (e : Ev) (h : VB s) : VB (step k c s e).1 := step_vb k c s e h

/-- **along every run of one replica** (any rule set, any timeout rule, any scheme): the committed block is older than
the current view, and the replica has not voted or timed out beyond its view -/
theorem view_bounds (k : Keys) (c : RCfg) (es : List Ev) :
    (runEvents k c (start k c {}).1 es).committed.view < (runEvents k c (start k c {}).1 es).view ∧
    (runEvents k c (start k c {}).1 es).lastVoted ≤ (runEvents k c (start k c {}).1 es).view := by
  have h := runEvents_vb k c es _ (start_vb k c {} vb_init)
  exact ⟨h.committed, h.voted⟩

/-- **in every reachable state of the system of replica models** — any rule set, timeout rule, scheme, any number of
Byzantine replicas -/
theorem sys_view_bounds (k : Keys) (C : SysCfg) (σ : SysState) (hr : Reach k C σ) (i : Nat) (s : RState)
    (hl : σ.reps.lookup i = some s) :
    s.committed.view < s.view ∧ s.lastVoted ≤ s.view ∧ s.chain.blocks.lookup genesisHash = some genesisBlock := by
  have h := reach_vb k C σ hr i s hl
  exact ⟨h.committed, h.voted, h.gen genesisHash genesisBlock (by simp [G0])⟩

/-! ## 2. the clauses of `SyncPre` / `RecPre` / `KnowsAll` that follow -/

/-- `SyncPre.committed` -/
theorem syncPre_committed_of_reach (k : Keys) (C : SysCfg) (D : RecData) (σ : SysState) (hr : Reach k C σ)
    (j : Nat) (s : RState) (hl : σ.reps.lookup j = some s) (hv : s.view = D.v) : s.committed.view ≤ D.v := by
  have := (sys_view_bounds k C σ hr j s hl).1
  omega

/-- the clause `lastVoted ≤ v` of `RecPre.init` -/
theorem recPre_lastVoted_of_reach (k : Keys) (C : SysCfg) (D : RecData) (σ : SysState) (hr : Reach k C σ)
    (j : Nat) (s : RState) (hl : σ.reps.lookup j = some s) (hv : s.view = D.v) : s.lastVoted ≤ D.v := by
  have := (sys_view_bounds k C σ hr j s hl).2.1
  omega

/-- the clause `(D.hq i).view = (D.hb i).view` of `KnowsAll.qc`: a certificate that replica `j` accepts and whose block it
stores claims the view of that block (for the genesis certificate: genesis is stored) -/
theorem knowsAll_qc_blockview_of_reach (k : Keys) (C : SysCfg) (σ : SysState) (hr : Reach k C σ)
    (j : Nat) (s : RState) (hl : σ.reps.lookup j = some s) (T : List (Nat × Atom)) (q : QC) (b : Block)
    (hv : verifyQC (env k (C.rcfg j) { s with truth := T }) q = true) (hb : s.chain.blocks.lookup q.hash = some b) :
    q.view = b.view := by
  rcases verifyQC_blockView k (C.rcfg j) { s with truth := T } q hv with ⟨h1, h2⟩ | ⟨p, hp, hpv⟩
  · have hg := (sys_view_bounds k C σ hr j s hl).2.2
    rw [h1, hg] at hb
    cases hb
    rw [h2]; rfl
  · have : some p = some b := by rw [← hp, ← hb]
    cases this
    exact hpv.symm

/-- `KnowsAll.qc`, last clause — PARTIAL: from reachability it follows only with the hypothesis `hcu` that the replica holds
no certificate of its own view or later ("caught up").  With the old `advanceView` the witness `highqc_not_below_view`
refuted `hcu` in a reachable state; on the repaired model (`EnterViewAfter`, task S15) that witness has the replica in the
view after its certificates, and `hcu` holds after every `advanceView` under the plain timeout rule (not under the
aggregate rule, where a plain QC refreshes the high QC without moving the view): `knowsAll_qc_view_of_reach` below
discharges `hcu` by the new invariant `sys_high_certificates_below_view` -/
theorem knowsAll_qc_view_of_reach_partial (k : Keys) (C : SysCfg) (D : RecData) (σ : SysState) (hr : Reach k C σ)
    (j : Nat) (s : RState) (hl : σ.reps.lookup j = some s) (hv : s.view = D.v) (hq : s.highQC = D.hq j)
    (hcu : s.highQC.view < s.view) : (D.hq j).view < D.v := by
  rw [← hq, ← hv]; exact hcu

/-- `KnowsAll.tc`, last clause — PARTIAL, as for the high QC (`hightc_not_below_view`) -/
theorem knowsAll_tc_view_of_reach_partial (k : Keys) (C : SysCfg) (D : RecData) (σ : SysState) (hr : Reach k C σ)
    (j : Nat) (s : RState) (hl : σ.reps.lookup j = some s) (hv : s.view = D.v) (ht : (D.htc j).view ≤ s.highTC.view)
    (hcu : s.highTC.view < s.view) : (D.htc j).view < D.v := by
  omega

/-- **(NEW, task S15) the high certificates are below the view** — along every run of one replica under the plain timeout
rule (any rule set, any scheme, any events).  False for the old `advanceView` (`view + 1`), true since `EnterViewAfter`. -/
theorem high_certificates_below_view (k : Keys) (c : RCfg) (hagg : c.agg = false) (es : List Ev) :
    let s := runEvents k c (start k c {}).1 es
    s.highQC.view < s.view ∧ s.highTC.view < s.view :=
  runEvents_cb k c hagg es _ (start_cb k c hagg {} cb_init)

/-- **… in every reachable state of the system of replica models** (all replicas use the plain timeout rule; any number
of Byzantine replicas, whatever the adversary delivers) -/
theorem sys_high_certificates_below_view (k : Keys) (C : SysCfg) (hagg : ∀ i, (C.rcfg i).agg = false)
    (σ : SysState) (hr : Reach k C σ) (i : Nat) (s : RState) (hl : σ.reps.lookup i = some s) :
    s.highQC.view < s.view ∧ s.highTC.view < s.view :=
  reach_cb k C hagg σ hr i s hl

/-- `KnowsAll.qc`, last clause — now DERIVED from reachability (plain timeout rule) -/
theorem knowsAll_qc_view_of_reach (k : Keys) (C : SysCfg) (hagg : ∀ i, (C.rcfg i).agg = false) (D : RecData)
    (σ : SysState) (hr : Reach k C σ)
    (j : Nat) (s : RState) (hl : σ.reps.lookup j = some s) (hv : s.view = D.v) (hq : s.highQC = D.hq j) :
    (D.hq j).view < D.v :=
  knowsAll_qc_view_of_reach_partial k C D σ hr j s hl hv hq (sys_high_certificates_below_view k C hagg σ hr j s hl).1

/-- `KnowsAll.tc`, last clause — now DERIVED from reachability (plain timeout rule) -/
theorem knowsAll_tc_view_of_reach (k : Keys) (C : SysCfg) (hagg : ∀ i, (C.rcfg i).agg = false) (D : RecData)
    (σ : SysState) (hr : Reach k C σ)
    (j : Nat) (s : RState) (hl : σ.reps.lookup j = some s) (hv : s.view = D.v) (ht : (D.htc j).view ≤ s.highTC.view) :
    (D.htc j).view < D.v :=
  knowsAll_tc_view_of_reach_partial k C D σ hr j s hl hv ht (sys_high_certificates_below_view k C hagg σ hr j s hl).2

/-! ## 3. the weakened hypotheses -/

/-- `KnowsAll` without the clause `(D.hq i).view = (D.hb i).view` -/
structure KnowsAll' (k : Keys) (C : SysCfg) (D : RecData) (j : Nat) (s : RState) : Prop where
  qc : ∀ i ∈ C.honest, verifyQC (env k (C.rcfg j) s) (D.hq i) = true ∧
    s.chain.blocks.lookup (D.hq i).hash = some (D.hb i) ∧ (D.hq i).view < D.v
  tc : ∀ i ∈ C.honest, verifyTC (env k (C.rcfg j) s) (D.htc i) = true ∧ (D.htc i).view < D.v
  acc : ∀ i ∈ C.honest, HsVerif.Props.C08.Accepted (fun b => s.truth.lookup b) (C.rcfg j).cfg (D.tmsg C i)

/-- `RecPre` without `lastVoted ≤ v` and with `KnowsAll'` -/
structure RecPre' (k : Keys) (C : SysCfg) (D : RecData) (s0 : Nat → RState) (ℓ : Nat) (T0 : List (Nat × Atom)) : Prop where
  agg : C.agg = false
  scheme : C.scheme ≠ .bls12
  rules : C.rules ≠ .fast
  v0 : D.v ≠ 0
  nodup : C.honest.Nodup
  range : ∀ i ∈ C.honest, 1 ≤ i ∧ i ≤ C.n
  all : C.honest.length = C.n
  two : 2 ≤ C.n
  leader : ∀ j ∈ C.honest, (C.rcfg j).leader (D.v + 1) = ℓ
  lmem : ℓ ∈ C.honest
  init : ∀ j ∈ C.honest, RColl C D (s0 j) j [] (s0 j) ∧ (s0 j).waitingVC = [] ∧
    KnowsAll' k C D j { s0 j with truth := T0 }
  mark : ∀ i ∈ C.honest, markWalk ((s0 ℓ).chain.fuel + 1) (s0 ℓ).chain.blocks (s0 ℓ).lastProposed (D.hb i) = true
  parents : ∀ j ∈ C.honest, ∀ i ∈ C.honest, Top C D i →
    ((D.hb i).qc.hash = "" ∨ ∃ gb, (s0 j).chain.blocks.lookup (D.hb i).qc.hash = some gb)

/-- `SyncPre` without `committed` and without the view bound in `par` -/
structure SyncPre' (C : SysCfg) (D : RecData) (s0 : Nat → RState) (N : Nat) : Prop where
  fetch : ∀ j ∈ C.honest, (s0 j).chain.fetchable = []
  wprop : ∀ j ∈ C.honest, (s0 j).waitingProp = []
  names : ∀ j ∈ C.honest, ∀ u, D.v < u →
    (s0 j).chain.blocks.lookup (pname u) = none ∧ (s0 j).votes.lookup (pname u) = none
  par : ∀ j ∈ C.honest, ∀ i ∈ C.honest, Top C D i → ∃ P, (s0 j).chain.blocks.lookup (D.hb i).qc.hash = some P
  small : ∀ j ∈ C.honest, 2 * (s0 j).chain.blocks.length + (D.v + 1) ≤ N
  walk : ∀ j ∈ C.honest, ∀ i ∈ C.honest, Top C D i →
    cmWalk ((s0 j).chain.blocks.length + 2) (s0 j).chain.blocks (s0 j).committed.view (D.hb i) = true
  bound : N + 20 ≤ 99999

theorem knowsAll_weaken {k : Keys} {C : SysCfg} {D : RecData} {j : Nat} {s : RState} (h : KnowsAll k C D j s) :
    KnowsAll' k C D j s :=
  ⟨fun i hi => ⟨(h.qc i hi).1, (h.qc i hi).2.1, (h.qc i hi).2.2.2⟩, h.tc, h.acc⟩

theorem recPre_weaken {k : Keys} {C : SysCfg} {D : RecData} {s0 : Nat → RState} {ℓ : Nat} {T0 : List (Nat × Atom)}
    (h : RecPre k C D s0 ℓ T0) : RecPre' k C D s0 ℓ T0 :=
  ⟨h.agg, h.scheme, h.rules, h.v0, h.nodup, h.range, h.all, h.two, h.leader, h.lmem,
    fun j hj => ⟨(h.init j hj).1, (h.init j hj).2.1, knowsAll_weaken (h.init j hj).2.2.2⟩, h.mark, h.parents⟩

theorem syncPre_weaken {C : SysCfg} {D : RecData} {s0 : Nat → RState} {N : Nat} (h : SyncPre C D s0 N) :
    SyncPre' C D s0 N :=
  ⟨h.fetch, h.wprop, h.names, fun j hj i hi ht => (h.par j hj i hi ht).imp fun P hP => hP.1, h.small, h.walk, h.bound⟩

/-- `KnowsAll` from `KnowsAll'` in a reachable state -/
theorem knowsAll_of_reach (k : Keys) (C : SysCfg) (D : RecData) (σ : SysState) (hr : Reach k C σ)
    (j : Nat) (s : RState) (hl : σ.reps.lookup j = some s) (T : List (Nat × Atom))
    (h : KnowsAll' k C D j { s with truth := T }) : KnowsAll k C D j { s with truth := T } :=
  ⟨fun i hi => ⟨(h.qc i hi).1, (h.qc i hi).2.1,
      knowsAll_qc_blockview_of_reach k C σ hr j s hl T (D.hq i) (D.hb i) (h.qc i hi).1 (h.qc i hi).2.1, (h.qc i hi).2.2⟩,
    h.tc, h.acc⟩

/-- **`RecPre` from `RecPre'` and reachability** -/
theorem recPre_of_reach (k : Keys) (C : SysCfg) (D : RecData) (s0 : Nat → RState) (ℓ : Nat) (σ : SysState)
    (T0 : List (Nat × Atom)) (hr : Reach k C σ) (hreps : ∀ j ∈ C.honest, σ.reps.lookup j = some (s0 j))
    (h : RecPre' k C D s0 ℓ T0) : RecPre k C D s0 ℓ T0 :=
  ⟨h.agg, h.scheme, h.rules, h.v0, h.nodup, h.range, h.all, h.two, h.leader, h.lmem,
    fun j hj => ⟨(h.init j hj).1, (h.init j hj).2.1,
      recPre_lastVoted_of_reach k C D σ hr j (s0 j) (hreps j hj) (h.init j hj).1.view,
      knowsAll_of_reach k C D σ hr j (s0 j) (hreps j hj) T0 (h.init j hj).2.2⟩, h.mark, h.parents⟩

/-- **the view bound of `SyncPre.par`**: the block `P` stored under the certificate hash of a `Top` block `D.hb i` is older
than `D.hb i`, hence older than the view.  `D.hb i` is certified (its certificate `D.hq i` is accepted against the global
table), so a quorum — all honest — voted for it, each after checking its certificate; with content addressing `P` is the
block they saw.  (`D.hb i` is not genesis: nothing is stored under the empty hash.) -/
theorem syncPre_par_view_of_reach (k : Keys) (C : SysCfg) (D : RecData) (s0 : Nat → RState) (ℓ : Nat) (σ : SysState)
    (blk : Hash → Block) (hk : KeysOK k) (hr : Reach k C σ) (hca : CA' σ blk)
    (hP : RecPre k C D s0 ℓ σ.truth) (hreps : ∀ j ∈ C.honest, σ.reps.lookup j = some (s0 j))
    (j : Nat) (hj : j ∈ C.honest) (i : Nat) (hi : i ∈ C.honest) (P : Block)
    (hl : (s0 j).chain.blocks.lookup (D.hb i).qc.hash = some P) : P.view < (D.hb i).view ∧ P.view < D.v := by
  have X := hP.ctx hk hr hca
  obtain ⟨hv, hb, he, hlt⟩ := (hP.init j hj).2.2.2.qc i hi
  have hs := hreps j hj
  have hPs := X.stored hs (show sget (s0 j) (D.hb i).qc.hash = some P from hl)
  have hgc := X.accepted_gc hs hv (show sget (s0 j) (D.hq i).hash = some (D.hb i) from hb)
  rcases hgc with hg | hc
  · exfalso
    apply hPs.2.2
    rw [hg]; rfl
  · have hf := X.cert hc
    have h1 : P.view < (D.hb i).view := by
      have := hf.lt
      rw [hf.par, ← hPs.1] at this
      exact this
    exact ⟨h1, by omega⟩

/-- **`SyncPre` from `SyncPre'`, `RecPre` and reachability** -/
theorem syncPre_of_reach (k : Keys) (C : SysCfg) (D : RecData) (s0 : Nat → RState) (ℓ : Nat) (σ : SysState)
    (blk : Hash → Block) (hk : KeysOK k) (hr : Reach k C σ) (hca : CA' σ blk)
    (hP : RecPre k C D s0 ℓ σ.truth) (hreps : ∀ j ∈ C.honest, σ.reps.lookup j = some (s0 j))
    (N : Nat) (h : SyncPre' C D s0 N) : SyncPre C D s0 N :=
  ⟨h.fetch, h.wprop, h.names,
    fun j hj i hi ht => by
      obtain ⟨P, hl⟩ := h.par j hj i hi ht
      exact ⟨P, hl, Nat.le_of_lt (syncPre_par_view_of_reach k C D s0 ℓ σ blk hk hr hca hP hreps j hj i hi P hl).2⟩,
    fun j hj => syncPre_committed_of_reach k C D σ hr j (s0 j) (hreps j hj) (hP.init j hj).1.view,
    h.small, h.walk, h.bound⟩

/-! ## 4. the theorems with the derived clauses removed -/

/-- **Recovery from any reachable state**, hypotheses `RecPre'` -/
theorem recovery_from_reachable' (k : Keys) (C : SysCfg) (D : RecData) (s0 : Nat → RState) (ℓ : Nat)
    (σ0 : SysState) (blk : Hash → Block) (hk : KeysOK k) (hr : Reach k C σ0) (hca : CA' σ0 blk)
    (hP : RecPre' k C D s0 ℓ σ0.truth) (h0 : RecStart C s0 σ0.truth σ0)
    (msgs : List (Nat × Nat)) (hm : FullOrder C msgs) :
    ∃ (i : Nat) (b' : Block),
      i ∈ C.honest ∧ Top C D i ∧
      b'.view = D.v + 1 ∧ b'.qc = D.hq i ∧ b'.parent = (D.hq i).hash ∧ b'.proposer = ℓ ∧
      (∀ j ∈ C.honest, j ≠ ℓ → (j, Ev.propose ℓ b' none) ∈ (recoveryRound k C D σ0 msgs).2) ∧
      (∀ j ∈ C.honest, ∃ s, (recoveryRound k C D σ0 msgs).1.reps.lookup j = some s ∧ D.v + 1 ≤ s.view) := by
  obtain ⟨i, b', h1, h2, h3, h4, h5, h6, h7, h8, _⟩ := recovery_from_reachable k C D s0 ℓ σ0 blk hk hr hca
    (recPre_of_reach k C D s0 ℓ σ0 σ0.truth hr h0.reps hP) h0 msgs hm
  exact ⟨i, b', h1, h2, h3, h4, h5, h6, h7, h8⟩

/-- **Commit after recovery**, hypotheses `RecPre'` and `SyncPre'`: the clauses `SyncPre.committed`, the view bound of
`SyncPre.par`, `lastVoted ≤ v` of `RecPre.init` and `(D.hq i).view = (D.hb i).view` of `KnowsAll.qc` are no longer assumed -/
theorem commit_after_recovery' (k : Keys) (C : SysCfg) (L : Nat) (hC : HappyCfg C L) (D : RecData) (s0 : Nat → RState)
    (σ0 : SysState) (blk : Hash → Block) (hk : KeysOK k) (hr : Reach k C σ0) (hca : CA' σ0 blk)
    (hP : RecPre' k C D s0 L σ0.truth) (h0 : RecStart C s0 σ0.truth σ0)
    (msgs : List (Nat × Nat)) (hm : FullOrder C msgs) (N : Nat) (hY : SyncPre' C D s0 N)
    (ordP v1 p1 v2 p2 v3 p3 : List Nat) (hordP : OthersOrder C L ordP)
    (hv1 : OthersOrder C L v1) (hp1 : OthersOrder C L p1) (hv2 : OthersOrder C L v2)
    (hp2 : OthersOrder C L p2) (hv3 : OthersOrder C L v3) (hp3 : OthersOrder C L p3) :
    ∃ (i : Nat) (b' : Block), i ∈ C.honest ∧ Top C D i ∧ b'.view = D.v + 1 ∧ b'.qc = D.hq i ∧ b'.proposer = L ∧
      ∀ j ∈ C.honest, ∃ s,
        (chainView k C v3 p3 (chainView k C v2 p2 (chainView k C v1 p1
          (proposalRound k C ordP (recoveryRound k C D σ0 msgs))))).1.reps.lookup j = some s ∧
        s.committed = b' ∧ s.committed.view = D.v + 1 ∧ (s0 j).committed.view < s.committed.view := by
  have hP' := recPre_of_reach k C D s0 L σ0 σ0.truth hr h0.reps hP
  exact commit_after_recovery k C L hC D s0 σ0 blk hk hr hca hP' h0 msgs hm N
    (syncPre_of_reach k C D s0 L σ0 blk hk hr hca hP' h0.reps N hY)
    ordP v1 p1 v2 p2 v3 p3 hordP hv1 hp1 hv2 hp2 hv3 hp3


/-! ## 5. non-vacuity -/
section NonVacuity

set_option maxRecDepth 100000 in
/-- **the weakened hypotheses hold of the kernel-evaluated run `cvRun`** (four replicas, four views of the fault-free run,
the votes for `P4` lost, all four time out in view 4) -/
theorem commit_after_recovery'_nonvacuous :
    KeysOK exKeys ∧ Reach exKeys recCfg cvRun.1 ∧ CA' cvRun.1 cvBlk ∧
    RecPre' exKeys recCfg cvData cvS0 1 cvRun.1.truth ∧ RecStart recCfg cvS0 cvRun.1.truth cvRun.1 ∧
    SyncPre' recCfg cvData cvS0 1000 := by
  obtain ⟨hk, hr, hca, hP, h0, _, _⟩ := recovery_from_reachable_nonvacuous
  exact ⟨hk, hr, hca, recPre_weaken hP, h0, syncPre_weaken cv_syncPre⟩

/-- … and the derived clauses are what the kernel evaluates there: every replica of `cvRun` is in view 4, has committed a
block of view 1 and has voted in view 4 last -/
theorem derived_clauses_evaluated :
    ∀ j ∈ recCfg.honest, (cvS0 j).view = 4 ∧ (cvS0 j).committed.view = 1 ∧ (cvS0 j).lastVoted = 4 := by
  decide +kernel

end NonVacuity


/-! ## 6. the lagging replica: certificates of a later view (was: "what is FALSE"; see the header, item 5) -/
section Witness

/-- six rounds of the fault-free synchronous run of `recCfg` (four honest replicas, fixed leader 1, chained HotStuff):
the leader is in view 4 and has proposed `P4`; `P4` reaches replicas 2 and 3, which enter view 4 and vote — replica 4
hears nothing and stays in view 3 -/
def wB : SysState × Msgs :=
  deliverAll exKeys recCfg ((syncRun exKeys recCfg 6).1, []) ((syncRun exKeys recCfg 6).2.filter (fun m => m.1 != 4))
/-- replicas 1, 2, 3 time out in view 4 -/
def wC : SysState × Msgs :=
  deliverAll exKeys recCfg (wB.1, []) [(1, .localTimeout 4), (2, .localTimeout 4), (3, .localTimeout 4)]
def wP4 : Block := ((((syncRun exKeys recCfg 6).1.reps.lookup 1).getD {}).chain.blocks.lookup "P4").getD genesisBlock
/-- the certificate of `P4`, from the votes of replicas 1, 2, 3 (byte ids of the global table) -/
def wQC : QC := ⟨some (.multi .ecdsa [⟨1, 13⟩, ⟨2, 14⟩, ⟨3, 15⟩]), 4, "P4"⟩
/-- the timeout certificate of view 4, from the timeout signatures of replicas 1, 2, 3 -/
def wTC : TC := ⟨some (.multi .ecdsa [⟨1, 16⟩, ⟨2, 17⟩, ⟨3, 18⟩]), 4⟩
/-- the network hands both certificates to replica 4 (still in view 3), which can fetch `P4`: it verifies them, adopts them
as high QC and high TC — and enters the view AFTER them, view 5 (the old model: view 4, one view on) -/
def wF : SysState :=
  sysStep exKeys recCfg
    (deliverAll exKeys recCfg (sysStep exKeys recCfg wC.1 (.fetchable 4 [("P4", wP4)]), [])
      [(4, .newview 1 { qc := some wQC, tc := some wTC })]).1
    (.fetchable 4 [])
/-- … and then the (stale) local timeout of view 4 fires at replica 4 -/
def wG : SysState × Msgs := deliverAll exKeys recCfg (wF, []) [(4, .localTimeout 4)]

theorem wF_reach : Reach exKeys recCfg wF :=
  .step _ _ (deliverAll_reach' exKeys recCfg _ _ (.step _ _ (deliverAll_reach' exKeys recCfg _ _
    (deliverAll_reach' exKeys recCfg _ _ (syncRun_reach exKeys recCfg 6)))))

theorem wG_reach : Reach exKeys recCfg wG.1 := deliverAll_reach' exKeys recCfg _ _ wF_reach

set_option maxRecDepth 100000 in
/-- RESTATED (task S15; the name is historical — with the old `advanceView` this witness had all four replicas in view 4
and replica 4 holding a QC and a TC of view 4, refuting `highQC.view < view`).  On the repaired model the same reachable
run — every replica honest, nothing queued anywhere — ends with replicas 1, 2, 3 in view 4 and the lagging replica 4,
which adopted the QC and the TC of view 4 while in view 3, in view 5 = certified view + 1: its high QC and high TC
(view 4) are BELOW its view; its advancement records are 1 → 2, 2 → 3, 3 → 5. -/
theorem highqc_not_below_view :
    Reach exKeys recCfg wF ∧ recCfg.honest.length = recCfg.n ∧
    recCfg.honest.map (fun j => (wF.reps.lookup j).map (fun s => (s.view, s.queue.length))) =
      [some (4, 0), some (4, 0), some (4, 0), some (5, 0)] ∧
    (wF.reps.lookup 4).map (fun s => (s.highQC.view, s.highTC.view, s.highQC, s.highTC)) = some (4, 4, wQC, wTC) ∧
    (wF.reps.lookup 4).map (fun s => (s.ghost.filter GRec.isAdv).map (fun r => (r.advFrom, r.advTo))) =
      some [(1, 2), (2, 3), (3, 5)] :=
  ⟨wF_reach, rfl, by decide +kernel, by decide +kernel, by decide +kernel⟩

set_option maxRecDepth 100000 in
/-- RESTATED (task S15, as `highqc_not_below_view`): replica 4 holds a TC of view 4 and is in view 5 -/
theorem hightc_not_below_view :
    Reach exKeys recCfg wF ∧ recCfg.honest.map (fun j => (wF.reps.lookup j).map (·.view)) = [some 4, some 4, some 4, some 5] ∧
    (wF.reps.lookup 4).map (fun s => (s.highTC.view, s.view)) = some (4, 5) :=
  ⟨wF_reach, by decide +kernel, by decide +kernel⟩

set_option maxRecDepth 100000 in
/-- RESTATED (task S15; with the old `advanceView` replica 4 was still in view 4, timed out there, and its own timeout
message carrying the certificates of view 4 moved it to view 5).  On the repaired model replica 4 is already in view 5
when the local timeout of view 4 fires: the event is stale and changes nothing — view 5, no timeout message collected,
certificates of view 4. -/
theorem timeout_with_current_certificate_leaves_view :
    Reach exKeys recCfg wG.1 ∧
    (wG.1.reps.lookup 4).map (fun s => (s.view, s.timeouts.map (fun t => (t.id, t.view)), s.highQC.view, s.highTC.view)) =
      some (5, [], 4, 4) :=
  ⟨wG_reach, by decide +kernel⟩

end Witness
end HsVerif.Props.C05Pre
