import HsVerif.Proofs.KauriTree
import HsVerif.Props.C09Kauri
import HsVerif.Props.C17
/-! C09 / C17, the Kauri tree as a whole — every node's aggregation state machine (Model/Kauri.lean,
Props/C09Kauri) composed along the tree (Model/Tree.lean, Props/C17).  Property theorems only
(definitions and helper lemmas: Proofs/KauriTree.lean).

**Setting** (`TreeRun`, `TreeRun.Honest`): `n ≥ 1` replicas `1..n` placed by a position list `pos`
(`ValidPos n pos`: no repetition, length `n`, members exactly `1..n` — what `DefaultTreePos(n)` returns and
`Shuffle` preserves), branch factor `b ≥ 2`, ANY of the three signature schemes (ECDSA, EdDSA, BLS:
`Combine` of verifying signatures with disjoint signers verifies for all of them,
`C09Kauri.combine_disjoint_verifies`), every replica `i` holding the vote `own i` that `Sign` returns
for the block (`HonestSig`: present in the ground truth `T`), the block in every store (`known = true`),
every node starting from an ARBITRARY state `st0 i` (left over from earlier views), node `r` configured
as the driver does (`node_is_newSimple`).

**The bottom-up run** (`TreeRun.Sends`, unfolded in `sends_iff`): node `r` does `begin view hash (own r)`,
then, for each child `c` in ANY order, `contribution view c (some agg_c) true` where `agg_c` is an
aggregate that `c`'s own bottom-up run handed to `SendContributionToParent`, then its wait timer fires
(`timerExpired view`) — after the last child, never before.  `Sends r agg`: `agg` is an aggregate that
this run of `r` hands to `SendContributionToParent`.

**Findings** (statements that are false as first written, with what is true):
* a node that has a grandchild NEVER forwards on a contribution: `IsSubSet(tree.SubTree(), senders)`
  compares every replica below the node with the ids of its DIRECT senders, so only the wait timer makes
  it send (`node_sends_once`, clause 5; concrete: `grandparent_waits_counterexample`).  Hence the timer is
  part of the run of every node; for leaves and nodes whose sub-tree is their children it does nothing.
* "the root emits the certificate exactly once" is false: the quorum test runs after every contribution,
  so the root emits one certificate at the first prefix of its children that covers a quorum and one
  more at EVERY later contribution, each with more participants (`root_emits_qc`: `m - k0` certificates;
  `root_qc_twice_counterexample`: n = 4, b = 3 gives two).  Exactly one certificate iff only the last
  child completes the quorum (`root_single_qc`, e.g. every binary tree with n = 7).
* with n = 1 the root is a leaf, hears nobody and never emits a certificate (`lonely_root_no_qc`). -/
set_option linter.unusedVariables false
set_option linter.unusedSimpArgs false
namespace HsVerif.Props.C09Tree
open HsVerif.Model HsVerif.Model.Tree

/-! ### the setting -/

/-- `DefaultTreePos(n)` is a valid assignment of the replicas `1..n` -/
theorem validPos_default (n : Nat) : ValidPos n (defaultTreePos n) := C17.defaultTreePos_valid n

/-- `Shuffle` (any random stream) keeps it valid -/
theorem validPos_shuffle (n : Nat) (js pos : List Nat) (h : ValidPos n pos) : ValidPos n (shuffle js pos) := by
  obtain ⟨hp, hn, hl⟩ := C17.shuffle_valid js pos
  exact ⟨hn h.1, hl.trans h.2.1, fun x => (hp.mem_iff).trans (h.2.2 x)⟩

/-- node `r`'s configuration is the one the driver builds from `tree.NewSimple(r, b, pos)`:
`ReplicaChildren()` and `SubTree()` of `r`'s own instance (`C17.view`) -/
theorem node_is_newSimple (R : TreeRun) (H : R.Honest) (r : Nat) (hr : r ∈ R.pos) :
    newSimple r R.b R.pos = some (C17.view R.b R.pos r) ∧
    R.node r = { cfg := R.cfg, id := r, children := (C17.view R.b R.pos r).replicaChildren,
                 subtree := (C17.view R.b R.pos r).subTree } ∧
    R.ch r = (C17.view R.b R.pos r).replicaChildren :=
  ⟨(C17.newSimple_iff _ _ _ _).mpr ⟨H.hb, hr, rfl⟩, rfl, rfl⟩

/-- **The bottom-up run, unfolded** (every replica takes part): `r` sends `agg` iff there are
aggregates `cs`, one per child of `r`, in some order, each sent by that child's own bottom-up run, such
that `r`, after `begin` with its own vote, these contributions and then its wait timer, hands `agg` to
`SendContributionToParent`. -/
theorem sends_iff (R : TreeRun) (H : R.Honest) (r : Nat) (agg : Sig) :
    R.Sends r agg ↔ r ∈ R.pos ∧ ∃ cs : List (Nat × Sig),
      (cs.map (·.1)).Perm ((C17.view R.b R.pos r).childrenOf r) ∧ (∀ p ∈ cs, R.Sends p.1 p.2) ∧
      KEffect.sendToParent R.view (some agg) ∈
        (kRun R.T (R.node r) (R.st0 r)
          (.begin R.view R.hash (R.own r) :: cs.map (fun p => KOp.contribution R.view p.1 (some p.2) true) ++
            [.timerExpired R.view])).2 := by
  constructor
  · intro h
    cases h with
    | node hr _ hids hcs hmem =>
      rw [H.filter_live] at hids
      exact ⟨hr, _, hids, hcs, hmem⟩
  · rintro ⟨hr, cs, hids, hcs, hmem⟩
    exact TreeRun.Sends.node hr (H.all_live r) (by rw [H.filter_live]; exact hids) hcs hmem

/-- **The bottom-up run exists, for every order of the children at every node.**  `ord r` is the
order in which node `r` hears its children (any permutation of `ChildrenOf(r)`); the function
`TreeRun.aggOf` computes an aggregate that `r`'s run sends.  Hence for every node and every order of
its children there are contributions of the children's own runs to feed it with. -/
theorem bottom_up_run_exists (R : TreeRun) (H : R.Honest) :
    (∀ ord : Nat → List Nat, (∀ r ∈ R.pos, (ord r).Perm ((C17.view R.b R.pos r).childrenOf r)) →
      ∀ r ∈ R.pos, R.Sends r (R.aggOf ord R.pos.length r)) ∧
    (∀ r ∈ R.pos, ∀ ids : List Nat, ids.Perm ((C17.view R.b R.pos r).childrenOf r) →
      ∃ cs : List (Nat × Sig), cs.map (·.1) = ids ∧ ∀ p ∈ cs, R.Sends p.1 p.2) := by
  have h1 : ∀ ord : Nat → List Nat, (∀ r ∈ R.pos, (ord r).Perm ((C17.view R.b R.pos r).childrenOf r)) →
      ∀ r ∈ R.pos, R.Sends r (R.aggOf ord R.pos.length r) := by
    intro ord hord r hr
    exact R.sends_aggOf H.toValid ord (fun x hx => by rw [H.filter_live]; exact hord x hx) _ r hr (H.all_live r)
      (Nat.sub_le _ _)
  refine ⟨h1, fun r hr ids hids => ?_⟩
  refine ⟨ids.map (fun c => (c, R.aggOf R.ch R.pos.length c)), by simp [List.map_map, Function.comp_def], ?_⟩
  intro p hp
  obtain ⟨c, hc, rfl⟩ := List.mem_map.mp hp
  have hcp : c ∈ R.pos := (R.idx_child_lt H.toValid (hids.mem_iff.mp hc)).1
  exact h1 R.ch (fun x _ => List.Perm.refl _) c hcp

/-! ### the aggregate of every node -/

/-- **`subtree_aggregate`.**  Whatever node `r` sends in the bottom-up run verifies for the block
and its participants are EXACTLY `r` together with `SubTree(r)`, each once. -/
theorem subtree_aggregate (R : TreeRun) (H : R.Honest) {r : Nat} {agg : Sig} (h : R.Sends r agg) :
    verify R.T R.cfg agg (blkMsg R.hash) = true ∧ agg.participants.Nodup ∧
    agg.participants.Perm (r :: (C17.view R.b R.pos r).subTree) ∧
    agg.len = 1 + (C17.view R.b R.pos r).subTree.length := by
  obtain ⟨hok, hperm⟩ := R.sends_ok H.toValid h
  rw [H.part_eq] at hperm
  obtain ⟨hnd, hlen⟩ := sigOK_nodup R.T (R.node r) R.hash agg hok
  refine ⟨hok.1, hnd, hperm, ?_⟩
  rw [← hlen, hperm.length_eq, List.length_cons]; exact Nat.add_comm _ _

/-- **Exactly one aggregate per node, the complete one, and when.**  Feed node `r` one aggregate per
child, in any order, each sent by that child's bottom-up run.  Then (1) after the last contribution `r`
holds the aggregate `aggAfter …` of its own vote and all of them, (2) it verifies and its participants
are `r` and `SubTree(r)`, (3) in the whole view — wait timer included — `r` hands exactly ONE aggregate
to `SendContributionToParent`, this one, (4) if every replica of `SubTree(r)` is a child of `r` (a leaf:
at `begin`; a node without grandchildren: at the last contribution) it does so before the timer, and
(5) if `r` has a grandchild it sends NOTHING before its wait timer fires. -/
theorem node_sends_once (R : TreeRun) (H : R.Honest) {r : Nat} (hr : r ∈ R.pos) (cs : List (Nat × Sig))
    (hids : (cs.map (·.1)).Perm ((C17.view R.b R.pos r).childrenOf r)) (hcs : ∀ p ∈ cs, R.Sends p.1 p.2) :
    (kRun R.T (R.node r) (R.st0 r) (R.ops r cs)).1.aggContrib = some (aggAfter R.cfg (R.own r) cs) ∧
    (verify R.T R.cfg (aggAfter R.cfg (R.own r) cs) (blkMsg R.hash) = true ∧
      (aggAfter R.cfg (R.own r) cs).participants.Perm (r :: (C17.view R.b R.pos r).subTree)) ∧
    ((R.effects r cs).filter KEffect.isSend = [.sendToParent R.view (some (aggAfter R.cfg (R.own r) cs))] ∧
      R.Sends r (aggAfter R.cfg (R.own r) cs)) ∧
    ((∀ g ∈ (C17.view R.b R.pos r).subTree, g ∈ (C17.view R.b R.pos r).childrenOf r) →
      (kRun R.T (R.node r) (R.st0 r) (R.ops r cs)).2.filter KEffect.isSend =
        [.sendToParent R.view (some (aggAfter R.cfg (R.own r) cs))]) ∧
    ((∃ g ∈ (C17.view R.b R.pos r).subTree, g ∉ (C17.view R.b R.pos r).childrenOf r) →
      (kRun R.T (R.node r) (R.st0 r) (R.ops r cs)).2.filter KEffect.isSend = []) := by
  have hids' : (cs.map (·.1)).Perm ((R.ch r).filter R.live) := by rw [H.filter_live]; exact hids
  have hok := fun p hp => R.sends_ok H.toValid (hcs p hp)
  obtain ⟨h1, h2, h3, h4⟩ := R.node_in_tree H.toValid hr (H.all_live r) cs hids' hok
  have g := goodCh_mk' (id := r) H.vpos.1 H.hb
  obtain ⟨_, _, _, _, _, _, _, _, h9, h10⟩ := R.node_in_tree_part H.toValid hr (H.all_live r) cs
    (hids.nodup_iff.mpr (g.nodup r)) (fun x hx => hids.mem_iff.mp hx) hok
  rw [H.part_eq] at h3
  refine ⟨h1, ⟨h2.1, h3⟩, ⟨h4, ?_⟩, ?_, ?_⟩
  · refine TreeRun.Sends.node hr (H.all_live r) hids' hcs ?_
    have : KEffect.sendToParent R.view (some (aggAfter R.cfg (R.own r) cs)) ∈
        (R.effects r cs).filter KEffect.isSend := by rw [h4]; simp
    exact (List.mem_filter.mp this).1
  · intro hall
    exact h10 (fun x hx => hids.mem_iff.mpr (hall x hx))
  · rintro ⟨x, hx, hxc⟩
    exact h9 ⟨x, hx, fun hm => hxc (hids.mem_iff.mp hm)⟩

/-- **`every_vote_counted_once`** (the "every vote has exactly one path up" clause of C17 at the level
of signatures): in the aggregate of any node no replica appears twice, and a replica appears iff it is
the node itself or one of its descendants (`C17.Anc`: its chain of `Parent()` reports passes through the
node) — the vote of every replica of the sub-tree is counted, exactly once. -/
theorem every_vote_counted_once (R : TreeRun) (H : R.Honest) {r : Nat} {agg : Sig} (h : R.Sends r agg) :
    (∀ x, agg.participants.count x ≤ 1) ∧
    (∀ x, x ∈ agg.participants ↔ x = r ∨ C17.Anc R.b R.pos r x) ∧
    (∀ x, (x = r ∨ C17.Anc R.b R.pos r x) → agg.participants.count x = 1) := by
  obtain ⟨_, hnd, hperm, _⟩ := subtree_aggregate R H h
  have hmem : ∀ x, x ∈ agg.participants ↔ x = r ∨ C17.Anc R.b R.pos r x := by
    intro x
    rw [hperm.mem_iff, List.mem_cons, (C17.subtree_eq_descendants R.b R.pos H.vpos.1 H.hb r).2]
  refine ⟨List.nodup_iff_count.mp hnd, hmem, fun x hx => ?_⟩
  have h1 := List.nodup_iff_count.mp hnd x
  have h2 : 0 < agg.participants.count x := List.count_pos_iff.mpr ((hmem x).mpr hx)
  omega

/-- the aggregate of a node is unique up to the order in which the votes were merged -/
theorem aggregate_unique_up_to_order (R : TreeRun) (H : R.Honest) {r : Nat} {a a' : Sig}
    (h : R.Sends r a) (h' : R.Sends r a') : a.participants.Perm a'.participants ∧ a.len = a'.len :=
  ⟨(subtree_aggregate R H h).2.2.1.trans (subtree_aggregate R H h').2.2.1.symm,
   (subtree_aggregate R H h).2.2.2.trans (subtree_aggregate R H h').2.2.2.symm⟩

/-! ### the root and its certificates -/

/-- how many replicas the own vote and the sub-trees of the children `ids` cover -/
theorem covered_eq (R : TreeRun) (H : R.Honest) (ids : List Nat) :
    R.covered ids = 1 + (ids.map fun c => 1 + (C17.view R.b R.pos c).subTree.length).sum := by
  unfold TreeRun.covered
  rw [List.length_flatMap]
  congr 2
  apply List.map_congr_left
  intro c _
  rw [H.part_eq, List.length_cons]; exact Nat.add_comm _ _

/-- **When a node emits a certificate** (any node; it matters at the root).  Feed node `r` aggregates
of distinct children, sent by their bottom-up runs, in any order.  The `k+1`-th contribution makes `r`
emit a certificate iff `r`'s own vote and the sub-trees of the first `k+1` of these children cover a
quorum — then exactly one, for the node's view and block, verifying, whose participants are exactly
`r` and those sub-trees, each once. -/
theorem node_qc_step (R : TreeRun) (H : R.Honest) {r : Nat} (hr : r ∈ R.pos) (cs : List (Nat × Sig))
    (hidnd : (cs.map (·.1)).Nodup) (hidsub : ∀ x ∈ cs.map (·.1), x ∈ (C17.view R.b R.pos r).childrenOf r)
    (hcs : ∀ p ∈ cs, R.Sends p.1 p.2) (k : Nat) (hk : k < cs.length) :
    let a := aggAfter R.cfg (R.own r) (cs.take (k + 1))
    (kStep R.T (R.node r) (kRun R.T (R.node r) (R.st0 r) (R.ops r (cs.take k))).1
        (.contribution R.view cs[k].1 (some cs[k].2) true)).2.filter KEffect.isQC =
      (if R.cfg.quorum ≤ R.covered ((cs.map (·.1)).take (k + 1)) then [.newViewQC a R.view R.hash] else []) ∧
    verify R.T R.cfg a (blkMsg R.hash) = true ∧ a.participants.Nodup ∧
    a.participants.Perm (r :: ((cs.map (·.1)).take (k + 1)).flatMap fun c => c :: (C17.view R.b R.pos c).subTree) ∧
    a.participants.length = R.covered ((cs.map (·.1)).take (k + 1)) := by
  intro a
  have hok := fun p hp => R.sends_ok H.toValid (hcs p hp)
  have hstep := R.node_qc_step H.toValid hr (H.all_live r) cs hidnd hidsub hok k hk
  obtain ⟨h1, h2, h3, _⟩ := R.prefix_facts H.toValid hr (H.all_live r) cs hidnd hidsub hok (k + 1)
  obtain ⟨hnd, hlen⟩ := sigOK_nodup R.T (R.node r) R.hash _ h1
  refine ⟨hstep, h1.1, hnd, ?_, by rw [hlen]; exact h3⟩
  rw [List.map_take] at h2
  have : R.part = fun c => c :: (C17.view R.b R.pos c).subTree := funext fun c => H.part_eq c
  rw [this] at h2
  exact h2

/-- **`root_emits_qc`.**  n ≥ 2; feed the root one aggregate per child, in ANY order, each sent by
that child's bottom-up run (`m` children).  There is a first prefix of the children (the first `k0+1`)
whose sub-trees, with the root's own vote, cover a quorum.  (1) No shorter prefix covers one and every
longer one does.  (2) Up to the `k0`-th contribution the root has emitted no certificate.  (3) At the
`k0+1`-th it emits exactly one: `newViewQC sig view hash` for its view and block, `sig` verifying, with
≥ `quorumSize n` pairwise distinct participants.  (4) It emits one more at EVERY later contribution:
`m - k0` certificates in the view — "exactly once" is false unless `k0 = m - 1`.  (5) At the latest the
last contribution makes it emit one; that one has all `n` replicas as participants. -/
theorem root_emits_qc (R : TreeRun) (H : R.Honest) (hn2 : 2 ≤ R.cfg.n) (cs : List (Nat × Sig))
    (hids : (cs.map (·.1)).Perm ((C17.view R.b R.pos R.root).childrenOf R.root))
    (hcs : ∀ p ∈ cs, R.Sends p.1 p.2) :
    ∃ k0, k0 < cs.length ∧
      ((∀ k, k < k0 → R.covered ((cs.map (·.1)).take (k + 1)) < quorumSize R.cfg.n) ∧
       (∀ k, k0 ≤ k → quorumSize R.cfg.n ≤ R.covered ((cs.map (·.1)).take (k + 1)))) ∧
      (kRun R.T (R.node R.root) (R.st0 R.root) (R.ops R.root (cs.take k0))).2.filter KEffect.isQC = [] ∧
      (∃ sig, (kRun R.T (R.node R.root) (R.st0 R.root) (R.ops R.root (cs.take (k0 + 1)))).2.filter KEffect.isQC =
          [.newViewQC sig R.view R.hash] ∧
        verify R.T R.cfg sig (blkMsg R.hash) = true ∧ sig.participants.Nodup ∧
        quorumSize R.cfg.n ≤ sig.participants.length) ∧
      ((kRun R.T (R.node R.root) (R.st0 R.root) (R.ops R.root cs)).2.filter KEffect.isQC).length = cs.length - k0 ∧
      (∃ hm : cs.length - 1 < cs.length,
        (kStep R.T (R.node R.root) (kRun R.T (R.node R.root) (R.st0 R.root) (R.ops R.root (cs.take (cs.length - 1)))).1
            (.contribution R.view cs[cs.length - 1].1 (some cs[cs.length - 1].2) true)).2.filter KEffect.isQC =
          [.newViewQC (aggAfter R.cfg (R.own R.root) cs) R.view R.hash] ∧
        verify R.T R.cfg (aggAfter R.cfg (R.own R.root) cs) (blkMsg R.hash) = true ∧
        (aggAfter R.cfg (R.own R.root) cs).participants.Perm R.pos ∧
        (aggAfter R.cfg (R.own R.root) cs).participants.length = R.cfg.n) := by
  have V := H.toValid
  have hr := R.root_mem V
  obtain ⟨hidnd, hidsub, hok, hcov, hne, hq, hperm, hver⟩ := H.root_facts hn2 cs hids hcs
  have hm : cs.length - 1 < cs.length := by have := List.length_pos_iff.mpr hne; omega
  obtain ⟨k0, hk0, hbelow, habove, hnil, hone, hcount⟩ := R.node_qcs V hr (H.all_live _) cs hidnd hidsub hok hne hq
  obtain ⟨f1, _, f3, _⟩ := R.prefix_facts V hr (H.all_live _) cs hidnd hidsub hok (k0 + 1)
  obtain ⟨fnd, flen⟩ := sigOK_nodup R.T (R.node R.root) R.hash _ f1
  refine ⟨k0, hk0, ⟨hbelow, habove⟩, hnil, ⟨_, hone, f1.1, fnd, ?_⟩, hcount, hm, ?_⟩
  · rw [flen, f3]; exact habove k0 (Nat.le_refl _)
  · have hstep := R.node_qc_step V hr (H.all_live _) cs hidnd hidsub hok (cs.length - 1) hm
    have hfull : cs.take (cs.length - 1 + 1) = cs := List.take_of_length_le (by omega)
    have hfull' : (cs.map (·.1)).take (cs.length - 1 + 1) = cs.map (·.1) := List.take_of_length_le (by simp; omega)
    rw [hfull, hfull', if_pos hq] at hstep
    exact ⟨hstep, hver, hperm, by rw [hperm.length_eq]; exact H.vpos.2.1⟩

/-- **Exactly one certificate iff only the last child completes the quorum.**  If the root's own vote
and the sub-trees of the first `m - 1` children (in the order heard) do not cover a quorum, the root
emits exactly one certificate in the view: at the last contribution, with all `n` participants.  (Every
binary tree with n = 7: the root and one child's sub-tree are 4 < 5.) -/
theorem root_single_qc (R : TreeRun) (H : R.Honest) (hn2 : 2 ≤ R.cfg.n) (cs : List (Nat × Sig))
    (hids : (cs.map (·.1)).Perm ((C17.view R.b R.pos R.root).childrenOf R.root))
    (hcs : ∀ p ∈ cs, R.Sends p.1 p.2)
    (hlast : R.covered ((cs.map (·.1)).take (cs.length - 1)) < quorumSize R.cfg.n) :
    (kRun R.T (R.node R.root) (R.st0 R.root) (R.ops R.root cs)).2.filter KEffect.isQC =
      [.newViewQC (aggAfter R.cfg (R.own R.root) cs) R.view R.hash] ∧
    (aggAfter R.cfg (R.own R.root) cs).participants.Perm R.pos := by
  have V := H.toValid
  obtain ⟨hidnd, hidsub, hok, hcov, hne, hq, hperm, _⟩ := H.root_facts hn2 cs hids hcs
  obtain ⟨k0, hk0, _, habove, _, hone, _⟩ := R.node_qcs V (R.root_mem V) (H.all_live _) cs hidnd hidsub hok hne hq
  have hk : k0 = cs.length - 1 := by
    apply Classical.byContradiction
    intro hne
    have := habove (cs.length - 2) (by omega)
    have e : cs.length - 2 + 1 = cs.length - 1 := by omega
    rw [e] at this
    exact absurd this (Nat.not_le.mpr hlast)
  have hfull : cs.take (k0 + 1) = cs := List.take_of_length_le (by omega)
  rw [hfull] at hone
  exact ⟨hone, hperm⟩

/-- a root without children (n = 1) hears nobody: it emits no certificate, although its own vote is a quorum -/
theorem lonely_root_no_qc (R : TreeRun) (H : R.Honest) (h1 : R.cfg.n = 1) :
    (C17.view R.b R.pos R.root).childrenOf R.root = [] ∧ quorumSize R.cfg.n = 1 ∧
    (R.effects R.root []).filter KEffect.isQC = [] := by
  have V := H.toValid
  have hch : R.ch R.root = [] := by
    cases hc : R.ch R.root with
    | nil => rfl
    | cons c l =>
      have hcov := R.covered_root V (R.ch R.root) (by rw [H.filter_live])
      rw [H.filter_live, H.vpos.2.1, h1, hc] at hcov
      have : 0 < (R.part c).length := by rw [H.part_eq]; simp
      unfold TreeRun.covered at hcov
      rw [List.flatMap_cons, List.length_append] at hcov
      omega
  refine ⟨hch, by rw [h1]; decide, ?_⟩
  obtain ⟨_, _, _, _, _, _, hq, _⟩ := R.node_in_tree_part V (R.root_mem V) (H.all_live _) [] (by simp) (by simp) (by simp)
  have htimer : ∀ s : KState, (kStep R.T (R.node R.root) s (.timerExpired R.view)).2.filter KEffect.isQC = [] := by
    intro s
    simp only [kStep, onTimer]
    by_cases h1 : (s.currentView != R.view) = true
    · simp [h1]
    · by_cases h2 : (!s.aggSent && s.aggContrib.isSome) = true
      · simp only [h1, h2, if_true, Bool.false_eq_true, if_false]; rfl
      · simp [h1, h2]
  unfold TreeRun.effects
  rw [kRun_append, List.filter_append, hq, kRun_cons, kRun_nil, List.append_nil, htimer]
  rfl

/-! ### silent leaves -/

/-- **Silent leaves.**  Some leaves never contribute (`live i = false`; a silent replica is a leaf,
the root takes part); everybody else is honest, and every node's wait timer fires after its other
children have contributed.  Then every node still sends exactly the aggregate of the replicas of its
sub-tree that take part (each once, verifying), and — if the replicas taking part number at least a
quorum, i.e. the silent ones at most `n - quorumSize n` — the root emits a certificate at the latest when
the last of its contributing children has contributed: verifying, whose participants are exactly the
replicas that take part. -/
theorem silent_leaves_root_qc (R : TreeRun) (V : R.Valid)
    (hq : quorumSize R.cfg.n ≤ (R.pos.filter R.live).length) :
    (∀ r agg, R.Sends r agg → verify R.T R.cfg agg (blkMsg R.hash) = true ∧ agg.participants.Nodup ∧
      agg.participants.Perm ((r :: (C17.view R.b R.pos r).subTree).filter R.live)) ∧
    (∀ cs : List (Nat × Sig), cs ≠ [] →
      (cs.map (·.1)).Perm (((C17.view R.b R.pos R.root).childrenOf R.root).filter R.live) →
      (∀ p ∈ cs, R.Sends p.1 p.2) →
      ∃ hm : cs.length - 1 < cs.length,
        (kStep R.T (R.node R.root) (kRun R.T (R.node R.root) (R.st0 R.root) (R.ops R.root (cs.take (cs.length - 1)))).1
            (.contribution R.view cs[cs.length - 1].1 (some cs[cs.length - 1].2) true)).2.filter KEffect.isQC =
          [.newViewQC (aggAfter R.cfg (R.own R.root) cs) R.view R.hash] ∧
        verify R.T R.cfg (aggAfter R.cfg (R.own R.root) cs) (blkMsg R.hash) = true ∧
        (aggAfter R.cfg (R.own R.root) cs).participants.Perm (R.pos.filter R.live) ∧
        quorumSize R.cfg.n ≤ (aggAfter R.cfg (R.own R.root) cs).participants.length) := by
  constructor
  · intro r agg h
    obtain ⟨hok, hperm⟩ := R.sends_ok V h
    exact ⟨hok.1, (sigOK_nodup R.T (R.node r) R.hash agg hok).1, hperm⟩
  · intro cs hne hids hcs
    have hr := R.root_mem V
    have g := goodCh_mk' (id := R.root) V.vpos.1 V.hb
    have hidnd : (cs.map (·.1)).Nodup := hids.nodup_iff.mpr ((g.nodup _).filter _)
    have hidsub : ∀ x ∈ cs.map (·.1), x ∈ R.ch R.root := fun x hx => (List.mem_filter.mp (hids.mem_iff.mp hx)).1
    have hok := fun p hp => R.sends_ok V (hcs p hp)
    have hcov : R.covered (cs.map (·.1)) = (R.pos.filter R.live).length := R.covered_root V _ hids
    have hm : cs.length - 1 < cs.length := by have := List.length_pos_iff.mpr hne; omega
    have hq' : R.cfg.quorum ≤ R.covered (cs.map (·.1)) := by rw [hcov]; exact hq
    have hstep := R.node_qc_step V hr V.root_live cs hidnd hidsub hok (cs.length - 1) hm
    have hfull : cs.take (cs.length - 1 + 1) = cs := List.take_of_length_le (by omega)
    have hfull' : (cs.map (·.1)).take (cs.length - 1 + 1) = cs.map (·.1) := List.take_of_length_le (by simp; omega)
    rw [hfull, hfull', if_pos hq'] at hstep
    obtain ⟨_, l2, l3, _⟩ := R.node_in_tree V hr V.root_live cs hids hok
    have hperm := l3.trans (R.part_root V)
    exact ⟨hm, hstep, l2.1, hperm, by rw [hperm.length_eq]; exact hq⟩

/-- the number of replicas taking part is `n` minus the number of silent ones -/
theorem live_count (R : TreeRun) (V : R.Valid) :
    (R.pos.filter R.live).length + (R.pos.filter fun i => !R.live i).length = R.cfg.n := by
  rw [← V.vpos.2.1]
  generalize R.pos = l
  induction l with
  | nil => rfl
  | cons a l ih => cases h : R.live a <;> simp [List.filter_cons, h] <;> omega

/-! ### Non-vacuity and counterexamples: concrete trees, every node run bottom-up -/

/-- BLS run: block "B" in view 1, every replica votes with `blsSign` -/
def exRun (n b : Nat) (pos : List Nat) : TreeRun :=
  { T := fun _ => none, cfg := ⟨n, .bls12⟩, b := b, pos := pos, view := 1, hash := "B",
    own := fun i => blsSign i (blkMsg "B") }

/-- ECDSA run: the signature bytes `i` are replica `i`'s signature over the block -/
def exRunE (n b : Nat) (pos : List Nat) : TreeRun :=
  { T := fun x => some ⟨x, blkMsg "B"⟩, cfg := ⟨n, .ecdsa⟩, b := b, pos := pos, view := 1, hash := "B",
    own := fun i => .multi .ecdsa [⟨i, i⟩] }

/-- the hypotheses of the theorems hold for these runs, for every valid tree -/
theorem exRun_honest (n b : Nat) (pos : List Nat) (hb : 2 ≤ b) (hn : 1 ≤ n) (hv : ValidPos n pos) :
    (exRun n b pos).Honest ∧ (exRunE n b pos).Honest :=
  ⟨{ hb := hb, hn := hn, vpos := hv, own := fun i _ _ => Or.inr ⟨rfl, rfl⟩,
     silent_leaf := fun i _ h => by simp [exRun] at h, root_live := rfl, all_live := fun _ => rfl },
   { hb := hb, hn := hn, vpos := hv, own := fun i _ _ => Or.inl ⟨by simp [exRunE], i, rfl, rfl⟩,
     silent_leaf := fun i _ h => by simp [exRunE] at h, root_live := rfl, all_live := fun _ => rfl }⟩

/-- readable form of an effect: kind, participants, view, block, verdict of `Verify` for the block -/
def fxView (R : TreeRun) : KEffect → String × List Nat × Nat × Hash × Bool
  | .newViewQC a v h => ("qc", a.participants, v, h, verify R.T R.cfg a (blkMsg h))
  | .sendToParent v (some a) => ("send", a.participants, v, "", verify R.T R.cfg a (blkMsg R.hash))
  | .sendToParent v none => ("send-nil", [], v, "", false)
  | .sendProposalToChildren => ("propose", [], 0, "", false)

/-- everything the root emits up to its last child's contribution, every node below it having run
bottom-up with its children in the order `ord` -/
def rootFx (R : TreeRun) (ord : Nat → List Nat) : List KEffect :=
  (kRun R.T (R.node R.root) (R.st0 R.root)
    (R.ops R.root ((ord R.root).map fun c => (c, R.aggOf ord R.pos.length c)))).2

/-- n = 7, b = 2, default positions (1; 2 3; 4 5 6 7): one certificate, at the second child, with all
seven participants (quorum 5; the root and one child's sub-tree are 4) -/
theorem tree_7_2_default :
    (rootFx (exRun 7 2 (defaultTreePos 7)) (exRun 7 2 (defaultTreePos 7)).ch).map (fxView (exRun 7 2 (defaultTreePos 7))) =
      [("propose", [], 0, "", false), ("qc", [1, 2, 3, 4, 5, 6, 7], 1, "B", true)] := by decide +kernel

/-- n = 7, b = 2, shuffled positions (7; 1 3; 6 5 2 4), every node hearing its children in reverse order -/
theorem tree_7_2_shuffled :
    shuffle [3, 1, 4, 1, 5, 2] (defaultTreePos 7) = [7, 1, 3, 6, 5, 2, 4] ∧
    (exRun 7 2 [7, 1, 3, 6, 5, 2, 4]).root = 7 ∧
    (rootFx (exRun 7 2 [7, 1, 3, 6, 5, 2, 4]) (fun r => ((exRun 7 2 [7, 1, 3, 6, 5, 2, 4]).ch r).reverse)).map
        (fxView (exRun 7 2 [7, 1, 3, 6, 5, 2, 4])) =
      [("propose", [], 0, "", false), ("qc", [1, 2, 3, 4, 5, 6, 7], 1, "B", true)] := by decide +kernel

/- Full statement ("the root emits the certificate exactly once") is false; `root_emits_qc` says what is
true.  n = 4, b = 3, default positions (1; 2 3 4), quorum 3: the root emits a certificate at the second
child AND another one at the third (then, its sub-tree being its children, hands the aggregate to
`SendContributionToParent`). -/
theorem root_qc_twice_counterexample :
    quorumSize 4 = 3 ∧
    (rootFx (exRun 4 3 (defaultTreePos 4)) (exRun 4 3 (defaultTreePos 4)).ch).map (fxView (exRun 4 3 (defaultTreePos 4))) =
      [("propose", [], 0, "", false), ("qc", [1, 2, 3], 1, "B", true), ("qc", [1, 2, 3, 4], 1, "B", true),
       ("send", [1, 2, 3, 4], 1, "", true)] := by decide +kernel

/-- the same tree with ECDSA, children heard in the order 4, 3, 2 -/
theorem tree_4_3_ecdsa :
    (rootFx (exRunE 4 3 (defaultTreePos 4)) (fun r => ((exRunE 4 3 (defaultTreePos 4)).ch r).reverse)).map
        (fxView (exRunE 4 3 (defaultTreePos 4))) =
      [("propose", [], 0, "", false), ("qc", [3, 4, 1], 1, "B", true), ("qc", [2, 3, 4, 1], 1, "B", true),
       ("send", [2, 3, 4, 1], 1, "", true)] := by decide +kernel

def ex8 : TreeRun := exRun 8 2 (defaultTreePos 8)
/-- what node 2's children 4 and 5 send in their own bottom-up runs -/
def ex8cs : List (Nat × Sig) := (ex8.ch 2).map fun c => (c, ex8.aggOf ex8.ch 8 c)

/- Full statement ("a node whose children have all contributed forwards the complete aggregate") is
false for a node with a grandchild; `node_sends_once` says what is true.  n = 8, b = 2 (1; 2 3; 4 5 6 7; 8):
node 2 has the children 4, 5 and the grandchild 8.  After both children have contributed it has sent
NOTHING (`IsSubSet([4 5 8], [4 5])` fails); only its wait timer makes it send the aggregate of 2, 4, 5, 8. -/
theorem grandparent_waits_counterexample :
    (ex8.node 2).children = [4, 5] ∧ (ex8.node 2).subtree = [4, 5, 8] ∧
    (kRun ex8.T (ex8.node 2) (ex8.st0 2) (ex8.ops 2 ex8cs)).2.map (fxView ex8) = [("propose", [], 0, "", false)] ∧
    (ex8.effects 2 ex8cs).map (fxView ex8) = [("propose", [], 0, "", false), ("send", [2, 4, 5, 8], 1, "", true)] :=
  ⟨by decide +kernel, by decide +kernel, by decide +kernel, by decide +kernel⟩

def ex7s : TreeRun := { exRun 7 2 (defaultTreePos 7) with live := fun i => i != 7 }

/-- silent leaf: n = 7, b = 2, replica 7 never contributes; node 3 flushes {3, 6} on its timer and the
root still emits a certificate, with the six participants that take part (quorum 5) -/
theorem tree_7_2_silent_leaf :
    (rootFx ex7s (fun r => (ex7s.ch r).filter ex7s.live)).map (fxView ex7s) =
      [("propose", [], 0, "", false), ("qc", [1, 2, 3, 4, 5, 6], 1, "B", true)] := by decide +kernel

/-- n = 1: the lonely root sends its own vote "to the parent" and emits no certificate -/
theorem tree_1 : ((exRun 1 2 (defaultTreePos 1)).effects 1 []).map (fxView (exRun 1 2 (defaultTreePos 1))) =
    [("send", [1], 1, "", true)] := by decide +kernel

end HsVerif.Props.C09Tree
