import HsVerif.Proofs.ReplicaInv
import HsVerif.Props.C02
/-! C03 — honest replicas vote once per view, only for well-formed leader proposals.
Property theorems only.  The replica is `Model/Replica.lean` (all handlers, event loop, block
store, certificate checks); "signs a vote for `b`" is the ghost record `GRec.vote b sender` that
`voteFor` appends in the same breath as it emits `Out.sign (blkMsg b.hash)`. -/
open Std.Do
set_option linter.unusedVariables false
namespace HsVerif.Props.C03
open HsVerif.Model

theorem run_of_triple {α} (f : M α) (P Q : RState → Prop) (h : ⦃fun s => ⌜P s⌝⦄ f ⦃⇓ _ s => ⌜Q s⌝⦄)
    (s : RState) (hp : P s) : Q (f.run s).2 := by
  have := h s hp
  simpa [wp, StateT.run, Id.run] using this

/-- the state after delivering the events `es` one after the other (each followed by running the
event loop to quiescence), from any state `s` -/
def runEvents (k : Keys) (c : RCfg) (s : RState) (es : List Ev) : RState :=
  es.foldl (fun s e => (step k c s e).1) s

theorem step_inv (k : Keys) (c : RCfg) (s : RState) (e : Ev) (h : Inv3 k c s) : Inv3 k c (step k c s e).1 := by
  unfold step
  have h0 : Inv3 k c { s with out := [], queue := s.queue ++ [e] } := h
  exact run_of_triple _ _ _ (runLoop_inv k c 100000) _ h0

theorem start_inv (k : Keys) (c : RCfg) (s : RState) (h : Inv3 k c s) : Inv3 k c (start k c s).1 := by
  unfold start
  have h0 : Inv3 k c { s with out := [] } := h
  have spec : ⦃fun s => ⌜Inv3 k c s⌝⦄ (do
      let s ← get
      if s.view == 1 && c.leader 1 == c.id then
        createAndPropose k c { qc := some s.highQC, tc := some s.highTC }
      runLoop k c 100000 : M Unit) ⦃⇓ _ s => ⌜Inv3 k c s⌝⦄ := by
    mvcgen [createAndPropose_inv, runLoop_inv]
  exact run_of_triple _ _ _ spec _ h0

/-- Every reachable state (initial state, `Start`, then ANY sequence of delivered events —
proposals, votes, timeouts, new-views with arbitrary content, local timeouts) satisfies the
vote-discipline invariant. -/
theorem reachable_inv (k : Keys) (c : RCfg) (es : List Ev) :
    Inv3 k c (runEvents k c (start k c {}).1 es) := by
  have gen : ∀ (es : List Ev) (s : RState), Inv3 k c s → Inv3 k c (runEvents k c s es) := by
    intro es
    induction es with
    | nil => intro s h; exact h
    | cons e es ih => intro s h; exact ih _ (step_inv k c s e h)
  exact gen es _ (start_inv k c {} (InvV_init k c))

/-- views of the blocks the replica signed votes for, in signing order -/
def voteViews (g : List GRec) : List Nat := g.filterMap GRec.voteView

/-- **At most one vote per view, in strictly increasing view order.** -/
theorem votes_increasing (k : Keys) (c : RCfg) (es : List Ev) :
    (voteViews (runEvents k c (start k c {}).1 es).ghost).Pairwise (· < ·) := by
  obtain ⟨_, h2, _⟩ := reachable_inv k c es
  simp only [VS] at h2
  unfold voteViews
  rw [List.pairwise_filterMap]
  refine h2.imp ?_
  intro a b h v1 hv1 v2 hv2
  refine h v1 v2 ?_ hv2
  cases a <;> simp_all [GRec.voteView, GRec.signedView]

/-- **Never votes in a view for which it already signed a timeout, nor in an earlier one**: if a
timeout for view `v` was signed before a vote for block `b`, then `v < b.view`. -/
theorem no_vote_after_timeout (k : Keys) (c : RCfg) (es : List Ev) (pre post : List GRec) (v : Nat) (b : Block) (id : Nat)
    (h : (runEvents k c (start k c {}).1 es).ghost = pre ++ [GRec.tmo v] ++ post)
    (hb : GRec.vote b id ∈ post) : v < b.view := by
  obtain ⟨_, h2, _⟩ := reachable_inv k c es
  simp only [VS] at h2
  rw [h, List.append_assoc, List.pairwise_append] at h2
  have := h2.2.1
  rw [List.singleton_append, List.pairwise_cons] at this
  exact this.1 _ hb v b.view rfl rfl

/-- **Votes only for well-formed leader proposals**: every block the replica signs a vote for was
proposed by the leader of its view, directly extends the block its certificate certifies (parent
= certified block, higher view), and that certificate was accepted by the replica's certificate
verifier — hence, by C02, carries a quorum of distinct genuine signatures. -/
theorem vote_wellformed (k : Keys) (c : RCfg) (es : List Ev) (b : Block) (id : Nat)
    (h : GRec.vote b id ∈ (runEvents k c (start k c {}).1 es).ghost) :
    id = c.leader b.view ∧ b.parent = b.qc.hash ∧ b.qc.view < b.view ∧
    ∃ s0 : RState, verifyQC (env k c s0) b.qc = true := by
  obtain ⟨_, _, h3⟩ := reachable_inv k c es
  exact h3 b id h

/-- ... so the certificate is sound in the sense of C02. -/
theorem vote_qc_quorum (k : Keys) (c : RCfg) (es : List Ev) (b : Block) (id : Nat)
    (h : GRec.vote b id ∈ (runEvents k c (start k c {}).1 es).ghost)
    (hs : ∀ s0, C02.StoreOK (env k c s0)) (hw : C02.QC.WF b.qc) :
    (b.qc.hash = genesisHash ∧ b.qc.view = 0) ∨ ∃ s0 blk sg, (env k c s0).get b.qc.hash = some blk ∧ blk.view = b.qc.view ∧
      b.qc.sig = some sg ∧ C02.QuorumSigned (env k c s0) sg (blkMsg b.qc.hash) := by
  obtain ⟨_, _, _, s0, hv⟩ := vote_wellformed k c es b id h
  rcases C02.verifyQC_sound (env k c s0) b.qc (hs s0) hw hv with h | ⟨blk, sg, h1, _, h3, h4, h5⟩
  · exact Or.inl h
  · exact Or.inr ⟨s0, blk, sg, h1, h3, h4, h5⟩

/-- The signing primitive and the ghost record are one step: `voteFor` emits exactly the
signature request for the block's bytes and appends exactly the vote record. -/
theorem voteFor_signs (c : RCfg) (b : Block) (id : Nat) (o : List Out) (g : List GRec) :
    ⦃fun s => ⌜s.out = o ∧ s.ghost = g⌝⦄ voteFor c b id
    ⦃⇓ _ s => ⌜s.out = o ++ [.sign (blkMsg b.hash)] ∧ s.ghost = g ++ [.vote b id]⌝⦄ := by
  mvcgen [voteFor, signMsg, emit] <;> simp_all +zetaDelta

end HsVerif.Props.C03
