import HsVerif.Model.Cert
/-
Model of the vote-aggregation state machine of ONE node of the Kauri tree, as written in
protocol/comm/kauri.go (`begin`, `reset`, `sendProposalToChildren`, `onContributionRecv`,
`onWaitTimerExpired`, `mergeContribution`) and protocol/comm/kauri/kauri.go
(`CanMergeContributions`, `IsSubSet`), over the symbolic signatures of Model/Crypto.lean
(`verify` = `auth.Verify` = cache + crypto base, `combine` = `auth.Combine`).

* One node: its configuration `KCfg` holds the crypto configuration (n, scheme; `QuorumSize()`),
  its own id, `tree.ReplicaChildren()` and `tree.SubTree()`.
* `k.initDone` is true (the replica is connected); `onWaitForConnected` only replays `begin`.
* `k.sender.Sub(children)` succeeds (it fails only for ids the sender does not know).
* `go k.waitToAggregate()` (`time.Sleep(tree.WaitTime())`, then `AddEvent(WaitTimerExpiredEvent)`):
  the timer is the explicit op `timerExpired view`; whoever runs the model decides when it fires.
* `k.blockchain.Get(k.blockHash)`: its success is the flag `known` carried by the contribution op
  (the block store is outside this state machine; any behaviour of the store is covered).
  A block's bytes-to-sign are `blkMsg hash`.
* `hotstuffpb.QuorumSignatureFromProto(contribution.Signature)`: `Sig.fromWire` (the BLS bit-field
  is rebuilt with `BitfieldFromBytes`, which recounts its length); a contribution without signature
  decodes to nil (`none`).
* `eventLoop.AddEvent(NewViewMsg{QC})` is the effect `newViewQC`; `sender.SendContributionToParent`
  is the effect `sendToParent` (its signature argument may be nil, as in Go); `childSender.Propose`
  is the effect `sendProposalToChildren`.

Repairs modelled (the code before them is kept as `mergeContributionOrig` / `onTimerOrig` / `kStepOrig`
for the counterexample theorems of Props/C09Kauri.lean):
* fixes/C09-kauri-nil-aggregate.diff — `onWaitTimerExpired` sent `k.aggContrib` to the parent also
  when it was nil (second timer of a view, or a timer after a flush);
* fixes/C09-kauri-first-contribution-quorum.diff — `mergeContribution` returned before the quorum
  test when the held aggregate was nil (first contribution after a timer flush), so a contribution
  that by itself carries a quorum produced no certificate.
-/
namespace HsVerif.Model

structure KCfg where
  cfg : Cfg
  id : Nat
  children : List Nat
  subtree : List Nat
deriving Repr

structure KState where
  aggContrib : Option Sig := none
  aggSent : Bool := false
  blockHash : Hash := ""
  currentView : Nat := 0
  senders : List Nat := []
deriving Repr, DecidableEq

inductive KOp
  /-- `begin(p, pc)`: `view = p.Block.View()`, `hash = pc.BlockHash()`, `sig = pc.Signature()` -/
  | begin (view : Nat) (hash : Hash) (sig : Sig)
  /-- `onContributionRecv(&kauripb.Contribution{ID, Signature, View})`; `known` = result of
  `blockchain.Get(k.blockHash)` during this call -/
  | contribution (view : Nat) (id : Nat) (sig : Option Sig) (known : Bool)
  /-- `onWaitTimerExpired(WaitTimerExpiredEvent{currentView})` -/
  | timerExpired (view : Nat)
deriving Repr, DecidableEq

inductive KEffect
  | sendProposalToChildren
  | sendToParent (view : Nat) (sig : Option Sig)
  | newViewQC (sig : Sig) (view : Nat) (hash : Hash)
deriving Repr, DecidableEq

/-- `QuorumSignatureFromProto ∘ QuorumSignatureToProto` -/
def Sig.fromWire : Sig → Sig
  | .multi k es => .multi k es
  | .bls a j bits => .bls a j (Bitfield.fromBytes bits.data)

/-- `Participants().Contains(id)` -/
def Sig.containsId : Sig → Nat → Bool
  | .multi _ es, i => (es.map (·.claimed)).contains i
  | .bls _ _ bits, i => bits.contains i

/-- `kauri.CanMergeContributions(a, b)` for non-nil arguments: `RangeWhile` over a's participants,
stopping at the first one that b contains. -/
def canMerge (a b : Sig) : Bool := a.participants.all (fun i => !b.containsId i)

/-- `kauri.IsSubSet(a, b)` -/
def isSubSet (a b : List Nat) : Bool := a.all (fun i => b.contains i)

/-- `reset` -/
def KState.reset (s : KState) : KState := { s with aggContrib := none, senders := [], aggSent := false }

/-- `mergeContribution`: `none` = an error is returned (nothing was modified).
With `fix: Kauri checks the quorum also for the first contribution after a reset`. -/
def mergeContribution (T : Truth) (c : KCfg) (s : KState) (known : Bool) (cur : Option Sig) :
    Option (KState × List KEffect) :=
  if !known then none else
  match cur with
  | none => none                                         -- Verify(nil, …) ⇒ error
  | some cur =>
    if !verify T c.cfg cur (blkMsg s.blockHash) then none else
    let merged : Option Sig :=
      match s.aggContrib with
      | none => some cur                                 -- first contribution
      | some agg =>
        if !canMerge cur agg then none else
        match combine c.cfg [cur, agg] with
        | .ok comb => some comb
        | _ => none
    match merged with
    | none => none
    | some a =>
      let s' := { s with aggContrib := some a }
      if c.cfg.quorum ≤ a.len then some (s', [.newViewQC a s.currentView s.blockHash])
      else some (s', [])

/-- `mergeContribution` before the fix: the first contribution (held aggregate nil) returned
early, without the quorum test.  Only used by the counterexample theorems. -/
def mergeContributionOrig (T : Truth) (c : KCfg) (s : KState) (known : Bool) (cur : Option Sig) :
    Option (KState × List KEffect) :=
  if !known then none else
  match cur with
  | none => none
  | some cur =>
    if !verify T c.cfg cur (blkMsg s.blockHash) then none else
    match s.aggContrib with
    | none => some ({ s with aggContrib := some cur }, [])
    | some agg =>
      if !canMerge cur agg then none else
      match combine c.cfg [cur, agg] with
      | .ok comb =>
        let s' := { s with aggContrib := some comb }
        if c.cfg.quorum ≤ comb.len then some (s', [.newViewQC comb s.currentView s.blockHash])
        else some (s', [])
      | _ => none

/-- `onContributionRecv` -/
def onContribution (T : Truth) (c : KCfg) (s : KState) (view id : Nat) (sig : Option Sig) (known : Bool) :
    KState × List KEffect :=
  if s.currentView != view then (s, []) else
  match mergeContribution T c s known (sig.map Sig.fromWire) with
  | none => (s, [])
  | some (s1, fx) =>
    let s2 := { s1 with senders := s1.senders ++ [id] }
    if isSubSet c.subtree s2.senders then
      ({ s2 with aggSent := true }, fx ++ [.sendToParent s2.currentView s2.aggContrib])
    else (s2, fx)

/-- `begin` (connected) with `sendProposalToChildren` -/
def kBegin (c : KCfg) (s : KState) (view : Nat) (hash : Hash) (sig : Sig) : KState × List KEffect :=
  let s1 := { s.reset with blockHash := hash, currentView := view, aggContrib := some sig }
  if !c.children.isEmpty then (s1, [.sendProposalToChildren])
  else ({ s1 with aggSent := true }, [.sendToParent s1.currentView s1.aggContrib])

/-- `onWaitTimerExpired`, with `fix: Kauri sends nothing to the parent when it holds no aggregate`. -/
def onTimer (s : KState) (view : Nat) : KState × List KEffect :=
  if s.currentView != view then (s, []) else
  if !s.aggSent && s.aggContrib.isSome then (s.reset, [.sendToParent s.currentView s.aggContrib]) else (s, [])

/-- `onWaitTimerExpired` before the fix.  Only used by the counterexample theorems. -/
def onTimerOrig (s : KState) (view : Nat) : KState × List KEffect :=
  if s.currentView != view then (s, []) else
  if !s.aggSent then (s.reset, [.sendToParent s.currentView s.aggContrib]) else (s, [])

def kStep (T : Truth) (c : KCfg) (s : KState) : KOp → KState × List KEffect
  | .begin v h sg => kBegin c s v h sg
  | .contribution v id sg known => onContribution T c s v id sg known
  | .timerExpired v => onTimer s v

/-- the step function of the code before the two fixes -/
def kStepOrig (T : Truth) (c : KCfg) (s : KState) : KOp → KState × List KEffect
  | .begin v h sg => kBegin c s v h sg
  | .contribution v id sg known =>
    if s.currentView != v then (s, []) else
    match mergeContributionOrig T c s known (sg.map Sig.fromWire) with
    | none => (s, [])
    | some (s1, fx) =>
      let s2 := { s1 with senders := s1.senders ++ [id] }
      if isSubSet c.subtree s2.senders then
        ({ s2 with aggSent := true }, fx ++ [.sendToParent s2.currentView s2.aggContrib])
      else (s2, fx)
  | .timerExpired v => onTimerOrig s v

/-- run a list of ops; the effects of all steps in order -/
def kRun (T : Truth) (c : KCfg) : KState → List KOp → KState × List KEffect
  | s, [] => (s, [])
  | s, op :: ops =>
    let (s1, fx1) := kStep T c s op
    let (s2, fx2) := kRun T c s1 ops
    (s2, fx1 ++ fx2)

end HsVerif.Model
