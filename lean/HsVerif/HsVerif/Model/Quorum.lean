/-
Model of /repo/quorum.go and core.RuntimeConfig.QuorumSize (core/replica.go).

  func NumFaulty(n int) int  { return (n - 1) / 3 }
  func QuorumSize(n int) int { f := NumFaulty(n); return int(math.Ceil(float64(n+f+1) / 2.0)) }

`n` is `len(replicas)`, hence a natural number.  For n = 0 Go computes (0-1)/3 = 0 (truncation
toward zero), and Lean's `(0 - 1) / 3 = 0` as well (truncated subtraction), so the model agrees on
all naturals.  `ceil (x / 2)` on an exactly representable integer x < 2^53 is `(x + 1) / 2`.
-/
namespace HsVerif.Model

def numFaulty (n : Nat) : Nat := (n - 1) / 3

def quorumSize (n : Nat) : Nat := (n + numFaulty n + 1 + 1) / 2

end HsVerif.Model
