/-
Model of protocol/leaderrotation (relab/hotstuff), as the code is written.

  common.go      ChooseRoundRobin(view, numReplicas) = ID(view % View(numReplicas) + 1)
  roundrobin.go  RoundRobin.GetLeader(view)  = ChooseRoundRobin(view, config.ReplicaCount())
  fixed.go       Fixed.GetLeader(_)          = f.leader
  treeleader.go  TreeBased.GetLeader(_)      = 1 when no tree is configured, else config.Tree().Root()
                                               (internal/tree: Root() = treePosToID[0])
  carousel.go    Carousel.GetLeader(round)   start-up test, fall-back test, walk over the parent chain,
                                               filter of the committed head's QC participants, sort,
                                               candidates[rnd.Int() % len(candidates)]
  reputation.go  RepBased.GetLeader(view)    old-view test, start-up test, reputation update (once per
                                               committed head), weights, weightedrand chooser, PickSource

Conventions.
* Views are `uint64` in Go: naturals < 2^64 here; the two places where the code subtracts
  (`round - View(chainLength)`) wrap, modelled by `wrapSub64`.  Replica ids are naturals.
* `n` = `config.ReplicaCount()` ≥ 1 (with n = 0 Go panics on `% 0`; outside the model).
* Blocks are named by their hash (a natural; SHA-256 injective, DESIGN §2).  Hash `0` is the genesis
  block; the Go test `block != genesis` is a pointer comparison with the one genesis object that
  `blockchain.New` stores, i.e. "hash = 0" here.  `get` is `Blockchain.Get` with a sender whose
  `RequestBlock` fails: a block that is not in the local store is not found.
* `signers` is the participant list of the block's embedded QC *in `ForEach` order* (ECDSA/EdDSA: the
  order of the signature list, repetitions preserved; BLS: ascending), `none` for a nil signature.
* `math/rand` is an oracle: `rnd s` is the list of the first outputs of
  `rand.New(rand.NewSource(s)).Int63()`.  `rnd.Int()` is the first of them (64-bit platform).
* `mroth/weightedrand` v1.0.0 (`NewChooser`, `PickSource`) and `Rand.Intn` are library code, modelled by
  their documented function (stable insertion order for ≤ 12 entries, which is what `sort.Slice` and
  `slices.SortFunc` do for short inputs; first running total ≥ r).  For more than 12 entries the two
  unstable sorts are an oracle (`perm`), see `repQueryWith`.
* float64 arithmetic of reputation.go is Lean's `Float` (IEEE-754 binary64, same operations in the same
  order); no theorem looks inside it.
-/
import HsVerif.Model.Quorum
namespace HsVerif.Model.Leader
open HsVerif.Model

/-! ## Stateless schemes -/

/-- `ChooseRoundRobin`. -/
def roundRobin (view n : Nat) : Nat := view % n + 1

/-- `Fixed.GetLeader`. -/
def fixed (leader : Nat) (_view : Nat) : Nat := leader

/-- `tree.Tree`: own id, branch factor, tree positions (shared by all replicas). -/
structure Tree where
  id : Nat
  branchFactor : Nat
  positions : List Nat
deriving Repr

/-- `TreeBased.GetLeader`.  `NewSimple` refuses a position list that lacks the own id, so the list is
never empty and the default of `headD` is never observed. -/
def treeLeader (tree : Option Tree) (_view : Nat) : Nat :=
  match tree with
  | none => 1
  | some t => t.positions.headD 0

/-! ## Machine integers -/

def two64 : Nat := 2 ^ 64

/-- `a - b` on `uint64`. -/
def wrapSub64 (a b : Nat) : Nat := (a % two64 + two64 - b % two64) % two64

/-- conversion to `int64` (two's complement wrap). -/
def toInt64 (x : Int) : Int := (x + 2 ^ 63) % 2 ^ 64 - 2 ^ 63

/-- `config.SharedRandomSeed() + int64(view)`. -/
def seedFor (seed : Int) (view : Nat) : Int := toInt64 (seed + toInt64 (view : Int))

/-! ## Committed chain -/

structure Block where
  parent : Nat
  view : Nat
  proposer : Nat
  signers : Option (List Nat)
deriving Repr

structure Cfg where
  n : Nat
  seed : Int
  chainLength : Nat
deriving Repr

inductive Answer
  | leader (id : Nat)
  | panic
deriving Repr, DecidableEq

/-- The loop `for i := 0; ok && i < f && block != genesis; i++ { lastAuthors = append(lastAuthors,
block.Proposer()); block, ok = blockchain.Get(block.Parent()) }`; first argument = `f - i`. -/
def lastAuthors (get : Nat → Option Block) : Nat → Nat → Block → List Nat
  | 0, _, _ => []
  | fuel + 1, h, b =>
    if h = 0 then []
    else b.proposer :: (match get b.parent with
      | none => []
      | some p => lastAuthors get fuel b.parent p)

/-- `slices.Sort` on ids, as a structural insertion sort (the result of sorting is unique). -/
def insertId (x : Nat) : List Nat → List Nat
  | [] => [x]
  | y :: ys => if x ≤ y then x :: y :: ys else y :: insertId x ys

def sortIds (l : List Nat) : List Nat := l.foldr insertId []

/-- participants that are not among the last authors, then `slices.Sort`. -/
def candidates (signers authors : List Nat) : List Nat :=
  sortIds (signers.filter fun id => !authors.contains id)

/-- `Carousel.GetLeader(round)` with committed head `(headHash, head)`. -/
def carousel (cfg : Cfg) (rnd : Int → List Nat) (get : Nat → Option Block)
    (headHash : Nat) (head : Block) (round : Nat) : Answer :=
  match head.signers with
  | none => .leader (roundRobin round cfg.n)
  | some signers =>
    if head.view ≠ wrapSub64 round cfg.chainLength then .leader (roundRobin round cfg.n)
    else
      let f := numFaulty cfg.n
      let authors := lastAuthors get f headHash head
      let cands := candidates signers authors
      if cands.length = 0 then .panic   -- integer divide by zero
      else .leader (cands.getD ((rnd (seedFor cfg.seed round)).headD 0 % cands.length) 0)

/-! ## Reputation -/

structure Choice where
  item : Nat
  weight : Nat
deriving Repr, DecidableEq

def maxInt : Nat := 2 ^ 63 - 1

/-- one step of the insertion sort of `sort.Slice` (by weight, stable). -/
def insertByWeight (c : Choice) : List Choice → List Choice
  | [] => [c]
  | d :: ds => if c.weight < d.weight then c :: d :: ds else d :: insertByWeight c ds

def sortByWeight (l : List Choice) : List Choice := l.foldl (fun acc c => insertByWeight c acc) []

/-- running totals of `NewChooser`; `none` = errWeightOverflow. -/
def runningTotals : Nat → List Choice → Option (List Nat)
  | _, [] => some []
  | run, c :: cs =>
    if maxInt - run ≤ c.weight then none
    else (runningTotals (run + c.weight) cs).map ((run + c.weight) :: ·)

structure Chooser where
  data : List Choice
  totals : List Nat
  max : Nat
deriving Repr

/-- `NewChooser` after its sort; `none` = an error (overflow, or no choice with weight ≥ 1). -/
def newChooser (sorted : List Choice) : Option Chooser :=
  match runningTotals 0 sorted with
  | none => none
  | some totals =>
    let max := totals.getLastD 0
    if max < 1 then none else some ⟨sorted, totals, max⟩

/-- `searchInts`: smallest index whose total is ≥ x (the totals are non-decreasing). -/
def searchInts (a : List Nat) (x : Nat) : Nat := a.findIdx (fun t => decide (x ≤ t))

/-- `Rand.Int31n(n)` on the stream of `Int63` outputs (`Int31 = Int63 >> 32`); `none` when the given
prefix of the stream is used up by the rejection loop. -/
def int31n (n : Nat) (stream : List Nat) : Option Nat :=
  let vs := stream.map (· / 2 ^ 32)
  if n &&& (n - 1) = 0 then vs.head?.map (· % n)
  else
    let max := 2 ^ 31 - 1 - 2 ^ 31 % n
    (vs.find? (fun v => decide (v ≤ max))).map (· % n)

/-- `Rand.Intn(n)` for 0 < n < 2^31 (the only case the weights of reputation.go reach). -/
def intn (n : Nat) (stream : List Nat) : Option Nat :=
  if n = 0 ∨ 2 ^ 31 ≤ n then none else int31n n stream

/-- `Chooser.PickSource`. -/
def pickSource (c : Chooser) (stream : List Nat) : Option Nat :=
  (intn c.max stream).map fun r => (c.data.getD (searchInts c.totals (r + 1)) ⟨0, 0⟩).item

structure RepState where
  prevView : Nat := 0                 -- prevCommitHead.View(); genesis at the start
  reps : List (Nat × Float) := []     -- reputationsMap (absent = 0)

def repGet (reps : List (Nat × Float)) (id : Nat) : Float :=
  match reps.lookup id with
  | some x => x
  | none => 0.0

/-- `r.reputations[id] += d`. -/
def repAdd (reps : List (Nat × Float)) (id : Nat) (d : Float) : List (Nat × Float) :=
  if reps.any (fun p => p.1 == id) then reps.map (fun p => if p.1 == id then (p.1, p.2 + d) else p)
  else reps ++ [(id, 0.0 + d)]

/-- `uint(r.reputations[voterID] * 10)`. -/
def weightOf (x : Float) : Nat := (x * 10).toUInt64.toNat

/-- the `ForEach` closure: update (when the head is new) and collect the weights, in `ForEach` order. -/
def visit (upd : Bool) (d : Float) : List (Nat × Float) → List Nat → List (Nat × Float) × List Choice
  | reps, [] => (reps, [])
  | reps, id :: ids =>
    let reps1 := if upd then repAdd reps id d else reps
    let r := visit upd d reps1 ids
    (r.1, ⟨id, weightOf (repGet reps1 id)⟩ :: r.2)

/-- `(float64(numVotes) - frac) / frac` with `frac = (2.0/3.0) * float64(numReplicas)`. -/
def reputationOf (numVotes n : Nat) : Float :=
  let frac := (2.0 / 3.0) * Float.ofNat n
  (Float.ofNat numVotes - frac) / frac

inductive RepAnswer
  | leader (id : Nat)
  | needStream            -- the supplied prefix of the math/rand stream was too short
deriving Repr, DecidableEq

/-- `RepBased.GetLeader(view)` with committed head `head`.  `perm` stands for the composition
`slices.SortFunc(weights, int(a.ID - b.ID))` ; `sort.Slice(choices, by weight)`: the comparator of the
first never returns a negative number (unsigned subtraction), so for ≤ 12 entries (insertion sort) it
leaves the `ForEach` order unchanged, and the second is then a stable insertion sort by weight
(`sortByWeight`); for longer inputs both are pattern-defeating quicksorts and `perm` is an oracle. -/
def repQueryWith (perm : List Choice → List Choice) (cfg : Cfg) (rnd : Int → List Nat)
    (st : RepState) (head : Block) (view : Nat) : RepState × RepAnswer :=
  if head.view > wrapSub64 view cfg.chainLength then (st, .leader 0)
  else
    match head.signers with
    | none => (st, .leader (roundRobin view cfg.n))
    | some voters =>
      let reputation := reputationOf voters.length cfg.n
      let upd := decide (st.prevView < head.view)
      let r := visit upd reputation st.reps voters
      let st' : RepState := ⟨if upd then head.view else st.prevView, r.1⟩
      match newChooser (perm r.2) with
      | none => (st', .leader 0)
      | some ch =>
        match pickSource ch (rnd (seedFor cfg.seed view)) with
        | none => (st', .needStream)
        | some id => (st', .leader id)

def repQuery := repQueryWith sortByWeight

/-- a sequence of (committed head, view) queries against one instance. -/
def repRun (cfg : Cfg) (rnd : Int → List Nat) : RepState → List (Block × Nat) → List RepAnswer
  | _, [] => []
  | st, (b, v) :: qs =>
    let r := repQuery cfg rnd st b v
    r.2 :: repRun cfg rnd r.1 qs

end HsVerif.Model.Leader
