import HsVerif.Model.Crypto
/-
Model of security/cert/auth.go (`Authority`): CreatePartialCert, CreateQuorumCert,
CreateTimeoutCert, CreateAggregateQC, VerifyPartialCert, VerifyQuorumCert, VerifyTimeoutCert,
VerifyAggregateQC, findHighestValidQC, VerifyAnyQC — over the symbolic signatures of Crypto.lean.

Repairs modelled: `fix: QC view must equal the certified block's view` (for the genesis block: view 0),
`fix: reject certificates without signature instead of dereferencing nil` (VerifyTimeoutCert,
VerifyAnyQC; VerifyAggregateQC itself still panics on a nil signature, as an existing test demands).
Block hashes are names (`Hash`); a block's bytes-to-sign are `blkMsg hash` (the hash is computed
from exactly those bytes).  Views are naturals (< 2^63: the signed comparator of the high-QC sort
is not modelled beyond that).
-/
namespace HsVerif.Model

abbrev Hash := String

def genesisHash : Hash := "G"

structure QC where
  sig : Option Sig
  view : Nat
  hash : Hash
deriving Repr, DecidableEq

structure TC where
  sig : Option Sig
  view : Nat
deriving Repr, DecidableEq

structure AggQC where
  qcs : List (Nat × QC)      -- a Go map: distinct keys
  sig : Option Sig
  view : Nat
deriving Repr

structure Block where
  hash : Hash
  parent : Hash
  view : Nat
  proposer : Nat
  qc : QC
  cmds : List String := []
deriving Repr, DecidableEq

abbrev Store := List (Hash × Block)

def genesisQC : QC := ⟨none, 0, genesisHash⟩
def genesisBlock : Block := { hash := genesisHash, parent := "", view := 0, proposer := 0, qc := ⟨none, 0, ""⟩ }

/-- message keys (injective by construction of the driver's canonical strings) -/
def blkMsg (h : Hash) : Msg := "blk:" ++ h
def viewMsg (v : Nat) : Msg := "view:" ++ toString v

structure CertEnv where
  T : Truth
  cfg : Cfg
  store : Store
  /-- canonical bytes key of `TimeoutMsg{ID, View, SyncInfo{qc}}.ToBytes()` -/
  tmoMsg : Nat → Nat → QC → Msg

inductive VRes (α : Type) | ok (a : α) | reject | panic
deriving Repr

def CertEnv.get (E : CertEnv) (h : Hash) : Option Block := E.store.lookup h

/-- `VerifyPartialCert`. -/
def verifyPC (E : CertEnv) (sig : Option Sig) (h : Hash) : VRes Unit :=
  match E.get h with
  | none => .reject
  | some b =>
    match sig with
    | none => .reject      -- Verify(nil, …): failed type assertion / nil check ⇒ error
    | some s => if verify E.T E.cfg s (blkMsg b.hash) then .ok () else .reject

/-- `VerifyQuorumCert`. -/
def verifyQC (E : CertEnv) (qc : QC) : Bool :=
  if qc.hash == genesisHash then qc.view == 0 else
  match qc.sig with
  | none => false
  | some s =>
    if s.len < E.cfg.quorum then false else
    match E.get qc.hash with
    | none => false
    | some b =>
      if qc.view != b.view then false
      else verify E.T E.cfg s (blkMsg b.hash)

/-- `VerifyTimeoutCert`. -/
def verifyTC (E : CertEnv) (tc : TC) : Bool :=
  if tc.view == 0 then true else
  match tc.sig with
  | none => false
  | some s =>
    if s.len < E.cfg.quorum then false
    else verify E.T E.cfg s (viewMsg tc.view)

/-- insert into a list kept in descending view order (what the sort achieves; ties arbitrary) -/
def insertDesc (q : QC) : List QC → List QC
  | [] => [q]
  | x :: xs => if x.view < q.view then q :: x :: xs else x :: insertDesc q xs

def sortDesc (l : List QC) : List QC := l.foldr insertDesc []

/-- `findHighestValidQC`. -/
def findHighestValidQC (E : CertEnv) (qcs : List QC) : Option QC :=
  (sortDesc qcs).find? (verifyQC E)

/-- `VerifyAggregateQC`. -/
def verifyAggQC (E : CertEnv) (a : AggQC) : VRes QC :=
  match a.sig with
  | none => .panic
  | some s =>
    if s.len < E.cfg.quorum then .reject else
    let messages := a.qcs.map (fun p => (p.1, E.tmoMsg p.1 a.view p.2))
    if !batchVerify E.T E.cfg s messages then .reject else
    match findHighestValidQC E (a.qcs.map (·.2)) with
    | some q => .ok q
    | none => .reject

/-- `QuorumCert.Equals`: view, hash and signature bytes (`ToBytes`), nil only equal to nil. -/
def Sig.bytesEq : Sig → Sig → Bool
  | .multi _ es, .multi _ es' => es.map (·.bytes) == es'.map (·.bytes)
  | .bls a j _, .bls a' j' _ => a.isPerm a' && j.isPerm j'
  | _, _ => false

def QC.equals (a b : QC) : Bool :=
  a.view == b.view && a.hash == b.hash &&
  match a.sig, b.sig with
  | none, none => true
  | some s, some s' => s.bytesEq s'
  | _, _ => false

/-- `VerifyAnyQC` (the proposal's block QC and optional aggregate QC). -/
def verifyAnyQC (E : CertEnv) (aggEnabled : Bool) (blockQC : QC) (agg : Option AggQC) : VRes Unit :=
  match (if aggEnabled then agg else none) with
  | some a =>
    match a.sig with
    | none => .reject
    | some _ =>
      match verifyAggQC E a with
      | .panic => .panic
      | .reject => .reject
      | .ok high =>
        -- `fix:` 7d9bd97 — what the two certify is compared, not the signatures
        if !(blockQC.view == high.view && blockQC.hash == high.hash) then .reject
        else if verifyQC E blockQC then .ok () else .reject
  | none => if verifyQC E blockQC then .ok () else .reject

end HsVerif.Model
