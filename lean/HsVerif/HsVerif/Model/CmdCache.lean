/-
Model of internal/proto/clientpb/cmdcache.go (`CommandCache`) and batch.go (`Batch.isFull`).

  Go                                   model
  -----------------------------------  -----------------------------------------------
  Command{ClientID,SequenceNumber,Data} `Cmd` (client, seq, tag) — `tag` is the payload; the
                                        drivers put the number of the `add` call there so
                                        that every accepted command has an identity
  clientSeqNumbers map[uint32]uint64    `Marks` = association list, newest binding first,
                                        `Marks.get` = lookup with default 0 (absent key, as in Go)
  cache []*Command                      `cache : List Cmd` (arrival order)
  ready chan struct{} (capacity 1)      `ready : Bool` (token present)
  isDuplicate                           `isDup`
  hasFullBatch                          `hasFullBatch`  (counts ALL cached commands, also stale ones)
  signalReady (non-blocking send)       `signalReady`
  Add                                   `add`           (one atomic step: whole body under the mutex)
  Proposed                              `proposed`      (one atomic step)
  tryExtractBatch                       `extractLoop` + `tryExtractBatch`
  Get                                   split at its real atomic boundaries:
                                          `select` on ready / ctx.Done  → `Sys.step (.recv i | .ctxDone i)`
                                          locked body                   → `getLocked`
                                        sequential composition for one caller: `seqStep … .get / .getc`

Numbers are `Nat` (uint32 / uint64 wrap-around is outside the model).  The mutex, the channel
and `select` are trusted to behave as in the Go specification; `select` with several ready cases
chooses any of them (both choices are steps of the concurrent model).
-/
namespace HsVerif.Model.CmdCache

structure Cmd where
  client : Nat
  seq : Nat
  tag : Nat
deriving DecidableEq, Repr

abbrev Marks := List (Nat × Nat)

/-- `clientSeqNumbers[client]` (0 when absent) -/
def Marks.get (m : Marks) (x : Nat) : Nat := (List.lookup x m).getD 0

/-- `isDuplicate`: `clientSeqNumbers[cmd.ClientID] >= cmd.SequenceNumber`. -/
def isDup (m : Marks) (c : Cmd) : Bool := decide (c.seq ≤ m.get c.client)

/-- not (yet) marked as proposed -/
def fresh (m : Marks) (c : Cmd) : Bool := !isDup m c

structure Cache where
  bs : Nat
  cache : List Cmd := []
  marks : Marks := []
  ready : Bool := false

/-- `NewCommandCache(batchSize)` -/
def Cache.new (bs : Nat) : Cache := { bs := bs }

/-- `hasFullBatch`: `uint32(len(c.cache)) >= c.batchSize`. -/
def hasFullBatch (s : Cache) : Bool := decide (s.bs ≤ s.cache.length)

/-- `signalReady`: non-blocking send on the capacity-1 channel. -/
def signalReady (s : Cache) : Cache := { s with ready := true }

/-- `Add`. -/
def add (s : Cache) (c : Cmd) : Cache :=
  if isDup s.marks c then s
  else
    let s1 := { s with cache := s.cache ++ [c] }
    if hasFullBatch s1 then signalReady s1 else s1

/-- one iteration of the loop in `Proposed` -/
def mark (m : Marks) (c : Cmd) : Marks :=
  if isDup m c then m else (c.client, c.seq) :: m

/-- `Proposed`. -/
def proposed (s : Cache) (b : List Cmd) : Cache := { s with marks := b.foldl mark s.marks }

/-- The loop of `tryExtractBatch`: `for !batch.isFull(bs) && extracted < len(cache)`; the first
argument is `cache[extracted:]`, the second the batch so far.  Returns the batch and the
unexamined rest of the cache. -/
def extractLoop (bs : Nat) (m : Marks) : List Cmd → List Cmd → List Cmd × List Cmd
  | [], batch => (batch, [])
  | c :: cs, batch =>
    if batch.length = bs then (batch, c :: cs)
    else if isDup m c then extractLoop bs m cs batch
    else extractLoop bs m cs (batch ++ [c])

/-- `tryExtractBatch`: on success the examined prefix is cut off, otherwise the cache is untouched. -/
def tryExtractBatch (s : Cache) : Option (List Cmd) × Cache :=
  let r := extractLoop s.bs s.marks s.cache []
  if r.1.length = s.bs then (some r.1, { s with cache := r.2 }) else (none, s)

inductive Body where
  | batch (b : List Cmd)
  | again
deriving DecidableEq, Repr

/-- The locked part of one iteration of `Get` (after the receive from `ready`). -/
def getLocked (s : Cache) : Body × Cache :=
  if !hasFullBatch s then (.again, s)
  else
    match tryExtractBatch s with
    | (some b, s1) => (.batch b, if hasFullBatch s1 then signalReady s1 else s1)
    | (none, s1) => (.again, s1)

/-! ## One caller at a time -/

inductive Op where
  | add (c : Cmd)
  | proposed (b : List Cmd)
  /-- `Get` with a live context, run until it returns or blocks in the `select`; a blocked call is
  then cancelled (which changes nothing in the cache). -/
  | get
  /-- `Get` with an already cancelled context.  `take = true`: whenever both cases of the `select`
  are ready Go may take either; this is the run that prefers `<-c.ready`.  `take = false`: the
  run that prefers `<-ctx.Done()`. -/
  | getc (take : Bool)
  /-- the locked body alone, as executed by a concurrent getter that received its token earlier -/
  | body
deriving DecidableEq, Repr

inductive Ret where
  | none
  | batch (b : List Cmd)
  | blocked
  | cancelled
  | again
deriving DecidableEq, Repr

def seqStep (s : Cache) : Op → Cache × Ret
  | .add c => (add s c, .none)
  | .proposed b => (proposed s b, .none)
  | .get =>
    if s.ready then
      match getLocked { s with ready := false } with
      | (.batch b, s1) => (s1, .batch b)
      -- back to the `select`: `getLocked` leaves `ready = false` on this path
      -- (`HsVerif.Model.CmdCache.getLocked_again`), so the call blocks
      | (.again, s1) => (s1, .blocked)
    else (s, .blocked)
  | .getc take =>
    if s.ready && take then
      match getLocked { s with ready := false } with
      | (.batch b, s1) => (s1, .batch b)
      | (.again, s1) => (s1, .cancelled)
    else (s, .cancelled)
  | .body =>
    match getLocked s with
    | (.batch b, s1) => (s1, .batch b)
    | (.again, s1) => (s1, .again)

/-- What an observer of the calls knows: every command passed to `Add` (accepted or not), every
command passed to `Proposed`, every command handed out by `Get`, each in call order. -/
structure Hist where
  added : List Cmd := []
  marked : List Cmd := []
  handed : List Cmd := []

def Hist.push (h : Hist) : Op → Ret → Hist
  | .add c, _ => { h with added := h.added ++ [c] }
  | .proposed b, _ => { h with marked := h.marked ++ b }
  | _, .batch b => { h with handed := h.handed ++ b }
  | _, _ => h

def run (s : Cache) (h : Hist) : List Op → Cache × Hist × List Ret
  | [] => (s, h, [])
  | op :: ops =>
    let r := seqStep s op
    let rest := run r.1 (h.push op r.2) ops
    (rest.1, rest.2.1, r.2 :: rest.2.2)

/-! ## Several concurrent getters: program counters over the atomic steps -/

inductive PC where
  | sel                      -- blocked in / about to execute the `select`
  | woken                    -- received from `ready`, not yet inside the locked body
  | retBatch (b : List Cmd)  -- returned (batch, nil)
  | retCancelled             -- returned (nil, ctx.Err())
deriving DecidableEq, Repr

structure Getter where
  pc : PC
  cancelled : Bool
deriving DecidableEq, Repr

structure Sys where
  c : Cache
  gs : List Getter := []

inductive Label where
  | add (c : Cmd)
  | proposed (b : List Cmd)
  | spawn                -- a new call of `Get` (live context)
  | cancel (i : Nat)     -- the context of getter `i` is cancelled
  | recv (i : Nat)       -- `case <-c.ready`
  | ctxDone (i : Nat)    -- `case <-ctx.Done()`
  | body (i : Nat)       -- lock … unlock
deriving DecidableEq, Repr

def setPC (gs : List Getter) (i : Nat) (g : Getter) (pc : PC) : List Getter := gs.set i { g with pc := pc }

/-- One atomic step; `none` = not enabled.  The scheduler (the adversary) picks any enabled label. -/
def Sys.step (st : Sys) : Label → Option Sys
  | .add c => some { st with c := add st.c c }
  | .proposed b => some { st with c := proposed st.c b }
  | .spawn => some { st with gs := st.gs ++ [⟨.sel, false⟩] }
  | .cancel i =>
    match st.gs[i]? with
    | some g => some { st with gs := st.gs.set i { g with cancelled := true } }
    | none => none
  | .recv i =>
    match st.gs[i]? with
    | some g =>
      if g.pc = .sel ∧ st.c.ready = true then
        some { c := { st.c with ready := false }, gs := setPC st.gs i g .woken }
      else none
    | none => none
  | .ctxDone i =>
    match st.gs[i]? with
    | some g =>
      if g.pc = .sel ∧ g.cancelled = true then some { st with gs := setPC st.gs i g .retCancelled }
      else none
    | none => none
  | .body i =>
    match st.gs[i]? with
    | some g =>
      if g.pc = .woken then
        match getLocked st.c with
        | (.batch b, c') => some { c := c', gs := setPC st.gs i g (.retBatch b) }
        | (.again, c') => some { c := c', gs := setPC st.gs i g .sel }
      else none
    | none => none

inductive Reach (bs : Nat) : Sys → Prop where
  | init : Reach bs { c := Cache.new bs }
  | step {st st' : Sys} (l : Label) : Reach bs st → st.step l = some st' → Reach bs st'

end HsVerif.Model.CmdCache
