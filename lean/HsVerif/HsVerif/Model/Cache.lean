import HsVerif.Model.Crypto
/-
Model of security/cert/cache.go: the LRU of verified (message, signature) keys wrapped around a
crypto.Base, with the repairs `fix: cache key covers type and claimed participants` and
`fix: cache batch digest` applied.

Key, as built by `cacheKey`: kind ('m' single message | 'b' batch), concrete signature type,
SHA-256 digest of the message (resp. of the id-sorted, length-prefixed batch), number and ids of
the claimed participants, signature bytes.  With SHA-256 collision-free and the encodings
injective this is the structured value `CKey` below.  A batch (a Go map) is represented in its
canonical id-sorted form.
-/
namespace HsVerif.Model

def atomLe (a b : Atom) : Bool := a.signer < b.signer || (a.signer == b.signer && a.msg ≤ b.msg)

def insertAtom (a : Atom) : List Atom → List Atom
  | [] => [a]
  | b :: bs => if atomLe a b then a :: b :: bs else b :: insertAtom a bs

/-- canonical order of a formal sum (the compressed point does not depend on summation order) -/
def normAtoms (l : List Atom) : List Atom := l.foldr insertAtom []

def insertNat (a : Nat) : List Nat → List Nat
  | [] => [a]
  | b :: bs => if a ≤ b then a :: b :: bs else b :: insertNat a bs

def normNats (l : List Nat) : List Nat := l.foldr insertNat []

inductive SigBytes
  | multi (k : Scheme) (bytes : List Nat)
  | bls (atoms : List Atom) (junk : List Nat)
deriving DecidableEq, Repr

/-- `%T` and `sig.ToBytes()` -/
def Sig.typedBytes : Sig → SigBytes
  | .multi k es => .multi k (es.map (·.bytes))
  | .bls a j _ => .bls (normAtoms a) (normNats j)

structure CKey where
  batch : Bool
  msgs : List (Nat × Msg)     -- single message m: [(0, m)]; batch: the id-sorted map
  parts : List Nat
  bytes : SigBytes
deriving DecidableEq, Repr

def keyVerify (s : Sig) (m : Msg) : CKey := ⟨false, [(0, m)], s.participants, s.typedBytes⟩
def keyBatch (s : Sig) (b : List (Nat × Msg)) : CKey := ⟨true, b, s.participants, s.typedBytes⟩

/-- LRU: most recently used key first. `capacity ≥ 1` (the cache is only installed when > 0). -/
structure Lru where
  cap : Nat
  order : List CKey
deriving Repr

/-- `check`: hit moves the key to the front. -/
def Lru.check (c : Lru) (k : CKey) : Lru × Bool :=
  if c.order.contains k then ({ c with order := k :: c.order.erase k }, true) else (c, false)

/-- `insert`: refresh an existing key; otherwise evict the least recently used key when full. -/
def Lru.insert (c : Lru) (k : CKey) : Lru :=
  if c.order.contains k then { c with order := k :: c.order.erase k }
  else
    let o := if c.order.length < c.cap then c.order else c.order.dropLast
    { c with order := k :: o }

/-- operations on a `crypto.Base` as seen by the authority -/
inductive COp
  | sign (s : Sig) (m : Msg)                      -- own `Sign(m)` returned `s`
  | verify (s : Option Sig) (m : Msg)
  | batchVerify (s : Option Sig) (b : List (Nat × Msg))
  | combine (l : List Sig)
deriving Repr

/-- verdict of the uncached base (nil signature: failed type assertion ⇒ error) -/
def baseOut (T : Truth) (c : Cfg) : COp → Bool
  | .sign _ _ => true
  | .verify none _ => false
  | .verify (some s) m => verify T c s m
  | .batchVerify none _ => false
  | .batchVerify (some s) b => batchVerify T c s b
  | .combine l => match combine c l with | .ok _ => true | _ => false

/-- the cached authority: state transition and verdict -/
def cachedStep (T : Truth) (c : Cfg) (st : Lru) : COp → Lru × Bool
  | .sign s m => (st.insert (keyVerify s m), true)
  | .verify none _ => (st, false)
  | .verify (some s) m =>
    let k := keyVerify s m
    let (st', hit) := st.check k
    if hit then (st', true)
    else if verify T c s m then (st.insert k, true) else (st, false)
  | .batchVerify none _ => (st, false)
  | .batchVerify (some s) b =>
    let k := keyBatch s b
    let (st', hit) := st.check k
    if hit then (st', true)
    else if batchVerify T c s b then (st.insert k, true) else (st, false)
  | .combine l => (st, match combine c l with | .ok _ => true | _ => false)

def cachedRun (T : Truth) (c : Cfg) : Lru → List COp → List Bool
  | _, [] => []
  | st, op :: ops => let (st', o) := cachedStep T c st op; o :: cachedRun T c st' ops

end HsVerif.Model
