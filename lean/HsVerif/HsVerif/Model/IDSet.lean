/-
Model of security/crypto/bitfield.go (`Bitfield`) and of the signer lists of
security/crypto/multisignature.go (`Multi`) with `Sign`/`Combine` of ecdsa.go / eddsa.go / bls12.go.

Bytes are `Nat`s (< 256 in every state reachable from Go; the bound is not needed by the theorems).
Go panics on an out-of-range index; every access below is guarded exactly as in Go, so the
`getD … 0` default is never observed (stated in `HsVerif.Props.C19.guarded_*`).
`id = 0` is outside the model: Go computes bit index -1 and panics on the negative shift.
-/
namespace HsVerif.Model

structure Bitfield where
  data : List Nat
  len  : Nat
deriving Repr, DecidableEq

namespace Bitfield

def empty : Bitfield := ⟨[], 0⟩

/-- `index(id)`: byte index and bit index (ids start at 1). -/
def index (id : Nat) : Nat × Nat := ((id - 1) / 8, (id - 1) % 8)

/-- `id(byteIdx, bitIdx)`. -/
def idOf (byteIdx bitIdx : Nat) : Nat := 1 + byteIdx * 8 + bitIdx

def isSet (data : List Nat) (byteIdx bitIdx : Nat) : Bool := (data.getD byteIdx 0).testBit bitIdx

/-- `Add`: extend with zero bytes when too short, bump `len` when the bit was clear, set the bit. -/
def add (bf : Bitfield) (id : Nat) : Bitfield :=
  let byteIdx := (index id).1
  let bitIdx := (index id).2
  let data := if bf.data.length ≤ byteIdx then bf.data ++ List.replicate (byteIdx + 1 - bf.data.length) 0 else bf.data
  let len := if isSet data byteIdx bitIdx then bf.len else bf.len + 1
  ⟨data.set byteIdx (data.getD byteIdx 0 ||| (1 <<< bitIdx)), len⟩

/-- `Contains`. -/
def contains (bf : Bitfield) (id : Nat) : Bool :=
  if bf.data.length ≤ (index id).1 then false else isSet bf.data (index id).1 (index id).2

/-- bit number `k` (0-based over the whole field) -/
def bitAt (data : List Nat) (k : Nat) : Bool := isSet data (k / 8) (k % 8)

/-- `ForEach` / `RangeWhile` visiting order: bytes ascending, bits 0..7 ascending inside a byte. -/
def idsOf (data : List Nat) : List Nat := ((List.range (8 * data.length)).filter (bitAt data)).map (· + 1)

def ids (bf : Bitfield) : List Nat := idsOf bf.data

/-- `BitfieldFromBytes`: `len` is recomputed by iterating. -/
def fromBytes (b : List Nat) : Bitfield := ⟨b, (idsOf b).length⟩

def bytes (bf : Bitfield) : List Nat := bf.data

/-- first participant (`RangeWhile` stopped after one element); 0 when empty, as in Go. -/
def first (bf : Bitfield) : Nat := bf.ids.headD 0

end Bitfield

/-! Signer lists (`Multi`): order and repetition preserved, `Len` = number of entries. -/

/-- inner loop of `Combine` (ECDSA/EdDSA): append the entries of one signature, failing on a
signer that is already present. -/
def multiAppend : List Nat → List Nat → Option (List Nat)
  | acc, [] => some acc
  | acc, x :: xs => if acc.contains x then none else multiAppend (acc ++ [x]) xs

def multiCombineAux : List Nat → List (List Nat) → Option (List Nat)
  | acc, [] => some acc
  | acc, s :: rest =>
    match multiAppend acc s with
    | none => none
    | some acc' => multiCombineAux acc' rest

inductive CombineErr | multiple | overlap
deriving Repr, DecidableEq

def multiCombine (sigs : List (List Nat)) : Except CombineErr (List Nat) :=
  if sigs.length < 2 then .error .multiple
  else match multiCombineAux [] sigs with
    | some l => .ok l
    | none => .error .overlap

/-- BLS `Combine` on participant bit-fields. -/
def blsCombineOne : Bitfield → List Nat → Option Bitfield
  | acc, [] => some acc
  | acc, x :: xs => if acc.contains x then none else blsCombineOne (acc.add x) xs

def blsCombineAux : Bitfield → List Bitfield → Option Bitfield
  | acc, [] => some acc
  | acc, s :: rest =>
    match blsCombineOne acc s.ids with
    | none => none
    | some acc' => blsCombineAux acc' rest

def blsCombine (sigs : List Bitfield) : Except CombineErr Bitfield :=
  if sigs.length < 2 then .error .multiple
  else match blsCombineAux Bitfield.empty sigs with
    | some b => .ok b
    | none => .error .overlap

end HsVerif.Model
