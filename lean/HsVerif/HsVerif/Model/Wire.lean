import HsVerif.Model.Cert
/-
Model of internal/proto/hotstuffpb/convert.go (`*ToProto` / `*FromProto`), of the id assignments
made by the handlers in server/server.go (Propose, Vote, NewView, Timeout) and of the block-fetch
reply filter of network/sender.go, over the protobuf message *shapes* (hotstuff.proto): every
sub-message is optional on the wire, `oneof Sig` may be unset.  protobuf Marshal/Unmarshal is the
identity on these shapes (trusted; exercised for real by the harness).
Numeric narrowing: ids are `uint32`, views `uint64` on the wire (explicit `% 2^32`, `% 2^64`).
-/
namespace HsVerif.Model

inductive PSig
  | unset
  | ecdsa (l : List (Nat × Nat))          -- (Signer, Sig bytes)
  | eddsa (l : List (Nat × Nat))
  | bls (atoms : List Atom) (junk : List Nat) (participants : List Nat)   -- compressed point, bit-field bytes
deriving Repr, DecidableEq

structure PQC where
  sig : PSig
  view : Nat
  hash : Hash
deriving Repr, DecidableEq

structure PTC where
  sig : PSig
  view : Nat
deriving Repr, DecidableEq

structure PAgg where
  qcs : List (Nat × PQC)
  sig : PSig
  view : Nat
deriving Repr

structure PSync where
  qc : Option PQC
  tc : Option PTC
  agg : Option PAgg
deriving Repr

structure PTmo where
  view : Nat
  si : PSync
  viewSig : PSig
  msgSig : Option PSig
deriving Repr

structure PPC where
  sig : PSig
  hash : Hash
deriving Repr

def u32 (n : Nat) : Nat := n % 4294967296
def u64 (n : Nat) : Nat := n % 18446744073709551616

/-- `QuorumSignatureToProto` (a nil signature leaves the oneof unset) -/
def sigToProto : Option Sig → PSig
  | none => .unset
  | some (.multi .ecdsa es) => .ecdsa (es.map fun e => (u32 e.claimed, e.bytes))
  | some (.multi .eddsa es) => .eddsa (es.map fun e => (u32 e.claimed, e.bytes))
  | some (.multi .bls12 _) => .unset           -- no such Go type
  | some (.bls a j bits) => .bls a j bits.bytes

/-- `QuorumSignatureFromProto` -/
def sigFromProto : PSig → Option Sig
  | .unset => none
  | .ecdsa l => some (.multi .ecdsa (l.map fun p => ⟨p.1, p.2⟩))
  | .eddsa l => some (.multi .eddsa (l.map fun p => ⟨p.1, p.2⟩))
  | .bls a j p => some (.bls a j (Bitfield.fromBytes p))

def qcToProto (q : QC) : PQC := ⟨sigToProto q.sig, u64 q.view, q.hash⟩
def qcFromProto (p : PQC) : QC := ⟨sigFromProto p.sig, p.view, p.hash⟩
def tcToProto (t : TC) : PTC := ⟨sigToProto t.sig, u64 t.view⟩
def tcFromProto (p : PTC) : TC := ⟨sigFromProto p.sig, p.view⟩
def aggToProto (a : AggQC) : PAgg := ⟨a.qcs.map fun p => (u32 p.1, qcToProto p.2), sigToProto a.sig, u64 a.view⟩
def aggFromProto (p : PAgg) : AggQC := ⟨p.qcs.map fun x => (x.1, qcFromProto x.2), sigFromProto p.sig, p.view⟩

structure SyncInfo where
  qc : Option QC := none
  tc : Option TC := none
  agg : Option AggQC := none
deriving Repr

def syncToProto (s : SyncInfo) : PSync := ⟨s.qc.map qcToProto, s.tc.map tcToProto, s.agg.map aggToProto⟩
def syncFromProto (p : PSync) : SyncInfo := ⟨p.qc.map qcFromProto, p.tc.map tcFromProto, p.agg.map aggFromProto⟩

structure TimeoutMsg where
  id : Nat
  view : Nat
  viewSig : Option Sig
  msgSig : Option Sig
  si : SyncInfo
deriving Repr

/-- `TimeoutMsgToProto`: the sender id is not on the wire; MsgSig only when non-nil -/
def tmoToProto (t : TimeoutMsg) : PTmo :=
  ⟨u64 t.view, syncToProto t.si, sigToProto t.viewSig, t.msgSig.map (fun s => sigToProto (some s))⟩

/-- `TimeoutMsgFromProto` followed by `serviceImpl.Timeout`'s `timeoutMsg.ID = id` (the peer's id) -/
def tmoFromProto (p : PTmo) (peer : Nat) : TimeoutMsg :=
  ⟨peer, p.view, sigFromProto p.viewSig, p.msgSig.bind sigFromProto, syncFromProto p.si⟩

/-- everything of a block that `ToBytes` covers; the hash is SHA-256 of these bytes -/
structure BlockContent where
  parent : Hash
  proposer : Nat
  view : Nat
  cmds : List String
  qc : QC
  ts : Int × Nat            -- (seconds, nanos) of the timestamp
deriving Repr, DecidableEq

structure PBlock where
  parent : Hash
  cmds : List String
  qc : PQC
  view : Nat
  proposer : Nat
  ts : Int × Nat
deriving Repr

def blockToProto (b : BlockContent) : PBlock := ⟨b.parent, b.cmds, qcToProto b.qc, u64 b.view, u32 b.proposer, b.ts⟩
def blockFromProto (p : PBlock) : BlockContent := ⟨p.parent, p.proposer, p.view, p.cmds, qcFromProto p.qc, p.ts⟩

/-- `ProposalToProto`, the wire, `serviceImpl.Propose` (proposer := peer id), `ProposalFromProto` -/
def proposalRT (b : BlockContent) (agg : Option AggQC) (peer : Nat) : Nat × BlockContent × Option AggQC :=
  let pb := blockToProto b
  let pb' := { pb with proposer := u32 peer }
  (peer, blockFromProto pb', (agg.map aggToProto).map aggFromProto)

def pcToProto (sig : Option Sig) (h : Hash) : PPC := ⟨sigToProto sig, h⟩
/-- `PartialCertFromProto`: the signer is recomputed as the first participant -/
def pcFromProto (p : PPC) : Nat × Option Sig × Hash :=
  let s := sigFromProto p.sig
  ((s.map Sig.first).getD 0, s, p.hash)

end HsVerif.Model
