/-
Model of core/eventloop/queue.go (`queue`: bounded circular buffer that drops the oldest entry
when full), written as the Go code is written: `entries` of fixed length, `head`/`tail` are Go
`int`s with the sentinel -1, the wrap is the single `if x == len(entries) { x = 0 }` of the code.

  newQueue(capacity)   -> `Queue.new`      (capacity 0 panics in Go: outside the model, the driver answers `panic`)
  (*queue).push(entry) -> `Queue.push`     REPAIRED code (fixes/C14-queue-drop.diff): the dropped entry is
                                           read at the old head *before* the head is advanced.
                          `Queue.pushAsFound` is the code as found in the unchanged tree (reads
                          `entries[head]` after advancing head); kept only for the counterexample theorem.
  (*queue).pop()       -> `Queue.pop`
  (*queue).len()       -> `Queue.len`

Every method body runs under `q.mut` (`Lock(); defer Unlock()`, checked by gofacts on every run),
so each is one atomic step.  The non-blocking send on `readyChan` carries no data and is not modelled.
Entries are `Option α`: Go's `any` slots start as nil and `pop` does not clear a slot.
-/
namespace HsVerif.Model

structure Queue (α : Type) where
  entries : List (Option α)
  head : Int
  tail : Int

namespace Queue
variable {α : Type}

/-- `q.entries[i]` for a Go `int` index (always in range where the code indexes). -/
def getI (l : List (Option α)) (i : Int) : Option α := (l.getD i.toNat none)

def setI (l : List (Option α)) (i : Int) (x : Option α) : List (Option α) := l.set i.toNat x

def new (capacity : Nat) : Queue α := ⟨List.replicate capacity none, -1, -1⟩

/-- `len(q.entries)` -/
def cap (q : Queue α) : Int := q.entries.length

/-- `push` (repaired).  Returns the new queue and `droppedEvent` (`none` = Go nil). -/
def push (q : Queue α) (x : α) : Queue α × Option α :=
  let pos0 := q.tail + 1
  let pos := if pos0 = q.cap then 0 else pos0
  let hd : Int × Option α :=
    if pos = q.head then
      -- drop the entry at the head of the queue
      let d := getI q.entries q.head
      let h := q.head + 1
      (if h = q.cap then 0 else h, d)
    else (q.head, none)
  let entries := setI q.entries pos (some x)
  let head := if hd.1 = -1 then pos else hd.1
  (⟨entries, head, pos⟩, hd.2)

/-- `push` as found in the unchanged tree: `q.head++ … droppedEvent = q.entries[q.head]`. -/
def pushAsFound (q : Queue α) (x : α) : Queue α × Option α :=
  let pos0 := q.tail + 1
  let pos := if pos0 = q.cap then 0 else pos0
  let hd : Int × Option α :=
    if pos = q.head then
      let h := q.head + 1
      let h := if h = q.cap then 0 else h
      (h, getI q.entries h)
    else (q.head, none)
  let entries := setI q.entries pos (some x)
  let head := if hd.1 = -1 then pos else hd.1
  (⟨entries, head, pos⟩, hd.2)

/-- `pop`: `none` = (nil, false). -/
def pop (q : Queue α) : Queue α × Option α :=
  if q.head = -1 then (q, none)
  else
    let entry := getI q.entries q.head
    if q.head = q.tail then (⟨q.entries, -1, -1⟩, entry)
    else
      let h := q.head + 1
      (⟨q.entries, if h = q.cap then 0 else h, q.tail⟩, entry)

/-- `len` -/
def len (q : Queue α) : Int :=
  if q.head = -1 then 0
  else if q.head ≤ q.tail then q.tail - q.head + 1
  else q.cap - q.head + q.tail + 1

/-- index `head + k` wrapped once, as the code's increments do -/
def wrapIdx (q : Queue α) (i : Int) : Int := if i < q.cap then i else i - q.cap

/-- Abstraction: the ring read from `head` to `tail` (oldest first). -/
def abs (q : Queue α) : List α :=
  (List.range' 0 q.len.toNat).filterMap fun (k : Nat) => getI q.entries (q.wrapIdx (q.head + (k : Int)))

end Queue

/-! Specification: bounded deque. -/
namespace Deque
variable {α : Type}

/-- push appends and, if now longer than the capacity, drops and returns the head -/
def push (c : Nat) (l : List α) (x : α) : List α × Option α :=
  let l' := l ++ [x]
  if c < l'.length then (l'.tail, l'.head?) else (l', none)

def pop (l : List α) : List α × Option α := (l.tail, l.head?)

end Deque

/-! Words over push / pop / len and their outputs. -/
inductive QOp (α : Type) where
  | push (x : α)
  | pop
  | len
deriving Repr, DecidableEq

inductive QOut (α : Type) where
  | pushed (dropped : Option α)
  | popped (x : Option α)
  | len (n : Int)
deriving Repr, DecidableEq

namespace Queue
variable {α : Type}

def step (q : Queue α) : QOp α → Queue α × QOut α
  | .push x => let r := q.push x; (r.1, .pushed r.2)
  | .pop => let r := q.pop; (r.1, .popped r.2)
  | .len => (q, .len q.len)

def run (q : Queue α) : List (QOp α) → Queue α × List (QOut α)
  | [] => (q, [])
  | o :: os => let r := q.step o; let r' := run r.1 os; (r'.1, r.2 :: r'.2)

def stepAsFound (q : Queue α) : QOp α → Queue α × QOut α
  | .push x => let r := q.pushAsFound x; (r.1, .pushed r.2)
  | .pop => let r := q.pop; (r.1, .popped r.2)
  | .len => (q, .len q.len)

def runAsFound (q : Queue α) : List (QOp α) → Queue α × List (QOut α)
  | [] => (q, [])
  | o :: os => let r := q.stepAsFound o; let r' := runAsFound r.1 os; (r'.1, r.2 :: r'.2)

end Queue

namespace Deque
variable {α : Type}

def step (c : Nat) (l : List α) : QOp α → List α × QOut α
  | .push x => let r := push c l x; (r.1, .pushed r.2)
  | .pop => let r := pop l; (r.1, .popped r.2)
  | .len => (l, .len l.length)

def run (c : Nat) (l : List α) : List (QOp α) → List α × List (QOut α)
  | [] => (l, [])
  | o :: os => let r := step c l o; let r' := run c r.1 os; (r'.1, r.2 :: r'.2)

end Deque

end HsVerif.Model
