/-
Model of the Twins scenario generator and verdict function (C18):

  twins/generator.go   assignNodeIDs, genPartitionSizes(+Recursive), generateTwinPartitionPairs,
                       isValidTwinAssignment, cartesianProduct, genPartitionScenarios,
                       NewGenerator, Shuffle, Remaining, NextScenario
  twins/network.go     NodeSet (Add, Contains, MarshalJSON, UnmarshalJSON)
  twins/scenario.go    View, Scenario, checkCommits
  twins/twins.go       Scenario through encoding/json (json round trip of View / NodeSet)

`NextScenario`/`NewGenerator`/`Shuffle` are modelled as REPAIRED by fixes/C18-generator-last.diff
(a `done` flag replaces the early `return s, io.EOF` at the final odometer wrap; an empty alphabet
with ≥ 1 view is exhausted from the start; `Shuffle` leaves an empty alphabet alone).

Conventions.  Go's `uint8`/`int` are `Nat`: the modelled domain is NumNodes ≥ 1, Partitions ≥ 1,
minSize ≥ 1, NumNodes + NumTwins ≤ 255, where no Go operation wraps (`n-1`, `n-m` are applied to
positive values; the loop test `sizes[i][k]-uint8(len(partitions[k])) > 0` is "≠" in uint8 and is
only reached with `len ≤ size` because `isValidTwinAssignment` filtered the assignment).  Go panics
on an out-of-range index; every list access below sits behind the same guard as in Go or behind an
invariant proved in Props/C18 (`getD`/`headD` defaults are never observed on that domain).
A `NodeSet` (Go map used as a set) is a duplicate-free list in insertion order; observations
(membership, size, sorted JSON form) do not depend on the order.  `math/rand` is a parameter:
`shuffle` takes the permutation and the offsets that `rand.Shuffle`/`Intn` produced.
A block is represented by its hash (a `Nat` name).
-/
namespace HsVerif.Model.Twins

structure NodeID where
  rid : Nat
  tid : Nat
deriving Repr, DecidableEq

abbrev NodeSet := List NodeID

/-- `NodeSet.Add` -/
def NodeSet.add (s : NodeSet) (v : NodeID) : NodeSet := if s.contains v then s else s ++ [v]

/-! ### assignNodeIDs -/

/-- loop body of `assignNodeIDs`: `cnt` iterations left, next `id`, `rem` twins left to hand out. -/
def assignLoop : Nat → Nat → Nat → List NodeID → List NodeID → List NodeID × List NodeID
  | 0, _, _, nodes, twins => (nodes, twins)
  | cnt + 1, id, rem, nodes, twins =>
    if rem > 0 then assignLoop cnt (id + 1) (rem - 1) nodes (twins ++ [⟨id, 1⟩, ⟨id, 2⟩])
    else assignLoop cnt (id + 1) rem (nodes ++ [⟨id, 0⟩]) twins

/-- `assignNodeIDs(numNodes, numTwins)` = (nodes, twins) -/
def assignNodeIDs (numNodes numTwins : Nat) : List NodeID × List NodeID :=
  assignLoop numNodes 1 numTwins [] []

/-! ### genPartitionSizes -/

/-- `m0, m0-1, …, lo` (the values the Go `for ; m >= lo; m--` loop visits, `lo ≥ 1`) -/
def descFrom (m0 lo : Nat) : List Nat := (List.range (m0 + 1 - lo)).map (m0 - ·)

/-- `genPartitionSizesRecursive(i, n, minSize, state, &sizes)`; the first argument is
`len(state) - i` (fuel; `0` is where Go would index out of range), the result is what the call
appends to `sizes`, in order. -/
def sizesRec (minSize : Nat) : Nat → Nat → Nat → List Nat → List (List Nat)
  | 0, _, _, _ => []
  | fuel + 1, i, n, state =>
    let s := state.set i n
    let prev := s.getD (i - 1) 0
    let emit := if i == 0 || prev ≥ n then [s] else []
    let m0 := if i > 0 then min (n - 1) prev else n - 1
    let lo := if i == 0 then minSize else 1
    let deeper :=
      if fuel > 0 then -- int(i+1) < len(s)
        (descFrom m0 lo).flatMap fun m => sizesRec minSize fuel (i + 1) (n - m) (s.set i m)
      else []
    emit ++ deeper

/-- `genPartitionSizes(n, k, minSize)` -/
def genPartitionSizes (n k minSize : Nat) : List (List Nat) :=
  sizesRec minSize k 0 n (List.replicate k 0)

/-! ### twin placement -/

/-- `generateTwinPartitionPairs(n)` -/
def twinPairs (n : Nat) : List (Nat × Nat) :=
  (List.range n).flatMap fun i => (List.range (n - i)).map fun d => (i, i + d)

/-- `isValidTwinAssignment(twinAssignments, partitionSizes)`; `ps` is the working copy. -/
def validLoop : List (Nat × Nat) → List Nat → Bool
  | [], _ => true
  | (a, b) :: rest, ps =>
    if a ≥ ps.length || ps.getD a 0 == 0 then false else
    let ps := ps.set a (ps.getD a 0 - 1)
    if b ≥ ps.length || ps.getD b 0 == 0 then false else
    validLoop rest (ps.set b (ps.getD b 0 - 1))

def isValidTwinAssignment (asg : List (Nat × Nat)) (sizes : List Nat) : Bool := validLoop asg sizes

/-- `cartesianProduct(input...)` -/
def cartesianProduct {α : Type} : List (List α) → List (List α)
  | [] => [[]]
  | x :: rest =>
    let r := cartesianProduct rest
    x.flatMap fun v => r.map fun p => v :: p

/-- the twin loop of `genPartitionScenarios`: twin number `2j` goes to partition `asg[j].1`, twin
`2j+1` to `asg[j].2`. -/
def placeTwins (parts : List NodeSet) (asg : List (Nat × Nat)) (twins : List NodeID) : List NodeSet :=
  ((asg.flatMap fun p => [p.1, p.2]).zip twins).foldl (fun ps tv => ps.modify tv.1 (NodeSet.add · tv.2)) parts

/-- the node loop: partition by partition, add the next unused nodes until the size is reached. -/
def fillNodes : List NodeSet → List Nat → List NodeID → List NodeSet
  | [], _, _ => []
  | p :: ps, szs, nodes =>
    let need := szs.headD 0 - p.length
    (nodes.take need).foldl NodeSet.add p :: fillNodes ps szs.tail (nodes.drop need)

/-- `genPartitionScenarios(twins, nodes, k, min)` -/
def genPartitionScenarios (twins nodes : List NodeID) (k min : Nat) : List (List NodeSet) :=
  let n := twins.length + nodes.length
  let tas : List (List (Nat × Nat)) :=
    if twins.length / 2 > 0 then cartesianProduct (List.replicate (twins.length / 2) (twinPairs k)) else []
  (genPartitionSizes n k min).flatMap fun sz =>
    if tas.isEmpty then [fillNodes (List.replicate k []) sz nodes]
    else (tas.filter (isValidTwinAssignment · sz)).map fun ta =>
      fillNodes (placeTwins (List.replicate k []) ta twins) sz nodes

/-! ### Generator -/

structure View where
  leader : Nat
  partitions : List NodeSet
deriving Repr, DecidableEq

abbrev Scenario := List View

structure Gen where
  lp : List View            -- leadersPartitions
  indices : List Nat
  offsets : List Nat
  remaining : Int
  views : Nat
  allNodes : List NodeID
  done : Bool
deriving Repr, DecidableEq

/-- the part of `NewGenerator` after the alphabet has been built -/
def Gen.ofAlphabet (lp : List View) (views : Nat) (allNodes : List NodeID) : Gen :=
  { lp := lp, indices := List.replicate views 0, offsets := List.replicate views 0,
    remaining := ((lp.length ^ views : Nat) : Int), views := views, allNodes := allNodes,
    done := lp.length == 0 && views > 0 }

/-- the alphabet of `NewGenerator`: every non-twin replica as leader of every partition scenario -/
def alphabet (numNodes numTwins partitions : Nat) : List View :=
  let (nodes, twins) := assignNodeIDs numNodes numTwins
  (genPartitionScenarios twins nodes partitions 1).flatMap fun p => nodes.map fun nd => ⟨nd.rid, p⟩

/-- `NewGenerator(logger, Settings{NumNodes, NumTwins, Partitions, Views})` -/
def newGenerator (numNodes numTwins partitions views : Nat) : Gen :=
  let (nodes, twins) := assignNodeIDs numNodes numTwins
  Gen.ofAlphabet (alphabet numNodes numTwins partitions) views (twins ++ nodes)

/-- `Shuffle(seed)`: `perm[i]` = old position of the view that `rand.Shuffle` moved to position `i`,
`offs[i]` = the `i`-th `r.Intn(len)`; a no-op on an empty alphabet. -/
def Gen.shuffle (g : Gen) (perm offs : List Nat) : Gen :=
  if g.lp.isEmpty then g else
  { g with lp := perm.filterMap (g.lp[·]?), offsets := (List.range g.offsets.length).map (offs.getD · 0) }

def emptyView : View := ⟨0, []⟩

/-- the odometer step of `NextScenario` (loop from the last view to the first); the flag tells
that every position wrapped to 0. -/
def incr (L : Nat) : List Nat → List Nat × Bool
  | [] => ([], true)
  | x :: xs =>
    let (xs', c) := incr L xs
    if c then (if x + 1 < L then ((x + 1) :: xs', false) else (0 :: xs', true))
    else (x :: xs', false)

/-- view selection of `NextScenario`: `index := ii + offsets[i]; if index >= len { index -= len }` -/
def pick (lp : List View) (ii off : Nat) : View :=
  let index := ii + off
  let index := if index ≥ lp.length then index - lp.length else index
  lp.getD index emptyView

/-- `NextScenario()`: `none` is `io.EOF`. -/
def Gen.next (g : Gen) : Gen × Option Scenario :=
  if g.done then (g, none) else
  let p := List.zipWith (pick g.lp) g.indices g.offsets
  let (idx, wrapped) := incr g.lp.length g.indices
  ({ g with indices := idx, done := wrapped, remaining := g.remaining - 1 }, some p)

/-- `k` successive calls; the results in call order. -/
def Gen.run : Nat → Gen → Gen × List (Option Scenario)
  | 0, g => (g, [])
  | k + 1, g =>
    let (g', r) := g.next
    let (g'', rs) := Gen.run k g'
    (g'', r :: rs)

/-! ### JSON -/

def NodeID.le (a b : NodeID) : Bool := a.rid < b.rid || (a.rid == b.rid && a.tid ≤ b.tid)

def insertNode (x : NodeID) : List NodeID → List NodeID
  | [] => [x]
  | y :: ys => if x.le y then x :: y :: ys else y :: insertNode x ys

/-- `NodeSet.MarshalJSON`: the members sorted by (ReplicaID, TwinID) -/
def marshalSet (s : NodeSet) : List NodeID := s.foldr insertNode []

/-- `NodeSet.UnmarshalJSON` into a nil set -/
def unmarshalSet (l : List NodeID) : NodeSet := l.foldl NodeSet.add []

/-- `json.Unmarshal(json.Marshal(scenario))` -/
def jsonRoundtrip (s : Scenario) : Scenario :=
  s.map fun v => ⟨v.leader, v.partitions.map fun p => unmarshalSet (marshalSet p)⟩

/-! ### checkCommits -/

/-- a node and its executed blocks (hash names) -/
abbrev CommitLogs := List (NodeID × List Nat)

/-- logs of the replicas whose `network.replicas[id]` has exactly one node -/
def singles (net : CommitLogs) : List (List Nat) :=
  (net.filter fun e => (net.filter fun e' => e'.1.rid == e.1.rid).length == 1).map (·.2)

/-- keys of `commitCount` after the inner loop at position `i` -/
def keysAt (logs : List (List Nat)) (i : Nat) : List Nat :=
  (logs.filterMap (·[i]?)).foldl (fun ks h => if ks.contains h then ks else ks ++ [h]) []

/-- does some considered replica have a block at position `i` (`!noCommits`) -/
def anyAt (logs : List (List Nat)) (i : Nat) : Bool := logs.any fun l => i < l.length

/-- the outer `for` of `checkCommits`, with fuel (one more than the longest log suffices) -/
def checkLoop (logs : List (List Nat)) : Nat → Nat → Bool × Nat
  | 0, i => (true, i)
  | fuel + 1, i =>
    if !anyAt logs i then (true, i)
    else if (keysAt logs i).length != 1 then (false, i)
    else checkLoop logs fuel (i + 1)

def maxLen (logs : List (List Nat)) : Nat := logs.foldl (fun m l => max m l.length) 0

/-- `checkCommits(network)` = (safe, commits) -/
def checkCommits (net : CommitLogs) : Bool × Nat :=
  let logs := singles net
  checkLoop logs (maxLen logs + 1) 0

end HsVerif.Model.Twins
