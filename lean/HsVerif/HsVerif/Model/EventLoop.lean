import HsVerif.Model.Queue
/-
Model of core/eventloop/eventloop.go (+ the two context helpers of context.go), sequential, as the
code runs on the event-loop goroutine; every block that the code runs under `el.mut` / `q.mut` is
one step here.

  Register[T](el, cb, opts...)  -> `EL.register`   first free slot (`callback == nil`) of `handlers[T]`, else append;
                                                   the returned closure captures (T, i)
  closure returned by Register  -> `EL.unregister` REPAIRED code (fixes/C14-unregister-idempotent.diff): the closure
                                                   clears its slot only the first time it is called.
                                   `EL.unregisterAsFound` = unchanged tree: clears slot (T, i) on every call,
                                                   whoever occupies it now; kept for the counterexample theorem.
  DelayUntil[T](el, ev)         -> `EL.delayUntil`
  (*EventLoop).AddEvent         -> `addEvent`      processEvent(ev, true) ; eventQ.push ; Warnf on a dropped event
  (*EventLoop).processEvent     -> `processEvent`  snapshot of handlers[T] under the lock (skip nil callbacks and
                                                   handlers of the other mode), priority list then ordinary list,
                                                   deferred dispatchDelayedEvents(T) when not running in AddEvent
  dispatchDelayedEvents         -> `dispatchDelayed` take and delete waitingEvents[T], AddEvent each in order
  (*EventLoop).Tick             -> `tick`          pop; false when empty; else processEvent(ev, false)
  ViewContext / TimeoutContext  -> registrations with `quiet` handlers whose actions are `cancelGe` / `unreg` / `cancel`
                                   (built by the driver layer from these primitives, see Drv/EventLoop.lean)

Event types are numbered (`LEv.ty`), an event carries a payload `id`.  Handlers are the harness'
recording handlers: when invoked they record the invocation and then perform a fixed list of
actions (`Act`).  A handler that runs inside AddEvent (UnsafeRunInAddEvent) skips its `add`
actions (harness rule, same in the Go driver: keeps the recursion AddEvent -> handler -> AddEvent bounded),
and a handler's `reg` action is skipped once `maxRegs` registrations exist.
Not modelled: tickers (time), `Run`'s blocking select (a run of `tick`s), the logger.

The log (`Obs`) contains what the Go driver can observe (handler invocations of non-quiet handlers,
dropped-event warnings) and ghost markers used by the theorems (`pushed`, `popped`, `deferred`, `readd`).
-/
namespace HsVerif.Model

structure LEv where
  ty : Nat
  id : Nat
deriving Repr, DecidableEq

structure HOpts where
  inAdd : Bool   -- UnsafeRunInAddEvent()
  prio : Bool    -- Prioritize()
deriving Repr, DecidableEq

inductive Act where
  | unreg (r : Nat)                          -- the harness calls the closure returned by the r-th Register call, if it
                                             -- holds it (closures of registrations made by context.go are held there)
  | ctxUnreg (r : Nat)                       -- context.go calls its closure r
  | add (e : LEv)                             -- el.AddEvent(e)
  | delay (t : Nat) (e : LEv)                 -- DelayUntil[t](el, e)
  | reg (t : Nat) (o : HOpts) (prog : Nat)   -- Register a recording handler running program `prog`
  | cancel (c : Nat)                         -- cancel context c
  | cancelGe (c : Nat) (v : Nat)             -- cancel context c when event.id ≥ v   (ViewContext's handler)
deriving Repr, DecidableEq

structure Handler where
  reg : Nat          -- number of the Register call that installed it (identity of the callback)
  opts : HOpts
  acts : List Act
  quiet : Bool       -- context.go handlers do not record
deriving Repr, DecidableEq

/-- What the closure returned by the r-th `Register` call captured (`ty`, `slot`), plus (ghost, used
only by theorems) the handler it installed. -/
structure RegRec where
  ty : Nat
  slot : Nat
  h : Handler
deriving Repr, DecidableEq

inductive Obs where
  | inv (reg : Nat) (e : LEv) (inAdd : Bool) (quiet : Bool)   -- handler `reg` called with `e`
  | dropped (e : LEv)                -- "event queue is full, dropped event" warning
  | pushed (e : LEv)                 -- ghost: eventQ.push(e)
  | popped (e : LEv)                 -- ghost: Tick popped e
  | deferred (t : Nat) (e : LEv)     -- ghost: DelayUntil[t](e)
  | readd (t : Nat) (e : LEv)        -- ghost: dispatchDelayedEvents(t) re-adds e
deriving Repr, DecidableEq

structure EL where
  q : Queue LEv
  handlers : Nat → List (Option Handler)   -- `handlers[T]`; `none` = slot whose callback is nil
  waiting : Nat → List LEv                  -- `waitingEvents[T]`
  regs : List RegRec                       -- closures returned so far
  unregd : List Nat                        -- closures that have been called (their `unregistered` flag)
  cancelled : List Nat                     -- cancelled contexts
  progs : List (List Act)                  -- handler programs of the script

namespace EL

def upd {β : Type} (f : Nat → β) (t : Nat) (v : β) : Nat → β := fun t' => if t' = t then v else f t'

def new (capacity : Nat) (progs : List (List Act)) : EL :=
  { q := Queue.new capacity, handlers := fun _ => [], waiting := fun _ => [], regs := [], unregd := [],
    cancelled := [], progs := progs }

/-- `slices.IndexFunc(handlers, callback == nil)` -/
def findFree : List (Option Handler) → Option Nat
  | [] => none
  | none :: _ => some 0
  | some _ :: t => (findFree t).map (· + 1)

def register (s : EL) (t : Nat) (o : HOpts) (acts : List Act) (quiet : Bool) : EL :=
  let l := s.handlers t
  let h : Handler := ⟨s.regs.length, o, acts, quiet⟩
  match findFree l with
  | none => { s with handlers := upd s.handlers t (l ++ [some h]), regs := s.regs ++ [⟨t, l.length, h⟩] }
  | some i => { s with handlers := upd s.handlers t (l.set i (some h)), regs := s.regs ++ [⟨t, i, h⟩] }

/-- repaired closure: no-op from the second call on (and for a closure that does not exist yet) -/
def unregister (s : EL) (r : Nat) : EL :=
  match s.regs[r]? with
  | none => s
  | some rec =>
    if s.unregd.contains r then s
    else { s with unregd := r :: s.unregd, handlers := upd s.handlers rec.ty ((s.handlers rec.ty).set rec.slot none) }

/-- closure of the unchanged tree -/
def unregisterAsFound (s : EL) (r : Nat) : EL :=
  match s.regs[r]? with
  | none => s
  | some rec =>
    { s with unregd := r :: s.unregd, handlers := upd s.handlers rec.ty ((s.handlers rec.ty).set rec.slot none) }

/-- does the harness hold the closure of registration r? -/
def holds (s : EL) (r : Nat) : Bool :=
  match s.regs[r]? with
  | some rec => !rec.h.quiet
  | none => false

def delayUntil (s : EL) (t : Nat) (e : LEv) : EL := { s with waiting := upd s.waiting t (s.waiting t ++ [e]) }

def cancelCtx (s : EL) (c : Nat) : EL := if s.cancelled.contains c then s else { s with cancelled := c :: s.cancelled }

/-- `eventQ.push` + warning -/
def pushEv (s : EL) (e : LEv) : EL × List Obs :=
  let r := s.q.push e
  ({ s with q := r.1 }, .pushed e :: (match r.2 with | none => [] | some d => [.dropped d]))

/-- the loop of `processEvent` under the lock: handlers of the wanted mode with a non-nil callback,
in slot order, split into the priority list and the ordinary list -/
def snapshot (l : List (Option Handler)) (inAdd : Bool) : List Handler × List Handler :=
  let live := (l.filterMap id).filter (fun h => h.opts.inAdd == inAdd)
  (live.filter (·.opts.prio), live.filter (fun h => !h.opts.prio))

/-- harness rule (same in the Go driver): a handler stops registering further handlers once this many
registrations exist, so that handlers that register handlers cannot double the table at every event -/
def maxRegs : Nat := 48

/-- one action of a test handler; `addFn` is what an `add` action does in the current mode -/
def execAct (addFn : EL → LEv → EL × List Obs) (s : EL) (e : LEv) : Act → EL × List Obs
  | .unreg r => (if s.holds r then s.unregister r else s, [])
  | .ctxUnreg r => (s.unregister r, [])
  | .add x => addFn s x
  | .delay t x => (s.delayUntil t x, [.deferred t x])
  | .reg t o p => (if s.regs.length < maxRegs then s.register t o (s.progs.getD p []) false else s, [])
  | .cancel c => (s.cancelCtx c, [])
  | .cancelGe c v => (if v ≤ e.id then s.cancelCtx c else s, [])

def execActs (addFn : EL → LEv → EL × List Obs) (s : EL) (e : LEv) : List Act → EL × List Obs
  | [] => (s, [])
  | a :: as => let r := execAct addFn s e a; let r' := execActs addFn r.1 e as; (r'.1, r.2 ++ r'.2)

def invokeAll (addFn : EL → LEv → EL × List Obs) (inAdd : Bool) (s : EL) (e : LEv) : List Handler → EL × List Obs
  | [] => (s, [])
  | h :: hs =>
    let r := execActs addFn s e h.acts
    let r' := invokeAll addFn inAdd r.1 e hs
    (r'.1, .inv h.reg e inAdd h.quiet :: r.2 ++ r'.2)

/-- `processEvent` without the deferred `dispatchDelayedEvents` -/
def processEvent (addFn : EL → LEv → EL × List Obs) (inAdd : Bool) (s : EL) (e : LEv) : EL × List Obs :=
  let sn := snapshot (s.handlers e.ty) inAdd
  invokeAll addFn inAdd s e (sn.1 ++ sn.2)

def noAdd (s : EL) (_ : LEv) : EL × List Obs := (s, [])

/-- `AddEvent` -/
def addEvent (s : EL) (e : LEv) : EL × List Obs :=
  let r := processEvent noAdd true s e
  let r' := pushEv r.1 e
  (r'.1, r.2 ++ r'.2)

def readdAll (t : Nat) : EL → List LEv → EL × List Obs
  | s, [] => (s, [])
  | s, x :: xs => let r := addEvent s x; let r' := readdAll t r.1 xs; (r'.1, .readd t x :: r.2 ++ r'.2)

/-- `dispatchDelayedEvents(t)` -/
def dispatchDelayed (s : EL) (t : Nat) : EL × List Obs :=
  readdAll t { s with waiting := upd s.waiting t [] } (s.waiting t)

/-- `Tick`: `none` = returned false (queue empty) -/
def tick (s : EL) : EL × Option (List Obs) :=
  let r := s.q.pop
  match r.2 with
  | none => (s, none)
  | some e =>
    let r1 := processEvent addEvent false { s with q := r.1 } e
    let r2 := dispatchDelayed r1.1 e.ty
    (r2.1, some (.popped e :: r1.2 ++ r2.2))

/-- operations of a script (each is one call into the package from outside the loop) -/
inductive Op where
  | add (e : LEv)
  | delay (t : Nat) (e : LEv)
  | reg (t : Nat) (o : HOpts) (acts : List Act) (quiet : Bool)
  | unreg (r : Nat)
  | cancel (c : Nat)
  | tick
deriving Repr, DecidableEq

def step (s : EL) : Op → EL × List Obs
  | .add e => addEvent s e
  | .delay t e => (s.delayUntil t e, [.deferred t e])
  | .reg t o acts quiet => (s.register t o acts quiet, [])
  | .unreg r => (s.unregister r, [])
  | .cancel c => (s.cancelCtx c, [])
  | .tick => let r := tick s; (r.1, r.2.getD [])

def run (s : EL) : List Op → EL × List Obs
  | [] => (s, [])
  | o :: os => let r := step s o; let r' := run r.1 os; (r'.1, r.2 ++ r'.2)

end EL

/-! Projections of a log. -/
namespace Obs

def pushedOf (log : List Obs) : List LEv := log.filterMap fun | .pushed e => some e | _ => none
/-- events that left the queue at its head: handled (popped) or dropped -/
def leftOf (log : List Obs) : List LEv := log.filterMap fun | .popped e => some e | .dropped e => some e | _ => none
def poppedOf (log : List Obs) : List LEv := log.filterMap fun | .popped e => some e | _ => none
def droppedOf (log : List Obs) : List LEv := log.filterMap fun | .dropped e => some e | _ => none
def deferredOf (t : Nat) (log : List Obs) : List LEv :=
  log.filterMap fun | .deferred t' e => if t' = t then some e else none | _ => none
def readdOf (t : Nat) (log : List Obs) : List LEv :=
  log.filterMap fun | .readd t' e => if t' = t then some e else none | _ => none
/-- handler invocations of one mode, in order: (registration, event) -/
def invsOf (inAdd : Bool) (log : List Obs) : List (Nat × LEv) :=
  log.filterMap fun | .inv r e m _ => if m = inAdd then some (r, e) else none | _ => none

end Obs
end HsVerif.Model
