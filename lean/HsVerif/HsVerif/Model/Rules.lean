import HsVerif.Model.Block
/-
Model of the three consensus rulesets of /repo/protocol/rules as they are written
(chainedhotstuff.go, fasthotstuff.go, simplehotstuff.go + fixes/C04-simple-consecutive.diff) over
the block store of /repo/security/blockchain/blockchain.go (`Get`, `Extends`).

Blocks and hashes.  SHA-256 is modelled as an injective naming: a hash is a `Nat` name; name 0 is
the all-zero hash `hotstuff.Hash{}`.  A block carries its own name, its view, its parent's name
and its quorum certificate (name of the certified block and the certificate's own view field).

Store.  `Store = Hash → Option Block` is `Blockchain.blocks`.  `Blockchain.Get` looks the hash up
locally and otherwise asks `core.Sender.RequestBlock`; the model is for a sender that does not
answer (what the harness uses; fetch answers are C13's subject), so `Get` = local lookup and does
not change the store.

  func (chain *Blockchain) Extends(block, target *hotstuff.Block) bool {
      current := block
      ok := true
      for ok && current.View() > target.View() {
          current, ok = chain.Get(current.Parent())
      }
      return ok && current.Hash() == target.Hash()
  }

The loop needs a termination argument in Lean: it is given fuel `block.parent + 1`.  Real hashes
cannot form cycles; with names in creation order (`Acyclic`: a stored block's parent name is smaller
than the name it is stored under) the fuel is never exhausted (`Proofs/Rules.lean`,
`extendsFuel_fuel_irrelevant`).

uint64 wrap-around of `View()+1`, `View()+2` is outside the model (DESIGN.md §2).
-/
namespace HsVerif.Model.Rules

/-- `Blockchain.Get` with a sender that never answers. -/
def bcGet (s : Store) (h : Nat) : Option Block := s h

/-- the loop of `Blockchain.Extends` -/
def extendsFuel (s : Store) (target : Block) : Nat → Block → Bool
  | 0, _ => false
  | n + 1, cur =>
    if cur.view > target.view then
      match bcGet s cur.parent with
      | some p => extendsFuel s target n p
      | none => false                          -- ok = false leaves the loop, result false
    else cur.hash == target.hash

/-- `Blockchain.Extends(block, target)` -/
def extends_ (s : Store) (block target : Block) : Bool :=
  extendsFuel s target (block.parent + 1) block

/-- `qcRef` of ChainedHotStuff and FastHotStuff: the zero hash is never looked up. -/
def qcRef (s : Store) (h : Nat) : Option Block := if h = 0 then none else bcGet s h

/-! ### chainedhotstuff.go -/

/-- `ChainedHotStuff.CommitRule(block)`: result and the value of `hs.bLock` afterwards. -/
def chainedCommit (s : Store) (bLock : Block) (block : Block) : Option Block × Block :=
  match qcRef s block.qcHash with
  | none => (none, bLock)
  | some block1 =>
    match qcRef s block1.qcHash with
    | none => (none, bLock)
    | some block2 =>
      let bLock' := if block2.view > bLock.view then block2 else bLock
      match qcRef s block2.qcHash with
      | none => (none, bLock')
      | some block3 =>
        if block1.parent = block2.hash ∧ block1.view = block2.view + 1 ∧
           block2.parent = block3.hash ∧ block2.view = block3.view + 1 then (some block3, bLock')
        else (none, bLock')

/-- `ChainedHotStuff.VoteRule(_, proposal)`; the view argument is ignored; `Get` is called
directly (no zero-hash guard).  No vote when the block to lock on (the one certified by
qcBlock's QC) cannot be obtained. -/
def chainedVote (s : Store) (bLock : Block) (block : Block) : Bool :=
  match bcGet s block.qcHash with
  | some qcBlock =>
    if qcBlock.qcHash ≠ 0 ∧ (bcGet s qcBlock.qcHash).isNone then false
    else if qcBlock.view > bLock.view then true else extends_ s block bLock
  | none => extends_ s block bLock

/-! ### fasthotstuff.go -/

/-- `FastHotStuff.CommitRule(block)` (no state). -/
def fastCommit (s : Store) (block : Block) : Option Block :=
  match qcRef s block.qcHash with
  | none => none
  | some parent =>
    match qcRef s parent.qcHash with
    | none => none
    | some grandparent =>
      if block.parent = parent.hash ∧ block.view = parent.view + 1 ∧
         parent.parent = grandparent.hash ∧ parent.view = grandparent.view + 1 then some grandparent
      else none

/-- `FastHotStuff.VoteRule(view, proposal)`; `agg` = `proposal.AggregateQC != nil`. -/
def fastVote (s : Store) (view : Nat) (block : Block) (agg : Bool) : Bool :=
  if agg then
    match bcGet s block.qcHash with
    | some hqcBlock => extends_ s block hqcBlock
    | none => false
  else decide (block.view ≥ view) && decide (block.view = block.qcView + 1)

/-! ### simplehotstuff.go (with fixes/C04-simple-consecutive.diff) -/

/-- `SimpleHotStuff.VoteRule(view, proposal)` -/
def simpleVote (s : Store) (locked : Block) (view : Nat) (block : Block) : Bool :=
  if block.view < view then false
  else
    match bcGet s block.qcHash with
    | none => false
    | some parent =>
      if parent.qcHash ≠ 0 ∧ (bcGet s parent.qcHash).isNone then false   -- the block to lock on is missing
      else if parent.view < locked.view then false else true

/-- `SimpleHotStuff.CommitRule(block)`: result and `hs.locked` afterwards.
    `gp, ok := Get(..); if ok && gp.View() > locked.View() { locked = gp } else if !ok { return nil }` -/
def simpleCommit (s : Store) (locked : Block) (block : Block) : Option Block × Block :=
  match bcGet s block.qcHash with
  | none => (none, locked)
  | some p =>
    match bcGet s p.qcHash with
    | none => (none, locked)
    | some gp =>
      let locked' := if gp.view > locked.view then gp else locked
      match bcGet s gp.qcHash with
      | some ggp =>
        if ggp.view + 1 = gp.view ∧ ggp.view + 2 = p.view then (some ggp, locked') else (none, locked')
      | none => (none, locked')

/-! ### One replica's rule state driven by a presentation of blocks -/

structure RState where
  kind : Kind
  store : Store
  lock : Block            -- bLock / locked; unused by fast

def RState.init (k : Kind) : RState := { kind := k, store := Store.initial, lock := genesis }

def voteRule (st : RState) (view : Nat) (b : Block) (agg : Bool) : Bool :=
  match st.kind with
  | .chained => chainedVote st.store st.lock b
  | .fast => fastVote st.store view b agg
  | .simple => simpleVote st.store st.lock view b

def commitRule (st : RState) (b : Block) : Option Block × Block :=
  match st.kind with
  | .chained => chainedCommit st.store st.lock b
  | .fast => (fastCommit st.store b, st.lock)
  | .simple => simpleCommit st.store st.lock b

def step (st : RState) : Op → RState × Ans
  | .store b => ({ st with store := st.store.store b }, .stored)
  | .vote v b agg => (st, .vote (voteRule st v b agg))
  | .commit b => let r := commitRule st b; ({ st with lock := r.2 }, .commit r.1)

def run (st : RState) : List Op → RState × List Ans
  | [] => (st, [])
  | op :: ops =>
    ((run (step st op).1 ops).1, (step st op).2 :: (run (step st op).1 ops).2)

end HsVerif.Model.Rules
