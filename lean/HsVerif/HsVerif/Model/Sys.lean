import HsVerif.Model.Replica
/-
A SYSTEM of replica models (C01, system layer): the honest ids each run `Model/Replica.lean`, all
other ids `1..n` are Byzantine.  There is ONE signature table (`truth`: bytes id ↦ ⟨signer,
message⟩) and one allocator of fresh byte ids; every honest replica verifies against the global
table and adds its own signatures to it.

The adversary is the scheduler and the network and owns the Byzantine keys:
  * `deliver i e`   ANY event — any content, any claimed sender, referring to any byte ids of the
                    table (replay of honest signatures included) — reaches honest replica `i`,
                    which then runs its event loop to quiescence (`step`);
  * `start i`       `Synchronizer.Start` at replica `i` (`start`; the leader of view 1 proposes and
                    votes, hence signs — which is why the initial states are the plain `{}` and
                    starting is an action: the signatures go through the shared table);
  * `fetchable i l` decides what block fetches (`sender.RequestBlock`) at replica `i` will return;
  * `forge a`       a Byzantine replica signs the atom `a` (fresh bytes); allowed only when
                    `a.signer` is NOT an honest id — this is EUF-CMA: nobody but replica `i` makes
                    bytes `b` with `truth b = ⟨i, _⟩`.
Honest signing happens only inside `step` / `start` (through `signMsg`).

BLS (`scheme = .bls12`): BLS values carry their atoms instead of referring to the table, so the
table says nothing about them; the theorems about this model are meant for ECDSA / EdDSA.
-/
namespace HsVerif.Model

structure SysCfg where
  n : Nat
  rules : Rules
  scheme : Scheme
  agg : Bool
  leaders : LeaderKind
  honest : List Nat          -- ids that run the replica model; all other ids 1..n are Byzantine
deriving Repr

/-- configuration of honest replica `i` -/
def SysCfg.rcfg (C : SysCfg) (i : Nat) : RCfg :=
  { n := C.n, id := i, rules := C.rules, agg := C.agg, scheme := C.scheme, leaders := C.leaders,
    cmdClient := 100 + i }

structure SysState where
  reps : List (Nat × RState) := []      -- honest id ↦ state
  truth : List (Nat × Atom) := []       -- the ONE global signature table
  nextBytes : Nat := 1
deriving Repr

inductive SysAct
  | start (i : Nat)
  | deliver (i : Nat) (e : Ev)
  | fetchable (i : Nat) (l : List (Hash × Block))
  | forge (a : Atom)
deriving Repr

/-- every honest replica in its initial state; nothing signed yet -/
def sysInit (_k : Keys) (C : SysCfg) : SysState :=
  { reps := C.honest.map (fun i => (i, ({} : RState))), truth := [], nextBytes := 1 }

/-- replica `i` runs `f` against the global signature table and publishes the table it ends with -/
def SysState.run (σ : SysState) (i : Nat) (f : RState → RState × List Out) : SysState :=
  match σ.reps.lookup i with
  | none => σ
  | some s =>
    let s' := (f { s with truth := σ.truth, nextBytes := σ.nextBytes }).1
    { reps := setKV i s' σ.reps, truth := s'.truth, nextBytes := s'.nextBytes }

def sysStep (k : Keys) (C : SysCfg) (σ : SysState) : SysAct → SysState
  | .start i => σ.run i (start k (C.rcfg i))
  | .deliver i e => σ.run i (fun s => step k (C.rcfg i) s e)
  | .fetchable i l =>
    match σ.reps.lookup i with
    | none => σ
    | some s => { σ with reps := setKV i { s with chain := { s.chain with fetchable := l } } σ.reps }
  | .forge a =>
    if C.honest.contains a.signer then σ
    else { σ with truth := (σ.nextBytes, a) :: σ.truth, nextBytes := σ.nextBytes + 1 }

def sysRun (k : Keys) (C : SysCfg) (acts : List SysAct) : SysState :=
  acts.foldl (sysStep k C) (sysInit k C)

/-- reachable from `sysInit` by any list of actions -/
inductive Reach (k : Keys) (C : SysCfg) : SysState → Prop
  | init : Reach k C (sysInit k C)
  | step (σ : SysState) (a : SysAct) : Reach k C σ → Reach k C (sysStep k C σ a)

end HsVerif.Model
