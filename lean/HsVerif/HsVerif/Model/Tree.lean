/-
Model of internal/tree/tree.go (`Tree`, `NewSimple`, `treeHeight`, `TreeHeight`, `Parent`, `Root`,
`IsRoot`, `ReplicaChildren`, `ChildrenOf`, `ReplicaHeight`, `PeersOf`, `SubTree`, `heightOf`,
`replicaPosition`, `DefaultTreePos`, `DefaultTreePosUint32`), of internal/tree/shuffle.go (`Shuffle`,
parameterised by the random stream) and of the way protocol/comm/kauri.go,
protocol/comm/kauri/sender.go and protocol/leaderrotation/treeleader.go walk the tree
(`ReplicaChildren` to push a proposal down, `Parent` to send a contribution up, `Root` as leader).

Replica ids, positions, sizes and the branch factor are `Nat` (Go `int` / `uint32`; no wrap-around
for the sizes considered).  `replicaPosition` is `slices.Index`: first index, or -1 = `none`.
A Go `nil` slice and an empty slice are both `[]` (the callers only iterate / take `len`).
The model follows the Go control flow: order of checks, early returns, clamping, the work-list loop
of `SubTree` and the level-scanning loop of `heightOf`; loops are fuelled recursion, and
`HsVerif.Props.C17` proves that the fuel chosen here is never exhausted.
-/
namespace HsVerif.Model
namespace Tree

/-- loop of `treeHeight`: `for numNodes > 0 { numNodes -= levelSize; levelSize *= bf; height++ }`.
`numNodes` is a `Nat` with truncated subtraction: Go's `int` goes ≤ 0 exactly when this reaches 0. -/
def treeHeightAux (bf : Nat) : Nat → Nat → Nat → Nat → Nat
  | 0, _, _, height => height
  | fuel + 1, numNodes, levelSize, height =>
    if numNodes > 0 then treeHeightAux bf fuel (numNodes - levelSize) (levelSize * bf) (height + 1)
    else height

/-- `treeHeight(numNodes, bf)`. -/
def treeHeight (numNodes bf : Nat) : Nat := treeHeightAux bf numNodes numNodes 1 0

end Tree

/-- the `Tree` struct (`waitTime` is irrelevant here). -/
structure Tree where
  id : Nat
  height : Nat
  bf : Nat
  pos : List Nat          -- treePosToID
deriving Repr, DecidableEq

namespace Tree

/-- the struct literal built by `NewSimple` once its two checks have passed -/
def mk' (id bf : Nat) (pos : List Nat) : Tree :=
  { id := id, height := treeHeight pos.length bf, bf := bf, pos := pos }

/-- `NewSimple`; `none` = panic (branch factor < 2, or id not in the position list). -/
def newSimple (id bf : Nat) (pos : List Nat) : Option Tree :=
  if bf < 2 then none
  else if ¬ (pos.idxOf id < pos.length) then none
  else some (mk' id bf pos)

/-- `replicaPosition`: `slices.Index` (first occurrence), `none` for -1. -/
def replicaPosition (t : Tree) (id : Nat) : Option Nat :=
  if t.pos.idxOf id < t.pos.length then some (t.pos.idxOf id) else none

/-- `TreeHeight`. -/
def treeHeightOf (t : Tree) : Nat := t.height

/-- `Parent`: `(t.id, false)` for the root, else the id at `(myPos-1)/bf` and `true`.
`NewSimple` guarantees that `t.id` has a position; the `none` branch is unreachable for such trees
(`Props.C17.own_position`). -/
def parent (t : Tree) : Nat × Bool :=
  match t.replicaPosition t.id with
  | none => (0, true)
  | some myPos =>
    if myPos == 0 then (t.id, false)
    else (t.pos.getD ((myPos - 1) / t.bf) 0, true)

/-- `Root`. -/
def root (t : Tree) : Nat := t.pos.getD 0 0

/-- `IsRoot`. -/
def isRoot (t : Tree) (replicaID : Nat) : Bool := t.replicaPosition replicaID == some 0

/-- `ChildrenOf`: the slice `treePosToID[childStart:childEnd]` with the early exits and the clamp. -/
def childrenOf (t : Tree) (replicaID : Nat) : List Nat :=
  match t.replicaPosition replicaID with
  | none => []
  | some replicaPos =>
    let childStart := replicaPos * t.bf + 1
    if childStart ≥ t.pos.length then []
    else
      let childEnd := childStart + t.bf
      let childEnd := if childEnd > t.pos.length then t.pos.length else childEnd
      (t.pos.take childEnd).drop childStart

/-- `ReplicaChildren`. -/
def replicaChildren (t : Tree) : List Nat := t.childrenOf t.id

/-- `PeersOf`: children of the parent (the replica itself included), nothing for the root. -/
def peersOf (t : Tree) : List Nat :=
  let (parent, ok) := t.parent
  if !ok then [] else t.childrenOf parent

/-- work-list loop of `SubTree`:
`for i := 0; i < len(sub); i++ { sub = append(sub, t.ChildrenOf(sub[i])...) }`. -/
def subTreeLoop (t : Tree) : Nat → Nat → List Nat → List Nat
  | 0, _, sub => sub
  | fuel + 1, i, sub =>
    if i < sub.length then subTreeLoop t fuel (i + 1) (sub ++ t.childrenOf (sub.getD i 0))
    else sub

/-- `SubTree`. -/
def subTree (t : Tree) : List Nat :=
  let children := t.childrenOf t.id
  if children.length == 0 then []
  else subTreeLoop t t.pos.length 0 children

/-- level-scanning loop of `heightOf`:
`for lvl := 1; lvl < t.height; lvl++ { endLvl := startLvl+lvlCount; if in range return height-lvl; … }`,
falling through to `return 0`. -/
def heightLoop (bf height replicaPos : Nat) : Nat → Nat → Nat → Nat → Nat
  | 0, _, _, _ => 0
  | fuel + 1, lvl, startLvl, lvlCount =>
    if lvl < height then
      let endLvl := startLvl + lvlCount
      if replicaPos ≥ startLvl ∧ replicaPos < endLvl then height - lvl
      else heightLoop bf height replicaPos fuel (lvl + 1) endLvl (lvlCount * bf)
    else 0

/-- `heightOf`. -/
def heightOf (t : Tree) (replicaID : Nat) : Nat :=
  if t.isRoot replicaID then t.height
  else match t.replicaPosition replicaID with
    | none => 0
    | some replicaPos => heightLoop t.bf t.height replicaPos t.height 1 1 t.bf

/-- `ReplicaHeight`. -/
def replicaHeight (t : Tree) : Nat := t.heightOf t.id

/-- `DefaultTreePos` / `DefaultTreePosUint32`: ids 1..size. -/
def defaultTreePos (size : Nat) : List Nat := (List.range size).map (· + 1)

/-! `Shuffle` (shuffle.go) = `rand.Shuffle(len, swap)`: Fisher–Yates, `for i := n-1; i > 0; i--
{ j := rnd(i+1); swap(i, j) }`.  The random stream is a parameter (`js`, one choice per step). -/

def swapAt (l : List Nat) (i j : Nat) : List Nat := (l.set i (l.getD j 0)).set j (l.getD i 0)

def shuffleLoop : Nat → List Nat → List Nat → List Nat
  | 0, _, l => l
  | i + 1, js, l =>
    match js with
    | [] => l
    | j :: js => shuffleLoop i js (swapAt l (i + 1) (j % (i + 2)))

def shuffle (js : List Nat) (l : List Nat) : List Nat := shuffleLoop (l.length - 1) js l

/-! Use of the tree by Kauri (kauri.go `sendProposalToChildren`, kauri/sender.go
`SendContributionToParent`) and by the tree leader (`GetLeader` = `Root`), each replica consulting
its *own* `Tree` instance. -/

/-- a proposal pushed down from the leader: every replica that receives it forwards it to its
`ReplicaChildren`; the result is the delivery order (leader first).  `cap` bounds the number of
deliveries (only reached for malformed assignments with repeated ids). -/
def disseminateLoop (bf : Nat) (pos : List Nat) : Nat → Nat → List Nat → List Nat
  | 0, _, q => q
  | fuel + 1, i, q =>
    if i < q.length then
      match newSimple (q.getD i 0) bf pos with
      | none => q
      | some t => disseminateLoop bf pos fuel (i + 1) (q ++ t.replicaChildren)
    else q

def disseminate (bf : Nat) (pos : List Nat) : List Nat :=
  disseminateLoop bf pos (pos.length + 1) 0 [pos.getD 0 0]

/-- a contribution sent up: from `r`, follow each replica's own `Parent()` until one reports
`ok = false`; at most `fuel` hops. -/
def voteUp (bf : Nat) (pos : List Nat) : Nat → Nat → List Nat
  | 0, r => [r]
  | fuel + 1, r =>
    match newSimple r bf pos with
    | none => [r]
    | some t => if t.parent.2 then r :: voteUp bf pos fuel t.parent.1 else [r]

end Tree
end HsVerif.Model
