/-
Blocks, hashes and the block store shared by the model of the rulesets (`Model/Rules.lean`) and the
independent specification of the published rules (`Spec/Rules.lean`).

SHA-256 is modelled as an injective naming: a hash is a `Nat` name; name 0 is the all-zero hash
`hotstuff.Hash{}`.  A block carries its own name, its view, its parent's name and its quorum
certificate (name of the certified block and the certificate's own view field).
`Store = Hash → Option Block` is `Blockchain.blocks` of /repo/security/blockchain/blockchain.go;
a missing block is `none`.
-/
namespace HsVerif.Model.Rules

abbrev Hash := Nat
abbrev View := Nat

structure Block where
  hash : Nat        -- Hash
  view : Nat        -- View
  parent : Nat      -- Hash
  qcHash : Nat      -- Hash: block.QuorumCert().BlockHash()
  qcView : Nat      -- View: block.QuorumCert().View()
deriving DecidableEq, Repr, Inhabited

abbrev Store := Nat → Option Block

/-- `hotstuff.GetGenesis()`: view 0, parent and certificate point at the zero hash. Named 1. -/
def genesis : Block := { hash := 1, view := 0, parent := 0, qcHash := 0, qcView := 0 }

/-- `blockchain.New`: only genesis is stored. -/
def Store.initial : Store := fun h => if h = 1 then some genesis else none

/-- `Blockchain.Store`: an existing entry is kept ("do not store existing blocks"). -/
def Store.store (s : Store) (b : Block) : Store :=
  fun h => if h = b.hash then (match s h with | some old => some old | none => some b) else s h

/-! Interface of a ruleset as the consensus code uses it: blocks are handed to the store, to the
vote rule and to the commit rule. -/

inductive Kind where
  | chained | fast | simple
deriving DecidableEq, Repr, Inhabited

/-- `ChainLength()` -/
def Kind.chainLength : Kind → Nat
  | .chained => 3
  | .fast => 2
  | .simple => 3

/-- What can be done with a block: hand it to the store, ask the vote rule, ask the commit rule. -/
inductive Op where
  | store (b : Block)
  | vote (view : Nat) (b : Block) (agg : Bool)
  | commit (b : Block)

inductive Ans where
  | stored
  | vote (v : Bool)
  | commit (c : Option Block)
deriving DecidableEq

end HsVerif.Model.Rules
