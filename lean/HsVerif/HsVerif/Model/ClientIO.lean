/-
Model of server/clientio.go (`ClientIO`): ExecCommand (registration of a waiter), Exec, Abort,
isDuplicate, completeCommand.  A command is (client id, sequence number, data); `hash` is the
SHA-256 state, modelled as the list of data written so far (`executed`), `cmdCount` its length.
Waiters are named by the script (`chan`); `outcomes` is the ghost log of what each waiter received.
-/
namespace HsVerif.Model

structure Cmd where
  client : Nat
  seq : Nat
  data : String
deriving DecidableEq, Repr

inductive Outcome | ok | alreadyExecuted | forked
deriving DecidableEq, Repr

structure CIO where
  lastExec : List (Nat × Nat) := []                 -- client ↦ highest executed sequence number
  awaiting : List ((Nat × Nat) × Nat) := []         -- (client, seq) ↦ waiting channel
  executed : List Cmd := []                         -- commands handed to the application, in order
  outcomes : List (Nat × (Nat × Nat) × Outcome) := []   -- ghost: (channel, command id, outcome) in delivery order
deriving Repr

/-- `isDuplicate` on the table of highest executed sequence numbers -/
def dupIn (last : List (Nat × Nat)) (c : Cmd) : Bool :=
  match last.lookup c.client with
  | some n => decide (n ≥ c.seq)
  | none => false

def CIO.isDuplicate (s : CIO) (c : Cmd) : Bool := dupIn s.lastExec c

/-- `ExecCommand` up to the point where it blocks: the waiter for this (client, seq) is (re)placed -/
def CIO.register (s : CIO) (c : Cmd) (chan : Nat) : CIO :=
  { s with awaiting := ((c.client, c.seq), chan) :: s.awaiting.filter (fun p => p.1 != (c.client, c.seq)) }

/-- `completeCommand` -/
def CIO.complete (s : CIO) (id : Nat × Nat) (o : Outcome) : CIO :=
  match s.awaiting.lookup id with
  | some ch => { s with outcomes := s.outcomes ++ [(ch, id, o)], awaiting := s.awaiting.filter (fun p => p.1 != id) }
  | none => s

def setLast (k v : Nat) : List (Nat × Nat) → List (Nat × Nat)
  | [] => [(k, v)]
  | (k', v') :: rest => if k' == k then (k, v) :: rest else (k', v') :: setLast k v rest

/-- `Exec` of one command -/
def CIO.exec1 (s : CIO) (c : Cmd) : CIO :=
  if s.isDuplicate c then s.complete (c.client, c.seq) .alreadyExecuted
  else
    ({ s with lastExec := setLast c.client c.seq s.lastExec, executed := s.executed ++ [c] }).complete (c.client, c.seq) .ok

def CIO.exec (s : CIO) (batch : List Cmd) : CIO := batch.foldl CIO.exec1 s

def CIO.abort (s : CIO) (batch : List Cmd) : CIO :=
  batch.foldl (fun s c => s.complete (c.client, c.seq) .forked) s

inductive CIOOp
  | register (c : Cmd) (chan : Nat)
  | exec (batch : List Cmd)
  | abort (batch : List Cmd)
deriving Repr

def CIO.step (s : CIO) : CIOOp → CIO
  | .register c ch => s.register c ch
  | .exec b => s.exec b
  | .abort b => s.abort b

end HsVerif.Model
