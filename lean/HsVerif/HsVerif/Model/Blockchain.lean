/-
Model of security/blockchain/blockchain.go (`Blockchain`: Store, LocalGet, Get, Extends,
PruneToHeight), of the reply filter `qspec.RequestBlockQF` in network/sender.go and of
protocol/consensus/committer.go (`TryCommit`, `commit`, `commitInner`).

* A block is `(hash, parent, view)`; hashes are names (`Nat`).  Go caches the hash inside the block
  (`Block.hash`), the model does the same; that equal hashes mean equal blocks (SHA-256 collision
  resistance) is an explicit hypothesis wherever a theorem needs it, never a definition.
* `map[K]V` is an association list, newest binding first: `m[k] = v` is `mset` (cons, shadows),
  `delete(m, k)` is `mdel`, `m[k]` is `mget`.
* `Get` releases the mutex while `sender.RequestBlock` runs.  One call of `RequestBlock` is
  described by a `Fetch`: what another goroutine stored meanwhile (`arrive`) and what the sender
  returned (`reply`, `none` = `ok == false`).  `Net = hash → Fetch` is the environment.
* Loops that follow parent links are fuelled.  Go needs no fuel (hash chains are finite); the
  theorems hold for every fuel above the start block's view, because views strictly drop along
  parent links under `ViewsGrow`; the drivers run with view + number of known blocks + 2.
* `pruneToHeight` is the code of fixes/C13-prune-forks.diff (committed branch identified by hash);
  `pruneToHeightOld` is the code before the repair (committed branch identified by view through
  the one-block-per-view map), kept for the counterexample theorem.
-/
namespace HsVerif.Model.Chain

structure Block where
  hash : Nat
  parent : Nat
  view : Nat
deriving DecidableEq, Repr

abbrev BMap := List (Nat × Block)

def mget (m : BMap) (k : Nat) : Option Block := List.lookup k m
def mset (m : BMap) (k : Nat) (b : Block) : BMap := (k, b) :: m
def mdel (m : BMap) (k : Nat) : BMap := m.filter (fun e => e.1 != k)

structure Store where
  blocks : BMap        -- chain.blocks
  atHeight : BMap      -- chain.blockAtHeight (one block per view)
  pruneHeight : Nat
deriving Repr

/-- `Store`: an existing hash is left alone (early return), otherwise both maps are written. -/
def store (s : Store) (b : Block) : Store :=
  match mget s.blocks b.hash with
  | some _ => s
  | none => { s with blocks := mset s.blocks b.hash b, atHeight := mset s.atHeight b.view b }

/-- hash 0 is the all-zero hash (parent of genesis, hash of no block); genesis has hash 1, view 0 -/
def genesis : Block := ⟨1, 0, 0⟩

/-- `New`: empty maps, then `Store(genesis)`. -/
def init : Store := store ⟨[], [], 0⟩ genesis

/-- `LocalGet`. -/
def localGet (s : Store) (h : Nat) : Option Block := mget s.blocks h

structure Fetch where
  arrive : Option Block := none
  reply : Option Block := none

abbrev Net := Nat → Fetch

/-- a sender without concurrent arrivals -/
def pureNet (f : Nat → Option Block) : Net := fun h => { arrive := none, reply := f h }

/-- `qspec.RequestBlockQF`: the first reply whose recomputed hash is the requested one. -/
def requestBlockQF (h : Nat) (replies : List Block) : Option Block := replies.find? (fun b => b.hash == h)

/-- what another goroutine stored while `Get` had released the lock -/
def arrived (s : Store) (f : Fetch) : Store :=
  match f.arrive with
  | some a => store s a
  | none => s

/-- the part of `Get` after `RequestBlock` returned: on failure look again, on success write the
reply under the *requested* hash and under its view -/
def fetched (s1 : Store) (h : Nat) : Option Block → Store × Option Block
  | none => (s1, mget s1.blocks h)
  | some b => ({ s1 with blocks := mset s1.blocks h b, atHeight := mset s1.atHeight b.view b }, some b)

/-- `Get`: local hit; otherwise fetch with the lock released. -/
def get (s : Store) (net : Net) (h : Nat) : Store × Option Block :=
  match mget s.blocks h with
  | some b => (s, some b)
  | none => fetched (arrived s (net h)) h (net h).reply

/-- `Extends`: `for ok && current.View() > target.View() { current, ok = Get(current.Parent()) }`
then `ok && current.Hash() == target.Hash()`. -/
def extendsAux (net : Net) (t : Block) : Nat → Store → Block → Store × Bool
  | 0, s, _ => (s, false)
  | fuel + 1, s, cur =>
    if t.view < cur.view then
      match get s net cur.parent with
      | (s', some p) => extendsAux net t fuel s' p
      | (s', none) => (s', false)
    else (s, cur.hash == t.hash)

def «extends» (s : Store) (net : Net) (b t : Block) : Store × Bool := extendsAux net t (b.view + 1) s b

/-- first loop of the repaired `PruneToHeight`: hashes of the committed branch, newest first -/
def markChain (s : Store) : Nat → Block → List Nat → List Nat
  | 0, _, acc => acc
  | fuel + 1, block, acc =>
    match mget s.blocks block.parent with
    | none => acc
    | some parent =>
      if parent.view < s.pruneHeight then acc
      else markChain s fuel parent (parent.hash :: acc)

/-- second loop: views `h, h-1, …` (`n` of them); a block whose hash is not marked is reported;
every visited view is deleted from `blockAtHeight`. -/
def sweep (marked : List Nat) : Nat → Nat → BMap → List Block × BMap
  | _, 0, m => ([], m)
  | h, n + 1, m =>
    let forked := match mget m h with
      | some b => if marked.contains b.hash then [] else [b]
      | none => []
    let r := sweep marked (h - 1) n (mdel m h)
    (forked ++ r.1, r.2)

/-- `PruneToHeight(committed, height)` after fixes/C13-prune-forks.diff. -/
def pruneToHeight (fuel : Nat) (s : Store) (committed : Block) (height : Nat) : Store × List Block :=
  let marked := markChain s fuel committed [committed.hash]
  let r := sweep marked height (height - s.pruneHeight) s.atHeight
  ({ s with atHeight := r.2, pruneHeight := height }, r.1)

/-! The code before the repair: committed *views*, found by walking `blockAtHeight`. -/

def markViewsOld (s : Store) : Nat → Nat → List Nat → List Nat
  | 0, _, acc => acc
  | fuel + 1, h, acc =>
    if h < s.pruneHeight then acc else
    match mget s.atHeight h with
    | none => acc
    | some block =>
      match mget s.blocks block.parent with
      | none => acc
      | some parent =>
        if parent.view < s.pruneHeight then acc
        else markViewsOld s fuel parent.view (parent.view :: acc)

def sweepOld (marked : List Nat) : Nat → Nat → BMap → List Block × BMap
  | _, 0, m => ([], m)
  | h, n + 1, m =>
    let forked := if marked.contains h then [] else
      match mget m h with
      | some b => [b]
      | none => []
    let r := sweepOld marked (h - 1) n (mdel m h)
    (forked ++ r.1, r.2)

/-- `PruneToHeight(committedHeight, height)` as in the unrepaired tree. -/
def pruneToHeightOld (fuel : Nat) (s : Store) (committedHeight height : Nat) : Store × List Block :=
  let marked := markViewsOld s fuel committedHeight [committedHeight]
  let r := sweepOld marked height (height - s.pruneHeight) s.atHeight
  ({ s with atHeight := r.2, pruneHeight := height }, r.1)

/-! Committer -/

/-- `commitInner`: executed blocks oldest first; `none` = "failed to locate block". -/
def commitInner (net : Net) (committed : Block) : Nat → Store → Block → Store × Option (List Block)
  | 0, s, _ => (s, none)
  | fuel + 1, s, block =>
    if block.view ≤ committed.view then (s, some [])
    else
      match get s net block.parent with
      | (s1, none) => (s1, none)
      | (s1, some parent) =>
        match commitInner net committed fuel s1 parent with
        | (s2, none) => (s2, none)
        | (s2, some ex) => (s2, some (ex ++ [block]))

structure CState where
  store : Store
  committed : Block     -- viewStates.CommittedBlock()
deriving Repr

def cinit : CState := ⟨init, genesis⟩

inductive CommitResult
  | nothing                                              -- the rule returned nil
  | error                                                -- an ancestor could not be located
  | ok (executed : List Block) (aborted : List Block)

/-- `commit`: `commitInner`, then `PruneToHeight(CommittedBlock(), block.View())`; one
`AbortEvent` per reported block. -/
def commit (fuel : Nat) (net : Net) (cs : CState) (block : Block) : CState × CommitResult :=
  match commitInner net cs.committed fuel cs.store block with
  | (s1, none) => ({ cs with store := s1 }, .error)
  | (s1, some ex) =>
    let committed' := ex.getLast?.getD cs.committed
    let r := pruneToHeight fuel s1 committed' block.view
    ({ store := r.1, committed := committed' }, .ok ex r.2)

/-- `TryCommit(block)` with the commit rule's answer `target`. -/
def tryCommit (fuel : Nat) (net : Net) (cs : CState) (block : Block) (target : Option Block) :
    CState × CommitResult :=
  let cs1 := { cs with store := store cs.store block }
  match target with
  | none => (cs1, .nothing)
  | some t => commit fuel net cs1 t

/-- `commit` before the repair (committed view passed instead of the block). -/
def commitOld (fuel : Nat) (net : Net) (cs : CState) (block : Block) : CState × CommitResult :=
  match commitInner net cs.committed fuel cs.store block with
  | (s1, none) => ({ cs with store := s1 }, .error)
  | (s1, some ex) =>
    let committed' := ex.getLast?.getD cs.committed
    let r := pruneToHeightOld fuel s1 committed'.view block.view
    ({ store := r.1, committed := committed' }, .ok ex r.2)

end HsVerif.Model.Chain
