import HsVerif.Model.Wire
/-
Executable model of one replica (DESIGN.md §5): handler by handler and in the code's order of
checks,
  protocol/synchronizer/synchronizer.go  (the four registered handlers, advanceView,
      OnLocalTimeout, OnRemoteTimeout, OnNewView), timeoutrule_simple.go, timeoutrule_aggregate.go,
      timeout_collector.go,
  protocol/viewstates.go, protocol/consensus/{voter,proposer,committer}.go,
  protocol/rules/{chainedhotstuff,simplehotstuff,fasthotstuff}.go,
  protocol/votingmachine/votingmachine.go (synchronous verification), protocol/comm/clique.go,
  security/blockchain/blockchain.go (Store, LocalGet, Get with fetch, Extends, PruneToHeight),
  security/cert/auth.go (via Model/Cert.lean) and the event loop's queue / DelayUntil discipline
  (core/eventloop/eventloop.go: AddEvent appends, Tick pops one event, runs its handlers, then
  re-adds the events deferred until that event type).
All `fix:` commits recorded in known_findings.json are part of the modelled code.

Not modelled: timers (a local timeout is an explicit event), DynamicDuration, logging, the
command cache beyond "the next fresh command is available" (batch size 1, C15), queue overflow
(capacity 100 is never reached by the harness). Goroutines: vote verification is synchronous in `collectVote`;
the asynchronous variant is its two halves `collectVotePre` / `verifyCertM` (end of this file), scheduled by the driver.
Loops over ancestor chains carry fuel = number of known blocks + 2 (hash chains are acyclic).
-/
namespace HsVerif.Model

inductive Rules | chained | simple | fast
deriving DecidableEq, Repr

inductive LeaderKind
  | roundRobin
  | fixed (id : Nat)
deriving DecidableEq, Repr

structure RCfg where
  n : Nat
  id : Nat
  rules : Rules
  agg : Bool                 -- config.HasAggregateQC()
  scheme : Scheme
  leaders : LeaderKind := .roundRobin
  cmdClient : Nat := 9        -- client id of the commands pre-loaded into this replica's command cache
deriving Repr

def RCfg.leader (c : RCfg) (view : Nat) : Nat :=
  match c.leaders with
  | .roundRobin => view % c.n + 1
  | .fixed i => i

def RCfg.cfg (c : RCfg) : Cfg := ⟨c.n, c.scheme⟩

/-- events travelling through the event loop -/
inductive Ev
  | propose (id : Nat) (b : Block) (agg : Option AggQC)
  | vote (id : Nat) (sig : Option Sig) (hash : Hash) (deferred : Bool)
  | timeout (t : TimeoutMsg)
  | newview (id : Nat) (si : SyncInfo)
  | localTimeout (view : Nat)
  | viewChange (view : Nat) (timeout : Bool)
  | commit (b : Block)
  | exec (b : Block)
  | abort (b : Block)
deriving Repr

/-- externally visible effects, in the order they happen -/
inductive Out
  | sign (m : Msg)
  | sendPropose (b : Block) (agg : Option AggQC)
  | sendVote (to : Nat) (sig : Sig) (hash : Hash)
  | sendTimeout (t : TimeoutMsg)
  | sendNewView (to : Nat) (si : SyncInfo)
  | viewChange (view : Nat) (timeout : Bool)
  | commit (b : Block)
  | exec (b : Block)
  | abort (b : Block)
  | panic
deriving Repr

structure RChain where
  blocks : List (Hash × Block) := [(genesisHash, genesisBlock)]
  atHeight : List (Nat × Hash) := [(0, genesisHash)]
  pruneHeight : Nat := 0
  fetchable : List (Hash × Block) := []      -- what `sender.RequestBlock` would return
deriving Repr

def setKV {α} (k : Nat) (v : α) : List (Nat × α) → List (Nat × α)
  | [] => [(k, v)]
  | (k', v') :: rest => if k' == k then (k, v) :: rest else (k', v') :: setKV k v rest

def RChain.localGet (c : RChain) (h : Hash) : Option Block := c.blocks.lookup h

/-- `Store`: existing blocks are left alone -/
def RChain.store (c : RChain) (b : Block) : RChain :=
  match c.blocks.lookup b.hash with
  | some _ => c
  | none => { c with blocks := (b.hash, b) :: c.blocks, atHeight := setKV b.view b.hash c.atHeight }

/-- `Get`: local, else fetched from peers and stored under the requested hash -/
def RChain.get (c : RChain) (h : Hash) : RChain × Option Block :=
  match c.blocks.lookup h with
  | some b => (c, some b)
  | none =>
    match c.fetchable.lookup h with
    | some b => ({ c with blocks := (h, b) :: c.blocks, atHeight := setKV b.view b.hash c.atHeight }, some b)
    | none => (c, none)

def RChain.fuel (c : RChain) : Nat := c.blocks.length + c.fetchable.length + 2

/-- `Extends(block, target)` -/
def RChain.extendsAux : Nat → RChain → Block → Block → RChain × Bool
  | 0, c, _, _ => (c, false)
  | fuel + 1, c, cur, target =>
    if cur.view > target.view then
      match c.get cur.parent with
      | (c', some p) => extendsAux fuel c' p target
      | (c', none) => (c', false)
    else (c, cur.hash == target.hash)

def RChain.extends (c : RChain) (b target : Block) : RChain × Bool := RChain.extendsAux c.fuel c b target

/-- first loop of `PruneToHeight` (with `fix: PruneToHeight identifies the committed branch by
hash`): hashes of the committed block and its stored ancestors down to the prune height -/
def RChain.committedHashesAux : Nat → RChain → Block → List Hash → List Hash
  | 0, _, _, acc => acc
  | fuel + 1, c, block, acc =>
    match c.blocks.lookup block.parent with
    | none => acc
    | some parent =>
      if parent.view < c.pruneHeight then acc
      else committedHashesAux fuel c parent (parent.hash :: acc)

/-- second loop of `PruneToHeight`: from `height` down to `pruneHeight + 1` -/
def RChain.pruneAux (committedHashes : List Hash) : Nat → Nat → RChain → List Block → RChain × List Block
  | 0, _, c, acc => (c, acc)
  | fuel + 1, h, c, acc =>
    if h > c.pruneHeight then
      let forked := match (c.atHeight.lookup h).bind (fun x => c.blocks.lookup x) with
        | some b => if committedHashes.contains b.hash then none else some b
        | none => none
      let acc' := match forked with | some b => acc ++ [b] | none => acc
      let c' := { c with atHeight := c.atHeight.filter (fun p => p.1 != h) }
      pruneAux committedHashes fuel (h - 1) c' acc'
    else (c, acc)

def RChain.pruneToHeight (c : RChain) (committed : Block) (height : Nat) : RChain × List Block :=
  let ch := RChain.committedHashesAux (c.fuel + 2) c committed [committed.hash]
  let (c', forked) := RChain.pruneAux ch (height + 1) height c []
  ({ c' with pruneHeight := height }, forked)

/-- ghost history (never read by the protocol code): what the replica signed, and why it moved -/
inductive GRec
  | vote (b : Block) (sender : Nat)          -- signed a vote for `b`, proposed by `sender`
  | tmo (view : Nat)                          -- signed a timeout for `view`
  | adv (fromView : Nat) (certView : Nat) (timeout : Bool)   -- left `fromView` on a certificate of `certView`
deriving Repr

structure RState where
  view : Nat := 1
  highQC : QC := genesisQC
  highTC : TC := ⟨none, 0⟩
  committed : Block := genesisBlock
  lastVoted : Nat := 0
  lastProposed : Nat := 0
  lock : Block := genesisBlock
  chain : RChain := {}
  timeouts : List TimeoutMsg := []
  lastTimeout : Option TimeoutMsg := none
  votes : List (Hash × List (Nat × Sig)) := []
  waitingVC : List Ev := []
  waitingProp : List Ev := []
  queue : List Ev := []
  nextCmd : Nat := 1
  truth : List (Nat × Atom) := []
  nextBytes : Nat := 1
  out : List Out := []
  ghost : List GRec := []
deriving Repr

abbrev M := StateM RState

def emit (o : Out) : M Unit := modify fun s => { s with out := s.out ++ [o] }
def addEvent (e : Ev) : M Unit := modify fun s => { s with queue := s.queue ++ [e] }

def tmoMsgKey : Nat → Nat → Option QC → Msg := fun id v q =>
  s!"tmo:{id}:{v}:" ++ (match q with | none => "-" | some q => reprStr q)

/-- the canonical key function for timeout bytes is supplied by the driver -/
structure Keys where
  tmo : Nat → Nat → Option QC → Msg

def env (k : Keys) (c : RCfg) (s : RState) : CertEnv :=
  { T := fun b => s.truth.lookup b, cfg := c.cfg, store := s.chain.blocks, tmoMsg := fun id v q => k.tmo id v (some q) }

/-- `blockchain.Get` inside the state monad (fetching changes the store) -/
def getBlock (h : Hash) : M (Option Block) := do
  let s ← get
  let (c', r) := s.chain.get h
  set { s with chain := c' }
  return r

/-- `auth.Sign(m)` by this replica -/
def signMsg (c : RCfg) (m : Msg) : M Sig := do
  emit (.sign m)
  if c.scheme == .bls12 then return blsSign c.id m
  let s ← get
  -- Ed25519 is deterministic: the same signer and message give the same bytes
  match (if c.scheme == .eddsa then s.truth.find? (fun p => p.2 == ⟨c.id, m⟩) else none) with
  | some p => return .multi c.scheme [⟨c.id, p.1⟩]
  | none =>
    set { s with truth := (s.nextBytes, ⟨c.id, m⟩) :: s.truth, nextBytes := s.nextBytes + 1 }
    return .multi c.scheme [⟨c.id, s.nextBytes⟩]

/-- Certificate verification may fetch the certified block (`blockchain.Get`): fetch first, then
use the pure verifier on the resulting store. -/
def fetchFor (h : Hash) : M Unit := do let _ ← getBlock h; pure ()

def verifyQCM (k : Keys) (c : RCfg) (q : QC) : M Bool := do
  if q.hash != genesisHash then
    match q.sig with
    | some sg => if !(sg.len < c.cfg.quorum) then fetchFor q.hash
    | none => pure ()
  let s ← get
  return verifyQC (env k c s) q

def verifyTCM (k : Keys) (c : RCfg) (t : TC) : M Bool := do
  let s ← get
  return verifyTC (env k c s) t

/-- `VerifyAggregateQC`: the candidate QCs are verified in descending view order until one passes;
each verification may fetch. -/
def verifyAggM (k : Keys) (c : RCfg) (a : AggQC) : M (VRes QC) := do
  match a.sig with
  | none => return .panic
  | some sg =>
    if sg.len < c.cfg.quorum then return .reject
    let s ← get
    let E := env k c s
    let messages := a.qcs.map (fun p => (p.1, E.tmoMsg p.1 a.view p.2))
    if !batchVerify E.T E.cfg sg messages then return .reject
    let rec go : List QC → M (VRes QC)
      | [] => pure .reject
      | q :: rest => do
        if ← verifyQCM k c q then pure (.ok q) else go rest
    go (sortDesc (a.qcs.map (·.2)))

def verifyAnyM (k : Keys) (c : RCfg) (blockQC : QC) (agg : Option AggQC) : M (VRes Unit) := do
  match (if c.agg then agg else none) with
  | some a =>
    match a.sig with
    | none => return .reject
    | some _ =>
      match ← verifyAggM k c a with
      | .panic => return .panic
      | .reject => return .reject
      | .ok high =>
        if !(blockQC.view == high.view && blockQC.hash == high.hash) then return .reject   -- `fix:` 7d9bd97
        if ← verifyQCM k c blockQC then return .ok () else return .reject
  | none => if ← verifyQCM k c blockQC then return .ok () else return .reject

/-! rules -/

def qcRef (q : QC) : M (Option Block) := if q.hash == "" then pure none else getBlock q.hash

def extendsM (b target : Block) : M Bool := do
  let s ← get
  let (c', r) := s.chain.extends b target
  set { s with chain := c' }
  return r

def voteRule (c : RCfg) (view : Nat) (b : Block) (agg : Option AggQC) : M Bool := do
  match c.rules with
  | .chained =>
    let qcBlock ← getBlock b.qc.hash
    let s ← get
    match qcBlock with
    | some q =>
      -- the block to lock on (CommitRule) must be obtainable
      if q.qc.hash != "" then
        if (← getBlock q.qc.hash).isNone then return false
      let s ← get
      if q.view > s.lock.view then return true else extendsM b s.lock
    | none => extendsM b s.lock
  | .simple =>
    if b.view < view then return false
    match ← getBlock b.qc.hash with
    | none => return false
    | some parent =>
      if parent.qc.hash != "" then
        if (← getBlock parent.qc.hash).isNone then return false
      let s ← get
      return !(parent.view < s.lock.view)
  | .fast =>
    match agg with
    | some a =>
      -- `fix:` 02b12f6 — the aggregate QC must stem from the preceding view (or a later one)
      if a.view + 1 < b.view then return false
      match ← getBlock b.qc.hash with
      | some hqc => extendsM b hqc
      | none => return false
    | none => return (decide (b.view ≥ view) && b.view == b.qc.view + 1)

def commitRule (c : RCfg) (b : Block) : M (Option Block) := do
  match c.rules with
  | .chained =>
    match ← qcRef b.qc with
    | none => return none
    | some b1 =>
    match ← qcRef b1.qc with
    | none => return none
    | some b2 =>
    modify fun s => { s with lock := if b2.view > s.lock.view then b2 else s.lock }
    match ← qcRef b2.qc with
    | none => return none
    | some b3 =>
    if b1.parent == b2.hash && b1.view == b2.view + 1 && b2.parent == b3.hash && b2.view == b3.view + 1 then
      return some b3
    else return none
  | .fast =>
    match ← qcRef b.qc with
    | none => return none
    | some parent =>
    match ← qcRef parent.qc with
    | none => return none
    | some gp =>
    if b.parent == parent.hash && b.view == parent.view + 1 && parent.parent == gp.hash && parent.view == gp.view + 1 then
      return some gp
    else return none
  | .simple =>
    match ← getBlock b.qc.hash with
    | none => return none
    | some p =>
    match ← getBlock p.qc.hash with
    | none => return none
    | some gp =>
    modify fun s => { s with lock := if gp.view > s.lock.view then gp else s.lock }
    match ← getBlock gp.qc.hash with
    | none => return none
    | some ggp =>
    -- with `fix: simple HotStuff commits only chains of consecutive views`
    if ggp.view + 2 == p.view && gp.view == ggp.view + 1 then return some ggp else return none

/-! committer -/

def commitInner : Nat → Block → M Bool
  | 0, _ => pure false
  | fuel + 1, b => do
    let s ← get
    if s.committed.view ≥ b.view then return true
    match ← getBlock b.parent with
    | none => return false
    | some parent =>
      if !(← commitInner fuel parent) then return false
      addEvent (.commit b)
      addEvent (.exec b)
      modify fun s => { s with committed := b }
      return true

def tryCommit (c : RCfg) (b : Block) : M Unit := do
  modify fun s => { s with chain := s.chain.store b }
  match ← commitRule c b with
  | none => pure ()
  | some toCommit =>
    let s ← get
    if !(← commitInner (s.chain.fuel + 1) toCommit) then return
    let s ← get
    let (c', forked) := s.chain.pruneToHeight s.committed toCommit.view
    set { s with chain := c' }
    for f in forked do addEvent (.abort f)

/-! voting machine (synchronous verification) and clique -/

def votesCleanup : M Unit := modify fun s =>
  { s with votes := s.votes.filter fun p =>
      match s.chain.localGet p.1 with
      | some b => !(b.view ≤ s.highQC.view)
      | none => false }

def collectVote (k : Keys) (c : RCfg) (id : Nat) (sig : Option Sig) (hash : Hash) (deferred : Bool) : M Unit := do
  match sig with
  | none => return
  | some sg =>
  if sg.len != 1 then return
  let block ←
    if !deferred then do
      let s ← get
      match s.chain.localGet hash with
      | none =>
        modify fun s => { s with waitingProp := s.waitingProp ++ [.vote id sig hash true] }
        return
      | some b => pure b
    else do
      match ← getBlock hash with
      | none => return
      | some b => pure b
  let s ← get
  if block.view ≤ s.highQC.view then return
  -- verifyCert
  let s ← get
  match verifyPC (env k c s) sig hash with
  | .ok () => pure ()
  | _ => return
  let s ← get
  let votes := (s.votes.lookup hash).getD []
  let signer := sg.first
  if votes.any (fun v => v.1 == signer) then votesCleanup; return
  let votes := votes ++ [(signer, sg)]
  modify fun s => { s with votes := (hash, votes) :: s.votes.filter (fun p => p.1 != hash) }
  if votes.length < c.cfg.quorum then votesCleanup; return
  -- CreateQuorumCert
  let qc? : Option QC :=
    if block.hash == genesisHash then some genesisQC
    else match combine c.cfg (votes.map (·.2)) with
      | .ok s => some ⟨some s, block.view, block.hash⟩
      | _ => none
  match qc? with
  | none => votesCleanup; return
  | some qc =>
    modify fun s => { s with votes := s.votes.filter (fun p => p.1 != hash) }
    addEvent (.newview c.id { qc := some qc })
    votesCleanup

def aggregateVote (k : Keys) (c : RCfg) (b : Block) (sg : Sig) : M Unit := do
  let leader := c.leader (b.view + 1)
  if leader == c.id then collectVote k c c.id (some sg) b.hash false
  else emit (.sendVote leader sg b.hash)

/-! voter / proposer -/

/-- `Voter.lastVotedQCView`: the highest view of a QC carried by a block voted for (the votes are the
vote records of the ghost history, in signing order) -/
def votedQCView (g : List GRec) : Nat :=
  g.foldl (fun m r => match r with | .vote b _ => max m b.qc.view | _ => m) 0

def voterVerify (k : Keys) (c : RCfg) (id : Nat) (b : Block) (agg : Option AggQC) : M (VRes Unit) := do
  let s ← get
  if b.view ≤ s.lastVoted then return .reject
  if !(← voteRule c b.view b agg) then return .reject
  match ← verifyAnyM k c b.qc agg with
  | .panic => return .panic
  | .reject => return .reject
  | .ok () =>
    -- `fix:` a77ccac — an aggregate-QC proposal must not build below a block already voted on
    let s ← get
    if agg.isSome && b.qc.view < votedQCView s.ghost then return .reject
    if b.parent != b.qc.hash then return .reject
    if b.qc.view ≥ b.view then return .reject
    if id != c.leader b.view then return .reject
    return .ok ()

def voteFor (c : RCfg) (b : Block) (sender : Nat) : M Sig := do
  let sg ← signMsg c (blkMsg b.hash)
  modify fun s => { s with lastVoted := b.view, ghost := s.ghost ++ [.vote b sender] }
  return sg

def onValidPropose (k : Keys) (c : RCfg) (id : Nat) (b : Block) : M Unit := do
  tryCommit c b
  let sg ← voteFor c b id
  aggregateVote k c b sg

def markProposed : Nat → Block → M Bool
  | 0, _ => pure false
  | fuel + 1, qcBlock => do
    let s ← get
    if qcBlock.view > s.lastProposed then
      match ← getBlock qcBlock.qc.hash with
      | none => return false
      | some nb => markProposed fuel nb
    else return true

/-- `CreateProposal` followed by `Propose` (what `advanceView` and `Start` do for a leader) -/
def createAndPropose (k : Keys) (c : RCfg) (si : SyncInfo) : M Unit := do
  let s ← get
  let view := s.view
  match ← getBlock s.highQC.hash with
  | none => return
  | some qcBlock =>
  let s ← get
  if !(← markProposed (s.chain.fuel + 1) qcBlock) then return
  modify fun s => { s with lastProposed := view }
  let s ← get
  let cmd := s!"{c.cmdClient}/{s.nextCmd}/c{s.nextCmd}"
  modify fun s => { s with nextCmd := s.nextCmd + 1 }
  match si.qc with
  | none => return
  | some qc =>
    let b : Block := { hash := s!"P{view}", parent := qc.hash, view := view, proposer := c.id, qc := qc, cmds := [cmd] }
    let agg := if c.rules == .fast then si.agg else none
    -- Propose
    match ← voterVerify k c c.id b agg with
    | .panic => emit .panic
    | .reject => return
    | .ok () =>
      let sg ← voteFor c b c.id
      tryCommit c b
      emit (.sendPropose b agg)
      aggregateVote k c b sg

/-! synchronizer -/

def verifySyncInfo (k : Keys) (c : RCfg) (si : SyncInfo) : M (VRes (Option QC × Nat × Bool)) := do
  let mut view := 0
  let mut timeout := false
  match si.tc with
  | some tc =>
    if !(← verifyTCM k c tc) then return .reject
    view := tc.view
    timeout := true
  | none => pure ()
  if c.agg then
    match si.agg with
    | some a =>
      match a.sig with
      | none => return .reject     -- `fix:` guard before VerifyAggregateQC
      | some _ =>
        match ← verifyAggM k c a with
        | .panic => return .panic
        | .reject => return .reject
        | .ok high =>
          if a.view ≥ view then
            view := a.view
            timeout := true
          return .ok (some high, view, timeout)
    | none =>
      -- `fix:` 4f3d40f — a plain QC does not end the view under this rule, but it is verified and
      -- reported as high QC
      match si.qc with
      | some qc =>
        if !(← verifyQCM k c qc) then return .reject
        return .ok (some qc, view, timeout)
      | none => return .ok (none, view, timeout)
  else
    match si.qc with
    | some qc =>
      if !(← verifyQCM k c qc) then return .reject
      if qc.view ≥ view then
        view := qc.view
        timeout := false
      return .ok (some qc, view, timeout)
    | none => return .ok (none, view, timeout)

def advanceView (k : Keys) (c : RCfg) (si : SyncInfo) : M Unit := do
  match ← verifySyncInfo k c si with
  | .panic => emit .panic
  | .reject => return
  | .ok (qc, view, timeout) =>
    let mut si := si
    -- UpdateHighTC: the highest verified timeout certificate travels in later timeout messages
    match si.tc with
    | some tc => modify fun s => { s with highTC := if tc.view > s.highTC.view then tc else s.highTC }
    | none => pure ()
    match qc with
    | some q =>
      -- UpdateHighQC
      match ← getBlock q.hash with
      | some nb => modify fun s => { s with highQC := if nb.view ≤ s.highQC.view then s.highQC else q }
      | none => pure ()
      let s ← get
      si := { si with qc := some s.highQC }
    | none => pure ()
    let s ← get
    if view < s.view then return
    -- `EnterViewAfter(view)`: the view after the certificate's, not just one view on
    let newView := view + 1
    modify fun s => { s with view := newView, lastTimeout := none, ghost := s.ghost ++ [.adv s.view view timeout] }
    addEvent (.viewChange newView timeout)
    let leader := c.leader newView
    if leader == c.id then createAndPropose k c si
    else emit (.sendNewView leader si)

def signedBy (sig : Option Sig) (id : Nat) : Bool :=
  match sig with
  | none => false
  | some s => id != 0 && s.len == 1 && s.participants.contains id

/-- `timeoutCollector.add` (per-view quorum) -/
def collectorAdd (quorum : Nat) (ts : List TimeoutMsg) (t : TimeoutMsg) : List TimeoutMsg × Option (List TimeoutMsg) :=
  if ts.any (fun x => x.view == t.view && x.id == t.id) then (ts, none)
  else
    let ts' := ts ++ [t]
    let same := ts'.filter (fun x => x.view == t.view)
    if same.length < quorum then (ts', none)
    else (ts'.filter (fun x => x.view != t.view), some same)

def onRemoteTimeout (k : Keys) (c : RCfg) (t : TimeoutMsg) : M Unit := do
  let s ← get
  let currView := s.view
  let body : M Unit := do
    if !signedBy t.viewSig t.id then return
    let s ← get
    let E := env k c s
    match t.viewSig with
    | none => return
    | some vs => if !verify E.T E.cfg vs (viewMsg t.view) then return
    if c.agg then
      -- the aggregate QC pairs every signer with its high QC: a timeout without one is not accepted
      if t.si.qc.isNone then return
      if !signedBy t.msgSig t.id then return
      match t.msgSig with
      | none => return
      | some ms => if !verify E.T E.cfg ms (k.tmo t.id t.view t.si.qc) then return
    advanceView k c t.si
    let s ← get
    let (ts', q) := collectorAdd c.cfg.quorum s.timeouts t
    set { s with timeouts := ts' }
    match q with
    | none => return
    | some list =>
      -- RemoteTimeoutRule
      let tc? : Option TC :=
        if t.view == 0 then some ⟨none, 0⟩
        else match list.mapM (·.viewSig) with
          | none => none
          | some sigs => match combine c.cfg sigs with
            | .ok sg => some ⟨some sg, t.view⟩
            | _ => none
      match tc? with
      | none => return
      | some tc =>
        let mut si : SyncInfo := { tc := some tc }
        if c.agg then
          let qcs := list.foldl (fun acc x => match x.si.qc with | some q => setKV x.id q acc | none => acc) []
          match combine c.cfg (list.filterMap (·.msgSig)) with
          | .ok sg => si := { si with agg := some ⟨qcs, some sg, t.view⟩ }
          | _ => return
        let s ← get
        si := { si with qc := some s.highQC }
        advanceView k c si
  body
  modify fun s => { s with timeouts := s.timeouts.filter (fun x => !(x.view < currView)) }

def onLocalTimeout (k : Keys) (c : RCfg) : M Unit := do
  let s ← get
  let view := s.view
  match s.lastTimeout with
  | some lt => if lt.view == view then emit (.sendTimeout lt); return
  | none => pure ()
  let si : SyncInfo := { qc := some s.highQC, tc := some s.highTC }
  let vs ← signMsg c (viewMsg view)
  let mut t : TimeoutMsg := ⟨c.id, view, some vs, none, si⟩
  if c.agg then
    let ms ← signMsg c (k.tmo c.id view si.qc)
    t := { t with msgSig := some ms }
  modify fun s => { s with lastTimeout := some t, lastVoted := if s.lastVoted < view then view else s.lastVoted,
                           ghost := s.ghost ++ [.tmo view] }
  emit (.sendTimeout t)
  onRemoteTimeout k c t

def onPropose (k : Keys) (c : RCfg) (id : Nat) (b : Block) (agg : Option AggQC) : M Unit := do
  advanceView k c { qc := some b.qc }
  let s ← get
  if b.view > s.view + 10 then return
  if b.view > s.view then
    modify fun s => { s with waitingVC := s.waitingVC ++ [.propose id b agg] }
    return
  match ← voterVerify k c id b agg with
  | .panic => emit .panic
  | .reject => return
  | .ok () => onValidPropose k c id b

/-- `Tick`: pop one event, run its handlers, then re-add the events deferred until its type -/
def tick (k : Keys) (c : RCfg) : M Bool := do
  let s ← get
  match s.queue with
  | [] => return false
  | e :: rest =>
    set { s with queue := rest }
    match e with
    | .propose id b agg =>
      onPropose k c id b agg
      let s ← get
      set { s with waitingProp := [], queue := s.queue ++ s.waitingProp }
    | .vote id sig hash d => collectVote k c id sig hash d
    | .timeout t => onRemoteTimeout k c t
    | .newview _ si => advanceView k c si
    | .localTimeout v =>
      let s ← get
      if s.view == v then onLocalTimeout k c
    | .viewChange v t =>
      emit (.viewChange v t)
      let s ← get
      set { s with waitingVC := [], queue := s.queue ++ s.waitingVC }
    | .commit b => emit (.commit b)
    | .exec b => emit (.exec b)
    | .abort b => emit (.abort b)
    return true

def runLoop (k : Keys) (c : RCfg) : Nat → M Unit
  | 0 => pure ()
  | fuel + 1 => do
    if ← tick k c then runLoop k c fuel

/-- deliver one event and run the loop to quiescence; returns the effects of this step -/
def step (k : Keys) (c : RCfg) (s : RState) (e : Ev) : RState × List Out :=
  let s0 := { s with out := [], queue := s.queue ++ [e] }
  let ((), s1) := (runLoop k c 100000).run s0
  ({ s1 with out := [] }, s1.out)

/-- `Synchronizer.Start`: the leader of view 1 proposes -/
def start (k : Keys) (c : RCfg) (s : RState) : RState × List Out :=
  let s0 := { s with out := [] }
  let act : M Unit := do
    let s ← get
    if s.view == 1 && c.leader 1 == c.id then
      createAndPropose k c { qc := some s.highQC, tc := some s.highTC }
    runLoop k c 100000
  let ((), s1) := act.run s0
  ({ s1 with out := [] }, s1.out)

/-! ## asynchronous vote verification

Without `WithSyncVerification`, `CollectVote` ends with `go vm.verifyCert(cert, block)`: the part up to
and including the `block too old` test runs on the event loop (`collectVotePre`), the rest — signature
verification outside the lock, then under `vm.mut` duplicate test, append, quorum test,
`CreateQuorumCert`, the `NewViewMsg` event and the deferred clean-up — runs later, in the state of that
later moment, with the block captured at arrival (`verifyCertM`).  `collectVote` itself (the synchronous
handler every proof chain unfolds) is untouched; `collectVote_eq_pre_then_verify` ties the two pieces
to it.  `verifyCert` is atomic (the whole of it below the verification holds `vm.mut`, the
verification is a pure function of signature and block), so asynchronous verification is an
interleaving of `verifyCertM` bodies with the handlers of the event loop. -/

/-- `CollectVote` up to `go vm.verifyCert(cert, block)`: `some block` = verification is started -/
def collectVotePre (id : Nat) (sig : Option Sig) (hash : Hash) (deferred : Bool) : M (Option Block) := do
  match sig with
  | none => return none
  | some sg =>
  if sg.len != 1 then return none
  let block ←
    if !deferred then do
      let s ← get
      match s.chain.localGet hash with
      | none =>
        modify fun s => { s with waitingProp := s.waitingProp ++ [.vote id sig hash true] }
        return none
      | some b => pure b
    else do
      match ← getBlock hash with
      | none => return none
      | some b => pure b
  let s ← get
  if block.view ≤ s.highQC.view then return none
  return some block

/-- `verifyCert(cert, block)` -/
def verifyCertM (k : Keys) (c : RCfg) (sig : Option Sig) (hash : Hash) (block : Block) : M Unit := do
  match sig with
  | none => return
  | some sg =>
  let s ← get
  match verifyPC (env k c s) sig hash with
  | .ok () => pure ()
  | _ => return
  let s ← get
  let votes := (s.votes.lookup hash).getD []
  let signer := sg.first
  if votes.any (fun v => v.1 == signer) then votesCleanup; return
  let votes := votes ++ [(signer, sg)]
  modify fun s => { s with votes := (hash, votes) :: s.votes.filter (fun p => p.1 != hash) }
  if votes.length < c.cfg.quorum then votesCleanup; return
  -- CreateQuorumCert
  let qc? : Option QC :=
    if block.hash == genesisHash then some genesisQC
    else match combine c.cfg (votes.map (·.2)) with
      | .ok s => some ⟨some s, block.view, block.hash⟩
      | _ => none
  match qc? with
  | none => votesCleanup; return
  | some qc =>
    modify fun s => { s with votes := s.votes.filter (fun p => p.1 != hash) }
    addEvent (.newview c.id { qc := some qc })
    votesCleanup

set_option linter.unusedSimpArgs false in
/-- the synchronous handler is the first piece followed at once by the second -/
theorem collectVote_eq_pre_then_verify (k : Keys) (c : RCfg) (id : Nat) (sig : Option Sig) (hash : Hash) (d : Bool) :
    collectVote k c id sig hash d =
      (do match ← collectVotePre id sig hash d with
          | none => pure ()
          | some b => verifyCertM k c sig hash b) := by
  funext s
  cases sig with
  | none => rfl
  | some sg =>
    by_cases h1 : sg.len = 1
    · cases d <;>
      simp [collectVote, collectVotePre, verifyCertM, getBlock, bind, pure, get, getThe, MonadStateOf.get,
        modify, modifyGet, MonadStateOf.modifyGet, set, h1] <;>
      simp only [StateT.bind, StateT.pure, StateT.get, StateT.modifyGet, StateT.set, bind, pure]
      · cases hl : s.chain.localGet hash with
        | none => rfl
        | some b =>
          simp only [StateT.bind, StateT.pure, StateT.get, StateT.modifyGet, StateT.set, bind, pure]
          by_cases hv : b.view ≤ s.highQC.view
          · simp only [hv, if_true, StateT.pure, pure]
          · simp only [hv, if_false, StateT.pure, pure] <;> rfl
      · cases hg : (s.chain.get hash).snd with
        | none => rfl
        | some b =>
          simp only [StateT.bind, StateT.pure, StateT.get, StateT.modifyGet, StateT.set, bind, pure]
          by_cases hv : b.view ≤ s.highQC.view
          · simp only [hv, if_true, StateT.pure, pure]
          · simp only [hv, if_false, StateT.pure, pure] <;> rfl
    · cases d <;>
      simp [collectVote, collectVotePre, verifyCertM, getBlock, bind, pure, get, getThe, MonadStateOf.get,
        modify, modifyGet, MonadStateOf.modifyGet, set, h1] <;> rfl

/-- a vote whose verification has been started and not finished: what the goroutine holds -/
structure HeldVote where
  id : Nat
  sig : Option Sig
  hash : Hash
  block : Block
deriving Repr

/-- `Tick` while vote verification is held back (the harness's closed gate): a vote event runs
`collectVotePre` only and the started verification joins the held ones — except a vote whose only
claimed signer is the replica itself, which the gate lets pass (as it does the replica's own vote,
handed to the voting machine in the middle of a handler by `aggregateVote`). -/
def tickHeld (k : Keys) (c : RCfg) (held : List HeldVote) : M (Bool × List HeldVote) := do
  let s ← get
  match s.queue with
  | .vote id sig hash d :: rest =>
    set { s with queue := rest }
    match ← collectVotePre id sig hash d with
    | none => return (true, held)
    | some b =>
      if sig.map (·.first) == some c.id then
        verifyCertM k c sig hash b
        return (true, held)
      else return (true, held ++ [⟨id, sig, hash, b⟩])
  | _ =>
    let r ← tick k c
    return (r, held)

def runLoopHeld (k : Keys) (c : RCfg) : Nat → List HeldVote → M (List HeldVote)
  | 0, held => pure held
  | fuel + 1, held => do
    let (r, held') ← tickHeld k c held
    if r then runLoopHeld k c fuel held' else pure held'

/-- `act`, then the event loop to quiescence — with the gate closed (`some held`) or open (`none`);
returns the effects of this step and the held verifications -/
def stepAsync (k : Keys) (c : RCfg) (s : RState) (act : M Unit) (held : Option (List HeldVote)) :
    (RState × List Out) × List HeldVote :=
  let s0 := { s with out := [] }
  let body : M (List HeldVote) := do
    act
    match held with
    | some h => runLoopHeld k c 100000 h
    | none => do runLoop k c 100000; pure []
  let (h', s1) := body.run s0
  (({ s1 with out := [] }, s1.out), h')

/-- what `start` does before the event loop runs -/
def startAct (k : Keys) (c : RCfg) : M Unit := do
  let s ← get
  if s.view == 1 && c.leader 1 == c.id then
    createAndPropose k c { qc := some s.highQC, tc := some s.highTC }

end HsVerif.Model
