/-! Byte-level model of the encodings that are hashed and signed:
`Multi.ToBytes` (security/crypto/multisignature.go), `QuorumCert.ToBytes`, `PartialCert.ToBytes`
(types.go), `TimeoutMsg.ToBytes` (events.go), `Block.ToBytes` (block.go) with the deterministic
protobuf form of the command batch (`clientpb.Batch.Marshal`, proto3: `repeated Command Commands = 1`,
`Command { uint32 ClientID = 1; uint64 SequenceNumber = 2; bytes Data = 3 }`).

A byte is a `Nat` below 256.  Signature bytes and hashes are parameters (opaque byte strings).
Tied to the code by the `bytes` family (harness/driver/fam_bytes.go, Drv/Bytes.lean); that the bytes
determine the object: Props/C12Bytes.lean. -/
namespace HsVerif.Model.Bytes

abbrev Bytes := List Nat

/-- `n` bytes, little endian (what `binary.LittleEndian.PutUint32/64` write of `x mod 256^n`) -/
def le : Nat → Nat → Bytes
  | 0, _ => []
  | n + 1, x => x % 256 :: le n (x / 256)

def u32 (x : Nat) : Bytes := le 4 x
def u64 (x : Nat) : Bytes := le 8 x

/-- one part of a multi-signature: the signer and the bytes of its signature -/
structure Part where
  id : Nat
  sig : Bytes
  deriving DecidableEq, Repr

/-- a quorum signature: a multi-signature (ECDSA, EdDSA: participants are the signers of the parts, in
order) or an aggregate with an explicit participant set in iteration order (BLS) -/
inductive QSig
  | multi (parts : List Part)
  | agg (ids : List Nat) (sig : Bytes)
  deriving DecidableEq, Repr

/-- `Multi.ToBytes`: every part with its signer and its length -/
def multiBytes (ps : List Part) : Bytes :=
  ps.flatMap fun p => u32 p.id ++ u32 p.sig.length ++ p.sig

def QSig.participants : QSig → List Nat
  | .multi ps => ps.map (·.id)
  | .agg ids _ => ids

def QSig.bytes : QSig → Bytes
  | .multi ps => multiBytes ps
  | .agg _ b => b

/-- a quorum certificate: claimed view, block hash (32 bytes), signature (may be nil) -/
structure QCv where
  view : Nat
  hash : Bytes
  sig : Option QSig
  deriving DecidableEq, Repr

/-- `QuorumCert.ToBytes`: view, hash, and — with a signature — the number of participants, their
ids, the signature bytes -/
def qcBytes (q : QCv) : Bytes :=
  u64 q.view ++ q.hash ++
    match q.sig with
    | none => []
    | some s => u32 s.participants.length ++ s.participants.flatMap u32 ++ s.bytes

/-- `PartialCert.ToBytes` -/
def pcBytes (hash : Bytes) (s : QSig) : Bytes := hash ++ s.bytes

/-- `TimeoutMsg.ToBytes`: sender, view, the QC of the sync info if there is one -/
def tmoBytes (id view : Nat) (qc : Option QCv) : Bytes :=
  u32 id ++ u64 view ++ match qc with | none => [] | some q => qcBytes q

/-- protobuf base-128 varint (fuel: 10 groups cover 64 bits; lengths and ids are far below) -/
def varintAux : Nat → Nat → Bytes
  | 0, n => [n % 128]
  | f + 1, n => if n < 128 then [n] else (n % 128 + 128) :: varintAux f (n / 128)

def varint (n : Nat) : Bytes := varintAux 9 n

structure Cmd where
  client : Nat
  seq : Nat
  data : Bytes
  deriving DecidableEq, Repr

/-- proto3 form of a `Command`: zero / empty fields are omitted -/
def cmdBytes (c : Cmd) : Bytes :=
  (if c.client = 0 then [] else 0x08 :: varint c.client) ++
  (if c.seq = 0 then [] else 0x10 :: varint c.seq) ++
  (if c.data = [] then [] else 0x1a :: (varint c.data.length ++ c.data))

/-- `Batch.Marshal`: every command as field 1, length-delimited -/
def batchBytes (cs : List Cmd) : Bytes :=
  cs.flatMap fun c => 0x0a :: (varint (cmdBytes c).length ++ cmdBytes c)

structure Blk where
  parent : Bytes
  proposer : Nat
  view : Nat
  cmds : List Cmd
  qc : QCv
  ts : Nat
  deriving DecidableEq, Repr

/-- `Block.ToBytes`: parent, proposer, view, LENGTH of the batch, batch, certificate, timestamp -/
def blockBytes (b : Blk) : Bytes :=
  b.parent ++ u32 b.proposer ++ u64 b.view ++ u64 (batchBytes b.cmds).length ++ batchBytes b.cmds ++
    qcBytes b.qc ++ u64 b.ts

/-- the layout before repair 6e1f39b: no length in front of the batch -/
def blockBytesOld (b : Blk) : Bytes :=
  b.parent ++ u32 b.proposer ++ u64 b.view ++ batchBytes b.cmds ++ qcBytes b.qc ++ u64 b.ts

/-- the layouts before the repairs 2c93c32 (bare concatenation of the parts) and 9a59775 (no
participants in the bytes of a certificate) -/
def multiBytesOld (ps : List Part) : Bytes := ps.flatMap (·.sig)

def QSig.bytesOld : QSig → Bytes
  | .multi ps => multiBytesOld ps
  | .agg _ b => b

def qcBytesOld (q : QCv) : Bytes :=
  u64 q.view ++ q.hash ++ match q.sig with | none => [] | some s => s.bytesOld

end HsVerif.Model.Bytes
