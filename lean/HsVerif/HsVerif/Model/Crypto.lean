import HsVerif.Model.IDSet
import HsVerif.Model.Quorum
/-
Symbolic (Dolev–Yao) model of security/crypto/{ecdsa,eddsa,bls12}.go: `Sign`, `Combine`,
`Verify`, `BatchVerify`, on wire-shaped signature values (DESIGN.md §2).

* A message is an opaque byte string, named by a `Msg` key (injective naming assumed: SHA-256 and
  the `ToBytes` encodings are collision free).
* ECDSA/EdDSA: a `Multi` is a *list* of entries `(claimed signer, signature bytes)`; the bytes are
  opaque names, and the ground-truth table `T : bytes → Option Atom` says which replica really
  produced them over which message (`none` = garbage).  EUF-CMA is the assumption that only
  replica `i` can create bytes `b` with `T b = some ⟨i, _⟩`.
* BLS: an aggregate is a formal sum of atoms plus junk terms (a point that is not such a sum),
  with the claimed participant bit-field beside it.  The pairing check is assumed to hold iff the
  formal sum equals the sum expected from the claimed keys and messages (proof-of-possession rules
  out rogue keys; no accidental algebraic relations).

This file models the code with the repairs `fix: reject duplicate signers` (ECDSA/EdDSA) and
`fix: reject BLS signature without participants` applied.
-/
namespace HsVerif.Model

abbrev Msg := String

structure Atom where
  signer : Nat
  msg : Msg
deriving DecidableEq, Repr

inductive Scheme | ecdsa | eddsa | bls12
deriving DecidableEq, Repr

structure Entry where
  claimed : Nat
  bytes : Nat
deriving DecidableEq, Repr

inductive Sig
  | multi (k : Scheme) (es : List Entry)
  | bls (atoms : List Atom) (junk : List Nat) (bits : Bitfield)
deriving Repr, DecidableEq

structure Cfg where
  n : Nat
  scheme : Scheme
deriving Repr

/-- `config.ReplicaInfo(id)` succeeds: ids are 1..n. -/
def Cfg.has (c : Cfg) (i : Nat) : Bool := decide (1 ≤ i) && decide (i ≤ c.n)

def Cfg.quorum (c : Cfg) : Nat := quorumSize c.n

/-- `Participants()` as a list: entry order for Multi, ascending for the bit-field. -/
def Sig.participants : Sig → List Nat
  | .multi _ es => es.map (·.claimed)
  | .bls _ _ bits => bits.ids

/-- `Participants().Len()`. -/
def Sig.len : Sig → Nat
  | .multi _ es => es.length
  | .bls _ _ bits => bits.len

/-- first participant (what `NewPartialCert` records as signer); 0 when there is none. -/
def Sig.first (s : Sig) : Nat := s.participants.headD 0

def hasDup : List Nat → Bool
  | [] => false
  | x :: xs => xs.contains x || hasDup xs

abbrev Truth := Nat → Option Atom

/-- `verifySingle`: known replica, and the bytes are that replica's signature over `m`. -/
def verifySingle (T : Truth) (c : Cfg) (e : Entry) (m : Msg) : Bool :=
  c.has e.claimed && (T e.bytes == some ⟨e.claimed, m⟩)

/-- `Verify`. -/
def verify (T : Truth) (c : Cfg) : Sig → Msg → Bool
  | .multi k es, m =>
    k == c.scheme && k != .bls12 && !es.isEmpty && !hasDup (es.map (·.claimed)) &&
      es.all (fun e => verifySingle T c e m)
  | .bls atoms junk bits, m =>
    c.scheme == .bls12 && bits.len != 0 &&
    (if bits.len == 1 then
      c.has bits.first && junk.isEmpty && atoms.isPerm [⟨bits.first, m⟩]
     else
      bits.ids.all c.has && junk.isEmpty && atoms.isPerm (bits.ids.map (fun i => ⟨i, m⟩)))

def distinctCount : List Msg → Nat
  | [] => 0
  | m :: ms => if ms.contains m then distinctCount ms else distinctCount ms + 1

/-- `BatchVerify`; the batch is a Go map: an association list with distinct keys. -/
def batchVerify (T : Truth) (c : Cfg) : Sig → List (Nat × Msg) → Bool
  | .multi k es, batch =>
    k == c.scheme && k != .bls12 && !es.isEmpty && !hasDup (es.map (·.claimed)) &&
      es.all (fun e => match batch.lookup e.claimed with
        | none => false
        | some m => verifySingle T c e m) &&
      (distinctCount (es.filterMap (fun e => batch.lookup e.claimed)) == batch.length)
  | .bls atoms junk bits, batch =>
    c.scheme == .bls12 && bits.len == batch.length && batch.all (fun p => c.has p.1) &&
    (if batch.length == 1 then
      junk.isEmpty && atoms.isPerm (batch.map (fun p => ⟨p.1, p.2⟩))
     else
      distinctCount (batch.map (·.2)) == batch.length && decide (1 ≤ batch.length) &&
      junk.isEmpty && atoms.isPerm (batch.map (fun p => ⟨p.1, p.2⟩)))

/-- `Sign` by replica `r` (BLS; deterministic). ECDSA/EdDSA signing allocates fresh bytes and is
done by the driver, which extends the truth table. -/
def blsSign (r : Nat) (m : Msg) : Sig := .bls [⟨r, m⟩] [] (Bitfield.empty.add r)

inductive CombineRes | ok (s : Sig) | multiple | overlap | mismatch
deriving Repr

def allMulti (k : Scheme) : List Sig → Option (List (List Entry))
  | [] => some []
  | .multi k' es :: rest => if k' == k then (allMulti k rest).map (es :: ·) else none
  | _ :: _ => none

def allBls : List Sig → Option (List (List Atom × List Nat × Bitfield))
  | [] => some []
  | .bls a j b :: rest => (allBls rest).map ((a, j, b) :: ·)
  | _ :: _ => none

def multiAppendE : List Entry → List Entry → Option (List Entry)
  | acc, [] => some acc
  | acc, e :: es => if (acc.map (·.claimed)).contains e.claimed then none else multiAppendE (acc ++ [e]) es

def multiCombineE : List Entry → List (List Entry) → Option (List Entry)
  | acc, [] => some acc
  | acc, s :: rest => match multiAppendE acc s with
    | none => none
    | some acc' => multiCombineE acc' rest

/-- `Combine` as coded: the `len < 2` test comes first, then per-signature type test and overlap. -/
def combine (c : Cfg) (sigs : List Sig) : CombineRes :=
  if sigs.length < 2 then .multiple else
  match c.scheme with
  | .bls12 =>
    match allBls sigs with
    | none => .mismatch
    | some l =>
      match blsCombineAux Bitfield.empty (l.map (·.2.2)) with
      | none => .overlap
      | some bits => .ok (.bls (l.flatMap (·.1)) (l.flatMap (·.2.1)) bits)
  | k =>
    match allMulti k sigs with
    | none => .mismatch
    | some l =>
      match multiCombineE [] l with
      | none => .overlap
      | some es => .ok (.multi k es)

end HsVerif.Model
