import HsVerif.Drv.Core
import HsVerif.Model.Replica
/-! Model driver + oracle for the `collector` family (C08): `timeoutCollector.add` / `deleteOldViews`. -/
namespace HsVerif.Drv
open HsVerif.Model

structure CollSt where
  quorum : Nat := 0
  ts : List TimeoutMsg := []

def descTs (ts : List TimeoutMsg) : String :=
  "[" ++ String.join (ts.map fun t => s!"({t.view},{t.id})") ++ "]"

def collStep (s : CollSt) (toks : List String) : CollSt × String :=
  match toks with
  | ["n", n] => match n.toNat? with
    | some n => if 1 ≤ n && n ≤ 100 then ({ quorum := quorumSize n, ts := [] }, "ok") else (s, "bad-op")
    | none => (s, "bad-op")
  | ["add", v, id] =>
    match v.toNat?, id.toNat? with
    | some v, some id =>
      if s.quorum == 0 then (s, "bad-op") else
      let (ts', r) := collectorAdd s.quorum s.ts ⟨id, v, none, none, {}⟩
      ({ s with ts := ts' }, (match r with | none => "none" | some l => "quorum " ++ descTs l) ++ " ; held=" ++ descTs ts')
    | _, _ => (s, "bad-op")
  | ["delete-old", v] =>
    match v.toNat? with
    | some v =>
      if s.quorum == 0 then (s, "bad-op") else
      let ts' := s.ts.filter (fun x => !(x.view < v))
      ({ s with ts := ts' }, "held=" ++ descTs ts')
    | none => (s, "bad-op")
  | _ => (s, "bad-op")

-- @family "collector" collectorFam
def collectorFam : Fam := { σ := CollSt, init := {}, step := collStep }

/-- Oracle: the ideal collector is a map view ↦ set of sender ids (since the view's last quorum);
a quorum is reported for view v exactly when that set reaches the quorum size, and consists of
exactly that set. -/
structure CollOr where
  quorum : Nat := 0
  sets : List (Nat × List Nat) := []      -- view ↦ ids in arrival order

def getSet (sets : List (Nat × List Nat)) (v : Nat) : List Nat := (sets.lookup v).getD []
def putSet (sets : List (Nat × List Nat)) (v : Nat) (l : List Nat) : List (Nat × List Nat) :=
  (v, l) :: sets.filter (fun p => p.1 != v)

def collOracleStep (s : CollOr) (toks : List String) : CollOr × String :=
  let (lhs, rhs) := splitArrow toks
  match lhs with
  | ["n", n] => ({ quorum := match n.toNat? with | some n => quorumSize n | none => 0, sets := [] }, "pass")
  | ["add", v, id] =>
    match v.toNat?, id.toNat? with
    | some v, some id =>
      let cur := getSet s.sets v
      if cur.contains id then
        (s, if rhs.head? == some "none" then "pass" else s!"fail collector-duplicate-counted ({v},{id}): {" ".intercalate rhs}")
      else
        let now := cur ++ [id]
        if now.length ≥ s.quorum then
          let want := "quorum [" ++ String.join (now.map fun i => s!"({v},{i})") ++ "]"
          ({ s with sets := putSet s.sets v [] },
            if rhs.take 2 == ["quorum", "[" ++ String.join (now.map fun i => s!"({v},{i})") ++ "]"] then "pass"
            else s!"fail collector-quorum view {v}: want {want} got {" ".intercalate rhs}")
        else
          ({ s with sets := putSet s.sets v now },
            if rhs.head? == some "none" then "pass" else s!"fail collector-early-quorum view {v} has {now.length} of {s.quorum}: {" ".intercalate rhs}")
    | _, _ => (s, "pass")
  | ["delete-old", v] =>
    match v.toNat? with
    | some v => ({ s with sets := s.sets.filter (fun p => !(p.1 < v)) }, "pass")
    | none => (s, "pass")
  | _ => (s, "pass")

-- @family "collector.oracle" collectorOracle
def collectorOracle : Fam := { σ := CollOr, init := {}, step := collOracleStep }

end HsVerif.Drv
