import HsVerif.Drv.Replica
/-! Model driver for the `cluster` family (C01, C05, C06): several replicas (Model/Replica.lean)
sharing one symbolic crypto world, connected by per-link FIFO queues that the script pumps, drops
or bypasses with crafted (Byzantine) messages.  Rendering per replica is the replica family's. -/
namespace HsVerif.Drv
open HsVerif.Model

structure NodeSt where
  id : Nat
  cfg : RCfg
  r : RState := {}
  nwire : Nat := 0
  fetchPeers : Bool := false

structure ClusterSt where
  w : WireSt := {}
  nodes : List NodeSt := []
  links : List ((Nat × Nat) × List Ev) := []

def ClusterSt.node (s : ClusterSt) (i : Nat) : Option NodeSt := s.nodes.find? (·.id == i)

def ClusterSt.setNode (s : ClusterSt) (nd : NodeSt) : ClusterSt :=
  { s with nodes := s.nodes.map fun x => if x.id == nd.id then nd else x }

def ClusterSt.queue (s : ClusterSt) (a b : Nat) : List Ev := (s.links.lookup (a, b)).getD []

def ClusterSt.setQueue (s : ClusterSt) (a b : Nat) (q : List Ev) : ClusterSt :=
  { s with links := ((a, b), q) :: s.links.filter (fun p => p.1 != (a, b)) }

def ClusterSt.enqueue (s : ClusterSt) (a b : Nat) (e : Ev) : ClusterSt :=
  if (s.node b).isSome && a != b then s.setQueue a b (s.queue a b ++ [e]) else s

/-- what the network does with the effects of node `i` -/
def route (s : ClusterSt) (i : Nat) (outs : List Out) : ClusterSt :=
  outs.foldl (fun s o =>
    match o with
    | .sendPropose b agg => s.nodes.foldl (fun s nd => s.enqueue i nd.id (.propose i b agg)) s
    | .sendVote to sg h => s.enqueue i to (.vote i (some sg) h false)
    | .sendTimeout t => s.nodes.foldl (fun s nd => s.enqueue i nd.id (.timeout t)) s
    | .sendNewView to si => s.enqueue i to (.newview i si)
    | _ => s) s

/-- blocks node `i` can fetch from its peers' stores -/
def peerBlocks (s : ClusterSt) (i : Nat) : List (Hash × Block) :=
  (s.nodes.filter (·.id != i)).flatMap fun nd => nd.r.chain.blocks

def asReplica (s : ClusterSt) (nd : NodeSt) : ReplicaSt :=
  let ch := nd.r.chain
  let ch' := if nd.fetchPeers then { ch with fetchable := ch.fetchable ++ peerBlocks s nd.id } else ch
  { w := s.w, cfg := some nd.cfg, r := { nd.r with chain := ch' }, nwire := nd.nwire, pfx := s!"r{nd.id}" }

/-- write a replica-level result back; the explicit fetchable list is kept, the peers' part is not -/
def fromReplica (s : ClusterSt) (nd : NodeSt) (st : ReplicaSt) (keepFetch : Bool) : ClusterSt :=
  let ch := st.r.chain
  let ch' := if keepFetch then ch else { ch with fetchable := nd.r.chain.fetchable }
  let s1 := ({ s with w := st.w }).setNode { nd with r := { st.r with chain := ch' }, nwire := st.nwire }
  route s1 nd.id st.lastOuts

def nodeOp (s : ClusterSt) (nd : NodeSt) (toks : List String) : ClusterSt × String :=
  match toks with
  | "fetchable" :: _ =>
    -- explicit per-block fetchability: no peers mixed in
    let st := { asReplica s nd with r := nd.r }
    let (st', out) := replicaStep st toks
    (fromReplica s nd { st' with lastOuts := [] } true, out)
  | _ =>
    let st := { asReplica s nd with lastOuts := [] }
    let (st', out) := replicaStep st toks
    (fromReplica s nd st' false, out)

def deliverEv (s : ClusterSt) (nd : NodeSt) (e : Ev) : ClusterSt × String :=
  let st := { asReplica s nd with lastOuts := [] }
  let (st', out) := finish st nd.cfg (step keys nd.cfg st.sync e)
  (fromReplica s nd st' false, out)

def pumpLoop : Nat → ClusterSt → Nat → Nat → List String → ClusterSt × List String
  | 0, s, _, _, acc => (s, acc)
  | k + 1, s, a, b, acc =>
    match s.queue a b, s.node b with
    | e :: rest, some nd =>
      let s1 := s.setQueue a b rest
      let (s2, out) := deliverEv s1 nd e
      pumpLoop k s2 a b (acc ++ [out])
    | _, _ => (s, acc)

def queuesDesc (s : ClusterSt) : String :=
  let ids := s.nodes.map (·.id)
  joinWith " " (ids.flatMap fun a => ids.filterMap fun b =>
    if a == b then none else some s!"{a}>{b}:{(s.queue a b).length}")

def clusterStep (s : ClusterSt) (toks : List String) : ClusterSt × String :=
  match toks with
  | "cfg" :: _ =>
    let (w', out) := wireStep {} toks
    ({ w := w' }, out)
  | "node" :: i :: rest =>
    match s.w.c.replica i, (field "rules" rest).bind rulesOf with
    | some i, some rules =>
      if !s.w.c.ready || (s.node i).isSome then (s, "bad-op") else
      if rules == .fast && !s.w.c.agg then (s, "bad-op") else
      let leaders := match field "leader" rest with
        | some l => if l.startsWith "fixed:" then LeaderKind.fixed ((dropStr 6 l).toNat?.getD 0) else .roundRobin
        | none => .roundRobin
      let cfg : RCfg := { n := s.w.c.cfg.n, id := i, rules := rules, agg := s.w.c.agg, scheme := s.w.c.cfg.scheme,
                          leaders := leaders, cmdClient := 100 + i }
      ({ s with nodes := s.nodes ++ [{ id := i, cfg := cfg }] }, "ok")
    | _, _ => (s, "bad-op")
  | ["fetch", i, onoff] =>
    match i.toNat?.bind s.node with
    | some nd => if onoff == "on" || onoff == "off" then (s.setNode { nd with fetchPeers := onoff == "on" }, "ok") else (s, "bad-op")
    | none => (s, "bad-op")
  | "pump" :: a :: b :: rest =>
    match a.toNat?, b.toNat?.bind s.node with
    | some a, some nd =>
      let k := (natField "max" rest).getD 1000
      let (s', outs) := pumpLoop k s a nd.id []
      (s', if outs.isEmpty then "idle" else joinWith " || " outs)
    | _, _ => (s, "bad-op")
  | "drop" :: a :: b :: rest =>
    match a.toNat?, b.toNat?.bind s.node with
    | some a, some nd =>
      let k := (natField "max" rest).getD 1000
      let q := s.queue a nd.id
      (s.setQueue a nd.id (q.drop k), s!"dropped={min k q.length}")
    | _, _ => (s, "bad-op")
  | ["queues"] => (s, queuesDesc s)
  | t :: rest =>
    if t.startsWith "@" then
      match (dropStr 1 t).toNat?.bind s.node with
      | some nd =>
        if rest.isEmpty || ["cfg", "replica", "wire"].contains (rest.headD "") then (s, "bad-op") else nodeOp s nd rest
      | none => (s, "bad-op")
    else
      let (w', out) := wireStep s.w toks
      ({ s with w := w' }, out)
  | [] => (s, "bad-op")

-- @family "cluster" clusterFam
def clusterFam : Fam := { σ := ClusterSt, init := {}, step := clusterStep }

end HsVerif.Drv
