import HsVerif.Drv.Replica
/-! Model driver for the `cluster` family (C01, C05, C06): several replicas (Model/Replica.lean)
sharing one symbolic crypto world, connected by per-link FIFO queues that the script pumps, drops
or bypasses with crafted (Byzantine) messages.  Rendering per replica is the replica family's. -/
namespace HsVerif.Drv
open HsVerif.Model

structure NodeSt where
  id : Nat
  cfg : RCfg
  r : RState := {}
  nwire : Nat := 0
  fetchPeers : Bool := false

structure ClusterSt where
  w : WireSt := {}
  nodes : List NodeSt := []
  links : List ((Nat × Nat) × List Ev) := []

def ClusterSt.node (s : ClusterSt) (i : Nat) : Option NodeSt := s.nodes.find? (·.id == i)

def ClusterSt.setNode (s : ClusterSt) (nd : NodeSt) : ClusterSt :=
  { s with nodes := s.nodes.map fun x => if x.id == nd.id then nd else x }

def ClusterSt.queue (s : ClusterSt) (a b : Nat) : List Ev := (s.links.lookup (a, b)).getD []

def ClusterSt.setQueue (s : ClusterSt) (a b : Nat) (q : List Ev) : ClusterSt :=
  { s with links := ((a, b), q) :: s.links.filter (fun p => p.1 != (a, b)) }

def ClusterSt.enqueue (s : ClusterSt) (a b : Nat) (e : Ev) : ClusterSt :=
  if (s.node b).isSome && a != b then s.setQueue a b (s.queue a b ++ [e]) else s

/-- what the network does with the effects of node `i` -/
def route (s : ClusterSt) (i : Nat) (outs : List Out) : ClusterSt :=
  outs.foldl (fun s o =>
    match o with
    | .sendPropose b agg => s.nodes.foldl (fun s nd => s.enqueue i nd.id (.propose i b agg)) s
    | .sendVote to sg h => s.enqueue i to (.vote i (some sg) h false)
    | .sendTimeout t => s.nodes.foldl (fun s nd => s.enqueue i nd.id (.timeout t)) s
    | .sendNewView to si => s.enqueue i to (.newview i si)
    | _ => s) s

/-- blocks node `i` can fetch from its peers' stores -/
def peerBlocks (s : ClusterSt) (i : Nat) : List (Hash × Block) :=
  (s.nodes.filter (·.id != i)).flatMap fun nd => nd.r.chain.blocks

def asReplica (s : ClusterSt) (nd : NodeSt) : ReplicaSt :=
  let ch := nd.r.chain
  let ch' := if nd.fetchPeers then { ch with fetchable := ch.fetchable ++ peerBlocks s nd.id } else ch
  { w := s.w, cfg := some nd.cfg, r := { nd.r with chain := ch' }, nwire := nd.nwire, pfx := s!"r{nd.id}" }

/-- write a replica-level result back; the explicit fetchable list is kept, the peers' part is not -/
def fromReplica (s : ClusterSt) (nd : NodeSt) (st : ReplicaSt) (keepFetch : Bool) : ClusterSt :=
  let ch := st.r.chain
  let ch' := if keepFetch then ch else { ch with fetchable := nd.r.chain.fetchable }
  let s1 := ({ s with w := st.w }).setNode { nd with r := { st.r with chain := ch' }, nwire := st.nwire }
  route s1 nd.id st.lastOuts

def nodeOp (s : ClusterSt) (nd : NodeSt) (toks : List String) : ClusterSt × String :=
  match toks with
  | "fetchable" :: _ =>
    -- explicit per-block fetchability: no peers mixed in
    let st := { asReplica s nd with r := nd.r }
    let (st', out) := replicaStep st toks
    (fromReplica s nd { st' with lastOuts := [] } true, out)
  | _ =>
    let st := { asReplica s nd with lastOuts := [] }
    let (st', out) := replicaStep st toks
    (fromReplica s nd st' false, out)

def deliverEv (s : ClusterSt) (nd : NodeSt) (e : Ev) : ClusterSt × String :=
  let st := { asReplica s nd with lastOuts := [] }
  let (st', out) := finish st nd.cfg (step keys nd.cfg st.sync e)
  (fromReplica s nd st' false, out)

def pumpLoop : Nat → ClusterSt → Nat → Nat → List String → ClusterSt × List String
  | 0, s, _, _, acc => (s, acc)
  | k + 1, s, a, b, acc =>
    match s.queue a b, s.node b with
    | e :: rest, some nd =>
      let s1 := s.setQueue a b rest
      let (s2, out) := deliverEv s1 nd e
      pumpLoop k s2 a b (acc ++ [out])
    | _, _ => (s, acc)

def queuesDesc (s : ClusterSt) : String :=
  let ids := s.nodes.map (·.id)
  joinWith " " (ids.flatMap fun a => ids.filterMap fun b =>
    if a == b then none else some s!"{a}>{b}:{(s.queue a b).length}")

def clusterStep (s : ClusterSt) (toks : List String) : ClusterSt × String :=
  match toks with
  | "cfg" :: _ =>
    let (w', out) := wireStep {} toks
    ({ w := w' }, out)
  | "node" :: i :: rest =>
    match s.w.c.replica i, (field "rules" rest).bind rulesOf with
    | some i, some rules =>
      if !s.w.c.ready || (s.node i).isSome then (s, "bad-op") else
      if rules == .fast && !s.w.c.agg then (s, "bad-op") else
      let leaders := match field "leader" rest with
        | some l => if l.startsWith "fixed:" then LeaderKind.fixed ((dropStr 6 l).toNat?.getD 0) else .roundRobin
        | none => .roundRobin
      let cfg : RCfg := { n := s.w.c.cfg.n, id := i, rules := rules, agg := s.w.c.agg, scheme := s.w.c.cfg.scheme,
                          leaders := leaders, cmdClient := 100 + i }
      ({ s with nodes := s.nodes ++ [{ id := i, cfg := cfg }] }, "ok")
    | _, _ => (s, "bad-op")
  | ["fetch", i, onoff] =>
    match i.toNat?.bind s.node with
    | some nd => if onoff == "on" || onoff == "off" then (s.setNode { nd with fetchPeers := onoff == "on" }, "ok") else (s, "bad-op")
    | none => (s, "bad-op")
  | "pump" :: a :: b :: rest =>
    match a.toNat?, b.toNat?.bind s.node with
    | some a, some nd =>
      let k := (natField "max" rest).getD 1000
      let (s', outs) := pumpLoop k s a nd.id []
      (s', if outs.isEmpty then "idle" else joinWith " || " outs)
    | _, _ => (s, "bad-op")
  | "drop" :: a :: b :: rest =>
    match a.toNat?, b.toNat?.bind s.node with
    | some a, some nd =>
      let k := (natField "max" rest).getD 1000
      let q := s.queue a nd.id
      (s.setQueue a nd.id (q.drop k), s!"dropped={min k q.length}")
    | _, _ => (s, "bad-op")
  | ["queues"] => (s, queuesDesc s)
  | "mark" :: _ => (s, "ok")        -- phase marker for the oracles (no effect)
  | ["qcof", name, blk] =>
    -- the certificate a (proposed, hence public) block carries, under a name of its own
    match s.w.c.blocks.lookup blk with
    | some b => ({ s with w := { s.w with c := { s.w.c with qcs := (name, b.qc) :: s.w.c.qcs } } }, "ok")
    | none => (s, "bad-op")
  | t :: rest =>
    if t.startsWith "@" then
      match (dropStr 1 t).toNat?.bind s.node with
      | some nd =>
        if rest.isEmpty || ["cfg", "replica", "wire"].contains (rest.headD "") then (s, "bad-op") else nodeOp s nd rest
      | none => (s, "bad-op")
    else
      let (w', out) := wireStep s.w toks
      ({ s with w := w' }, out)
  | [] => (s, "bad-op")

-- @family "cluster" clusterFam
def clusterFam : Fam := { σ := ClusterSt, init := {}, step := clusterStep }

end HsVerif.Drv

namespace HsVerif.Drv
open HsVerif.Model

/-! Safety oracle for the cluster (C01), judged on the IMPLEMENTATION's answers and the script
alone (no model transition is consulted): every replica's commit log is a chain from genesis
(each committed block's parent is the block committed before it), any two replicas' logs are
prefix-related, and every vote obeys the lock rule relative to the replica's earlier votes.
Blocks are known from the script's `block` / `wblock` lines and from the `propose(...)` effects the
implementation reports.  The ledger verdict is void (pass) when the script signs with the key of a
replica that has a node, or with the keys of more than f replicas: outside the fault model. -/
structure ClusterOr where
  n : Nat := 0
  nodes : List (Nat × Bool) := []            -- node ↦ ruleset keeps a lock (chained / simple)
  blocks : List (String × (Nat × String)) := [("G", (0, "G"))]   -- name ↦ (view, parent name)
  logs : List (Nat × List String) := []      -- node ↦ committed block names, oldest first
  signedBy : List Nat := []                  -- ids whose keys the script used
  voted : List (Nat × List String) := []     -- node ↦ names of the blocks it signed, oldest first

def isPrefixStr : List String → List String → Bool
  | [], _ => true
  | _ :: _, [] => false
  | a :: as, b :: bs => a == b && isPrefixStr as bs

def commitsOf (part : List String) : List String :=
  part.filterMap fun t => stripParen "commit(" t

/-- "propose(P6,v=6,parent=W5,qc=..." ↦ (P6, 6, W5) -/
def proposeOf (t : String) : Option (String × Nat × String) :=
  if !t.startsWith "propose(" then none else
  match splitChar ',' (dropStr 8 t) with
  | nm :: v :: par :: _ =>
    if v.startsWith "v=" && par.startsWith "parent=" then (dropStr 2 v).toNat?.map fun vv => (nm, vv, dropStr 7 par) else none
  | _ => none

def extName (blocks : List (String × (Nat × String))) : Nat → String → String → Bool
  | 0, _, _ => false
  | k + 1, w, l =>
    let viewOf (x : String) : Nat := ((blocks.lookup x).map (·.1)).getD 0
    w == l || (viewOf w > viewOf l && extName blocks k (((blocks.lookup w).map (·.2)).getD "?") l)

def clusterOracleStep (o : ClusterOr) (toks : List String) : ClusterOr × String :=
  let (lhs, rhs) := splitArrow toks
  let okAns := rhs.head? == some "ok"
  match lhs with
  | "cfg" :: _ :: n :: _ => ({ n := n.toNat?.getD 0 }, "pass")
  | "node" :: i :: rest =>
    if !okAns then (o, "pass") else
    match i.toNat? with
    | some i => ({ o with nodes := (i, field "rules" rest != some "fasthotstuff") :: o.nodes }, "pass")
    | none => (o, "pass")
  | ["sign", r, _, _] => ({ o with signedBy := match r.toNat? with | some r => if o.signedBy.contains r then o.signedBy else r :: o.signedBy | none => o.signedBy }, "pass")
  | ["create-pc", r, _, _] => ({ o with signedBy := match r.toNat? with | some r => if o.signedBy.contains r then o.signedBy else r :: o.signedBy | none => o.signedBy }, "pass")
  | kind :: name :: rest =>
    if (kind == "block" || kind == "wblock") then
      if !okAns then (o, "pass") else
      match field "parent" rest, natField "view" rest with
      | some p, some v => ({ o with blocks := if (o.blocks.lookup name).isSome then o.blocks else (name, (v, p)) :: o.blocks }, "pass")
      | _, _ => (o, "pass")
    else
    let node : Option Nat :=
      if kind.startsWith "@" then (dropStr 1 kind).toNat? else if kind == "pump" then (rest.head?).bind (·.toNat?) else none
    match node with
    | none => (o, "pass")
    | some i =>
    if rhs.contains "panic" then (o, s!"fail panic on {joinWith " " lhs}") else
    let effs := rhs.filter (· != ";")
    -- blocks the implementation proposes
    let addProp (bl : List (String × (Nat × String))) (t : String) : List (String × (Nat × String)) :=
      match proposeOf t with
      | some (nm, v, par) => if (bl.lookup nm).isSome then bl else (nm, (v, par)) :: bl
      | none => bl
    let o := { o with blocks := effs.foldl addProp o.blocks }
    let parName (nm : String) : String := ((o.blocks.lookup nm).map (·.2)).getD "?"
    let viewOf (nm : String) : Nat := ((o.blocks.lookup nm).map (·.1)).getD 0
    -- lock rule on the replica's own signing log
    let newVotes := effs.filterMap fun t => stripParen "sign(blk:" t
    let isLockRules := (o.nodes.lookup i).getD false
    let old := (o.voted.lookup i).getD []
    let (votedNow, bad) := newVotes.foldl (fun (acc : List String × Option String) w =>
      match acc.2 with
      | some _ => acc
      | none =>
        let locks := "G" :: acc.1.map fun x => parName (parName x)
        let l := locks.foldl (fun best c => if viewOf c > viewOf best then c else best) "G"
        let known := (o.blocks.lookup w).isSome && locks.all fun c => (o.blocks.lookup c).isSome
        let ok := !isLockRules || !known || viewOf (parName w) > viewOf l || extName o.blocks 300 w l
        (acc.1 ++ [w], if ok then none else some s!"replica {i} voted for {w} (parent {parName w}, view {viewOf (parName w)}) although its earlier votes lock it on {l} (view {viewOf l})")) (old, none)
    let o1 := { o with voted := (i, votedNow) :: o.voted.filter (·.1 != i) }
    if let some m := bad then (o1, "fail lock-rule " ++ m) else
    let newCommits := commitsOf effs
    if newCommits.isEmpty then (o1, "pass") else
    let oldLog := (o1.logs.lookup i).getD []
    let log := oldLog ++ newCommits
    let o2 := { o1 with logs := (i, log) :: o1.logs.filter (·.1 != i) }
    let f := (o2.n - 1) / 3
    let void := o2.signedBy.length > f || o2.signedBy.any (fun r => (o2.nodes.lookup r).isSome)
    let rec chainOk (prev : String) : List String → Option String
      | [] => none
      | b :: rest => if parName b == prev then chainOk b rest else some s!"{b} (parent {parName b}) committed after {prev}"
    match chainOk (oldLog.getLast?.getD "G") newCommits with
    -- Fast-HotStuff failures carry their own signatures (`fhs-…`): a recorded known finding (DESIGN §6)
    | some bad => (o2, if void then "pass" else s!"fail {if isLockRules then "" else "fhs-"}commit-not-a-chain replica {i}: {bad}")
    | none =>
      match o2.logs.find? (fun p => p.1 != i && !(isPrefixStr p.2 log || isPrefixStr log p.2)) with
      | some p => (o2, if void then "pass" else s!"fail {if isLockRules then "" else "fhs-"}ledgers-diverge replica {i} committed {log} but replica {p.1} committed {p.2}")
      | none => (o2, "pass")
  | _ => (o, "pass")

-- @family "cluster.oracle" clusterOracle
def clusterOracle : Fam := { σ := ClusterOr, init := {}, step := clusterOracleStep }

end HsVerif.Drv

namespace HsVerif.Drv
open HsVerif.Model

/-! Liveness oracle for the cluster (C05), judged on the IMPLEMENTATION's answers and the script's
phase markers alone:
  `mark sync members=<ids> chain=<k>` … `mark end`: between the markers the script delivers
    everything the members send each other and fires their timers only when nothing is left to
    deliver (the generator does that; the oracle trusts the marker, see DESIGN); every member must
    commit a block it had not committed before, and must do so within 3·k views of the highest
    view a member was in at the marker.
  `mark fault-free chain=<k>` … `mark end`: all replicas live and synchronous from the start: no
    view may end by timeout, and whenever a replica votes for the block of view v it commits, in the
    same step, the block of view v-k (commits trail the newest block by exactly k; the run never
    quiesces, so this is judged per step).
Fast-HotStuff failures carry their own signatures (`fhs-…`): a recorded known finding. -/
structure LiveOr where
  fast : Bool := false
  phase : String := ""                       -- "", "sync", "fault-free"
  members : List Nat := []
  chain : Nat := 3
  view : List (Nat × Nat) := []              -- node ↦ current view
  hqc : List (Nat × Nat) := []               -- node ↦ view of its high QC
  commits : List (Nat × Nat) := []           -- node ↦ number of commit events so far
  comView : List (Nat × Nat) := []           -- node ↦ view of the last committed block (from names P<v>, else tracked)
  startView : Nat := 0
  startCommits : List (Nat × Nat) := []
  firstNew : List (Nat × Nat) := []          -- member ↦ highest member view when it first committed anew
  timeouts : Nat := 0                        -- timeout view changes seen in a fault-free phase
  /-- in the current phase some replica was seen holding a QC FOR ITS CURRENT VIEW and still sitting in that
  view: the recorded Fast-HotStuff finding (under the aggregate timeout rule a QC never ends a view).  Only a
  liveness failure of a Fast-HotStuff run in which this was observed carries the signature of that finding;
  with the plain rule it cannot happen (`sys_high_certificates_below_view`). -/
  qcHeld : Bool := false
  blocks : List (String × Nat) := [("G", 0)] -- name ↦ view

def setNat (k v : Nat) (l : List (Nat × Nat)) : List (Nat × Nat) := (k, v) :: l.filter (·.1 != k)

def liveOracleStep (o : LiveOr) (toks : List String) : LiveOr × String :=
  let (lhs, rhs) := splitArrow toks
  match lhs with
  | "cfg" :: _ => ({}, "pass")
  | "node" :: _ :: rest => ({ o with fast := o.fast || field "rules" rest == some "fasthotstuff" }, "pass")
  | "block" :: name :: rest => ({ o with blocks := match natField "view" rest with | some v => (name, v) :: o.blocks | none => o.blocks }, "pass")
  | "mark" :: "sync" :: rest =>
    let ms := ((field "members" rest).map fun s => (splitChar ',' s).filterMap (·.toNat?)).getD []
    let sv := ms.foldl (fun m i => max m ((o.view.lookup i).getD 1)) 0
    ({ o with phase := "sync", members := ms, chain := (natField "chain" rest).getD 3, startView := sv,
              startCommits := ms.map fun i => (i, (o.commits.lookup i).getD 0), firstNew := [], qcHeld := false }, "pass")
  | "mark" :: "fault-free" :: rest =>
    ({ o with phase := "fault-free", chain := (natField "chain" rest).getD 3, timeouts := 0, qcHeld := false }, "pass")
  | ["mark", "end"] =>
    let o' := { o with phase := "" }
    -- the signature of the recorded finding only where its cause was observed in this very phase
    let pre := if o.fast && o.qcHeld then "fhs-" else ""
    if o.phase == "sync" then
      match o.members.find? (fun i => (o.firstNew.lookup i).isNone) with
      | some i => (o', s!"fail {pre}no-progress replica {i} committed nothing new although the members {natList o.members} exchanged all their messages (views {natList (o.members.map fun j => (o.view.lookup j).getD 0)}, started at view {o.startView})")
      | none =>
        match o.firstNew.find? (fun p => p.2 > o.startView + 3 * o.chain) with
        | some p => (o', s!"fail {pre}slow-progress replica {p.1} committed anew only at view {p.2}, more than {3 * o.chain} views after view {o.startView}")
        | none => (o', "pass")
    else if o.phase == "fault-free" then
      if o.timeouts > 0 then (o', s!"fail {pre}fault-free-timeout {o.timeouts} views ended by timeout in a fault-free synchronous run")
      else if o.view.any (fun p => p.2 ≤ o.chain + 1) || o.view.isEmpty then
        (o', s!"fail {pre}fault-free-stall a fault-free synchronous run did not get past view {o.chain + 1}: views {natList (o.view.map (·.2))}")
      else
        match o.view.find? (fun p => p.2 > 1 && (o.hqc.lookup p.1).getD 0 + 1 != p.2) with
        | some p => (o', s!"fail {pre}fault-free-uncertified replica {p.1} is in view {p.2} but its highest certified block has view {(o.hqc.lookup p.1).getD 0}")
        | none => (o', "pass")
    else (o', "pass")
  | kind :: rest =>
    let node : Option Nat :=
      if kind.startsWith "@" then (dropStr 1 kind).toNat? else if kind == "pump" then (rest.drop 1).head?.bind (·.toNat?) else none
    match node with
    | none => (o, "pass")
    | some i =>
      let effs := rhs.filter (· != ";")
      let blocks := effs.foldl (fun bl t => match proposeOf t with
        | some (nm, v, _) => if (bl.lookup nm).isSome then bl else (nm, v) :: bl
        | none => bl) o.blocks
      let nCommits := (commitsOf effs).length
      let lastCom := (commitsOf effs).getLast?
      -- the dump after the last "|" of the answer
      let dump := (splitOn "|" rhs).getLast?.getD []
      let v := (natField "view" dump).getD ((o.view.lookup i).getD 1)
      let hq := (((field "hqc" dump).map (splitChar ':')).bind (·.head?)).bind (·.toNat?)
      let tmo := (effs.filter fun t => t.startsWith "vc(" && t.endsWith ",timeout)").length
      let o1 := { o with blocks := blocks, view := setNat i v o.view,
                         hqc := match hq with | some h => setNat i h o.hqc | none => o.hqc,
                         commits := setNat i ((o.commits.lookup i).getD 0 + nCommits) o.commits,
                         comView := match lastCom with | some b => setNat i ((blocks.lookup b).getD 0) o.comView | none => o.comView,
                         timeouts := o.timeouts + (if o.phase == "fault-free" then tmo else 0),
                         qcHeld := o.qcHeld || (o.fast && o.phase != "" && (match hq with | some h => decide (v ≤ h) | none => false)) }
      -- fault-free runs: whenever a replica votes for the block of view v (> chain length) it commits, in
      -- the same step, the block of view v - chain length: commits trail the newest block by exactly that
      -- (the run never quiesces, so this is judged per step, not on an end state)
      let trail : Option String :=
        if o1.phase != "fault-free" then none else
        (splitOn "||" rhs).findSome? fun part =>
          let pe := part.filter (· != ";")
          match (pe.filterMap fun t => stripParen "sign(blk:" t).getLast? with
          | none => none
          | some x =>
            let v := (blocks.lookup x).getD 0
            if v ≤ o1.chain then none else
            match (commitsOf pe).getLast? with
            | none => some s!"replica {i} voted for {x} (view {v}) without committing the block of view {v - o1.chain}"
            | some y => if (blocks.lookup y).getD 0 + o1.chain == v then none
                        else some s!"replica {i} voted for {x} (view {v}) and committed {y} (view {(blocks.lookup y).getD 0}) instead of the block of view {v - o1.chain}"
      if let some m := trail then (o1, (if o1.fast then "fail fhs-fault-free-trail " else "fail fault-free-trail ") ++ m) else
      if o1.phase == "sync" && o1.members.contains i && nCommits > 0 && (o1.firstNew.lookup i).isNone then
        let top := o1.members.foldl (fun m j => max m ((o1.view.lookup j).getD 0)) 0
        ({ o1 with firstNew := (i, top) :: o1.firstNew }, "pass")
      else (o1, "pass")
  | [] => (o, "pass")

-- @family "clusterlive.oracle" clusterLiveOracle
def clusterLiveOracle : Fam := { σ := LiveOr, init := {}, step := liveOracleStep }

end HsVerif.Drv
