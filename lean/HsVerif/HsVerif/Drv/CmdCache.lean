import HsVerif.Drv.Core
import HsVerif.Model.CmdCache
import HsVerif.Spec.BatchQueue
/-!
Line protocol `cmdcache` (C15).  One real `CommandCache` / one model `Sys`; `Get` calls with a
live context stay pending across operations; after every operation both sides run to quiescence
(no getter can move) and report what came out.

  new <bs>                     fresh cache with batch size <bs>; add-counter := 0
  add <client> <seq>           Add(&Command{client, seq, Data = add-counter++})
  proposed <c:s,c:s,...|->     Proposed(batch)
  get                          start a Get with a live context (it may return at once, or later)
  getc                         Get with an already cancelled context, repeated while it answers
                               ctx.Err() although the token is still in the channel (Go's select
                               may take either ready case; the repetition makes the outcome the
                               one of the run that takes the token)
  cancel                       cancel the oldest pending Get
  dump                         cache content and marks
  stress <bs> <producers> <per> <consumers> <mark>
                               concurrent producers/consumers on a fresh cache with real
                               parallelism (own cache, leaves the one above alone):
                               `ok batches=<n> left=<m>` or `fail <what>`
  racereport clean|<what>      reporting channel for the orchestrator's run of the same scripts
                               under `go build -race` (thorough tier)

answer:  <ok|got|cancelled|none> out=<batches> len=<cached> ready=<0|1> wait=<pending getters>
  batches: `-` or batch;batch;…  in extraction order, batch = c:s#tag,c:s#tag,… (`e` = empty batch)
  `E` among the batches = a live Get returned an error although nobody cancelled it
-/
namespace HsVerif.Drv.CC
open HsVerif.Drv HsVerif.Model.CmdCache HsVerif.Spec.BatchQueue

def showCmd (c : Cmd) : String := s!"{c.client}:{c.seq}#{c.tag}"

def showBatch (b : List Cmd) : String := if b.isEmpty then "e" else ",".intercalate (b.map showCmd)

def showOut (bs : List (List Cmd)) : String := if bs.isEmpty then "-" else ";".intercalate (bs.map showBatch)

/-- decimal digits only, as Go's `strconv.ParseUint(s, 10, …)` (Lean's `toNat?` also takes `1_000`) -/
def digits (s : String) : Option Nat :=
  if s.isEmpty || !(s.toList.all fun c => '0' ≤ c && c ≤ '9') then none else s.toNat?

/-- client ids are uint32, sequence numbers uint64 in Go; larger numerals are not operations -/
def u32 (s : String) : Option Nat := (digits s).bind fun n => if n < 4294967296 then some n else none
def u64 (s : String) : Option Nat := (digits s).bind fun n => if n < 18446744073709551616 then some n else none

def parseCS (s : String) : Option (Nat × Nat) :=
  match splitChar ':' s with
  | [a, b] => do
    let x ← u32 a
    let y ← u64 b
    pure (x, y)
  | _ => none

def parseCmd (s : String) : Option Cmd :=
  match splitChar '#' s with
  | [cs, t] => do
    let (x, y) ← parseCS cs
    let z ← t.toNat?
    pure ⟨x, y, z⟩
  | _ => none

/-- `c:s,c:s` (tags 0) or `-` -/
def parseProposed (s : String) : Option (List Cmd) :=
  if s == "-" then some [] else (splitChar ',' s).mapM fun t => (parseCS t).map fun (x, y) => ⟨x, y, 0⟩

def parseBatch (s : String) : Option (List Cmd) :=
  if s == "e" then some [] else (splitChar ',' s).mapM parseCmd

structure CcSt where
  sys : Sys := { c := Cache.new 1 }
  made : Bool := false
  nadd : Nat := 0
  seen : List Nat := []

def insertNat (x : Nat) : List Nat → List Nat
  | [] => [x]
  | y :: ys => if x < y then x :: y :: ys else if x == y then y :: ys else y :: insertNat x ys

def firstSel (gs : List Getter) : Option Nat := gs.findIdx? fun g => g.pc == .sel

def stepD (st : Sys) (l : Label) : Sys := (st.step l).getD st

/-- Run to quiescence: while the token is there and a getter waits in the `select`, that getter
receives it and runs its locked body.  Each round consumes the token and only a successful
extraction (which retires the getter) can put it back, so `gs.length + 1` rounds suffice. -/
def settleAux : Nat → Sys → List (List Cmd) → Sys × List (List Cmd)
  | 0, st, out => (st, out)
  | fuel + 1, st, out =>
    if st.c.ready then
      match firstSel st.gs with
      | some i =>
        let st2 := stepD (stepD st (.recv i)) (.body i)
        match st2.gs[i]? with
        | some ⟨.retBatch b, _⟩ => settleAux fuel st2 (out ++ [b])
        | _ => settleAux fuel st2 out
      | none => (st, out)
    else (st, out)

def settle (st : Sys) : Sys × List (List Cmd) :=
  let r := settleAux (st.gs.length + 1) st []
  ({ r.1 with gs := r.1.gs.filter fun g => g.pc == .sel }, r.2)

def status (st : Sys) : String :=
  s!"len={st.c.cache.length} ready={if st.c.ready then 1 else 0} wait={st.gs.length}"

def answer (base : String) (st : Sys) (out : List (List Cmd)) : String :=
  s!"{base} out={showOut out} {status st}"

def finish (s : CcSt) (base : String) (st : Sys) (pre : List (List Cmd)) : CcSt × String :=
  let (st', out) := settle st
  ({ s with sys := st' }, answer base st' (pre ++ out))

def cmdcacheStep (s : CcSt) (toks : List String) : CcSt × String :=
  match toks with
  | ["new", b] =>
    match u32 b with
    | some bs =>
      let st : Sys := { c := Cache.new bs }
      ({ sys := st, made := true, nadd := 0, seen := [] }, answer "ok" st [])
    | none => (s, "bad-op")
  | ["add", c, q] =>
    match s.made, u32 c, u64 q with
    | true, some c, some q =>
      let st := stepD s.sys (.add ⟨c, q, s.nadd⟩)
      finish { s with nadd := s.nadd + 1, seen := insertNat c s.seen } "ok" st []
    | _, _, _ => (s, "bad-op")
  | ["proposed", l] =>
    match s.made, parseProposed l with
    | true, some b =>
      finish { s with seen := b.foldl (fun acc x => insertNat x.client acc) s.seen } "ok" (stepD s.sys (.proposed b)) []
    | _, _ => (s, "bad-op")
  | ["get"] =>
    if !s.made then (s, "bad-op") else finish s "ok" (stepD s.sys .spawn) []
  | ["getc"] =>
    if !s.made then (s, "bad-op") else
    let i := s.sys.gs.length
    let st := stepD (stepD s.sys .spawn) (.cancel i)
    if st.c.ready then
      let st2 := stepD (stepD st (.recv i)) (.body i)
      match st2.gs[i]? with
      | some ⟨.retBatch b, _⟩ => finish s "got" st2 [b]
      | _ => finish s "cancelled" (stepD st2 (.ctxDone i)) []
    else finish s "cancelled" (stepD st (.ctxDone i)) []
  | ["cancel"] =>
    if !s.made then (s, "bad-op") else
    match firstSel s.sys.gs with
    | some i => finish s "cancelled" (stepD (stepD s.sys (.cancel i)) (.ctxDone i)) []
    | none => finish s "none" s.sys []
  | ["dump"] =>
    if !s.made then (s, "bad-op") else
    let c := s.sys.c
    let marks := (s.seen.filter fun x => c.marks.get x > 0).map fun x => s!"{x}={c.marks.get x}"
    (s, s!"cache={if c.cache.isEmpty then "-" else ",".intercalate (c.cache.map showCmd)} " ++
        s!"seq={if marks.isEmpty then "-" else ",".intercalate marks}")
  | ["stress", b, p, n, k, m] =>
    match digits b, digits p, digits n, digits k, digits m with
    | some bs, some prod, some per, some cons, some mk =>
      if bs == 0 || cons == 0 || mk > 1 || bs ≥ 65536 || prod ≥ 65536 || per ≥ 65536 || cons ≥ 65536 then (s, "bad-op") else
      -- the numbers do not depend on the schedule: run the model on one schedule
      let cmds := (List.range prod).flatMap fun p => (List.range per).map fun q => (⟨p + 1, q + 1, p * per + q + 1⟩ : Cmd)
      let c0 := cmds.foldl add (Cache.new bs)
      let rec drain (fuel : Nat) (c : Cache) (n : Nat) : Cache × Nat :=
        match fuel with
        | 0 => (c, n)
        | fuel + 1 =>
          match seqStep c .get with
          | (c', .batch _) => drain fuel c' (n + 1)
          | (c', _) => (c', n)
      let (c1, nb) := drain (cmds.length + 1) c0 0
      (s, s!"ok batches={nb} left={c1.cache.length}")
    | _, _, _, _, _ => (s, "bad-op")
  | "racereport" :: _ => (s, "ok")
  | _ => (s, "bad-op")

-- @family "cmdcache" CC.cmdcacheFam
-- @family "cmdcache.oracle" CC.cmdcacheOracle
def cmdcacheFam : Fam := { σ := CcSt, init := {}, step := cmdcacheStep }

/-! Oracle: the ideal batching queue of `Spec/BatchQueue.lean` beside the implementation's
answers.  Only the batches that came out, the number of pending (blocked) getters and, for `dump`,
the cached commands are looked at — never `len=` or `ready=`. -/

structure CcOr where
  made : Bool := false
  bs : Nat := 1
  ideal : Ideal := {}
  nadd : Nat := 0
  wait : Nat := 0
  /-- everything ever added (to tell "never added" from "already handed out") -/
  added : List Cmd := []

def classify (o : CcOr) (b : List Cmd) : String :=
  if b.length != o.bs then s!"short-batch got {b.length} commands, batch size {o.bs}: {showBatch b}"
  else match b.find? fun c => !o.ideal.isFresh c with
    | some c => s!"stale-handout {showCmd c} is at or below the sequence number marked proposed for client {c.client} ({o.ideal.top c.client}): {showBatch b}"
    | none =>
      match b.find? fun c => !o.added.contains c with
      | some c => s!"phantom-handout {showCmd c} was never added: {showBatch b}"
      | none =>
        match b.find? fun c => !o.ideal.queue.contains c with
        | some c => s!"dup-handout {showCmd c} was handed out before: {showBatch b}"
        | none =>
          if b.eraseDups.length != b.length then s!"dup-handout same command twice in one batch: {showBatch b}"
          else s!"not-oldest-fresh got {showBatch b}, oldest owed are {showBatch (o.ideal.owed.take o.bs)}"

/-- account for one batch that came out; `(state, failure?)` -/
def takeBatch (o : CcOr) (b : List Cmd) : CcOr × Option String :=
  if o.bs == 0 then (o, if b.isEmpty then none else some s!"short-batch batch size 0 but got {showBatch b}") else
  match o.ideal.take o.bs with
  | some (exp, i') =>
    if exp == b then ({ o with ideal := i' }, none)
    else ({ o with ideal := { o.ideal with queue := o.ideal.queue.filter fun c => !b.contains c } }, some (classify o b))
  | none =>
    ({ o with ideal := { o.ideal with queue := o.ideal.queue.filter fun c => !b.contains c } },
     some (if b.length == o.bs && (b.all fun c => o.ideal.isFresh c && o.ideal.queue.contains c) && b.eraseDups.length == b.length
           then s!"not-oldest-fresh got {showBatch b} but only {o.ideal.owed.length} fresh commands are owed"
           else classify o b))

def parseOut (s : String) : Option (List (Option (List Cmd))) :=
  if s == "-" then some [] else (splitChar ';' s).mapM fun t => if t == "E" then some none else (parseBatch t).map some

/-- process the batches of one answer; `own` = the first batch belongs to the calling `getc` -/
def takeAll (o : CcOr) (outs : List (Option (List Cmd))) (own : Bool) : CcOr × Option String :=
  let rec go (o : CcOr) (l : List (Option (List Cmd))) (own : Bool) (err : Option String) : CcOr × Option String :=
    match l with
    | [] => (o, err)
    | none :: rest =>
      go { o with wait := o.wait - 1 } rest false (err <|> some "get-ended-without-batch-or-cancel a live Get returned an error")
    | some b :: rest =>
      let (o1, e1) := takeBatch o b
      let e2 := if !own && o1.wait == 0 then some s!"batch-without-getter {showBatch b}" else none
      go (if own then o1 else { o1 with wait := o1.wait - 1 }) rest false (err <|> e1 <|> e2)
  go o outs own none

def cmdcacheOracleStep (o : CcOr) (toks : List String) : CcOr × String :=
  let (lhs, rhs) := splitArrow toks
  if rhs == ["bad-op"] then (o, "pass") else
  if rhs == ["hung"] then (o, s!"fail call-never-returns {lhs} did not return (every goroutine involved is parked inside the cache)") else
  if rhs == ["cancel-ignored"] then (o, "fail get-ignores-cancel a pending Get stays blocked after its context was cancelled") else
  if rhs == ["settle-timeout"] then (o, "fail no-quiescence pending Gets neither return nor block") else
  match lhs with
  | ["new", b] =>
    match u32 b with
    | some bs => ({ made := true, bs := bs }, if natField "wait" rhs == some 0 && field "out" rhs == some "-" then "pass" else s!"fail new-shape {rhs}")
    | none => (o, "pass")
  | ["stress", b, p, n, _, _] =>
    match b.toNat?, p.toNat?, n.toNat?, natField "batches" rhs, natField "left" rhs with
    | some bs, some prod, some per, some nb, some left =>
      (o, if rhs.head? == some "ok" && nb * bs + left == prod * per && left < bs then "pass"
          else s!"fail stress-count {rhs} for {prod * per} commands, batch size {bs}")
    | _, _, _, _, _ => (o, s!"fail stress-{rhs.getD 1 "shape"} concurrent producers/consumers: {rhs}")
  | "racereport" :: _ => (o, if rhs == ["ok"] then "pass" else s!"fail data-race the run under the race detector did not come out clean: {lhs}")
  | ["dump"] =>
    if !o.made || o.bs == 0 then (o, "pass") else
    match (field "cache" rhs).bind fun s => if s == "-" then some [] else (splitChar ',' s).mapM parseCmd with
    | some cache =>
      (o, if o.ideal.owed.isSublist cache then "pass"
          else s!"fail fresh-command-lost owed {showBatch o.ideal.owed} is not a subsequence of the cache {showBatch cache}")
    | none => (o, s!"fail answer-shape {rhs}")
  | _ =>
    if !o.made then (o, "pass") else
    -- effect of the call itself
    let pre : Option (CcOr × Bool) :=
      match lhs with
      | ["add", c, q] =>
        match u32 c, u64 q with
        | some c, some q =>
          let cmd : Cmd := ⟨c, q, o.nadd⟩
          some ({ o with nadd := o.nadd + 1, added := o.added ++ [cmd], ideal := { o.ideal with queue := o.ideal.queue ++ [cmd] } }, false)
        | _, _ => none
      | ["proposed", l] => (parseProposed l).map fun b => ({ o with ideal := o.ideal.mark b }, false)
      | ["get"] => some ({ o with wait := o.wait + 1 }, false)
      | ["getc"] => some (o, rhs.head? == some "got")
      | ["cancel"] => some (o, false)
      | _ => none
    match pre, (field "out" rhs).bind parseOut, natField "wait" rhs with
    | some (o1, own), some outs, some w =>
      let (o2, err) := takeAll o1 outs own
      -- the call's own verdict
      let (o3, err) :=
        match lhs with
        | ["getc"] =>
          if own && outs.length == 0 then (o2, err <|> some "answer-shape got without a batch")
          else if !own && rhs.head? != some "cancelled" then (o2, err <|> some s!"answer-shape {rhs}")
          else (o2, err)
        | ["cancel"] =>
          if rhs.head? == some "cancelled" then
            if o2.wait == 0 then (o2, err <|> some "getter-count cancelled a getter although none was pending")
            else ({ o2 with wait := o2.wait - 1 }, err)
          else (o2, if o2.wait == 0 then err else err <|> some s!"getter-count {o2.wait} getters should be pending but none could be cancelled")
        | _ => (o2, err)
      let err := err <|>
        (if w != o3.wait then some s!"getter-count {w} getters pending, expected {o3.wait}" else none) <|>
        (if o3.bs ≥ 1 && o3.wait > 0 && o3.bs ≤ o3.ideal.owed.length then
           some s!"blocked-with-full-batch {o3.wait} getter(s) blocked although {o3.ideal.owed.length} fresh commands are cached (batch size {o3.bs}): {showBatch o3.ideal.owed}"
         else none)
      ({ o3 with wait := w }, match err with | none => "pass" | some e => "fail " ++ e)
    | none, _, _ => (o, "pass")
    | _, _, _ => (o, s!"fail answer-shape {rhs}")

def cmdcacheOracle : Fam := { σ := CcOr, init := {}, step := cmdcacheOracleStep }

end HsVerif.Drv.CC
