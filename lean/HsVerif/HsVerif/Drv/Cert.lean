import HsVerif.Drv.Core
import HsVerif.Model.Cert
import HsVerif.Spec.Cert
/-! Model driver for the `cert` family (C02, C11, C20 thresholds): symbolic certificates. -/
namespace HsVerif.Drv
open HsVerif.Model

structure Tmo where
  id : Nat
  view : Nat
  viewSig : Option Sig
  msgSig : Option Sig
  qc : Option QC
deriving Repr

structure CertSt where
  ready : Bool := false
  cfg : Cfg := ⟨0, .ecdsa⟩
  agg : Bool := false
  store : Store := []
  blocks : List (String × Block) := []
  truth : List (Nat × Atom) := []
  nextBytes : Nat := 1
  sigs : List (String × Sig) := []
  qcs : List (String × QC) := []
  tcs : List (String × TC) := []
  aggs : List (String × AggQC) := []
  tmos : List (String × Tmo) := []
  /-- BLS: ids whose proof of possession, as the OTHER replicas hold it, does not check out (`cfg … pop=`) -/
  popBad : List Nat := []

def schemeOf (s : String) : Option Scheme :=
  if s == "ecdsa" then some .ecdsa else if s == "eddsa" then some .eddsa else if s == "bls12" then some .bls12 else none

def joinWith (sep : String) (l : List String) : String := sep.intercalate l

def atomKey (a : Atom) : String := s!"{a.signer}@{a.msg}"

def insertStr (x : String) : List String → List String
  | [] => [x]
  | y :: ys => if x < y then x :: y :: ys else y :: insertStr x ys

def sortStrs (l : List String) : List String := l.foldr insertStr []

/-- canonical key of `sig.ToBytes()`; since `fix:` 2c93c32 the bytes of a multi-signature name every
part's signer and length (before, they were the bare concatenation of the parts: the same for other
signer labels) -/
def sigKey : Option Sig → String
  | none => "nil"
  | some (.multi _ []) => "nil"     -- an empty multi-signature serialises to no bytes, like no signature
  | some (.multi _ es) => "m[" ++ joinWith "," (es.map (fun e => s!"{e.claimed}:{e.bytes}")) ++ "]"
  | some (.bls a j _) => "b[" ++ joinWith "," (sortStrs (a.map atomKey)) ++ "|" ++ joinWith "," (sortStrs (j.map toString)) ++ "]"

/-- canonical key of `QuorumCert.ToBytes()`: view, hash and — since `fix:` 9a59775, when there is a signature —
the participants followed by the signature bytes (before: the signature bytes only, the same for every
attribution of a BLS aggregate, and nothing at all for an empty multi-signature) -/
def qcKey (q : QC) : String :=
  match q.sig with
  | none => s!"{q.view}:{q.hash}:nil"
  | some sg => s!"{q.view}:{q.hash}:{sg.participants.length}[{joinWith "," (sg.participants.map toString)}]{sigKey q.sig}"

def tmoKey (id v : Nat) (qc : Option QC) : Msg :=
  s!"tmo:{id}:{v}:" ++ (match qc with | none => "-" | some q => qcKey q)

/-- bytes of `Sign(m)` by replica `r`: ECDSA is randomised (fresh bytes each time), Ed25519 is
deterministic (the same bytes for the same signer and message) -/
def CertSt.signBytes (s : CertSt) (r : Nat) (m : Msg) : CertSt × Nat :=
  match (if s.cfg.scheme == .eddsa then s.truth.find? (fun p => p.2 == ⟨r, m⟩) else none) with
  | some p => (s, p.1)
  | none => ({ s with truth := (s.nextBytes, ⟨r, m⟩) :: s.truth, nextBytes := s.nextBytes + 1 }, s.nextBytes)

/-! A replica rejects every BLS signature that names a participant (other than itself) whose proof of
possession it cannot check (`bls12Base.publicKey` → `checkPop`).  The verifier model has no such notion, so
the driver marks those signatures for the verifying replica with a junk component (junk never verifies);
the mark is invisible in keys and messages (`unmark`). -/
def popMark : Nat := 424242

def markSig (B : List Nat) (r : Nat) : Sig → Sig
  | .bls a j bits => if bits.ids.any (fun i => i != r && B.contains i) then .bls a (j ++ [popMark]) bits else .bls a j bits
  | sg => sg

def unmarkSig : Sig → Sig
  | .bls a j bits => .bls a (j.filter (· != popMark)) bits
  | sg => sg

def markQC (B : List Nat) (r : Nat) (q : QC) : QC := { q with sig := q.sig.map (markSig B r) }
def unmarkQC (q : QC) : QC := { q with sig := q.sig.map unmarkSig }
def markTC (B : List Nat) (r : Nat) (t : TC) : TC := { t with sig := t.sig.map (markSig B r) }
def markAgg (B : List Nat) (r : Nat) (a : AggQC) : AggQC :=
  { a with qcs := a.qcs.map (fun p => (p.1, markQC B r p.2)), sig := a.sig.map (markSig B r) }

def CertSt.env (s : CertSt) : CertEnv :=
  { T := fun b => s.truth.lookup b, cfg := s.cfg, store := s.store, tmoMsg := fun id v q => tmoKey id v (some (unmarkQC q)) }

def descSigM (s : Sig) : String := s!"ok len={s.len} ids={natList s.participants}"

def CertSt.replica (s : CertSt) (t : String) : Option Nat :=
  match t.toNat? with
  | some r => if 1 ≤ r && r ≤ s.cfg.n then some r else none
  | none => none

def CertSt.hashOf (s : CertSt) (t : String) : Option Hash :=
  if t.startsWith "unk:" then some t
  else if t == "G" then some genesisHash
  else (s.blocks.lookup t).map (·.hash)

def CertSt.msgOfBase (s : CertSt) (t : String) : Option Msg :=
  if t.startsWith "blk:" then
    let b := dropStr 4 t
    if b == "G" then some (blkMsg genesisHash) else (s.blocks.lookup b).map (fun x => blkMsg x.hash)
  else if t.startsWith "view:" then (dropStr 5 t).toNat?.map viewMsg
  else if t.startsWith "tmo:" then
    match splitChar ':' t with
    | [_, id, v, q] =>
      match id.toNat?, v.toNat? with
      | some id, some v =>
        if q == "-" then some (tmoKey id v none) else (s.qcs.lookup q).map (fun qc => tmoKey id v (some qc))
      | _, _ => none
    | _ => none
  else if t.startsWith "raw:" then some t
  else if t.startsWith "hex:" then some t      -- literal bytes
  else none

/-- `enc:<id>:<msg>`: the bytes the signature cache hashes for the one-entry batch `{id: msg}` (id, length,
message), used as a MESSAGE of its own — symbolically a different message -/
def CertSt.msgOf (s : CertSt) (t : String) : Option Msg :=
  if t.startsWith "enc:" then
    match splitChar ':' (dropStr 4 t) with
    | id :: rest =>
      match id.toNat?, s.msgOfBase (joinWith ":" rest) with
      | some id, some inner => some s!"enc:{id}:{inner}"
      | _, _ => none
    | [] => none
  else s.msgOfBase t

def CertSt.sigOrNil (s : CertSt) (t : String) : Option (Option Sig) :=
  if t == "nil" then some none else (s.sigs.lookup t).map some

def parseIds (t : String) : Option (List Nat) :=
  if t == "-" || t == "" then some [] else (splitChar ',' t).mapM (·.toNat?)

def junkNum (t : String) : Option Nat := (dropStr 4 t).toNat?.map (· + 1000000)

def verdictB (b : Bool) : String := if b then "ok" else "reject"

def vresStr {α} (f : α → String) : VRes α → String
  | .ok a => f a
  | .reject => "reject"
  | .panic => "panic"

def setAssoc {α} (k : Nat) (v : α) : List (Nat × α) → List (Nat × α)
  | [] => [(k, v)]
  | (k', v') :: rest => if k' == k then (k, v) :: rest else (k', v') :: setAssoc k v rest

def dedupStr (l : List String) : List String :=
  l.foldl (fun acc x => if acc.contains x then acc else acc ++ [x]) []

/-- valid attested QCs having the view of the reported high QC `q` (ties of the high-QC sort) -/
def highCandidates (E : CertEnv) (ag : AggQC) (q : QC) : List QC :=
  q :: (ag.qcs.map (·.2)).filter (fun x => verifyQC E x && x.view == q.view)

def combineStr (c : Cfg) (l : List Sig) : Option Sig × String :=
  match combine c l with
  | .ok s => (some s, descSigM s)
  | .multiple => (none, "reject:multiple")
  | _ => (none, "reject")

def certStep (s : CertSt) (toks : List String) : CertSt × String :=
  match toks with
  | "cfg" :: sch :: n :: rest =>
    match schemeOf sch, n.toNat? with
    | some k, some n =>
      if n < 1 || n > 40 then (s, "bad-op") else
      let pop : Option (List Nat) := match field "pop" rest with
        | none => some []
        | some p => if k != .bls12 then none else
          (splitChar ',' p).mapM fun e => match splitChar ':' e with
            | [id, _] => match id.toNat? with
              | some id => if 1 ≤ id ∧ id ≤ n then some id else none
              | none => none
            | _ => none
      match pop with
      | none => (s, "bad-op")
      | some pop =>
      ({ ready := true, cfg := ⟨n, k⟩, agg := field "agg" rest == some "1",
         blocks := [("G", genesisBlock)], store := [(genesisHash, genesisBlock)],
         qcs := [("genesis", genesisQC)], popBad := pop }, "ok")
    | _, _ => (s, "bad-op")
  | _ =>
  if !s.ready then (s, "bad-op") else
  let E := s.env
  match toks with
  | "block" :: name :: rest =>
    match (field "parent" rest).bind s.hashOf, (field "qc" rest).bind (s.qcs.lookup ·), natField "view" rest, natField "proposer" rest with
    | some ph, some qc, some v, some p =>
      let b : Block := { hash := name, parent := ph, view := v, proposer := p, qc := qc, cmds := [name] }
      let stored := field "store" rest != some "none"
      ({ s with blocks := (name, b) :: s.blocks, store := if stored then (name, b) :: s.store else s.store }, "ok")
    | _, _, _, _ => (s, "bad-op")
  | ["sign", r, m, name] =>
    match s.replica r, s.msgOf m with
    | some r, some m =>
      if s.cfg.scheme == .bls12 then
        let sg := blsSign r m
        ({ s with sigs := (name, sg) :: s.sigs }, descSigM sg)
      else
        let (s', b) := s.signBytes r m
        let sg := Sig.multi s.cfg.scheme [⟨r, b⟩]
        ({ s' with sigs := (name, sg) :: s'.sigs }, descSigM sg)
    | _, _ => (s, "bad-op")
  | "multi" :: name :: ents =>
    if s.cfg.scheme == .bls12 then (s, "bad-op") else
    let parsed := ents.mapM fun e =>
      match splitChar ':' e with
      | [c, src] =>
        match c.toNat? with
        | none => none
        | some c =>
          if src.startsWith "junk" then (junkNum src).map (fun b => (⟨c, b⟩ : Entry))
          else if src.startsWith "cutA" || src.startsWith "cutB" then
            -- the bytes of a multi-signature cut at a place that is no boundary: garbage, but new garbage
            match splitChar '@' (dropStr 4 src) with
            | [k, nm] =>
              match k.toNat?, s.sigs.lookup nm with
              | some k, some _ => some (⟨c, (if src.startsWith "cutA" then 3000000 else 4000000) + k⟩ : Entry)
              | _, _ => none
            | _ => none
          else
            let (nm, idx) := match splitChar '.' src with
              | [nm, i] => (nm, i.toNat?.getD 0)
              | _ => (src, 0)
            match s.sigs.lookup nm with
            | some (.multi _ es) => (es[idx]?).map (fun e => (⟨c, e.bytes⟩ : Entry))
            | _ => none
      | _ => none
    match parsed with
    | some es =>
      let sg := Sig.multi s.cfg.scheme es
      ({ s with sigs := (name, sg) :: s.sigs }, descSigM sg)
    | none => (s, "bad-op")
  | "bls" :: name :: rest =>
    if s.cfg.scheme != .bls12 then (s, "bad-op") else
    match field "pt" rest, (field "bits" rest).bind parseIds with
    | some pt, some ids =>
      let terms := if pt == "0" then some [] else
        (splitChar '+' pt).mapM fun t =>
          if t.startsWith "junk" then (junkNum t).map (fun j => (([] : List Atom), [j]))
          else match s.sigs.lookup t with
            | some (.bls a j _) => some (a, j)
            | _ => none
      match terms with
      | some ts =>
        let bits := Bitfield.fromBytes ((ids.foldl Bitfield.add Bitfield.empty).data)
        let sg := Sig.bls (ts.flatMap (·.1)) (ts.flatMap (·.2)) bits
        ({ s with sigs := (name, sg) :: s.sigs }, descSigM sg)
      | none => (s, "bad-op")
    | _, _ => (s, "bad-op")
  | "combine" :: r :: out :: ins =>
    match s.replica r, lookupAllS s.sigs ins with
    | some _, some l =>
      let (sg, str) := combineStr s.cfg l
      (match sg with | some sg => { s with sigs := (out, sg) :: s.sigs } | none => s, str)
    | _, _ => (s, "bad-op")
  | "qc" :: name :: rest =>
    match (field "sig" rest).bind s.sigOrNil, natField "view" rest, (field "hash" rest).bind s.hashOf with
    | some sg, some v, some h => ({ s with qcs := (name, ⟨sg, v, h⟩) :: s.qcs }, "ok")
    | _, _, _ => (s, "bad-op")
  | "tc" :: name :: rest =>
    match (field "sig" rest).bind s.sigOrNil, natField "view" rest with
    | some sg, some v => ({ s with tcs := (name, ⟨sg, v⟩) :: s.tcs }, "ok")
    | _, _ => (s, "bad-op")
  | "agg" :: name :: rest =>
    match (field "sig" rest).bind s.sigOrNil, natField "view" rest, field "qcs" rest with
    | some sg, some v, some q =>
      let ents := if q == "-" || q == "" then some [] else
        (splitChar ',' q).mapM fun e =>
          match splitChar ':' e with
          | [id, qn] => match id.toNat?, s.qcs.lookup qn with
            | some id, some qc => some (id, qc)
            | _, _ => none
          | _ => none
      match ents with
      | some es =>
        let m := es.foldl (fun acc p => setAssoc p.1 p.2 acc) []
        ({ s with aggs := (name, ⟨m, sg, v⟩) :: s.aggs }, "ok")
      | none => (s, "bad-op")
    | _, _, _ => (s, "bad-op")
  | "timeout" :: name :: rest =>
    match natField "id" rest, natField "view" rest, (field "viewsig" rest).bind s.sigOrNil, (field "msgsig" rest).bind s.sigOrNil, field "qc" rest with
    | some id, some v, some vs, some ms, some q =>
      if q == "-" then ({ s with tmos := (name, ⟨id, v, vs, ms, none⟩) :: s.tmos }, "ok")
      else match s.qcs.lookup q with
        | some qc => ({ s with tmos := (name, ⟨id, v, vs, ms, some qc⟩) :: s.tmos }, "ok")
        | none => (s, "bad-op")
    | _, _, _, _, _ => (s, "bad-op")
  | ["create-pc", r, b, name] =>
    match s.replica r, s.blocks.lookup b with
    | some r, some b =>
      let m := blkMsg b.hash
      if s.cfg.scheme == .bls12 then
        ({ s with sigs := (name, blsSign r m) :: s.sigs }, s!"ok signer={r}")
      else
        let (s', b) := s.signBytes r m
        ({ s' with sigs := (name, .multi s.cfg.scheme [⟨r, b⟩]) :: s'.sigs }, s!"ok signer={r}")
    | _, _ => (s, "bad-op")
  | "create-qc" :: r :: name :: b :: ins =>
    match s.replica r, s.blocks.lookup b, lookupAllS s.sigs ins with
    | some _, some b, some l =>
      if b.hash == genesisHash then ({ s with qcs := (name, genesisQC) :: s.qcs }, "ok view=0 nil")
      else match combine s.cfg l with
        | .ok sg => ({ s with qcs := (name, ⟨some sg, b.view, b.hash⟩) :: s.qcs, sigs := (name ++ ".sig", sg) :: s.sigs },
                     s!"ok view={b.view} len={sg.len} ids={natList sg.participants}")
        | _ => (s, "reject")
    | _, _, _ => (s, "bad-op")
  | "create-tc" :: r :: name :: v :: ins =>
    match s.replica r, v.toNat?, lookupAllS s.tmos ins with
    | some _, some v, some ts =>
      if v == 0 then ({ s with tcs := (name, ⟨none, 0⟩) :: s.tcs }, "ok nil")
      else if ts.length < 2 then (s, "reject")
      else match ts.mapM (·.viewSig) with
        | none => (s, "reject")
        | some l => match combine s.cfg l with
          | .ok sg => ({ s with tcs := (name, ⟨some sg, v⟩) :: s.tcs, sigs := (name ++ ".sig", sg) :: s.sigs },
                       s!"ok len={sg.len} ids={natList sg.participants}")
          | _ => (s, "reject")
    | _, _, _ => (s, "bad-op")
  | "create-agg" :: r :: name :: v :: ins =>
    match s.replica r, v.toNat?, lookupAllS s.tmos ins with
    | some _, some v, some ts =>
      let qcs := ts.foldl (fun acc t => match t.qc with | some q => setAssoc t.id q acc | none => acc) []
      let sigs := ts.filterMap (·.msgSig)
      match combine s.cfg sigs with
      | .ok sg =>
        let ids := (qcs.map (·.1)).foldl (fun acc x => insertSortedN x acc) []
        ({ s with aggs := (name, ⟨qcs, some sg, v⟩) :: s.aggs, sigs := (name ++ ".sig", sg) :: s.sigs },
         s!"ok len={sg.len} ids={natList sg.participants} qcs={natList ids}")
      | _ => (s, "reject")
    | _, _, _ => (s, "bad-op")
  | ["verify-qc", r, q] =>
    match s.replica r, s.qcs.lookup q with
    | some r, some qc => (s, verdictB (verifyQC E (markQC s.popBad r qc)))
    | _, _ => (s, "bad-op")
  | ["verify-tc", r, t] =>
    match s.replica r, s.tcs.lookup t with
    | some r, some tc => (s, verdictB (verifyTC E (markTC s.popBad r tc)))
    | _, _ => (s, "bad-op")
  | ["verify-agg", r, a] =>
    match s.replica r, s.aggs.lookup a with
    | some r, some ag =>
      let ag := markAgg s.popBad r ag
      -- Go sorts with an unstable sort over a map: among valid QCs of the same (maximal) view any
      -- one may be reported; all alternatives are listed (separated by " || ")
      match verifyAggQC E ag with
      | .ok q => (s, joinWith " || " (dedupStr ((highCandidates E ag q).map fun x => s!"ok high={x.view}:{x.hash}")))
      | r => (s, vresStr (fun _ => "ok") r)
    | _, _ => (s, "bad-op")
  | ["verify-any", r, b, a] =>
    match s.replica r, s.blocks.lookup b with
    | some r, some b =>
      let b := { b with qc := markQC s.popBad r b.qc }
      if a == "-" then (s, vresStr (fun _ => "ok") (verifyAnyQC E s.agg b.qc none))
      else match (s.aggs.lookup a).map (markAgg s.popBad r) with
        | some ag =>
          match (if s.agg then ag.sig else none), verifyAggQC E ag with
          | some _, .ok q =>
            (s, joinWith " || " (dedupStr ((highCandidates E ag q).map fun x =>
              if (b.qc.view == x.view && b.qc.hash == x.hash) && verifyQC E b.qc then "ok" else "reject")))
          | _, _ => (s, vresStr (fun _ => "ok") (verifyAnyQC E s.agg b.qc (some ag)))
        | none => (s, "bad-op")
    | _, _ => (s, "bad-op")
  | ["verify-pc", r, sg, b] =>
    match s.replica r, s.sigOrNil sg, s.hashOf b with
    | some r, some sg, some h =>
      match sg with
      | none => (s, "skip")
      | some _ => (s, vresStr (fun _ => "ok") (verifyPC E (sg.map (markSig s.popBad r)) h))
    | _, _, _ => (s, "bad-op")
  | ["verify", r, sg, m] =>
    match s.replica r, s.sigOrNil sg, s.msgOf m with
    | some r, some sg, some m =>
      (s, match sg with | none => "reject" | some sg => verdictB (verify E.T E.cfg (markSig s.popBad r sg) m))
    | _, _, _ => (s, "bad-op")
  | ["batch-verify", r, sg, b] =>
    match s.replica r, s.sigOrNil sg with
    | some r, some sg =>
      let sg := sg.map (markSig s.popBad r)
      let ents := if b == "-" then some [] else
        (splitChar ',' b).mapM fun e =>
          match splitChar '=' e with
          | [id, m] => match id.toNat?, s.msgOf m with
            | some id, some m => some (id, m)
            | _, _ => none
          | _ => none
      match ents with
      | some es =>
        let batch := es.foldl (fun acc p => setAssoc p.1 p.2 acc) []
        (s, match sg with | none => "reject" | some sg => verdictB (batchVerify E.T E.cfg sg batch))
      | none => (s, "bad-op")
    | _, _ => (s, "bad-op")
  | _ => (s, "bad-op")
where
  lookupAllS {α} (tbl : List (String × α)) : List String → Option (List α)
    | [] => some []
    | n :: ns => do
      let x ← tbl.lookup n
      let r ← lookupAllS tbl ns
      pure (x :: r)
  insertSortedN (x : Nat) : List Nat → List Nat
    | [] => [x]
    | y :: ys => if x < y then x :: y :: ys else if x == y then y :: ys else y :: insertSortedN x ys

-- @family "cert" certFam
def certFam : Fam := { σ := CertSt, init := {}, step := certStep }

end HsVerif.Drv

namespace HsVerif.Drv
open HsVerif.Model HsVerif.Spec

/-- Oracle for C02 on the implementation's answers.  Object-building ops only update the symbolic
state (ground truth of who signed what); verdict ops are judged against `Spec/Cert.lean`. -/
def certOracleStep (s : CertSt) (toks : List String) : CertSt × String :=
  let (lhs, rhs) := splitArrow toks
  let E := s.env
  let ans := rhs.headD ""
  match lhs with
  | ["verify-qc", r, q] =>
    match (s.qcs.lookup q).map (markQC s.popBad (r.toNat?.getD 0)) with
    | some qc =>
      if ans == "ok" && !soundQC E qc then (s, s!"fail qc-unsound accepted {q} = {qcKey qc} signers={natList (match qc.sig with | some sg => signersFor E.T E.cfg sg (blkMsg qc.hash) | none => [])} quorum={E.cfg.quorum}")
      else if ans == "reject" && honestQC E qc && decide (2 ≤ E.cfg.n) then (s, s!"fail qc-incomplete rejected honest {q} = {qcKey qc}")
      else (s, "pass")
    | none => (s, "pass")
  | ["verify-tc", r, t] =>
    match (s.tcs.lookup t).map (markTC s.popBad (r.toNat?.getD 0)) with
    | some tc =>
      if ans == "ok" && !soundTC E tc then (s, s!"fail tc-unsound accepted {t} view={tc.view}")
      else if ans == "reject" && honestTC E tc && decide (2 ≤ E.cfg.n) then (s, s!"fail tc-incomplete rejected honest {t}")
      else (s, "pass")
    | none => (s, "pass")
  | ["verify-agg", r, a] =>
    match (s.aggs.lookup a).map (markAgg s.popBad (r.toNat?.getD 0)) with
    | some ag =>
      if ans == "ok" then
        match (field "high" rhs).map (splitChar ':') with
        | some [v, h] =>
          match v.toNat?, s.hashOf h with
          | some v, some h => if soundAgg E ag v h then (s, "pass") else (s, s!"fail agg-unsound accepted {a} high={v}:{h} signers={natList (aggSigners E ag)}")
          | _, _ => (s, "fail agg-shape unparsable high")
        | _ => (s, "fail agg-shape unparsable high")
      else (s, "pass")
    | none => (s, "pass")
  | ["verify-any", r, b, _] =>
    match (s.blocks.lookup b).map (fun b => { b with qc := markQC s.popBad (r.toNat?.getD 0) b.qc }) with
    | some b => if ans == "ok" && !soundQC E b.qc then (s, s!"fail any-unsound accepted proposal whose QC {qcKey b.qc} is unsound") else (s, "pass")
    | none => (s, "pass")
  | ["verify-pc", r, sg, b] =>
    match (s.sigOrNil sg).map (·.map (markSig s.popBad (r.toNat?.getD 0))), s.hashOf b with
    | some (some sg), some h =>
      if ans == "ok" && (signersFor E.T E.cfg sg (blkMsg h)).isEmpty then (s, s!"fail pc-unsound accepted vote without a genuine signature over {h}")
      else (s, "pass")
    | _, _ => (s, "pass")
  | ["verify", r, sg, m] =>
    match (s.sigOrNil sg).map (·.map (markSig s.popBad (r.toNat?.getD 0))), s.msgOf m with
    | some (some sg), some m =>
      if ans == "ok" && decide ((signersFor E.T E.cfg sg m).length < sg.len) then
        (s, s!"fail verify-unsound accepted {sigKey (some sg)} for {m}: genuine signers {natList (signersFor E.T E.cfg sg m)} claimed {natList sg.participants}")
      else if ans == "reject" && honestSig E.T E.cfg sg m then (s, s!"fail verify-incomplete rejected honest signature for {m}")
      else (s, "pass")
    | _, _ => (s, "pass")
  | _ => ((certStep s lhs).1, "pass")

-- @family "cert.oracle" certOracle
def certOracle : Fam := { σ := CertSt, init := {}, step := certOracleStep }

end HsVerif.Drv
