import HsVerif.Drv.Cert
import HsVerif.Model.Wire
/-! Model driver for the `wire` family (C12): objects of the cert family through the model's
`*ToProto` / `*FromProto`. -/
namespace HsVerif.Drv
open HsVerif.Model

structure WireSt where
  c : CertSt := {}
  content : List (String × BlockContent) := []     -- per block name
  nblk : Nat := 0
  sis : List (String × SyncInfo) := []
  nums : List String := []                         -- numbering of distinct signature byte strings

def WireSt.num (w : WireSt) (key : String) : WireSt × String :=
  match w.nums.idxOf? key with
  | some i => (w, s!"#{i + 1}")
  | none => ({ w with nums := w.nums ++ [key] }, s!"#{w.nums.length + 1}")

def entryList (w : WireSt) (es : List Entry) : WireSt × String :=
  es.foldl (fun (acc : WireSt × String) e =>
    let (w', n) := acc.1.num s!"m{e.bytes}"
    (w', acc.2 ++ s!"({e.claimed},{n})")) (w, "")

def dSig (w : WireSt) : Option Sig → WireSt × String
  | none => (w, "nil")
  | some (.multi k es) =>
    let (w', body) := entryList w es
    (w', (if k == .eddsa then "eddsa[" else "ecdsa[") ++ body ++ "]")
  | some (.bls a j bits) =>
    let (w', n) := w.num (sigKey (some (.bls a j bits)))
    (w', s!"bls({n};len={bits.len};ids={natList bits.ids};bytes={hexOfBytes bits.bytes})")

def genesisContent : BlockContent := ⟨"", 0, 0, [], ⟨none, 0, ""⟩, (1735689600, 0)⟩

def WireSt.hashName (w : WireSt) (h : Hash) : String :=
  if h == "" then "zero" else
  if h.startsWith "unk:" || h == "?" then "?" else
  if h == genesisHash then "G" else h

/-- name of the block whose content this is (the lexicographically smallest, as the Go side) -/
def WireSt.nameOfContent (w : WireSt) (c : BlockContent) : String :=
  let names := (w.content.filter (fun p => p.2 == c)).map (·.1)
  match names with
  | [] => "?"
  | n :: ns => ns.foldl (fun a b => if b < a then b else a) n

def dQC (w : WireSt) (q : QC) : WireSt × String :=
  let (w', s) := dSig w q.sig
  (w', s!"qc(v={q.view},h={w.hashName q.hash},sig={s})")

def dTC (w : WireSt) (t : TC) : WireSt × String :=
  let (w', s) := dSig w t.sig
  (w', s!"tc(v={t.view},sig={s})")

def sortByKeyW {α} (l : List (Nat × α)) : List (Nat × α) :=
  l.foldr (fun p acc =>
    let rec ins : List (Nat × α) → List (Nat × α)
      | [] => [p]
      | q :: qs => if p.1 ≤ q.1 then p :: q :: qs else q :: ins qs
    ins acc) []

def dAgg (w : WireSt) (a : AggQC) : WireSt × String :=
  let (w1, s) := dSig w a.sig
  let (w2, parts) := (sortByKeyW a.qcs).foldl (fun (acc : WireSt × List String) p =>
    let (w', d) := dQC acc.1 p.2
    (w', acc.2 ++ [s!"{p.1}:{d}"])) (w1, [])
  (w2, s!"agg(v={a.view},sig={s},qcs=" ++ "{" ++ joinWith "," parts ++ "})")

def dSI (w : WireSt) (s : SyncInfo) : WireSt × String :=
  let (w1, q) := match s.qc with | some q => dQC w q | none => (w, "-")
  let (w2, t) := match s.tc with | some t => dTC w1 t | none => (w1, "-")
  let (w3, a) := match s.agg with | some a => dAgg w2 a | none => (w2, "-")
  (w3, s!"si(qc={q},tc={t},agg={a})")

def dBlock (w : WireSt) (b : BlockContent) : WireSt × String :=
  let (w', q) := dQC w b.qc
  (w', s!"blk(parent={w.hashName b.parent},proposer={b.proposer},view={b.view},cmds=[{joinWith ";" b.cmds}],qc={q},ts={b.ts.1}.{b.ts.2})")

def sameStr (b : Bool) : String := if b then "same" else "DIFF"

def partsEqM : Option Sig → Option Sig → Bool
  | none, none => true
  | some a, some b => a.participants == b.participants && a.len == b.len
  | _, _ => false

/-- Euclidean split of nanoseconds the way `time.Unix(sec, nsec)` normalises -/
def normTs (sec : Int) (ns : Int) : Int × Nat :=
  let s := sec + ns / 1000000000
  let n := ns % 1000000000
  (s, n.toNat)

def parseIntW (s : String) : Option Int :=
  if s.startsWith "-" then (dropStr 1 s).toNat?.map (fun n => -(n : Int)) else s.toNat?.map (fun n => (n : Int))

def WireSt.addBlock (w : WireSt) (name : String) (c : BlockContent) (store : Bool) : WireSt :=
  let b : Block := { hash := name, parent := c.parent, view := c.view, proposer := c.proposer, qc := c.qc, cmds := c.cmds }
  -- identical content = identical hash: reuse the first name as the hash so that lookups agree
  let canon := match w.content.find? (fun p => p.2 == c) with
    | some p => p.1
    | none => name
  let b := { b with hash := canon }
  { w with content := w.content ++ [(name, c)],
           c := { w.c with blocks := (name, b) :: w.c.blocks,
                           store := if store && canon == name then (name, b) :: w.c.store else w.c.store } }

def wireStep (w : WireSt) (toks : List String) : WireSt × String :=
  let s := w.c
  let E := s.env
  match toks with
  | "cfg" :: _ =>
    let (c', out) := certStep {} toks
    ({ c := c', content := [("G", genesisContent)] }, out)
  | "block" :: name :: rest =>
    if !s.ready then (w, "bad-op") else
    match (field "parent" rest).bind s.hashOf, (field "qc" rest).bind (s.qcs.lookup ·), natField "view" rest, natField "proposer" rest with
    | some ph, some qc, some v, some p =>
      let n := w.nblk + 1
      let c : BlockContent := ⟨ph, p, v, [s!"1/{n}/{name}"], qc, (1700000000 + n, 0)⟩
      ({ (w.addBlock name c (field "store" rest != some "none")) with nblk := n }, "ok")
    | _, _, _, _ => (w, "bad-op")
  | "wblock" :: name :: rest =>
    if !s.ready then (w, "bad-op") else
    match (field "parent" rest).bind s.hashOf, (field "qc" rest).bind (s.qcs.lookup ·), natField "view" rest, natField "proposer" rest,
          natField "cmds" rest, (field "ts" rest).map (splitChar '.') with
    | some ph, some qc, some v, some p, some nc, some [sec, ns] =>
      match parseIntW sec, parseIntW ns with
      | some sec, some ns =>
        let cmds := (List.range nc).map fun i => s!"{i % 3 + 1}/{i}/{name}.{i}"
        (w.addBlock name ⟨ph, p, v, cmds, qc, normTs sec ns⟩ true, "ok")
      | _, _ => (w, "bad-op")
    | _, _, _, _, _, _ => (w, "bad-op")
  | "si" :: name :: rest =>
    if !s.ready then (w, "bad-op") else
    let get {α} (tbl : List (String × α)) (k : String) : Option (Option α) :=
      match field k rest with
      | some "-" => some none
      | some n => (tbl.lookup n).map some
      | none => none
    match get s.qcs "qc", get s.tcs "tc", get s.aggs "agg" with
    | some q, some t, some a => ({ w with sis := (name, ⟨q, t, a⟩) :: w.sis }, "ok")
    | _, _, _ => (w, "bad-op")
  | ["fetch", r, b] =>
    match s.replica r, s.hashOf b with
    | some _, some h =>
      match s.store.lookup h with
      | none => (w, "not-found")
      | some blk =>
        match w.content.lookup blk.hash with
        | none => (w, "not-found")
        | some c =>
          let got := blockFromProto (blockToProto c)
          let (w', d) := dBlock w got
          (w', s!"{d} | hash={sameStr (got == c)}")
    | _, _ => (w, "bad-op")
  | "rt" :: kind :: name :: rest =>
    if !s.ready then (w, "bad-op") else
    let frm := (natField "from" rest).getD 0
    match (match field "at" rest with | some a => s.replica a | none => some 1) with
    | none => (w, "bad-op")
    | some _ =>
    match kind with
    | "sig" =>
      match s.sigs.lookup name with
      | none => (w, "bad-op")
      | some sg =>
        let got := sigFromProto (sigToProto (some sg))
        let m := ((field "msg" rest).bind s.msgOf).getD "raw-x"
        let (w', d) := dSig w got
        let v (x : Option Sig) := match x with | some x => verdictB (verify E.T E.cfg x m) | none => "reject"
        (w', s!"{d} | bytes={sameStr (sigKey got == sigKey (some sg))} parts={sameStr (partsEqM (some sg) got)} verdict={v (some sg)}/{v got}")
    | "pc" =>
      match s.sigs.lookup name, (field "hash" rest).bind s.hashOf with
      | some sg, some h =>
        let (signer, gs, gh) := pcFromProto (pcToProto (some sg) h)
        let (w', d) := dSig w gs
        let v (x : Option Sig) := vresStr (fun _ => "ok") (verifyPC E x h)
        (w', s!"pc(signer={signer},h={w.hashName gh},sig={d}) | hash={sameStr (gh == h)} bytes={sameStr (gh == h && sigKey gs == sigKey (some sg))} parts={sameStr (partsEqM (some sg) gs && signer == sg.first)} verdict={v (some sg)}/{v gs}")
      | _, _ => (w, "bad-op")
    | "qc" =>
      match s.qcs.lookup name with
      | none => (w, "bad-op")
      | some q =>
        let got := qcFromProto (qcToProto q)
        let (w', d) := dQC w got
        (w', s!"{d} | hash={sameStr (got.hash == q.hash)} bytes={sameStr (qcKey got == qcKey q)} parts={sameStr (partsEqM q.sig got.sig)} equals={q.equals got} verdict={verdictB (verifyQC E q)}/{verdictB (verifyQC E got)}")
    | "tc" =>
      match s.tcs.lookup name with
      | none => (w, "bad-op")
      | some t =>
        let got := tcFromProto (tcToProto t)
        let (w', d) := dTC w got
        if t.sig.isNone then (w', s!"{d} | verdict={verdictB (verifyTC E t)}/{verdictB (verifyTC E got)}")
        else (w', s!"{d} | bytes={sameStr (got.sig.isSome && got.view == t.view && sigKey got.sig == sigKey t.sig)} parts={sameStr (partsEqM t.sig got.sig)} verdict={verdictB (verifyTC E t)}/{verdictB (verifyTC E got)}")
    | "agg" =>
      match s.aggs.lookup name with
      | none => (w, "bad-op")
      | some a =>
        if a.sig.isNone then (w, "bad-op") else
        let got := aggFromProto (aggToProto a)
        let (w', d) := dAgg w got
        let v (x : AggQC) := match x.sig with
          | none => "nil-sig"
          | some _ => vresStr (fun (q : QC) => s!"ok:{q.view}:{w.hashName q.hash}") (verifyAggQC E x)
        (w', s!"{d} | parts={sameStr (partsEqM a.sig got.sig)} verdict={v a}/{v got}")
    | "si" =>
      match w.sis.lookup name with
      | none => (w, "bad-op")
      | some si => dSI w (syncFromProto (syncToProto si))
    | "tmo" =>
      match s.tmos.lookup name with
      | none => (w, "bad-op")
      | some t =>
        let tm : TimeoutMsg := ⟨t.id, t.view, t.viewSig, t.msgSig, ⟨t.qc, none, none⟩⟩
        let got := tmoFromProto (tmoToProto tm) frm
        let (w1, vs) := dSig w got.viewSig
        let (w2, ms) := dSig w1 got.msgSig
        let (w3, si) := dSI w2 got.si
        (w3, s!"tmo(id={got.id},v={got.view},vs={vs},ms={ms},{si}) | bytes={sameStr (tmoKey got.id got.view got.si.qc == tmoKey t.id t.view t.qc)}")
    | "block" =>
      match w.content.lookup name with
      | none => (w, "bad-op")
      | some c =>
        let got := blockFromProto (blockToProto c)
        let (w', d) := dBlock w got
        (w', s!"{d} | hash={sameStr (got == c)} bytes={sameStr (got == c)} digest=same")
    | "prop" =>
      match w.content.lookup name with
      | none => (w, "bad-op")
      | some c =>
        let ag := match field "agg" rest with
          | some "-" => some none
          | none => some none
          | some a => (s.aggs.lookup a).map some
        match ag with
        | none => (w, "bad-op")
        | some ag =>
          let (id, got, gag) := proposalRT c ag frm
          let (w1, d) := dBlock w got
          let (w2, ad) := match gag with | some a => dAgg w1 a | none => (w1, "-")
          (w2, s!"prop(id={id},{d},agg={ad}) | hash={sameStr (got == c)}")
    | _ => (w, "bad-op")
  | _ =>
    let (c', out) := certStep s toks
    ({ w with c := c' }, out)

-- @family "wire" wireFam
def wireFam : Fam := { σ := WireSt, init := {}, step := wireStep }

end HsVerif.Drv

namespace HsVerif.Drv
open HsVerif.Model

/-- Oracle for C12 on the implementation's answers: after the round trip every reported aspect
(hash, bytes-to-sign, participants, verdict) must be unchanged, whenever the message comes from
the replica that created it. -/
def wireOracleStep (w : WireSt) (toks : List String) : WireSt × String :=
  let (lhs, rhs) := splitArrow toks
  match lhs with
  | "rt" :: kind :: name :: rest =>
    let frm := (natField "from" rest).getD 0
    let honest := match kind with
      | "tmo" => (w.c.tmos.lookup name).map (fun t => t.id == frm) |>.getD true
      | "prop" => (w.content.lookup name).map (fun c => c.proposer == frm) |>.getD true
      | _ => true
    let flags := (rhs.dropWhile (· ≠ "|")).drop 1
    if rhs.head? == some "bad-op" then (w, "pass") else
    if rhs.head? == some "panic" then (w, s!"fail roundtrip-panic {kind} {name}") else
    if !honest then (w, "pass") else
    let bad := flags.filter fun f =>
      match splitChar '=' f with
      | [k, v] =>
        if k == "verdict" then
          match splitChar '/' v with
          | [a, b] => a != b
          | _ => true
        else if k == "equals" then v != "true"
        else v != "same"
      | _ => true
    if bad.isEmpty then (w, "pass") else (w, s!"fail roundtrip-{kind} {name}: {joinWith " " bad}")
  | ["fetch", _, b] =>
    if rhs.head? == some "not-found" || rhs.head? == some "bad-op" then (w, "pass")
    else if rhs.getLast? == some "hash=same" then (w, "pass") else (w, s!"fail fetch-hash {b}: {joinWith " " rhs}")
  | _ => ((wireStep w lhs).1, "pass")

-- @family "wire.oracle" wireOracle
def wireOracle : Fam := { σ := WireSt, init := {}, step := wireOracleStep }

end HsVerif.Drv
