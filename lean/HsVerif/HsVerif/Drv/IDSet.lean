import HsVerif.Drv.Core
import HsVerif.Model.IDSet
namespace HsVerif.Drv
open HsVerif.Model

structure IdsetSt where
  bf : Bitfield := Bitfield.empty
  scheme : String := ""
  n : Nat := 0
  multi : List (String × List Nat) := []
  bls : List (String × Bitfield) := []

def descIds (len : Nat) (ids : List Nat) : String := s!"ok len={len} ids={natList ids}"

def lookupAll {α} (tbl : List (String × α)) : List String → Option (List α)
  | [] => some []
  | n :: ns => do
    let x ← tbl.lookup n
    let r ← lookupAll tbl ns
    pure (x :: r)

def idsetStep (s : IdsetSt) (toks : List String) : IdsetSt × String :=
  match toks with
  | ["bf.add", i] =>
    match i.toNat? with
    | none => (s, "bad-op")
    | some 0 =>
      -- outside the model: Go extends an empty field by one byte, then panics on the shift by -1
      ({ s with bf := { s.bf with data := if s.bf.data.isEmpty then [0] else s.bf.data } }, "panic")
    | some id =>
      let bf := s.bf.add id
      ({ s with bf := bf }, s!"len={bf.len} bytes={hexOfBytes bf.bytes}")
  | ["bf.contains", i] =>
    match i.toNat? with
    | none => (s, "bad-op")
    | some 0 => (s, if s.bf.data.isEmpty then "false" else "panic")
    | some id => (s, toString (s.bf.contains id))
  | ["bf.ids"] => (s, natList s.bf.ids)
  | ["bf.first"] => (s, s!"{s.bf.first} calls={if s.bf.ids.isEmpty then 0 else 1}")
  | ["bf.len"] => (s, toString s.bf.len)
  | ["bf.bytes"] => (s, hexOfBytes s.bf.bytes)
  | ["bf.frombytes", h] =>
    match bytesOfHex h with
    | none => (s, "bad-op")
    | some b =>
      let bf := Bitfield.fromBytes b
      ({ s with bf := bf }, s!"len={bf.len} ids={natList bf.ids}")
  | ["scheme", nm, n] =>
    match n.toNat? with
    | some k =>
      if (nm == "ecdsa" || nm == "eddsa" || nm == "bls12") && 1 ≤ k && k ≤ 64 then
        ({ s with scheme := nm, n := k, multi := [], bls := [] }, "ok")
      else (s, "bad-op")
    | none => (s, "bad-op")
  | ["ms.sign", r, nm] =>
    match r.toNat? with
    | some r =>
      if s.scheme == "" || r < 1 || r > s.n then (s, "bad-op")
      else if s.scheme == "bls12" then
        let bf := Bitfield.empty.add r
        ({ s with bls := (nm, bf) :: s.bls }, descIds bf.len bf.ids)
      else ({ s with multi := (nm, [r]) :: s.multi }, descIds 1 [r])
    | none => (s, "bad-op")
  | "ms.combine" :: out :: ins =>
    if s.scheme == "" then (s, "bad-op")
    else if s.scheme == "bls12" then
      match lookupAll s.bls ins with
      | none => (s, "bad-op")
      | some l =>
        match blsCombine l with
        | .ok bf => ({ s with bls := (out, bf) :: s.bls }, descIds bf.len bf.ids)
        | .error .overlap => (s, "reject:overlap")
        | .error .multiple => (s, "reject:multiple")
    else
      match lookupAll s.multi ins with
      | none => (s, "bad-op")
      | some l =>
        match multiCombine l with
        | .ok r => ({ s with multi := (out, r) :: s.multi }, descIds r.length r)
        | .error .overlap => (s, "reject:overlap")
        | .error .multiple => (s, "reject:multiple")
  | ["ms.contains", nm, i] =>
    match i.toNat? with
    | none => (s, "bad-op")
    | some id =>
      if s.scheme == "bls12" then
        match s.bls.lookup nm with
        | some bf => (s, if id == 0 then (if bf.data.isEmpty then "false" else "panic") else toString (bf.contains id))
        | none => (s, "bad-op")
      else
        match s.multi.lookup nm with
        | some l => (s, toString (l.contains id))
        | none => (s, "bad-op")
  | _ => (s, "bad-op")

-- @family "idset" idsetFam
-- @family "idset.oracle" idsetOracle
def idsetFam : Fam := { σ := IdsetSt, init := {}, step := idsetStep }

/-- Oracle for C19 on the implementation's answers: an ideal set (sorted duplicate-free list) is
kept beside the script and every answer is compared with it.  -/
structure IdsetOr where
  ideal : List Nat := []          -- ascending, duplicate-free
  known : Bool := true            -- false after an op outside the property (id 0)
  sigs : List (String × List Nat) := []   -- ideal signer sets (ascending) of named signatures
  bls : Bool := false

def insertSorted (x : Nat) : List Nat → List Nat
  | [] => [x]
  | y :: ys => if x < y then x :: y :: ys else if x == y then y :: ys else y :: insertSorted x ys

def sortDedup (l : List Nat) : List Nat := l.foldl (fun acc x => insertSorted x acc) []

def bitsOfBytes (b : List Nat) : List Nat :=
  ((List.range (8 * b.length)).filter fun k => ((b.getD (k / 8) 0) / 2 ^ (k % 8)) % 2 == 1).map (· + 1)

def idsetOracleStep (s : IdsetOr) (toks : List String) : IdsetOr × String :=
  let (lhs, rhs) := splitArrow toks
  match lhs with
  | ["bf.add", i] =>
    match i.toNat? with
    | some 0 => ({ s with known := false }, "pass")
    | some id =>
      let ideal := insertSorted id s.ideal
      let s' := { s with ideal := ideal }
      if !s.known then (s', "pass") else
      match (field "len" rhs).bind (·.toNat?) with
      | some l => (s', if l == ideal.length then "pass" else s!"fail bitfield-len after add {id}: len={l} want {ideal.length}")
      | none => (s', "fail bitfield-shape add")
    | none => (s, "pass")
  | ["bf.contains", i] =>
    match i.toNat? with
    | some 0 => (s, "pass")
    | some id =>
      if !s.known then (s, "pass") else
      (s, if rhs == [toString (s.ideal.contains id)] then "pass" else s!"fail bitfield-contains {id}: got {rhs} want {s.ideal.contains id}")
    | none => (s, "pass")
  | ["bf.ids"] =>
    if !s.known then (s, "pass") else
    (s, if rhs == [natList s.ideal] then "pass" else s!"fail bitfield-iteration got {rhs} want {natList s.ideal}")
  | ["bf.first"] =>
    if !s.known then (s, "pass") else
    (s, if rhs.head? == some (toString (s.ideal.headD 0)) then "pass" else s!"fail bitfield-first got {rhs}")
  | ["bf.len"] =>
    if !s.known then (s, "pass") else
    (s, if rhs == [toString s.ideal.length] then "pass" else s!"fail bitfield-len got {rhs} want {s.ideal.length}")
  | ["bf.bytes"] => (s, "pass")
  | ["bf.frombytes", h] =>
    match bytesOfHex h with
    | none => (s, "pass")
    | some b =>
      let ideal := bitsOfBytes b
      let s' := { s with ideal := ideal, known := true }
      let okLen := (field "len" rhs).bind (·.toNat?) == some ideal.length
      let okIds := field "ids" rhs == some (natList ideal)
      (s', if okLen && okIds then "pass" else s!"fail bitfield-frombytes {h}: got {rhs} want len={ideal.length} ids={natList ideal}")
  | ["scheme", nm, _] => ({ s with sigs := [], bls := nm == "bls12" }, "pass")
  | ["ms.sign", r, nm] =>
    match r.toNat? with
    | some r =>
      if rhs.head? != some "ok" then (s, "pass") else
      let s' := { s with sigs := (nm, [r]) :: s.sigs }
      let ok := (field "len" rhs).bind (·.toNat?) == some 1 && (field "ids" rhs).bind parseNatList == some [r]
      (s', if ok then "pass" else s!"fail sign-participants got {rhs}")
    | none => (s, "pass")
  | "ms.combine" :: out :: ins =>
    match lookupAll s.sigs ins with
    | none => (s, "pass")
    | some l =>
      let all := l.flatten
      let distinct := sortDedup all
      let disjoint := distinct.length == all.length
      if rhs.head? == some "ok" then
        let s' := { s with sigs := (out, distinct) :: s.sigs }
        let len := (field "len" rhs).bind (·.toNat?)
        let ids := (field "ids" rhs).bind parseNatList
        if ins.length < 2 then (s', "fail combine-single accepted fewer than two signatures")
        else if !disjoint then (s', s!"fail combine-overlap accepted overlapping signers {natList all}")
        else if len != some distinct.length then (s', s!"fail combine-len got {rhs} want len={distinct.length}")
        else if (ids.map sortDedup) != some distinct then (s', s!"fail combine-members got {rhs} want {natList distinct}")
        else if (ids.map (·.length)) != some distinct.length then (s', s!"fail combine-duplicates got {rhs}")
        else (s', "pass")
      else
        (s, if ins.length ≥ 2 && disjoint then s!"fail combine-refused disjoint signatures {natList all}: {rhs}" else "pass")
  | ["ms.contains", nm, i] =>
    match s.sigs.lookup nm, i.toNat? with
    | some l, some id =>
      if id == 0 then (s, "pass") else
      (s, if rhs == [toString (l.contains id)] then "pass" else s!"fail participants-contains {nm} {id}: got {rhs}")
    | _, _ => (s, "pass")
  | _ => (s, "pass")

def idsetOracle : Fam := { σ := IdsetOr, init := {}, step := idsetOracleStep }

end HsVerif.Drv
