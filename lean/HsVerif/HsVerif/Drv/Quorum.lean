import HsVerif.Drv.Core
import HsVerif.Model.Quorum
namespace HsVerif.Drv
open HsVerif.Model

-- @family "quorum" quorumFam
-- @family "quorum.oracle" quorumOracle
def quorumFam : Fam where
  σ := Unit
  init := ()
  step := fun _ toks =>
    match toks with
    | ["quorum", n] => match n.toNat? with
      | some k => ((), s!"f={numFaulty k} q={quorumSize k}")
      | none => ((), "bad-op")
    | ["cfgquorum", n] => match n.toNat? with
      | some k => ((), s!"q={quorumSize k}")
      | none => ((), "bad-op")
    | _ => ((), "bad-op")

/-- Property C20 decided on an observed (n, f, q): f maximal with 3f < n, intersection,
availability, minimality of q.  (n = 0 is outside the property: only shape is checked.) -/
def quorumOk (n f q : Nat) : Bool :=
  n == 0 ||
  (decide (3 * f < n) && decide (n ≤ 3 * (f + 1)) &&      -- f is the largest integer with 3f < n
   decide (n + f + 1 ≤ 2 * q) &&                          -- two quorums share ≥ f+1 replicas
   decide (q + f ≤ n) &&                                  -- honest replicas can form a quorum
   decide (2 * q < n + f + 1 + 2))                        -- q minimal with the intersection property

def kv (key : String) (tok : String) : Option Nat :=
  if tok.startsWith (key ++ "=") then (tok.drop (key.length + 1)).toNat? else none

def quorumOracle : Fam where
  σ := Unit
  init := ()
  step := fun _ toks =>
    match toks with
    | ["quorum", n, "=>", f, q] =>
      match n.toNat?, kv "f" f, kv "q" q with
      | some n, some f, some q =>
        ((), if quorumOk n f q then "pass" else s!"fail quorum-threshold n={n} f={f} q={q}")
      | _, _, _ => ((), "fail quorum-shape unparsable answer")
    | ["cfgquorum", n, "=>", q] =>
      match n.toNat?, kv "q" q with
      | some n, some q =>
        ((), if quorumOk n (numFaulty n) q then "pass" else s!"fail config-threshold n={n} q={q}")
      | _, _ => ((), "fail quorum-shape unparsable answer")
    | _ => ((), "fail quorum-shape unparsable line")

end HsVerif.Drv
