/-! Generic line-protocol loop shared by all families of the model driver `hsmodel`. -/
namespace HsVerif.Drv

def isSp (c : Char) : Bool := c == ' ' || c == '\t' || c == '\n' || c == '\r'

def tokensAux : List Char → List Char → List String → List String
  | [], cur, acc => (if cur.isEmpty then acc else String.ofList cur.reverse :: acc).reverse
  | c :: cs, cur, acc =>
    if isSp c then tokensAux cs [] (if cur.isEmpty then acc else String.ofList cur.reverse :: acc)
    else tokensAux cs (c :: cur) acc

def tokens (line : String) : List String := tokensAux line.toList [] []

/-- A family: initial state and a step on tokenised lines. -/
structure Fam where
  σ : Type
  init : σ
  step : σ → List String → σ × String

partial def loopF (flush : Bool) (h : IO.FS.Stream) (out : IO.FS.Stream) (f : Fam) (s : f.σ) : IO Unit := do
  let line ← h.getLine
  if line.isEmpty then return ()
  let toks := tokens line
  let (s', o) : f.σ × String := match toks with
    | [] => (s, "#")
    | t :: _ =>
      if t.startsWith "#" then (s, "#")
      else if toks == ["reset"] then (f.init, "ok")
      else f.step s toks
  out.putStrLn o
  if flush then out.flush
  loopF flush h out f s'

/-- VERIF_FLUSH=1 answers line by line (interactive use: the script generator of the cluster
family consults the model while it writes a script) -/
def loop (h : IO.FS.Stream) (out : IO.FS.Stream) (f : Fam) (s : f.σ) : IO Unit := do
  let fl ← IO.getEnv "VERIF_FLUSH"
  loopF fl.isSome h out f s

def natList (l : List Nat) : String := "[" ++ ",".intercalate (l.map toString) ++ "]"

end HsVerif.Drv

namespace HsVerif.Drv

def hexDigit (n : Nat) : Char := if n < 10 then Char.ofNat (48 + n) else Char.ofNat (87 + n)

/-- lower-case hex of a byte list; "-" for the empty list -/
def hexOfBytes (b : List Nat) : String :=
  if b.isEmpty then "-" else String.ofList (b.flatMap fun x => [hexDigit ((x / 16) % 16), hexDigit (x % 16)])

def hexVal (c : Char) : Option Nat :=
  if '0' ≤ c ∧ c ≤ '9' then some (c.toNat - 48)
  else if 'a' ≤ c ∧ c ≤ 'f' then some (c.toNat - 87)
  else if 'A' ≤ c ∧ c ≤ 'F' then some (c.toNat - 55)
  else none

def bytesOfHexAux : List Char → Option (List Nat)
  | [] => some []
  | [_] => none
  | a :: b :: rest => do
    let x ← hexVal a
    let y ← hexVal b
    let r ← bytesOfHexAux rest
    pure ((x * 16 + y) :: r)

def bytesOfHex (s : String) : Option (List Nat) := if s == "-" then some [] else bytesOfHexAux s.toList

end HsVerif.Drv

namespace HsVerif.Drv

def dropStr (n : Nat) (s : String) : String := String.ofList (s.toList.drop n)

def splitCharAux (c : Char) : List Char → List Char → List String → List String
  | [], cur, acc => (String.ofList cur.reverse :: acc).reverse
  | x :: xs, cur, acc => if x == c then splitCharAux c xs [] (String.ofList cur.reverse :: acc) else splitCharAux c xs (x :: cur) acc

def splitChar (c : Char) (s : String) : List String := splitCharAux c s.toList [] []

/-- value of `key=value` among tokens -/
def field (key : String) (toks : List String) : Option String :=
  toks.findSome? fun t => if t.startsWith (key ++ "=") then some (dropStr (key.length + 1) t) else none

def natField (key : String) (toks : List String) : Option Nat := (field key toks).bind (·.toNat?)

/-- parse "[1,2,3]" -/
def parseNatList (s : String) : Option (List Nat) :=
  let cs := s.toList
  if cs.length < 2 || cs.head? != some '[' || cs.getLast? != some ']' then none else
  let inner := String.ofList ((cs.drop 1).dropLast)
  if inner.isEmpty then some [] else (splitChar ',' inner).mapM (·.toNat?)

/-- split tokens of an oracle line "<op ...> => <answer ...>" -/
def splitArrow (toks : List String) : List String × List String :=
  let (l, r) := toks.span (· ≠ "=>")
  (l, r.drop 1)

end HsVerif.Drv
