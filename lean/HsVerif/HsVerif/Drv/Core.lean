/-! Generic line-protocol loop shared by all families of the model driver `hsmodel`. -/
namespace HsVerif.Drv

def isSp (c : Char) : Bool := c == ' ' || c == '\t' || c == '\n' || c == '\r'

def tokensAux : List Char → List Char → List String → List String
  | [], cur, acc => (if cur.isEmpty then acc else String.ofList cur.reverse :: acc).reverse
  | c :: cs, cur, acc =>
    if isSp c then tokensAux cs [] (if cur.isEmpty then acc else String.ofList cur.reverse :: acc)
    else tokensAux cs (c :: cur) acc

def tokens (line : String) : List String := tokensAux line.toList [] []

/-- A family: initial state and a step on tokenised lines. -/
structure Fam where
  σ : Type
  init : σ
  step : σ → List String → σ × String

partial def loop (h : IO.FS.Stream) (out : IO.FS.Stream) (f : Fam) (s : f.σ) : IO Unit := do
  let line ← h.getLine
  if line.isEmpty then return ()
  let toks := tokens line
  match toks with
  | [] => out.putStrLn "#"; loop h out f s
  | t :: _ =>
    if t.startsWith "#" then
      out.putStrLn "#"; loop h out f s
    else if toks == ["reset"] then
      out.putStrLn "ok"; loop h out f f.init
    else
      let (s', o) := f.step s toks
      out.putStrLn o
      loop h out f s'

def natList (l : List Nat) : String := "[" ++ ",".intercalate (l.map toString) ++ "]"

end HsVerif.Drv
