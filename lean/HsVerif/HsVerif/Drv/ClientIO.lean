import HsVerif.Drv.Core
import HsVerif.Model.ClientIO
import HsVerif.Model.Sha256
/-! Model driver + oracle for the `clientio` family (C06): server/clientio.go `ExecCommand`,
`Exec`, `Abort`, `Hash`, `CmdCount`. -/
namespace HsVerif.Drv
open HsVerif.Model

structure CioSt where
  s : CIO := {}
  nreg : Nat := 0

def parseCioCmd (t : String) : Option Cmd :=
  match splitChar '/' t with
  | [c, q, d] => do
    let c ← c.toNat?
    let q ← q.toNat?
    let b ← bytesOfHex d
    if c < 2 ^ 32 ∧ q < 2 ^ 64 then pure ⟨c, q, String.ofList (b.map Char.ofNat)⟩ else none
  | _ => none

def parseCioBatch (t : String) : Option (List Cmd) :=
  if t == "-" then some [] else (splitChar ',' t).mapM parseCioCmd

def cioOutcomeName : Outcome → String
  | .ok => "ok" | .alreadyExecuted => "dup" | .forked => "forked"

def cioSortNat {α} (key : α → Nat) (l : List α) : List α :=
  l.foldl (fun acc x => let (a, b) := acc.span (fun y => key y ≤ key x); a ++ [x] ++ b) []

def cioDigest (s : CIO) : String :=
  Sha256.hex (s.executed.flatMap fun c => c.data.toList.map fun ch => UInt8.ofNat ch.toNat)

def cioReport (old new : CIO) : String :=
  let fresh := cioSortNat (·.1) (new.outcomes.drop old.outcomes.length)
  "out=[" ++ ",".intercalate (fresh.map fun o => s!"{o.1}:{cioOutcomeName o.2.2}") ++ "]" ++
  s!" count={new.executed.length} digest={cioDigest new}"

def cioStep (st : CioSt) (toks : List String) : CioSt × String :=
  match toks with
  | ["register", t] =>
    match parseCioCmd t with
    | some c => let k := st.nreg + 1
                ({ s := st.s.step (.register c k), nreg := k }, s!"ok chan={k}")
    | none => (st, "bad-op")
  | ["exec", t] =>
    match parseCioBatch t with
    | some b => let s' := st.s.step (.exec b); ({ st with s := s' }, cioReport st.s s')
    | none => (st, "bad-op")
  | ["abort", t] =>
    match parseCioBatch t with
    | some b => let s' := st.s.step (.abort b); ({ st with s := s' }, cioReport st.s s')
    | none => (st, "bad-op")
  | ["longcommit", c, k] =>
    -- a replica that catches up: k chained blocks of one command each (client 7, sequence number = view, one data
    -- byte = view), the newest handed to TryCommit: chained HotStuff commits the blocks of views 1 … k-3, and the
    -- application executes exactly their commands, in chain order — whatever the capacity of the event queue
    match c.toNat?, k.toNat? with
    | some c, some k =>
      if c < 1 || c > 100000 || k < 1 || k > 250 then (st, "bad-op") else
      let committed := k - 3
      let s' := (List.range committed).foldl (fun (s : CIO) v => s.step (.exec [⟨7, v + 1, String.ofList [Char.ofNat (v + 1)]⟩])) {}
      (st, s!"committed={committed} count={s'.executed.length} digest={cioDigest s'}")
    | _, _ => (st, "bad-op")
  | _ => (st, "bad-op")

-- @family "clientio" clientioFam
def clientioFam : Fam := { σ := CioSt, init := {}, step := cioStep }

/-! Property oracle, independent of the model's bookkeeping: it only remembers which command ids
were ever handed over for execution, which waiter belongs to which id, and which waiters were
answered. -/
structure CioOr where
  nreg : Nat := 0
  chans : List (Nat × (Nat × Nat)) := []     -- waiter ↦ command id
  answered : List Nat := []
  seen : List (Nat × Nat) := []              -- ids that appeared in an `exec` batch
  count : Nat := 0
  digest : String := "e3b0c44298fc1c149afbf4c8996fb92427ae41e4649b934ca495991b7852b855"   -- SHA-256 of nothing

def parseOut (t : String) : Option (List (Nat × String)) :=
  let inner := String.ofList (((dropStr 4 t).toList.drop 1).dropLast)
  if !t.startsWith "out=[" then none else
  if inner.isEmpty then some [] else
  (splitChar ',' inner).mapM fun e => match splitChar ':' e with
    | [k, o] => k.toNat?.map (·, o)
    | _ => none

def cioOracleStep (s : CioOr) (toks : List String) : CioOr × String :=
  let (lhs, rhs) := splitArrow toks
  match lhs with
  | ["longcommit", _, _] =>
    -- every command of a committed block is executed: as many executions as committed blocks (one command each)
    match (field "committed" rhs).bind (·.toNat?), (field "count" rhs).bind (·.toNat?) with
    | some cm, some n =>
      if n == cm then (s, "pass")
      else (s, s!"fail exec-lost a replica committed {cm} blocks in one go but handed only {n} of their commands to the application")
    | _, _ => (s, if rhs == ["bad-op"] then "pass" else "fail clientio-unreadable " ++ " ".intercalate rhs)
  | ["register", t] =>
    match parseCioCmd t with
    | some c => let k := s.nreg + 1
                ({ s with nreg := k, chans := (k, (c.client, c.seq)) :: s.chans },
                 if rhs == ["ok", s!"chan={k}"] then "pass" else "fail clientio-register " ++ " ".intercalate rhs)
    | none => (s, "pass")
  | [op, t] =>
    if op != "exec" && op != "abort" then (s, "pass") else
    match parseCioBatch t, rhs with
    | some b, [o, c, d] =>
      match parseOut o, natField "count" [c], field "digest" [d] with
      | some outs, some count, some digest =>
        let ids := (b.map fun c => (c.client, c.seq))
        let freshIds := (ids.filter (fun i => !s.seen.contains i)).eraseDups
        let seen' := if op == "exec" then s.seen ++ freshIds else s.seen
        let s' := { s with answered := s.answered ++ outs.map (·.1), seen := seen', count := count, digest := digest }
        let bad := outs.findSome? fun (k, o) =>
          match s.chans.lookup k with
          | none => some s!"clientio-outcome-to-unknown-waiter {k}"
          | some id =>
            if s.answered.contains k then some s!"clientio-second-outcome waiter {k}"
            else if !ids.contains id then some s!"clientio-outcome-for-other-command waiter {k}"
            else if o == "ok" && op == "abort" then some s!"clientio-success-without-execution waiter {k}"
            else if o == "ok" && s.seen.contains id then some s!"clientio-success-for-executed-command waiter {k}"
            else none
        let dupOut := (outs.map (·.1)).eraseDups.length != outs.length
        if let some m := bad then (s', "fail " ++ m)
        else if dupOut then (s', "fail clientio-second-outcome in one batch")
        else if count < s.count then (s', "fail clientio-count-decreased")
        else if op == "abort" && (count != s.count || digest != s.digest) then (s', "fail clientio-abort-executes")
        else if count - s.count > freshIds.length then (s', s!"fail clientio-executed-twice count grew by {count - s.count} for {freshIds.length} new commands")
        else if count == s.count && digest != s.digest then (s', "fail clientio-digest-changed-without-execution")
        else (s', "pass")
      | _, _, _ => (s, "fail clientio-unreadable " ++ " ".intercalate rhs)
    | some _, _ => (s, "fail clientio-unreadable " ++ " ".intercalate rhs)
    | none, _ => (s, "pass")
  | _ => (s, "pass")

-- @family "clientio.oracle" clientioOracleFam
def clientioOracleFam : Fam := { σ := CioOr, init := {}, step := cioOracleStep }

end HsVerif.Drv
