import HsVerif.Drv.Core
import HsVerif.Model.Blockchain
/-! Line-protocol family `chain` (C13) over `HsVerif.Model.Chain`, and its oracle.
Vocabulary: see harness/driver/fam_chain.go. -/
namespace HsVerif.Drv
open HsVerif.Model.Chain

structure ChainCfg where
  arrive : Option Block := none
  replies : List Block := []

structure ChainSt where
  names : List (String × Block) := [("g", genesis)]
  next : Nat := 2
  cs : CState := cinit
  cfg : List (Nat × ChainCfg) := []

def chainReserved (n : String) : Bool := n == "z" || n == "nil" || n == "none" || n == "lying"

/-- the scripted sender of the Go harness: replies pass `RequestBlockQF`; a block stored by another
goroutine under the requested hash cancels the call -/
def chainNet (cfg : List (Nat × ChainCfg)) : Net := fun h =>
  match cfg.lookup h with
  | none => {}
  | some c =>
    let cancelled := match c.arrive with
      | some a => a.hash == h
      | none => false
    { arrive := c.arrive, reply := if cancelled then none else requestBlockQF h c.replies }

def chainNameOf (names : List (String × Block)) (b : Block) : String :=
  match names.find? (fun e => e.2.hash == b.hash) with
  | some e => e.1
  | none => "?"

def chainKeyName (names : List (String × Block)) (h : Nat) : String :=
  match names.find? (fun e => e.2.hash == h) with
  | some e => e.1
  | none => "?"

def strList (l : List String) : String := "[" ++ ",".intercalate l ++ "]"

def chainFuel (s : ChainSt) : Nat := s.names.foldl (fun m e => max m e.2.view) 0 + s.names.length + 2

def chainOpt (names : List (String × Block)) : Option Block → String
  | none => "none"
  | some b => "some " ++ chainNameOf names b

/-- effective bindings of an association list (first binding of a key wins) -/
def effective (m : BMap) : List (Nat × Block) :=
  (m.foldl (fun (acc : List (Nat × Block)) e => if acc.any (·.1 == e.1) then acc else acc ++ [e]) [])

def sortStrings (l : List String) : List String := l.mergeSort (fun a b => !(b < a))

def sortByKey (l : List (Nat × Block)) : List (Nat × Block) := l.mergeSort (fun a b => a.1 ≤ b.1)

def chainDump (s : ChainSt) : String :=
  let bs := sortStrings ((effective s.cs.store.blocks).map fun e => chainKeyName s.names e.1 ++ ":" ++ chainNameOf s.names e.2)
  let hs := (sortByKey (effective s.cs.store.atHeight)).map fun e => toString e.1 ++ ":" ++ chainNameOf s.names e.2
  s!"blocks={strList bs} at={strList hs} prune={s.cs.store.pruneHeight} committed={chainNameOf s.names s.cs.committed}"

def parseReplies (names : List (String × Block)) (want : Block) :
    List String → ChainCfg → Option ChainCfg
  | [], c => some c
  | r :: rs, c =>
    if r.startsWith "arrive=" then
      match names.lookup (dropStr 7 r) with
      | some a => parseReplies names want rs { c with arrive := some a }
      | none => none
    else if r == "none" then parseReplies names want rs c
    else if r == "lying" then
      parseReplies names want rs { c with replies := c.replies ++ [{ want with hash := want.hash + 1000000 }] }
    else
      match names.lookup r with
      | some b => parseReplies names want rs { c with replies := c.replies ++ [b] }
      | none => none

def chainStep (s : ChainSt) (toks : List String) : ChainSt × String :=
  let fuel := chainFuel s
  let net := chainNet s.cfg
  match toks with
  | ["new", nm, par, v] =>
    if chainReserved nm || (s.names.lookup nm).isSome then (s, "bad-op") else
    match v.toNat? with
    | none => (s, "bad-op")
    | some view =>
      let ph : Option Nat := if par == "z" then some 0 else (s.names.lookup par).map (·.hash)
      match ph with
      | none => (s, "bad-op")
      | some ph => ({ s with names := s.names ++ [(nm, ⟨s.next, ph, view⟩)], next := s.next + 1 }, "ok")
  | ["store", nm] =>
    match s.names.lookup nm with
    | none => (s, "bad-op")
    | some b => ({ s with cs := { s.cs with store := store s.cs.store b } }, "ok")
  | ["localget", nm] =>
    match s.names.lookup nm with
    | none => (s, "bad-op")
    | some b => (s, chainOpt s.names (localGet s.cs.store b.hash))
  | ["get", nm] =>
    match s.names.lookup nm with
    | none => (s, "bad-op")
    | some b =>
      let r := get s.cs.store net b.hash
      ({ s with cs := { s.cs with store := r.1 } }, chainOpt s.names r.2)
  | "fetch-answer" :: nm :: rs =>
    match s.names.lookup nm with
    | none => (s, "bad-op")
    | some b =>
      match parseReplies s.names b rs {} with
      | none => (s, "bad-op")
      | some c => ({ s with cfg := (b.hash, c) :: s.cfg }, "ok")
  | ["fetch-overlap", nm, sw] =>
    -- a second, complete `Get` of the same hash during the fetch (its own fetch unanswered) changes nothing: the
    -- store is re-read after every fetch, whoever cancelled or did not cancel it
    if (s.names.lookup nm).isNone || (sw != "on" && sw != "off") then (s, "bad-op") else (s, "ok")
  | ["extends", bn, tn] =>
    match s.names.lookup bn, s.names.lookup tn with
    | some b, some t =>
      let r := extendsAux net t fuel s.cs.store b
      ({ s with cs := { s.cs with store := r.1 } }, toString r.2)
    | _, _ => (s, "bad-op")
  | ["prune", cn, h] =>
    match s.names.lookup cn, h.toNat? with
    | some c, some height =>
      let r := pruneToHeight fuel s.cs.store c height
      ({ s with cs := { s.cs with store := r.1 } }, "forked=" ++ strList (r.2.map (chainNameOf s.names)))
    | _, _ => (s, "bad-op")
  | ["trycommit", bn, tn] =>
    match s.names.lookup bn with
    | none => (s, "bad-op")
    | some b =>
      let target : Option (Option Block) := if tn == "nil" then some none else (s.names.lookup tn).map some
      match target with
      | none => (s, "bad-op")
      | some t =>
        let r := tryCommit fuel net s.cs b t
        let s' := { s with cs := r.1 }
        match r.2 with
        | .nothing => (s', "nothing")
        | .error => (s', "error")
        | .ok ex ab =>
          (s', s!"ok exec={strList (ex.map (chainNameOf s.names))} abort={strList (ab.map (chainNameOf s.names))} committed={chainNameOf s.names r.1.committed}")
  | ["dump"] => (s, chainDump s)
  | _ => (s, "bad-op")

-- @family "chain" chainFam
-- @family "chain.oracle" chainOracle
def chainFam : Fam := { σ := ChainSt, init := {}, step := chainStep }

/-! Oracle: a reference forest kept by *name* (parent name, view), the set of blocks that are
certainly stored, the set that may have been stored as a side effect of fetching, everything
reported as forked so far, everything executed so far.  It re-derives ancestry by walking the
declared parent names to the root (no view comparison, no per-view map). -/
structure ChainOr where
  names : List (String × (String × Nat)) := [("g", ("z", 0))]
  stored : List String := ["g"]
  may : List String := []
  cfg : List (String × (List String × Option String)) := []
  reported : List String := []
  executed : List String := []
  committed : String := "g"
  sane : Bool := true      -- every commit so far extended the previously committed block
  lastDump : Option String := none

def orParent (o : ChainOr) (n : String) : Option String := (o.names.lookup n).map (·.1)
def orView (o : ChainOr) (n : String) : Nat := ((o.names.lookup n).map (·.2)).getD 0

/-- `n` and all its declared ancestors, nearest first (true ancestry, storage ignored) -/
def orAncAux (o : ChainOr) : Nat → String → List String
  | 0, _ => []
  | fuel + 1, n =>
    match o.names.lookup n with
    | none => []
    | some (p, _) => n :: orAncAux o fuel p

def orAnc (o : ChainOr) (n : String) : List String := orAncAux o (o.names.length + 1) n

def orGrowing (o : ChainOr) : List String → Bool
  | a :: b :: rest => orView o b < orView o a && orGrowing o (b :: rest)
  | _ => true

def orFetchable (o : ChainOr) (n : String) : Bool :=
  match o.cfg.lookup n with
  | some (replies, arr) => replies.contains n || arr == some n
  | none => false

/-- chain of `b` through blocks that can be found (`sure`), stopping at the first block that is
neither found for sure nor possibly there; returns the chain and whether it ended on an uncertainty -/
def orWalk (o : ChainOr) (avail : String → Bool) : Nat → String → List String × Bool
  | 0, _ => ([], true)
  | fuel + 1, n =>
    match o.names.lookup n with
    | none => ([], false)
    | some (p, _) =>
      if (o.names.lookup p).isNone then ([n], false)
      else if avail p then
        let r := orWalk o avail fuel p
        (n :: r.1, r.2)
      else if o.may.contains p then ([n], true)
      else ([n], false)

def parseNames (s : String) : Option (List String) :=
  let cs := s.toList
  if cs.length < 2 || cs.head? != some '[' || cs.getLast? != some ']' then none else
  let inner := String.ofList ((cs.drop 1).dropLast)
  if inner.isEmpty then some [] else some (splitChar ',' inner)

def firstDup : List String → Option String
  | [] => none
  | x :: xs => if xs.contains x then some x else firstDup xs

def addNew (l : List String) (xs : List String) : List String := xs.foldl (fun acc x => if acc.contains x then acc else acc ++ [x]) l

def orForkCheck (o : ChainOr) (forked : List String) : Option String :=
  match forked.find? (fun r => (o.names.lookup r).isNone) with
  | some r => some s!"fail prune-reports-unknown {r}"
  | none =>
    match firstDup forked with
    | some r => some s!"fail prune-reported-twice {r} twice in one report"
    | none =>
      match forked.find? (fun r => o.reported.contains r) with
      | some r => some s!"fail prune-reported-twice {r} was reported before"
      | none => none

/-- chain of `c` through blocks that are certainly stored -/
def orSureChain (o : ChainOr) (c : String) : List String :=
  (orWalk { o with may := [] } (fun n => o.stored.contains n) (o.names.length + 1) c).1

def chainOracleStep (o : ChainOr) (toks : List String) : ChainOr × String :=
  let (lhs, rhs) := splitArrow toks
  let clear := fun (x : ChainOr) => { x with lastDump := none }
  if rhs == ["hang"] then (o, s!"fail no-answer {" ".intercalate lhs} did not return") else
  match lhs with
  | ["new", nm, par, v] =>
    if rhs == ["ok"] then
      match v.toNat? with
      | some view => ({ o with names := o.names ++ [(nm, (par, view))] }, "pass")
      | none => (o, "pass")
    else (o, "pass")
  | ["store", nm] =>
    if rhs != ["ok"] then (o, "pass") else
    if o.stored.contains nm then (o, "pass")      -- repeated store: the next dump must be unchanged
    else (clear { o with stored := o.stored ++ [nm] }, "pass")
  | [op, nm] =>
    if op == "dump" || (o.names.lookup nm).isNone then (o, "pass") else
    if op == "localget" || op == "get" then
      let o1 := if op == "get" then clear o else o
      match rhs with
      | ["none"] =>
        if o.stored.contains nm then (o1, s!"fail store-lost-block {op} {nm} answered none for a stored block")
        else (o1, "pass")
      | ["some", y] =>
        if y != nm then (o1, s!"fail get-wrong-hash {op} {nm} returned block {y}")
        else if o.stored.contains nm || o.may.contains nm || (op == "get" && orFetchable o nm) then
          ({ o1 with stored := addNew o1.stored [nm] }, "pass")
        else (o1, s!"fail get-from-nowhere {op} {nm} returned a block that was never stored or offered")
      | _ => (o1, "pass")
    else (o, "pass")
  | "fetch-answer" :: nm :: rs =>
    if rhs != ["ok"] then (o, "pass") else
    let arr := (rs.find? (·.startsWith "arrive=")).map (dropStr 7)
    let replies := rs.filter (fun r => !r.startsWith "arrive=")
    let may := addNew o.may ((if replies.contains nm then [nm] else []) ++ arr.toList)
    ({ o with cfg := (nm, (replies, arr)) :: o.cfg, may := may }, "pass")
  | ["extends", bn, tn] =>
    let o1 := clear o
    if (o.names.lookup bn).isNone || (o.names.lookup tn).isNone then (o1, "pass") else
    let avail := fun n => o.stored.contains n || orFetchable o n
    let (chain, unsure) := orWalk o avail (o.names.length + 1) bn
    if !orGrowing o chain then (o1, "pass") else       -- outside the property: views do not grow
    let found := chain.contains tn
    if !found && unsure then (o1, "pass") else
    if rhs == [toString found] then (o1, "pass")
    else (o1, s!"fail extends-wrong extends {bn} {tn} answered {rhs} but the chain of {bn} is {strList chain}")
  | ["prune", cn, _] =>
    let o1 := clear o
    match (field "forked" rhs).bind parseNames with
    | none => (o1, if rhs == ["bad-op"] then "pass" else "fail prune-shape")
    | some forked =>
      let o2 := { o1 with reported := o1.reported ++ forked }
      match orForkCheck o forked with
      | some f => (o2, f)
      | none =>
        -- "when a block is committed": the committed block itself is stored (TryCommit stores it)
        if !o.stored.contains cn then (o2, "pass") else
        let chain := orSureChain o cn
        if !orGrowing o chain then (o2, "pass") else     -- outside the property: views do not grow
        match forked.find? (fun r => chain.contains r) with
        | some r => (o2, s!"fail prune-reports-committed prune {cn} reported {r}, which is on the chain {strList chain}")
        | none => (o2, "pass")
  | ["trycommit", bn, tn] =>
    let o1 := clear o
    if rhs == ["bad-op"] then (o1, "pass") else
    let o2 := { o1 with stored := addNew o1.stored [bn] }
    if rhs.head? != some "ok" then (o2, "pass") else
    match (field "exec" rhs).bind parseNames, (field "abort" rhs).bind parseNames, field "committed" rhs with
    | some ex, some ab, some cn =>
      let want := if orView o tn > orView o o.committed then tn else o.committed
      let sane := o.sane && (orAnc o tn).contains o.committed
      let o3 := { o2 with reported := o2.reported ++ ab, executed := addNew o2.executed ex, committed := cn, sane := sane }
      if cn != want then (o3, s!"fail commit-wrong-block committed {cn}, expected {want}") else
      match orForkCheck o ab with
      | some f => (o3, f)
      | none =>
        -- sane history: the whole true chain must be safe; otherwise only what is certainly stored
        let anc := if sane then orAnc o cn else orSureChain o2 cn
        if !orGrowing o anc then (o3, "pass") else
        match ab.find? (fun r => anc.contains r) with
        | some r => (o3, s!"fail abort-committed-block commit of {cn} aborted {r}, which is on its chain {strList anc}")
        | none =>
          match ab.find? (fun r => ex.contains r || (sane && o.executed.contains r)) with
          | some r => (o3, s!"fail abort-executed-block {r} was executed and is aborted")
          | none =>
            match ex.find? (fun r => !(orAnc o cn).contains r) with
            | some r => (o3, s!"fail exec-off-chain {r} executed but not on the chain of {cn}")
            | none => (o3, "pass")
    | _, _, _ => (o2, "fail commit-shape")
  | ["dump"] =>
    let cur := " ".intercalate rhs
    let o1 := { o with lastDump := some cur }
    match (field "blocks" rhs).bind parseNames with
    | none => (o1, "fail dump-shape")
    | some bs =>
      match bs.find? (fun e => match splitChar ':' e with | [k, b] => k != b | _ => true) with
      | some e => (o1, s!"fail store-key-mismatch {e}")
      | none =>
        match o.lastDump with
        | some d => (o1, if d == cur then "pass" else s!"fail store-not-idempotent state changed by a repeated store: {d} -> {cur}")
        | none => (o1, "pass")
  | _ => (o, "pass")

def chainOracle : Fam := { σ := ChainOr, init := {}, step := chainOracleStep }

end HsVerif.Drv
