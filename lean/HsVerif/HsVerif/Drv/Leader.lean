import HsVerif.Drv.Core
import HsVerif.Model.Leader
/-! Line-protocol families for C16 (leader rotation).

`leader`    stateless schemes
    rr <n> <view>                       -> leaders=[a,b]        (two independent instances) | panic (n = 0)
    fixed <id> <view>                   -> leaders=[a,b]
    notree <n> <view>                   -> leaders=[a,b]        tree-leader without a configured tree
    tree <n> <bf> <[positions]> <view>  -> leaders=[a,b,c]      three vantage replicas of one tree
    factory <name|-> <n> <view>         -> leader=<a> | reject:name     leaderrotation.New by name

`leadhist`  history-based schemes (carousel, reputation) on independently built replica instances
    cfg n=<n> seed=<int64> k=<chainLength> scheme=<ecdsa|eddsa|bls12> inst=<1..3>
    rnd <seed> <v0> <v1> <v2>           -> rnd <seed> <v0> <v1> <v2>    oracle values of math/rand:
                                           first three Int63() of rand.New(rand.NewSource(seed))
    blk <name> parent=<g|name|?x> view=<v> proposer=<id> qc=<none|name> [signers=[..]] [store=no]
    commit <g|name>
    verify <name>                       -> valid | invalid      real Authority.VerifyQuorumCert on the block's certificate
    leader carousel <view>              -> leaders=[..] | panic
    leader reputation <view> [claim=<id>] -> leaders=[..]
-/
set_option linter.unusedVariables false
namespace HsVerif.Drv
open HsVerif.Model HsVerif.Model.Leader

def parseInt (s : String) : Option Int :=
  match s.toList with
  | '-' :: rest => (String.ofList rest).toNat?.map fun n => -(n : Int)
  | _ => s.toNat?.map fun n => (n : Int)

def leadersStr (k : Nat) (x : Nat) : String := "leaders=" ++ natList (List.replicate k x)

/-! ### stateless -/

def leaderStep (_ : Unit) (toks : List String) : Unit × String :=
  match toks with
  | ["rr", n, v] =>
    match n.toNat?, v.toNat? with
    | some n, some v =>
      if n > 64 || v ≥ two64 then ((), "bad-op")
      else if n == 0 then ((), "panic")   -- outside the model: Go divides by zero
      else ((), leadersStr 2 (roundRobin v n))
    | _, _ => ((), "bad-op")
  | ["rrgrow", k, n, v1, v2] =>
    -- one RoundRobin object asked while the configuration has k replicas and again when it has n: a function of
    -- the view and the CURRENT configuration (no state)
    match k.toNat?, n.toNat?, v1.toNat?, v2.toNat? with
    | some k, some n, some v1, some v2 =>
      if k < 1 || n < k || n > 64 || v1 ≥ two64 || v2 ≥ two64 then ((), "bad-op")
      else ((), s!"first={roundRobin v1 k} " ++ leadersStr 2 (roundRobin v2 n))
    | _, _, _, _ => ((), "bad-op")
  | ["fixed", l, v] =>
    match l.toNat?, v.toNat? with
    | some l, some v => if l ≥ 2 ^ 32 || v ≥ two64 then ((), "bad-op") else ((), leadersStr 2 (fixed l v))
    | _, _ => ((), "bad-op")
  | ["notree", n, v] =>
    match n.toNat?, v.toNat? with
    | some n, some v => if n < 1 || n > 64 || v ≥ two64 then ((), "bad-op") else ((), leadersStr 2 (treeLeader none v))
    | _, _ => ((), "bad-op")
  | ["tree", n, bf, pos, v] =>
    match n.toNat?, bf.toNat?, parseNatList pos, v.toNat? with
    | some n, some bf, some pos, some v =>
      if n < 1 || n > 64 || bf < 2 || bf > 64 || pos.isEmpty || v ≥ two64 || pos.any (fun x => x < 1 || x > n) then ((), "bad-op")
      else ((), leadersStr 3 (treeLeader (some ⟨pos.headD 0, bf, pos⟩) v))
    | _, _, _, _ => ((), "bad-op")
  | ["factory", nm, n, v] =>
    match n.toNat?, v.toNat? with
    | some n, some v =>
      if n < 1 || n > 64 || v ≥ two64 then ((), "bad-op")
      else if nm == "-" || nm == "round-robin" then ((), s!"leader={roundRobin v n}")
      else if nm == "fixed" then ((), s!"leader={fixed 1 v}")
      else if nm == "tree-leader" then ((), s!"leader={treeLeader none v}")
      else if nm == "carousel" || nm == "reputation" then ((), "bad-op")   -- need a chain: family leadhist
      else ((), "reject:name")
    | _, _ => ((), "bad-op")
  | _ => ((), "bad-op")

-- @family "leader" leaderFam
-- @family "leader.oracle" leaderOracle
def leaderFam : Fam := { σ := Unit, init := (), step := leaderStep }

/-- `leaders=[a,b,..]` -/
def parseLeaders (rhs : List String) : Option (List Nat) :=
  match rhs with
  | [t] => (field "leaders" [t]).bind parseNatList
  | _ => none

def allEq (l : List Nat) : Bool :=
  match l with
  | [] => false
  | x :: xs => xs.all (· == x)

structure LeaderOr where
  n : Nat := 0
  lastView : Nat := 0
  recent : List Nat := []     -- answers of the consecutive views ending at lastView, newest first, at most n

def leaderOracleStep (s : LeaderOr) (toks : List String) : LeaderOr × String :=
  let (lhs, rhs) := splitArrow toks
  match lhs with
  | ["rrgrow", k, n, _, v2] =>
    match k.toNat?, n.toNat?, v2.toNat? with
    | some k, some n, some v2 =>
      if k < 1 || n < k || n > 64 then (s, "pass") else
      match parseLeaders (rhs.drop 1) with
      | none => (s, s!"fail rr-shape {rhs}")
      | some l =>
        if !allEq l then (s, s!"fail rr-disagree n={n} view={v2}: an instance first asked with {k} replicas configured answers differently: {rhs}") else
        let a := l.headD 0
        if a < 1 || a > n then (s, s!"fail rr-invalid n={n} view={v2}: leader {a}") else
        if a != v2 % n + 1 then (s, s!"fail rr-turn n={n} view={v2}: leader {a}") else (s, "pass")
    | _, _, _ => (s, "pass")
  | ["rr", n, v] =>
    match n.toNat?, v.toNat? with
    | some n, some v =>
      if n == 0 then (s, "pass") else
      if rhs == ["panic"] then (s, s!"fail rr-panic n={n} view={v}") else
      match parseLeaders rhs with
      | none => (s, s!"fail rr-shape {rhs}")
      | some l =>
        if !allEq l then (s, s!"fail rr-disagree n={n} view={v}: {rhs}") else
        let a := l.headD 0
        if a < 1 || a > n then ({}, s!"fail rr-invalid n={n} view={v}: leader {a} is not a configured replica") else
        let window := if s.n == n && v == s.lastView + 1 then s.recent.take (n - 1) else []
        let s' : LeaderOr := { n := n, lastView := v, recent := a :: window }
        if window.contains a then (s', s!"fail rr-repeat-turn n={n}: replica {a} leads twice within {n} consecutive views ending at {v}")
        else (s', "pass")
    | _, _ => (s, "pass")
  | ["fixed", l, v] =>
    match l.toNat?, parseLeaders rhs with
    | some l, some ls => (s, if ls.all (· == l) && !ls.isEmpty then "pass" else s!"fail fixed-wrong configured {l}: {rhs}")
    | some _, none => (s, if rhs == ["bad-op"] then "pass" else s!"fail fixed-shape {rhs}")
    | _, _ => (s, "pass")
  | ["notree", n, _] =>
    match n.toNat?, parseLeaders rhs with
    | some n, some ls =>
      (s, if !allEq ls then s!"fail tree-disagree {rhs}"
          else if ls.headD 0 < 1 || ls.headD 0 > n then s!"fail tree-invalid n={n}: {rhs}" else "pass")
    | some _, none => (s, if rhs == ["bad-op"] then "pass" else s!"fail tree-shape {rhs}")
    | _, _ => (s, "pass")
  | ["tree", n, _, pos, _] =>
    match n.toNat?, parseNatList pos with
    | some n, some pos =>
      if rhs == ["bad-op"] then (s, "pass") else
      match parseLeaders rhs with
      | none => (s, s!"fail tree-shape {rhs}")
      | some ls =>
        (s, if !allEq ls then s!"fail tree-disagree positions {pos}: {rhs}"
            else if !pos.contains (ls.headD 0) then s!"fail tree-not-in-tree positions {pos}: {rhs}"
            else if some (ls.headD 0) != pos.head? then s!"fail tree-not-root positions {pos}: {rhs}"
            else if ls.headD 0 < 1 || ls.headD 0 > n then s!"fail tree-invalid n={n}: {rhs}"
            else "pass")
    | _, _ => (s, "pass")
  | ["factory", nm, n, _] =>
    match n.toNat? with
    | some n =>
      if rhs == ["bad-op"] || rhs == ["reject:name"] then (s, "pass") else
      match (field "leader" rhs).bind (·.toNat?) with
      | some a => (s, if 1 ≤ a && a ≤ n then "pass" else s!"fail factory-invalid {nm} n={n}: {rhs}")
      | none => (s, s!"fail factory-shape {rhs}")
    | none => (s, "pass")
  | _ => (s, "pass")

def leaderOracle : Fam := { σ := LeaderOr, init := {}, step := leaderOracleStep }

/-! ### history-based -/

def missingBase : Nat := 1000000000

def genesisBlock : Block := ⟨missingBase, 0, 0, none⟩

structure HistSt where
  cfg : Option Cfg := none
  inst : Nat := 0
  scheme : String := ""
  names : List (String × Nat) := []        -- block name -> hash id (genesis "g" = 0)
  blocks : List (Nat × Block) := []        -- every declared block
  stored : List Nat := []                  -- hash ids present in the replicas' block stores
  head : Nat × Block := (0, genesisBlock)
  rnd : List (Int × List Nat) := []
  rep : RepState := {}
  nextMissing : Nat := missingBase + 1
  qcOf : List (Nat × Nat) := []            -- block hash id -> hash id of the block its certificate certifies

def HistSt.get (s : HistSt) (h : Nat) : Option Block :=
  if h == 0 then some genesisBlock
  else if s.stored.contains h then s.blocks.lookup h else none

def HistSt.rndFn (s : HistSt) (seed : Int) : List Nat :=
  match s.rnd.lookup seed with
  | some l => l
  | none => []

def strictlyAscending : List Nat → Bool
  | [] => true
  | [_] => true
  | a :: b :: rest => a < b && strictlyAscending (b :: rest)

def distinctCount (l : List Nat) : Nat := (l.foldl (fun acc x => if acc.contains x then acc else x :: acc) []).length

/-- shared by the model family and the oracle: bookkeeping ops (`cfg`, `blk`, `commit`, `rnd`). -/
def histBook (s : HistSt) (toks : List String) : Option (HistSt × String) :=
  match toks with
  | "cfg" :: rest =>
    match natField "n" rest, (field "seed" rest).bind parseInt, natField "k" rest, field "scheme" rest, natField "inst" rest with
    | some n, some seed, some k, some scheme, some inst =>
      if n < 1 || n > 64 || inst < 1 || inst > 3 || inst > n || k ≥ 2 ^ 31
         || seed < -(2 ^ 63 : Int) || seed ≥ (2 ^ 63 : Int)
         || !(scheme == "ecdsa" || scheme == "eddsa" || scheme == "bls12") then some (s, "bad-op")
      else some ({ cfg := some ⟨n, seed, k⟩, inst := inst, scheme := scheme }, "ok")
    | _, _, _, _, _ => some (s, "bad-op")
  | "rnd" :: seed :: vals =>
    match parseInt seed, vals.mapM (·.toNat?) with
    | some sd, some vs =>
      if vs.length != 3 then some (s, "bad-op")
      else some ({ s with rnd := (sd, vs) :: s.rnd }, s!"rnd {sd} {vs.getD 0 0} {vs.getD 1 0} {vs.getD 2 0}")
    | _, _ => some (s, "bad-op")
  | "blk" :: name :: rest =>
    match s.cfg with
    | none => some (s, "bad-op")
    | some cfg =>
      match field "parent" rest, natField "view" rest, natField "proposer" rest, field "qc" rest with
      | some par, some view, some proposer, some qc =>
        if name == "g" || name.startsWith "?" || (s.names.lookup name).isSome || view ≥ two64 || proposer ≥ 2 ^ 32 then some (s, "bad-op") else
        -- parent hash
        let parent? : Option (Nat × Nat) :=
          if par == "g" then some (0, s.nextMissing)
          else if par.startsWith "?" then some (s.nextMissing, s.nextMissing + 1)
          else (s.names.lookup par).map fun h => (h, s.nextMissing)
        -- embedded certificate
        let signers? : Option (Option (List Nat)) :=
          if qc == "none" then (if (field "signers" rest).isSome then none else some none)
          else if (s.names.lookup qc).isNone then none
          else match (field "signers" rest).bind parseNatList with
            | none => none
            | some l =>
              if l.isEmpty || l.length > 256 || l.any (fun x => x < 1 || x > cfg.n) then none
              else if s.scheme == "bls12" && !strictlyAscending l then none
              else some (some l)
        let store? : Option Bool :=
          match field "store" rest with
          | none => some true
          | some "no" => some false
          | some "yes" => some true
          | _ => none
        match parent?, signers?, store? with
        | some (ph, nm), some sg, some st =>
          let h := s.blocks.length + 1
          let b : Block := ⟨ph, view, proposer, sg⟩
          some ({ s with names := (name, h) :: s.names, blocks := (h, b) :: s.blocks,
                         stored := if st then h :: s.stored else s.stored, nextMissing := nm,
                         qcOf := match s.names.lookup qc with
                           | some t => (h, t) :: s.qcOf
                           | none => s.qcOf }, "ok")
        | _, _, _ => some (s, "bad-op")
      | _, _, _, _ => some (s, "bad-op")
  | ["commit", name] =>
    if s.cfg.isNone then some (s, "bad-op")
    else if name == "g" then some ({ s with head := (0, genesisBlock) }, "ok")
    else match s.names.lookup name with
      | none => some (s, "bad-op")
      | some h =>
        match s.blocks.lookup h with
        | some b => some ({ s with head := (h, b) }, "ok")
        | none => some (s, "bad-op")
  | ["verify", name] =>
    -- Authority.VerifyQuorumCert of the block's embedded certificate, as repaired for C02 (DESIGN §6
    -- defect 1): nil-signature genesis certificate is valid; otherwise at least a quorum of entries,
    -- the certified block is in the store, and no signer is repeated (the signatures themselves are
    -- genuine in every script)
    match s.cfg, s.names.lookup name with
    | some cfg, some h =>
      match s.blocks.lookup h with
      | none => some (s, "bad-op")
      | some b =>
        match b.signers with
        | none => some (s, "valid")
        | some l =>
          let stored := match s.qcOf.lookup h with
            | some t => s.stored.contains t
            | none => false
          some (s, if l.length ≥ quorumSize cfg.n && stored && distinctCount l == l.length then "valid" else "invalid")
    | _, _ => some (s, "bad-op")
  | _ => none

/-- reputation query on more than 12 voters: the two library sorts are outside the model; the
answer observed on the implementation (`claim`) is accepted iff it is an answer some order allows:
0 exactly when no weight is ≥ 1, otherwise a voter whose weight is ≥ 1. -/
def repRelational (cfg : Cfg) (st : RepState) (head : Block) (voters : List Nat) (claim : Option Nat) :
    RepState × Option Nat :=
  let reputation := reputationOf voters.length cfg.n
  let upd := decide (st.prevView < head.view)
  let r := visit upd reputation st.reps voters
  let st' : RepState := ⟨if upd then head.view else st.prevView, r.1⟩
  let total := r.2.foldl (fun acc c => acc + c.weight) 0
  if total < 1 then (st', some 0)
  else match claim with
    | none => (st', none)
    | some c => if r.2.any (fun ch => ch.item == c && ch.weight ≥ 1) then (st', some c) else (st', none)

def histStep (s : HistSt) (toks : List String) : HistSt × String :=
  match histBook s toks with
  | some r => r
  | none =>
    match toks, s.cfg with
    | ["leader", "carousel", v], some cfg =>
      match v.toNat? with
      | some v =>
        if v ≥ two64 then (s, "bad-op") else
        match carousel cfg s.rndFn s.get s.head.1 s.head.2 v with
        | .panic => (s, "panic")
        | .leader id =>
          -- the model needs the oracle value only on the active path
          let active := s.head.2.signers.isSome && s.head.2.view == wrapSub64 v cfg.chainLength
          if active && (s.rnd.lookup (seedFor cfg.seed v)).isNone then (s, s!"need-rnd {seedFor cfg.seed v}")
          else (s, leadersStr s.inst id)
      | none => (s, "bad-op")
    | "leader" :: "reputation" :: v :: rest, some cfg =>
      match v.toNat? with
      | some v =>
        if v ≥ two64 then (s, "bad-op") else
        let claim := natField "claim" rest
        let old := decide (s.head.2.view > wrapSub64 v cfg.chainLength)
        match s.head.2.signers with
        | some voters =>
          if !old && voters.length > 12 then
            let (st', a) := repRelational cfg s.rep s.head.2 voters claim
            match a with
            | some id => ({ s with rep := st' }, leadersStr s.inst id)
            | none => ({ s with rep := st' }, if claim.isSome then "claim-rejected" else "need-claim")
          else
            let (st', a) := repQuery cfg s.rndFn s.rep s.head.2 v
            match a with
            | .leader id => ({ s with rep := st' }, leadersStr s.inst id)
            | .needStream => ({ s with rep := st' }, s!"need-rnd {seedFor cfg.seed v}")
        | none =>
          let (st', a) := repQuery cfg s.rndFn s.rep s.head.2 v
          match a with
          | .leader id => ({ s with rep := st' }, leadersStr s.inst id)
          | .needStream => ({ s with rep := st' }, s!"need-rnd {seedFor cfg.seed v}")
      | none => (s, "bad-op")
    | _, _ => (s, "bad-op")

-- @family "leadhist" leadhistFam
-- @family "leadhist.oracle" leadhistOracle
def leadhistFam : Fam := { σ := HistSt, init := {}, step := histStep }

/-! Oracle for the history-based schemes: decides the *property* on the implementation's answers.
It keeps the same description of the committed chain (bookkeeping ops) but judges with the
specification: the last f committed blocks are the committed head and its stored ancestors over
fewer than f parent links (genesis excluded); an active carousel must answer with a signer of the
head's certificate outside their proposers; answers must agree between instances, be repeatable,
name configured replicas, and never be a panic — under the hypothesis that the certificate has a
quorum of distinct signers, all configured. -/
structure HistOr where
  st : HistSt := {}
  sync : Bool := true                        -- false once the implementation's bookkeeping answer differed
  memo : List ((Nat × Nat) × Nat) := []      -- (head hash, view) -> carousel answer seen
  verdicts : List (Nat × Bool) := []         -- block hash id -> verdict of the real VerifyQuorumCert

/-- proposers of the last `k` committed blocks (specification of "recent") -/
def recentProposers (s : HistSt) : Nat → Nat → List Nat
  | 0, _ => []
  | k + 1, h =>
    if h == 0 then [] else
    match (if h == s.head.1 then some s.head.2 else s.get h) with
    | none => []
    | some b => b.proposer :: recentProposers s k b.parent

def histOracleStep (o : HistOr) (toks : List String) : HistOr × String :=
  let (lhs, rhs) := splitArrow toks
  match histBook o.st lhs with
  | some (st', ans) =>
    -- a fresh configuration forgets the memo
    let o' : HistOr := if lhs.head? == some "cfg" then { st := st', memo := [], sync := true, verdicts := [] } else { o with st := st' }
    match lhs with
    | ["verify", name] =>
      -- the implementation's own verdict is recorded: a committed head whose certificate the real
      -- verifier accepted is inside the hypothesis of the property whatever it looks like
      match o.st.names.lookup name with
      | some h => ({ o' with verdicts := (h, rhs == ["valid"]) :: o'.verdicts }, "pass")
      | none => (o', "pass")
    | _ =>
    -- the oracle judges leaders only; a bookkeeping answer that differs from the script's meaning
    -- (reported by the model/implementation comparison) switches the judgement off
    (if rhs == tokens ans then o' else { o' with sync := false }, "pass")
  | none =>
    if !o.sync then (o, "pass") else
    match lhs, o.st.cfg with
    | ["leader", "carousel", v], some cfg =>
      match v.toNat? with
      | none => (o, "pass")
      | some v =>
        let head := o.st.head.2
        let active := head.signers.isSome && head.view == wrapSub64 v cfg.chainLength
        let signers := head.signers.getD []
        let accepted := o.verdicts.lookup o.st.head.1 == some true
        let hyp := !active || accepted || (distinctCount signers ≥ quorumSize cfg.n && signers.all (fun x => 1 ≤ x && x ≤ cfg.n))
        if rhs == ["panic"] then
          (o, if hyp then s!"fail carousel-panic view={v} head-view={head.view} signers={signers}{if accepted then " (certificate accepted by VerifyQuorumCert)" else ""}" else "pass")
        else match parseLeaders rhs with
        | none => (o, if rhs == ["bad-op"] then "pass" else s!"fail carousel-shape {rhs}")
        | some ls =>
          if !allEq ls then (o, s!"fail carousel-disagree view={v}: {rhs}") else
          let a := ls.headD 0
          let o' := { o with memo := ((o.st.head.1, v), a) :: o.memo }
          if hyp && (a < 1 || a > cfg.n) then (o', s!"fail carousel-unknown-replica view={v}: {a} with n={cfg.n}")
          else if active && !signers.contains a then (o', s!"fail carousel-not-signer view={v}: {a} not among {signers}")
          else if active && (recentProposers o.st (numFaulty cfg.n) o.st.head.1).contains a then
            (o', s!"fail carousel-recent-proposer view={v}: {a} proposed one of the last {numFaulty cfg.n} committed blocks {recentProposers o.st (numFaulty cfg.n) o.st.head.1}")
          else match o.memo.lookup (o.st.head.1, v) with
            | some b => (o', if a == b then "pass" else s!"fail carousel-nondeterministic view={v}: {a} now, {b} before")
            | none => (o', "pass")
    | "leader" :: "reputation" :: v :: _, some cfg =>
      if rhs == ["panic"] then (o, s!"fail reputation-panic view={v}")
      else match parseLeaders rhs with
      | none => (o, if rhs == ["bad-op"] then "pass" else s!"fail reputation-shape {rhs}")
      | some ls =>
        if !allEq ls then (o, s!"fail reputation-disagree view={v}: {rhs}")
        else
          let a := ls.headD 0
          let voters := o.st.head.2.signers.getD []
          (o, if a == 0 || (1 ≤ a && a ≤ cfg.n) then "pass" else s!"fail reputation-unknown-replica view={v}: {a} voters={voters}")
    | _, _ => (o, "pass")

def leadhistOracle : Fam := { σ := HistOr, init := {}, step := histOracleStep }

end HsVerif.Drv
