import HsVerif.Drv.Wire
import HsVerif.Model.Replica
import HsVerif.Spec.Cert
/-! Model driver for the `replica` family: one replica (Model/Replica.lean) fed with crafted
messages; effects and state dump rendered exactly as harness/driver/fam_replica.go renders them. -/
namespace HsVerif.Drv
open HsVerif.Model

structure ReplicaSt where
  w : WireSt := {}
  cfg : Option RCfg := none
  r : RState := {}
  nwire : Nat := 0
  lastOuts : List Out := []   -- effects of the last step (the cluster driver routes them)
  pfx : String := "own"     -- prefix of the names under which this replica's own objects are registered
  sendFail : Bool := false  -- the sender has no connection to anybody: `Vote` / `NewView` answer an error
  async : Bool := false     -- `verify=async`: votes are verified off the event loop (`go vm.verifyCert`)
  gate : Bool := false      -- the gate in front of vote verification is closed (`verify-hold on`)
  held : List HeldVote := []   -- verifications started and not finished, oldest first

def keys : Keys := { tmo := tmoKey }

def rulesOf (s : String) : Option Rules :=
  if s == "chainedhotstuff" then some .chained
  else if s == "simplehotstuff" then some .simple
  else if s == "fasthotstuff" then some .fast
  else none

def renderOut (w : WireSt) : Out → WireSt × String
  | .sign m =>
    -- message keys are rendered as the harness names them
    (w, s!"sign({m})")
  | .sendPropose b agg =>
    let (w1, q) := dQC w b.qc
    let (w2, a) := match agg with | some a => dAgg w1 a | none => (w1, "-")
    (w2, s!"propose({w.hashName b.hash},v={b.view},parent={w.hashName b.parent},qc={q},agg={a})")
  | .sendVote to sg h =>
    let (w1, s) := dSig w (some sg)
    (w1, s!"vote(to={to},blk={w.hashName h},sig={s})")
  | .sendTimeout t =>
    let (w1, vs) := dSig w t.viewSig
    let (w2, ms) := dSig w1 t.msgSig
    let (w3, si) := dSI w2 t.si
    (w3, s!"timeout(id={t.id},v={t.view},vs={vs},ms={ms},{si})")
  | .sendNewView to si =>
    let (w1, s) := dSI w si
    (w1, s!"newview(to={to},{s})")
  | .viewChange v t => (w, s!"vc({v},{if t then "timeout" else "normal"})")
  | .commit b => (w, s!"commit({w.hashName b.hash})")
  | .exec b => (w, s!"exec({joinWith ";" b.cmds})")
  | .abort b => (w, s!"abort({joinWith ";" b.cmds})")
  | .panic => (w, "PANIC")

/-- sign(...) entries for timeout bytes are rendered with the QC description (needs numbering) -/
def renderOuts (w : WireSt) (outs : List Out) : WireSt × List String :=
  outs.foldl (fun (acc : WireSt × List String) o =>
    let (w', s) := renderOut acc.1 o
    (w', acc.2 ++ [s])) (w, [])

def dumpR (w : WireSt) (c : RCfg) (r : RState) : String :=
  let lock := if c.rules == .fast then "-" else w.hashName r.lock.hash
  s!"view={r.view} hqc={r.highQC.view}:{w.hashName r.highQC.hash} committed={w.hashName r.committed.hash} lastVoted={r.lastVoted} lock={lock}"

/-- canonical message names used in `sign(...)`: blk:<name>, view:<v>, tmo:<id>:<v>:<dQC> -/
structure SignNames where
  dummy : Unit := ()

def finish (st : ReplicaSt) (c : RCfg) (res : RState × List Out) : ReplicaSt × String :=
  let (r', outs) := res
  -- a failing sender: the message is lost, the handler logs the error, nothing else changes
  let outs := if st.sendFail then outs.filter (fun o => match o with | .sendVote .. => false | .sendNewView .. => false | _ => true) else outs
  if outs.any (fun o => match o with | .panic => true | _ => false) then
    ({ st with r := r', lastOuts := [] }, "panic")
  else
    -- timeout-bytes signatures: re-render the key with the QC description of the harness
    let (w', strs) := outs.foldl (fun (acc : WireSt × List String) o =>
      match o with
      | .sign m =>
        if m.startsWith "tmo:" then
          -- find the timeout just sent with these bytes: it is the own timeout of this step
          let t? := outs.findSome? fun o' => match o' with
            | .sendTimeout t => if tmoKey t.id t.view t.si.qc == m then some t else none
            | _ => none
          match t? with
          | some t =>
            let (w1, q) := match t.si.qc with | some q => dQC acc.1 q | none => (acc.1, "-")
            (w1, acc.2 ++ [s!"sign(tmo:{t.id}:{t.view}:{q})"])
          | none => (acc.1, acc.2 ++ ["sign(tmo:?)"])
        else if m.startsWith "blk:" then (acc.1, acc.2 ++ [s!"sign(blk:{acc.1.hashName (dropStr 4 m)})"])
        else (acc.1, acc.2 ++ [s!"sign({m})"])
      | o =>
        let (w1, s) := renderOut acc.1 o
        (w1, acc.2 ++ [s])) (st.w, [])
    -- own objects become available to later script lines under fixed names
    let c1 := outs.foldl (fun (cs : CertSt) o =>
      match o with
      | .sendVote _ sg h => { cs with sigs := (s!"{st.pfx}.vote.{st.w.hashName h}", sg) :: cs.sigs }
      | .sendTimeout t =>
        let cs := match t.viewSig with | some v => { cs with sigs := (s!"{st.pfx}.vs.{t.view}", v) :: cs.sigs } | none => cs
        let cs := match t.msgSig with | some v => { cs with sigs := (s!"{st.pfx}.ms.{t.view}", v) :: cs.sigs } | none => cs
        { cs with tmos := (s!"{st.pfx}.tmo.{t.view}", ⟨t.id, t.view, t.viewSig, t.msgSig, t.si.qc⟩) :: cs.tmos }
      | .sendPropose b _ =>
        if (cs.blocks.lookup b.hash).isSome then cs else { cs with blocks := (b.hash, b) :: cs.blocks }
      | .sign m =>
        -- ground truth for the oracle: BLS signatures are not in the truth table of byte names
        if c.scheme == .bls12 then { cs with sigs := cs.sigs ++ [(s!"{st.pfx}.signed.{m}", blsSign c.id m)] } else cs
      | _ => cs) w'.c
    let w'' := { w' with c := { c1 with truth := r'.truth, nextBytes := r'.nextBytes } }
    ({ st with w := w'', r := r', lastOuts := outs }, joinWith " ; " strs ++ " | " ++ dumpR w'' c r')

/-- fields removed from the wire message (`drop=`) and signature fields whose BLS bytes are cut short
(`trunc=`): a signature that does not decode is no signature (`QuorumSignatureFromProto` answers nil) -/
def dropsOf (rest : List String) : List String :=
  (match field "drop" rest with
  | some "-" => []
  | some d => splitChar ',' d
  | none => []) ++
  (match field "trunc" rest with
  | some "-" => []
  | some d => splitChar ',' d
  | none => [])

def dropQCm (q : Option QC) (pre : String) (d : List String) : Option QC :=
  if d.contains pre then none else
  q.map fun q =>
    let q := if d.contains (pre ++ ".sig") then { q with sig := none } else q
    if d.contains (pre ++ ".hash") then { q with hash := "" } else q

def dropSIm (si : SyncInfo) (d : List String) : SyncInfo :=
  if d.contains "si" then {} else
  { qc := dropQCm si.qc "qc" d,
    tc := if d.contains "tc" then none else si.tc.map fun t => if d.contains "tc.sig" then { t with sig := none } else t,
    agg := if d.contains "agg" then none else si.agg.map fun a => if d.contains "agg.sig" then { a with sig := none } else a }

/-- what the gorums handler puts on the event loop for a (possibly mutilated) wire message:
`none` = bad op, `some none` = ignored by the handler -/
def wireEvent (st : ReplicaSt) (kind name : String) (rest : List String) : Option (Option Ev × Option (String × Block)) :=
  let s := st.w.c
  let d := dropsOf rest
  let frm := natField "from" rest
  if (field "trunc" rest).isSome && s.cfg.scheme != .bls12 then none else   -- only BLS bytes can fail to decode
  match kind with
  | "propose" =>
    match s.blocks.lookup name with
    | none => none
    | some b =>
      let ag := match field "agg" rest with
        | some "-" => some none
        | none => some none
        | some a => (s.aggs.lookup a).map some
      match ag with
      | none => none
      | some ag =>
        match frm with
        | none => some (none, none)              -- no peer id: the handler returns
        | some frm =>
        if d.contains "block" then some (none, none) else
        let qc := (dropQCm (some b.qc) "block.qc" d).getD ⟨none, 0, ""⟩
        let parent := if d.contains "block.parent" then "" else b.parent
        let cmds := if d.contains "block.commands" then [] else b.cmds
        let changed := qc != b.qc || parent != b.parent || cmds != b.cmds || d.contains "block.timestamp" || frm != b.proposer
        let nm := s!"W{st.nwire + 1}"
        let b' : Block := { hash := if changed then nm else b.hash, parent := parent, view := b.view, proposer := frm, qc := qc, cmds := cmds }
        let ag' := if d.contains "agg" then none else ag.map fun a => if d.contains "agg.sig" then { a with sig := none } else a
        some (some (.propose frm b' ag'), if changed then some (nm, b') else none)
  | "vote" =>
    match rest with
    | blk :: _ =>
      match s.sigs.lookup name, s.hashOf blk with
      | some sg, some h =>
        match frm with
        | none => some (none, none)
        | some frm => some (some (.vote frm (if d.contains "sig" then none else some sg) (if d.contains "hash" then "" else h) false), none)
      | _, _ => none
    | [] => none
  | "timeout" =>
    match s.tmos.lookup name with
    | none => none
    | some t =>
      let si := dropSIm { qc := t.qc } d
      some (some (.timeout ⟨frm.getD 0, t.view, if d.contains "viewsig" then none else t.viewSig,
        if d.contains "msgsig" then none else t.msgSig, si⟩), none)
  | "newview" =>
    match st.w.sis.lookup name with
    | none => none
    | some si =>
      match frm with
      | none => some (none, none)
      | some frm => some (some (.newview frm (dropSIm si d)), none)
  | _ => none

def ReplicaSt.sync (st : ReplicaSt) : RState :=
  { st.r with truth := st.w.c.truth, nextBytes := st.w.c.nextBytes }

/-- `act`, then the event loop to quiescence, under the replica's verification mode: with the gate
closed vote events only start verifications (`stepAsync`) -/
def gatedStep (st : ReplicaSt) (c : RCfg) (act : M Unit) : ReplicaSt × String :=
  let (res, held') := stepAsync keys c st.sync act (if st.gate then some st.held else none)
  finish { st with held := if st.gate then held' else st.held } c res

def ReplicaSt.closed (st : ReplicaSt) : Bool := st.async && st.gate

def removeNth {α} : Nat → List α → List α
  | _, [] => []
  | 0, _ :: xs => xs
  | n + 1, x :: xs => x :: removeNth n xs

def replicaStep (st : ReplicaSt) (toks : List String) : ReplicaSt × String :=
  match toks with
  | "cfg" :: _ =>
    let (w', out) := wireStep {} toks
    ({ w := w' }, out)
  | "replica" :: r :: rest =>
    match st.w.c.replica r, (field "rules" rest).bind rulesOf with
    | some r, some rules =>
      if !st.w.c.ready then (st, "bad-op") else
      let vmode := field "verify" rest
      if !(vmode == none || vmode == some "async" || vmode == some "sync") then (st, "bad-op") else
      if rules == .fast && !st.w.c.agg then (st, "panic") else   -- NewFastHotStuff panics without aggregate QCs
      let leaders := match field "leader" rest with
        | some l => if l.startsWith "fixed:" then LeaderKind.fixed ((dropStr 6 l).toNat?.getD 0) else .roundRobin
        | none => .roundRobin
      ({ st with cfg := some { n := st.w.c.cfg.n, id := r, rules := rules, agg := st.w.c.agg, scheme := st.w.c.cfg.scheme, leaders := leaders },
                 r := {}, sendFail := false, async := vmode == some "async", gate := false, held := [] }, "ok")
    | _, _ => (st, "bad-op")
  | _ =>
  match st.cfg with
  | none =>
    let (w', out) := wireStep st.w toks
    ({ st with w := w' }, out)
  | some c =>
  let s := st.w.c
  match toks with
  | ["start"] => if st.closed then gatedStep st c (startAct keys c) else finish st c (start keys c st.sync)
  | "verify-hold" :: rest =>
    if !st.async then (st, "bad-op") else
    match rest with
    | ["on"] => ({ st with gate := true }, "ok")
    | ["off"] =>
      -- the held verifications finish oldest first; the event loop runs after each (gate open)
      let (r', outs) := st.held.foldl (fun (acc : RState × List Out) hv =>
        let ((r1, o1), _) := stepAsync keys c acc.1 (verifyCertM keys c hv.sig hv.hash hv.block) none
        (r1, acc.2 ++ o1)) (st.sync, [])
      finish { st with gate := false, held := [] } c (r', outs)
    | _ => (st, "bad-op")
  | "verify-release" :: rest =>
    if !st.async then (st, "bad-op") else
    match rest with
    | [ks] =>
      match ks.toNat? with
      | some kk =>
        if kk < 1 then (st, "bad-op") else
        match st.held[kk - 1]? with
        | some hv => gatedStep { st with held := removeNth (kk - 1) st.held } c (verifyCertM keys c hv.sig hv.hash hv.block)
        | none => (st, "bad-op")
      | none => (st, "bad-op")
    | _ => (st, "bad-op")
  | ["fetchable", b, onoff] =>
    match s.blocks.lookup b with
    | some blk =>
      let ch := st.r.chain
      let f' := ch.fetchable.filter (fun p => p.1 != blk.hash)
      ({ st with r := { st.r with chain := { ch with fetchable := if onoff == "on" then (blk.hash, blk) :: f' else f' } } }, "ok")
    | none => (st, "bad-op")
  | ["sender-fails", onoff] =>
    if onoff == "on" || onoff == "off" then ({ st with sendFail := onoff == "on" }, "ok") else (st, "bad-op")
  | ["dump"] => (st, dumpR st.w c st.r)
  | "local-timeout" :: rest =>
    let v := (natField "view" rest).getD st.r.view
    if st.closed then gatedStep st c (addEvent (.localTimeout v)) else
    finish st c (step keys c st.sync (.localTimeout v))
  | ["wire", "requestblock", spec] =>
    -- the RequestBlock handler: the hash field is copied into a 32-byte array (shorter: zero padded,
    -- longer: truncated, absent: all zeros) and looked up in the LOCAL store only
    let ans : Option String :=
      if spec == "nil" || spec == "empty" then some "notfound"
      else if spec.startsWith "blk:" then
        match splitChar '/' (dropStr 4 spec) with
        | [nm] => (s.blocks.lookup nm).map fun b => if (st.r.chain.localGet b.hash).isSome then s!"block({st.w.hashName b.hash})" else "notfound"
        | [nm, len] => match s.blocks.lookup nm, len.toNat? with
          | some b, some l => some (if l ≥ 32 && l ≤ 64 && (st.r.chain.localGet b.hash).isSome then s!"block({st.w.hashName b.hash})" else "notfound")
          | _, _ => none
        | _ => none
      else none
    match ans with
    | some a => (st, s!"reqblock({a}) | {dumpR st.w c st.r}")
    | none => (st, "bad-op")
  | "wire" :: kind :: name :: rest =>
    let st1 := if kind == "propose" then { st with nwire := st.nwire + 1 } else st
    match wireEvent st kind name rest with
    | none => (st, "bad-op")
    | some (none, _) => finish st1 c (st1.sync, [])
    | some (some e, reg) =>
      let st2 := match reg with
        | some (nm, b) => { st1 with w := { st1.w with c := { st1.w.c with blocks := (nm, b) :: st1.w.c.blocks } } }
        | none => st1
      if st2.closed then gatedStep st2 c (addEvent e) else
      finish st2 c (step keys c st2.sync e)
  | "deliver" :: kind :: name :: rest =>
    let frm := (natField "from" rest).getD 0
    match kind with
    | "propose" =>
      match s.blocks.lookup name with
      | none => (st, "bad-op")
      | some b =>
        if b.proposer != frm then (st, "bad-op") else
        let ag := match field "agg" rest with
          | some "-" => some none
          | none => some none
          | some a => (s.aggs.lookup a).map some
        match ag with
        | none => (st, "bad-op")
        | some ag =>
          if st.closed then gatedStep st c (addEvent (.propose frm b ag)) else
          finish st c (step keys c st.sync (.propose frm b ag))
    | "vote" =>
      match rest with
      | blk :: _ =>
        match s.sigOrNil name, s.hashOf blk with
        | some sg, some h =>
          if st.closed then gatedStep st c (addEvent (.vote frm sg h false)) else
          finish st c (step keys c st.sync (.vote frm sg h false))
        | _, _ => (st, "bad-op")
      | [] => (st, "bad-op")
    | "timeout" =>
      match s.tmos.lookup name with
      | none => (st, "bad-op")
      | some t =>
        let id := match natField "from" rest with | some f => f | none => t.id
        let e := Ev.timeout ⟨id, t.view, t.viewSig, t.msgSig, { qc := t.qc }⟩
        if st.closed then gatedStep st c (addEvent e) else
        finish st c (step keys c st.sync e)
    | "newview" =>
      match st.w.sis.lookup name with
      | none => (st, "bad-op")
      | some si =>
        if st.closed then gatedStep st c (addEvent (.newview frm si)) else
        finish st c (step keys c st.sync (.newview frm si))
    | _ => (st, "bad-op")
  | _ =>
    let (w', out) := wireStep st.w toks
    ({ st with w := w' }, out)

-- @family "replica" replicaFam
def replicaFam : Fam := { σ := ReplicaSt, init := {}, step := replicaStep }

end HsVerif.Drv

namespace HsVerif.Drv
open HsVerif.Model HsVerif.Spec

/-- Oracle for the replica-level properties (C03, C07, C10 and the soundness halves of C08/C09)
judged on the implementation's answers.  The symbolic script state (who really signed what) is
tracked by running the model alongside. -/
structure ReplicaOr where
  st : ReplicaSt := {}
  lastDump : List String := []
  lastVote : Nat := 0           -- view of the last block the replica signed
  maxTimeout : Nat := 0         -- highest view for which it signed a timeout
  anyVote : Bool := false
  view : Nat := 1
  hqcView : Nat := 0
  committedView : Nat := 0
  tmoView : Nat := 0            -- the view for which `tmoFrom` is collected (the replica's view at that time)
  tmoFrom : List Nat := []      -- distinct senders of well-formed timeouts for `tmoView` seen while in that view
  -- C09 (completeness): per block (hash, view) the distinct replicas whose valid vote for it has been
  -- verified to the end while the block was above the high QC
  done : List (Hash × Nat × List Nat) := []
  -- one entry per held verification, oldest first: the (signer, block) of a valid vote that was
  -- acceptable on arrival, `none` for everything else
  heldO : List (Option (Nat × Block)) := []

def splitOn (sep : String) (toks : List String) : List (List String) :=
  toks.foldr (fun t acc => if t == sep then [] :: acc else match acc with
    | [] => [[t]]
    | x :: xs => (t :: x) :: xs) [[]]

/-- distinct configured replicas with a genuine signature over `m` anywhere in the ground truth
(multi schemes), or inside any named BLS signature -/
def genuineSigners (cs : CertSt) (m : Msg) : List Nat :=
  let fromTruth := cs.truth.filterMap fun p => if p.2.msg == m && cs.cfg.has p.2.signer then some p.2.signer else none
  let fromBls := cs.sigs.flatMap fun p => match p.2 with
    | .bls atoms _ _ => atoms.filterMap fun a => if a.msg == m && cs.cfg.has a.signer then some a.signer else none
    | _ => []
  dedupNat (fromTruth ++ fromBls)

def blockOf (st : ReplicaSt) (name : String) : Option Block :=
  if name == "G" then some genesisBlock else st.w.c.blocks.lookup name

/-- a quorum of distinct replicas really signed a block of view ≥ v, a timeout for a view ≥ v, or
(aggregate rule) a timeout message for a view ≥ v -/
def hasEvidence (st : ReplicaSt) (v : Nat) : Bool :=
  let cs := st.w.c
  let q := cs.cfg.quorum
  (cs.blocks.any fun p => decide (p.2.view ≥ v) && decide (q ≤ (genuineSigners cs (blkMsg p.2.hash)).length)) ||
  ((List.range 12).any fun d => decide (q ≤ (genuineSigners cs (viewMsg (v + d))).length)) ||
  (let ids := dedupNat ((cs.truth.filterMap fun p =>
      match splitChar ':' p.2.msg with
      | "tmo" :: id :: tv :: _ => if id.toNat? == some p.2.signer && decide ((tv.toNat?.getD 0) ≥ v) then some p.2.signer else none
      | _ => none) ++ (cs.sigs.flatMap fun p => match p.2 with
        | .bls atoms _ _ => atoms.filterMap fun a => match splitChar ':' a.msg with
          | "tmo" :: id :: tv :: _ => if id.toNat? == some a.signer && decide ((tv.toNat?.getD 0) ≥ v) then some a.signer else none
          | _ => none
        | _ => []))
   decide (q ≤ ids.length))

/-- a quorum of distinct replicas really signed a block of view EXACTLY `w`, a timeout for view `w`, or
(aggregate rule) a timeout message for view `w`: what a certificate of view `w` is made of.  Since
`EnterViewAfter` a replica enters view `w + 1` only on a certificate of view exactly `w`. -/
def hasEvidenceAt (st : ReplicaSt) (w : Nat) : Bool :=
  let cs := st.w.c
  let q := cs.cfg.quorum
  (cs.blocks.any fun p => p.2.view == w && decide (q ≤ (genuineSigners cs (blkMsg p.2.hash)).length)) ||
  decide (q ≤ (genuineSigners cs (viewMsg w)).length) ||
  (let ids := dedupNat ((cs.truth.filterMap fun p =>
      match splitChar ':' p.2.msg with
      | "tmo" :: id :: tv :: _ => if id.toNat? == some p.2.signer && tv.toNat? == some w then some p.2.signer else none
      | _ => none) ++ (cs.sigs.flatMap fun p => match p.2 with
        | .bls atoms _ _ => atoms.filterMap fun a => match splitChar ':' a.msg with
          | "tmo" :: id :: tv :: _ => if id.toNat? == some a.signer && tv.toNat? == some w then some a.signer else none
          | _ => none
        | _ => []))
   decide (q ≤ ids.length))

/-- the view-change signals of one step are consistent with the move `old → new`: strictly increasing, all
above the old view, the last one is the new view; none iff the view did not change (one signal per ENTERED
view — `EnterViewAfter` may jump over views, which are then neither entered nor signalled) -/
def vcsConsistent (old new : Nat) (vcs : List Nat) : Bool :=
  (vcs.zip (vcs.drop 1)).all (fun p => decide (p.1 < p.2)) && vcs.all (fun v => decide (old < v)) &&
  (match vcs.getLast? with
   | none => new == old
   | some l => l == new)

def stripParen (pre : String) (t : String) : Option String :=
  if t.startsWith pre && t.endsWith ")" then some (String.ofList ((t.toList.drop pre.length).dropLast)) else none

def replicaOracleStep (o : ReplicaOr) (toks : List String) : ReplicaOr × String :=
  let (lhs, rhs) := splitArrow toks
  -- keep the symbolic state in step with the script (model transition)
  let (st', _) := replicaStep o.st lhs
  let o1 := { o with st := st' }
  let isStep := match lhs with
    | "deliver" :: _ => true
    | "wire" :: _ => true
    | "local-timeout" :: _ => true
    | ["start"] => true
    | ["verify-hold", "off"] => true
    | "verify-release" :: _ => true
    | _ => false
  if lhs.head? == some "replica" then ({ o1 with lastVote := 0, maxTimeout := 0, anyVote := false, view := 1, hqcView := 0, committedView := 0, lastDump := [], tmoView := 0, tmoFrom := [], done := [], heldO := [] }, "pass") else
  if !isStep then (o1, "pass") else
  if rhs == ["bad-op"] then (o1, "pass") else
  if rhs.contains "panic" then (o1, s!"fail panic on {joinWith " " lhs}") else
  match o1.st.cfg with
  | none => (o1, "pass")
  | some c =>
  let (effs, dump) := match splitOn "|" rhs with
    | [e, d] => (e.filter (· != ";"), d)
    | _ => ([], [])
  if dump.isEmpty then (o1, s!"fail shape unparsable answer") else
  let cs := st'.w.c
  -- C03
  let r := effs.foldl (fun (acc : ReplicaOr × Option String) e =>
    match acc.2 with
    | some _ => acc
    | none =>
      let o := acc.1
      match stripParen "sign(blk:" e with
      | some name =>
        match blockOf st' name with
        | none => (o, some s!"fail vote-unknown-block signed a vote for unknown block {name}")
        | some b =>
          if o.anyVote && b.view ≤ o.lastVote then (o, some s!"fail vote-order voted for {name} (view {b.view}) after a vote in view {o.lastVote}")
          else if b.view ≤ o.maxTimeout then (o, some s!"fail vote-after-timeout voted for {name} (view {b.view}) after signing a timeout for view {o.maxTimeout}")
          else if b.proposer != c.leader b.view then (o, some s!"fail vote-wrong-leader voted for {name} proposed by {b.proposer}, leader of view {b.view} is {c.leader b.view}")
          else if b.parent != b.qc.hash then (o, some s!"fail vote-parent voted for {name} whose parent is not the block its QC certifies")
          else if b.qc.view ≥ b.view then (o, some s!"fail vote-view voted for {name} whose view is not above its QC's view")
          else if !((b.qc.hash == genesisHash && b.qc.view == 0) ||
              (match b.qc.sig, blockOf st' b.qc.hash with
               | some sg, some qb => qb.view == b.qc.view && decide (cs.cfg.quorum ≤ (signersFor (fun x => cs.truth.lookup x) cs.cfg sg (blkMsg b.qc.hash)).length)
               | _, _ => false)) then
            (o, some s!"fail vote-unsound-qc voted for {name} whose QC is not backed by a quorum of genuine signatures")
          else ({ o with lastVote := b.view, anyVote := true }, none)
      | none =>
        match (stripParen "sign(view:" e).bind (·.toNat?) with
        | some v => ({ o with maxTimeout := max o.maxTimeout v }, none)
        | none => acc) (o1, none)
  match r.2 with
  | some f => (r.1, f)
  | none =>
  let o2 := r.1
  -- C07
  let view := (natField "view" dump).getD 0
  let hq := ((field "hqc" dump).map (splitChar ':')).getD []
  let hqView := (hq.head?.bind (·.toNat?)).getD 0
  let hqName := (hq.drop 1).headD "?"
  let comName := (field "committed" dump).getD "?"
  let comView := ((blockOf st' comName).map (·.view)).getD 0
  let vcs := effs.filterMap fun e => (stripParen "vc(" e).bind fun s => ((splitChar ',' s).head?.bind (·.toNat?))
  let o3 := { o2 with view := view, hqcView := hqView, committedView := comView, lastDump := dump }
  if lhs.contains "expect=inert" && !o2.lastDump.isEmpty && dump != o2.lastDump then
    (o3, s!"fail unverified-input-changed-state {joinWith " " lhs}: {joinWith " " o2.lastDump} -> {joinWith " " dump}")
  else if lhs.contains "expect=inert" && !effs.isEmpty then
    (o3, s!"fail unverified-input-had-effects {joinWith " " lhs}: {joinWith " " effs}")
  else if view < o2.view then (o3, s!"fail view-decreased {o2.view} -> {view}")
  else if hqView < o2.hqcView then (o3, s!"fail hqc-decreased {o2.hqcView} -> {hqView}")
  else if comView < o2.committedView then (o3, s!"fail committed-decreased {o2.committedView} -> {comView}")
  else if !vcsConsistent o2.view view vcs then
    (o3, s!"fail view-change-signalling view {o2.view} -> {view} but view change events {natList vcs}")
  else if vcs.any (fun e => !hasEvidenceAt st' (e - 1)) then
    (o3, s!"fail view-advance-without-evidence left view {o2.view} (now {view}, entered {natList vcs}) although no quorum signed a block or timeout of the view before an entered view")
  else if hqView > o2.hqcView && !(match blockOf st' hqName with
      | some b => b.view == hqView && decide (cs.cfg.quorum ≤ (genuineSigners cs (blkMsg b.hash)).length)
      | none => false) then
    (o3, s!"fail hqc-unsound high QC moved to {hqView}:{hqName} without a quorum of genuine votes for that block")
  else
  -- C08 (completeness): well-formed timeouts for the replica's current view from a quorum of
  -- distinct senders, received while it is in that view, must move it out of that view
  let single (sg : Option Sig) (id : Nat) (m : Msg) : Bool := match sg with
    | some g => g.len == 1 && g.participants == [id] && (signersFor (fun x => cs.truth.lookup x) cs.cfg g m) == [id]
    | none => false
  let sender : Option Nat := match lhs with
    | "deliver" :: "timeout" :: name :: rest =>
      match cs.tmos.lookup name with
      | some t =>
        let id := (natField "from" rest).getD t.id
        if t.view == o2.view && cs.cfg.has id && single t.viewSig id (viewMsg t.view) &&
           (!c.agg || (t.qc.isSome && single t.msgSig id (tmoKey id t.view t.qc))) then some id else none
      | none => none
    | _ =>
      if effs.any (fun e => e.startsWith s!"timeout(id={c.id},v={o2.view},") then some c.id else none
  let from0 := if o2.tmoView == o2.view then o2.tmoFrom else []
  let from1 := match sender with | some id => if from0.contains id then from0 else from0 ++ [id] | none => from0
  let o4 := { o3 with tmoView := o2.view, tmoFrom := from1 }
  if view == o2.view && cs.cfg.quorum ≤ from1.length && 2 ≤ from1.length then
    (o4, s!"fail timeout-quorum-stuck well-formed timeouts for view {view} from {natList from1} (quorum {cs.cfg.quorum}) arrived while the replica was in that view, but it did not leave it")
  else
  -- C09 (completeness, also under asynchronous verification): once the valid votes of a quorum of
  -- distinct replicas for a block have been verified to the end, each having arrived while the block was
  -- known and above the high QC, and the block stayed above the high QC, the certificate has formed —
  -- seen as a high QC of at least that block's view once the event loop is quiescent
  let T : Truth := fun x => cs.truth.lookup x
  let validVote (sg : Sig) (b : Block) : Option Nat :=
    let id := sg.first
    if sg.len == 1 && sg.participants == [id] && cs.cfg.has id && signersFor T cs.cfg sg (blkMsg b.hash) == [id] &&
       verify T cs.cfg sg (blkMsg b.hash) then some id else none
  let closed := o.st.closed
  -- the vote delivered by this op, if it is valid and was acceptable on arrival
  let arrived : Option (Nat × Block) := match lhs with
    | "deliver" :: "vote" :: name :: blk :: _ =>
      match cs.sigs.lookup name, blockOf st' blk with
      | some sg, some b =>
        if (o.st.r.chain.localGet b.hash).isSome && b.view > o2.hqcView then (validVote sg b).map (fun id => (id, b)) else none
      | _, _ => none
    | _ => none
  -- held verifications that end in this step
  let (ended, heldBase) : List (Nat × Block) × List (Option (Nat × Block)) := match lhs with
    | ["verify-release", ks] =>
      match ks.toNat? with
      | some kk => if kk ≥ 1 && kk ≤ o2.heldO.length then ((o2.heldO[kk - 1]?.getD none).toList, removeNth (kk - 1) o2.heldO) else ([], o2.heldO)
      | none => ([], o2.heldO)
    | ["verify-hold", "off"] => (o2.heldO.filterMap id, [])
    | _ => ([], o2.heldO)
  let nHeld := st'.held.length
  let heldNew :=
    if nHeld == heldBase.length + 1 && (match lhs with | "deliver" :: "vote" :: _ => true | _ => false) then heldBase ++ [arrived]
    else (heldBase ++ List.replicate (nHeld - heldBase.length) none).take nHeld
  -- verified at once: gate open (or synchronous mode), or a vote signed by the replica itself
  let direct : List (Nat × Block) := match arrived with
    | some (id, b) => if !closed || id == c.id then [(id, b)] else []
    | none => []
  -- the replica's own votes for blocks whose votes it collects
  let own : List (Nat × Block) := effs.filterMap fun e =>
    match (stripParen "sign(blk:" e).bind (blockOf st') with
    | some b => if c.leader (b.view + 1) == c.id then some (c.id, b) else none
    | none => none
  let done1 := (ended ++ direct ++ own).foldl (fun (acc : List (Hash × Nat × List Nat)) p =>
    let (id, b) := p
    match acc.find? (fun x => x.1 == b.hash) with
    | some x => if x.2.2.contains id then acc else (b.hash, b.view, x.2.2 ++ [id]) :: acc.filter (fun y => y.1 != b.hash)
    | none => (b.hash, b.view, [id]) :: acc) o2.done
  -- entries of blocks no longer above the high QC may be dropped by the collector
  let done2 := done1.filter fun x => x.2.1 > hqView
  let o5 := { o4 with done := done2, heldO := heldNew }
  match done2.find? (fun x => decide (cs.cfg.quorum ≤ x.2.2.length)) with
  | some x =>
    (o5, s!"fail vote-quorum-no-qc valid votes for {st'.w.hashName x.1} (view {x.2.1}) from {natList x.2.2} (quorum {cs.cfg.quorum}) were verified while the block was above the high QC, but no certificate formed: high QC view {hqView}")
  | none => (o5, "pass")

-- @family "replica.oracle" replicaOracle
def replicaOracle : Fam := { σ := ReplicaOr, init := {}, step := replicaOracleStep }

end HsVerif.Drv
