import Std.Data.HashMap
import Std.Data.HashSet
import HsVerif.Drv.Core
import HsVerif.Model.Twins
/-! Line protocol of family `twins` (C18) over `Model/Twins.lean`, and the property oracle
`twins.oracle`.  Vocabulary and canonical forms: see harness/driver/fam_twins.go. -/
namespace HsVerif.Drv
open HsVerif.Model.Twins

namespace Tw

def canonNode (n : NodeID) : String := s!"r{n.rid}n{n.tid}"

def canonNodes (l : List NodeID) : String :=
  if l.isEmpty then "-" else ",".intercalate (l.map canonNode)

def canonSet (s : NodeSet) : String := canonNodes (marshalSet s)

def canonParts (p : List NodeSet) : String :=
  if p.isEmpty then "none" else "/".intercalate (p.map canonSet)

def canonView (v : View) : String := s!"{v.leader}:{canonParts v.partitions}"

def canonScenario (s : Scenario) : String :=
  if s.isEmpty then "." else "|".intercalate (s.map canonView)

def parseNode (s : String) : Option NodeID :=
  match s.toList with
  | 'r' :: rest =>
    match splitChar 'n' (String.ofList rest) with
    | [a, b] => do
      let r ← a.toNat?
      let t ← b.toNat?
      if r < 4294967296 && t < 4294967296 then some ⟨r, t⟩ else none
    | _ => none
  | _ => none

def parseSetWith (add : List NodeID → NodeID → List NodeID) (s : String) : Option (List NodeID) :=
  if s == "-" || s == "+" then some [] else
  (splitChar ',' s).foldlM (fun acc t => (parseNode t).map (add acc)) []

def parseViewWith (add : List NodeID → NodeID → List NodeID) (s : String) : Option View :=
  match splitChar ':' s with
  | [l, p] => do
    let ld ← l.toNat?
    if ld ≥ 4294967296 then none else
    if p == "none" then some ⟨ld, []⟩ else do
    let parts ← (splitChar '/' p).mapM (parseSetWith add)
    some ⟨ld, parts⟩
  | _ => none

def parseScenarioWith (add : List NodeID → NodeID → List NodeID) (s : String) : Option Scenario :=
  if s == "." then some [] else (splitChar '|' s).mapM (parseViewWith add)

def u8 (s : String) : Option Nat := s.toNat?.bind fun v => if v < 256 then some v else none

def commaNats (l : List Nat) : String := ",".intercalate (l.map toString)

def parseU8List (s : String) : Option (List Nat) :=
  if s == "-" then some [] else (splitChar ',' s).mapM u8

def parsePairs (s : String) : Option (List (Nat × Nat)) :=
  if s == "-" then some [] else
  (splitChar ',' s).mapM fun p =>
    match splitChar '.' p with
    | [a, b] => do let x ← u8 a; let y ← u8 b; some (x, y)
    | _ => none

def fnvStep (h : UInt64) (s : String) : UInt64 :=
  s.toUTF8.foldl (fun h b => (h ^^^ b.toUInt64) * 1099511628211) h

def hex64 (h : UInt64) : String :=
  String.ofList ((List.range 16).reverse.map fun i => hexDigit ((h.toNat >>> (4 * i)) % 16))

/-- position before the shuffle of each view of `after` (first unused match) -/
def permOf (before : Array String) (after : List String) : Option (List Nat) :=
  let rec go (used : Array Bool) : List String → Option (List Nat)
    | [] => some []
    | c :: cs =>
      match (List.range before.size).find? (fun j => !used.getD j true && before.getD j "" == c) with
      | none => none
      | some j => (go (used.set! j true) cs).map (j :: ·)
  go (Array.replicate before.size false) after

/-- big-endian base-`l` digits of `c`, `v` of them -/
def digitsOf (l : Nat) : Nat → Nat → List Nat
  | 0, _ => []
  | v + 1, c => (c / l ^ v) % l :: digitsOf l v (c % l ^ v)

end Tw

open Tw

structure TwSt where
  g : Option Gen := none
  n : Nat := 0
  t : Nat := 0
  k : Nat := 0
  v : Nat := 0
  shuffled : Bool := false
  seed : Int := 0
  names : Std.HashMap String Nat := {}
  last : Option Scenario := none

def TwSt.nameScenario (st : TwSt) (s : Scenario) : String :=
  "[" ++ ",".intercalate (s.map fun v =>
    let c := canonView v
    match st.names[c]? with
    | some k => toString k
    | none => "?" ++ c) ++ "]"

/-- `drain`: up to `max` successful calls -/
def drainLoop (st : TwSt) : Nat → Gen → Nat → Std.HashSet String → UInt64 → Option Scenario →
    Gen × Nat × Bool × Std.HashSet String × UInt64 × Option Scenario
  | 0, g, cnt, seen, h, last => (g, cnt, false, seen, h, last)
  | fuel + 1, g, cnt, seen, h, last =>
    match g.next with
    | (g', none) => (g', cnt, true, seen, h, last)
    | (g', some s) =>
      let nm := st.nameScenario s
      drainLoop st fuel g' (cnt + 1) (seen.insert nm) (fnvStep (fnvStep h nm) "\n") (some s)

def blockNames (names : List String) (b : String) : Nat := names.idxOf b

def twinsCommits (st : TwSt) (kvs : List String) : TwSt × String :=
  let parsed : Option (List (NodeID × List String)) := kvs.mapM fun kv =>
    match splitChar '=' kv with
    | [nd, bl] => do
      let id ← parseNode nd
      let log := if bl == "-" then [] else splitChar ',' bl
      if log.any (·.isEmpty) then none else some (id, log)
    | _ => none
  match parsed with
  | none => (st, "bad-op")
  | some es =>
    if !(es.map (·.1)).Nodup then (st, "bad-op") else
    let names := (es.flatMap (·.2)).eraseDups
    let r := checkCommits (es.map fun e => (e.1, e.2.map (blockNames names)))
    (st, s!"safe={r.1} commits={r.2}")

def twinsStep (st : TwSt) (toks : List String) : TwSt × String :=
  match toks with
  | ["ids", n, t] =>
    match u8 n, u8 t with
    | some n, some t =>
      let (nodes, tw) := assignNodeIDs n t
      (st, s!"nodes={canonNodes nodes} twins={canonNodes tw}")
    | _, _ => (st, "bad-op")
  | ["sizes", n, k, m] =>
    match u8 n, u8 k, u8 m with
    | some n, some k, some m =>
      if n < 1 || k < 1 || m < 1 then (st, "bad-op") else
      let sz := genPartitionSizes n k m
      (st, s!"count={sz.length} {";".intercalate (sz.map commaNats)}")
    | _, _, _ => (st, "bad-op")
  | ["valid", a, s] =>
    match parsePairs a, parseU8List s with
    | some a, some s => (st, toString (isValidTwinAssignment a s))
    | _, _ => (st, "bad-op")
  | ["parts", n, t, k, m] =>
    match u8 n, u8 t, u8 k, u8 m with
    | some n, some t, some k, some m =>
      if n < 1 || k < 1 || m < 1 || n + t > 255 then (st, "bad-op") else
      let (nodes, tw) := assignNodeIDs n t
      let ps := genPartitionScenarios tw nodes k m
      (st, s!"count={ps.length} {";".intercalate (ps.map canonParts)}")
    | _, _, _, _ => (st, "bad-op")
  | ["gen", n, t, k, v] =>
    match u8 n, u8 t, u8 k, u8 v with
    | some n, some t, some k, some v =>
      if n < 1 || k < 1 || n + t > 255 then (st, "bad-op") else
      let g := newGenerator n t k v
      let names := (g.lp.zipIdx).foldl (fun (m : Std.HashMap String Nat) (vi : View × Nat) =>
        let c := canonView vi.1
        if m.contains c then m else m.insert c vi.2) {}
      ({ g := some g, n := n, t := t, k := k, v := v, names := names },
        s!"ok L={g.lp.length} remaining={g.remaining}")
    | _, _, _, _ => (st, "bad-op")
  | ["lp"] =>
    match st.g with
    | none => (st, "bad-op")
    | some g => (st, s!"count={g.lp.length} {";".intercalate (g.lp.map canonView)}")
  | "shuffle" :: seed :: rest =>
    match st.g, seed.toInt? with
    | some g, some sd =>
      if sd < -9223372036854775808 || sd > 9223372036854775807 then (st, "bad-op") else
      match (field "perm" rest).bind parseNatList, (field "offs" rest).bind parseNatList with
      | some perm, some offs =>
        let g' := g.shuffle perm offs
        match permOf (g.lp.map canonView).toArray (g'.lp.map canonView) with
        | none => (st, "foreign-view")
        | some p =>
          ({ st with g := some g', shuffled := true, seed := sd },
            s!"ok perm={natList p} offs={natList g'.offsets}")
      | _, _ => (st, "need-perm")
    | _, _ => (st, "bad-op")
  | [op] =>
    if op == "next" || op == "nextfull" then
      match st.g with
      | none => (st, "bad-op")
      | some g =>
        match g.next with
        | (g', none) => ({ st with g := some g' }, s!"eof rem={g'.remaining}")
        | (g', some s) =>
          ({ st with g := some g', last := some s },
            s!"{if op == "next" then st.nameScenario s else canonScenario s} rem={g'.remaining}")
    else if op == "json" then
      match st.last with
      | none => (st, "bad-op")
      | some s => (st, canonScenario (jsonRoundtrip s))
    else if op == "jsonfile" then
      match st.last with
      | none => (st, "bad-op")
      | some s =>
        (st, s!"settings={st.n},{st.t},{st.k},{st.v},100,{st.shuffled},{st.seed} remaining=1 {canonScenario (jsonRoundtrip s)} after=0")
    else if op == "commits" then
      let r := checkCommits []
      (st, s!"safe={r.1} commits={r.2}")
    else (st, "bad-op")
  | ["jsonfilelit", l1, l2] =>
    match parseScenarioWith NodeSet.add l1, parseScenarioWith NodeSet.add l2 with
    | some s1, some s2 =>
      (st, s!"{canonScenario (jsonRoundtrip s1)} || {canonScenario (jsonRoundtrip s2)} || {canonScenario (jsonRoundtrip s1)} after=0")
    | _, _ => (st, "bad-op")
  | [op, c] =>
    if op == "jump" || op == "jumpend" then
      match st.g, c.toNat? with
      | some g, some c =>
        let l := g.lp.length
        let total := l ^ st.v
        if g.done || c ≥ 2 ^ 62 || total > 2 ^ 62 then (st, "bad-op") else
        if op == "jumpend" && (c == 0 || total == 0) then (st, "bad-op") else
        let c := if op == "jumpend" then total - min c total else c
        if c ≥ total then (st, "bad-op") else
        let g' := { g with indices := digitsOf l st.v c, remaining := (total : Int) - c }
        ({ st with g := some g' }, s!"ok at={c} rem={g'.remaining}")
      | _, _ => (st, "bad-op")
    else if op == "drain" then
      match st.g, c.toNat? with
      | some g, some m =>
        let (g', cnt, eof, seen, h, last) := drainLoop st m g 0 {} 14695981039346656037 st.last
        ({ st with g := some g', last := last },
          s!"count={cnt} eof={eof} distinct={seen.size} rem={g'.remaining} fnv={hex64 h}")
      | _, _ => (st, "bad-op")
    else if op == "jsonlit" then
      match parseScenarioWith NodeSet.add c with
      | some sc => (st, canonScenario (jsonRoundtrip sc))
      | none => (st, "bad-op")
    else if op == "pairs" then
      match u8 c with
      | some k =>
        let ps := twinPairs k
        (st, if ps.isEmpty then "-" else ",".intercalate (ps.map fun p => s!"{p.1}.{p.2}"))
      | none => (st, "bad-op")
    else if op == "commits" then twinsCommits st [c]
    else if op == "exec" then
      -- the consensus run is not modelled; what is: the executor reports checkCommits' answer on its logs
      match st.last, c.toNat? with
      | some _, some ticks => (st, if ticks ≤ 1000 then "ok" else "bad-op")
      | _, _ => (st, "bad-op")
    else (st, "bad-op")
  | ["execlit", n, t, ticks, sc, expect] =>
    -- the consensus run is not modelled: the script names the verdict class it pins
    match u8 n, u8 t, ticks.toNat?, parseScenarioWith NodeSet.add sc with
    | some n, some _, some ticks, some _ =>
      if n < 1 || ticks > 1000 || (expect != "safe" && expect != "unsafe") then (st, "bad-op")
      else (st, s!"ok {expect}")
    | _, _, _, _ => (st, "bad-op")
  | "commits" :: kvs => twinsCommits st kvs
  | _ => (st, "bad-op")

-- @family "twins" twinsFam
-- @family "twins.oracle" twinsOracle
def twinsFam : Fam := { σ := TwSt, init := {}, step := twinsStep }

/-! ## Oracle: decides C18 on the implementation's answers.

It never consults `Model/Twins.lean`: expected node universes, well-formedness, counting, the
verdict of `checkCommits` and the JSON canonical form are recomputed here from the property's own
words (ideal sets as sorted duplicate-free lists, arithmetic on the announced number). -/

namespace TwOr

def nodeLt (a b : NodeID) : Bool := a.rid < b.rid || (a.rid == b.rid && a.tid < b.tid)

/-- ideal set: strictly ascending list -/
def setInsert (x : NodeID) : List NodeID → List NodeID
  | [] => [x]
  | y :: ys => if nodeLt x y then x :: y :: ys else if x == y then y :: ys else y :: setInsert x ys

def setAdd (s : List NodeID) (x : NodeID) : List NodeID := setInsert x s

/-- configured nodes for (numNodes, numTwins): replicas 1..min(n,t) run as two twins, the others once -/
def configured (n t : Nat) : List NodeID × List NodeID :=
  let tp := min n t
  (((List.range (n - tp)).map fun i => (⟨tp + 1 + i, 0⟩ : NodeID)),
   ((List.range tp).flatMap fun i => [(⟨i + 1, 1⟩ : NodeID), ⟨i + 1, 2⟩]))

/-- number of ways to write `n` as a sum of at most `k` positive parts, each ≤ `cap` -/
def countParts : Nat → Nat → Nat → Nat
  | 0, n, _ => if n == 0 then 1 else 0
  | k + 1, n, cap =>
    if n == 0 then 1 else
    ((List.range (min n cap)).map fun i => countParts k (n - (i + 1)) (i + 1)).sum

def nonIncreasing : List Nat → Bool
  | a :: b :: r => a ≥ b && nonIncreasing (b :: r)
  | _ => true

def allDistinct (l : List String) : Bool :=
  (l.foldl (fun (s : Std.HashSet String) x => s.insert x) {}).size == l.length

/-- every node of `univ` in exactly one of the sets, nothing else, exactly `k` sets (sets are
given as parsed ideal sets; the raw token count catches repeats inside a set) -/
def partitionOk (univ : List NodeID) (k : Nat) (parts : List (List NodeID)) (rawCount : Nat) : Bool :=
  parts.length == k && rawCount == univ.length &&
  (parts.foldl (fun acc p => p.foldl setAdd acc) []) == univ.foldl setAdd [] &&
  (parts.map (·.length)).sum == univ.length

def rawNodeCount (s : String) : Nat :=
  ((splitChar '/' s).map fun p => if p == "-" || p == "+" then 0 else (splitChar ',' p).length).sum

def parseParts (s : String) : Option (List (List NodeID)) :=
  if s == "none" then some [] else (splitChar '/' s).mapM (parseSetWith setAdd)

/-- the property's verdict on commit logs of the replicas that run without a twin -/
def verdict (logs : List (List String)) : Bool × Nat :=
  let longest := (logs.map (·.length)).foldl max 0
  -- first position that is not "somebody committed there and all who did agree"
  let agreedAt (i : Nat) : Bool :=
    let hs := logs.filterMap (·[i]?)
    !hs.isEmpty && hs.all (· == hs.headD "")
  let c := ((List.range (longest + 1)).find? (fun i => !agreedAt i)).getD longest
  let conflict := (List.range longest).any fun i =>
    let hs := logs.filterMap (·[i]?)
    hs.any fun a => hs.any fun b => a != b
  (!conflict, c)

end TwOr

open TwOr

structure TwOrSt where
  have_ : Bool := false
  n : Nat := 0
  t : Nat := 0
  k : Nat := 0
  v : Nat := 0
  L : Nat := 0
  R : Nat := 0                      -- announced
  count : Nat := 0                  -- scenarios delivered so far (or skipped by `jump`)
  ended : Bool := false
  lpKnown : Bool := false
  lpSet : Std.HashSet String := {}
  lpArr : Array String := #[]       -- alphabet at gen time, by name
  seenNames : Std.HashSet String := {}
  lastFull : Option String := none
  shuffled : Bool := false
  seed : Int := 0
  key : String := ""                -- settings + shuffle seeds: identifies the deterministic stream
  trace : Array String := #[]       -- "op => answer" of next/nextfull/drain/jump for the current stream
  hist : List (String × Array String) := []   -- finished streams of this script
  cands : List (Array String) := []           -- earlier streams with the current key, same ops so far

def TwOrSt.closeStream (s : TwOrSt) : TwOrSt :=
  if s.have_ && s.trace.size > 0 then { s with hist := (s.key, s.trace) :: s.hist, trace := #[] } else s

/-- same settings and seeds ⇒ same answers, call by call: an earlier stream of this script with the
same key is compared as long as it was asked the same operations -/
def TwOrSt.detCheck (s : TwOrSt) (line : String) : TwOrSt × Option String :=
  let pos := s.trace.size
  let opOf (l : String) : List String := (splitArrow (tokens l)).1
  let cur := opOf line
  let cands := s.cands.filter fun tr => pos < tr.size && opOf tr[pos]! == cur
  let bad := cands.findSome? fun tr => if tr[pos]! != line then some tr[pos]! else none
  ({ s with trace := s.trace.push line, cands := cands },
    bad.map fun o => s!"fail generator-nondeterministic call {pos + 1} of stream {s.key}: {line} but earlier {o}")

def remOf (rhs : List String) : Option Int := (field "rem" rhs).bind (·.toInt?)

def twinsOracleStep (s : TwOrSt) (toks : List String) : TwOrSt × String :=
  let (lhs, rhs) := splitArrow toks
  let ans := " ".intercalate rhs
  if rhs == ["bad-op"] then (s, "pass") else
  match lhs with
  | ["ids", n, t] =>
    match u8 n, u8 t with
    | some n, some t =>
      let (nodes, tw) := configured n t
      let want := s!"nodes={canonNodes nodes} twins={canonNodes tw}"
      (s, if ans == want then "pass" else s!"fail ids-wrong {n} {t}: got {ans} want {want}")
    | _, _ => (s, "pass")
  | ["sizes", n, k, m] =>
    match u8 n, u8 k, u8 m with
    | some n, some k, some m =>
      match rhs with
      | [c, body] =>
        match (splitChar ';' body).mapM parseU8List with
        | some szs =>
          let okShape := szs.all fun z => z.length == k && z.sum == n && nonIncreasing z
          let okCount := (field "count" [c]).bind (·.toNat?) == some szs.length
          let okDistinct := allDistinct (szs.map commaNats)
          -- first part is n itself or in [min, n-1]; with min = 1 that is every partition of n into ≤ k parts
          let okMin := szs.all fun z => z.headD 0 == n || z.headD 0 ≥ m
          let okComplete := m != 1 || szs.length == countParts k n n
          (s, if okShape && okCount && okDistinct && okMin && okComplete then "pass"
              else s!"fail sizes-wrong {n} {k} {m}: shape={okShape} count={okCount} distinct={okDistinct} min={okMin} complete={okComplete}")
        | none => (s, s!"fail sizes-wrong unparsable {ans}")
      | _ => (s, s!"fail sizes-wrong unparsable {ans}")
    | _, _, _ => (s, "pass")
  | ["pairs", k] =>
    match u8 k with
    | some k =>
      let want := (List.range k).flatMap fun i => ((List.range k).filter (i ≤ ·)).map fun j => s!"{i}.{j}"
      let w := if want.isEmpty then "-" else ",".intercalate want
      (s, if ans == w then "pass" else s!"fail pairs-wrong {k}: got {ans}")
    | none => (s, "pass")
  | ["valid", a, z] =>
    match parsePairs a, parseU8List z with
    | some a, some z =>
      let targets := a.flatMap fun p => [p.1, p.2]
      let fits := targets.all (· < z.length) &&
        (List.range z.length).all fun p => (targets.filter (· == p)).length ≤ z.getD p 0
      (s, if ans == toString fits then "pass" else s!"fail valid-wrong {a} {z}: got {ans} want {fits}")
    | _, _ => (s, "pass")
  | ["parts", n, t, k, _m] =>
    match u8 n, u8 t, u8 k, rhs with
    | some n, some t, some k, [c, body] =>
      let (nodes, tw) := configured n t
      let univ := tw ++ nodes
      let ps := splitChar ';' body
      let okCount := (field "count" [c]).bind (·.toNat?) == some ps.length
      let bad := ps.find? fun p =>
        match parseParts p with
        | some parts => !partitionOk univ k parts (rawNodeCount p)
        | none => true
      if !okCount then (s, s!"fail parts-count {String.ofList (ans.toList.take 80)}")
      else if let some b := bad then (s, s!"fail parts-malformed {n} {t} {k}: {b}")
      else if !allDistinct ps then (s, s!"fail parts-duplicate {n} {t} {k}")
      else (s, "pass")
    | some _, some _, some _, _ => (s, s!"fail parts-malformed unparsable {String.ofList (ans.toList.take 80)}")
    | _, _, _, _ => (s, "pass")
  | ["gen", n, t, k, v] =>
    match u8 n, u8 t, u8 k, u8 v with
    | some n, some t, some k, some v =>
      let s := s.closeStream
      match (field "L" rhs).bind (·.toNat?), (field "remaining" rhs).bind (·.toInt?) with
      | some L, some R =>
        let key := s!"{n},{t},{k},{v}"
        let s' : TwOrSt := { hist := s.hist, have_ := true, n := n, t := t, k := k, v := v, L := L, R := R.toNat,
                             key := key, cands := (s.hist.filter (·.1 == key)).map (·.2) }
        (s', if R == ((L ^ v : Nat) : Int) then "pass"
             else s!"fail announce-wrong {n} {t} {k} {v}: L={L} announced {R} want {L ^ v}")
      | _, _ => ({ hist := s.hist }, s!"fail generator-failed gen {n} {t} {k} {v}: {ans}")
    | _, _, _, _ => (s, "pass")
  | ["lp"] =>
    if !s.have_ then (s, "pass") else
    match rhs with
    | c :: rest =>
      let body := rest.headD ""
      let vs := if body.isEmpty then [] else splitChar ';' body
      let (nodes, tw) := configured s.n s.t
      let univ := tw ++ nodes
      let okCount := (field "count" [c]).bind (·.toNat?) == some vs.length && vs.length == s.L
      let bad := vs.findSome? fun vw =>
        match splitChar ':' vw with
        | [l, p] =>
          match l.toNat?, parseParts p with
          | some ld, some parts =>
            if !(1 ≤ ld && ld ≤ s.n) then some s!"leader-not-configured {vw}"
            else if !partitionOk univ s.k parts (rawNodeCount p) then some s!"view-malformed {vw}"
            else none
          | _, _ => some s!"view-malformed {vw}"
        | _ => some s!"view-malformed {vw}"
      let s' := if s.count == 0 && !s.shuffled then { s with lpKnown := true, lpSet := vs.foldl (·.insert ·) {}, lpArr := vs.toArray }
                else s
      if !okCount then (s', s!"fail alphabet-count announced L={s.L} listed {vs.length}")
      else if let some b := bad then (s', s!"fail {b}")
      else if !allDistinct vs then (s', s!"fail alphabet-duplicate {s.key}")
      else if s.lpKnown && !(vs.all s.lpSet.contains) then (s', s!"fail shuffle-foreign-view {s.key}")
      else (s', "pass")
    | [] => (s, "fail alphabet-count empty answer")
  | "shuffle" :: seed :: rest =>
    if !s.have_ then (s, "pass") else
    let s := s.closeStream
    let key := s.key ++ s!"@{s.count}|s{seed}"
    -- a Shuffle in mid-stream re-labels the alphabet under the running odometer: "no repetition" is a
    -- statement about one alphabet order, so the record of delivered scenarios starts afresh (the total
    -- number delivered still has to be the announced one)
    let s := { s with key := key, cands := (s.hist.filter (·.1 == key)).map (·.2), shuffled := true,
                      seed := seed.toInt?.getD 0, seenNames := {} }
    if rhs.head? != some "ok" then (s, s!"fail shuffle-failed seed {seed}: {ans}") else
    match (field "perm" rhs).bind parseNatList, (field "offs" rhs).bind parseNatList with
    | some p, some o =>
      let isPerm := p.length == s.L && p.all (· < s.L) && p.eraseDups.length == p.length
      let offOk := o.length == s.v && o.all fun x => x < s.L || (s.L == 0 && x == 0)
      let claimedP := (field "perm" rest).bind parseNatList
      let claimedO := (field "offs" rest).bind parseNatList
      if !isPerm then (s, s!"fail shuffle-not-permutation seed {seed}: {natList p} of {s.L}")
      else if !offOk then (s, s!"fail shuffle-offset-range seed {seed}: {natList o} L={s.L} views={s.v}")
      else if (claimedP.isSome && claimedP != some p) || (claimedO.isSome && claimedO != some o) then
        (s, s!"fail shuffle-not-reproducible seed {seed}: an earlier run gave {rest} now {ans}")
      else (s, "pass")
    | _, _ => (s, s!"fail shuffle-failed seed {seed}: {ans}")
  | ["jump", _] | ["jumpend", _] =>
    if rhs.head? != some "ok" then (s, "pass") else
    match (field "at" rhs).bind (·.toNat?) with
    | some c =>
      let (s, det) := s.detCheck (" ".intercalate toks)
      -- the harness moved the odometer: scenarios seen before may legitimately come again
      ({ s with count := c, ended := false, seenNames := {} }, det.getD "pass")
    | none => (s, "pass")
  | [op] =>
    if op == "next" || op == "nextfull" then
      if !s.have_ then (s, "pass") else
      let (s, det) := s.detCheck (" ".intercalate toks)
      if let some d := det then (s, d) else
      match rhs with
      | [x, r] =>
        let rem := remOf [r]
        if x == "eof" then
          let s' := { s with ended := true }
          if s.count < s.R then (s', s!"fail generator-short {s.key}: end of stream after {s.count} of the announced {s.R} scenarios")
          else if rem != some 0 then (s', s!"fail remaining-wrong {s.key}: {r} at end of stream")
          else (s', "pass")
        else
          let s' := { s with count := s.count + 1, seenNames := s.seenNames.insert (op ++ x) }
          let full : Option String :=
            if op == "nextfull" then some x
            else if s.lpKnown then
              match parseNatList x with
              | some idx => if idx.all (· < s.lpArr.size) then
                  some (if idx.isEmpty then "." else "|".intercalate (idx.map fun i => s.lpArr[i]!)) else none
              | none => none
            else none
          let s' := { s' with lastFull := full }
          let viewsOk : Bool :=
            if op == "next" then
              match parseNatList x with
              | some idx => idx.length == s.v && idx.all (· < s.L)
              | none => false
            else
              let vs := if x == "." then [] else splitChar '|' x
              vs.length == s.v && (!s.lpKnown || vs.all s.lpSet.contains)
          if s.ended then (s', s!"fail generator-long {s.key}: a scenario after the end of the stream")
          else if s.count ≥ s.R then (s', s!"fail generator-long {s.key}: scenario number {s.count + 1} but {s.R} were announced")
          else if !viewsOk then (s', s!"fail generator-foreign-view {s.key}: {x}")
          else if s.seenNames.contains (op ++ x) then (s', s!"fail generator-repeat {s.key}: {x} delivered twice")
          else if rem != some ((s.R : Int) - (s.count + 1)) then (s', s!"fail remaining-wrong {s.key}: {r} after {s.count + 1} of {s.R}")
          else (s', "pass")
      | _ => (s, s!"fail generator-failed {s.key}: {op} answered {ans}")
    else if op == "json" then
      match s.lastFull with
      | some f => (s, if ans == f then "pass" else s!"fail json-changed {f} came back as {ans}")
      | none => (s, if rhs.length == 1 && !(ans.startsWith "reject") && ans != "panic" then "pass" else s!"fail json-changed {ans}")
    else if op == "jsonfile" then
      match s.lastFull with
      | some f =>
        let want := s!"settings={s.n},{s.t},{s.k},{s.v},100,{s.shuffled},{s.seed} remaining=1 {f} after=0"
        (s, if ans == want then "pass" else s!"fail json-changed file: got {ans} want {want}")
      | none => (s, if rhs.head?.map (·.startsWith "settings=") == some true then "pass" else s!"fail json-changed {ans}")
    else if op == "commits" then
      (s, if ans == "safe=true commits=0" then "pass" else s!"fail verdict-wrong no logs: {ans}")
    else (s, "pass")
  | "execlit" :: _ =>
    if rhs.head? == some "ok" then (s, "pass")
    else if rhs.head? == some "inconsistent" then
      let kvs := rhs.drop 3
      let parsed : Option (List (NodeID × List String)) := kvs.mapM fun kv =>
        match splitChar '=' kv with
        | [nd, bl] => (parseNode nd).map fun id => (id, if bl == "-" then [] else splitChar ',' bl)
        | _ => none
      match parsed with
      | some es =>
        let alone := es.filter fun e => (es.filter fun e' => e'.1.rid == e.1.rid).length == 1
        let (safe, c) := verdict (alone.map (·.2))
        if field "safe" rhs == some (toString safe) && field "commits" rhs == some (toString c) then (s, "pass")
        else (s, s!"fail executor-verdict-wrong reported {rhs.take 3} but the reported logs give safe={safe} commits={c}: {" ".intercalate kvs}")
      | none => (s, s!"fail executor-failed {ans}")
    else (s, s!"fail executor-failed {ans}")
  | ["exec", _] =>
    if ans == "ok" then (s, "pass")
    else if rhs.head? == some "inconsistent" then
      let kvs := rhs.drop 3
      let parsed : Option (List (NodeID × List String)) := kvs.mapM fun kv =>
        match splitChar '=' kv with
        | [nd, bl] => (parseNode nd).map fun id => (id, if bl == "-" then [] else splitChar ',' bl)
        | _ => none
      match parsed with
      | some es =>
        let alone := es.filter fun e => (es.filter fun e' => e'.1.rid == e.1.rid).length == 1
        let (safe, c) := verdict (alone.map (·.2))
        if field "safe" rhs == some (toString safe) && field "commits" rhs == some (toString c) then (s, "pass")
        else (s, s!"fail executor-verdict-wrong reported {rhs.take 3} but the reported logs give safe={safe} commits={c}: {" ".intercalate kvs}")
      | none => (s, s!"fail executor-failed {ans}")
    else (s, s!"fail executor-failed {ans}")
  | ["drain", m] =>
    if !s.have_ then (s, "pass") else
    let (s, det) := s.detCheck (" ".intercalate toks)
    if let some d := det then (s, d) else
    match m.toNat?, (field "count" rhs).bind (·.toNat?), field "eof" rhs, (field "distinct" rhs).bind (·.toNat?), remOf rhs with
    | some m, some c, some e, some d, some rem =>
      let total := s.count + c
      let s' := { s with count := total, ended := s.ended || e == "true", lastFull := none }
      if s.ended && c > 0 then (s', s!"fail generator-long {s.key}: {c} scenarios after the end of the stream")
      else if total > s.R then (s', s!"fail generator-long {s.key}: {total} scenarios but {s.R} were announced")
      else if e == "true" && total < s.R then (s', s!"fail generator-short {s.key}: end of stream after {total} of the announced {s.R} scenarios")
      else if e != "true" && c != m then (s', s!"fail generator-failed {s.key}: drain stopped early {ans}")
      else if d != c then (s', s!"fail generator-repeat {s.key}: {c} scenarios, {d} distinct")
      else if rem != (s.R : Int) - total then (s', s!"fail remaining-wrong {s.key}: rem={rem} after {total} of {s.R}")
      else (s', "pass")
    | _, _, _, _, _ => (s, s!"fail generator-failed {s.key}: drain answered {ans}")
  | ["jsonfilelit", l1, l2] =>
    match parseScenarioWith setAdd l1, parseScenarioWith setAdd l2 with
    | some s1, some s2 =>
      let show_ (sc : List _) : String := if sc.isEmpty then "." else "|".intercalate (sc.map fun v =>
        s!"{v.leader}:{if v.partitions.isEmpty then "none" else "/".intercalate (v.partitions.map canonNodes)}")
      let want := s!"{show_ s1} || {show_ s2} || {show_ s1} after=0"
      (s, if ans == want then "pass" else s!"fail json-changed file of two scenarios: got {ans} want {want}")
    | _, _ => (s, "pass")
  | ["jsonlit", lit] =>
    match parseScenarioWith setAdd lit with
    | some sc =>
      -- `sc` holds ideal sets (ascending, duplicate-free): print them as they are
      let want := if sc.isEmpty then "." else "|".intercalate (sc.map fun v =>
        s!"{v.leader}:{if v.partitions.isEmpty then "none" else "/".intercalate (v.partitions.map canonNodes)}")
      (s, if ans == want then "pass" else s!"fail json-changed {want} came back as {ans}")
    | none => (s, "pass")
  | "commits" :: kvs =>
    let parsed : Option (List (NodeID × List String)) := kvs.mapM fun kv =>
      match splitChar '=' kv with
      | [nd, bl] => (parseNode nd).map fun id => (id, if bl == "-" then [] else splitChar ',' bl)
      | _ => none
    match parsed with
    | none => (s, "pass")
    | some es =>
      let alone := es.filter fun e => (es.filter fun e' => e'.1.rid == e.1.rid).length == 1
      let (safe, c) := verdict (alone.map (·.2))
      let want := s!"safe={safe} commits={c}"
      (s, if ans == want then "pass"
          else if (field "safe" rhs) != some (toString safe) then s!"fail verdict-wrong {" ".intercalate kvs}: got {ans} want {want}"
          else s!"fail commit-count-wrong {" ".intercalate kvs}: got {ans} want {want}")
  | _ => (s, "pass")

def twinsOracle : Fam := { σ := TwOrSt, init := {}, step := twinsOracleStep }

end HsVerif.Drv
