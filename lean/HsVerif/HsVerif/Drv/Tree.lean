import HsVerif.Drv.Core
import HsVerif.Model.Tree
/-! Line-protocol family `tree` (C17) over `Model/Tree.lean`, and its oracle `tree.oracle`.

    cfg <bf> <[ids]>        -> ok n=<n>                      (ids 1..2^32-1, bf any integer)
    new <r>                 -> ok th=<h> | panic              NewSimple(r, bf, ids)
    view <r>                -> root=.. isroot=.. parent=<id>,<bool> children=[..] sub=[..] peers=[..] rh=.. th=..
                               | panic | bad-op               every accessor of r's own instance
    childrenof <v> <x>      -> [..] | panic                   v's instance: ChildrenOf(x)
    isroot <v> <x>          -> true|false | panic             v's instance: IsRoot(x)
    heightof <v> <x>        -> <h> | panic                    v's instance: heightOf(x)
    treeheight <n> <bf>     -> <h>                            unexported treeHeight (bf >= 1)
    default <n>             -> ids=[1..n] u32=[1..n]          DefaultTreePos / DefaultTreePosUint32
    shuffle <n>             -> len=<n> sorted=[..]            Shuffle(DefaultTreePosUint32(n)), sorted
    disseminate             -> leader=<id> order=[..] | panic proposal pushed down along ReplicaChildren
    voteup <r>              -> path=[..] | panic              contribution sent up along Parent
    check                   -> ok                             (oracle: cross-replica consistency)

`view`, `disseminate`, `voteup` answer `bad-op` for an assignment with a repeated id (SubTree of the
real code does not terminate there; outside the property). -/
namespace HsVerif.Drv
open HsVerif.Model HsVerif.Model.Tree

structure TreeSt where
  bf : Nat := 0
  pos : List Nat := []
  set : Bool := false

def maxID : Nat := 4294967295

def hasDup : List Nat → Bool
  | [] => false
  | x :: xs => xs.contains x || hasDup xs

def boolStr (b : Bool) : String := if b then "true" else "false"

def viewLine (t : Tree) : String :=
  s!"root={t.root} isroot={boolStr (t.isRoot t.id)} parent={t.parent.1},{boolStr t.parent.2} " ++
  s!"children={natList t.replicaChildren} sub={natList t.subTree} peers={natList t.peersOf} " ++
  s!"rh={t.replicaHeight} th={t.treeHeightOf}"

def parseBf (s : String) : Option Nat :=
  match s.toInt? with
  | some i => some i.toNat
  | none => none

def treeStep (s : TreeSt) (toks : List String) : TreeSt × String :=
  match toks with
  | ["cfg", b, l] =>
    match parseBf b, parseNatList l with
    | some bf, some pos =>
      if pos.any (fun x => x == 0 || x > maxID) then (s, "bad-op")
      else ({ bf := bf, pos := pos, set := true }, s!"ok n={pos.length}")
    | _, _ => (s, "bad-op")
  | ["new", r] =>
    match r.toNat? with
    | some r =>
      if !s.set || r > maxID then (s, "bad-op") else
      match newSimple r s.bf s.pos with
      | some t => (s, s!"ok th={t.treeHeightOf}")
      | none => (s, "panic")
    | none => (s, "bad-op")
  | ["view", r] =>
    match r.toNat? with
    | some r =>
      if !s.set || r > maxID || hasDup s.pos then (s, "bad-op") else
      match newSimple r s.bf s.pos with
      | some t => (s, viewLine t)
      | none => (s, "panic")
    | none => (s, "bad-op")
  | [op, v, x] =>
    if op == "treeheight" then
      match v.toNat?, x.toNat? with
      | some n, some bf => if bf < 1 || n > 1000000 then (s, "bad-op") else (s, toString (treeHeight n bf))
      | _, _ => (s, "bad-op")
    else if op == "childrenof" || op == "isroot" || op == "heightof" then
      match v.toNat?, x.toNat? with
      | some v, some x =>
        if !s.set || v > maxID || x > maxID then (s, "bad-op") else
        match newSimple v s.bf s.pos with
        | some t =>
          if op == "childrenof" then (s, natList (t.childrenOf x))
          else if op == "isroot" then (s, boolStr (t.isRoot x))
          else (s, toString (t.heightOf x))
        | none => (s, "panic")
      | _, _ => (s, "bad-op")
    else (s, "bad-op")
  | ["default", n] =>
    match n.toNat? with
    | some n => if n > 100000 then (s, "bad-op") else
      (s, s!"ids={natList (defaultTreePos n)} u32={natList (defaultTreePos n)}")
    | none => (s, "bad-op")
  | ["shuffle", n] =>
    match n.toNat? with
    | some n => if n > 100000 then (s, "bad-op") else
      -- whatever the random stream, the result is a permutation (Props.C17.shuffle_valid): sorted, it is the input
      (s, s!"len={n} sorted={natList (defaultTreePos n)}")
    | none => (s, "bad-op")
  | ["disseminate"] =>
    if !s.set || s.pos.isEmpty || hasDup s.pos then (s, "bad-op")
    else if s.bf < 2 then (s, "panic")
    else (s, s!"leader={s.pos.getD 0 0} order={natList (disseminate s.bf s.pos)}")
  | ["voteup", r] =>
    match r.toNat? with
    | some r =>
      if !s.set || r > maxID || hasDup s.pos then (s, "bad-op") else
      match newSimple r s.bf s.pos with
      | some _ => (s, s!"path={natList (voteUp s.bf s.pos s.pos.length r)}")
      | none => (s, "panic")
    | none => (s, "bad-op")
  | ["check"] => (s, "ok")
  | _ => (s, "bad-op")

-- @family "tree" treeFam
-- @family "tree.oracle" treeOracle
def treeFam : Fam := { σ := TreeSt, init := {}, step := treeStep }

/-! ## Oracle for C17

Decides the property on the implementation's answers alone: the reports of the individual replicas
must describe one rooted tree over the members.  It knows the member set, `n` and the branch factor,
and the axioms of a rooted tree; it knows nothing of the heap index arithmetic. -/

structure ViewRec where
  root : Nat
  isroot : Bool
  parent : Nat
  hasParent : Bool
  children : List Nat
  sub : List Nat
  peers : List Nat
  rh : Nat
  th : Nat

structure TreeOr where
  bf : Nat := 0
  members : List Nat := []
  wf : Bool := false                       -- bf ≥ 2, ≥ 1 member, no repeated id: inside the property
  views : List (Nat × ViewRec) := []       -- most recent first

def parseBool (s : String) : Option Bool :=
  if s == "true" then some true else if s == "false" then some false else none

def parseView (rhs : List String) : Option ViewRec := do
  let root ← natField "root" rhs
  let isroot ← (field "isroot" rhs).bind parseBool
  let par ← field "parent" rhs
  let (pid, pok) ← match splitChar ',' par with
    | [a, b] => do
      let x ← a.toNat?
      let y ← parseBool b
      pure (x, y)
    | _ => none
  let children ← (field "children" rhs).bind parseNatList
  let sub ← (field "sub" rhs).bind parseNatList
  let peers ← (field "peers" rhs).bind parseNatList
  let rh ← natField "rh" rhs
  let th ← natField "th" rhs
  pure { root := root, isroot := isroot, parent := pid, hasParent := pok, children := children,
         sub := sub, peers := peers, rh := rh, th := th }

def sameSet (a b : List Nat) : Bool := a.all b.contains && b.all a.contains

/-- number of parent hops from `r` to `root` following the reports; `none` if it does not get there
within `fuel` hops or leaves the reported views -/
def depthOf (views : List (Nat × ViewRec)) (root : Nat) : Nat → Nat → Option Nat
  | 0, r => if r == root then some 0 else none
  | fuel + 1, r =>
    if r == root then some 0 else
    match views.lookup r with
    | none => none
    | some v => if !v.hasParent then none else (depthOf views root fuel v.parent).map (· + 1)

/-- is `a` a proper ancestor of `c` according to the reports -/
def isAnc (views : List (Nat × ViewRec)) (a : Nat) : Nat → Nat → Bool
  | 0, _ => false
  | fuel + 1, c =>
    match views.lookup c with
    | none => false
    | some v => v.hasParent && (v.parent == a || isAnc views a fuel v.parent)

def firstFail : List (Option String) → Option String
  | [] => none
  | some e :: _ => some e
  | none :: rest => firstFail rest

def chk (ok : Bool) (msg : String) : Option String := if ok then none else some msg

/-- the cross-replica check run at `check` -/
def checkViews (s : TreeOr) : Option String :=
  let vs := s.views
  let n := s.members.length
  match vs with
  | [] => none
  | (r0, v0) :: _ =>
    let R := v0.root
    let complete := s.members.all (fun m => (vs.lookup m).isSome)
    let perView : List (Option String) := vs.map fun (r, v) =>
      firstFail [
        chk (v.root == R) s!"tree-root replicas {r} and {r0} name different roots {v.root} / {R}",
        chk (s.members.contains v.root) s!"tree-root root {v.root} reported by {r} is not a replica",
        chk (v.th == v0.th) s!"tree-height replicas disagree on TreeHeight: {r} says {v.th}, another {v0.th}",
        chk (v.hasParent == (r != R)) s!"tree-root replica {r}: Parent ok={v.hasParent} but root is {R}",
        chk (v.isroot == (r == R)) s!"tree-root replica {r}: IsRoot(self)={v.isroot} but root is {R}",
        chk (v.hasParent || v.parent == r) s!"tree-root root {r}: Parent returns {v.parent} with ok=false",
        chk (!v.hasParent || (s.members.contains v.parent && v.parent != r))
          s!"tree-parent-child replica {r}: parent {v.parent} is not another replica",
        chk (!hasDup v.children) s!"tree-children replica {r}: children {natList v.children} repeat an id",
        chk (v.children.all s.members.contains && !v.children.contains r)
          s!"tree-children replica {r}: children {natList v.children} not among the other replicas",
        chk (v.children.length ≤ s.bf) s!"tree-children replica {r}: {v.children.length} children with branch factor {s.bf}",
        -- my parent lists me
        (if v.hasParent then
          match vs.lookup v.parent with
          | some pv => chk (pv.children.contains r)
              s!"tree-parent-child replica {r} reports parent {v.parent}, whose children are {natList pv.children}"
          | none => none
         else none),
        -- my children name me as parent; nobody else lists them
        firstFail (v.children.map fun c =>
          match vs.lookup c with
          | some cv => chk (cv.hasParent && cv.parent == r)
              s!"tree-parent-child replica {r} lists child {c}, which reports parent {cv.parent},{cv.hasParent}"
          | none => none),
        firstFail (vs.map fun (q, qv) =>
          chk (q == r || !(v.children.any qv.children.contains))
            s!"tree-children replicas {r} and {q} share a child: {natList v.children} / {natList qv.children}"),
        -- siblings
        (if !v.hasParent then chk v.peers.isEmpty s!"tree-peers root {r} has peers {natList v.peers}"
         else match vs.lookup v.parent with
          | some pv => chk (v.peers == pv.children && v.peers.contains r)
              s!"tree-peers replica {r}: peers {natList v.peers}, children of its parent {v.parent}: {natList pv.children}"
          | none => none),
        chk (!hasDup v.sub) s!"tree-subtree replica {r}: SubTree {natList v.sub} repeats an id"
      ]
    let globalChecks : List (Option String) :=
      if !complete then [] else
      let depths := s.members.map fun m => (m, depthOf vs R n m)
      let maxDepth := depths.foldl (fun acc (_, d) => max acc (d.getD 0)) 0
      [ firstFail (depths.map fun (m, d) =>
          chk d.isSome s!"tree-cycle replica {m}: following Parent never reaches the root {R}"),
        chk (sameSet (vs.flatMap fun (_, v) => v.children) (s.members.filter (· != R)) &&
             (vs.foldl (fun acc (_, v) => acc + v.children.length) 0) + 1 == n)
          s!"tree-partition children lists do not contain every non-root replica exactly once",
        firstFail (vs.map fun (r, v) =>
          let want := s.members.filter fun c => isAnc vs r n c
          chk (sameSet v.sub want) s!"tree-subtree replica {r}: SubTree {natList v.sub}, descendants {natList want}"),
        firstFail (depths.map fun (m, d) =>
          match vs.lookup m, d with
          | some v, some d => chk (v.rh + d == v.th && 1 ≤ v.rh)
              s!"tree-height replica {m}: ReplicaHeight {v.rh}, depth {d}, TreeHeight {v.th}"
          | _, _ => none),
        chk (v0.th == maxDepth + 1) s!"tree-height TreeHeight {v0.th} but deepest replica has depth {maxDepth}" ]
    firstFail (perView ++ globalChecks)

def pow (b : Nat) : Nat → Nat
  | 0 => 1
  | k + 1 => b * pow b k

/-- nodes in `h` complete levels -/
def fullSize (b h : Nat) : Nat := (List.range h).foldl (fun acc k => acc + pow b k) 0

def answer (o : Option String) : String := match o with | none => "pass" | some e => "fail " ++ e

def treeOracleStep (s : TreeOr) (toks : List String) : TreeOr × String :=
  let (lhs, rhs) := splitArrow toks
  match lhs with
  | ["cfg", b, l] =>
    match parseBf b, parseNatList l with
    | some bf, some pos =>
      if rhs.head? != some "ok" then ({ s with wf := false, views := [] }, "pass")
      else ({ bf := bf, members := pos, wf := bf ≥ 2 && !pos.isEmpty && !hasDup pos, views := [] }, "pass")
    | _, _ => ({ s with wf := false, views := [] }, "pass")
  | ["new", r] =>
    if !s.wf then (s, "pass") else
    match r.toNat? with
    | some r =>
      if s.members.contains r then
        (s, if rhs.head? == some "ok" then "pass" else s!"fail tree-panic NewSimple({r}) on a valid configuration: {rhs}")
      else (s, "pass")
    | none => (s, "pass")
  | ["view", r] =>
    if !s.wf then (s, "pass") else
    match r.toNat? with
    | some r =>
      if !s.members.contains r then (s, "pass") else
      if field "sub" rhs == some "overflow" then
        (s, s!"fail tree-subtree replica {r}: the SubTree walk over the children lists exceeds the {s.members.length} replicas (cycle or double listing)")
      else match parseView rhs with
      | some v => ({ s with views := (r, v) :: s.views.filter (·.1 != r) }, "pass")
      | none => (s, s!"fail tree-panic replica {r} cannot report its view: {rhs}")
    | none => (s, "pass")
  | ["check"] => if !s.wf then (s, "pass") else (s, answer (checkViews s))
  | [op, v, x] =>
    if op == "treeheight" then
      match v.toNat?, x.toNat?, rhs with
      | some n, some bf, [h] =>
        if bf < 2 || n < 1 then (s, "pass") else
        match h.toNat? with
        | some h => (s, if 1 ≤ h && fullSize bf (h - 1) < n && n ≤ fullSize bf h then "pass"
            else s!"fail tree-treeheight treeHeight({n},{bf})={h}: {h} levels hold {fullSize bf h}, {h - 1} hold {fullSize bf (h - 1)}")
        | none => (s, s!"fail tree-treeheight treeHeight({n},{bf}) = {rhs}")
      | _, _, _ => (s, "pass")
    else if !s.wf then (s, "pass")
    else match v.toNat?, x.toNat? with
      | some v, some x =>
        if !s.members.contains v then (s, "pass") else
        if op == "childrenof" then
          let want := if s.members.contains x then (s.views.lookup x).map (·.children) else some []
          match want with
          | some w => (s, if rhs == [natList w] then "pass"
              else s!"fail tree-vantage ChildrenOf({x}) asked of {v}: {rhs}, {x}'s own children {natList w}")
          | none => (s, "pass")
        else if op == "isroot" then
          match s.views.head? with
          | some (_, v0) => (s, if rhs == [boolStr (x == v0.root)] then "pass"
              else s!"fail tree-vantage IsRoot({x}) asked of {v}: {rhs}, root is {v0.root}")
          | none => (s, "pass")
        else if op == "heightof" then
          let want := if s.members.contains x then (s.views.lookup x).map (·.rh) else some 0
          match want with
          | some w => (s, if rhs == [toString w] then "pass"
              else s!"fail tree-vantage heightOf({x}) asked of {v}: {rhs}, {x}'s own height {w}")
          | none => (s, "pass")
        else (s, "pass")
      | _, _ => (s, "pass")
  | ["default", n] =>
    match n.toNat? with
    | some n =>
      let want := natList ((List.range n).map (· + 1))
      (s, if field "ids" rhs == some want && field "u32" rhs == some want then "pass"
          else s!"fail tree-default DefaultTreePos({n}) = {rhs}")
    | none => (s, "pass")
  | ["shuffle", n] =>
    match n.toNat? with
    | some n =>
      let want := natList ((List.range n).map (· + 1))
      (s, if field "sorted" rhs == some want && natField "len" rhs == some n then "pass"
          else s!"fail tree-shuffle Shuffle of 1..{n} is not a permutation: {rhs}")
    | none => (s, "pass")
  | ["disseminate"] =>
    if !s.wf then (s, "pass") else
    match natField "leader" rhs, (field "order" rhs).bind parseNatList with
    | some leader, some order =>
      let rootOk := match s.views.head? with | some (_, v0) => leader == v0.root | none => true
      (s, answer (firstFail [
        chk (order.head? == some leader) s!"tree-disseminate delivery {natList order} does not start at the leader {leader}",
        chk rootOk s!"tree-disseminate leader {leader} is not the root the replicas report",
        chk (!hasDup order) s!"tree-disseminate some replica receives the proposal twice: {natList order}",
        chk (sameSet order s.members) s!"tree-disseminate proposal reaches {natList order}, replicas are {natList s.members}" ]))
    | _, _ => (s, s!"fail tree-panic dissemination on a valid configuration: {rhs}")
  | ["voteup", r] =>
    if !s.wf then (s, "pass") else
    match r.toNat? with
    | some r =>
      if !s.members.contains r then (s, "pass") else
      match (field "path" rhs).bind parseNatList with
      | some path =>
        let last := path.getLast?.getD 0
        let hops := path.zip (path.drop 1)
        (s, answer (firstFail [
          chk (path.head? == some r) s!"tree-votepath path {natList path} does not start at {r}",
          chk (!hasDup path && path.all s.members.contains) s!"tree-votepath path {natList path} repeats or leaves the replicas",
          firstFail (hops.map fun (a, b) =>
            match s.views.lookup a with
            | some v => chk (v.hasParent && v.parent == b) s!"tree-votepath hop {a}->{b} but {a} reports parent {v.parent},{v.hasParent}"
            | none => none),
          (match s.views.lookup last with
           | some v => chk (!v.hasParent && v.root == last) s!"tree-votepath path {natList path} ends at {last}, which is not the root"
           | none => none) ]))
      | none => (s, s!"fail tree-panic vote path of {r} on a valid configuration: {rhs}")
    | none => (s, "pass")
  | _ => (s, "pass")

def treeOracle : Fam := { σ := TreeOr, init := {}, step := treeOracleStep }

end HsVerif.Drv
