import HsVerif.Drv.Core
import HsVerif.Model.EventLoop
/-! Model driver families for C14: `queue` and `evloop` (vocabulary: see harness/driver/fam_evloop.go)
and their property oracles (ideal bounded deque / ideal handler *set*, no slots, no ring). -/
namespace HsVerif.Drv
open HsVerif.Model

/-! ### parsing shared by model and oracle -/

def natOf? (s : String) : Option Nat :=
  let cs := s.toList
  if cs.isEmpty || cs.length > 9 || !cs.all Char.isDigit then none
  else some (cs.foldl (fun n c => n * 10 + (c.toNat - 48)) 0)

def evTypes : List Char := ['A', 'B', 'C', 'V', 'O']

def typeOfChar (c : Char) : Option Nat :=
  match evTypes.findIdx? (· == c) with
  | some i => some i
  | none => none

def parseType (s : String) : Option Nat :=
  match s.toList with
  | [c] => typeOfChar c
  | _ => none

def parseEvent (s : String) : Option LEv :=
  match s.toList with
  | c :: d :: rest => do
    let t ← typeOfChar c
    let n ← natOf? (String.ofList (d :: rest))
    pure ⟨t, n⟩
  | _ => none

/-- type 5 = the start event of a ticker (`startTickerEvent{id}`): queued by `AddTicker`, never by a script's `add`,
no handler can be registered for it and nothing can wait for it (`parseType` does not know the letter) -/
def tickerTy : Nat := 5

def showEv (e : LEv) : String :=
  if e.ty == tickerTy then "T" ++ toString e.id else String.ofList [evTypes.getD e.ty '?'] ++ toString e.id

/-- events as they appear in observations: also `T<id>` -/
def parseObsEvent (s : String) : Option LEv :=
  match s.toList with
  | 'T' :: d :: rest => (natOf? (String.ofList (d :: rest))).map fun n => ⟨tickerTy, n⟩
  | _ => parseEvent s

def parseFlags (s : String) : Option HOpts :=
  if s == "-" then some ⟨false, false⟩
  else if s == "p" then some ⟨false, true⟩
  else if s == "a" then some ⟨true, false⟩
  else if s == "pa" then some ⟨true, true⟩
  else none

def parseAct (s : String) : Option Act :=
  match splitChar ':' s with
  | ["u", r] => (natOf? r).map Act.unreg
  | ["a", e] => (parseEvent e).map Act.add
  | ["d", t, e] => do
    let t ← parseType t
    let e ← parseEvent e
    pure (Act.delay t e)
  | ["r", t, f, p] => do
    let t ← parseType t
    let o ← parseFlags f
    let p ← natOf? p
    pure (Act.reg t o p)
  | _ => none

def parseActs (l : List String) : Option (List Act) := l.mapM parseAct

/-! ### queue family -/

structure QSt where
  q : Option (Queue Nat) := none

def queueStep (s : QSt) (toks : List String) : QSt × String :=
  match toks, s.q with
  | ["q.new", c], _ =>
    match natOf? c with
    | none => (s, "bad-op")
    | some 0 => ({ q := none }, "panic")
    | some c => ({ q := some (Queue.new c) }, "ok")
  | _, none => (s, "bad-op")
  | ["q.push", n], some q =>
    match natOf? n with
    | none => (s, "bad-op")
    | some n =>
      let r := q.push n
      ({ q := some r.1 }, match r.2 with | none => "-" | some d => s!"dropped={d}")
  | ["q.pop"], some q =>
    let r := q.pop
    ({ q := some r.1 }, match r.2 with | none => "empty" | some x => toString x)
  | ["q.len"], some q => (s, toString q.len)
  | _, _ => (s, "bad-op")

-- @family "queue" queueFam
-- @family "queue.oracle" queueOracle
def queueFam : Fam := { σ := QSt, init := {}, step := queueStep }

/-- Oracle: ideal bounded deque. -/
structure QOr where
  cap : Nat := 0
  l : List Nat := []
  live : Bool := false

def queueOracleStep (s : QOr) (toks : List String) : QOr × String :=
  let (lhs, rhs) := splitArrow toks
  match lhs with
  | ["q.new", c] =>
    match natOf? c with
    | some 0 => ({ live := false }, "pass")
    | some c => ({ cap := c, l := [], live := true }, if rhs == ["ok"] then "pass" else s!"fail queue-new got {rhs}")
    | none => (s, "pass")
  | ["q.push", n] =>
    match natOf? n, s.live with
    | some n, true =>
      let l' := s.l ++ [n]
      if l'.length > s.cap then
        let want := s!"dropped={l'.headD 0}"
        ({ s with l := l'.tail },
          if rhs == [want] then "pass"
          else if rhs == ["-"] then s!"fail queue-drop-unreported push {n} on full queue {natList s.l}: nothing reported, oldest is {l'.headD 0}"
          else s!"fail queue-drop-wrong push {n} on full queue {natList s.l}: got {rhs} want {want}")
      else
        ({ s with l := l' }, if rhs == ["-"] then "pass" else s!"fail queue-drop-spurious push {n} with room left ({natList s.l}, capacity {s.cap}): got {rhs}")
    | _, _ => (s, "pass")
  | ["q.pop"] =>
    if !s.live then (s, "pass") else
    match s.l with
    | [] => (s, if rhs == ["empty"] then "pass" else s!"fail queue-pop-phantom pop on empty queue returned {rhs}")
    | x :: t => ({ s with l := t }, if rhs == [toString x] then "pass" else s!"fail queue-pop-order got {rhs} want {x} (queue {natList s.l})")
  | ["q.len"] =>
    if !s.live then (s, "pass") else
    (s, if rhs == [toString s.l.length] then "pass" else s!"fail queue-len got {rhs} want {s.l.length}")
  | _ => (s, "pass")

def queueOracle : Fam := { σ := QOr, init := {}, step := queueOracleStep }

/-! ### evloop family -/

structure ElSt where
  el : Option EL := none
  ntick : Nat := 0                   -- tickers added so far (AddTicker numbers them from 0)
  progs : List (List Act) := []
  ctxs : List (List EL.Op) := []     -- what the CancelFunc of context c does

def showObs : Obs → Option String
  | .inv r e inAdd false => some (s!"r{r}" ++ (if inAdd then "@" else ":") ++ showEv e)
  | .dropped e => some ("drop:" ++ showEv e)
  | _ => none

def showLog (log : List Obs) : String :=
  let v := log.filterMap showObs
  if v.isEmpty then "-" else " ".intercalate v

/-- canonical sequential schedule for `conc`: producers add round-robin, the consumer ticks after
every second add, then drains.  (Any schedule gives the same verdict: theorems `fifo_accounting`,
`no_loss_no_duplication`.) -/
def concSchedule (producers per : Nat) : List EL.Op :=
  let adds : List EL.Op := (List.range per).flatMap fun k => (List.range producers).map fun p => EL.Op.add ⟨0, p * 1000000 + k⟩
  let rec weave : List EL.Op → Nat → List EL.Op
    | [], _ => []
    | a :: as, n => if n % 2 == 1 then a :: EL.Op.tick :: weave as (n + 1) else a :: weave as (n + 1)
  weave adds 0 ++ List.replicate (producers * per) EL.Op.tick

def sortedDiff : List Nat → List Nat → Nat → List Nat × List Nat
  | _, _, 0 => ([], [])
  | [], ys, _ => ([], ys)
  | xs, [], _ => (xs, [])
  | x :: xs, y :: ys, fuel + 1 =>
    if x == y then sortedDiff xs ys fuel
    else if x < y then let r := sortedDiff xs (y :: ys) fuel; (x :: r.1, r.2)
    else let r := sortedDiff (x :: xs) ys fuel; (r.1, y :: r.2)

def perProducerOrdered (handled : List Nat) : Bool :=
  let rec go : List Nat → List (Nat × Nat) → Bool
    | [], _ => true
    | x :: xs, last =>
      let p := x / 1000000
      match last.lookup p with
      | some l => if l ≥ x then false else go xs ((p, x) :: last)
      | none => go xs ((p, x) :: last)
  go handled []

def concModel (cap producers per : Nat) : String :=
  let s0 := (EL.new cap []).register 0 ⟨false, false⟩ [] false
  let r := EL.run s0 (concSchedule producers per)
  let handled := (Obs.invsOf false r.2).map (·.2.id)
  let dropped := (Obs.droppedOf r.2).map (·.id)
  let got := (handled ++ dropped).mergeSort
  let want := ((List.range producers).flatMap fun p => (List.range per).map fun k => p * 1000000 + k)
  let d := sortedDiff want got (want.length + got.length + 1)
  s!"lost={natList (d.1.take 20)} dup={natList (d.2.take 20)} order={if perProducerOrdered handled then "ok" else "bad"}"

def regVisible (s : EL) (r : Nat) : Bool := s.holds r

def runOps (s : EL) (ops : List EL.Op) : EL := (EL.run s ops).1

def evloopStep (st : ElSt) (toks : List String) : ElSt × String :=
  match toks, st.el with
  | ["el.new", c], _ =>
    match natOf? c with
    | none => (st, "bad-op")
    | some 0 => ({}, "panic")
    | some c => ({ el := some (EL.new c []) }, "ok")
  | ["conc", c, p, k], _ =>
    match natOf? c, natOf? p, natOf? k with
    | some c, some p, some k =>
      if c == 0 || p == 0 || p > 64 || k > 100000 then (st, "bad-op") else (st, concModel c p k)
    | _, _, _ => (st, "bad-op")
  | ["race.report", _], _ => (st, "race ok")
  | "prog" :: acts, _ =>
    match parseActs acts with
    | none => (st, "bad-op")
    | some a =>
      let progs := st.progs ++ [a]
      ({ st with progs := progs, el := st.el.map fun e => { e with progs := progs } }, s!"p{progs.length - 1}")
  | _, none => (st, "bad-op")
  | "reg" :: t :: f :: acts, some s =>
    match parseType t, parseFlags f, parseActs acts with
    | some t, some o, some a =>
      ({ st with el := some (EL.step s (.reg t o a false)).1 }, s!"r{s.regs.length}")
    | _, _, _ => (st, "bad-op")
  | ["unreg", r], some s =>
    match natOf? r with
    | none => (st, "bad-op")
    | some r =>
      if s.holds r then ({ st with el := some (EL.step s (.unreg r)).1 }, "ok") else (st, "none")
  | ["add", e], some s =>
    match parseEvent e with
    | none => (st, "bad-op")
    | some e => let r := EL.step s (.add e); ({ st with el := some r.1 }, showLog r.2)
  | ["delay", t, e], some s =>
    match parseType t, parseEvent e with
    | some t, some e => ({ st with el := some (EL.step s (.delay t e)).1 }, "ok")
    | _, _ => (st, "bad-op")
  | ["ticker"], some s =>
    -- AddTicker: `eventQ.push(startTickerEvent{id})` with the same warning on overflow.  No handler is registered for
    -- the type and nothing waits for it, so the model's AddEvent of a type-5 event is exactly that push, and the Tick
    -- that pops it calls nobody (Go: startTicker instead of processEvent).
    let r := EL.step s (.add ⟨tickerTy, st.ntick⟩)
    ({ st with el := some r.1, ntick := st.ntick + 1 }, showLog r.2)
  | ["tick"], some s =>
    let r := EL.tick s
    match r.2 with
    | none => (st, "idle")
    | some log =>
      let v := log.filterMap showObs
      ({ st with el := some r.1 }, if v.isEmpty then "ran" else "ran " ++ " ".intercalate v)
  | ["len"], some s => (st, toString s.q.len)
  | ["vctx", v], some s =>
    let thr : Option Nat := if v == "nil" then some 0 else natOf? v
    match thr with
    | none => (st, "bad-op")
    | some thr =>
      let c := st.ctxs.length
      let k := s.regs.length
      let s1 := (EL.step s (.reg 3 ⟨true, true⟩ [.cancelGe c thr] true)).1
      ({ st with el := some s1, ctxs := st.ctxs ++ [[.unreg k, .cancel c]] }, s!"c{c}")
  | ["tctx"], some s =>
    let c := st.ctxs.length
    let k := s.regs.length
    let s1 := (EL.step s (.reg 3 ⟨true, true⟩ [.cancelGe c 0] true)).1
    let s2 := (EL.step s1 (.reg 4 ⟨true, true⟩ [.ctxUnreg k, .cancel c] true)).1
    ({ st with el := some s2, ctxs := st.ctxs ++ [[.unreg (k + 1), .unreg k, .cancel c]] }, s!"c{c}")
  | ["cancel", c], some s =>
    match natOf? c with
    | none => (st, "bad-op")
    | some c =>
      match st.ctxs[c]? with
      | none => (st, "none")
      | some ops => ({ st with el := some (runOps s ops) }, "ok")
  | ["err", c], some s =>
    match natOf? c with
    | none => (st, "bad-op")
    | some c =>
      if c < st.ctxs.length then (st, if s.cancelled.contains c then "canceled" else "active") else (st, "none")
  | _, _ => (st, "bad-op")

-- @family "evloop" evloopFam
-- @family "evloop.oracle" evloopOracle
def evloopFam : Fam := { σ := ElSt, init := {}, step := evloopStep }

/-! ### evloop oracle: the property on the implementation's answers.

Ideal state: the pending events as a plain list (bounded FIFO), the registrations as a *set*
(registration numbers not yet unregistered — calling a closure twice changes nothing), the deferred
events in deferral order.  Each reported handler call is checked against that state: the event is the
oldest pending one, the handler is registered for its type and has not been called for it yet, no
prioritised handler after an ordinary one, none missing at the end; a drop is reported exactly when
the queue is full and names the oldest pending event; deferred events are re-added, in order, after
the handlers of the awaited type. -/

structure OReg where
  ty : Nat
  opts : HOpts
  acts : List Act
  quiet : Bool

inductive OObs where
  | inv (r : Nat) (e : LEv) (inAdd : Bool)
  | drop (e : LEv)
  | junk (s : String)

def parseObs (s : String) : OObs :=
  let cs := s.toList
  if s.startsWith "drop:" then
    match parseObsEvent (dropStr 5 s) with
    | some e => .drop e
    | none => .junk s
  else if cs.head? == some 'r' then
    let body := cs.drop 1
    let (num, rest) := body.span Char.isDigit
    match natOf? (String.ofList num), rest with
    | some r, ':' :: ev => match parseEvent (String.ofList ev) with | some e => .inv r e false | none => .junk s
    | some r, '@' :: ev => match parseEvent (String.ofList ev) with | some e => .inv r e true | none => .junk s
    | _, _ => .junk s
  else .junk s

structure ElOr where
  live : Bool := false
  cap : Nat := 0
  pending : List LEv := []
  regs : List OReg := []
  unregd : List Nat := []
  waiting : List (Nat × LEv) := []
  progs : List (List Act) := []
  ctxs : List (List Act) := []
  cancelled : List Nat := []
  ntick : Nat := 0

namespace ElOr

def isLive (s : ElOr) (r : Nat) : Bool := r < s.regs.length && !s.unregd.contains r

/-- registrations (numbers) that must see an event of type t in the given mode -/
def expected (s : ElOr) (t : Nat) (inAdd : Bool) : List Nat :=
  (List.range s.regs.length).filter fun r =>
    match s.regs[r]? with
    | some g => g.ty == t && g.opts.inAdd == inAdd && s.isLive r
    | none => false

def unreg (s : ElOr) (r : Nat) : ElOr :=
  if r < s.regs.length && !s.unregd.contains r then { s with unregd := r :: s.unregd } else s

def holds (s : ElOr) (r : Nat) : Bool := match s.regs[r]? with | some g => !g.quiet | none => false

def cancel (s : ElOr) (c : Nat) : ElOr := if s.cancelled.contains c then s else { s with cancelled := c :: s.cancelled }

/-- effect of a handler's action on the ideal state, except `add` (needs the observations) -/
def applyAct (s : ElOr) (e : LEv) : Act → ElOr
  | .unreg r => if s.holds r then s.unreg r else s
  | .ctxUnreg r => s.unreg r
  | .add _ => s
  | .delay t x => { s with waiting := s.waiting ++ [(t, x)] }
  | .reg t o p => if s.regs.length < EL.maxRegs then { s with regs := s.regs ++ [⟨t, o, s.progs.getD p [], false⟩] } else s
  | .cancel c => s.cancel c
  | .cancelGe c v => if v ≤ e.id then s.cancel c else s

abbrev Res := Except String (ElOr × List OObs)

def describe : OObs → String
  | .inv r e true => s!"r{r}@{showEv e}"
  | .inv r e false => s!"r{r}:{showEv e}"
  | .drop e => s!"drop:{showEv e}"
  | .junk s => s

/-- run the actions of a called handler on the ideal state; an `add` of a loop-mode handler is
checked against the following observations by `onAdd` -/
def runActs (onAdd : ElOr → List OObs → LEv → Res) (inAdd : Bool) (e : LEv) : ElOr → List OObs → List Act → Res
  | s, obs, [] => .ok (s, obs)
  | s, obs, .add x :: as =>
    if inAdd then runActs onAdd inAdd e s obs as
    else match onAdd s obs x with
      | .ok (s', obs') => runActs onAdd inAdd e s' obs' as
      | .error m => .error m
  | s, obs, a :: as => runActs onAdd inAdd e (s.applyAct e a) obs as

/-- consume the calls of the handlers in `remaining` for event e (mode inAdd) -/
def consumeInvs (onAdd : ElOr → List OObs → LEv → Res) (inAdd : Bool) (e : LEv) :
    Nat → ElOr → List OObs → List Nat → List Nat → Bool → Res
  | 0, s, obs, _, _, _ => .ok (s, obs)
  | fuel + 1, s, obs, remaining, done, ordStarted =>
    let missed (next : String) : Res :=
      .error s!"handler-missed handlers {natList remaining} registered for {showEv e} were not called{next}"
    match obs with
    | .inv r e' m :: rest =>
      if m != inAdd then (if remaining.isEmpty then .ok (s, obs) else missed s!" (next observation {describe (.inv r e' m)})")
      else if e' != e then
        if !inAdd then .error s!"fifo-order handler {r} was given {showEv e'} but the oldest pending event is {showEv e}"
        else if remaining.isEmpty then .ok (s, obs) else missed s!" (next observation {describe (.inv r e' m)})"
      else if remaining.isEmpty then
        if inAdd then .ok (s, obs)
        else if done.contains r then .error s!"handler-twice handler {r} called twice for {showEv e}"
        else .error s!"handler-unexpected handler {r} called for {showEv e} but it is not registered for it"
      else if done.contains r then .error s!"handler-twice handler {r} called twice for {showEv e} while {natList remaining} still wait"
      else if !remaining.contains r then
        .error s!"handler-unexpected handler {r} called for {showEv e} but it is not registered for it"
      else
        match s.regs[r]? with
        | none => .error s!"handler-unexpected handler {r} unknown"
        | some g =>
          if g.opts.prio && ordStarted then .error s!"prio-order prioritised handler {r} called after an ordinary handler for {showEv e}"
          else
            match runActs onAdd inAdd e s rest g.acts with
            | .error m => .error m
            | .ok (s', obs') =>
              consumeInvs onAdd inAdd e fuel s' obs' (remaining.filter (· != r)) (r :: done) (ordStarted || !g.opts.prio)
    | _ => if remaining.isEmpty then .ok (s, obs) else missed ""

def applyQuiet (s : ElOr) (e : LEv) (rs : List Nat) : ElOr :=
  rs.foldl (fun s r => match s.regs[r]? with
    | some g => if g.quiet then g.acts.foldl (fun s a => s.applyAct e a) s else s
    | none => s) s

def visible (s : ElOr) (rs : List Nat) : List Nat := rs.filter fun r => match s.regs[r]? with | some g => !g.quiet | none => false

def noNestedAdd (s : ElOr) (obs : List OObs) (_ : LEv) : Res := .ok (s, obs)

/-- AddEvent(e): handlers running inside AddEvent, then the bounded push -/
def consumeAdd (s : ElOr) (obs : List OObs) (e : LEv) : Res :=
  let exp := s.expected e.ty true
  let vis := s.visible exp
  let s := s.applyQuiet e exp
  match consumeInvs noNestedAdd true e (vis.length + 2) s obs vis [] false with
  | .error m => .error m
  | .ok (s, obs) =>
    if s.pending.length ≥ s.cap then
      let oldest := s.pending.headD e
      let s' := { s with pending := s.pending.tail ++ [e] }
      match obs with
      | .drop x :: rest =>
        if x == oldest then .ok (s', rest)
        else .error s!"drop-wrong adding {showEv e} to a full queue reported {showEv x} as dropped, the oldest pending event is {showEv oldest}"
      | _ => .error s!"drop-unreported adding {showEv e} to a full queue dropped {showEv oldest} without reporting it"
    else
      -- a drop observation that follows belongs to a later AddEvent of the same call (observations carry no marker
      -- for a push without a drop); one that nobody claims is reported by `finish`
      .ok ({ s with pending := s.pending ++ [e] }, obs)

def finish (r : Res) : ElOr → ElOr × String := fun s0 =>
  match r with
  | .error m => (s0, "fail " ++ m)
  | .ok (s, []) => (s, "pass")
  | .ok (s, .drop x :: _) => (s, s!"fail drop-spurious {showEv x} reported as dropped although the queue had room")
  | .ok (s, o :: _) => (s, s!"fail unexpected-observation {describe o}")

def readd (s : ElOr) (obs : List OObs) : List LEv → Res
  | [] => .ok (s, obs)
  | x :: xs => match consumeAdd s obs x with
    | .ok (s', obs') => readd s' obs' xs
    | .error m => .error m

def consumeTick (s : ElOr) (obs : List OObs) (e : LEv) : Res :=
  let s := { s with pending := s.pending.tail }
  let exp := s.expected e.ty false
  let vis := s.visible exp
  let s := s.applyQuiet e exp
  match consumeInvs consumeAdd false e (vis.length + 2) s obs vis [] false with
  | .error m => .error m
  | .ok (s, obs) =>
    let w := (s.waiting.filter (·.1 == e.ty)).map (·.2)
    readd { s with waiting := s.waiting.filter (·.1 != e.ty) } obs w

end ElOr

def evloopOracleStep (s : ElOr) (toks : List String) : ElOr × String :=
  let (lhs, rhs) := splitArrow toks
  match lhs with
  | ["el.new", c] =>
    match natOf? c with
    | some 0 => ({}, "pass")
    | some c => ({ live := true, cap := c }, if rhs == ["ok"] then "pass" else s!"fail el-new got {rhs}")
    | none => (s, "pass")
  | ["conc", _, _, _] =>
    if rhs.head? == some "bad-op" then (s, "pass")
    else (s, if rhs == ["lost=[]", "dup=[]", "order=ok"] then "pass" else s!"fail conc-accounting concurrent producers: {rhs}")
  | ["race.report", _] => (s, if rhs == ["race", "ok"] then "pass" else s!"fail race-support {rhs}")
  | "prog" :: acts =>
    match parseActs acts with
    | some a => ({ s with progs := s.progs ++ [a] }, "pass")
    | none => (s, "pass")
  | _ =>
  if !s.live then (s, "pass") else
  match lhs with
  | "reg" :: t :: f :: acts =>
    match parseType t, parseFlags f, parseActs acts with
    | some t, some o, some a => ({ s with regs := s.regs ++ [⟨t, o, a, false⟩] }, "pass")
    | _, _, _ => (s, "pass")
  | ["unreg", r] =>
    match natOf? r with
    | some r => (if s.holds r then s.unreg r else s, "pass")
    | none => (s, "pass")
  | ["add", e] =>
    match parseEvent e with
    | none => (s, "pass")
    | some e =>
      let obs := if rhs == ["-"] then [] else rhs.map parseObs
      ElOr.finish (s.consumeAdd obs e) s
  | ["delay", t, e] =>
    match parseType t, parseEvent e with
    | some t, some e => ({ s with waiting := s.waiting ++ [(t, e)] }, "pass")
    | _, _ => (s, "pass")
  | ["ticker"] =>
    -- a ticker's start event is one more pending event: it takes a place in the queue, is dropped (and reported) only
    -- as the oldest pending event of a full queue, and the Tick that takes it out calls no handler
    let e : LEv := ⟨tickerTy, s.ntick⟩
    let s1 := { s with ntick := s.ntick + 1 }
    let obs := if rhs == ["-"] then [] else rhs.map parseObs
    ElOr.finish (s1.consumeAdd obs e) s1
  | ["tick"] =>
    match s.pending, rhs with
    | [], ["idle"] => (s, "pass")
    | [], _ => (s, s!"fail tick-phantom tick on an empty queue answered {rhs}")
    | e :: _, "ran" :: obs => ElOr.finish (s.consumeTick (obs.map parseObs) e) s
    | e :: _, _ => (s, s!"fail tick-lost pending event {showEv e} not handled: {rhs}")
  | ["len"] => (s, if rhs == [toString s.pending.length] then "pass" else s!"fail len got {rhs} want {s.pending.length}")
  | ["vctx", v] =>
    let thr : Option Nat := if v == "nil" then some 0 else natOf? v
    match thr with
    | none => (s, "pass")
    | some thr =>
      let c := s.ctxs.length
      let k := s.regs.length
      ({ s with regs := s.regs ++ [⟨3, ⟨true, true⟩, [.cancelGe c thr], true⟩], ctxs := s.ctxs ++ [[.ctxUnreg k, .cancel c]] }, "pass")
  | ["tctx"] =>
    let c := s.ctxs.length
    let k := s.regs.length
    ({ s with regs := s.regs ++ [⟨3, ⟨true, true⟩, [.cancelGe c 0], true⟩, ⟨4, ⟨true, true⟩, [.ctxUnreg k, .cancel c], true⟩],
              ctxs := s.ctxs ++ [[.ctxUnreg (k + 1), .ctxUnreg k, .cancel c]] }, "pass")
  | ["cancel", c] =>
    match (natOf? c).bind (s.ctxs[·]?) with
    | some acts => (acts.foldl (fun s a => s.applyAct ⟨0, 0⟩ a) s, "pass")
    | none => (s, "pass")
  | ["err", c] =>
    match natOf? c with
    | some c =>
      if c < s.ctxs.length then
        let want := if s.cancelled.contains c then "canceled" else "active"
        (s, if rhs == [want] then "pass" else s!"fail context-state context {c} is {rhs}, want {want}")
      else (s, "pass")
    | none => (s, "pass")
  | _ => (s, "pass")

def evloopOracle : Fam := { σ := ElOr, init := {}, step := evloopOracleStep }

end HsVerif.Drv
