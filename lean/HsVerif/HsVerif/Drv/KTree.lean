import HsVerif.Drv.Kauri
/-! Model driver + oracle for the `ktree` family (C09, C17): a whole Kauri aggregation tree — one node
model (`Model/Kauri.lean`) per replica; what a node hands to its parent is the very value the script
delivers there.  Vocabulary and answer format: harness/driver/fam_ktree.go. -/
namespace HsVerif.Drv.KTreeDrv
open HsVerif.Model HsVerif.Drv HsVerif.Drv.KauriDrv

structure TNode where
  id : Nat
  cfg : KCfg
  ks : KState := {}
  outs : Nat := 0
  qcMax : Nat := 0

structure TSt where
  cert : CertSt := {}
  nodes : List TNode := []

def TSt.node? (s : TSt) (id : Nat) : Option TNode := s.nodes.find? (·.id == id)

def TSt.setNode (s : TSt) (n : TNode) : TSt :=
  { s with nodes := n :: s.nodes.filter (·.id != n.id) }

def setSig (name : String) (sg : Sig) (l : List (String × Sig)) : List (String × Sig) :=
  (name, sg) :: l.filter (·.1 != name)

/-- register what the node handed to its parent (`out.<id>.<k>`, `out.<id>.last`) and the largest
certificate it emitted -/
def record (cert : CertSt) (n : TNode) : List KEffect → CertSt × TNode
  | [] => (cert, n)
  | .sendToParent _ sg :: rest =>
    let k := n.outs + 1
    let last := s!"out.{n.id}.last"
    let cert' := match sg with
      | some sg => { cert with sigs := setSig last sg (setSig s!"out.{n.id}.{k}" sg cert.sigs) }
      | none => { cert with sigs := cert.sigs.filter (·.1 != last) }
    record cert' { n with outs := k } rest
  | .newViewQC sg _ _ :: rest => record cert { n with qcMax := max n.qcMax sg.len } rest
  | _ :: rest => record cert n rest

def atId (t : String) : Option Nat := if t.startsWith "@" then (dropStr 1 t).toNat? else none

def nodeOp (s : TSt) (n : TNode) (op : String) (args : List String) : Option (TSt × String) :=
  let T := s.cert.env.T
  let fin (r : KState × List KEffect) : TSt × String :=
    let (cert', n') := record s.cert { n with ks := r.1 } r.2
    ({ s with cert := cert' }.setNode n', answer s.cert n.cfg r.1 r.2)
  match op, args with
  | "begin", _ => (parseBegin s.cert args).map fun (v, h, sg) => fin (kStep T n.cfg n.ks (.begin v h sg))
  | "contribution", [v, id, sg] =>
    match v.toNat?, id.toNat?, s.cert.sigOrNil sg with
    | some v, some id, some sg => some (fin (kStep T n.cfg n.ks (.contribution v id sg (known s.cert n.ks.blockHash))))
    | _, _, _ => none
  | "timer", [v] => v.toNat?.map fun v => fin (kStep T n.cfg n.ks (.timerExpired v))
  | _, _ => none

def ktreeStep (s : TSt) (toks : List String) : TSt × String :=
  match toks with
  | "cfg" :: _ =>
    let (c', r) := certStep s.cert toks
    ({ cert := c', nodes := [] }, r)
  | op :: args =>
    if certOps.contains op then
      let (c', r) := certStep s.cert toks
      ({ s with cert := c' }, r)
    else if !s.cert.ready then (s, "bad-op")
    else if op == "node" then
      if args.length < 2 then (s, "bad-op") else
      match mkNode s.cert args with
      | some c => (s.setNode { id := c.id, cfg := c },
          s!"ok children={natList c.children} subtree={natList c.subtree} quorum={c.cfg.quorum}")
      | none => (s, "bad-op")
    else if op == "store" then
      match args with
      | [b] =>
        match s.cert.blocks.lookup b with
        | some blk => ({ s with cert := { s.cert with store := (blk.hash, blk) :: s.cert.store } }, "ok")
        | none => (s, "bad-op")
      | _ => (s, "bad-op")
    else if op == "expect-root-qc" then
      match args with
      | [id, _] =>
        match id.toNat?.bind s.node? with
        | some n => (s, s!"qcmax={n.qcMax}")
        | none => (s, "bad-op")
      | _ => (s, "bad-op")
    else
      match atId op, args with
      | some id, sub :: rest =>
        match s.node? id with
        | some n => (nodeOp s n sub rest).getD (s, "bad-op")
        | none => (s, "bad-op")
      | _, _ => (s, "bad-op")
  | [] => (s, "bad-op")

-- @family "ktree" KTreeDrv.ktreeFam
def ktreeFam : Fam := { σ := TSt, init := {}, step := ktreeStep }

/-! ### Oracle

Every node is judged by the ideal aggregation node of the `kauri` family (ground truth of who signed
what; Drv/Kauri.lean), with the names `out.<c>.<k>` resolved to the values the MODEL computed (the tie
compares the implementation with the model line by line).  At the level of the tree:
`expect-root-qc <id> <k>` — written by the generator after a bottom-up run in which `k` replicas are
connected to the root by live nodes — requires the largest certificate the root emitted to have exactly
`k` participants when `k` reaches the quorum, and no certificate otherwise. -/

structure TO where
  m : TSt := {}
  os : List (Nat × OSt) := []

def ktreeOracleStep (s : TO) (toks : List String) : TO × String :=
  let (lhs, rhs) := splitArrow toks
  let m' := (ktreeStep s.m lhs).1
  let s1 := { s with m := m' }
  match lhs with
  | "cfg" :: _ => ({ m := m', os := [] }, "pass")
  | "node" :: args =>
    if !s.m.cert.ready || args.length < 2 then (s1, "pass") else
    match mkNode s.m.cert args with
    | some c => ({ s1 with os := (c.id, { cert := s.m.cert, node := some c }) :: s.os.filter (·.1 != c.id) }, "pass")
    | none => (s1, "pass")
  | ["expect-root-qc", id, k] =>
    match id.toNat?, k.toNat?, rhs with
    | some id, some k, [ans] =>
      match s.m.node? id with
      | some n =>
        let want := if decide (n.cfg.cfg.quorum ≤ k) then k else 0
        if ans == s!"qcmax={want}" then (s1, "pass")
        else (s1, s!"fail ktree-root-certificate {k} replicas are connected to root {id} (quorum {n.cfg.cfg.quorum}): want qcmax={want}, got {ans}")
      | none => (s1, "pass")
    | _, _, _ => (s1, "pass")
  | op :: sub :: rest =>
    match atId op with
    | some id =>
      match s.os.lookup id with
      | some o =>
        let (o', v) := kauriOracleStep { o with cert := s.m.cert } ((sub :: rest) ++ ["=>"] ++ rhs)
        let v := if v.startsWith "fail" then s!"{v} (node {id})" else v
        ({ s1 with os := (id, o') :: s.os.filter (·.1 != id) }, v)
      | none => (s1, "pass")
    | none => (s1, "pass")
  | _ => (s1, "pass")

-- @family "ktree.oracle" KTreeDrv.ktreeOracle
def ktreeOracle : Fam := { σ := TO, init := {}, step := ktreeOracleStep }

end HsVerif.Drv.KTreeDrv
