import HsVerif.Drv.Cert
import HsVerif.Model.Kauri
import HsVerif.Model.Tree
/-! Model driver + oracle for the `kauri` family (C09, tree aggregation): one node of the Kauri
aggregation tree (`Model/Kauri.lean`) over the symbolic signatures built with the vocabulary of
the `cert` family (ops `cfg`, `block`, `sign`, `create-pc`, `multi`, `bls`, `combine` are handed to
`certStep`).  Vocabulary and answer format: harness/driver/fam_kauri.go. -/
namespace HsVerif.Drv.KauriDrv
open HsVerif.Model HsVerif.Drv

structure KSt where
  cert : CertSt := {}
  node : Option KCfg := none
  ks : KState := {}

def certOps : List String := ["block", "sign", "create-pc", "multi", "bls", "combine"]

def hashName (h : Hash) : String := if h == "" then "-" else h

/-- is `h` the hash of a block the script has created (stored or not)? -/
def blockNamed (s : CertSt) (h : Hash) : Bool := s.blocks.any (fun p => p.2.hash == h)

/-- `<len>/[participants]/<verdict of another replica over the bytes of block h>` -/
def sigDesc (s : CertSt) (h : Hash) : Option Sig → String
  | none => "nil"
  | some sg =>
    let v := if blockNamed s h then (if verify s.env.T s.cfg sg (blkMsg h) then "1" else "0") else "-"
    s!"{sg.len}/{natList sg.participants}/{v}"

def effectDesc (s : CertSt) (c : KCfg) (h : Hash) : KEffect → String
  | .sendProposalToChildren => "propose~" ++ natList c.children
  | .sendToParent v sg => s!"send~{v}~{sigDesc s h sg}"
  | .newViewQC sg v qh => s!"qc~{v}~{hashName qh}~{sigDesc s h (some sg)}"

def answer (s : CertSt) (c : KCfg) (k : KState) (fx : List KEffect) : String :=
  let fxs := if fx.isEmpty then "-" else "+".intercalate (fx.map (effectDesc s c k.blockHash))
  s!"fx={fxs} view={k.currentView} hash={hashName k.blockHash} sent={if k.aggSent then 1 else 0} senders={natList k.senders} agg={sigDesc s k.blockHash k.aggContrib}"

/-- `node <id> bf=<b> [pos=<ids>]`: the node's view of the tree (`tree.NewSimple`) -/
def mkNode (s : CertSt) (toks : List String) : Option KCfg :=
  match toks with
  | idt :: rest =>
    match idt.toNat?, natField "bf" rest with
    | some id, some bf =>
      if id < 1 || id > s.cfg.n || bf < 2 || bf > 64 then none else
      let pos := match field "pos" rest with
        | none => some (Tree.defaultTreePos s.cfg.n)
        | some p => match parseIds p with
          | some l => if l.isEmpty || l.length > 64 || l.contains 0 then none else some l
          | none => none
      match pos with
      | none => none
      | some pos =>
        match Tree.newSimple id bf pos with
        | none => none
        | some t => some { cfg := s.cfg, id := id, children := t.replicaChildren, subtree := t.subTree }
    | _, _ => none
  | [] => none

def known (s : CertSt) (h : Hash) : Bool := (s.store.lookup h).isSome

/-- parse the arguments of `begin <block> <sig> [hash=<block|unk:tag>]` -/
def parseBegin (s : CertSt) (toks : List String) : Option (Nat × Hash × Sig) :=
  match toks with
  | b :: sg :: rest =>
    match s.blocks.lookup b, s.sigs.lookup sg with
    | some blk, some sig =>
      match field "hash" rest with
      | none => some (blk.view, blk.hash, sig)
      | some hn =>
        if hn.startsWith "unk:" then some (blk.view, hn, sig)
        else match s.blocks.lookup hn with
          | some hb => some (blk.view, hb.hash, sig)
          | none => none
    | _, _ => none
  | _ => none

def kauriStep (s : KSt) (toks : List String) : KSt × String :=
  match toks with
  | "cfg" :: _ =>
    let (c', r) := certStep s.cert toks
    ({ cert := c', node := none, ks := {} }, r)
  | op :: args =>
    if certOps.contains op then
      let (c', r) := certStep s.cert toks
      ({ s with cert := c' }, r)
    else if !s.cert.ready then (s, "bad-op")
    else if op == "node" then
      if args.length < 2 then (s, "bad-op") else
      match mkNode s.cert args with
      | some c => ({ s with node := some c, ks := {} },
          s!"ok children={natList c.children} subtree={natList c.subtree} quorum={c.cfg.quorum}")
      | none => (s, "bad-op")
    else
    match s.node with
    | none => (s, "bad-op")
    | some c =>
      match op, args with
      | "store", [b] =>
        match s.cert.blocks.lookup b with
        | some blk => ({ s with cert := { s.cert with store := (blk.hash, blk) :: s.cert.store } }, "ok")
        | none => (s, "bad-op")
      | "begin", _ =>
        match parseBegin s.cert args with
        | some (v, h, sg) =>
          let (k', fx) := kStep s.cert.env.T c s.ks (.begin v h sg)
          ({ s with ks := k' }, answer s.cert c k' fx)
        | none => (s, "bad-op")
      | "contribution", [v, id, sg] =>
        match v.toNat?, id.toNat?, s.cert.sigOrNil sg with
        | some v, some id, some sg =>
          let (k', fx) := kStep s.cert.env.T c s.ks (.contribution v id sg (known s.cert s.ks.blockHash))
          ({ s with ks := k' }, answer s.cert c k' fx)
        | _, _, _ => (s, "bad-op")
      | "timer", [v] =>
        match v.toNat? with
        | some v =>
          let (k', fx) := kStep s.cert.env.T c s.ks (.timerExpired v)
          ({ s with ks := k' }, answer s.cert c k' fx)
        | none => (s, "bad-op")
      | _, _ => (s, "bad-op")
  | [] => (s, "bad-op")

-- @family "kauri" KauriDrv.kauriFam
def kauriFam : Fam := { σ := KSt, init := {}, step := kauriStep }

/-! ### Oracle

The ideal aggregation node keeps a *set* of contributors.  `begin` with a genuine own vote starts
it with the own signers; a contribution counts exactly when it is for the node's view, the block
is in the node's store, every claimed participant is a distinct configured replica that really
signed the block (`Spec.honestSig`, ground truth — not the verifier's code path), and none of them
is in the set already; nothing else changes anything.  The wait timer flushes the set (when it was
not sent before).  Everything emitted must describe exactly the ideal set and be accepted by the
other replica that the harness consulted; a QC appears exactly when a counted contribution brings
the set to the quorum; the aggregate goes to the parent exactly when the contributors' ids cover
the sub-tree (first time: exactly once; later re-sends of a larger aggregate are permitted) or
when the timer flushes a non-empty set. -/

structure OSt where
  cert : CertSt := {}
  node : Option KCfg := none
  active : Bool := false
  view : Nat := 0
  hash : Hash := ""
  ideal : List Nat := []
  senders : List Nat := []
  flushed : Bool := false
  last : String := ""

structure SigD where
  len : Nat
  ids : List Nat
  v : String

/-- `nil` ↦ `some none` -/
def parseSigD (t : String) : Option (Option SigD) :=
  if t == "nil" then some none else
  match splitChar '/' t with
  | [l, ids, v] =>
    match l.toNat?, parseNatList ids with
    | some l, some ids => some (some ⟨l, ids, v⟩)
    | _, _ => none
  | _ => none

inductive FxD
  | propose (ids : List Nat)
  | send (view : Nat) (sg : Option SigD)
  | qc (view : Nat) (hash : String) (sg : Option SigD)
  | other (t : String)

def parseFx (t : String) : List FxD :=
  if t == "-" then [] else
  (splitChar '+' t).map fun e =>
    match splitChar '~' e with
    | ["propose", ids] => match parseNatList ids with | some l => .propose l | none => .other e
    | ["send", v, sg] => match v.toNat?, parseSigD sg with | some v, some sg => .send v sg | _, _ => .other e
    | ["qc", v, h, sg] => match v.toNat?, parseSigD sg with | some v, some sg => .qc v h sg | _, _ => .other e
    | _ => .other e

def nodupB : List Nat → Bool
  | [] => true
  | x :: xs => !xs.contains x && nodupB xs

/-- does the described signature stand for exactly the set `I`, and was it accepted? -/
def represents (I : List Nat) : Option SigD → Bool
  | none => false
  | some d => d.len == I.length && d.ids.length == I.length && nodupB d.ids && d.ids.all I.contains && d.v == "1"

def stateOf (rhs : List String) : String := " ".intercalate (rhs.filter fun t => !(t.startsWith "fx="))

def kauriOracleStep (s : OSt) (toks : List String) : OSt × String :=
  let (lhs, rhs) := splitArrow toks
  let rhs := if rhs.head? == some "error" then rhs.drop 1 else rhs
  match lhs with
  | "cfg" :: _ =>
    let (c', _) := certStep s.cert lhs
    ({ cert := c' }, "pass")
  | op :: args =>
    if certOps.contains op then ({ s with cert := (certStep s.cert lhs).1 }, "pass")
    else if !s.cert.ready then (s, "pass")
    else if op == "node" then
      if args.length < 2 then (s, "pass") else
      match mkNode s.cert args with
      | some c => ({ cert := s.cert, node := some c }, "pass")
      | none => (s, "pass")
    else
    match s.node with
    | none => (s, "pass")
    | some c =>
    if rhs.head? == some "bad-op" then (s, "pass") else
    let T := s.cert.env.T
    let fx := parseFx ((field "fx" rhs).getD "?")
    let agg := (field "agg" rhs).bind parseSigD
    let st := stateOf rhs
    let sends := fx.filterMap fun | .send v sg => some (v, sg) | _ => none
    let qcs := fx.filterMap fun | .qc v h sg => some (v, h, sg) | _ => none
    let proposes := fx.filterMap fun | .propose l => some l | _ => none
    let others := fx.filterMap fun | .other t => some t | _ => none
    let line := " ".intercalate rhs
    let heldIs (I : List Nat) : Bool := match agg with
      | some a => if I.isEmpty then a.isNone else represents I a
      | none => false
    match op, args with
    | "store", [b] =>
      match s.cert.blocks.lookup b with
      | some blk => ({ s with cert := { s.cert with store := (blk.hash, blk) :: s.cert.store } }, "pass")
      | none => (s, "pass")
    | "begin", _ =>
      match parseBegin s.cert args with
      | none => (s, "pass")
      | some (v, h, own) =>
        if !Spec.honestSig T c.cfg own (blkMsg h) then
          ({ s with active := false, view := v, hash := h, ideal := [], senders := [], flushed := false, last := st }, "pass")
        else
          let I := Spec.signersFor T c.cfg own (blkMsg h)
          let leaf := c.children.isEmpty
          let s' := { s with active := true, view := v, hash := h, ideal := I, senders := [], flushed := leaf, last := st }
          if !others.isEmpty then (s', s!"fail kauri-unparsable {line}")
          else if !heldIs I then (s', s!"fail kauri-held-aggregate after begin: want the own vote of {natList I}: {line}")
          else if !qcs.isEmpty then (s', s!"fail kauri-qc-at-begin {line}")
          else if leaf then
            if proposes.isEmpty && sends.length == 1 && sends.all (fun p => p.1 == v && represents I p.2) then (s', "pass")
            else (s', s!"fail kauri-leaf-send: a leaf sends its own vote {natList I} to the parent exactly once: {line}")
          else
            if sends.isEmpty && proposes == [c.children] then (s', "pass")
            else (s', s!"fail kauri-begin-effects: want the proposal to go to {natList c.children} and nothing to the parent: {line}")
    | "contribution", [vt, idt, sgt] =>
      match vt.toNat?, idt.toNat?, s.cert.sigOrNil sgt with
      | some v, some id, some sg =>
        if !s.active then ({ s with last := st }, "pass") else
        let wire := sg.map Sig.fromWire
        let signers := match wire with | some w => Spec.signersFor T c.cfg w (blkMsg s.hash) | none => []
        let counts := v == s.view && known s.cert s.hash &&
          (match wire with | some w => Spec.honestSig T c.cfg w (blkMsg s.hash) | none => false) &&
          signers.all (fun i => !s.ideal.contains i)
        if !others.isEmpty then (s, s!"fail kauri-unparsable {line}")
        else if !counts then
          if fx.isEmpty && st == s.last then (s, "pass")
          else (s, s!"fail kauri-hostile-contribution-counted view={v} id={id} sig={sgt}: state before [{s.last}] after [{line}]")
        else
          let I := s.ideal ++ signers
          let snd := s.senders ++ [id]
          let covered := c.subtree.all snd.contains
          let s' := { s with ideal := I, senders := snd, flushed := s.flushed || covered, last := st }
          if !heldIs I then (s', s!"fail kauri-valid-contribution-not-merged want contributors {natList I}: {line}")
          else if !proposes.isEmpty then (s', s!"fail kauri-unexpected-propose {line}")
          else if decide (c.cfg.quorum ≤ I.length) && qcs.isEmpty then
            (s', s!"fail kauri-missed-qc {I.length} contributors {natList I} reach the quorum {c.cfg.quorum}: {line}")
          else if decide (I.length < c.cfg.quorum) && !qcs.isEmpty then
            (s', s!"fail kauri-early-qc {I.length} contributors of {c.cfg.quorum}: {line}")
          else if !qcs.all (fun q => q.1 == s.view && q.2.1 == hashName s.hash && represents I q.2.2) then
            (s', s!"fail kauri-bad-qc want view {s.view} block {s.hash} contributors {natList I}: {line}")
          else if !covered && !sends.isEmpty then
            (s', s!"fail kauri-early-send senders {natList snd} do not cover the sub-tree {natList c.subtree}: {line}")
          else if covered && !s.flushed && sends.length != 1 then
            (s', s!"fail kauri-send-count senders {natList snd} cover the sub-tree {natList c.subtree}: want exactly one aggregate to the parent: {line}")
          else if sends.length > 1 || !sends.all (fun p => p.1 == s.view && represents I p.2) then
            (s', s!"fail kauri-bad-send want view {s.view} contributors {natList I}: {line}")
          else (s', "pass")
      | _, _, _ => (s, "pass")
    | "timer", [vt] =>
      match vt.toNat? with
      | none => (s, "pass")
      | some v =>
        if !s.active then ({ s with last := st }, "pass") else
        if !others.isEmpty then (s, s!"fail kauri-unparsable {line}")
        else if v == s.view && !s.flushed && !s.ideal.isEmpty then
          let s' := { s with ideal := [], senders := [], last := st }
          if proposes.isEmpty && qcs.isEmpty && sends.length == 1 && sends.all (fun p => p.1 == s.view && represents s.ideal p.2) && heldIs [] then (s', "pass")
          else (s', s!"fail kauri-timer-flush want the aggregate of {natList s.ideal} to go to the parent once: {line}")
        else if sends.any (fun p => p.2.isNone) then
          ({ s with last := st }, s!"fail kauri-nil-aggregate-sent nothing is held, yet something was sent to the parent: {line}")
        else if fx.isEmpty && st == s.last then (s, "pass")
        else ({ s with last := st }, s!"fail kauri-timer-effects view={v} (node view {s.view}, sent={s.flushed}): state before [{s.last}] after [{line}]")
    | _, _ => (s, "pass")
  | [] => (s, "pass")

-- @family "kauri.oracle" KauriDrv.kauriOracle
def kauriOracle : Fam := { σ := OSt, init := {}, step := kauriOracleStep }

end HsVerif.Drv.KauriDrv
