import HsVerif.Drv.Core
import HsVerif.Model.Bytes
import HsVerif.Model.Sha256
/-! Model driver + oracle for the `bytes` family (C12, C02, C13): the byte forms that are hashed and
signed.  Vocabulary: harness/driver/fam_bytes.go. -/
namespace HsVerif.Drv.BytesDrv
open HsVerif.Model HsVerif.Model.Bytes HsVerif.Drv

def parseHex (s : String) : Option Bytes := if s == "" then some [] else bytesOfHex s

def parseHash (s : String) : Option Bytes :=
  match parseHex s with
  | some b => if b.length == 32 then some b else none
  | none => none

def natBelow (bits : Nat) (s : String) : Option Nat :=
  match s.toNat? with
  | some n => if n < 2 ^ bits then some n else none
  | none => none

def parsePart (s : String) : Option Part :=
  match splitChar ':' s with
  | [i, h] => do
    let id ← natBelow 32 i
    let b ← parseHex h
    pure ⟨id, b⟩
  | _ => none

def parseParts (s : String) : Option (List Part) :=
  if s == "-" then some [] else (splitChar ',' s).mapM parsePart

/-- `nil` ↦ `some none` -/
def parseSig (s : String) : Option (Option QSig) :=
  if s == "nil" then some none
  else if s.startsWith "m=" || s.startsWith "e=" then (parseParts (dropStr 2 s)).map fun ps => some (.multi ps)
  else if s.startsWith "a=" then
    match splitChar '/' (dropStr 2 s) with
    | [ids, h] => do
      let l ← if ids == "-" then some [] else (splitChar ',' ids).mapM (natBelow 32)
      let b ← parseHex h
      pure (some (.agg l b))
    | _ => none
  else none

def parseQC (view hash sig : String) : Option QCv := do
  let v ← natBelow 64 view
  let h ← parseHash hash
  let s ← parseSig sig
  pure ⟨v, h, s⟩

def parseCmd (s : String) : Option Cmd :=
  match splitChar '.' s with
  | [c, q, d] => do
    let c ← natBelow 32 c
    let q ← natBelow 64 q
    let d ← parseHex d
    pure ⟨c, q, d⟩
  | _ => none

def parseCmds (s : String) : Option (List Cmd) :=
  if s == "-" then some [] else (splitChar ';' s).mapM parseCmd

def sha (b : Bytes) : String := Sha256.hex (b.map UInt8.ofNat)

def bytesStep (s : Unit) (toks : List String) : Unit × String :=
  let r : Option String :=
    match toks with
    | ["multi", ps] => (parseParts ps).map fun ps => hexOfBytes (multiBytes ps)
    | ["qc", v, h, sg] => (parseQC v h sg).map fun q => hexOfBytes (qcBytes q)
    | ["pc", h, sg] => do
      let h ← parseHash h
      let sg ← parseSig sg
      let sg ← sg
      pure (hexOfBytes (pcBytes h sg))
    | ["tmo", id, v, q] => do
      let id ← natBelow 32 id
      let v ← natBelow 64 v
      let qc ← if q == "-" then some none else
        match splitChar '/' q with
        | [qv, qh, qs] => (parseQC qv qh qs).map some
        -- an aggregate signature contains a '/' itself
        | [qv, qh, qs, qs2] => (parseQC qv qh (qs ++ "/" ++ qs2)).map some
        | _ => none
      pure (hexOfBytes (tmoBytes id v qc))
    | ["block", p, pr, v, ts, cs, qv, qh, qs] => do
      let p ← parseHash p
      let pr ← natBelow 32 pr
      let v ← natBelow 64 v
      let ts ← natBelow 63 ts
      let cs ← parseCmds cs
      let q ← parseQC qv qh qs
      let b := blockBytes ⟨p, pr, v, cs, q, ts⟩
      pure (hexOfBytes b ++ " " ++ sha b)
    | _ => none
  (s, r.getD "bad-op")

-- @family "bytes" BytesDrv.bytesFam
def bytesFam : Fam := { σ := Unit, init := (), step := bytesStep }

/-! ### Oracle: the bytes determine the object

Every line describes an object field by field, so two lines of one kind with different text
describe different objects (the generator writes every object in one canonical way).  The
implementation's bytes (and, for a block, its hash) must then differ.  Objects are compared within one
signature scheme (multi-signatures with multi-signatures, aggregates with aggregates): which of the two a
replica deals with is configuration. -/

structure OSt where
  seen : List ((String × String) × String) := []   -- (kind, bytes) ↦ the description

def bytesOracleStep (s : OSt) (toks : List String) : OSt × String :=
  let (lhs, rhs) := splitArrow toks
  match lhs, rhs with
  | kind :: args, out :: rest =>
    if out == "bad-op" then (s, "pass") else
    -- ECDSA and EdDSA multi-signatures are one kind of object here (the scheme is configuration)
    let desc := " ".intercalate (args.map fun a => if a.startsWith "e=" then "m=" ++ dropStr 2 a else a)
    -- a block is identified by its hash
    -- multi-signatures and aggregates belong to different configured schemes: compared within a scheme
    let cls := if args.any (fun a => (splitChar '/' a).any (·.startsWith "a=")) then "/agg" else ""
    let key := (kind ++ cls, if kind == "block" then rest.headD out else out)
    -- the bytes of a partial certificate do not name the participants of an aggregate (and need not: they
    -- are neither hashed nor signed anywhere; Props/C12Bytes pc_agg_bytes_do_not_name_the_signer)
    let desc := if kind == "pc" && cls != "" then
        " ".intercalate (args.map fun a => if a.startsWith "a=" then "a=*/" ++ ((splitChar '/' a).getLastD "") else a)
      else desc
    match s.seen.lookup key with
    | some d =>
      if d == desc then (s, "pass")
      else (s, s!"fail bytes-ambiguous two different {kind} objects have the same bytes{if kind == "block" then " and hash" else ""}: [{d}] and [{desc}]")
    | none => ({ s with seen := (key, desc) :: s.seen }, "pass")
  | _, _ => (s, "pass")

-- @family "bytes.oracle" BytesDrv.bytesOracle
def bytesOracle : Fam := { σ := OSt, init := {}, step := bytesOracleStep }

end HsVerif.Drv.BytesDrv
