import HsVerif.Drv.Core
import HsVerif.Model.Rules
import HsVerif.Spec.Rules
/-! Line protocol of family `rules` (C04) over `Model.Rules.step`, and the oracle `rules.oracle`
which replays the script on the specification's replica (`Spec.Rules`) and compares the
implementation's answers with the published rules.

  ruleset <chainedhotstuff|fasthotstuff|simplehotstuff>   -> ok chain=<ChainLength>
  block <name> <view> <parent> <qcblock> <qcview>          -> ok        (created, not stored)
  store <name>                                            -> ok | dup
  vote <curview> <name> [agg]                             -> true | false
  commit <name>                                           -> commit=<name|none> lock=<name|->
  lock                                                    -> <name|->
  defer | done                                            -> ok   (no effect on the rulesets; they tell the oracle to hold
                                                                   known-finding reports back until `done`, so that a
                                                                   different failure later in the script is reported first)
Names get the numbers 2,3,… in creation order (`zero` = 0, `genesis` = 1), so a block can only
refer to blocks created before it, as with real hashes. -/
namespace HsVerif.Drv
open HsVerif.Model.Rules

structure RulesSt where
  st : Option RState := none
  blocks : List (String × Block) := []
  next : Nat := 2

def kindOfName (s : String) : Option Kind :=
  if s == "chainedhotstuff" then some .chained
  else if s == "fasthotstuff" then some .fast
  else if s == "simplehotstuff" then some .simple
  else none

def u32? (s : String) : Option Nat :=
  if s.isEmpty || !s.toList.all Char.isDigit then none
  else match s.toNat? with
    | some n => if n < 4294967296 then some n else none
    | none => none

def hashOfTok (blocks : List (String × Block)) (t : String) : Option Nat :=
  if t == "zero" then some 0
  else if t == "genesis" then some 1
  else (blocks.lookup t).map (·.hash)

def nameOfHash (blocks : List (String × Block)) (h : Nat) : String :=
  if h == 1 then "genesis"
  else match blocks.find? (fun p => p.2.hash == h) with
    | some p => p.1
    | none => "?"

def nameOfOpt (blocks : List (String × Block)) : Option Block → String
  | none => "none"
  | some b => nameOfHash blocks b.hash

def lockName (blocks : List (String × Block)) (k : Kind) (lock : Block) : String :=
  match k with
  | .fast => "-"
  | _ => nameOfHash blocks lock.hash

/-- parse a `block` line into the block it creates -/
def parseBlock (blocks : List (String × Block)) (next : Nat) (name view parent qcb qcv : String) : Option Block :=
  if name == "zero" || name == "genesis" || name == "none" || (blocks.lookup name).isSome then none
  else do
    let v ← u32? view
    let p ← hashOfTok blocks parent
    let q ← hashOfTok blocks qcb
    let qv ← u32? qcv
    pure { hash := next, view := v, parent := p, qcHash := q, qcView := qv }

def rulesStep (s : RulesSt) (toks : List String) : RulesSt × String :=
  match s.st, toks with
  | none, ["ruleset", nm] =>
    match kindOfName nm with
    | some k => ({ s with st := some (RState.init k) }, s!"ok chain={k.chainLength}")
    | none => (s, "bad-op")
  | none, _ => (s, "bad-op")
  | some _, ["block", name, view, parent, qcb, qcv] =>
    match parseBlock s.blocks s.next name view parent qcb qcv with
    | some b => ({ s with blocks := s.blocks ++ [(name, b)], next := s.next + 1 }, "ok")
    | none => (s, "bad-op")
  | some st, ["store", name] =>
    match s.blocks.lookup name with
    | some b =>
      let dup := (st.store b.hash).isSome
      ({ s with st := some (step st (.store b)).1 }, if dup then "dup" else "ok")
    | none => (s, "bad-op")
  | some st, "vote" :: cur :: name :: rest =>
    if rest != [] && rest != ["agg"] then (s, "bad-op") else
    match u32? cur, s.blocks.lookup name with
    | some c, some b =>
      match (step st (.vote c b (rest == ["agg"]))).2 with
      | .vote r => (s, toString r)
      | _ => (s, "bad-op")
    | _, _ => (s, "bad-op")
  | some st, ["commit", name] =>
    match s.blocks.lookup name with
    | some b =>
      let (st', a) := step st (.commit b)
      match a with
      | .commit c => ({ s with st := some st' }, s!"commit={nameOfOpt s.blocks c} lock={lockName s.blocks st'.kind st'.lock}")
      | _ => (s, "bad-op")
    | none => (s, "bad-op")
  | some st, ["lock"] => (s, lockName s.blocks st.kind st.lock)
  | some _, ["defer"] => (s, "ok")
  | some _, ["done"] => (s, "ok")
  | some _, _ => (s, "bad-op")

-- @family "rules" rulesFam
-- @family "rules.oracle" rulesOracle
def rulesFam : Fam := { σ := RulesSt, init := {}, step := rulesStep }

/-! ### Oracle: the specification's replica -/
open HsVerif.Spec.Rules

structure RulesOr where
  kind : Option Kind := none
  sst : SState := SState.init
  blocks : List (String × Block) := []
  next : Nat := 2
  defer : Bool := false
  held : Option String := none      -- first known-finding report held back until `done`

/-- The published number of chained certificates behind a commit. -/
def publishedChain : Kind → Nat
  | .chained => 3
  | .fast => 2
  | .simple => 3

/-- Known deviation of `Blockchain.Extends` (see known_findings.json): on the branch from `b` down
to the block named `target.hash` some block before the target has a view that is not above the
target's view, so the walk stops there. -/
def inversionBefore (s : Store) (b target : Block) : Bool :=
  let path := (branchBlocks s b.parent b).takeWhile (fun x => x.hash != target.hash)
  path.any (fun x => x.view ≤ target.view)

def rulesOracleStep (o : RulesOr) (toks : List String) : RulesOr × String :=
  let (lhs, rhs) := splitArrow toks
  if rhs == ["bad-op"] then (o, "pass") else
  match o.kind, lhs with
  | none, ["ruleset", nm] =>
    match kindOfName nm with
    | some k =>
      ({ o with kind := some k },
        if rhs == ["ok", s!"chain={publishedChain k}"] then "pass" else s!"fail chain-length {nm}: got {rhs} want chain={publishedChain k}")
    | none => (o, "pass")
  | none, _ => (o, "pass")
  | some _, ["block", name, view, parent, qcb, qcv] =>
    match parseBlock o.blocks o.next name view parent qcb qcv with
    | some b => ({ o with blocks := o.blocks ++ [(name, b)], next := o.next + 1 }, "pass")
    | none => (o, "pass")
  | some k, ["store", name] =>
    match o.blocks.lookup name with
    | some b => ({ o with sst := Spec.Rules.next k o.sst (.store b) }, "pass")
    | none => (o, "pass")
  | some k, "vote" :: cur :: name :: rest =>
    match u32? cur, o.blocks.lookup name with
    | some c, some b =>
      let agg := rest == ["agg"]
      let want := votesB k o.sst.store o.sst.lock c b agg
      -- chained / simplified HotStuff abstain when the block a vote obliges them to lock on is unknown
      let lockKnown := match k, justified o.sst.store b with
        | .fast, _ => true
        | _, none => true
        | _, some j => j.qcHash == 0 || (o.sst.store j.qcHash).isSome
      if rhs == [toString want] then (o, "pass")
      else if rhs == ["false"] && !lockKnown then (o, "pass")
      else if rhs == ["false"] then
        -- refused although the published condition holds
        let target : Option Block := match k, agg with
          | .chained, _ => some o.sst.lock
          | .fast, true => justified o.sst.store b
          | _, _ => none
        let live := match k with
          | .chained => (match justified o.sst.store b with | some j => decide (j.view > o.sst.lock.view) | none => false)
          | _ => false
        match target with
        | some t =>
          if !live && inversionBefore o.sst.store b t then
            let msg := s!"fail extends-view-inversion vote {cur} {name}: refused, but the block extends {nameOfHash o.blocks t.hash} through a parent link that does not increase the view"
            if o.defer then ({ o with held := o.held.orElse (fun _ => some msg) }, "pass") else (o, msg)
          else (o, s!"fail vote-refused {name} in view {cur}: published rule votes")
        | none => (o, s!"fail vote-refused {name} in view {cur}: published rule votes")
      else if rhs == ["true"] then (o, s!"fail vote-forbidden {name} in view {cur}: published rule does not vote")
      else (o, s!"fail vote-shape got {rhs}")
    | _, _ => (o, "pass")
  | some k, ["commit", name] =>
    match o.blocks.lookup name with
    | some b =>
      let want := decideRule k o.sst.store b
      let sst' := Spec.Rules.next k o.sst (.commit b)
      let o' := { o with sst := sst' }
      let wc := nameOfOpt o.blocks want
      let wl := lockName o.blocks k sst'.lock
      let gc := (field "commit" rhs).getD "<absent>"
      let gl := (field "lock" rhs).getD "<absent>"
      if gc != wc then
        if wc == "none" then (o', s!"fail commit-not-chain-tail commit {name}: committed {gc}, which does not end the required chain")
        else if gc == "none" then (o', s!"fail commit-missed commit {name}: nothing committed, published rule commits {wc}")
        else (o', s!"fail commit-wrong-block commit {name}: committed {gc}, published rule commits {wc}")
      else if gl != wl then (o', s!"fail lock-mismatch commit {name}: lock={gl}, published rule locks {wl}")
      else (o', "pass")
    | none => (o, "pass")
  | some k, ["lock"] =>
    let wl := lockName o.blocks k o.sst.lock
    (o, if rhs == [wl] then "pass" else s!"fail lock-mismatch got {rhs} want {wl}")
  | some _, ["defer"] => ({ o with defer := true }, "pass")
  | some _, ["done"] =>
    match o.held with
    | some msg => ({ o with held := none, defer := false }, msg)
    | none => ({ o with defer := false }, "pass")
  | some _, _ => (o, "pass")

def rulesOracle : Fam := { σ := RulesOr, init := {}, step := rulesOracleStep }

end HsVerif.Drv
