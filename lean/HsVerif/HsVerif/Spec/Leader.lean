import HsVerif.Model.Leader
/-! Specification vocabulary for C16, independent of the code's own walk over the parent chain. -/
namespace HsVerif.Model.Leader

/-- `Recent get k (h, b) c`: block `c` is one of the last `k` committed blocks when the committed head
is block `b` with hash `h`: the head itself or an ancestor reached over fewer than `k` parent links,
the genesis block excluded. -/
inductive Recent (get : Nat → Option Block) : Nat → Nat → Block → Block → Prop
  | here (k h : Nat) (b : Block) : h ≠ 0 → Recent get (k + 1) h b b
  | up (k h : Nat) (b p c : Block) : h ≠ 0 → get b.parent = some p → Recent get k b.parent p c →
      Recent get (k + 1) h b c

end HsVerif.Model.Leader
