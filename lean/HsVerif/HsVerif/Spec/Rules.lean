import HsVerif.Model.Block
/-!
The published voting / locking / commit rules, written from the papers and NOT from the Go code.
Only the data types (`Block`, `Store`) are shared with the model of the code.

* Chained HotStuff — Yin, Malkhi, Reiter, Gueta, Abraham, "HotStuff: BFT consensus in the lens of
  blockchain" (PODC'19), Algorithms 4/5 (event-driven form):
    onReceiveProposal:  vote iff  b_new.height > vheight ∧
                                  (b_new extends b_lock ∨ b_new.justify.node.height > b_lock.height)
    update(b*):  b'' ← b*.justify.node ; b' ← b''.justify.node ; b ← b'.justify.node
                 if b'.height > b_lock.height then b_lock ← b'                      (lock: two-chain head)
                 if b''.parent = b' ∧ b'.parent = b then commit b                    (three-chain)
  The paper pads skipped views with dummy blocks, so that "parent" means "parent in the previous
  height"; an implementation without dummy blocks has to ask for consecutive views explicitly.
  The `height > vheight` conjunct is the voter's last-voted-view check, not part of the ruleset.
* Fast-HotStuff — Jalalzai, Niu, Feng, Gai (arXiv 2010.11454): a block is committed by a
  two-chain of direct parents in consecutive views; happy path vote: the block is proposed for
  the view right after its QC's view and is not older than the replica's view; after a view
  change (proposal carries an aggregated QC): the block must extend the block of the high QC.
* Simplified HotStuff — Jehl, "Formal verification of HotStuff" (FORTE'21): a block's parent is
  the block its certificate certifies; vote iff the block's round is not below the current one
  and its parent's round is not below the locked block's round; lock the grandparent; commit the
  great-grandparent when great-grandparent, grandparent and parent have consecutive rounds.
-/
namespace HsVerif.Spec.Rules
open HsVerif.Model.Rules (Block Store Kind Op Ans genesis)

/-- `b.justify.node`: the block certified by the quorum certificate that `b` carries. -/
def justified (s : Store) (b : Block) : Option Block := s b.qcHash

/-- `c` is a direct child of `p` proposed in the very next view. -/
def DirectNext (c p : Block) : Prop := c.parent = p.hash ∧ c.view = p.view + 1

instance (c p : Block) : Decidable (DirectNext c p) := by unfold DirectNext; exact inferInstance

/-- `c`'s certificate certifies `p` and `p` was proposed in the view right before `c`'s
(Jehl's model: the certified block *is* the parent). -/
def CertNext (s : Store) (c p : Block) : Prop := justified s c = some p ∧ c.view = p.view + 1

/-- The name `h` lies on the branch led by `b`: it names `b` itself or an ancestor reached through
parent links whose blocks are present. -/
inductive OnBranch (s : Store) : Block → Nat → Prop
  | self (b : Block) : OnBranch s b b.hash
  | up {b p : Block} {h : Nat} : s b.parent = some p → OnBranch s p h → OnBranch s b h

/-- "`b` extends `t`" (names identify blocks). -/
def Extends (s : Store) (b t : Block) : Prop := OnBranch s b t.hash

/-! ### Chained HotStuff -/

/-- `bstar`'s certificate heads a three-chain `b2 → b1 → b0` (b'' , b' , b of the paper): each is
certified by the next one's certificate, direct parents, consecutive views. -/
structure ThreeChain (s : Store) (bstar b2 b1 b0 : Block) : Prop where
  cert2 : justified s bstar = some b2
  cert1 : justified s b2 = some b1
  cert0 : justified s b1 = some b0
  link21 : DirectNext b2 b1
  link10 : DirectNext b1 b0

/-- Decide step of `update(bstar)`: `c` gets committed. -/
def ChainedCommits (s : Store) (bstar c : Block) : Prop := ∃ b2 b1, ThreeChain s bstar b2 b1 c

/-- Executable form of the decide step. -/
def chainedDecide (s : Store) (bstar : Block) : Option Block :=
  (justified s bstar).bind fun b2 =>
  (justified s b2).bind fun b1 =>
  (justified s b1).bind fun b0 =>
  if DirectNext b2 b1 ∧ DirectNext b1 b0 then some b0 else none

/-- Lock step of `update(bstar)`: the head of the two-chain replaces the lock if it is higher. -/
def chainedLock (s : Store) (lock bstar : Block) : Block :=
  match (justified s bstar).bind (justified s) with
  | some b1 => if b1.view > lock.view then b1 else lock
  | none => lock

/-- The replica can work out the lock that a vote for `b` entails: the block certified by the QC
of `b`'s certified block is in its store (or there is none: zero hash).  A replica that lacks it
abstains (chained and simplified HotStuff; repaired code). -/
def LockTargetKnown (s : Store) (b : Block) : Prop :=
  ∀ j, justified s b = some j → j.qcHash = 0 ∨ (s j.qcHash).isSome = true

/-- `safeNode`: safety rule (extends the locked block) or liveness rule (justified by a block
higher than the lock). -/
def ChainedVotes (s : Store) (lock b : Block) : Prop :=
  Extends s b lock ∨ ∃ j, justified s b = some j ∧ j.view > lock.view

/-! ### Fast-HotStuff -/

/-- Two-chain: `bstar` is a direct next-view child of its certified block `b1`, which is a direct
next-view child of its certified block `b0`. -/
structure TwoChain (s : Store) (bstar b1 b0 : Block) : Prop where
  cert1 : justified s bstar = some b1
  cert0 : justified s b1 = some b0
  link1 : DirectNext bstar b1
  link0 : DirectNext b1 b0

def FastCommits (s : Store) (bstar c : Block) : Prop := ∃ b1, TwoChain s bstar b1 c

def fastDecide (s : Store) (bstar : Block) : Option Block :=
  (justified s bstar).bind fun b1 =>
  (justified s b1).bind fun b0 =>
  if DirectNext bstar b1 ∧ DirectNext b1 b0 then some b0 else none

/-- Happy-path vote condition (`cur` = the replica's current view). -/
def FastVotesPlain (cur : Nat) (b : Block) : Prop := b.view = b.qcView + 1 ∧ b.view ≥ cur

/-- Vote condition for a proposal that carries an aggregated QC: the block extends the block of
the high QC (which the base protocol has checked to be the QC in the block). -/
def FastVotesAgg (s : Store) (b : Block) : Prop := ∃ hb, justified s b = some hb ∧ Extends s b hb

/-! ### Simplified HotStuff -/

def SimpleVotes (s : Store) (locked : Block) (cur : Nat) (b : Block) : Prop :=
  b.view ≥ cur ∧ ∃ p, justified s b = some p ∧ p.view ≥ locked.view

/-- parent, grandparent, great-grandparent of `bstar` with consecutive rounds -/
structure SimpleChain (s : Store) (bstar p gp ggp : Block) : Prop where
  certP : justified s bstar = some p
  nextGP : CertNext s p gp
  nextGGP : CertNext s gp ggp

def SimpleCommits (s : Store) (bstar c : Block) : Prop := ∃ p gp, SimpleChain s bstar p gp c

def simpleDecide (s : Store) (bstar : Block) : Option Block :=
  (justified s bstar).bind fun p =>
  (justified s p).bind fun gp =>
  (justified s gp).bind fun ggp =>
  if p.view = gp.view + 1 ∧ gp.view = ggp.view + 1 then some ggp else none

/-- lock the grandparent if it is higher than the current lock -/
def simpleLock (s : Store) (locked bstar : Block) : Block :=
  match (justified s bstar).bind (justified s) with
  | some gp => if gp.view > locked.view then gp else locked
  | none => locked

/-! ### Executable ancestry (for the oracle) -/

/-- names on the branch led by `b`, following present parents for at most `fuel` links -/
def branch (s : Store) : Nat → Block → List Nat
  | 0, b => [b.hash]
  | n + 1, b =>
    match s b.parent with
    | some p => b.hash :: branch s n p
    | none => [b.hash]

/-- blocks on the branch led by `b` (same walk) -/
def branchBlocks (s : Store) : Nat → Block → List Block
  | 0, b => [b]
  | n + 1, b =>
    match s b.parent with
    | some p => b :: branchBlocks s n p
    | none => [b]

/-- decides `Extends` when names are in creation order (`Proofs/Rules.lean: extendsB_iff`) -/
def extendsB (s : Store) (b t : Block) : Bool := (branch s b.parent b).contains t.hash

def chainedVotesB (s : Store) (lock b : Block) : Bool :=
  extendsB s b lock || (match justified s b with | some j => decide (j.view > lock.view) | none => false)

def fastVotesAggB (s : Store) (b : Block) : Bool :=
  match justified s b with
  | some hb => extendsB s b hb
  | none => false

def fastVotesPlainB (cur : Nat) (b : Block) : Bool := decide (b.view = b.qcView + 1) && decide (b.view ≥ cur)

def simpleVotesB (s : Store) (locked : Block) (cur : Nat) (b : Block) : Bool :=
  decide (b.view ≥ cur) && (match justified s b with | some p => decide (p.view ≥ locked.view) | none => false)

/-! ### Commit chains, uniformly -/

/-- `[x₀, x₁, …]`: every block's certificate certifies the next block of the list, which was
proposed in the view right before; with `direct`, it is also the block's parent. -/
def Chain (s : Store) (direct : Bool) : List Block → Prop
  | [] => True
  | [_] => True
  | x :: y :: rest =>
    justified s x = some y ∧ x.view = y.view + 1 ∧ (direct = true → x.parent = y.hash) ∧ Chain s direct (y :: rest)

/-! ### A replica that follows the published rules, presented with blocks in any order -/

structure SState where
  store : Store
  lock : Block

def SState.init : SState := { store := Store.initial, lock := genesis }

/-- the block the rules commit when `b` is handed to them -/
def decideRule : Kind → Store → Block → Option Block
  | .chained => chainedDecide
  | .fast => fastDecide
  | .simple => simpleDecide

/-- the lock after `b` was handed to the commit rule (Fast-HotStuff has no lock) -/
def lockRule : Kind → Store → Block → Block → Block
  | .chained => chainedLock
  | .fast => fun _ lock _ => lock
  | .simple => simpleLock

/-- the published vote condition -/
def Votes : Kind → Store → Block → Nat → Block → Bool → Prop
  | .chained, s, lock, _, b, _ => ChainedVotes s lock b
  | .fast, s, _, cur, b, agg => if agg = true then FastVotesAgg s b else FastVotesPlain cur b
  | .simple, s, lock, cur, b, _ => SimpleVotes s lock cur b

def next (k : Kind) (st : SState) : Op → SState
  | .store b => { st with store := st.store.store b }
  | .vote _ _ _ => st
  | .commit b => { st with lock := lockRule k st.store st.lock b }

/-- executable vote condition (decides `Votes` when names are in creation order) -/
def votesB : Kind → Store → Block → Nat → Block → Bool → Bool
  | .chained, s, lock, _, b, _ => chainedVotesB s lock b
  | .fast, s, _, cur, b, agg => if agg then fastVotesAggB s b else fastVotesPlainB cur b
  | .simple, s, lock, cur, b, _ => simpleVotesB s lock cur b

end HsVerif.Spec.Rules
