import HsVerif.Model.CmdCache
/-!
Independent specification for C15: an ideal batching queue.  It knows nothing of the cache's
`ready` token, of `hasFullBatch` counting stale commands, of the examined-prefix cut: it keeps the
commands it owes in arrival order and the highest sequence number marked per client, and hands
out the `bs` oldest owed commands whenever there are that many.  The oracle family
(`Drv/CmdCache.lean`) runs this specification beside the implementation's answers.
-/
namespace HsVerif.Spec.BatchQueue
open HsVerif.Model.CmdCache (Cmd Op Ret)

structure Ideal where
  queue : List Cmd := []
  top : Nat → Nat := fun _ => 0

def Ideal.isFresh (i : Ideal) (c : Cmd) : Bool := decide (i.top c.client < c.seq)

/-- what is owed to the next `Get`, oldest first -/
def Ideal.owed (i : Ideal) : List Cmd := i.queue.filter i.isFresh

def topAfter (b : List Cmd) (x : Nat) (a : Nat) : Nat :=
  b.foldl (fun acc p => if p.client = x then max acc p.seq else acc) a

def Ideal.mark (i : Ideal) (b : List Cmd) : Ideal := { i with top := fun x => topAfter b x (i.top x) }

/-- a request: a full batch of the oldest owed commands, or nothing -/
def Ideal.take (bs : Nat) (i : Ideal) : Option (List Cmd × Ideal) :=
  if bs ≤ i.owed.length then some (i.owed.take bs, { i with queue := i.owed.drop bs }) else none

def step (bs : Nat) (i : Ideal) : Op → Ideal × Ret
  | .add c => ({ i with queue := i.queue ++ [c] }, .none)
  | .proposed b => (i.mark b, .none)
  | .get => match i.take bs with | some (b, i') => (i', .batch b) | none => (i, .blocked)
  | .getc true => match i.take bs with | some (b, i') => (i', .batch b) | none => (i, .cancelled)
  | .getc false => (i, .cancelled)
  | .body => match i.take bs with | some (b, i') => (i', .batch b) | none => (i, .again)

def runIdeal (bs : Nat) (i : Ideal) : List Op → List Ret
  | [] => []
  | op :: ops => (step bs i op).2 :: runIdeal bs (step bs i op).1 ops

end HsVerif.Spec.BatchQueue
