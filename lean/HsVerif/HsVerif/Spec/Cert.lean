import HsVerif.Model.Cert
/-!
Specification-side predicates for C02, written against the ground truth (who signed what) and
NOT against the verification code path: used by the `cert.oracle` family on the implementation's
verdicts.  `sound*` is what an accepted certificate must satisfy; `honest*` is a certificate
honestly assembled from a quorum of distinct valid signatures (must be accepted, n ≥ 2).
-/
namespace HsVerif.Spec
open HsVerif.Model

def dedupNat : List Nat → List Nat
  | [] => []
  | x :: xs => if xs.contains x then dedupNat xs else x :: dedupNat xs

/-- distinct configured replicas having a genuine signature over `m` inside `s`, attributed to them -/
def signersFor (T : Truth) (c : Cfg) (s : Sig) (m : Msg) : List Nat :=
  match s with
  | .multi _ es => dedupNat (es.filterMap fun e =>
      if c.has e.claimed && T e.bytes == some ⟨e.claimed, m⟩ then some e.claimed else none)
  | .bls atoms _ _ => dedupNat (atoms.filterMap fun a => if c.has a.signer && a.msg == m then some a.signer else none)

def soundQC (E : CertEnv) (qc : QC) : Bool :=
  (qc.hash == genesisHash && qc.view == 0) ||
  match qc.sig, E.get qc.hash with
  | some s, some b => b.view == qc.view && decide (E.cfg.quorum ≤ (signersFor E.T E.cfg s (blkMsg qc.hash)).length)
  | _, _ => false

def soundTC (E : CertEnv) (tc : TC) : Bool :=
  tc.view == 0 ||
  match tc.sig with
  | some s => decide (E.cfg.quorum ≤ (signersFor E.T E.cfg s (viewMsg tc.view)).length)
  | none => false

/-- ids (keys of the QC map) that really signed their own timeout message -/
def aggSigners (E : CertEnv) (a : AggQC) : List Nat :=
  match a.sig with
  | none => []
  | some s => dedupNat (a.qcs.filterMap fun p =>
      if (signersFor E.T E.cfg s (E.tmoMsg p.1 a.view p.2)).contains p.1 then some p.1 else none)

def soundAgg (E : CertEnv) (a : AggQC) (highView : Nat) (highHash : Hash) : Bool :=
  decide (E.cfg.quorum ≤ (aggSigners E a).length) &&
  -- the reported high QC is an attested, sound QC of maximal view among the sound attested ones
  (a.qcs.any fun p => p.2.view == highView && p.2.hash == highHash && soundQC E p.2) &&
  (a.qcs.all fun p => !soundQC E p.2 || decide (p.2.view ≤ highView))

/-- exactly the shape honest assembly produces: every entry genuine for the message, all signers
distinct and configured, nothing else inside -/
def honestSig (T : Truth) (c : Cfg) (s : Sig) (m : Msg) : Bool :=
  match s with
  | .multi k es => k == c.scheme && k != .bls12 && !es.isEmpty &&
      (dedupNat (es.map (·.claimed))).length == es.length &&
      es.all fun e => c.has e.claimed && T e.bytes == some ⟨e.claimed, m⟩
  | .bls atoms junk bits => c.scheme == .bls12 && junk.isEmpty && bits.len == bits.ids.length && bits.len != 0 &&
      bits.ids.all c.has && atoms.isPerm (bits.ids.map fun i => ⟨i, m⟩)

def honestQC (E : CertEnv) (qc : QC) : Bool :=
  (qc.hash == genesisHash && qc.view == 0) ||
  match qc.sig, E.get qc.hash with
  | some s, some b => b.view == qc.view && decide (E.cfg.quorum ≤ s.len) && honestSig E.T E.cfg s (blkMsg qc.hash)
  | _, _ => false

def honestTC (E : CertEnv) (tc : TC) : Bool :=
  tc.view == 0 ||
  match tc.sig with
  | some s => decide (E.cfg.quorum ≤ s.len) && honestSig E.T E.cfg s (viewMsg tc.view)
  | none => false

end HsVerif.Spec
