import HsVerif.Proofs.StoreWalk
/-!
The replica-level lock invariant (C01 layer B): what a vote obliges the lock to cover, and where the
lock comes from.

* pure facts about `RChain.get` / `extends` (lookups are stable, what a `none` answer means);
* `commitRule_post`: what `commitRule c b` does to the lock, read off the store it leaves behind;
* `voteRule_walk`: a positive vote-rule answer means both certificate links from the block are stored
  (or the QC block was neither stored nor fetchable — excluded afterwards by `verifyAnyM`);
* frames `_le` (the lock is left exactly alone; GENERATED from the `_lk` frames of ReplicaLock.lean by
  substitution) and `_ab` (a hash that is neither stored nor fetchable stays so);
* the invariant `LInv` and its preservation by every handler (`_li`), with the temporary exceptions
  around `voteFor` / `tryCommit` (`LInvBut`, `LPend`), as `Cur` / `StoredBut` in ReplicaCur.lean.
-/
open Std.Do
set_option mvcgen.warning false
set_option linter.unusedSimpArgs false
set_option linter.unusedVariables false
namespace HsVerif.Model
open HsVerif.Proofs

/-! pure facts about `RChain.get` -/
theorem get_snd_some (c : RChain) (h : Hash) (b : Block) (hr : (c.get h).2 = some b) :
    (c.get h).1.blocks.lookup h = some b := by
  unfold RChain.get at *
  split at hr
  · rename_i b' hb; simp only at hr ⊢; rw [hb, ← hr]
  · split at hr
    · simp only at hr ⊢; simp [hr]
    · cases hr

/-- `h` is neither stored nor fetchable: `Get h` answers `none`, now and for the rest of the handler -/
def ChainAbsent (h : Hash) (c : RChain) : Prop := c.blocks.lookup h = none ∧ c.fetchable.lookup h = none

theorem get_snd_none (c : RChain) (h : Hash) (hr : (c.get h).2 = none) : ChainAbsent h (c.get h).1 := by
  unfold RChain.get at *
  split at hr
  · cases hr
  · split at hr
    · cases hr
    · exact ⟨by assumption, by assumption⟩

theorem lk_get (c : RChain) (h k : Hash) (b : Block) (hl : c.blocks.lookup k = some b) :
    (c.get h).1.blocks.lookup k = some b :=
  chainGrows_get c.blocks c h (ChainGrows.refl c) k b hl

theorem lk_extends (c : RChain) (x t : Block) (k : Hash) (b : Block) (hl : c.blocks.lookup k = some b) :
    (c.extends x t).1.blocks.lookup k = some b :=
  chainGrows_extends c.blocks c x t (ChainGrows.refl c) k b hl

theorem lk_store (c : RChain) (x : Block) (k : Hash) (b : Block) (hl : c.blocks.lookup k = some b) :
    (c.store x).blocks.lookup k = some b :=
  chainGrows_store c.blocks c x (ChainGrows.refl c) k b hl

theorem chainAbsent_get (h h' : Hash) (c : RChain) (ha : ChainAbsent h c) : ChainAbsent h (c.get h').1 := by
  unfold RChain.get
  split
  · exact ha
  · split
    · rename_i b hf
      refine ⟨?_, ha.2⟩
      simp only [List.lookup_cons]
      split
      · rename_i heq
        have : h = h' := by simpa using heq
        subst this; rw [ha.2] at hf; cases hf
      · exact ha.1
    · exact ha

theorem chainAbsent_extendsAux (h : Hash) : ∀ (fuel : Nat) (c : RChain) (b t : Block), ChainAbsent h c →
    ChainAbsent h (RChain.extendsAux fuel c b t).1 := by
  intro fuel
  induction fuel with
  | zero => intro c b t hg; exact hg
  | succ n ih =>
    intro c b t hg
    unfold RChain.extendsAux
    split
    · have hget := chainAbsent_get h b.parent c hg
      split
      · rename_i c' p heq
        have : c' = (c.get b.parent).1 := by rw [heq]
        exact ih c' p t (this ▸ hget)
      · rename_i c' heq
        have : c' = (c.get b.parent).1 := by rw [heq]
        exact this ▸ hget
    · exact hg

theorem chainAbsent_extends (h : Hash) (c : RChain) (b t : Block) (hg : ChainAbsent h c) :
    ChainAbsent h (c.extends b t).1 := chainAbsent_extendsAux h _ c b t hg

macro "lk_tac" : tactic => `(tactic| (repeat (first
  | assumption
  | (apply get_snd_some; assumption)
  | (exact (get_snd_none _ _ (by assumption)).1)
  | apply lk_get
  | apply lk_extends
  | apply lk_store)))

/-- `lk` is the certificate-grandparent of `b` in the block map `st`, over links `commitRule` follows -/
def GPst (c : RCfg) (st : List (Hash × Block)) (lk b : Block) : Prop :=
  ∃ p, st.lookup b.qc.hash = some p ∧ (c.rules = .chained → b.qc.hash ≠ "" ∧ p.qc.hash ≠ "") ∧ st.lookup p.qc.hash = some lk

/-- what `commitRule c b` leaves behind, started with lock `L`: the lock is `L` or the (higher)
certificate-grandparent of `b`; it did not go down; and whatever the store now shows as `b`'s
certificate-grandparent (over links `commitRule` follows) is not above it -/
def CPost (c : RCfg) (b L : Block) (st : List (Hash × Block)) (lk : Block) : Prop :=
  (lk = L ∨ (GPst c st lk b ∧ L.view < lk.view)) ∧ L.view ≤ lk.view ∧
  (∀ p g, st.lookup b.qc.hash = some p → st.lookup p.qc.hash = some g →
     (c.rules = .chained → b.qc.hash ≠ "" ∧ p.qc.hash ≠ "") → g.view ≤ lk.view)

theorem cpost_vac1 (c : RCfg) (b L : Block) (st) (h : c.rules = .chained ∧ b.qc.hash = "") : CPost c b L st L :=
  ⟨Or.inl rfl, Nat.le_refl _, fun _ _ _ _ hh => absurd h.2 (hh h.1).1⟩

theorem cpost_vac2 (c : RCfg) (b L : Block) (st : List (Hash × Block)) (h : st.lookup b.qc.hash = none) : CPost c b L st L :=
  ⟨Or.inl rfl, Nat.le_refl _, fun p _ hp _ _ => by rw [h] at hp; cases hp⟩

theorem cpost_vac3 (c : RCfg) (b L p0 : Block) (st : List (Hash × Block)) (h : st.lookup b.qc.hash = some p0)
    (h2 : (c.rules = .chained ∧ p0.qc.hash = "") ∨ st.lookup p0.qc.hash = none) : CPost c b L st L := by
  refine ⟨Or.inl rfl, Nat.le_refl _, fun p g hp hg hh => ?_⟩
  rw [h] at hp; cases hp
  rcases h2 with h2 | h2
  · exact absurd h2.2 (hh h2.1).2
  · rw [h2] at hg; cases hg

theorem cpost_upd (c : RCfg) (b L p0 g0 : Block) (st : List (Hash × Block)) (h : st.lookup b.qc.hash = some p0)
    (h2 : st.lookup p0.qc.hash = some g0) (hh : c.rules = .chained → b.qc.hash ≠ "" ∧ p0.qc.hash ≠ "") :
    CPost c b L st (if g0.view > L.view then g0 else L) := by
  refine ⟨?_, ?_, fun p g hp hg _ => ?_⟩
  · split
    · exact Or.inr ⟨⟨p0, h, hh, h2⟩, by assumption⟩
    · exact Or.inl rfl
  · split <;> omega
  · rw [h] at hp; cases hp
    rw [h2] at hg; cases hg
    split <;> omega

def CRPost (c : RCfg) (b L : Block) (s : RState) : Prop := CPost c b L s.chain.blocks s.lock

theorem commitRule_post (c : RCfg) (b L : Block) (hc : c.rules ≠ .fast) :
    ⦃fun s => ⌜s.lock = L⌝⦄ commitRule c b ⦃⇓ _ s => ⌜CRPost c b L s⌝⦄ := by
  mvcgen [commitRule, qcRef, getBlock]
  all_goals (try intros)
  all_goals (try simp +zetaDelta only [CRPost] at *)
  all_goals (try subst L)
  all_goals (first
    | exact absurd (by assumption) hc
    | (apply cpost_vac1; simp_all; done)
    | (apply cpost_vac2; lk_tac; done)
    | (apply cpost_vac3 _ _ _ _ _ (by lk_tac); simp_all; done)
    | (apply cpost_vac3 _ _ _ _ _ (by lk_tac) (Or.inr (by lk_tac)); done)
    | (apply cpost_upd _ _ _ _ _ _ (by lk_tac) (by lk_tac) (by simp_all); done)
    | skip)

/-- both certificate links from `b` are in the block map `st` (or the second one is the empty hash) -/
def Walk2st (st : List (Hash × Block)) (b : Block) : Prop :=
  ∃ p, st.lookup b.qc.hash = some p ∧ (p.qc.hash = "" ∨ ∃ g, st.lookup p.qc.hash = some g)

/-- both certificate links from `b` are stored (or the second one is the empty hash) -/
def Walk2 (s : RState) (b : Block) : Prop := Walk2st s.chain.blocks b
/-- `h` is neither stored nor fetchable in state `s` -/
def Absent (h : Hash) (s : RState) : Prop := ChainAbsent h s.chain


theorem walk2st_mono (st st' : List (Hash × Block)) (b : Block)
    (hm : ∀ k x, st.lookup k = some x → st'.lookup k = some x) (h : Walk2st st b) : Walk2st st' b := by
  obtain ⟨p, hp, h2⟩ := h
  refine ⟨p, hm _ _ hp, ?_⟩
  rcases h2 with h2 | ⟨g, hg⟩
  · exact Or.inl h2
  · exact Or.inr ⟨g, hm _ _ hg⟩

theorem walk2st_of_get (c0 : RChain) (b p : Block) (h1 : (c0.get b.qc.hash).2 = some p)
    (h2 : ¬ ((c0.get b.qc.hash).1.get p.qc.hash).2 = none) :
    Walk2st ((c0.get b.qc.hash).1.get p.qc.hash).1.blocks b := by
  cases hg : ((c0.get b.qc.hash).1.get p.qc.hash).2 with
  | none => exact absurd hg h2
  | some g => exact ⟨p, by lk_tac, Or.inr ⟨g, by lk_tac⟩⟩


theorem walk2st_leaf (st : List (Hash × Block)) (b p : Block) (h1 : st.lookup b.qc.hash = some p)
    (h2 : p.qc.hash = "") : Walk2st st b := ⟨p, h1, Or.inl h2⟩

theorem voteRule_walk (c : RCfg) (v : Nat) (b : Block) (agg) (hc : c.rules ≠ .fast) :
    ⦃fun _ => ⌜True⌝⦄ voteRule c v b agg ⦃⇓ r s => ⌜r = true → Walk2 s b ∨ Absent b.qc.hash s⌝⦄ := by
  mvcgen [voteRule, getBlock, extendsM]
  all_goals (try intros)
  all_goals (try simp +zetaDelta only [Walk2, Absent] at *)
  all_goals (first
    | exact absurd (by assumption) hc
    | (exfalso; simp_all; done)
    | (right; apply chainAbsent_extends; apply get_snd_none; assumption)
    | (left; apply walk2st_leaf <;> first | (lk_tac; done) | (simp_all; done))
    | (left; apply walk2st_of_get <;> first | assumption | (simp_all; done))
    | (left; refine walk2st_mono _ _ _ (fun k x hx => lk_extends _ _ _ k x hx) ?_;
       apply walk2st_of_get <;> first | assumption | (simp_all; done))
    | skip)

/-- closes the verification conditions of a "the lock is exactly x" frame -/
macro "le_finish" : tactic => `(tactic| (
  (try intros)
  (try simp +zetaDelta at *)
  (first
    | done
    | assumption
    | (simp_all; done)
    | skip)))

section LockEqFrames
theorem emit_le (o : Out) (x : Block) :
    ⦃fun s => ⌜s.lock = x⌝⦄ emit o ⦃⇓ _ s => ⌜s.lock = x⌝⦄ := by
  mvcgen [emit]  <;> le_finish
attribute [local spec] emit_le

theorem addEvent_le (e : Ev) (x : Block) :
    ⦃fun s => ⌜s.lock = x⌝⦄ addEvent e ⦃⇓ _ s => ⌜s.lock = x⌝⦄ := by
  mvcgen [addEvent]  <;> le_finish
attribute [local spec] addEvent_le

theorem getBlock_le (h : Hash) (x : Block) :
    ⦃fun s => ⌜s.lock = x⌝⦄ getBlock h ⦃⇓ _ s => ⌜s.lock = x⌝⦄ := by
  mvcgen [getBlock]  <;> le_finish
attribute [local spec] getBlock_le

theorem fetchFor_le (h : Hash) (x : Block) :
    ⦃fun s => ⌜s.lock = x⌝⦄ fetchFor h ⦃⇓ _ s => ⌜s.lock = x⌝⦄ := by
  mvcgen [fetchFor]  <;> le_finish
attribute [local spec] fetchFor_le

theorem signMsg_le (c : RCfg) (m : Msg) (x : Block) :
    ⦃fun s => ⌜s.lock = x⌝⦄ signMsg c m ⦃⇓ _ s => ⌜s.lock = x⌝⦄ := by
  mvcgen [signMsg]  <;> le_finish
attribute [local spec] signMsg_le

theorem verifyQCM_le (k : Keys) (c : RCfg) (q : QC) (x : Block) :
    ⦃fun s => ⌜s.lock = x⌝⦄ verifyQCM k c q ⦃⇓ _ s => ⌜s.lock = x⌝⦄ := by
  mvcgen [verifyQCM]  <;> le_finish
attribute [local spec] verifyQCM_le

theorem verifyTCM_le (k : Keys) (c : RCfg) (t : TC) (x : Block) :
    ⦃fun s => ⌜s.lock = x⌝⦄ verifyTCM k c t ⦃⇓ _ s => ⌜s.lock = x⌝⦄ := by
  mvcgen [verifyTCM]  <;> le_finish
attribute [local spec] verifyTCM_le

theorem qcRef_le (q : QC) (x : Block) :
    ⦃fun s => ⌜s.lock = x⌝⦄ qcRef q ⦃⇓ _ s => ⌜s.lock = x⌝⦄ := by
  mvcgen [qcRef]  <;> le_finish
attribute [local spec] qcRef_le

theorem extendsM_le (b t : Block) (x : Block) :
    ⦃fun s => ⌜s.lock = x⌝⦄ extendsM b t ⦃⇓ _ s => ⌜s.lock = x⌝⦄ := by
  mvcgen [extendsM]  <;> le_finish
attribute [local spec] extendsM_le

theorem voteRule_le (c : RCfg) (v : Nat) (b : Block) (agg : Option AggQC) (x : Block) :
    ⦃fun s => ⌜s.lock = x⌝⦄ voteRule c v b agg ⦃⇓ _ s => ⌜s.lock = x⌝⦄ := by
  mvcgen [voteRule]  <;> le_finish
attribute [local spec] voteRule_le

theorem commitInner_le (fuel : Nat) (b : Block) (x : Block) :
    ⦃fun s => ⌜s.lock = x⌝⦄ commitInner fuel b ⦃⇓ _ s => ⌜s.lock = x⌝⦄ := by
  induction fuel generalizing b with
  | zero => mvcgen [commitInner]  <;> le_finish
  | succ n ih => mvcgen [commitInner, ih]  <;> le_finish
attribute [local spec] commitInner_le

theorem votesCleanup_le  (x : Block) :
    ⦃fun s => ⌜s.lock = x⌝⦄ votesCleanup ⦃⇓ _ s => ⌜s.lock = x⌝⦄ := by
  mvcgen [votesCleanup]  <;> le_finish
attribute [local spec] votesCleanup_le

theorem collectVote_le (k : Keys) (c : RCfg) (id : Nat) (sig : Option Sig) (h : Hash) (d : Bool) (x : Block) :
    ⦃fun s => ⌜s.lock = x⌝⦄ collectVote k c id sig h d ⦃⇓ _ s => ⌜s.lock = x⌝⦄ := by
  mvcgen [collectVote]  <;> le_finish
attribute [local spec] collectVote_le

theorem aggregateVote_le (k : Keys) (c : RCfg) (b : Block) (sg : Sig) (x : Block) :
    ⦃fun s => ⌜s.lock = x⌝⦄ aggregateVote k c b sg ⦃⇓ _ s => ⌜s.lock = x⌝⦄ := by
  mvcgen [aggregateVote]  <;> le_finish
attribute [local spec] aggregateVote_le

theorem markProposed_le (fuel : Nat) (b : Block) (x : Block) :
    ⦃fun s => ⌜s.lock = x⌝⦄ markProposed fuel b ⦃⇓ _ s => ⌜s.lock = x⌝⦄ := by
  induction fuel generalizing b with
  | zero => mvcgen [markProposed]  <;> le_finish
  | succ n ih => mvcgen [markProposed, ih]  <;> le_finish
attribute [local spec] markProposed_le

theorem verifyAggM_go_le (k : Keys) (c : RCfg) (l : List QC) (x : Block) :
    ⦃fun s => ⌜s.lock = x⌝⦄ verifyAggM.go k c l ⦃⇓ _ s => ⌜s.lock = x⌝⦄ := by
  induction l with
  | nil => mvcgen [verifyAggM.go]  <;> le_finish
  | cons q rest ih => mvcgen [verifyAggM.go, ih]  <;> le_finish
attribute [local spec] verifyAggM_go_le

theorem verifyAggM_le (k : Keys) (c : RCfg) (a : AggQC) (x : Block) :
    ⦃fun s => ⌜s.lock = x⌝⦄ verifyAggM k c a ⦃⇓ _ s => ⌜s.lock = x⌝⦄ := by
  mvcgen [verifyAggM]  <;> le_finish
attribute [local spec] verifyAggM_le

theorem verifyAnyM_le (k : Keys) (c : RCfg) (q : QC) (agg : Option AggQC) (x : Block) :
    ⦃fun s => ⌜s.lock = x⌝⦄ verifyAnyM k c q agg ⦃⇓ _ s => ⌜s.lock = x⌝⦄ := by
  mvcgen [verifyAnyM]  <;> le_finish
attribute [local spec] verifyAnyM_le

theorem voterVerify_le (k : Keys) (c : RCfg) (id : Nat) (b : Block) (agg : Option AggQC) (x : Block) :
    ⦃fun s => ⌜s.lock = x⌝⦄ voterVerify k c id b agg ⦃⇓ _ s => ⌜s.lock = x⌝⦄ := by
  mvcgen [voterVerify]  <;> le_finish
attribute [local spec] voterVerify_le

theorem voteFor_le (c : RCfg) (b : Block) (id : Nat) (x : Block) :
    ⦃fun s => ⌜s.lock = x⌝⦄ voteFor c b id ⦃⇓ _ s => ⌜s.lock = x⌝⦄ := by
  mvcgen [voteFor] <;> le_finish
attribute [local spec] voteFor_le

theorem verifySyncInfo_le (k : Keys) (c : RCfg) (si : SyncInfo) (x : Block) :
    ⦃fun s => ⌜s.lock = x⌝⦄ verifySyncInfo k c si ⦃⇓ _ s => ⌜s.lock = x⌝⦄ := by
  mvcgen [verifySyncInfo]  <;> le_finish
attribute [local spec] verifySyncInfo_le

end LockEqFrames

/-- closes the verification conditions of an "h is neither stored nor fetchable" frame -/
macro "ab_finish" : tactic => `(tactic| (
  (try intros)
  (try simp +zetaDelta [Absent] at *)
  (first
    | done
    | assumption
    | (exact chainAbsent_get _ _ _ (by assumption))
    | (simp_all; done)
    | skip)))

section AbsentFrames
theorem getBlock_ab (h : Hash) (x : Hash) :
    ⦃fun s => ⌜Absent x s⌝⦄ getBlock h ⦃⇓ _ s => ⌜Absent x s⌝⦄ := by
  mvcgen [getBlock]  <;> ab_finish
attribute [local spec] getBlock_ab

theorem fetchFor_ab (h : Hash) (x : Hash) :
    ⦃fun s => ⌜Absent x s⌝⦄ fetchFor h ⦃⇓ _ s => ⌜Absent x s⌝⦄ := by
  mvcgen [fetchFor]  <;> ab_finish
attribute [local spec] fetchFor_ab

theorem verifyQCM_ab (k : Keys) (c : RCfg) (q : QC) (x : Hash) :
    ⦃fun s => ⌜Absent x s⌝⦄ verifyQCM k c q ⦃⇓ _ s => ⌜Absent x s⌝⦄ := by
  mvcgen [verifyQCM]  <;> ab_finish
attribute [local spec] verifyQCM_ab

theorem verifyAggM_go_ab (k : Keys) (c : RCfg) (l : List QC) (x : Hash) :
    ⦃fun s => ⌜Absent x s⌝⦄ verifyAggM.go k c l ⦃⇓ _ s => ⌜Absent x s⌝⦄ := by
  induction l with
  | nil => mvcgen [verifyAggM.go]  <;> ab_finish
  | cons q rest ih => mvcgen [verifyAggM.go, ih]  <;> ab_finish
attribute [local spec] verifyAggM_go_ab

theorem verifyAggM_ab (k : Keys) (c : RCfg) (a : AggQC) (x : Hash) :
    ⦃fun s => ⌜Absent x s⌝⦄ verifyAggM k c a ⦃⇓ _ s => ⌜Absent x s⌝⦄ := by
  mvcgen [verifyAggM]  <;> ab_finish
attribute [local spec] verifyAggM_ab

theorem verifyAnyM_ab (k : Keys) (c : RCfg) (q : QC) (agg : Option AggQC) (x : Hash) :
    ⦃fun s => ⌜Absent x s⌝⦄ verifyAnyM k c q agg ⦃⇓ _ s => ⌜Absent x s⌝⦄ := by
  mvcgen [verifyAnyM]  <;> ab_finish
attribute [local spec] verifyAnyM_ab
end AbsentFrames

/-! ### the invariant -/

/-- both certificate links from `x` are stored, and `LockCovers` — except that chained HotStuff's
commit rule follows no certificate with the empty hash (`qcRef`): a vote for such a block obliges
nothing -/
def LockCoversW (c : RCfg) (s : RState) (x : Block) : Prop :=
  Walk2 s x ∧ ((c.rules = .chained ∧ x.qc.hash = "") ∨ LockCovers s x)

/-- the lock is the stored certificate-grandparent of `b`, reached the way `commitRule` walks -/
def GP (c : RCfg) (s : RState) (b : Block) : Prop := GPst c s.chain.blocks s.lock b

def VotesCovered (c : RCfg) (s : RState) : Prop := ∀ x id, GRec.vote x id ∈ s.ghost → LockCoversW c s x

/-- `LockFrom`, with the empty-hash side conditions exactly where `commitRule` has them -/
def LockFromW (c : RCfg) (s : RState) : Prop :=
  s.lock = genesisBlock ∨ ∃ x id, GRec.vote x id ∈ s.ghost ∧ GP c s x

/-- the lock invariant: genesis is stored, every vote is covered by the lock, the lock comes from a vote -/
def LInv (c : RCfg) (s : RState) : Prop := Grows G0 s ∧ VotesCovered c s ∧ LockFromW c s

/-- `s'` differs from `s` by a grown store only, as far as the lock invariant can see -/
structure Same (s s' : RState) : Prop where
  store : Grows s.chain.blocks s'
  lock : s'.lock = s.lock
  ghost : s'.ghost = s.ghost

theorem sget_grows {s s' : RState} (hg : Grows s.chain.blocks s') {h : Hash} {b : Block}
    (hs : sget s h = some b) : sget s' h = some b := hg h b hs

theorem grows_trans {x : List (Hash × Block)} {s s' : RState} (h1 : Grows x s) (h2 : Grows s.chain.blocks s') :
    Grows x s' := fun k b hx => h2 k b (h1 k b hx)

theorem lockCovers_step {s s' : RState} (hg : Grows s.chain.blocks s') (hl : s.lock.view ≤ s'.lock.view)
    (x : Block) (h : LockCovers s x) : LockCovers s' x := by
  obtain ⟨p, hp, h2⟩ := h
  refine ⟨p, sget_grows hg hp, ?_⟩
  rcases h2 with h2 | ⟨g, hg', hv⟩
  · exact Or.inl h2
  · exact Or.inr ⟨g, sget_grows hg hg', Nat.le_trans hv hl⟩

theorem walk2_grows {s s' : RState} (hg : Grows s.chain.blocks s') (b : Block) (h : Walk2 s b) : Walk2 s' b :=
  walk2st_mono _ _ b hg h

theorem lockCoversW_step {s s' : RState} (hg : Grows s.chain.blocks s') (hl : s.lock.view ≤ s'.lock.view)
    (c : RCfg) (x : Block) (h : LockCoversW c s x) : LockCoversW c s' x :=
  ⟨walk2_grows hg x h.1, h.2.imp id (lockCovers_step hg hl x)⟩

theorem gp_same {s s' : RState} (hg : Grows s.chain.blocks s') (hl : s'.lock = s.lock)
    (c : RCfg) (x : Block) (h : GP c s x) : GP c s' x := by
  obtain ⟨p, hp, hh, h2⟩ := h
  exact ⟨p, hg _ _ hp, hh, by rw [hl]; exact hg _ _ h2⟩

theorem votesCovered_step {s s' : RState} (hg : Grows s.chain.blocks s') (hl : s.lock.view ≤ s'.lock.view)
    (hgh : s'.ghost = s.ghost) (c : RCfg) (h : VotesCovered c s) : VotesCovered c s' :=
  fun x id hm => lockCoversW_step hg hl c x (h x id (hgh ▸ hm))

theorem lockFromW_same {s s' : RState} (h : Same s s') (c : RCfg) (hf : LockFromW c s) : LockFromW c s' := by
  rcases hf with hf | ⟨x, id, hm, hgp⟩
  · exact Or.inl (by rw [h.lock]; exact hf)
  · exact Or.inr ⟨x, id, h.ghost ▸ hm, gp_same h.store h.lock c x hgp⟩

theorem linv_same {s s' : RState} (h : Same s s') (c : RCfg) (hi : LInv c s) : LInv c s' :=
  ⟨grows_trans hi.1 h.store, votesCovered_step h.store (by rw [h.lock]; exact Nat.le_refl _) h.ghost c hi.2.1,
    lockFromW_same h c hi.2.2⟩

/-- run form of the three frames: ghost history, store growth, lock equality -/
theorem same_run {α} (f : M α)
    (hvs : ∀ x, ⦃fun s => ⌜VS s = x⌝⦄ f ⦃⇓ _ s => ⌜VS s = x⌝⦄)
    (hgr : ∀ x, ⦃fun s => ⌜Grows x s⌝⦄ f ⦃⇓ _ s => ⌜Grows x s⌝⦄)
    (hle : ∀ x, ⦃fun s => ⌜s.lock = x⌝⦄ f ⦃⇓ _ s => ⌜s.lock = x⌝⦄) (s : RState) : Same s (f.run s).2 :=
  ⟨grows_run f hgr s, run_res_of_triple f (fun s' => s'.lock = s.lock) (fun _ s' => s'.lock = s.lock) (hle s.lock) s rfl,
    ghost_of_vs f hvs s⟩

/-- anything that leaves ghost history and lock alone and lets the store grow preserves every
predicate that is stable under such changes -/
theorem same_frame {α} (P : RState → Prop) (hP : ∀ s s', Same s s' → P s → P s') (f : M α)
    (hvs : ∀ x, ⦃fun s => ⌜VS s = x⌝⦄ f ⦃⇓ _ s => ⌜VS s = x⌝⦄)
    (hgr : ∀ x, ⦃fun s => ⌜Grows x s⌝⦄ f ⦃⇓ _ s => ⌜Grows x s⌝⦄)
    (hle : ∀ x, ⦃fun s => ⌜s.lock = x⌝⦄ f ⦃⇓ _ s => ⌜s.lock = x⌝⦄) :
    ⦃fun s => ⌜P s⌝⦄ f ⦃⇓ _ s => ⌜P s⌝⦄ := by
  apply triple_of_run
  intro s hs
  exact hP s _ (same_run f hvs hgr hle s) hs

/-! ### what `voterVerify` guarantees -/

theorem verifyAnyM_bv (k : Keys) (c : RCfg) (q : QC) (agg : Option AggQC) (x) :
    ⦃fun s => ⌜AP s = x⌝⦄ verifyAnyM k c q agg ⦃⇓ r s => ⌜AP s = x ∧ (r = .ok () → QCBlockView q s)⌝⦄ := by
  mvcgen [verifyAnyM, verifyAggM_ap, verifyQCM_bv] <;> simp_all +zetaDelta

theorem voteRule_wg (c : RCfg) (v : Nat) (b : Block) (agg : Option AggQC) (hc : c.rules ≠ .fast) :
    ⦃fun s => ⌜Grows G0 s⌝⦄ voteRule c v b agg
    ⦃⇓ r s => ⌜Grows G0 s ∧ (r = true → Walk2 s b ∨ Absent b.qc.hash s)⌝⦄ := by
  apply triple_of_run
  intro s hs
  exact ⟨run_res_of_triple _ _ _ (voteRule_gr c v b agg G0) s hs,
    run_res_of_triple _ (fun _ => True) _ (voteRule_walk c v b agg hc) s trivial⟩

theorem verifyAnyM_wg (k : Keys) (c : RCfg) (b : Block) (agg : Option AggQC) :
    ⦃fun s => ⌜Grows G0 s ∧ (Walk2 s b ∨ Absent b.qc.hash s)⌝⦄ verifyAnyM k c b.qc agg
    ⦃⇓ r s => ⌜r = .ok () → Walk2 s b⌝⦄ := by
  apply triple_of_run
  intro s ⟨hg0, hw⟩ hr
  have hgr := grows_run _ (verifyAnyM_gr k c b.qc agg) s
  rcases hw with hw | ha
  · exact walk2_grows hgr b hw
  · exfalso
    have ha' := run_res_of_triple _ _ _ (verifyAnyM_ab k c b.qc agg b.qc.hash) s ha
    have hbv := (run_res_of_triple _ (fun s' => AP s' = AP s) _ (verifyAnyM_bv k c b.qc agg (AP s)) s rfl).2 hr
    have hg0' : Grows G0 ((verifyAnyM k c b.qc agg).run s).2 := grows_trans hg0 hgr
    rcases hbv with ⟨hh, _⟩ | ⟨blk, hblk, _⟩
    · have := hg0' genesisHash genesisBlock (by simp [G0])
      rw [hh] at ha'
      rw [ha'.1] at this; cases this
    · rw [ha'.1] at hblk; cases hblk

theorem voterVerify_walk (k : Keys) (c : RCfg) (id : Nat) (b : Block) (agg : Option AggQC) (hc : c.rules ≠ .fast) :
    ⦃fun s => ⌜Grows G0 s⌝⦄ voterVerify k c id b agg ⦃⇓ r s => ⌜r = .ok () → Walk2 s b⌝⦄ := by
  mvcgen [voterVerify, voteRule_wg, verifyAnyM_wg]
  all_goals simp_all

/-! ### what `tryCommit` does to the lock -/

theorem commitRule_cov (c : RCfg) (b : Block) (hc : c.rules ≠ .fast) :
    ⦃fun s => ⌜Walk2 s b⌝⦄ commitRule c b ⦃⇓ _ s => ⌜LockCoversW c s b⌝⦄ := by
  apply triple_of_run
  intro s hw
  have hp := run_res_of_triple _ _ _ (commitRule_post c b s.lock hc) s rfl
  have hgr := grows_run _ (commitRule_gr c b) s
  refine ⟨walk2_grows hgr b hw, ?_⟩
  obtain ⟨p, hp1, hp2⟩ := walk2_grows hgr b hw
  by_cases hb : c.rules = .chained ∧ b.qc.hash = ""
  · exact Or.inl hb
  · right
    refine ⟨p, hp1, ?_⟩
    rcases hp2 with hp2 | ⟨g, hg⟩
    · exact Or.inl hp2
    · by_cases hpe : p.qc.hash = ""
      · exact Or.inl hpe
      · exact Or.inr ⟨g, hg, hp.2.2 p g hp1 hg (fun hch => ⟨fun h => hb ⟨hch, h⟩, hpe⟩)⟩

theorem commitRule_gpl (c : RCfg) (b L : Block) (hc : c.rules ≠ .fast) :
    ⦃fun s => ⌜s.lock = L⌝⦄ commitRule c b ⦃⇓ _ s => ⌜s.lock = L ∨ GP c s b⌝⦄ := by
  apply triple_of_run
  intro s hw
  have hp := run_res_of_triple _ _ _ (commitRule_post c b L hc) s hw
  exact hp.1.imp id (fun h => h.1)

/-- stability of the two facts `tryCommit` establishes -/
theorem lockCoversW_same (c : RCfg) (b : Block) (s s' : RState) (h : Same s s') (hl : LockCoversW c s b) :
    LockCoversW c s' b := lockCoversW_step h.store (by rw [h.lock]; exact Nat.le_refl _) c b hl

theorem gpl_same (c : RCfg) (b L : Block) (s s' : RState) (h : Same s s') (hl : s.lock = L ∨ GP c s b) :
    s'.lock = L ∨ GP c s' b :=
  hl.imp (fun e => by rw [h.lock]; exact e) (gp_same h.store h.lock c b)

theorem same_of_eq (s s' : RState) (hb : s'.chain.blocks = s.chain.blocks) (hl : s'.lock = s.lock)
    (hg : s'.ghost = s.ghost) : Same s s' :=
  ⟨fun k b h => by show s'.chain.blocks.lookup k = some b; rw [hb]; exact h, hl, hg⟩

theorem same_store (s : RState) (b : Block) : Same s { s with chain := s.chain.store b } :=
  ⟨fun k x hx => lk_store _ _ k x hx, rfl, rfl⟩

theorem same_prune (s : RState) (cm : Block) (h : Nat) : Same s { s with chain := (s.chain.pruneToHeight cm h).1 } :=
  same_of_eq _ _ (pruneToHeight_blocks _ _ _) rfl rfl

theorem tryCommit_cov (c : RCfg) (b : Block) (hc : c.rules ≠ .fast) :
    ⦃fun s => ⌜Walk2 s b⌝⦄ tryCommit c b ⦃⇓ _ s => ⌜LockCoversW c s b⌝⦄ := by
  have h1 := commitRule_cov c b hc
  have h2 : ∀ n b', ⦃fun s => ⌜LockCoversW c s b⌝⦄ commitInner n b' ⦃⇓ _ s => ⌜LockCoversW c s b⌝⦄ :=
    fun n b' => same_frame _ (lockCoversW_same c b) _ (commitInner_frame n b') (commitInner_gr n b') (commitInner_le n b')
  have h3 : ∀ e, ⦃fun s => ⌜LockCoversW c s b⌝⦄ addEvent e ⦃⇓ _ s => ⌜LockCoversW c s b⌝⦄ :=
    fun e => same_frame _ (lockCoversW_same c b) _ (addEvent_frame e) (addEvent_gr e) (addEvent_le e)
  mvcgen [tryCommit, h1, h2, h3]
  case inv1 => exact ⇓ _ s => ⌜LockCoversW c s b⌝
  all_goals (try intros)
  all_goals (try simp +zetaDelta only [] at *)
  all_goals (first
    | assumption
    | exact walk2_grows (same_store _ _).store b (by assumption)
    | exact lockCoversW_same c b _ _ (same_prune _ _ _) (by assumption)
    | skip)

theorem tryCommit_gpl (c : RCfg) (b L : Block) (hc : c.rules ≠ .fast) :
    ⦃fun s => ⌜s.lock = L⌝⦄ tryCommit c b ⦃⇓ _ s => ⌜s.lock = L ∨ GP c s b⌝⦄ := by
  have h1 := commitRule_gpl c b L hc
  have h2 : ∀ n b', ⦃fun s => ⌜s.lock = L ∨ GP c s b⌝⦄ commitInner n b' ⦃⇓ _ s => ⌜s.lock = L ∨ GP c s b⌝⦄ :=
    fun n b' => same_frame _ (gpl_same c b L) _ (commitInner_frame n b') (commitInner_gr n b') (commitInner_le n b')
  have h3 : ∀ e, ⦃fun s => ⌜s.lock = L ∨ GP c s b⌝⦄ addEvent e ⦃⇓ _ s => ⌜s.lock = L ∨ GP c s b⌝⦄ :=
    fun e => same_frame _ (gpl_same c b L) _ (addEvent_frame e) (addEvent_gr e) (addEvent_le e)
  mvcgen [tryCommit, h1, h2, h3]
  case inv1 => exact ⇓ _ s => ⌜s.lock = L ∨ GP c s b⌝
  all_goals (try intros)
  all_goals (try simp +zetaDelta only [] at *)
  all_goals (first
    | assumption
    | exact gpl_same c b L _ _ (same_prune _ _ _) (by assumption)
    | skip)

/-- everything the lock invariant needs to know about one run of `tryCommit c b` -/
theorem tryCommit_run (c : RCfg) (b : Block) (hc : c.rules ≠ .fast) (s : RState) :
    ((tryCommit c b).run s).2.ghost = s.ghost ∧ Grows s.chain.blocks ((tryCommit c b).run s).2 ∧
    s.lock.view ≤ ((tryCommit c b).run s).2.lock.view ∧
    (Walk2 s b → LockCoversW c ((tryCommit c b).run s).2 b) ∧
    (((tryCommit c b).run s).2.lock = s.lock ∨ GP c ((tryCommit c b).run s).2 b) :=
  ⟨ghost_of_vs _ (tryCommit_frame c b) s, grows_run _ (tryCommit_gr c b) s,
    run_res_of_triple _ (fun s' => s.lock.view ≤ s'.lock.view) _ (tryCommit_lk c b s.lock.view) s (Nat.le_refl _),
    fun hw => run_res_of_triple _ _ _ (tryCommit_cov c b hc) s hw,
    run_res_of_triple _ _ _ (tryCommit_gpl c b s.lock hc) s rfl⟩

/-! ### the temporary exceptions around `voteFor` and `tryCommit` -/

/-- between `tryCommit c b` and `voteFor c b` (`onValidPropose`): the vote for `b` is not recorded
yet, but `b` is covered already and the lock may come from `b` -/
def LInvBut (c : RCfg) (b : Block) (s : RState) : Prop :=
  Grows G0 s ∧ VotesCovered c s ∧ LockCoversW c s b ∧ (LockFromW c s ∨ GP c s b)

/-- between `voteFor c b` and `tryCommit c b` (`createAndPropose`): the vote for `b` is recorded and
not covered yet; both certificate links from `b` are stored -/
def LPend (c : RCfg) (b : Block) (s : RState) : Prop :=
  Grows G0 s ∧ (∀ x id, GRec.vote x id ∈ s.ghost → x = b ∨ LockCoversW c s x) ∧ LockFromW c s ∧ Walk2 s b ∧
  ∃ id, GRec.vote b id ∈ s.ghost

theorem linvBut_same (c : RCfg) (b : Block) (s s' : RState) (h : Same s s') (hi : LInvBut c b s) : LInvBut c b s' :=
  ⟨grows_trans hi.1 h.store, votesCovered_step h.store (by rw [h.lock]; exact Nat.le_refl _) h.ghost c hi.2.1,
    lockCoversW_same c b s s' h hi.2.2.1, hi.2.2.2.imp (lockFromW_same h c) (gp_same h.store h.lock c b)⟩

theorem linvW_same (c : RCfg) (b : Block) (s s' : RState) (h : Same s s') (hi : LInv c s ∧ Walk2 s b) :
    LInv c s' ∧ Walk2 s' b := ⟨linv_same h c hi.1, walk2_grows h.store b hi.2⟩

theorem tryCommit_i (c : RCfg) (b : Block) (hc : c.rules ≠ .fast) :
    ⦃fun s => ⌜LInv c s ∧ Walk2 s b⌝⦄ tryCommit c b ⦃⇓ _ s => ⌜LInvBut c b s⌝⦄ := by
  apply triple_of_run
  intro s ⟨⟨h0, hv, hf⟩, hw⟩
  obtain ⟨hgh, hgr, hlk, hcov, hgp⟩ := tryCommit_run c b hc s
  refine ⟨grows_trans h0 hgr, votesCovered_step hgr hlk hgh c hv, hcov hw, ?_⟩
  rcases hgp with hgp | hgp
  · exact Or.inl (lockFromW_same ⟨hgr, hgp, hgh⟩ c hf)
  · exact Or.inr hgp

theorem tryCommit_ii (c : RCfg) (b : Block) (hc : c.rules ≠ .fast) :
    ⦃fun s => ⌜LPend c b s⌝⦄ tryCommit c b ⦃⇓ _ s => ⌜LInv c s⌝⦄ := by
  apply triple_of_run
  intro s ⟨h0, hv, hf, hw, id, hid⟩
  obtain ⟨hgh, hgr, hlk, hcov, hgp⟩ := tryCommit_run c b hc s
  refine ⟨grows_trans h0 hgr, ?_, ?_⟩
  · intro x id' hm
    rw [hgh] at hm
    rcases hv x id' hm with rfl | hx
    · exact hcov hw
    · exact lockCoversW_step hgr hlk c x hx
  · rcases hgp with hgp | hgp
    · exact lockFromW_same ⟨hgr, hgp, hgh⟩ c hf
    · exact Or.inr ⟨b, id, hgh ▸ hid, hgp⟩

/-- recording the vote for `b` ends the exception of `LInvBut` -/
theorem linv_vote (c : RCfg) (s s' : RState) (b : Block) (id : Nat)
    (hg : s'.ghost = s.ghost ++ [.vote b id]) (hc : s'.chain = s.chain) (hl : s'.lock = s.lock)
    (h : LInvBut c b s) : LInv c s' := by
  obtain ⟨h0, hv, hb, hf⟩ := h
  have hgr : Grows s.chain.blocks s' := by intro k x hx; show s'.chain.blocks.lookup k = some x; rw [hc]; exact hx
  have hle : s.lock.view ≤ s'.lock.view := by rw [hl]; exact Nat.le_refl _
  refine ⟨grows_trans h0 hgr, ?_, ?_⟩
  · intro x id' hm
    rw [hg] at hm
    simp only [List.mem_append, List.mem_singleton] at hm
    rcases hm with hm | hm
    · exact lockCoversW_step hgr hle c x (hv x id' hm)
    · cases hm; exact lockCoversW_step hgr hle c b hb
  · rcases hf with (hf | ⟨x, id', hm, hgp⟩) | hgp
    · exact Or.inl (by rw [hl]; exact hf)
    · exact Or.inr ⟨x, id', by rw [hg]; exact List.mem_append_left _ hm, gp_same hgr hl c x hgp⟩
    · exact Or.inr ⟨b, id, by rw [hg]; simp, gp_same hgr hl c b hgp⟩

/-- recording the vote for `b` before `tryCommit` opens the exception of `LPend` -/
theorem lpend_vote (c : RCfg) (s s' : RState) (b : Block) (id : Nat)
    (hg : s'.ghost = s.ghost ++ [.vote b id]) (hc : s'.chain = s.chain) (hl : s'.lock = s.lock)
    (h : LInv c s ∧ Walk2 s b) : LPend c b s' := by
  obtain ⟨⟨h0, hv, hf⟩, hw⟩ := h
  have hgr : Grows s.chain.blocks s' := by intro k x hx; show s'.chain.blocks.lookup k = some x; rw [hc]; exact hx
  have hle : s.lock.view ≤ s'.lock.view := by rw [hl]; exact Nat.le_refl _
  refine ⟨grows_trans h0 hgr, ?_, ?_, walk2_grows hgr b hw, id, by rw [hg]; simp⟩
  · intro x id' hm
    rw [hg] at hm
    simp only [List.mem_append, List.mem_singleton] at hm
    rcases hm with hm | hm
    · exact Or.inr (lockCoversW_step hgr hle c x (hv x id' hm))
    · cases hm; exact Or.inl rfl
  · rcases hf with hf | ⟨x, id', hm, hgp⟩
    · exact Or.inl (by rw [hl]; exact hf)
    · exact Or.inr ⟨x, id', by rw [hg]; exact List.mem_append_left _ hm, gp_same hgr hl c x hgp⟩

/-- appending a record that is not a vote -/
theorem linv_append (c : RCfg) (s s' : RState) (r : GRec) (hr : ∀ b id, r ≠ .vote b id)
    (hg : s'.ghost = s.ghost ++ [r]) (hc : s'.chain = s.chain) (hl : s'.lock = s.lock) (h : LInv c s) : LInv c s' := by
  obtain ⟨h0, hv, hf⟩ := h
  have hgr : Grows s.chain.blocks s' := by intro k x hx; show s'.chain.blocks.lookup k = some x; rw [hc]; exact hx
  have hle : s.lock.view ≤ s'.lock.view := by rw [hl]; exact Nat.le_refl _
  refine ⟨grows_trans h0 hgr, ?_, ?_⟩
  · intro x id' hm
    rw [hg] at hm
    simp only [List.mem_append, List.mem_singleton] at hm
    rcases hm with hm | hm
    · exact lockCoversW_step hgr hle c x (hv x id' hm)
    · exact absurd hm.symm (hr x id')
  · rcases hf with hf | ⟨x, id', hm, hgp⟩
    · exact Or.inl (by rw [hl]; exact hf)
    · exact Or.inr ⟨x, id', by rw [hg]; exact List.mem_append_left _ hm, gp_same hgr hl c x hgp⟩

/-- a change to fields the invariant does not read -/
theorem linv_congr (c : RCfg) (s s' : RState) (hg : s'.ghost = s.ghost) (hc : s'.chain = s.chain)
    (hl : s'.lock = s.lock) (h : LInv c s) : LInv c s' :=
  linv_same (same_of_eq s s' (by rw [hc]) hl hg) c h

section LInvChain
variable (k : Keys) (c : RCfg)

theorem emit_li (o : Out) : ⦃fun s => ⌜LInv c s⌝⦄ emit o ⦃⇓ _ s => ⌜LInv c s⌝⦄ :=
  same_frame _ (fun _ _ h => linv_same h c) _ (emit_frame o) (emit_gr o) (emit_le o)
theorem addEvent_li (e : Ev) : ⦃fun s => ⌜LInv c s⌝⦄ addEvent e ⦃⇓ _ s => ⌜LInv c s⌝⦄ :=
  same_frame _ (fun _ _ h => linv_same h c) _ (addEvent_frame e) (addEvent_gr e) (addEvent_le e)
theorem getBlock_li (h : Hash) : ⦃fun s => ⌜LInv c s⌝⦄ getBlock h ⦃⇓ _ s => ⌜LInv c s⌝⦄ :=
  same_frame _ (fun _ _ h => linv_same h c) _ (getBlock_frame h) (getBlock_gr h) (getBlock_le h)
theorem signMsg_li (m : Msg) : ⦃fun s => ⌜LInv c s⌝⦄ signMsg c m ⦃⇓ _ s => ⌜LInv c s⌝⦄ :=
  same_frame _ (fun _ _ h => linv_same h c) _ (signMsg_frame c m) (signMsg_gr c m) (signMsg_le c m)
theorem verifySyncInfo_li (si : SyncInfo) : ⦃fun s => ⌜LInv c s⌝⦄ verifySyncInfo k c si ⦃⇓ _ s => ⌜LInv c s⌝⦄ :=
  same_frame _ (fun _ _ h => linv_same h c) _ (verifySyncInfo_frame k c si) (verifySyncInfo_gr k c si) (verifySyncInfo_le k c si)
theorem collectVote_li (id : Nat) (sig : Option Sig) (h : Hash) (d : Bool) :
    ⦃fun s => ⌜LInv c s⌝⦄ collectVote k c id sig h d ⦃⇓ _ s => ⌜LInv c s⌝⦄ :=
  same_frame _ (fun _ _ h => linv_same h c) _ (collectVote_frame k c id sig h d) (collectVote_gr k c id sig h d) (collectVote_le k c id sig h d)
theorem aggregateVote_li (b : Block) (sg : Sig) :
    ⦃fun s => ⌜LInv c s⌝⦄ aggregateVote k c b sg ⦃⇓ _ s => ⌜LInv c s⌝⦄ :=
  same_frame _ (fun _ _ h => linv_same h c) _ (aggregateVote_frame k c b sg) (aggregateVote_gr k c b sg) (aggregateVote_le k c b sg)
theorem markProposed_li (fuel : Nat) (b : Block) :
    ⦃fun s => ⌜LInv c s⌝⦄ markProposed fuel b ⦃⇓ _ s => ⌜LInv c s⌝⦄ :=
  same_frame _ (fun _ _ h => linv_same h c) _ (markProposed_frame fuel b) (markProposed_gr fuel b) (markProposed_le fuel b)

theorem signMsg_but (m : Msg) (b : Block) :
    ⦃fun s => ⌜LInvBut c b s⌝⦄ signMsg c m ⦃⇓ _ s => ⌜LInvBut c b s⌝⦄ :=
  same_frame _ (linvBut_same c b) _ (signMsg_frame c m) (signMsg_gr c m) (signMsg_le c m)
theorem signMsg_liw (m : Msg) (b : Block) :
    ⦃fun s => ⌜LInv c s ∧ Walk2 s b⌝⦄ signMsg c m ⦃⇓ _ s => ⌜LInv c s ∧ Walk2 s b⌝⦄ :=
  same_frame _ (linvW_same c b) _ (signMsg_frame c m) (signMsg_gr c m) (signMsg_le c m)

variable (hc : c.rules ≠ .fast)
include hc

/-- a proposal that passes `voterVerify` has both certificate links stored -/
theorem voterVerify_li (id : Nat) (b : Block) (agg : Option AggQC) :
    ⦃fun s => ⌜LInv c s⌝⦄ voterVerify k c id b agg ⦃⇓ r s => ⌜LInv c s ∧ (r = .ok () → Walk2 s b)⌝⦄ := by
  apply triple_of_run
  intro s hi
  exact ⟨linv_same (same_run _ (voterVerify_vs k c id b agg) (voterVerify_gr k c id b agg) (voterVerify_le k c id b agg) s) c hi,
    run_res_of_triple _ _ _ (voterVerify_walk k c id b agg hc) s hi.1⟩

omit hc in
theorem voteFor_i (b : Block) (id : Nat) :
    ⦃fun s => ⌜LInvBut c b s⌝⦄ voteFor c b id ⦃⇓ _ s => ⌜LInv c s⌝⦄ := by
  mvcgen [voteFor, signMsg_but]
  all_goals (try intros)
  all_goals (first
    | exact linv_vote c _ _ b id rfl rfl rfl (by assumption)
    | skip)

omit hc in
theorem voteFor_ii (b : Block) (id : Nat) :
    ⦃fun s => ⌜LInv c s ∧ Walk2 s b⌝⦄ voteFor c b id ⦃⇓ _ s => ⌜LPend c b s⌝⦄ := by
  mvcgen [voteFor, signMsg_liw]
  all_goals (try intros)
  all_goals (first
    | exact lpend_vote c _ _ b id rfl rfl rfl (by assumption)
    | skip)

/-- closes the verification conditions of the `LInv` chain -/
macro "li_finish" : tactic => `(tactic| (
  (try intros)
  (try simp only [and_true, true_and, and_self, implies_true] at *)
  (first
    | done
    | assumption
    | (exact linv_congr _ _ _ rfl rfl rfl (by assumption))
    | (exact linv_append _ _ _ _ (by intro _ _ h; cases h) rfl rfl rfl (by assumption))
    | (simp_all; done)
    | skip)))

theorem onValidPropose_li (id : Nat) (b : Block) :
    ⦃fun s => ⌜LInv c s ∧ Walk2 s b⌝⦄ onValidPropose k c id b ⦃⇓ _ s => ⌜LInv c s⌝⦄ := by
  mvcgen [onValidPropose, tryCommit_i, voteFor_i, aggregateVote_li]

theorem createAndPropose_li (si : SyncInfo) :
    ⦃fun s => ⌜LInv c s⌝⦄ createAndPropose k c si ⦃⇓ _ s => ⌜LInv c s⌝⦄ := by
  mvcgen [createAndPropose, getBlock_li, markProposed_li, voterVerify_li, voteFor_ii, tryCommit_ii, emit_li,
    aggregateVote_li]
  all_goals li_finish

theorem advanceView_li (si : SyncInfo) :
    ⦃fun s => ⌜LInv c s⌝⦄ advanceView k c si ⦃⇓ _ s => ⌜LInv c s⌝⦄ := by
  mvcgen [advanceView, verifySyncInfo_li, getBlock_li, addEvent_li, createAndPropose_li, emit_li]
  all_goals li_finish

theorem onRemoteTimeout_li (t : TimeoutMsg) :
    ⦃fun s => ⌜LInv c s⌝⦄ onRemoteTimeout k c t ⦃⇓ _ s => ⌜LInv c s⌝⦄ := by
  mvcgen [onRemoteTimeout, advanceView_li]
  all_goals li_finish

theorem onLocalTimeout_li :
    ⦃fun s => ⌜LInv c s⌝⦄ onLocalTimeout k c ⦃⇓ _ s => ⌜LInv c s⌝⦄ := by
  mvcgen [onLocalTimeout, onRemoteTimeout_li, signMsg_li, emit_li]
  all_goals li_finish

theorem onPropose_li (id : Nat) (b : Block) (agg : Option AggQC) :
    ⦃fun s => ⌜LInv c s⌝⦄ onPropose k c id b agg ⦃⇓ _ s => ⌜LInv c s⌝⦄ := by
  mvcgen [onPropose, advanceView_li, voterVerify_li, onValidPropose_li, emit_li]
  all_goals li_finish

theorem tick_li :
    ⦃fun s => ⌜LInv c s⌝⦄ tick k c ⦃⇓ _ s => ⌜LInv c s⌝⦄ := by
  mvcgen [tick, onPropose_li, onRemoteTimeout_li, onLocalTimeout_li, advanceView_li, collectVote_li, emit_li]
  all_goals li_finish

theorem runLoop_li (fuel : Nat) :
    ⦃fun s => ⌜LInv c s⌝⦄ runLoop k c fuel ⦃⇓ _ s => ⌜LInv c s⌝⦄ := by
  induction fuel with
  | zero => mvcgen [runLoop]
  | succ n ih => mvcgen [runLoop, tick_li, ih]

end LInvChain

end HsVerif.Model
