import HsVerif.Model.Cert
import HsVerif.Proofs.IDSet
/-! Helper lemmas for C02: soundness of `verify`, `batchVerify` and the certificate checks. -/
namespace HsVerif.Model
open Bitfield

theorem hasDup_false {l : List Nat} (h : hasDup l = false) : l.Nodup := by
  induction l with
  | nil => simp
  | cons x xs ih =>
    unfold hasDup at h
    simp only [Bool.or_eq_false_iff] at h
    rw [List.nodup_cons]
    exact ⟨by simpa using h.1, ih h.2⟩

/-- the signature value contains a genuine signature of `a.signer` over `a.msg`, attributed to
that signer -/
def SigHas (T : Truth) : Sig → Atom → Prop
  | .multi _ es, a => ∃ e ∈ es, e.claimed = a.signer ∧ T e.bytes = some a
  | .bls atoms _ _, a => a ∈ atoms

/-- cached size of the bit-field is its number of members (true of every bit-field produced by
`Sign`, `Combine` or wire decoding, see `Props.C19.len_eq_card`) -/
def Sig.WF : Sig → Prop
  | .multi _ _ => True
  | .bls _ _ bits => bits.len = bits.ids.length

theorem first_of_len_one (bits : Bitfield) (h : bits.ids.length = 1) : bits.ids = [bits.first] := by
  unfold Bitfield.first
  match hh : bits.ids with
  | [] => simp [hh] at h
  | [x] => simp
  | _ :: _ :: _ => simp [hh] at h

theorem verify_sound (T : Truth) (c : Cfg) (s : Sig) (m : Msg) (hv : verify T c s m = true) (hw : s.WF) :
    s.participants.Nodup ∧ s.participants.length = s.len ∧ 1 ≤ s.len ∧
    ∀ i ∈ s.participants, c.has i = true ∧ SigHas T s ⟨i, m⟩ := by
  cases s with
  | multi k es =>
    simp only [verify, Bool.and_eq_true, Bool.not_eq_true', List.all_eq_true] at hv
    obtain ⟨⟨⟨⟨_, _⟩, hne⟩, hd⟩, hall⟩ := hv
    refine ⟨hasDup_false hd, by simp [Sig.participants, Sig.len], ?_, ?_⟩
    · simp only [Sig.len]
      cases es with
      | nil => simp at hne
      | cons _ _ => simp
    · intro i hi
      simp only [Sig.participants, List.mem_map] at hi
      obtain ⟨e, he, rfl⟩ := hi
      have := hall e he
      simp only [verifySingle, Bool.and_eq_true, beq_iff_eq] at this
      exact ⟨this.1, e, he, rfl, this.2⟩
  | bls atoms junk bits =>
    simp only [Sig.WF] at hw
    simp only [verify, Bool.and_eq_true, bne_iff_ne, ne_eq] at hv
    obtain ⟨⟨_, hne⟩, hrest⟩ := hv
    refine ⟨idsOf_nodup _, by simp [Sig.participants, Sig.len, hw], by simp only [Sig.len]; omega, ?_⟩
    intro i hi
    simp only [Sig.participants] at hi
    split at hrest
    · rename_i h1
      have h1' : bits.ids.length = 1 := by rw [← hw]; simpa using h1
      rw [first_of_len_one bits h1'] at hi
      simp only [List.mem_singleton] at hi
      subst hi
      simp only [Bool.and_eq_true] at hrest
      refine ⟨hrest.1.1, ?_⟩
      have hp := List.isPerm_iff.mp hrest.2
      simp only [SigHas]
      exact hp.mem_iff.mpr (by simp)
    · simp only [Bool.and_eq_true, List.all_eq_true] at hrest
      refine ⟨hrest.1.1 i hi, ?_⟩
      have hp := List.isPerm_iff.mp hrest.2
      simp only [SigHas]
      exact hp.mem_iff.mpr (by simp; exact hi)

theorem lookup_some_mem {α} (l : List (Nat × α)) (k : Nat) (v : α) (h : l.lookup k = some v) : (k, v) ∈ l := by
  induction l with
  | nil => simp at h
  | cons p ps ih =>
    obtain ⟨k', v'⟩ := p
    simp only [List.lookup_cons] at h
    split at h
    · rename_i hk
      simp at hk h; subst hk; subst h; simp
    · exact List.mem_cons_of_mem _ (ih h)

/-- `BatchVerify` accepted ⇒ a set of distinct configured replicas, as many as the signature claims
participants, each really signed its own message of the batch. -/
theorem batchVerify_sound (T : Truth) (c : Cfg) (s : Sig) (batch : List (Nat × Msg))
    (hk : (batch.map (·.1)).Nodup)
    (hv : batchVerify T c s batch = true) (hw : s.WF) :
    ∃ S : List Nat, S.Nodup ∧ S.length = s.len ∧
      ∀ i ∈ S, c.has i = true ∧ ∃ m, (i, m) ∈ batch ∧ SigHas T s ⟨i, m⟩ := by
  cases s with
  | multi k es =>
    simp only [batchVerify, Bool.and_eq_true, Bool.not_eq_true', List.all_eq_true] at hv
    obtain ⟨⟨⟨⟨⟨_, _⟩, _⟩, hd⟩, hall⟩, _⟩ := hv
    refine ⟨es.map (·.claimed), hasDup_false hd, by simp [Sig.len], ?_⟩
    intro i hi
    simp only [List.mem_map] at hi
    obtain ⟨e, he, rfl⟩ := hi
    have := hall e he
    split at this
    · simp at this
    · rename_i m hm
      simp only [verifySingle, Bool.and_eq_true, beq_iff_eq] at this
      exact ⟨this.1, m, lookup_some_mem _ _ _ hm, e, he, rfl, this.2⟩
  | bls atoms junk bits =>
    simp only [batchVerify, Bool.and_eq_true, List.all_eq_true, beq_iff_eq] at hv
    obtain ⟨⟨⟨_, hlen⟩, hhas⟩, hrest⟩ := hv
    have hperm : atoms.isPerm (batch.map (fun p => (⟨p.1, p.2⟩ : Atom))) = true := by
      split at hrest
      · simp only [Bool.and_eq_true] at hrest; exact hrest.2
      · simp only [Bool.and_eq_true] at hrest; exact hrest.2
    refine ⟨batch.map (·.1), hk, by simp [Sig.len, hlen], ?_⟩
    intro i hi
    simp only [List.mem_map] at hi
    obtain ⟨p, hp, rfl⟩ := hi
    refine ⟨hhas p hp, p.2, hp, ?_⟩
    simp only [SigHas]
    exact (List.isPerm_iff.mp hperm).mem_iff.mpr (List.mem_map.mpr ⟨p, hp, rfl⟩)

/-! sorting by descending view and the search for the highest valid QC -/

theorem mem_insertDesc (q x : QC) (l : List QC) : x ∈ insertDesc q l ↔ x = q ∨ x ∈ l := by
  induction l with
  | nil => simp [insertDesc]
  | cons y ys ih =>
    unfold insertDesc
    split
    · simp
    · simp only [List.mem_cons, ih]
      constructor
      · rintro (h | h | h)
        · exact Or.inr (Or.inl h)
        · exact Or.inl h
        · exact Or.inr (Or.inr h)
      · rintro (h | h | h)
        · exact Or.inr (Or.inl h)
        · exact Or.inl h
        · exact Or.inr (Or.inr h)

theorem mem_sortDesc (x : QC) (l : List QC) : x ∈ sortDesc l ↔ x ∈ l := by
  induction l with
  | nil => simp [sortDesc]
  | cons y ys ih =>
    simp only [sortDesc, List.foldr_cons] at *
    rw [mem_insertDesc, ih]; simp

def DescSorted (l : List QC) : Prop := l.Pairwise (fun a b => b.view ≤ a.view)

theorem insertDesc_sorted (q : QC) (l : List QC) (h : DescSorted l) : DescSorted (insertDesc q l) := by
  induction l with
  | nil => simp [insertDesc, DescSorted]
  | cons y ys ih =>
    unfold insertDesc
    unfold DescSorted at *
    rw [List.pairwise_cons] at h
    split
    · rename_i hlt
      rw [List.pairwise_cons]
      refine ⟨?_, List.pairwise_cons.mpr h⟩
      intro z hz
      simp only [List.mem_cons] at hz
      rcases hz with rfl | hz
      · omega
      · have := h.1 z hz; omega
    · rename_i hge
      rw [List.pairwise_cons]
      refine ⟨?_, ih h.2⟩
      intro z hz
      rw [mem_insertDesc] at hz
      rcases hz with rfl | hz
      · omega
      · exact h.1 z hz

theorem sortDesc_sorted (l : List QC) : DescSorted (sortDesc l) := by
  induction l with
  | nil => simp [sortDesc, DescSorted]
  | cons y ys ih => simp only [sortDesc, List.foldr_cons] at *; exact insertDesc_sorted _ _ ih

theorem find_sorted_max (p : QC → Bool) : ∀ (l : List QC), DescSorted l → ∀ q, l.find? p = some q →
    p q = true ∧ q ∈ l ∧ ∀ x ∈ l, p x = true → x.view ≤ q.view := by
  intro l
  induction l with
  | nil => intro _ q h; simp at h
  | cons y ys ih =>
    intro hs q h
    unfold DescSorted at hs
    rw [List.pairwise_cons] at hs
    simp only [List.find?_cons] at h
    split at h
    · rename_i hp
      simp at h; subst h
      refine ⟨hp, by simp, ?_⟩
      intro x hx _
      simp only [List.mem_cons] at hx
      rcases hx with rfl | hx
      · omega
      · exact hs.1 x hx
    · rename_i hp
      obtain ⟨h1, h2, h3⟩ := ih hs.2 q h
      refine ⟨h1, List.mem_cons_of_mem _ h2, ?_⟩
      intro x hx hpx
      simp only [List.mem_cons] at hx
      rcases hx with rfl | hx
      · simp [hpx] at hp
      · exact h3 x hx hpx

theorem find_none_all (p : QC → Bool) (l : List QC) (h : l.find? p = none) : ∀ x ∈ l, p x = false := by
  intro x hx
  have := List.find?_eq_none.mp h x hx
  simpa using this

end HsVerif.Model
