import HsVerif.Model.CmdCache
/-! Helper lemmas for C15 (command cache). -/
set_option linter.unusedVariables false
namespace HsVerif.Model.CmdCache

/-- the cached commands that are not marked as proposed, in arrival order -/
def freshOf (m : Marks) (l : List Cmd) : List Cmd := l.filter (fresh m)

theorem freshOf_length_le (m : Marks) (l : List Cmd) : (freshOf m l).length ≤ l.length :=
  List.length_filter_le _ _

theorem extractLoop_spec (bs : Nat) (m : Marks) : ∀ (rest batch : List Cmd), batch.length ≤ bs →
    (extractLoop bs m rest batch).1 = batch ++ (freshOf m rest).take (bs - batch.length) ∧
    freshOf m (extractLoop bs m rest batch).2 = (freshOf m rest).drop (bs - batch.length) := by
  intro rest
  induction rest with
  | nil => intro batch _; simp [extractLoop, freshOf]
  | cons c cs ih =>
    intro batch hb
    unfold extractLoop
    by_cases h1 : batch.length = bs
    · simp [h1]
    · simp only [h1, ↓reduceIte]
      by_cases h2 : isDup m c = true
      · simp only [h2, ↓reduceIte]
        have := ih batch hb
        simpa [freshOf, fresh, h2] using this
      · have h2' : isDup m c = false := by simpa using h2
        simp only [h2', Bool.false_eq_true, ↓reduceIte]
        have hlt : batch.length < bs := by omega
        have := ih (batch ++ [c]) (by simp; omega)
        have hf : freshOf m (c :: cs) = c :: freshOf m cs := by simp [freshOf, fresh, h2']
        rw [hf]
        have hk : bs - batch.length = (bs - (batch ++ [c]).length) + 1 := by simp; omega
        rw [hk]
        simp only [List.take_succ_cons, List.drop_succ_cons]
        constructor
        · rw [this.1]; simp
        · exact this.2

theorem extractLoop_split (bs : Nat) (m : Marks) : ∀ (rest batch : List Cmd),
    ∃ ex, rest = ex ++ (extractLoop bs m rest batch).2 ∧
      (extractLoop bs m rest batch).1 = batch ++ freshOf m ex := by
  intro rest
  induction rest with
  | nil => intro batch; exact ⟨[], by simp [extractLoop, freshOf]⟩
  | cons c cs ih =>
    intro batch
    unfold extractLoop
    by_cases h1 : batch.length = bs
    · exact ⟨[], by simp [h1, freshOf]⟩
    · simp only [h1, ↓reduceIte]
      by_cases h2 : isDup m c = true
      · simp only [h2, ↓reduceIte]
        obtain ⟨ex, he1, he2⟩ := ih batch
        refine ⟨c :: ex, ?_, ?_⟩
        · simp; exact he1
        · rw [he2]; simp [freshOf, fresh, h2]
      · have h2' : isDup m c = false := by simpa using h2
        simp only [h2', Bool.false_eq_true, ↓reduceIte]
        obtain ⟨ex, he1, he2⟩ := ih (batch ++ [c])
        refine ⟨c :: ex, ?_, ?_⟩
        · simp; exact he1
        · rw [he2]; simp [freshOf, fresh, h2']


/-- `getLocked` when enough fresh commands are cached. -/
theorem getLocked_batch (s : Cache) (h : s.bs ≤ (freshOf s.marks s.cache).length) :
    ∃ s', getLocked s = (.batch ((freshOf s.marks s.cache).take s.bs), s') ∧
      s'.bs = s.bs ∧ s'.marks = s.marks ∧
      freshOf s.marks s'.cache = (freshOf s.marks s.cache).drop s.bs ∧
      s'.ready = (s.ready || decide (s.bs ≤ s'.cache.length)) ∧
      ∃ ex, s.cache = ex ++ s'.cache ∧ (freshOf s.marks s.cache).take s.bs = freshOf s.marks ex := by
  have hlen := freshOf_length_le s.marks s.cache
  have hfull : hasFullBatch s = true := by simp [hasFullBatch]; omega
  obtain ⟨h1, h2⟩ := extractLoop_spec s.bs s.marks s.cache [] (by simp)
  obtain ⟨ex, h3, h4⟩ := extractLoop_split s.bs s.marks s.cache []
  simp only [List.length_nil, Nat.sub_zero, List.nil_append] at h1 h2 h4
  have hl : (extractLoop s.bs s.marks s.cache []).1.length = s.bs := by
    rw [h1, List.length_take]; omega
  unfold getLocked tryExtractBatch
  simp only [hfull, hl]
  by_cases hf : hasFullBatch { s with cache := (extractLoop s.bs s.marks s.cache []).2 } = true
  · refine ⟨signalReady { s with cache := (extractLoop s.bs s.marks s.cache []).2 }, ?_, rfl, rfl, h2, ?_, ex, h3, ?_⟩
    · simp [hf, h1]
    · simp [signalReady]; simp [hasFullBatch] at hf; simp [hf]
    · rw [← h1]; exact h4
  · refine ⟨{ s with cache := (extractLoop s.bs s.marks s.cache []).2 }, ?_, rfl, rfl, h2, ?_, ex, h3, ?_⟩
    · simp [hf, h1]
    · simp [hasFullBatch] at hf; simp; omega
    · rw [← h1]; exact h4

/-- `getLocked` when fewer than `bs` fresh commands are cached: nothing changes. -/
theorem getLocked_again (s : Cache) (h : (freshOf s.marks s.cache).length < s.bs) :
    getLocked s = (.again, s) := by
  unfold getLocked
  by_cases hfull : hasFullBatch s = true
  · obtain ⟨h1, h2⟩ := extractLoop_spec s.bs s.marks s.cache [] (by simp)
    simp only [List.length_nil, Nat.sub_zero, List.nil_append] at h1
    have hl : ¬ (extractLoop s.bs s.marks s.cache []).1.length = s.bs := by
      rw [h1, List.length_take]; omega
    simp [hfull, tryExtractBatch, hl]
  · simp [hfull]


/-! ### marks -/

/-- `c` is above every sequence number that was passed to `Proposed` for its client — and above
0, the value Go's map yields for a client nothing was marked for (sequence numbers start at 1;
a command numbered 0 is never accepted). -/
def freshH (marked : List Cmd) (c : Cmd) : Bool :=
  decide (0 < c.seq) && marked.all fun p => p.client != c.client || decide (p.seq < c.seq)

theorem get_nil (x : Nat) : Marks.get [] x = 0 := rfl

theorem get_mark (m : Marks) (p : Cmd) (x : Nat) :
    (mark m p).get x = if isDup m p = true then m.get x else if x = p.client then p.seq else m.get x := by
  unfold mark
  by_cases hd : isDup m p = true
  · simp [hd]
  · simp only [hd, Bool.false_eq_true, ↓reduceIte]
    by_cases hx : x = p.client
    · subst hx; simp [Marks.get]
    · have : (x == p.client) = false := by simpa using hx
      simp [Marks.get, List.lookup_cons, this, hx]

theorem fresh_mark (m : Marks) (p c : Cmd) :
    fresh (mark m p) c = (fresh m c && (p.client != c.client || decide (p.seq < c.seq))) := by
  unfold fresh
  have hg := get_mark m p c.client
  by_cases hd : p.seq ≤ m.get p.client
  · have hd' : isDup m p = true := by simp [isDup, hd]
    simp only [hd', ↓reduceIte] at hg
    simp only [isDup, hg]
    by_cases hc : p.client = c.client
    · by_cases hx : c.seq ≤ m.get c.client
      · simp [hx]
      · have : p.seq < c.seq := by rw [hc] at hd; omega
        simp [hx, this]
    · simp [hc]
  · have hd' : ¬ isDup m p = true := by simp [isDup, hd]
    simp only [hd', Bool.false_eq_true, ↓reduceIte] at hg
    simp only [isDup, hg]
    by_cases hc : p.client = c.client
    · have hc' : c.client = p.client := hc.symm
      simp only [hc', ↓reduceIte, bne_self_eq_false, Bool.false_or]
      by_cases hx : p.seq < c.seq
      · have h2 : ¬ c.seq ≤ p.seq := by omega
        have h3 : ¬ c.seq ≤ m.get p.client := by omega
        simp [hx, h2, h3]
      · have h2 : c.seq ≤ p.seq := by omega
        simp [hx, h2]
    · have hc' : ¬ c.client = p.client := fun h => hc h.symm
      simp [hc, hc']

/-- the part of `freshH` that concerns the marks -/
def freshHm (marked : List Cmd) (c : Cmd) : Bool :=
  marked.all fun p => p.client != c.client || decide (p.seq < c.seq)

theorem freshH_eq (marked : List Cmd) (c : Cmd) : freshH marked c = (decide (0 < c.seq) && freshHm marked c) := rfl

theorem fresh_foldl_mark (b : List Cmd) : ∀ (m : Marks) (c : Cmd),
    fresh (b.foldl mark m) c = (fresh m c && freshHm b c) := by
  induction b with
  | nil => intro m c; simp [freshHm]
  | cons p ps ih =>
    intro m c
    simp only [List.foldl_cons]
    rw [ih, fresh_mark]
    simp [freshHm, Bool.and_assoc]

theorem freshH_append (a b : List Cmd) (c : Cmd) : freshH (a ++ b) c = (freshH a c && freshHm b c) := by
  simp [freshH, freshHm, List.all_append, Bool.and_assoc]

theorem freshOf_proposed (m : Marks) (b l : List Cmd) :
    freshOf (b.foldl mark m) l = (freshOf m l).filter (freshHm b) := by
  unfold freshOf
  rw [List.filter_filter]
  apply List.filter_congr
  intro x _
  rw [fresh_foldl_mark, Bool.and_comm]

/-! ### removing a handed-out prefix -/

theorem filter_not_mem_take (L : List Cmd) (hn : L.Nodup) (n : Nat) :
    L.filter (fun c => !(L.take n).contains c) = L.drop n := by
  have hsplit := List.take_append_drop n L
  have hn' : (L.take n ++ L.drop n).Nodup := by rw [hsplit]; exact hn
  rw [List.nodup_append] at hn'
  obtain ⟨_, _, hdis⟩ := hn'
  conv => lhs; arg 2; rw [← hsplit]
  rw [List.filter_append]
  have h1 : (L.take n).filter (fun c => !(L.take n).contains c) = [] := by
    rw [List.filter_eq_nil_iff]; intro a ha; simp [ha]
  have h2 : (L.drop n).filter (fun c => !(L.take n).contains c) = L.drop n := by
    rw [List.filter_eq_self]; intro a ha
    have : a ∉ L.take n := fun h => hdis a h a ha rfl
    simp [this]
  rw [h1, h2]; simp


/-! ### the history invariant -/

/-- accepted-and-still-owed commands, computed from the observable history alone: everything
passed to `Add`, minus what is at or below a sequence number passed to `Proposed` for the same
client, minus what was already handed out — in arrival order. -/
def pending (h : Hist) : List Cmd :=
  h.added.filter fun c => freshH h.marked c && !h.handed.contains c

/-- ready-independent part -/
structure InvS (bs : Nat) (s : Cache) (h : Hist) : Prop where
  hbs : s.bs = bs
  hmarks : ∀ c, fresh s.marks c = freshH h.marked c
  hpend : freshOf s.marks s.cache = pending h
  hsplit : ∃ A1 A2, h.added = A1 ++ A2 ∧ h.handed.Sublist A1 ∧ s.cache.Sublist A2

theorem InvS.setReady {bs s h} (r : Bool) (i : InvS bs s h) : InvS bs { s with ready := r } h :=
  ⟨i.hbs, i.hmarks, i.hpend, i.hsplit⟩

theorem InvS.handed_sublist {bs s h} (i : InvS bs s h) : h.handed.Sublist h.added := by
  obtain ⟨A1, A2, h1, h2, _⟩ := i.hsplit
  rw [h1]; exact List.sublist_append_of_sublist_left h2

theorem pending_nodup (h : Hist) (hn : h.added.Nodup) : (pending h).Nodup :=
  List.Nodup.sublist List.filter_sublist hn

theorem InvS.init (bs : Nat) : InvS bs (Cache.new bs) {} :=
  ⟨rfl, fun c => by simp [Cache.new, fresh, isDup, freshH, get_nil, Nat.pos_iff_ne_zero], by simp [Cache.new, freshOf, pending],
   ⟨[], [], by simp [Cache.new]⟩⟩

theorem InvS.add {bs s h} (i : InvS bs s h) (c : Cmd) (hn : (h.added ++ [c]).Nodup) :
    InvS bs (add s c) { h with added := h.added ++ [c] } := by
  have hcn : c ∉ h.added := by
    rw [List.nodup_append] at hn
    intro hc; exact hn.2.2 c hc c (by simp) rfl
  have hch : c ∉ h.handed := fun hc => hcn (i.handed_sublist.subset hc)
  obtain ⟨A1, A2, h1, h2, h3⟩ := i.hsplit
  unfold CmdCache.add
  by_cases hd : isDup s.marks c = true
  · simp only [hd, ↓reduceIte]
    refine ⟨i.hbs, i.hmarks, ?_, A1, A2 ++ [c], by simp [h1], h2, List.sublist_append_of_sublist_left h3⟩
    have hf : freshH h.marked c = false := by rw [← i.hmarks]; simp [fresh, hd]
    rw [i.hpend]; simp [pending, List.filter_append, hf]
  · have hd' : isDup s.marks c = false := by simpa using hd
    have hf : freshH h.marked c = true := by rw [← i.hmarks]; simp [fresh, hd']
    have key : InvS bs { s with cache := s.cache ++ [c] } { h with added := h.added ++ [c] } := by
      refine ⟨i.hbs, i.hmarks, ?_, A1, A2 ++ [c], by simp [h1], h2, List.Sublist.append h3 (List.Sublist.refl _)⟩
      have := i.hpend
      simp only [freshOf] at this
      simp [freshOf, pending, List.filter_append, this, fresh, hd', hf, hch]
    simp only [hd', Bool.false_eq_true, ↓reduceIte]
    split
    · exact key.setReady true
    · exact key

theorem InvS.proposed {bs s h} (i : InvS bs s h) (b : List Cmd) :
    InvS bs (proposed s b) { h with marked := h.marked ++ b } := by
  refine ⟨i.hbs, ?_, ?_, i.hsplit⟩
  · intro c
    simp only [CmdCache.proposed]
    rw [fresh_foldl_mark, freshH_append, i.hmarks]
  · simp only [CmdCache.proposed]
    rw [freshOf_proposed, i.hpend]
    simp only [pending]
    rw [List.filter_filter]
    apply List.filter_congr
    intro x _
    rw [freshH_append]
    cases freshH h.marked x <;> cases freshHm b x <;> simp

/-- The locked body of `Get` in a state that satisfies the invariant. -/
theorem InvS.body {bs s h} (i : InvS bs s h) (hn : h.added.Nodup) :
    (bs ≤ (pending h).length →
      ∃ s', getLocked s = (.batch ((pending h).take bs), s') ∧
        InvS bs s' { h with handed := h.handed ++ (pending h).take bs } ∧
        s'.ready = (s.ready || decide (bs ≤ s'.cache.length))) ∧
    ((pending h).length < bs → getLocked s = (.again, s)) := by
  constructor
  · intro hle
    have hle' : s.bs ≤ (freshOf s.marks s.cache).length := by rw [i.hbs, i.hpend]; exact hle
    obtain ⟨s', hg, hb, hm, hf, hr, ex, hex, htake⟩ := getLocked_batch s hle'
    rw [i.hbs, i.hpend] at hg
    refine ⟨s', hg, ⟨hb.trans i.hbs, fun c => by rw [hm]; exact i.hmarks c, ?_, ?_⟩, by rw [hr, i.hbs]⟩
    · rw [hm, hf, i.hpend, i.hbs]
      rw [← filter_not_mem_take (pending h) (pending_nodup h hn) bs]
      simp only [pending]
      rw [List.filter_filter]
      apply List.filter_congr
      intro x _
      simp only [List.contains_eq_mem, List.mem_append, Bool.decide_or, Bool.not_or]
      cases freshH h.marked x <;> cases decide (x ∈ h.handed) <;> simp
    · obtain ⟨A1, A2, h1, h2, h3⟩ := i.hsplit
      rw [hex] at h3
      obtain ⟨R1, R2, hr1, hr2, hr3⟩ := List.append_sublist_iff.mp h3
      refine ⟨A1 ++ R1, R2, by simp [h1, hr1], ?_, hr3⟩
      apply List.Sublist.append h2
      have : (pending h).take bs = freshOf s.marks ex := by
        rw [← i.hpend, ← i.hbs]; exact htake
      rw [this]
      exact List.Sublist.trans List.filter_sublist hr2
  · intro hlt
    apply getLocked_again
    rw [i.hbs, i.hpend]; exact hlt


/-! ### the wake-up invariant for one caller at a time -/

/-- enough fresh commands for a batch ⇒ the `ready` token is there -/
def ReadyInv (s : Cache) : Prop := s.bs ≤ (freshOf s.marks s.cache).length → s.ready = true

theorem ReadyInv.init (bs : Nat) (h1 : 1 ≤ bs) : ReadyInv (Cache.new bs) := by
  intro h; simp [Cache.new, freshOf] at h; omega

theorem ReadyInv.add {s : Cache} (r : ReadyInv s) (c : Cmd) : ReadyInv (add s c) := by
  unfold CmdCache.add
  by_cases hd : isDup s.marks c = true
  · simpa [hd] using r
  · have hd' : isDup s.marks c = false := by simpa using hd
    simp only [hd', Bool.false_eq_true, ↓reduceIte]
    split
    · intro _; rfl
    · rename_i hf
      intro hle
      have := freshOf_length_le s.marks (s.cache ++ [c])
      simp [hasFullBatch] at hf
      simp at hle this
      omega

theorem ReadyInv.proposed {s : Cache} (r : ReadyInv s) (b : List Cmd) : ReadyInv (proposed s b) := by
  intro hle
  simp only [CmdCache.proposed] at hle ⊢
  rw [freshOf_proposed] at hle
  have := List.length_filter_le (freshHm b) (freshOf s.marks s.cache)
  exact r (by omega)

def Inv (bs : Nat) (s : Cache) (h : Hist) : Prop := InvS bs s h ∧ ReadyInv s

/-- The locked body in an invariant state: either it hands out exactly the `bs` oldest pending
commands (and leaves the token when another full batch of fresh commands remains), or fewer than
`bs` are pending and nothing changes. -/
theorem getLocked_cases {bs s h} (i : InvS bs s h) (hn : h.added.Nodup) :
    (bs ≤ (pending h).length ∧ ∃ s', getLocked s = (.batch ((pending h).take bs), s') ∧
        InvS bs s' { h with handed := h.handed ++ (pending h).take bs } ∧ ReadyInv s') ∨
    ((pending h).length < bs ∧ getLocked s = (.again, s)) := by
  by_cases hle : bs ≤ (pending h).length
  · left
    obtain ⟨s', hg, hi, hr⟩ := (i.body hn).1 hle
    refine ⟨hle, s', hg, hi, ?_⟩
    intro hl
    have := freshOf_length_le s'.marks s'.cache
    rw [hr, hi.hbs] at *
    have : bs ≤ s'.cache.length := by omega
    simp [this]
  · right
    exact ⟨by omega, (i.body hn).2 (by omega)⟩

theorem push_added (h : Hist) (op : Op) (r : Ret) : ∃ X, (h.push op r).added = h.added ++ X := by
  cases op with
  | add c => exact ⟨[c], rfl⟩
  | proposed b => exact ⟨[], by simp [Hist.push]⟩
  | get => cases r <;> exact ⟨[], by simp [Hist.push]⟩
  | getc t => cases r <;> exact ⟨[], by simp [Hist.push]⟩
  | body => cases r <;> exact ⟨[], by simp [Hist.push]⟩

theorem nodup_of_push {h : Hist} {op : Op} {r : Ret} (hn : (h.push op r).added.Nodup) : h.added.Nodup := by
  obtain ⟨X, hX⟩ := push_added h op r
  rw [hX] at hn
  exact List.Nodup.sublist (List.sublist_append_left _ _) hn

/-- What each getter operation returns, in terms of the observable history only. -/
theorem getter_ret {bs s h} (i : Inv bs s h) (hn : h.added.Nodup) :
    (seqStep s .get).2 = (if bs ≤ (pending h).length then .batch ((pending h).take bs) else .blocked) ∧
    (seqStep s (.getc true)).2 = (if bs ≤ (pending h).length then .batch ((pending h).take bs) else .cancelled) ∧
    (seqStep s (.getc false)).2 = .cancelled ∧
    (seqStep s .body).2 = (if bs ≤ (pending h).length then .batch ((pending h).take bs) else .again) := by
  obtain ⟨is, ir⟩ := i
  have hrdy : bs ≤ (pending h).length → s.ready = true := by
    intro hle; apply ir; rw [is.hbs, is.hpend]; exact hle
  refine ⟨?_, ?_, by simp [seqStep], ?_⟩
  · rcases getLocked_cases (is.setReady false) hn with ⟨hle, s', hg, _, _⟩ | ⟨hlt, hg⟩
    · simp [seqStep, hrdy hle, hg, hle]
    · have : ¬ bs ≤ (pending h).length := by omega
      by_cases hr : s.ready = true <;> simp [seqStep, hr, hg, this]
  · rcases getLocked_cases (is.setReady false) hn with ⟨hle, s', hg, _, _⟩ | ⟨hlt, hg⟩
    · simp [seqStep, hrdy hle, hg, hle]
    · have : ¬ bs ≤ (pending h).length := by omega
      by_cases hr : s.ready = true <;> simp [seqStep, hr, hg, this]
  · rcases getLocked_cases is hn with ⟨hle, s', hg, _, _⟩ | ⟨hlt, hg⟩
    · simp [seqStep, hg, hle]
    · have : ¬ bs ≤ (pending h).length := by omega
      simp [seqStep, hg, this]

/-- Safety half without the wake-up invariant: whatever the `ready` flag, a returned batch is the
`bs` oldest pending commands. -/
theorem batch_ret {bs s h} (i : InvS bs s h) (hn : h.added.Nodup) (op : Op) (b : List Cmd)
    (hb : (seqStep s op).2 = .batch b) : bs ≤ (pending h).length ∧ b = (pending h).take bs := by
  cases op with
  | add c => simp [seqStep] at hb
  | proposed l => simp [seqStep] at hb
  | get =>
    rcases getLocked_cases (i.setReady false) hn with ⟨hle, s', hg, _, _⟩ | ⟨hlt, hg⟩
    · by_cases hr : s.ready = true
      · simp [seqStep, hr, hg] at hb; exact ⟨hle, hb.symm⟩
      · simp [seqStep, hr] at hb
    · by_cases hr : s.ready = true
      · simp [seqStep, hr, hg] at hb
      · simp [seqStep, hr] at hb
  | getc take =>
    rcases getLocked_cases (i.setReady false) hn with ⟨hle, s', hg, _, _⟩ | ⟨hlt, hg⟩
    · by_cases hr : (s.ready && take) = true
      · simp only [seqStep, hr, ↓reduceIte, hg] at hb; simp at hb; exact ⟨hle, hb.symm⟩
      · simp [seqStep, hr] at hb
    · by_cases hr : (s.ready && take) = true
      · simp only [seqStep, hr, ↓reduceIte, hg] at hb; simp at hb
      · simp [seqStep, hr] at hb
  | body =>
    rcases getLocked_cases i hn with ⟨hle, s', hg, _, _⟩ | ⟨hlt, hg⟩
    · simp [seqStep, hg] at hb; exact ⟨hle, hb.symm⟩
    · simp [seqStep, hg] at hb

theorem seqStep_inv {bs s h} (i : Inv bs s h) (op : Op)
    (hn : (h.push op (seqStep s op).2).added.Nodup) :
    Inv bs (seqStep s op).1 (h.push op (seqStep s op).2) := by
  have hn0 := nodup_of_push hn
  obtain ⟨is, ir⟩ := i
  cases op with
  | add c => exact ⟨is.add c hn, ir.add c⟩
  | proposed b => exact ⟨is.proposed b, ir.proposed b⟩
  | get =>
    by_cases hr : s.ready = true
    · rcases getLocked_cases (is.setReady false) hn0 with ⟨hle, s', hg, hi, hri⟩ | ⟨hlt, hg⟩
      · simp only [seqStep, hr, ↓reduceIte, hg]; exact ⟨hi, hri⟩
      · simp only [seqStep, hr, ↓reduceIte, hg]
        refine ⟨is.setReady false, ?_⟩
        intro hle; rw [is.hbs] at hle; simp only [] at hle; rw [is.hpend] at hle; omega
    · simp only [seqStep, hr]; exact ⟨is, ir⟩
  | getc take =>
    by_cases hr : (s.ready && take) = true
    · rcases getLocked_cases (is.setReady false) hn0 with ⟨hle, s', hg, hi, hri⟩ | ⟨hlt, hg⟩
      · simp only [seqStep, hr, ↓reduceIte, hg]; exact ⟨hi, hri⟩
      · simp only [seqStep, hr, ↓reduceIte, hg]
        refine ⟨is.setReady false, ?_⟩
        intro hle; rw [is.hbs] at hle; simp only [] at hle; rw [is.hpend] at hle; omega
    · simp only [seqStep, hr]; exact ⟨is, ir⟩
  | body =>
    rcases getLocked_cases is hn0 with ⟨hle, s', hg, hi, hri⟩ | ⟨hlt, hg⟩
    · simp only [seqStep, hg]; exact ⟨hi, hri⟩
    · simp only [seqStep, hg]; exact ⟨is, ir⟩


/-! ### whole runs -/

theorem run_added : ∀ (ops : List Op) (s : Cache) (h : Hist), ∃ X, (run s h ops).2.1.added = h.added ++ X := by
  intro ops
  induction ops with
  | nil => intro s h; exact ⟨[], by simp [run]⟩
  | cons op ops ih =>
    intro s h
    obtain ⟨X, hX⟩ := ih (seqStep s op).1 (h.push op (seqStep s op).2)
    obtain ⟨Y, hY⟩ := push_added h op (seqStep s op).2
    exact ⟨Y ++ X, by simp only [run]; rw [hX, hY]; simp⟩

theorem run_inv (bs : Nat) : ∀ (ops : List Op) (s : Cache) (h : Hist), Inv bs s h →
    (run s h ops).2.1.added.Nodup → Inv bs (run s h ops).1 (run s h ops).2.1 := by
  intro ops
  induction ops with
  | nil => intro s h i _; simpa [run] using i
  | cons op ops ih =>
    intro s h i hn
    simp only [run] at hn ⊢
    apply ih _ _ _ hn
    apply seqStep_inv i
    obtain ⟨X, hX⟩ := run_added ops (seqStep s op).1 (h.push op (seqStep s op).2)
    rw [hX] at hn
    exact List.Nodup.sublist (List.sublist_append_left _ _) hn

theorem run_append (a b : List Op) : ∀ (s : Cache) (h : Hist),
    run s h (a ++ b) =
      ((run (run s h a).1 (run s h a).2.1 b).1, (run (run s h a).1 (run s h a).2.1 b).2.1,
        (run s h a).2.2 ++ (run (run s h a).1 (run s h a).2.1 b).2.2) := by
  induction a with
  | nil => intro s h; simp [run]
  | cons op ops ih => intro s h; simp only [List.cons_append, run]; rw [ih]

/-- the commands inside the returned batches, in return order -/
def batchesOf : List Ret → List Cmd
  | [] => []
  | .batch b :: rs => b ++ batchesOf rs
  | _ :: rs => batchesOf rs

theorem push_handed (s : Cache) (h : Hist) (op : Op) :
    (h.push op (seqStep s op).2).handed = h.handed ++ batchesOf [(seqStep s op).2] := by
  cases op with
  | add c => simp [Hist.push, seqStep, batchesOf]
  | proposed b => simp [Hist.push, seqStep, batchesOf]
  | get => cases hr : (seqStep s .get).2 <;> simp [Hist.push, batchesOf]
  | getc t => cases hr : (seqStep s (.getc t)).2 <;> simp [Hist.push, batchesOf]
  | body => cases hr : (seqStep s .body).2 <;> simp [Hist.push, batchesOf]

theorem batchesOf_cons (r : Ret) (rs : List Ret) : batchesOf (r :: rs) = batchesOf [r] ++ batchesOf rs := by
  cases r <;> simp [batchesOf]

theorem run_handed : ∀ (ops : List Op) (s : Cache) (h : Hist),
    (run s h ops).2.1.handed = h.handed ++ batchesOf (run s h ops).2.2 := by
  intro ops
  induction ops with
  | nil => intro s h; simp [run, batchesOf]
  | cons op ops ih =>
    intro s h
    simp only [run]
    rw [ih, push_handed, batchesOf_cons (seqStep s op).2 (run _ _ ops).2.2]
    simp


/-! ### concurrent getters -/

def freshCount (s : Cache) : Nat := (freshOf s.marks s.cache).length

theorem add_bs (s : Cache) (c : Cmd) : (add s c).bs = s.bs := by
  unfold CmdCache.add; split
  · rfl
  · simp only; split <;> rfl

/-- `Add` either changes nothing or leaves the token whenever a batch of fresh commands is there. -/
theorem add_wake (s : Cache) (c : Cmd) :
    add s c = s ∨ ((add s c).bs ≤ freshCount (add s c) → (add s c).ready = true) := by
  unfold CmdCache.add
  by_cases hd : isDup s.marks c = true
  · left; simp [hd]
  · right
    have hd' : isDup s.marks c = false := by simpa using hd
    simp only [hd', Bool.false_eq_true, ↓reduceIte]
    split
    · intro _; rfl
    · rename_i hf
      intro hle
      have := freshOf_length_le s.marks (s.cache ++ [c])
      simp [hasFullBatch] at hf
      simp [freshCount] at hle this
      omega

theorem proposed_freshCount_le (s : Cache) (b : List Cmd) : freshCount (proposed s b) ≤ freshCount s := by
  simp only [freshCount, CmdCache.proposed]
  rw [freshOf_proposed]
  exact List.length_filter_le _ _

/-- The locked body keeps the batch size, and leaves the token whenever a batch of fresh commands
remains afterwards. -/
theorem getLocked_wake (s : Cache) :
    (getLocked s).2.bs = s.bs ∧
    ((getLocked s).2.bs ≤ freshCount (getLocked s).2 → (getLocked s).2.ready = true) ∧
    (∀ b, (getLocked s).1 = .batch b → b = (freshOf s.marks s.cache).take s.bs ∧ s.bs ≤ freshCount s) ∧
    ((getLocked s).1 = .again → (getLocked s).2 = s ∧ freshCount s < s.bs) := by
  by_cases hle : s.bs ≤ (freshOf s.marks s.cache).length
  · obtain ⟨s', hg, hb, hm, hf, hr, _⟩ := getLocked_batch s hle
    rw [hg]
    refine ⟨hb, ?_, ?_, by simp⟩
    · intro hl
      simp only [freshCount] at hl
      have := freshOf_length_le s'.marks s'.cache
      have : s.bs ≤ s'.cache.length := by rw [hb] at hl; omega
      simp [hr, this]
    · intro b hb'; simp at hb'; exact ⟨hb'.symm, hle⟩
  · have hg := getLocked_again s (by omega)
    rw [hg]
    refine ⟨rfl, ?_, by simp, fun _ => ⟨rfl, by simp [freshCount]; omega⟩⟩
    intro hl; simp [freshCount] at hl; omega

/-- Invariant of the concurrent system. -/
structure CInv (bs : Nat) (st : Sys) : Prop where
  hbs : st.c.bs = bs
  hwake : bs ≤ freshCount st.c → st.c.ready = true ∨ ∃ (j : Nat) (g : Getter), st.gs[j]? = some g ∧ g.pc = PC.woken
  hret : ∀ g ∈ st.gs, (g.pc = .retCancelled → g.cancelled = true) ∧ (∀ b, g.pc = .retBatch b → b.length = bs)

theorem woken_set_other {gs : List Getter} {i : Nat} {g0 x : Getter} (hi : gs[i]? = some g0)
    (hne : g0.pc ≠ .woken) (h : ∃ (j : Nat) (g : Getter), gs[j]? = some g ∧ g.pc = PC.woken) :
    ∃ (j : Nat) (g : Getter), (gs.set i x)[j]? = some g ∧ g.pc = PC.woken := by
  obtain ⟨j, g, hj, hp⟩ := h
  have hij : i ≠ j := by
    intro e; subst e; rw [hi] at hj; cases hj; exact hne hp
  exact ⟨j, g, by rw [List.getElem?_set_ne hij]; exact hj, hp⟩

theorem woken_set_same {gs : List Getter} {i : Nat} {g0 x : Getter} (hi : gs[i]? = some g0)
    (hpc : x.pc = g0.pc) (h : ∃ (j : Nat) (g : Getter), gs[j]? = some g ∧ g.pc = PC.woken) :
    ∃ (j : Nat) (g : Getter), (gs.set i x)[j]? = some g ∧ g.pc = PC.woken := by
  obtain ⟨j, g, hj, hp⟩ := h
  by_cases hij : i = j
  · subst hij
    rw [hi] at hj; cases hj
    have hlt : i < gs.length := by
      obtain ⟨hlt, _⟩ := List.getElem?_eq_some_iff.mp hi; exact hlt
    exact ⟨i, x, List.getElem?_set_self hlt, by rw [hpc]; exact hp⟩
  · exact ⟨j, g, by rw [List.getElem?_set_ne hij]; exact hj, hp⟩

theorem CInv.init (bs : Nat) (h1 : 1 ≤ bs) : CInv bs { c := Cache.new bs } :=
  ⟨rfl, fun h => by simp [freshCount, Cache.new, freshOf] at h; omega, fun g hg => by simp at hg⟩

theorem CInv.step {bs : Nat} {st st' : Sys} (i : CInv bs st) (l : Label) (hs : st.step l = some st') :
    CInv bs st' := by
  cases l with
  | add c =>
    simp only [Sys.step, Option.some.injEq] at hs; subst hs
    refine ⟨by simp [add_bs, i.hbs], ?_, i.hret⟩
    intro hle
    rcases add_wake st.c c with he | hw
    · simp only [he] at hle ⊢; exact i.hwake hle
    · left; apply hw; simpa [add_bs, i.hbs] using hle
  | proposed b =>
    simp only [Sys.step, Option.some.injEq] at hs; subst hs
    refine ⟨i.hbs, ?_, i.hret⟩
    intro hle
    have := proposed_freshCount_le st.c b
    exact i.hwake (by simp only [] at hle; omega)
  | spawn =>
    simp only [Sys.step, Option.some.injEq] at hs; subst hs
    refine ⟨i.hbs, ?_, ?_⟩
    · intro hle
      rcases i.hwake hle with h | ⟨j, g, hj, hp⟩
      · left; exact h
      · right
        have hlt : j < st.gs.length := by
          obtain ⟨hlt, _⟩ := List.getElem?_eq_some_iff.mp hj; exact hlt
        exact ⟨j, g, by simp only []; rw [List.getElem?_append_left hlt]; exact hj, hp⟩
    · intro g hg
      simp only [List.mem_append, List.mem_singleton] at hg
      rcases hg with hg | hg
      · exact i.hret g hg
      · subst hg; simp
  | cancel k =>
    simp only [Sys.step] at hs
    split at hs
    · rename_i g hg
      simp only [Option.some.injEq] at hs; subst hs
      refine ⟨i.hbs, ?_, ?_⟩
      · intro hle
        rcases i.hwake hle with h | h
        · left; exact h
        · right; exact woken_set_same hg rfl h
      · intro a ha
        rcases List.mem_or_eq_of_mem_set ha with ha | ha
        · exact i.hret a ha
        · subst ha
          have := i.hret g (List.mem_of_getElem? hg)
          exact ⟨fun _ => rfl, this.2⟩
    · simp at hs
  | recv k =>
    simp only [Sys.step] at hs
    split at hs
    · rename_i g hg
      split at hs
      · rename_i hc
        simp only [Option.some.injEq] at hs; subst hs
        have hlt : k < st.gs.length := by
          obtain ⟨hlt, _⟩ := List.getElem?_eq_some_iff.mp hg; exact hlt
        refine ⟨i.hbs, ?_, ?_⟩
        · intro _
          right
          exact ⟨k, { g with pc := .woken }, by simp only [setPC]; exact List.getElem?_set_self hlt, rfl⟩
        · intro a ha
          rcases List.mem_or_eq_of_mem_set ha with ha | ha
          · exact i.hret a ha
          · subst ha; simp
      · simp at hs
    · simp at hs
  | ctxDone k =>
    simp only [Sys.step] at hs
    split at hs
    · rename_i g hg
      split at hs
      · rename_i hc
        simp only [Option.some.injEq] at hs; subst hs
        refine ⟨i.hbs, ?_, ?_⟩
        · intro hle
          rcases i.hwake hle with h | h
          · left; exact h
          · right; exact woken_set_other hg (by rw [hc.1]; simp) h
        · intro a ha
          rcases List.mem_or_eq_of_mem_set ha with ha | ha
          · exact i.hret a ha
          · subst ha; simp [hc.2]
      · simp at hs
    · simp at hs
  | body k =>
    simp only [Sys.step] at hs
    split at hs
    · rename_i g hg
      split at hs
      · rename_i hc
        obtain ⟨hb, hw, hbatch, _⟩ := getLocked_wake st.c
        split at hs
        · rename_i b c' hgl
          simp only [Option.some.injEq] at hs; subst hs
          rw [hgl] at hb hw hbatch
          refine ⟨by simp only [] at hb ⊢; rw [hb, i.hbs], ?_, ?_⟩
          · intro hle; left; apply hw; simp only [] at hb hle ⊢; rw [hb, i.hbs]; exact hle
          · intro a ha
            rcases List.mem_or_eq_of_mem_set ha with ha | ha
            · exact i.hret a ha
            · subst ha
              obtain ⟨hbe, hble⟩ := hbatch b rfl
              simp only [freshCount] at hble
              simp only [reduceCtorEq, false_implies, PC.retBatch.injEq, true_and]
              intro b' hb'; subst hb'
              rw [hbe, List.length_take, i.hbs] at *; omega
        · rename_i c' hgl
          simp only [Option.some.injEq] at hs; subst hs
          rw [hgl] at hb hw
          refine ⟨by simp only [] at hb ⊢; rw [hb, i.hbs], ?_, ?_⟩
          · intro hle; left; apply hw; simp only [] at hb hle ⊢; rw [hb, i.hbs]; exact hle
          · intro a ha
            rcases List.mem_or_eq_of_mem_set ha with ha | ha
            · exact i.hret a ha
            · subst ha; simp
      · simp at hs
    · simp at hs

theorem Reach.inv {bs : Nat} (h1 : 1 ≤ bs) {st : Sys} (r : Reach bs st) : CInv bs st := by
  induction r with
  | init => exact CInv.init bs h1
  | step l _ hs ih => exact ih.step l hs


/-! ### every concurrent execution is a run of the atomic operations -/

/-- equal up to the `ready` token -/
def Same (s t : Cache) : Prop := s.bs = t.bs ∧ s.cache = t.cache ∧ s.marks = t.marks

theorem Same.setReady (s : Cache) (r : Bool) : Same { s with ready := r } s := ⟨rfl, rfl, rfl⟩

theorem Same.eq_set {s t : Cache} (h : Same s t) : s = { t with ready := s.ready } := by
  obtain ⟨a, b, c⟩ := h
  cases s; cases t; simp at a b c; subst a b c; rfl

theorem add_setReady (s : Cache) (r : Bool) (c : Cmd) : Same (add { s with ready := r } c) (add s c) := by
  by_cases hd : isDup s.marks c = true <;>
  by_cases hf : s.bs ≤ s.cache.length + 1 <;>
  simp [CmdCache.add, hasFullBatch, signalReady, Same, hd, hf]

theorem getLocked_setReady (s : Cache) (r : Bool) :
    (getLocked { s with ready := r }).1 = (getLocked s).1 ∧
    Same (getLocked { s with ready := r }).2 (getLocked s).2 := by
  by_cases hfull : s.bs ≤ s.cache.length <;>
  by_cases hl : (extractLoop s.bs s.marks s.cache []).1.length = s.bs <;>
  by_cases h3 : s.bs ≤ (extractLoop s.bs s.marks s.cache []).2.length <;>
  simp [getLocked, tryExtractBatch, hasFullBatch, signalReady, Same, hfull, hl, h3]

theorem Same.add {s t : Cache} (h : Same s t) (c : Cmd) : Same (add s c) (add t c) := by
  rw [h.eq_set]; exact add_setReady t _ c

theorem Same.proposed {s t : Cache} (h : Same s t) (b : List Cmd) : Same (proposed s b) (proposed t b) := by
  obtain ⟨h1, h2, h3⟩ := h
  exact ⟨h1, h2, by simp [CmdCache.proposed, h3]⟩

theorem Same.getLocked {s t : Cache} (h : Same s t) :
    (getLocked s).1 = (getLocked t).1 ∧ Same (getLocked s).2 (getLocked t).2 := by
  rw [h.eq_set]; exact getLocked_setReady t _

theorem seqStep_body (s : Cache) :
    (seqStep s .body).1 = (getLocked s).2 ∧
    (seqStep s .body).2 = (match (getLocked s).1 with | .batch b => Ret.batch b | .again => Ret.again) := by
  simp only [seqStep]
  rcases hg : getLocked s with ⟨r, s'⟩
  cases r <;> simp

/-- only the three operations that touch the cache under the mutex -/
def Op.atomic : Op → Bool
  | .add _ | .proposed _ | .body => true
  | _ => false

theorem run_snoc (s : Cache) (h : Hist) (ops : List Op) (op : Op) :
    (run s h (ops ++ [op])).1 = (seqStep (run s h ops).1 op).1 ∧
    (run s h (ops ++ [op])).2.2 = (run s h ops).2.2 ++ [(seqStep (run s h ops).1 op).2] := by
  rw [run_append]; simp [run]

structure Proj (bs : Nat) (st : Sys) (ops : List Op) : Prop where
  hat : ∀ op ∈ ops, op.atomic = true
  hsame : Same (run (Cache.new bs) {} ops).1 st.c
  hret : ∀ g ∈ st.gs, ∀ b, g.pc = .retBatch b → Ret.batch b ∈ (run (Cache.new bs) {} ops).2.2

theorem Reach.proj {bs : Nat} {st : Sys} (r : Reach bs st) : ∃ ops, Proj bs st ops := by
  induction r with
  | init => exact ⟨[], by simp, by simp [run]; exact ⟨rfl, rfl, rfl⟩, by simp⟩
  | @step st st' l _ hs ih =>
    obtain ⟨ops, p⟩ := ih
    cases l with
    | add c =>
      simp only [Sys.step, Option.some.injEq] at hs; subst hs
      obtain ⟨h1, h2⟩ := run_snoc (Cache.new bs) {} ops (.add c)
      refine ⟨ops ++ [.add c], ?_, ?_, ?_⟩
      · intro op hop; simp at hop; rcases hop with hop | hop
        · exact p.hat op hop
        · subst hop; rfl
      · rw [h1]; exact p.hsame.add c
      · intro g hg b hb; rw [h2]; simp; left; exact p.hret g hg b hb
    | proposed bb =>
      simp only [Sys.step, Option.some.injEq] at hs; subst hs
      obtain ⟨h1, h2⟩ := run_snoc (Cache.new bs) {} ops (.proposed bb)
      refine ⟨ops ++ [.proposed bb], ?_, ?_, ?_⟩
      · intro op hop; simp at hop; rcases hop with hop | hop
        · exact p.hat op hop
        · subst hop; rfl
      · rw [h1]; exact p.hsame.proposed bb
      · intro g hg b hb; rw [h2]; simp; left; exact p.hret g hg b hb
    | spawn =>
      simp only [Sys.step, Option.some.injEq] at hs; subst hs
      refine ⟨ops, p.hat, p.hsame, ?_⟩
      intro g hg b hb
      simp only [List.mem_append, List.mem_singleton] at hg
      rcases hg with hg | hg
      · exact p.hret g hg b hb
      · subst hg; simp at hb
    | cancel k =>
      simp only [Sys.step] at hs
      split at hs
      · rename_i g hg
        simp only [Option.some.injEq] at hs; subst hs
        refine ⟨ops, p.hat, p.hsame, ?_⟩
        intro a ha b hb
        rcases List.mem_or_eq_of_mem_set ha with ha | ha
        · exact p.hret a ha b hb
        · subst ha; exact p.hret g (List.mem_of_getElem? hg) b hb
      · simp at hs
    | recv k =>
      simp only [Sys.step] at hs
      split at hs
      · rename_i g hg
        split at hs
        · simp only [Option.some.injEq] at hs; subst hs
          refine ⟨ops, p.hat, ?_, ?_⟩
          · obtain ⟨a, b, c⟩ := p.hsame; exact ⟨a, b, c⟩
          · intro a ha b hb
            rcases List.mem_or_eq_of_mem_set ha with ha | ha
            · exact p.hret a ha b hb
            · subst ha; simp at hb
        · simp at hs
      · simp at hs
    | ctxDone k =>
      simp only [Sys.step] at hs
      split at hs
      · rename_i g hg
        split at hs
        · simp only [Option.some.injEq] at hs; subst hs
          refine ⟨ops, p.hat, p.hsame, ?_⟩
          intro a ha b hb
          rcases List.mem_or_eq_of_mem_set ha with ha | ha
          · exact p.hret a ha b hb
          · subst ha; simp at hb
        · simp at hs
      · simp at hs
    | body k =>
      simp only [Sys.step] at hs
      split at hs
      · rename_i g hg
        split at hs
        · obtain ⟨h1, h2⟩ := run_snoc (Cache.new bs) {} ops .body
          obtain ⟨hb1, hb2⟩ := seqStep_body (run (Cache.new bs) {} ops).1
          obtain ⟨hl1, hl2⟩ := p.hsame.getLocked
          have hat : ∀ op ∈ ops ++ [Op.body], op.atomic = true := by
            intro op hop; simp at hop; rcases hop with hop | hop
            · exact p.hat op hop
            · subst hop; rfl
          split at hs
          · rename_i b c' hgl
            simp only [Option.some.injEq] at hs; subst hs
            rw [hgl] at hl1 hl2
            refine ⟨ops ++ [.body], hat, ?_, ?_⟩
            · rw [h1, hb1]; exact hl2
            · intro a ha b' hb'
              rw [h2, hb2, hl1]
              rcases List.mem_or_eq_of_mem_set ha with ha | ha
              · simp; left; exact p.hret a ha b' hb'
              · subst ha; simp at hb'; subst hb'; simp
          · rename_i c' hgl
            simp only [Option.some.injEq] at hs; subst hs
            rw [hgl] at hl1 hl2
            refine ⟨ops ++ [.body], hat, ?_, ?_⟩
            · rw [h1, hb1]; exact hl2
            · intro a ha b' hb'
              rw [h2]
              rcases List.mem_or_eq_of_mem_set ha with ha | ha
              · simp; left; exact p.hret a ha b' hb'
              · subst ha; simp at hb'
        · simp at hs
      · simp at hs


/-! ### hypotheses-free facts about single steps -/

theorem proposed_bs (s : Cache) (b : List Cmd) : (proposed s b).bs = s.bs := rfl

theorem add_marks (s : Cache) (c : Cmd) : (add s c).marks = s.marks := by
  unfold CmdCache.add; split
  · rfl
  · simp only; split <;> rfl

theorem getLocked_marks (s : Cache) : (getLocked s).2.marks = s.marks := by
  by_cases hle : s.bs ≤ (freshOf s.marks s.cache).length
  · obtain ⟨s', hg, _, hm, _⟩ := getLocked_batch s hle
    rw [hg]; exact hm
  · rw [getLocked_again s (by omega)]

/-- every getter operation is: maybe drop the token, maybe run the locked body -/
theorem seqStep_getter (s : Cache) (op : Op) (hop : op = .get ∨ (∃ t, op = .getc t) ∨ op = .body) :
    (seqStep s op = (s, .blocked) ∨ seqStep s op = (s, .cancelled)) ∨
    ∃ r, (seqStep s op).1 = (getLocked { s with ready := r }).2 ∧
      ((∀ b, (seqStep s op).2 = .batch b ↔ (getLocked { s with ready := r }).1 = .batch b)) := by
  rcases hop with h | ⟨t, h⟩ | h <;> subst h
  · by_cases hr : s.ready = true
    · right; refine ⟨false, ?_⟩
      rcases hg : getLocked { s with ready := false } with ⟨x, s'⟩
      cases x <;> simp [seqStep, hr, hg]
    · left; left; simp [seqStep, hr]
  · by_cases hr : (s.ready && t) = true
    · right; refine ⟨false, ?_⟩
      rcases hg : getLocked { s with ready := false } with ⟨x, s'⟩
      cases x <;> simp only [seqStep, hr, ↓reduceIte, hg] <;> simp
    · left; right; simp [seqStep, hr]
  · right; refine ⟨s.ready, ?_⟩
    rcases hg : getLocked s with ⟨x, s'⟩
    have : ({ s with ready := s.ready } : Cache) = s := rfl
    rw [this]
    cases x <;> simp [seqStep, hg]

theorem seqStep_bs (s : Cache) (op : Op) : (seqStep s op).1.bs = s.bs := by
  cases op with
  | add c => exact add_bs s c
  | proposed b => rfl
  | get =>
    rcases seqStep_getter s .get (Or.inl rfl) with (h | h) | ⟨r, h, _⟩
    · rw [h]
    · rw [h]
    · rw [h]; exact (getLocked_wake _).1
  | getc t =>
    rcases seqStep_getter s (.getc t) (Or.inr (Or.inl ⟨t, rfl⟩)) with (h | h) | ⟨r, h, _⟩
    · rw [h]
    · rw [h]
    · rw [h]; exact (getLocked_wake _).1
  | body =>
    rcases seqStep_getter s .body (Or.inr (Or.inr rfl)) with (h | h) | ⟨r, h, _⟩
    · rw [h]
    · rw [h]
    · rw [h]; exact (getLocked_wake _).1

/-- a returned batch has `bs` commands, all unmarked at that moment (no hypothesis on the state) -/
theorem seqStep_batch (s : Cache) (op : Op) (b : List Cmd) (hb : (seqStep s op).2 = .batch b) :
    b.length = s.bs ∧ ∀ c ∈ b, fresh s.marks c = true := by
  have key : ∀ r, (getLocked { s with ready := r }).1 = .batch b →
      b.length = s.bs ∧ ∀ c ∈ b, fresh s.marks c = true := by
    intro r hg
    obtain ⟨_, _, hbatch, _⟩ := getLocked_wake { s with ready := r }
    obtain ⟨he, hle⟩ := hbatch b hg
    simp only [freshCount] at he hle
    refine ⟨by rw [he, List.length_take]; omega, ?_⟩
    intro c hc
    rw [he] at hc
    have : c ∈ freshOf s.marks s.cache := (List.take_sublist _ _).subset hc
    simp only [freshOf, List.mem_filter] at this
    exact this.2
  cases op with
  | add c => simp [seqStep] at hb
  | proposed l => simp [seqStep] at hb
  | get =>
    rcases seqStep_getter s .get (Or.inl rfl) with (h | h) | ⟨r, _, h⟩
    · rw [h] at hb; simp at hb
    · rw [h] at hb; simp at hb
    · exact key r ((h b).mp hb)
  | getc t =>
    rcases seqStep_getter s (.getc t) (Or.inr (Or.inl ⟨t, rfl⟩)) with (h | h) | ⟨r, _, h⟩
    · rw [h] at hb; simp at hb
    · rw [h] at hb; simp at hb
    · exact key r ((h b).mp hb)
  | body =>
    rcases seqStep_getter s .body (Or.inr (Or.inr rfl)) with (h | h) | ⟨r, _, h⟩
    · rw [h] at hb; simp at hb
    · rw [h] at hb; simp at hb
    · exact key r ((h b).mp hb)

/-- the marks are exactly what the `Proposed` calls so far dictate (no hypothesis on identities) -/
def MarksInv (s : Cache) (h : Hist) : Prop := ∀ c, fresh s.marks c = freshH h.marked c

theorem MarksInv.init (bs : Nat) : MarksInv (Cache.new bs) {} := (InvS.init bs).hmarks

theorem seqStep_marksInv {s : Cache} {h : Hist} (i : MarksInv s h) (op : Op) :
    MarksInv (seqStep s op).1 (h.push op (seqStep s op).2) := by
  have hpm : ∀ (op : Op) (r : Ret), (∀ b, op ≠ .proposed b) → (h.push op r).marked = h.marked := by
    intro op r hne
    cases op with
    | add c => rfl
    | proposed b => exact absurd rfl (hne b)
    | get => cases r <;> rfl
    | getc t => cases r <;> rfl
    | body => cases r <;> rfl
  have hget : ∀ op, (op = .get ∨ (∃ t, op = .getc t) ∨ op = .body) → (seqStep s op).1.marks = s.marks := by
    intro op hop
    rcases seqStep_getter s op hop with (h | h) | ⟨r, h, _⟩
    · rw [h]
    · rw [h]
    · rw [h]; exact getLocked_marks _
  cases op with
  | add c =>
    intro x; simp only [seqStep]; rw [add_marks, hpm _ _ (by simp)]; exact i x
  | proposed b =>
    intro x
    simp only [seqStep, CmdCache.proposed, Hist.push]
    rw [fresh_foldl_mark, freshH_append, i x]
  | get => intro x; rw [hget _ (Or.inl rfl), hpm _ _ (by simp)]; exact i x
  | getc t => intro x; rw [hget _ (Or.inr (Or.inl ⟨t, rfl⟩)), hpm _ _ (by simp)]; exact i x
  | body => intro x; rw [hget _ (Or.inr (Or.inr rfl)), hpm _ _ (by simp)]; exact i x

theorem run_marksInv : ∀ (ops : List Op) (s : Cache) (h : Hist), MarksInv s h →
    MarksInv (run s h ops).1 (run s h ops).2.1 := by
  intro ops
  induction ops with
  | nil => intro s h i; simpa [run] using i
  | cons op ops ih => intro s h i; simp only [run]; exact ih _ _ (seqStep_marksInv i op)

theorem run_bs : ∀ (ops : List Op) (s : Cache) (h : Hist), (run s h ops).1.bs = s.bs := by
  intro ops
  induction ops with
  | nil => intro s h; rfl
  | cons op ops ih => intro s h; simp only [run]; rw [ih, seqStep_bs]

/-- the result of the operation at a given position of a run -/
theorem run_split (pre : List Op) (op : Op) (post : List Op) (s : Cache) (h : Hist) :
    (run s h (pre ++ op :: post)).2.2 =
      (run s h pre).2.2 ++ (seqStep (run s h pre).1 op).2 ::
        (run (seqStep (run s h pre).1 op).1 ((run s h pre).2.1.push op (seqStep (run s h pre).1 op).2) post).2.2 := by
  rw [run_append]; simp [run]

theorem run_mem_ret : ∀ (ops : List Op) (s : Cache) (h : Hist) (r : Ret), r ∈ (run s h ops).2.2 →
    ∃ pre op post, ops = pre ++ op :: post ∧ (seqStep (run s h pre).1 op).2 = r := by
  intro ops
  induction ops with
  | nil => intro s h r hr; simp [run] at hr
  | cons op ops ih =>
    intro s h r hr
    simp only [run, List.mem_cons] at hr
    rcases hr with hr | hr
    · exact ⟨[], op, ops, rfl, by simp [run, hr]⟩
    · obtain ⟨pre, op', post, he, hs⟩ := ih _ _ r hr
      exact ⟨op :: pre, op', post, by simp [he], by simpa [run] using hs⟩

/-! ### what ends a call of `Get` -/

def PC.terminal : PC → Bool
  | .retBatch _ | .retCancelled => true
  | _ => false

theorem step_getter (st st' : Sys) (l : Label) (hs : st.step l = some st') (i : Nat) (g g' : Getter)
    (hg : st.gs[i]? = some g) (hg' : st'.gs[i]? = some g') :
    (g.pc.terminal = true → g'.pc = g.pc) ∧
    (g.pc.terminal = false → g'.pc = .retCancelled → l = .ctxDone i ∧ g.cancelled = true) ∧
    (g.pc.terminal = false → ∀ b, g'.pc = .retBatch b → l = .body i ∧ (getLocked st.c).1 = .batch b) := by
  have hlt : i < st.gs.length := by
    obtain ⟨hlt, _⟩ := List.getElem?_eq_some_iff.mp hg; exact hlt
  -- the getter list after a step that rewrites entry `k`
  have hset : ∀ (k : Nat) (x : Getter), (st.gs.set k x)[i]? = some g' → (k = i ∧ g' = x) ∨ (k ≠ i ∧ g' = g) := by
    intro k x hx
    by_cases hk : k = i
    · subst hk; rw [List.getElem?_set_self hlt] at hx; left; exact ⟨rfl, by cases hx; rfl⟩
    · rw [List.getElem?_set_ne hk, hg] at hx; right; exact ⟨hk, by cases hx; rfl⟩
  have hsame : g' = g → (g.pc.terminal = true → g'.pc = g.pc) ∧
      (g.pc.terminal = false → g'.pc = .retCancelled → l = .ctxDone i ∧ g.cancelled = true) ∧
      (g.pc.terminal = false → ∀ b, g'.pc = .retBatch b → l = .body i ∧ (getLocked st.c).1 = .batch b) := by
    intro he; subst he
    refine ⟨fun _ => rfl, ?_, ?_⟩
    · intro h1 h2; rw [h2] at h1; simp [PC.terminal] at h1
    · intro h1 b h2; rw [h2] at h1; simp [PC.terminal] at h1
  cases l with
  | add c => simp only [Sys.step, Option.some.injEq] at hs; subst hs; apply hsame; simp only at hg'; rw [hg] at hg'; cases hg'; rfl
  | proposed b => simp only [Sys.step, Option.some.injEq] at hs; subst hs; apply hsame; simp only at hg'; rw [hg] at hg'; cases hg'; rfl
  | spawn =>
    simp only [Sys.step, Option.some.injEq] at hs; subst hs
    apply hsame; simp only at hg'; rw [List.getElem?_append_left hlt, hg] at hg'; cases hg'; rfl
  | cancel k =>
    simp only [Sys.step] at hs
    split at hs
    · rename_i g0 hg0
      simp only [Option.some.injEq] at hs; subst hs
      rcases hset k _ hg' with ⟨hk, hx⟩ | ⟨_, hx⟩
      · subst hk; rw [hg] at hg0; cases hg0; subst hx
        refine ⟨fun _ => rfl, ?_, ?_⟩
        · intro h1 h2; simp only at h2; rw [h2] at h1; simp [PC.terminal] at h1
        · intro h1 b h2; simp only at h2; rw [h2] at h1; simp [PC.terminal] at h1
      · exact hsame hx
    · simp at hs
  | recv k =>
    simp only [Sys.step] at hs
    split at hs
    · rename_i g0 hg0
      split at hs
      · rename_i hc
        simp only [Option.some.injEq] at hs; subst hs
        rcases hset k _ hg' with ⟨hk, hx⟩ | ⟨_, hx⟩
        · subst hk; rw [hg] at hg0; cases hg0; subst hx
          refine ⟨?_, ?_, ?_⟩
          · intro h1; rw [hc.1] at h1; simp [PC.terminal] at h1
          · intro _ h2; simp at h2
          · intro _ b h2; simp at h2
        · exact hsame hx
      · simp at hs
    · simp at hs
  | ctxDone k =>
    simp only [Sys.step] at hs
    split at hs
    · rename_i g0 hg0
      split at hs
      · rename_i hc
        simp only [Option.some.injEq] at hs; subst hs
        rcases hset k _ hg' with ⟨hk, hx⟩ | ⟨_, hx⟩
        · subst hk; rw [hg] at hg0; cases hg0; subst hx
          refine ⟨?_, ?_, ?_⟩
          · intro h1; rw [hc.1] at h1; simp [PC.terminal] at h1
          · intro _ _; exact ⟨rfl, hc.2⟩
          · intro _ b h2; simp at h2
        · exact hsame hx
      · simp at hs
    · simp at hs
  | body k =>
    simp only [Sys.step] at hs
    split at hs
    · rename_i g0 hg0
      split at hs
      · rename_i hc
        split at hs
        · rename_i b c' hgl
          simp only [Option.some.injEq] at hs; subst hs
          rcases hset k _ hg' with ⟨hk, hx⟩ | ⟨_, hx⟩
          · subst hk; rw [hg] at hg0; cases hg0; subst hx
            refine ⟨?_, ?_, ?_⟩
            · intro h1; rw [hc] at h1; simp [PC.terminal] at h1
            · intro _ h2; simp at h2
            · intro _ b' h2; simp at h2; subst h2; exact ⟨rfl, by rw [hgl]⟩
          · exact hsame hx
        · rename_i c' hgl
          simp only [Option.some.injEq] at hs; subst hs
          rcases hset k _ hg' with ⟨hk, hx⟩ | ⟨_, hx⟩
          · subst hk; rw [hg] at hg0; cases hg0; subst hx
            refine ⟨?_, ?_, ?_⟩
            · intro h1; rw [hc] at h1; simp [PC.terminal] at h1
            · intro _ h2; simp at h2
            · intro _ b' h2; simp at h2
          · exact hsame hx
      · simp at hs
    · simp at hs

end HsVerif.Model.CmdCache
