import HsVerif.Proofs.ReplicaHighQC
/-!
The lock (chained `bLock`, simplified `locked`) never moves to a lower view, for every handler of
the replica model (C01 layer B, C04).  Frames GENERATED from the AP frames by substitution.
-/
open Std.Do
set_option mvcgen.warning false
set_option linter.unusedSimpArgs false
namespace HsVerif.Model

/-- closes the verification conditions of a "lock view does not go below x" frame -/
macro "lock_finish" : tactic => `(tactic| (
  (try intros)
  (try simp +zetaDelta at *)
  (first
    | done
    | omega
    | (split <;> omega)
    | (simp_all; done)
    | (simp_all; omega)
    | skip)))

section LockFrames
theorem emit_lk (o : Out) (x : Nat) :
    ⦃fun s => ⌜x ≤ s.lock.view⌝⦄ emit o ⦃⇓ _ s => ⌜x ≤ s.lock.view⌝⦄ := by
  mvcgen [emit]  <;> lock_finish
attribute [local spec] emit_lk

theorem addEvent_lk (e : Ev) (x : Nat) :
    ⦃fun s => ⌜x ≤ s.lock.view⌝⦄ addEvent e ⦃⇓ _ s => ⌜x ≤ s.lock.view⌝⦄ := by
  mvcgen [addEvent]  <;> lock_finish
attribute [local spec] addEvent_lk

theorem getBlock_lk (h : Hash) (x : Nat) :
    ⦃fun s => ⌜x ≤ s.lock.view⌝⦄ getBlock h ⦃⇓ _ s => ⌜x ≤ s.lock.view⌝⦄ := by
  mvcgen [getBlock]  <;> lock_finish
attribute [local spec] getBlock_lk

theorem fetchFor_lk (h : Hash) (x : Nat) :
    ⦃fun s => ⌜x ≤ s.lock.view⌝⦄ fetchFor h ⦃⇓ _ s => ⌜x ≤ s.lock.view⌝⦄ := by
  mvcgen [fetchFor]  <;> lock_finish
attribute [local spec] fetchFor_lk

theorem signMsg_lk (c : RCfg) (m : Msg) (x : Nat) :
    ⦃fun s => ⌜x ≤ s.lock.view⌝⦄ signMsg c m ⦃⇓ _ s => ⌜x ≤ s.lock.view⌝⦄ := by
  mvcgen [signMsg]  <;> lock_finish
attribute [local spec] signMsg_lk

theorem verifyQCM_lk (k : Keys) (c : RCfg) (q : QC) (x : Nat) :
    ⦃fun s => ⌜x ≤ s.lock.view⌝⦄ verifyQCM k c q ⦃⇓ _ s => ⌜x ≤ s.lock.view⌝⦄ := by
  mvcgen [verifyQCM]  <;> lock_finish
attribute [local spec] verifyQCM_lk

theorem verifyTCM_lk (k : Keys) (c : RCfg) (t : TC) (x : Nat) :
    ⦃fun s => ⌜x ≤ s.lock.view⌝⦄ verifyTCM k c t ⦃⇓ _ s => ⌜x ≤ s.lock.view⌝⦄ := by
  mvcgen [verifyTCM]  <;> lock_finish
attribute [local spec] verifyTCM_lk

theorem qcRef_lk (q : QC) (x : Nat) :
    ⦃fun s => ⌜x ≤ s.lock.view⌝⦄ qcRef q ⦃⇓ _ s => ⌜x ≤ s.lock.view⌝⦄ := by
  mvcgen [qcRef]  <;> lock_finish
attribute [local spec] qcRef_lk

theorem extendsM_lk (b t : Block) (x : Nat) :
    ⦃fun s => ⌜x ≤ s.lock.view⌝⦄ extendsM b t ⦃⇓ _ s => ⌜x ≤ s.lock.view⌝⦄ := by
  mvcgen [extendsM]  <;> lock_finish
attribute [local spec] extendsM_lk

theorem voteRule_lk (c : RCfg) (v : Nat) (b : Block) (agg : Option AggQC) (x : Nat) :
    ⦃fun s => ⌜x ≤ s.lock.view⌝⦄ voteRule c v b agg ⦃⇓ _ s => ⌜x ≤ s.lock.view⌝⦄ := by
  mvcgen [voteRule]  <;> lock_finish
attribute [local spec] voteRule_lk

theorem commitRule_lk (c : RCfg) (b : Block) (x : Nat) :
    ⦃fun s => ⌜x ≤ s.lock.view⌝⦄ commitRule c b ⦃⇓ _ s => ⌜x ≤ s.lock.view⌝⦄ := by
  mvcgen [commitRule]
  all_goals (try intros)
  all_goals (try simp +zetaDelta at *)
  all_goals (first | done | omega | (rename_i h; split at h <;> omega) | skip)
attribute [local spec] commitRule_lk

theorem commitInner_lk (fuel : Nat) (b : Block) (x : Nat) :
    ⦃fun s => ⌜x ≤ s.lock.view⌝⦄ commitInner fuel b ⦃⇓ _ s => ⌜x ≤ s.lock.view⌝⦄ := by
  induction fuel generalizing b with
  | zero => mvcgen [commitInner]  <;> lock_finish
  | succ n ih => mvcgen [commitInner, ih]  <;> lock_finish
attribute [local spec] commitInner_lk

theorem tryCommit_lk (c : RCfg) (b : Block) (x : Nat) :
    ⦃fun s => ⌜x ≤ s.lock.view⌝⦄ tryCommit c b ⦃⇓ _ s => ⌜x ≤ s.lock.view⌝⦄ := by
  mvcgen [tryCommit]
  case inv1 => exact ⇓ _ s => ⌜x ≤ s.lock.view⌝
  all_goals lock_finish
attribute [local spec] tryCommit_lk

theorem votesCleanup_lk  (x : Nat) :
    ⦃fun s => ⌜x ≤ s.lock.view⌝⦄ votesCleanup ⦃⇓ _ s => ⌜x ≤ s.lock.view⌝⦄ := by
  mvcgen [votesCleanup]  <;> lock_finish
attribute [local spec] votesCleanup_lk

theorem collectVote_lk (k : Keys) (c : RCfg) (id : Nat) (sig : Option Sig) (h : Hash) (d : Bool) (x : Nat) :
    ⦃fun s => ⌜x ≤ s.lock.view⌝⦄ collectVote k c id sig h d ⦃⇓ _ s => ⌜x ≤ s.lock.view⌝⦄ := by
  mvcgen [collectVote]  <;> lock_finish
attribute [local spec] collectVote_lk

theorem aggregateVote_lk (k : Keys) (c : RCfg) (b : Block) (sg : Sig) (x : Nat) :
    ⦃fun s => ⌜x ≤ s.lock.view⌝⦄ aggregateVote k c b sg ⦃⇓ _ s => ⌜x ≤ s.lock.view⌝⦄ := by
  mvcgen [aggregateVote]  <;> lock_finish
attribute [local spec] aggregateVote_lk

theorem markProposed_lk (fuel : Nat) (b : Block) (x : Nat) :
    ⦃fun s => ⌜x ≤ s.lock.view⌝⦄ markProposed fuel b ⦃⇓ _ s => ⌜x ≤ s.lock.view⌝⦄ := by
  induction fuel generalizing b with
  | zero => mvcgen [markProposed]  <;> lock_finish
  | succ n ih => mvcgen [markProposed, ih]  <;> lock_finish
attribute [local spec] markProposed_lk

theorem verifyAggM_go_lk (k : Keys) (c : RCfg) (l : List QC) (x : Nat) :
    ⦃fun s => ⌜x ≤ s.lock.view⌝⦄ verifyAggM.go k c l ⦃⇓ _ s => ⌜x ≤ s.lock.view⌝⦄ := by
  induction l with
  | nil => mvcgen [verifyAggM.go]  <;> lock_finish
  | cons q rest ih => mvcgen [verifyAggM.go, ih]  <;> lock_finish
attribute [local spec] verifyAggM_go_lk

theorem verifyAggM_lk (k : Keys) (c : RCfg) (a : AggQC) (x : Nat) :
    ⦃fun s => ⌜x ≤ s.lock.view⌝⦄ verifyAggM k c a ⦃⇓ _ s => ⌜x ≤ s.lock.view⌝⦄ := by
  mvcgen [verifyAggM]  <;> lock_finish
attribute [local spec] verifyAggM_lk

theorem verifyAnyM_lk (k : Keys) (c : RCfg) (q : QC) (agg : Option AggQC) (x : Nat) :
    ⦃fun s => ⌜x ≤ s.lock.view⌝⦄ verifyAnyM k c q agg ⦃⇓ _ s => ⌜x ≤ s.lock.view⌝⦄ := by
  mvcgen [verifyAnyM]  <;> lock_finish
attribute [local spec] verifyAnyM_lk

theorem voterVerify_lk (k : Keys) (c : RCfg) (id : Nat) (b : Block) (agg : Option AggQC) (x : Nat) :
    ⦃fun s => ⌜x ≤ s.lock.view⌝⦄ voterVerify k c id b agg ⦃⇓ _ s => ⌜x ≤ s.lock.view⌝⦄ := by
  mvcgen [voterVerify]  <;> lock_finish
attribute [local spec] voterVerify_lk

theorem voteFor_lk (c : RCfg) (b : Block) (id : Nat) (x : Nat) :
    ⦃fun s => ⌜x ≤ s.lock.view⌝⦄ voteFor c b id ⦃⇓ _ s => ⌜x ≤ s.lock.view⌝⦄ := by
  mvcgen [voteFor] <;> lock_finish
attribute [local spec] voteFor_lk

theorem onValidPropose_lk (k : Keys) (c : RCfg) (id : Nat) (b : Block) (x : Nat) :
    ⦃fun s => ⌜x ≤ s.lock.view⌝⦄ onValidPropose k c id b ⦃⇓ _ s => ⌜x ≤ s.lock.view⌝⦄ := by
  mvcgen [onValidPropose]  <;> lock_finish
attribute [local spec] onValidPropose_lk

theorem createAndPropose_lk (k : Keys) (c : RCfg) (si : SyncInfo) (x : Nat) :
    ⦃fun s => ⌜x ≤ s.lock.view⌝⦄ createAndPropose k c si ⦃⇓ _ s => ⌜x ≤ s.lock.view⌝⦄ := by
  mvcgen [createAndPropose]  <;> lock_finish
attribute [local spec] createAndPropose_lk

theorem verifySyncInfo_lk (k : Keys) (c : RCfg) (si : SyncInfo) (x : Nat) :
    ⦃fun s => ⌜x ≤ s.lock.view⌝⦄ verifySyncInfo k c si ⦃⇓ _ s => ⌜x ≤ s.lock.view⌝⦄ := by
  mvcgen [verifySyncInfo]  <;> lock_finish
attribute [local spec] verifySyncInfo_lk


theorem advanceView_lk (k : Keys) (c : RCfg) (si : SyncInfo) (x : Nat) :
    ⦃fun s => ⌜x ≤ s.lock.view⌝⦄ advanceView k c si ⦃⇓ _ s => ⌜x ≤ s.lock.view⌝⦄ := by
  mvcgen [advanceView] <;> lock_finish

theorem onRemoteTimeout_lk (k : Keys) (c : RCfg) (t : TimeoutMsg) (x : Nat) :
    ⦃fun s => ⌜x ≤ s.lock.view⌝⦄ onRemoteTimeout k c t ⦃⇓ _ s => ⌜x ≤ s.lock.view⌝⦄ := by
  mvcgen [onRemoteTimeout, advanceView_lk] <;> lock_finish

theorem onLocalTimeout_lk (k : Keys) (c : RCfg) (x : Nat) :
    ⦃fun s => ⌜x ≤ s.lock.view⌝⦄ onLocalTimeout k c ⦃⇓ _ s => ⌜x ≤ s.lock.view⌝⦄ := by
  mvcgen [onLocalTimeout, onRemoteTimeout_lk] <;> lock_finish

theorem onPropose_lk (k : Keys) (c : RCfg) (id : Nat) (b : Block) (agg : Option AggQC) (x : Nat) :
    ⦃fun s => ⌜x ≤ s.lock.view⌝⦄ onPropose k c id b agg ⦃⇓ _ s => ⌜x ≤ s.lock.view⌝⦄ := by
  mvcgen [onPropose, advanceView_lk] <;> lock_finish

theorem tick_lk (k : Keys) (c : RCfg) (x : Nat) :
    ⦃fun s => ⌜x ≤ s.lock.view⌝⦄ tick k c ⦃⇓ _ s => ⌜x ≤ s.lock.view⌝⦄ := by
  mvcgen [tick, onPropose_lk, onRemoteTimeout_lk, onLocalTimeout_lk, advanceView_lk] <;> lock_finish

theorem runLoop_lk (k : Keys) (c : RCfg) (fuel : Nat) (x : Nat) :
    ⦃fun s => ⌜x ≤ s.lock.view⌝⦄ runLoop k c fuel ⦃⇓ _ s => ⌜x ≤ s.lock.view⌝⦄ := by
  induction fuel with
  | zero => mvcgen [runLoop] <;> lock_finish
  | succ n ih => mvcgen [runLoop, tick_lk, ih] <;> lock_finish

end LockFrames

/-- **The lock never moves to a lower view**: delivering any event leaves the view of the locked
block at least where it was. -/
theorem lock_view_monotone (k : Keys) (c : RCfg) (s : RState) (e : Ev) :
    s.lock.view ≤ (step k c s e).1.lock.view := by
  unfold step
  have := HsVerif.Proofs.run_res_of_triple (runLoop k c 100000) (fun s' => s.lock.view ≤ s'.lock.view)
    (fun _ s' => s.lock.view ≤ s'.lock.view) (runLoop_lk k c 100000 s.lock.view)
    { s with out := [], queue := s.queue ++ [e] } (Nat.le_refl _)
  simp only [StateT.run, Id.run] at this ⊢
  exact this

end HsVerif.Model
