import HsVerif.Proofs.ReplicaView
/-! No handler of the replica model reaches the model's panic (C10): the only operation that can
panic is `VerifyAggregateQC` on an aggregate QC without signature (an existing test of the
repository demands that panic), and both call sites guard it.  GENERATED frame part + hand-written
guards; proofs by `mvcgen`. -/
open Std.Do
set_option mvcgen.warning false
set_option linter.unusedSimpArgs false
namespace HsVerif.Model

/-- no panic among the effects so far -/
def NP (s : RState) : Prop := ∀ o ∈ s.out, o ≠ Out.panic

section NPChain

theorem emit_np (o : Out) : ⦃fun s => ⌜NP s ∧ o ≠ Out.panic⌝⦄ emit o ⦃⇓ _ s => ⌜NP s⌝⦄ := by
  mvcgen [emit]
  simp_all +zetaDelta [NP]
  rename_i h
  intro o' ho'
  rcases ho' with h' | h'
  · exact h.1 o' h'
  · rw [h']; exact h.2
attribute [local spec] emit_np

theorem addEvent_np (e : Ev) :
    ⦃fun s => ⌜NP s⌝⦄ addEvent e ⦃⇓ _ s => ⌜NP s⌝⦄ := by
  mvcgen [addEvent] <;> simp_all +zetaDelta [NP]
attribute [local spec] addEvent_np

theorem getBlock_np (h : Hash) :
    ⦃fun s => ⌜NP s⌝⦄ getBlock h ⦃⇓ _ s => ⌜NP s⌝⦄ := by
  mvcgen [getBlock] <;> simp_all +zetaDelta [NP]
attribute [local spec] getBlock_np

theorem fetchFor_np (h : Hash) :
    ⦃fun s => ⌜NP s⌝⦄ fetchFor h ⦃⇓ _ s => ⌜NP s⌝⦄ := by
  mvcgen [fetchFor] <;> simp_all +zetaDelta [NP]
attribute [local spec] fetchFor_np

theorem signMsg_np (c : RCfg) (m : Msg) :
    ⦃fun s => ⌜NP s⌝⦄ signMsg c m ⦃⇓ _ s => ⌜NP s⌝⦄ := by
  mvcgen [signMsg] <;> simp_all +zetaDelta [NP]
attribute [local spec] signMsg_np

theorem verifyQCM_np (k : Keys) (c : RCfg) (q : QC) :
    ⦃fun s => ⌜NP s⌝⦄ verifyQCM k c q ⦃⇓ _ s => ⌜NP s⌝⦄ := by
  mvcgen [verifyQCM] <;> simp_all +zetaDelta [NP]
attribute [local spec] verifyQCM_np

theorem verifyTCM_np (k : Keys) (c : RCfg) (t : TC) :
    ⦃fun s => ⌜NP s⌝⦄ verifyTCM k c t ⦃⇓ _ s => ⌜NP s⌝⦄ := by
  mvcgen [verifyTCM] <;> simp_all +zetaDelta [NP]
attribute [local spec] verifyTCM_np

theorem qcRef_np (q : QC) :
    ⦃fun s => ⌜NP s⌝⦄ qcRef q ⦃⇓ _ s => ⌜NP s⌝⦄ := by
  mvcgen [qcRef] <;> simp_all +zetaDelta [NP]
attribute [local spec] qcRef_np

theorem extendsM_np (b t : Block) :
    ⦃fun s => ⌜NP s⌝⦄ extendsM b t ⦃⇓ _ s => ⌜NP s⌝⦄ := by
  mvcgen [extendsM] <;> simp_all +zetaDelta [NP]
attribute [local spec] extendsM_np

theorem voteRule_np (c : RCfg) (v : Nat) (b : Block) (agg : Option AggQC) :
    ⦃fun s => ⌜NP s⌝⦄ voteRule c v b agg ⦃⇓ _ s => ⌜NP s⌝⦄ := by
  mvcgen [voteRule] <;> simp_all +zetaDelta [NP]
attribute [local spec] voteRule_np

theorem commitRule_np (c : RCfg) (b : Block) :
    ⦃fun s => ⌜NP s⌝⦄ commitRule c b ⦃⇓ _ s => ⌜NP s⌝⦄ := by
  mvcgen [commitRule] <;> simp_all +zetaDelta [NP]
attribute [local spec] commitRule_np

theorem commitInner_np (fuel : Nat) (b : Block) :
    ⦃fun s => ⌜NP s⌝⦄ commitInner fuel b ⦃⇓ _ s => ⌜NP s⌝⦄ := by
  induction fuel generalizing b with
  | zero => mvcgen [commitInner] <;> simp_all +zetaDelta [NP]
  | succ n ih => mvcgen [commitInner, ih] <;> simp_all +zetaDelta [NP]
attribute [local spec] commitInner_np

theorem tryCommit_np (c : RCfg) (b : Block) :
    ⦃fun s => ⌜NP s⌝⦄ tryCommit c b ⦃⇓ _ s => ⌜NP s⌝⦄ := by
  mvcgen [tryCommit]
  case inv1 => exact ⇓ _ s => ⌜NP s⌝
  all_goals simp_all +zetaDelta [NP]
attribute [local spec] tryCommit_np

theorem votesCleanup_np  :
    ⦃fun s => ⌜NP s⌝⦄ votesCleanup ⦃⇓ _ s => ⌜NP s⌝⦄ := by
  mvcgen [votesCleanup] <;> simp_all +zetaDelta [NP]
attribute [local spec] votesCleanup_np

theorem collectVote_np (k : Keys) (c : RCfg) (id : Nat) (sig : Option Sig) (h : Hash) (d : Bool) :
    ⦃fun s => ⌜NP s⌝⦄ collectVote k c id sig h d ⦃⇓ _ s => ⌜NP s⌝⦄ := by
  mvcgen [collectVote] <;> simp_all +zetaDelta [NP]
attribute [local spec] collectVote_np

theorem aggregateVote_np (k : Keys) (c : RCfg) (b : Block) (sg : Sig) :
    ⦃fun s => ⌜NP s⌝⦄ aggregateVote k c b sg ⦃⇓ _ s => ⌜NP s⌝⦄ := by
  mvcgen [aggregateVote] <;> simp_all +zetaDelta [NP]
attribute [local spec] aggregateVote_np

theorem markProposed_np (fuel : Nat) (b : Block) :
    ⦃fun s => ⌜NP s⌝⦄ markProposed fuel b ⦃⇓ _ s => ⌜NP s⌝⦄ := by
  induction fuel generalizing b with
  | zero => mvcgen [markProposed] <;> simp_all +zetaDelta [NP]
  | succ n ih => mvcgen [markProposed, ih] <;> simp_all +zetaDelta [NP]
attribute [local spec] markProposed_np

/-- `VerifyAggregateQC` panics only without a signature -/
theorem verifyAggM_np (k : Keys) (c : RCfg) (a : AggQC) :
    ⦃fun s => ⌜NP s⌝⦄ verifyAggM k c a ⦃⇓ r s => ⌜NP s ∧ (a.sig ≠ none → r ≠ .panic)⌝⦄ := by
  have go : ∀ l, ⦃fun s => ⌜NP s⌝⦄ verifyAggM.go k c l ⦃⇓ r s => ⌜NP s ∧ r ≠ .panic⌝⦄ := by
    intro l
    induction l with
    | nil => mvcgen [verifyAggM.go] <;> simp_all +zetaDelta [NP]
    | cons q rest ih => mvcgen [verifyAggM.go, ih] <;> simp_all +zetaDelta [NP]
  mvcgen [verifyAggM, go] <;> simp_all +zetaDelta [NP]
attribute [local spec] verifyAggM_np

theorem verifyAnyM_np (k : Keys) (c : RCfg) (q : QC) (agg : Option AggQC) :
    ⦃fun s => ⌜NP s⌝⦄ verifyAnyM k c q agg ⦃⇓ r s => ⌜NP s ∧ r ≠ .panic⌝⦄ := by
  mvcgen [verifyAnyM] <;> simp_all +zetaDelta [NP]
attribute [local spec] verifyAnyM_np

theorem voterVerify_np (k : Keys) (c : RCfg) (id : Nat) (b : Block) (agg : Option AggQC) :
    ⦃fun s => ⌜NP s⌝⦄ voterVerify k c id b agg ⦃⇓ r s => ⌜NP s ∧ r ≠ .panic⌝⦄ := by
  mvcgen [voterVerify] <;> simp_all +zetaDelta [NP]
attribute [local spec] voterVerify_np

theorem verifySyncInfo_np (k : Keys) (c : RCfg) (si : SyncInfo) :
    ⦃fun s => ⌜NP s⌝⦄ verifySyncInfo k c si ⦃⇓ r s => ⌜NP s ∧ r ≠ .panic⌝⦄ := by
  mvcgen [verifySyncInfo] <;> simp_all +zetaDelta [NP]
attribute [local spec] verifySyncInfo_np

theorem voteFor_np (c : RCfg) (b : Block) (id : Nat) : ⦃fun s => ⌜NP s⌝⦄ voteFor c b id ⦃⇓ _ s => ⌜NP s⌝⦄ := by
  mvcgen [voteFor] <;> simp_all +zetaDelta [NP]
attribute [local spec] voteFor_np

theorem onValidPropose_np (k : Keys) (c : RCfg) (id : Nat) (b : Block) :
    ⦃fun s => ⌜NP s⌝⦄ onValidPropose k c id b ⦃⇓ _ s => ⌜NP s⌝⦄ := by
  mvcgen [onValidPropose] <;> simp_all +zetaDelta [NP]
attribute [local spec] onValidPropose_np

theorem createAndPropose_np (k : Keys) (c : RCfg) (si : SyncInfo) :
    ⦃fun s => ⌜NP s⌝⦄ createAndPropose k c si ⦃⇓ _ s => ⌜NP s⌝⦄ := by
  mvcgen [createAndPropose] <;> simp_all +zetaDelta [NP]
attribute [local spec] createAndPropose_np

theorem advanceView_np (k : Keys) (c : RCfg) (si : SyncInfo) :
    ⦃fun s => ⌜NP s⌝⦄ advanceView k c si ⦃⇓ _ s => ⌜NP s⌝⦄ := by
  mvcgen [advanceView] <;> simp_all +zetaDelta [NP]
attribute [local spec] advanceView_np

theorem onRemoteTimeout_np (k : Keys) (c : RCfg) (t : TimeoutMsg) :
    ⦃fun s => ⌜NP s⌝⦄ onRemoteTimeout k c t ⦃⇓ _ s => ⌜NP s⌝⦄ := by
  mvcgen [onRemoteTimeout] <;> simp_all +zetaDelta [NP]
attribute [local spec] onRemoteTimeout_np

theorem onLocalTimeout_np (k : Keys) (c : RCfg) :
    ⦃fun s => ⌜NP s⌝⦄ onLocalTimeout k c ⦃⇓ _ s => ⌜NP s⌝⦄ := by
  mvcgen [onLocalTimeout] <;> simp_all +zetaDelta [NP]
attribute [local spec] onLocalTimeout_np

theorem onPropose_np (k : Keys) (c : RCfg) (id : Nat) (b : Block) (agg : Option AggQC) :
    ⦃fun s => ⌜NP s⌝⦄ onPropose k c id b agg ⦃⇓ _ s => ⌜NP s⌝⦄ := by
  mvcgen [onPropose] <;> simp_all +zetaDelta [NP]
attribute [local spec] onPropose_np

theorem tick_np (k : Keys) (c : RCfg) : ⦃fun s => ⌜NP s⌝⦄ tick k c ⦃⇓ _ s => ⌜NP s⌝⦄ := by
  mvcgen [tick] <;> simp_all +zetaDelta [NP]
attribute [local spec] tick_np

theorem runLoop_np (k : Keys) (c : RCfg) (fuel : Nat) : ⦃fun s => ⌜NP s⌝⦄ runLoop k c fuel ⦃⇓ _ s => ⌜NP s⌝⦄ := by
  induction fuel with
  | zero => mvcgen [runLoop]
  | succ n ih => mvcgen [runLoop, ih]

end NPChain
end HsVerif.Model
