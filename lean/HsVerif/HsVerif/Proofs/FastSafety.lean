import HsVerif.Proofs.Safety
import HsVerif.Proofs.QuorumCount
/-!
Abstract, TIMED safety analysis of Fast-HotStuff as this code base implements it (after the repairs
02b12f6, 4f3d40f, 7d9bd97): two-chain commit, aggregate QCs after a view change, and a voter that
SKIPS the reported QCs it cannot validate (`findHighestValidQC`).

The system (`TSys`) is any block forest with views, any set of replicas some of which are honest, any
quorum family in which two quorums share an honest replica, and three families of TIMED events
(the time is a global event index):
  * `votedAt r b t`        replica `r` signed a vote for block `b` at time `t`
  * `timedOutAt r u t R`   replica `r` signed its timeout message for view `u` at time `t`; the message
                           carries `r`'s high QC, which certifies block `R`
  * `hasAt r b t`          block `b` is in `r`'s store at time `t` (or `r`'s fetch of it succeeds then)

`Discipline` states what honest replicas do (one clause per code fact, see the field comments).
Results:
  * `fast_committed_on_one_branch_strict`   safety, IF a voter abstains whenever an honest signer's
    reported QC cannot be validated (`StrictJust`)
  * `fast_committed_on_one_branch_uniform`  safety, IF all voters of a block are shown the same
    aggregate QC (`UniformJust`; e.g. the aggregate QC is covered by the block hash)
  * WITHOUT either hypothesis the discipline does NOT imply safety: `Proofs/FastCex.lean` is a
    seven replica instance of `Discipline` with two conflicting two-chain commits.
-/
namespace HsVerif.FastSafety
open HsVerif.Safety

structure TSys where
  Blk : Type
  Rep : Type
  gen : Blk
  view : Blk → Nat
  par : Blk → Blk
  honest : Rep → Prop
  Quorum : (Rep → Prop) → Prop
  /-- `votedAt r b t`: `r` signed a vote for `b` at time `t` -/
  votedAt : Rep → Blk → Nat → Prop
  /-- `timedOutAt r u t R`: `r` signed a timeout for view `u` at time `t`, reporting a high QC for `R` -/
  timedOutAt : Rep → Nat → Nat → Blk → Prop
  /-- `hasAt r b t`: `r` stores (or can fetch) `b` at time `t` -/
  hasAt : Rep → Blk → Nat → Prop

/-- forgetting time: the untimed system of `Proofs/Safety.lean` (for `up`, `Ext`, `ChainLog`, `logs_prefix`) -/
def TSys.toSys (S : TSys) : Sys where
  Blk := S.Blk
  Rep := S.Rep
  gen := S.gen
  view := S.view
  par := S.par
  honest := S.honest
  voted := fun r b => ∃ t, S.votedAt r b t
  Quorum := S.Quorum

variable (S : TSys)

/-- `w` extends `b` (parent links) -/
abbrev TExt (w b : S.Blk) : Prop := Ext S.toSys w b

/-- a quorum whose honest members all voted for `b` (at some time) -/
def Certified (b : S.Blk) : Prop := ∃ Q, S.Quorum Q ∧ ∀ r, Q r → S.honest r → ∃ t, S.votedAt r b t

/-- a quorum whose honest members all voted for `b` strictly before time `t`: a QC for `b` can exist at `t` -/
def CertBefore (b : S.Blk) (t : Nat) : Prop :=
  ∃ Q, S.Quorum Q ∧ ∀ r, Q r → S.honest r → ∃ t', t' < t ∧ S.votedAt r b t'

def GC (b : S.Blk) : Prop := b = S.gen ∨ Certified S b
def GCBefore (b : S.Blk) (t : Nat) : Prop := b = S.gen ∨ CertBefore S b t

/-- plain vote rule: `w.view = w.qc.view + 1` (`w.qc` certifies `w`'s parent) -/
def Plain (w : S.Blk) : Prop := S.view w = S.view (S.par w) + 1

/-- Aggregate vote rule, as checked by voter `r` at time `t` for block `w` against the aggregate QC
`(T, u, rep)`: signers `T`, timed out view `u`, `rep m` = the block certified by the QC reported by `m`. -/
structure AggJ (r : S.Rep) (w : S.Blk) (t : Nat) (T : S.Rep → Prop) (u : Nat) (rep : S.Rep → S.Blk) : Prop where
  /-- `VerifyAggregateQC`: a quorum of signatures -/
  quorum : S.Quorum T
  /-- repair 02b12f6: `aggQC.View() + 1 ≥ block.View()` -/
  fresh : S.view w ≤ u + 1
  /-- the signatures verify: an honest signer really signed this timeout message, earlier -/
  reports : ∀ m, T m → S.honest m → ∃ t', t' < t ∧ S.timedOutAt m u t' (rep m)
  /-- `findHighestValidQC` + repair 7d9bd97: `w.qc` certifies what the highest reported QC THAT VERIFIES
  AT THE VOTER certifies; a reported QC whose block the voter lacks does not verify and is skipped -/
  high_max : ∀ m, T m → S.hasAt r (rep m) t → GCBefore S (rep m) t → S.view (rep m) ≤ S.view (S.par w)
  /-- ... and that highest valid QC is one of the reported ones -/
  high_mem : ∃ m, T m ∧ rep m = S.par w

/-- the discipline of honest replicas (Fast-HotStuff as implemented) and of the quorum system -/
structure Discipline : Prop where
  gen_view : S.view S.gen = 0
  par_gen : S.par S.gen = S.gen
  /-- C20 + at most f Byzantine (`countQuorum_inter` below, from `Proofs/QuorumCount.lean`) -/
  inter : ∀ Q1 Q2, S.Quorum Q1 → S.Quorum Q2 → ∃ r, Q1 r ∧ Q2 r ∧ S.honest r
  /-- the store only grows (no pruning of uncommitted blocks within the horizon considered) -/
  has_mono : ∀ r b t t', S.hasAt r b t → t ≤ t' → S.hasAt r b t'
  /-- `lastVotedView`: at most one vote per view -/
  one_per_view : ∀ r x y t1 t2, S.honest r → S.votedAt r x t1 → S.votedAt r y t2 → S.view x = S.view y → x = y
  /-- `lastVotedView`: votes are cast in increasing view order -/
  vote_order : ∀ r x y t1 t2, S.honest r → S.votedAt r x t1 → S.votedAt r y t2 → S.view x < S.view y → t1 < t2
  /-- `Voter.Verify`: `w.qc` verifies (so `w`'s parent is certified by earlier votes, or genesis, and is
  stored or fetched), `w.parent = w.qc.hash`, `w.qc.view < w.view`; the voted block is stored -/
  wf : ∀ r w t, S.honest r → S.votedAt r w t →
    GCBefore S (S.par w) t ∧ S.view (S.par w) < S.view w ∧ S.hasAt r w t ∧ S.hasAt r (S.par w) t
  /-- `VoteRule` + `VerifyAnyQC`: plain or aggregate justification -/
  just : ∀ r w t, S.honest r → S.votedAt r w t → Plain S w ∨ ∃ T u rep, AggJ S r w t T u rep
  /-- `lastTimeout`: one timeout message per view -/
  tmo_once : ∀ m u t1 t2 R1 R2, S.honest m → S.timedOutAt m u t1 R1 → S.timedOutAt m u t2 R2 → t1 = t2 ∧ R1 = R2
  /-- `OnLocalTimeout`: the message carries the current high QC -- a verified QC (certified by earlier
  votes, block stored), at least as high as the QC of every block voted for so far; votes cast before
  were for views up to the current one; `StopVoting(u)`: no later vote in a view `≤ u` -/
  report : ∀ m u t' R, S.honest m → S.timedOutAt m u t' R →
    GCBefore S R t' ∧ S.hasAt m R t' ∧
    (∀ x tx, S.votedAt m x tx → tx < t' → S.view (S.par x) ≤ S.view R ∧ S.view x ≤ u) ∧
    (∀ x tx, S.votedAt m x tx → t' ≤ tx → u < S.view x)
  /-- the view and the high QC of a replica only grow -/
  report_mono : ∀ m u1 u2 t1 t2 R1 R2, S.honest m → S.timedOutAt m u1 t1 R1 → S.timedOutAt m u2 t2 R2 →
    t1 ≤ t2 → u1 ≤ u2 ∧ S.view R1 ≤ S.view R2

/-- EXTRA hypothesis 1 (not what the code does): a voter abstains when the QC reported by an honest signer
of the aggregate QC cannot be validated, i.e. every honest report is for a block the voter has. -/
def StrictJust : Prop := ∀ r w t, S.honest r → S.votedAt r w t →
  Plain S w ∨ ∃ T u rep, AggJ S r w t T u rep ∧ ∀ m, T m → S.honest m → S.hasAt r (rep m) t

/-- EXTRA hypothesis 2 (not what the code does): all honest voters of one block check the SAME aggregate QC
(for instance because the aggregate QC is covered by the block hash). -/
def UniformJust : Prop := ∀ w,
  Plain S w ∨ ∃ T u rep, ∀ r t, S.honest r → S.votedAt r w t → AggJ S r w t T u rep

/-- The commit condition of Fast-HotStuff for `b0`: `b0 ← b1` directly linked, consecutive views, `b1`
certified (a proposal carrying the QC of `b1` was received). -/
structure TwoChain (b0 b1 : S.Blk) : Prop where
  p : S.par b1 = b0
  v : S.view b1 = S.view b0 + 1
  cert : Certified S b1

variable {S}

theorem CertBefore.certified {b : S.Blk} {t : Nat} (h : CertBefore S b t) : Certified S b := by
  obtain ⟨Q, hQ, hv⟩ := h
  exact ⟨Q, hQ, fun r hr hh => by obtain ⟨t', _, h'⟩ := hv r hr hh; exact ⟨t', h'⟩⟩

theorem GCBefore.gc {b : S.Blk} {t : Nat} (h : GCBefore S b t) : GC S b := by
  rcases h with h | h
  · exact Or.inl h
  · exact Or.inr h.certified

theorem CertBefore.mono {b : S.Blk} {t t' : Nat} (h : CertBefore S b t) (hle : t ≤ t') : CertBefore S b t' := by
  obtain ⟨Q, hQ, hv⟩ := h
  exact ⟨Q, hQ, fun r hr hh => by obtain ⟨t1, h1, h2⟩ := hv r hr hh; exact ⟨t1, by omega, h2⟩⟩

theorem GCBefore.mono {b : S.Blk} {t t' : Nat} (h : GCBefore S b t) (hle : t ≤ t') : GCBefore S b t' := by
  rcases h with h | h
  · exact Or.inl h
  · exact Or.inr (h.mono hle)

section
variable (D : Discipline S)
include D

/-- a certified block has an honest voter -/
theorem cert_voter {b : S.Blk} (h : Certified S b) : ∃ r t, S.honest r ∧ S.votedAt r b t := by
  obtain ⟨Q, hQ, hv⟩ := h
  obtain ⟨r, hr, _, hh⟩ := D.inter Q Q hQ hQ
  obtain ⟨t, ht⟩ := hv r hr hh
  exact ⟨r, t, hh, ht⟩

theorem cert_par {b : S.Blk} (h : Certified S b) : GC S (S.par b) ∧ S.view (S.par b) < S.view b := by
  obtain ⟨r, t, hh, hv⟩ := cert_voter D h
  obtain ⟨h1, h2, _, _⟩ := D.wf r b t hh hv
  exact ⟨h1.gc, h2⟩

theorem cert_pos {b : S.Blk} (h : Certified S b) : 1 ≤ S.view b := by
  have := (cert_par D h).2
  omega

/-- at most one certified block per view -/
theorem cert_unique {a b : S.Blk} (ha : Certified S a) (hb : Certified S b) (hv : S.view a = S.view b) : a = b := by
  obtain ⟨Qa, hQa, hva⟩ := ha
  obtain ⟨Qb, hQb, hvb⟩ := hb
  obtain ⟨r, hra, hrb, hh⟩ := D.inter Qa Qb hQa hQb
  obtain ⟨ta, hta⟩ := hva r hra hh
  obtain ⟨tb, htb⟩ := hvb r hrb hh
  exact D.one_per_view r a b ta tb hh hta htb hv

theorem gc_view_zero {b : S.Blk} (h : GC S b) (hz : S.view b = 0) : b = S.gen := by
  rcases h with h | h
  · exact h
  · have := cert_pos D h; omega

theorem TwoChain.gc0 {b0 b1 : S.Blk} (C : TwoChain S b0 b1) : GC S b0 := by
  have := (cert_par D C.cert).1
  rwa [C.p] at this

/-- **The classical induction**, with the one step that depends on the vote rule isolated as `hkey`:
if every certified block two or more views above `b0` has a parent at or above `b0`'s view, every
certified block at or above `b0`'s view extends `b0`. -/
theorem extends_of_key {b0 b1 : S.Blk} (C : TwoChain S b0 b1)
    (hkey : ∀ w, Certified S w → S.view b0 + 2 ≤ S.view w → S.view b0 ≤ S.view (S.par w)) :
    ∀ n (w : S.Blk), S.view w = n → Certified S w → S.view b0 ≤ S.view w → TExt S w b0 := by
  have hgc0 := C.gc0 D
  intro n
  induction n using Nat.strongRecOn with
  | _ n ih =>
    intro w hn hw hge
    by_cases h0 : S.view w = S.view b0
    · rcases hgc0 with hg | hc
      · have := cert_pos D hw; rw [hg, D.gen_view] at h0; omega
      · rw [cert_unique D hw hc h0]; exact Ext.refl (S := S.toSys) b0
    by_cases h1 : S.view w = S.view b0 + 1
    · have : w = b1 := cert_unique D hw C.cert (by rw [C.v]; exact h1)
      rw [this]
      exact Ext.step (S := S.toSys) (by show Ext S.toSys (S.par b1) b0; rw [C.p]; exact Ext.refl (S := S.toSys) b0)
    have hk := hkey w hw (by omega)
    obtain ⟨hpgc, hplt⟩ := cert_par D hw
    refine Ext.step (S := S.toSys) ?_
    show Ext S.toSys (S.par w) b0
    rcases hpgc with hg | hc
    · have hz : S.view b0 = 0 := by rw [hg, D.gen_view] at hk; omega
      rw [hg, gc_view_zero D hgc0 hz]; exact Ext.refl (S := S.toSys) _
    · exact ih (S.view (S.par w)) (by omega) (S.par w) rfl hc hk

/-- two committed blocks are on one branch, given the key step for every two-chain -/
theorem one_branch_of_key
    (hkey : ∀ b0 b1, TwoChain S b0 b1 → ∀ w, Certified S w → S.view b0 + 2 ≤ S.view w → S.view b0 ≤ S.view (S.par w))
    {b0 b1 c0 c1 : S.Blk} (Cb : TwoChain S b0 b1) (Cc : TwoChain S c0 c1) : TExt S b0 c0 ∨ TExt S c0 b0 := by
  have key : ∀ {x x' y y' : S.Blk}, TwoChain S x x' → TwoChain S y y' → S.view x ≤ S.view y → TExt S y x := by
    intro x x' y y' Tx Ty hle
    rcases Ty.gc0 D with hg | hc
    · have hz : S.view x = 0 := by rw [hg, D.gen_view] at hle; omega
      rw [hg, gc_view_zero D (Tx.gc0 D) hz]; exact Ext.refl (S := S.toSys) _
    · exact extends_of_key D Tx (hkey x x' Tx) _ y rfl hc hle
  rcases Nat.le_total (S.view b0) (S.view c0) with h | h
  · exact Or.inr (key Cb Cc h)
  · exact Or.inl (key Cc Cb h)

/-- **What an aggregate QC guarantees**: an aggregate QC accepted for a block two or more views above a
two-chain `b0 ← b1` contains the timeout of an honest voter of `b1`, signed after that vote, so the QC it
reports is at least as high as `b0`. -/
theorem agg_report {b0 b1 : S.Blk} (C : TwoChain S b0 b1) {r : S.Rep} {w : S.Blk} {t : Nat}
    {T : S.Rep → Prop} {u : Nat} {rep : S.Rep → S.Blk} (A : AggJ S r w t T u rep)
    (hw : S.view b0 + 2 ≤ S.view w) :
    ∃ m t', T m ∧ S.honest m ∧ t' < t ∧ S.timedOutAt m u t' (rep m) ∧ S.view b0 ≤ S.view (rep m) := by
  obtain ⟨Q1, hQ1, hv1⟩ := C.cert
  obtain ⟨m, hmT, hmQ, hh⟩ := D.inter T Q1 A.quorum hQ1
  obtain ⟨t', hlt, htm⟩ := A.reports m hmT hh
  obtain ⟨tm, hvm⟩ := hv1 m hmQ hh
  obtain ⟨_, _, hbefore, hafter⟩ := D.report m u t' (rep m) hh htm
  refine ⟨m, t', hmT, hh, hlt, htm, ?_⟩
  by_cases hord : tm < t'
  · have := (hbefore b1 tm hvm hord).1
    rwa [C.p] at this
  · have := hafter b1 tm hvm (by omega)
    have := A.fresh
    have := C.v
    omega

/-- the key step under `StrictJust` -/
theorem key_strict (hs : StrictJust S) {b0 b1 : S.Blk} (C : TwoChain S b0 b1) :
    ∀ w, Certified S w → S.view b0 + 2 ≤ S.view w → S.view b0 ≤ S.view (S.par w) := by
  intro w hw hge
  obtain ⟨r, t, hh, hv⟩ := cert_voter D hw
  rcases hs r w t hh hv with hp | ⟨T, u, rep, A, hall⟩
  · unfold Plain at hp; omega
  · obtain ⟨m, t', hmT, hmh, hlt, htm, hview⟩ := agg_report D C A hge
    have hgcb := (D.report m u t' (rep m) hmh htm).1
    have := A.high_max m hmT (hall m hmT hmh) (hgcb.mono (by omega))
    omega

/-- the key step under `UniformJust`: the honest voters of the reported block and the honest voters of `w`
intersect, and the common voter has the reported block when it checks the (common) aggregate QC -/
theorem key_uniform (hu : UniformJust S) {b0 b1 : S.Blk} (C : TwoChain S b0 b1) :
    ∀ w, Certified S w → S.view b0 + 2 ≤ S.view w → S.view b0 ≤ S.view (S.par w) := by
  intro w hw hge
  rcases hu w with hp | ⟨T, u, rep, hall⟩
  · unfold Plain at hp; omega
  · obtain ⟨r0, t0, hh0, hv0⟩ := cert_voter D hw
    have A0 := hall r0 t0 hh0 hv0
    obtain ⟨m, t', hmT, hmh, hlt, htm, hview⟩ := agg_report D C A0 hge
    rcases (D.report m u t' (rep m) hmh htm).1 with hg | ⟨QR, hQR, hvR⟩
    · rw [hg, D.gen_view] at hview; omega
    · obtain ⟨Qw, hQw, hvw⟩ := hw
      obtain ⟨y, hyR, hyw, hyh⟩ := D.inter QR Qw hQR hQw
      obtain ⟨tR, htR, hvyR⟩ := hvR y hyR hyh
      obtain ⟨ty, hvyw⟩ := hvw y hyw hyh
      have Ay := hall y ty hyh hvyw
      obtain ⟨t'', hlt'', htm''⟩ := Ay.reports m hmT hmh
      have heq := (D.tmo_once m u t' t'' _ _ hmh htm htm'').1
      have hhasR : S.hasAt y (rep m) tR := (D.wf y (rep m) tR hyh hvyR).2.2.1
      have hhas : S.hasAt y (rep m) ty := D.has_mono y (rep m) tR ty hhasR (by omega)
      have hgcb : GCBefore S (rep m) ty := Or.inr (CertBefore.mono ⟨QR, hQR, hvR⟩ (by omega))
      have := Ay.high_max m hmT hhas hgcb
      omega

/-- **Safety of Fast-HotStuff when unverifiable reports make the voter abstain.** -/
theorem fast_committed_on_one_branch_strict (hs : StrictJust S) {b0 b1 c0 c1 : S.Blk}
    (Cb : TwoChain S b0 b1) (Cc : TwoChain S c0 c1) : TExt S b0 c0 ∨ TExt S c0 b0 :=
  one_branch_of_key D (fun _ _ C => key_strict D hs C) Cb Cc

/-- **Safety of Fast-HotStuff when all voters of a block check the same aggregate QC.** -/
theorem fast_committed_on_one_branch_uniform (hu : UniformJust S) {b0 b1 c0 c1 : S.Blk}
    (Cb : TwoChain S b0 b1) (Cc : TwoChain S c0 c1) : TExt S b0 c0 ∨ TExt S c0 b0 :=
  one_branch_of_key D (fun _ _ C => key_uniform D hu C) Cb Cc

/-- every certified block at or above a committed block's view extends it (strict variant) -/
theorem certified_extends_strict (hs : StrictJust S) {b0 b1 : S.Blk} (C : TwoChain S b0 b1)
    (w : S.Blk) (hw : Certified S w) (hge : S.view b0 ≤ S.view w) : TExt S w b0 :=
  extends_of_key D C (key_strict D hs C) _ w rfl hw hge

theorem certified_extends_uniform (hu : UniformJust S) {b0 b1 : S.Blk} (C : TwoChain S b0 b1)
    (w : S.Blk) (hw : Certified S w) (hge : S.view b0 ≤ S.view w) : TExt S w b0 :=
  extends_of_key D C (key_uniform D hu C) _ w rfl hw hge

end

/-! ### The quorum hypothesis from the counting lemma of `Proofs/QuorumCount.lean` -/

open HsVerif.Model HsVerif.QuorumCount in
/-- Replicas `0..n-1`, `byz` marks at most `numFaulty n` of them, a quorum is any set containing
`quorumSize n` ids: two quorums share an honest replica. -/
theorem countQuorum_inter (n : Nat) (hn : 1 ≤ n) (byz : Nat → Bool) (hf : count byz n ≤ numFaulty n)
    (Q1 Q2 : Fin n → Prop)
    (h1 : ∃ A : Nat → Bool, quorumSize n ≤ count A n ∧ ∀ r : Fin n, A r.val = true → Q1 r)
    (h2 : ∃ A : Nat → Bool, quorumSize n ≤ count A n ∧ ∀ r : Fin n, A r.val = true → Q2 r) :
    ∃ r : Fin n, Q1 r ∧ Q2 r ∧ byz r.val = false := by
  obtain ⟨A, hA, hAQ⟩ := h1
  obtain ⟨B, hB, hBQ⟩ := h2
  obtain ⟨i, hi, hiA, hiB, hib⟩ := quorums_share_honest n hn A B byz hA hB hf
  exact ⟨⟨i, hi⟩, hAQ ⟨i, hi⟩ hiA, hBQ ⟨i, hi⟩ hiB, hib⟩

end HsVerif.FastSafety
