import HsVerif.Proofs.CombineShape
import HsVerif.Model.Replica
/-! Completeness of `Combine` + `BatchVerify` (every signer its OWN message) and of the aggregate QC
assembled by `CreateAggregateQC`; helper lemmas for `Props/C08Agg.lean`. -/
set_option linter.unusedSimpArgs false
namespace HsVerif.Model
open Bitfield


theorem distinctCount_nodup {l : List Msg} (h : l.Nodup) : distinctCount l = l.length := by
  induction l with
  | nil => rfl
  | cons x xs ih =>
    rw [List.nodup_cons] at h
    have : xs.contains x = false := by rw [List.contains_eq_mem]; exact decide_eq_false h.1
    simp [distinctCount, this, ih h.2, h.1]

theorem lookup_keyed (msg : Nat → Msg) (signers : List Nat) (i : Nat) (hi : i ∈ signers) :
    (signers.map fun j => (j, msg j)).lookup i = some (msg i) := by
  induction signers with
  | nil => simp at hi
  | cons j js ih =>
    simp only [List.map_cons, List.lookup_cons]
    by_cases h : i = j
    · subst h; simp
    · have : (i == j) = false := by simpa using h
      rw [this]
      simp only [List.mem_cons] at hi
      rcases hi with hi | hi
      · exact absurd hi h
      · exact ih hi

theorem flatMap_atoms' (msg : Nat → Msg) (l : List Nat) :
    List.flatMap (fun a => [({ signer := a, msg := msg a } : Atom)]) l = List.map (fun i => ({ signer := i, msg := msg i } : Atom)) l := by
  induction l with
  | nil => rfl
  | cons _ _ ih => simp [List.flatMap_cons, ih]

theorem map_msg_nodup (msg : Nat → Msg) (signers : List Nat) (hn : signers.Nodup)
    (hinj : ∀ i ∈ signers, ∀ j ∈ signers, msg i = msg j → i = j) : (signers.map msg).Nodup := by
  induction signers with
  | nil => simp
  | cons i is ih =>
    rw [List.nodup_cons] at hn
    simp only [List.map_cons, List.nodup_cons, List.mem_map, not_exists, not_and]
    refine ⟨?_, ih hn.2 (fun a ha b hb => hinj a (by simp [ha]) b (by simp [hb]))⟩
    intro j hj he
    have := hinj j (by simp [hj]) i (by simp) he
    subst this; exact hn.1 hj

/-- Valid single signatures of distinct configured replicas (at least two), each over its OWN
message, pairwise different messages: they combine, and the combination passes `BatchVerify`
against the map signer ↦ message. -/
theorem combine_single_batch (T : Truth) (c : Cfg) (msg : Nat → Msg) (signers : List Nat) (f : Nat → Sig) (g : Nat → Bitfield)
    (hn : signers.Nodup) (hh : ∀ i ∈ signers, c.has i = true) (h2 : 2 ≤ signers.length)
    (hinj : ∀ i ∈ signers, ∀ j ∈ signers, msg i = msg j → i = j)
    (hs : ∀ i ∈ signers, SingleSig T c i (msg i) (f i) (g i)) :
    ∃ s, combine c (signers.map f) = .ok s ∧
      batchVerify T c s (signers.map fun i => (i, msg i)) = true ∧ s.len = signers.length ∧ s.WF ∧
      ∀ j, j ∈ s.participants ↔ j ∈ signers := by
  have hlen : (signers.map f).length = signers.length := by simp
  have hmn := map_msg_nodup msg signers hn hinj
  by_cases hb : c.scheme = .bls12
  · -- BLS
    have hsig : signers.map f = signers.map fun i => Sig.bls [(⟨i, msg i⟩ : Atom)] [] (g i) := by
      apply List.map_congr_left
      intro i hi
      rcases hs i hi with ⟨h, _⟩ | ⟨_, h, _⟩
      · exact absurd hb h
      · exact h
    have hgi : ∀ i ∈ signers, (g i).ids = [i] := by
      intro i hi
      rcases hs i hi with ⟨h, _⟩ | ⟨_, _, h⟩
      · exact absurd hb h
      · exact h
    have h1 : ∀ x ∈ signers, 1 ≤ x := by
      intro x hx; have := hh x hx; simp [Cfg.has] at this; exact this.1
    obtain ⟨bits, hbits⟩ := blsCombineAux_complete g signers Bitfield.empty inv_empty h1 hn
      (by intro x _; simp [Bitfield.empty, ids, idsOf]) hgi
    obtain ⟨hinv, hmem⟩ := blsCombineAux_spec _ _ _ hbits inv_empty
    have hmem' : ∀ j, j ∈ bits.ids ↔ j ∈ signers := by
      intro j; rw [hmem]
      have he : ¬ j ∈ Bitfield.empty.ids := by simp [Bitfield.empty, ids, idsOf]
      constructor
      · rintro (h | ⟨s, hs', hj⟩)
        · exact absurd h he
        · obtain ⟨a, ha, rfl⟩ := List.mem_map.mp hs'
          rw [hgi a ha] at hj
          simp at hj; subst hj; exact ha
      · intro hj
        exact Or.inr ⟨g j, List.mem_map.mpr ⟨j, hj, rfl⟩, by rw [hgi j hj]; simp⟩
    have hnd : bits.ids.Nodup := idsOf_nodup _
    have hperm : bits.ids.Perm signers := by
      rw [List.perm_ext_iff_of_nodup hnd hn]; exact hmem'
    have hl : bits.len = signers.length := by rw [hinv, hperm.length_eq]
    refine ⟨.bls (signers.map fun i => ⟨i, msg i⟩) [] bits, ?_, ?_, by simp [Sig.len, hl], hinv, hmem'⟩
    · unfold combine
      have : ¬ (signers.map f).length < 2 := by omega
      simp only [this, ↓reduceIte, hb, hsig, allBls_shapes signers (fun i => [(⟨i, msg i⟩ : Atom)]) (fun _ => []) g]
      simp only [List.map_map, Function.comp_def, hbits]
      have hlt : ¬ signers.length < 2 := by omega
      have e1 := flatMap_atoms' msg signers
      have e2 := flatMap_nil signers
      simp [hlt, List.flatMap_map, e1, e2]
    · have hne1 : ¬ signers.length = 1 := by omega
      have hdc : distinctCount (signers.map msg) = signers.length := by
        rw [distinctCount_nodup hmn]; simp
      simp only [batchVerify, hb, List.length_map, hl, List.map_map, Function.comp_def, hdc]
      simp only [beq_self_eq_true, Bool.true_and, beq_iff_eq, hne1, ↓reduceIte, List.isEmpty_nil, Bool.and_true,
        Bool.and_eq_true, List.all_eq_true, decide_eq_true_eq]
      refine ⟨?_, by omega, ?_⟩
      · intro p hp
        obtain ⟨i, hi, rfl⟩ := List.mem_map.mp hp
        exact hh i hi
      · rw [List.isPerm_iff]
  · -- ECDSA / EdDSA
    have hex : ∀ (l : List Nat), (∀ i ∈ l, SingleSig T c i (msg i) (f i) (g i)) →
        ∃ es : List Entry, l.map f = es.map (fun e => Sig.multi c.scheme [e]) ∧ es.map (·.claimed) = l ∧
        ∀ e ∈ es, T e.bytes = some ⟨e.claimed, msg e.claimed⟩ := by
      intro l
      induction l with
      | nil => intro _; exact ⟨[], rfl, rfl, by simp⟩
      | cons i l ih =>
        intro hl
        obtain ⟨es, h1, h2, h3⟩ := ih (fun j hj => hl j (by simp [hj]))
        rcases hl i (by simp) with ⟨_, b, hfi, hT⟩ | ⟨h, _⟩
        · refine ⟨⟨i, b⟩ :: es, by simp [h1, hfi], by simp [h2], ?_⟩
          intro e he
          simp only [List.mem_cons] at he
          rcases he with rfl | he
          · exact hT
          · exact h3 e he
        · exact absurd h hb
    obtain ⟨es, hsig, hcl, hT⟩ := hex signers hs
    rw [hsig]
    have hesl : es.length = signers.length := by rw [← hcl]; simp
    have hmem : ∀ e ∈ es, e.claimed ∈ signers := by
      intro e he; rw [← hcl]; exact List.mem_map_of_mem he
    refine ⟨.multi c.scheme es, ?_, ?_, by simp [Sig.len, hesl], trivial, by simp [Sig.participants, hcl]⟩
    · unfold combine
      have : ¬ (es.map fun e => Sig.multi c.scheme [e]).length < 2 := by simp; omega
      simp only [this, ↓reduceIte]
      have hcomb := multiCombineE_singletons es [] (by simpa [hcl] using hn)
      cases hk : c.scheme with
      | bls12 => exact absurd hk hb
      | ecdsa => simp only [hk] at *; simp [allMulti_singletons, hcomb]
      | eddsa => simp only [hk] at *; simp [allMulti_singletons, hcomb]
    · have hfm : es.filterMap (fun e => (signers.map fun i => (i, msg i)).lookup e.claimed) = signers.map msg := by
        have : es.filterMap (fun e => (signers.map fun i => (i, msg i)).lookup e.claimed) = es.map (fun e => msg e.claimed) := by
          have gen : ∀ es' : List Entry, (∀ e ∈ es', e.claimed ∈ signers) →
              es'.filterMap (fun e => (signers.map fun i => (i, msg i)).lookup e.claimed) = es'.map (fun e => msg e.claimed) := by
            intro es'
            induction es' with
            | nil => intro _; rfl
            | cons e es' ih =>
              intro hm
              rw [List.filterMap_cons, lookup_keyed msg signers e.claimed (hm e (by simp))]
              simp only [List.map_cons, List.cons.injEq, true_and]
              exact ih (fun e' he' => hm e' (by simp [he']))
          exact gen es hmem
        rw [this, ← hcl, List.map_map]; rfl
      simp only [batchVerify, beq_self_eq_true, Bool.true_and, Bool.and_eq_true, bne_iff_ne, ne_eq, decide_eq_true_eq,
        Bool.not_eq_true', List.all_eq_true, hfm, distinctCount_nodup hmn, List.length_map, beq_iff_eq]
      refine ⟨⟨⟨⟨?_, ?_⟩, ?_⟩, ?_⟩, trivial⟩
      · simpa using hb
      · cases es with
        | nil => simp at hesl; omega
        | cons _ _ => rfl
      · rw [hcl]; exact hasDup_of_nodup hn
      · intro e he
        rw [lookup_keyed msg signers e.claimed (hmem e he)]
        simp only [verifySingle, Bool.and_eq_true, beq_iff_eq]
        exact ⟨hh _ (hmem e he), hT e he⟩

/-! the `qcs` map of the aggregate QC -/

theorem setKV_fresh {α} (k : Nat) (v : α) (acc : List (Nat × α)) (h : k ∉ acc.map (·.1)) :
    setKV k v acc = acc ++ [(k, v)] := by
  induction acc with
  | nil => rfl
  | cons p ps ih =>
    obtain ⟨k', v'⟩ := p
    simp only [List.map_cons, List.mem_cons, not_or] at h
    have hne : (k' == k) = false := by simpa using fun e => h.1 e.symm
    simp only [setKV, hne, Bool.false_eq_true, ↓reduceIte, List.cons_append, ih h.2]

/-- the loop of `CreateAggregateQC` over timeouts of pairwise different senders: one entry per
sender that carries a QC, in the order of the list -/
theorem foldl_qcs (l : List TimeoutMsg) : ∀ (acc : List (Nat × QC)), (l.map (·.id)).Nodup →
    (∀ x ∈ l, x.id ∉ acc.map (·.1)) →
    l.foldl (fun acc x => match x.si.qc with | some q => setKV x.id q acc | none => acc) acc =
      acc ++ l.filterMap (fun x => x.si.qc.map (fun q => (x.id, q))) := by
  induction l with
  | nil => intro acc _ _; simp
  | cons x xs ih =>
    intro acc hn hd
    simp only [List.map_cons, List.nodup_cons, List.mem_map, not_exists, not_and] at hn
    rw [List.foldl_cons, List.filterMap_cons]
    cases hq : x.si.qc with
    | none =>
      simp only [Option.map_none]
      exact ih acc hn.2 (fun y hy => hd y (by simp [hy]))
    | some q =>
      simp only [Option.map_some]
      rw [setKV_fresh x.id q acc (hd x (by simp))]
      rw [ih (acc ++ [(x.id, q)]) hn.2]
      · simp
      · intro y hy
        simp only [List.map_append, List.map_cons, List.map_nil, List.mem_append, List.mem_singleton, not_or]
        exact ⟨hd y (by simp [hy]), fun e => hn.1 y hy e⟩

/-- `signedBy` on a well-formed signature: exactly one participant, the given (non-zero) id -/
theorem signedBy_single (s : Sig) (id : Nat) (hw : s.WF) (h : signedBy (some s) id = true) :
    s.len = 1 ∧ s.participants = [id] := by
  simp only [signedBy, Bool.and_eq_true, bne_iff_ne, ne_eq, beq_iff_eq, List.contains_eq_mem, decide_eq_true_eq] at h
  obtain ⟨⟨_, hl⟩, hc⟩ := h
  refine ⟨hl, ?_⟩
  have hpl : s.participants.length = 1 := by
    cases s with
    | multi k es => simpa [Sig.participants, Sig.len] using hl
    | bls a j bits =>
      simp only [Sig.WF] at hw
      simp only [Sig.len] at hl
      simp only [Sig.participants]; omega
  match hp : s.participants, hpl, hc with
  | [x], _, hc =>
    simp only [List.mem_singleton] at hc
    rw [hc]

theorem findHighest_some (E : CertEnv) (qcs : List QC) (q0 : QC) (hm : q0 ∈ qcs) (hv : verifyQC E q0 = true) :
    ∃ q, findHighestValidQC E qcs = some q := by
  unfold findHighestValidQC
  cases h : (sortDesc qcs).find? (verifyQC E) with
  | some q => exact ⟨q, rfl⟩
  | none =>
    have := find_none_all _ _ h q0 ((mem_sortDesc _ _).mpr hm)
    rw [hv] at this; cases this

theorem lookup_none_of_not_key {α} (l : List (Nat × α)) (k : Nat) (h : k ∉ l.map (·.1)) : l.lookup k = none := by
  induction l with
  | nil => rfl
  | cons p ps ih =>
    obtain ⟨k', v'⟩ := p
    simp only [List.map_cons, List.mem_cons, not_or] at h
    have hne : (k == k') = false := by simpa using h.1
    simp only [List.lookup_cons, hne]
    exact ih h.2

/-- `BatchVerify` rejects when a participant has no message in the batch (ECDSA/EdDSA: "message
not found"; BLS: participant count ≠ batch size) -/
theorem batchVerify_missing (T : Truth) (c : Cfg) (s : Sig) (batch : List (Nat × Msg)) (i : Nat)
    (hi : i ∈ s.participants) (hni : i ∉ batch.map (·.1)) (hlen : s.len ≠ batch.length) :
    batchVerify T c s batch = false := by
  cases s with
  | multi k es =>
    simp only [Sig.participants, List.mem_map] at hi
    obtain ⟨e, he, rfl⟩ := hi
    rw [Bool.eq_false_iff]
    intro h
    simp only [batchVerify, Bool.and_eq_true, List.all_eq_true] at h
    have := h.1.2 e he
    rw [lookup_none_of_not_key batch e.claimed hni] at this
    simp at this
  | bls a j bits =>
    simp only [Sig.len] at hlen
    have : (bits.len == batch.length) = false := by simpa using hlen
    simp only [batchVerify, this, Bool.and_false, Bool.false_and]

theorem find_tmo_by_id (l : List TimeoutMsg) (hk : (l.map (·.id)).Nodup) :
    ∀ x ∈ l, l.find? (fun y => y.id == x.id) = some x := by
  induction l with
  | nil => intro x hx; simp at hx
  | cons y ys ih =>
    intro x hx
    simp only [List.map_cons, List.nodup_cons, List.mem_map, not_exists, not_and] at hk
    simp only [List.mem_cons] at hx
    rcases hx with rfl | hx
    · simp
    · have hne : (y.id == x.id) = false := by
        rw [beq_eq_false_iff_ne]; exact fun e => hk.1 x hx e.symm
      rw [List.find?_cons, hne]
      exact ih hk.2 x hx

theorem filterMap_congr_mem {α β} (f g : α → Option β) (l : List α) (h : ∀ x ∈ l, f x = g x) :
    l.filterMap f = l.filterMap g := by
  induction l with
  | nil => rfl
  | cons x xs ih =>
    rw [List.filterMap_cons, List.filterMap_cons, h x (by simp), ih (fun y hy => h y (by simp [hy]))]

theorem filterMap_length_lt {α β} (f : α → Option β) (l : List α) (x : α) (hx : x ∈ l) (hf : f x = none) :
    (l.filterMap f).length < l.length := by
  induction l with
  | nil => simp at hx
  | cons y ys ih =>
    simp only [List.mem_cons] at hx
    rw [List.filterMap_cons]
    rcases hx with rfl | hx
    · rw [hf]
      have := List.length_filterMap_le f ys
      simp only [List.length_cons]; omega
    · have := ih hx
      cases f y <;> simp only [List.length_cons] <;> omega

/-- when every message carries a QC, the messages `VerifyAggregateQC` reconstructs from the QC map
are the senders' own message bytes -/
theorem batch_of_qcs (tmoE : Nat → Nat → QC → Msg) (tmo : Nat → Nat → Option QC → Msg)
    (hE : ∀ i w q, tmoE i w q = tmo i w (some q)) (v : Nat) (l : List TimeoutMsg)
    (hqc : ∀ x ∈ l, x.si.qc.isSome = true) :
    (l.filterMap (fun x => x.si.qc.map (fun q => (x.id, q)))).map (fun p => (p.1, tmoE p.1 v p.2)) =
      l.map (fun t => (t.id, tmo t.id v t.si.qc)) := by
  induction l with
  | nil => rfl
  | cons x xs ih =>
    have hx := hqc x (by simp)
    rw [List.filterMap_cons]
    cases hq : x.si.qc with
    | none => rw [hq] at hx; simp at hx
    | some q =>
      simp only [Option.map_some, List.map_cons, hE, hq, List.cons.injEq, true_and]
      simpa [hE] using ih (fun y hy => hqc y (by simp [hy]))

/-! the sender id is part of the timeout message key -/

theorem append_sep_cancel {α} (c : α) : ∀ (a b x y : List α), c ∉ a → c ∉ b → a ++ c :: x = b ++ c :: y → a = b := by
  intro a
  induction a with
  | nil =>
    intro b x y _ hb h
    cases b with
    | nil => rfl
    | cons b0 bs =>
      simp only [List.nil_append, List.cons_append, List.cons.injEq] at h
      exact absurd (by rw [h.1]; simp) hb
  | cons a0 as ih =>
    intro b x y ha hb h
    cases b with
    | nil =>
      simp only [List.nil_append, List.cons_append, List.cons.injEq] at h
      exact absurd (by rw [← h.1]; simp) ha
    | cons b0 bs =>
      simp only [List.cons_append, List.cons.injEq] at h
      rw [h.1, ih bs x y (fun hm => ha (by simp [hm])) (fun hm => hb (by simp [hm])) h.2]

theorem colon_not_in_digits (n : Nat) : ':' ∉ Nat.toDigits 10 n := by
  intro h
  have := Nat.isDigit_of_mem_toDigits (by decide) (by decide) h
  exact absurd this (by decide)

theorem toDigits_inj {m n : Nat} (h : Nat.toDigits 10 m = Nat.toDigits 10 n) : m = n := by
  have := congrArg (fun l => Nat.ofDigitChars 10 l 0) h
  simpa [Nat.ofDigitChars_ten_toDigits] using this

/-- every key of the shape the model and the driver use names the sender -/
theorem tmoShape_inj (rest rest' : String) (i j v : Nat) 
    (h : s!"tmo:{i}:{v}:" ++ rest = s!"tmo:{j}:{v}:" ++ rest') : i = j := by
  have h' := congrArg String.toList h
  simp only [String.toList_append, toString, Nat.toList_repr] at h'
  have hc : ":".toList = [':'] := rfl
  simp only [List.append_assoc, List.append_cancel_left_eq, hc, List.singleton_append] at h'
  exact toDigits_inj (append_sep_cancel ':' _ _ _ _ (colon_not_in_digits i) (colon_not_in_digits j) h')

theorem tmoMsgKey_inj (i j v : Nat) (q q' : Option QC) (h : tmoMsgKey i v q = tmoMsgKey j v q') : i = j :=
  tmoShape_inj _ _ i j v h

end HsVerif.Model
