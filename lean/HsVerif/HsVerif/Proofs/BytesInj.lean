import HsVerif.Model.Bytes
/-! Helper lemmas for C12 / C02 / C13: the byte layouts of Model/Bytes.lean are injective (the bytes that
are hashed and signed determine the object).  Well-formedness predicates (`Part.WF`, `QSig.WF`, `QCv.WF`,
`Cmd.WF`, `Blk.WF`: what Go's types guarantee — `uint32` ids, `uint64` views, `[32]byte` hashes, lengths
that fit their length fields) and the scheme of a certificate (`QCv.OfScheme`) are defined here.
Signature bytes and command data are arbitrary naturals: no field that is parsed lies behind them
without a length in front.  Property theorems: Props/C12Bytes.lean. -/
namespace HsVerif.Model.Bytes

@[simp] theorem le_length (n x : Nat) : (le n x).length = n := by
  induction n generalizing x with
  | zero => rfl
  | succ n ih => simp [le, ih]

theorem le_injective {n x y : Nat} (hx : x < 256 ^ n) (hy : y < 256 ^ n) (h : le n x = le n y) : x = y := by
  induction n generalizing x y with
  | zero => simp at hx hy; omega
  | succ n ih =>
    simp only [le, List.cons.injEq] at h
    rw [Nat.pow_succ] at hx hy
    have := ih (x := x / 256) (y := y / 256) (by omega) (by omega) h.2
    omega

/-- a fixed-width field in front of anything: the field and the rest are determined -/
theorem le_append_inj {n x y : Nat} {r r' : Bytes} (hx : x < 256 ^ n) (hy : y < 256 ^ n)
    (h : le n x ++ r = le n y ++ r') : x = y ∧ r = r' := by
  have := List.append_inj h (by simp)
  exact ⟨le_injective hx hy this.1, this.2⟩

@[simp] theorem u32_length (x : Nat) : (u32 x).length = 4 := le_length 4 x
@[simp] theorem u64_length (x : Nat) : (u64 x).length = 8 := le_length 8 x

theorem u32_append_inj {x y : Nat} {r r' : Bytes} (hx : x < 2 ^ 32) (hy : y < 2 ^ 32)
    (h : u32 x ++ r = u32 y ++ r') : x = y ∧ r = r' :=
  le_append_inj (n := 4) (by omega) (by omega) h

theorem u64_append_inj {x y : Nat} {r r' : Bytes} (hx : x < 2 ^ 64) (hy : y < 2 ^ 64)
    (h : u64 x ++ r = u64 y ++ r') : x = y ∧ r = r' :=
  le_append_inj (n := 8) (by omega) (by omega) h


/-! ### multi-signatures -/

/-- what Go's types give for a part: the id is a `uint32`, the signature shorter than 4 GiB -/
def Part.WF (p : Part) : Prop := p.id < 2 ^ 32 ∧ p.sig.length < 2 ^ 32

instance (p : Part) : Decidable p.WF := by unfold Part.WF; infer_instance

def partBytes (p : Part) : Bytes := u32 p.id ++ u32 p.sig.length ++ p.sig

theorem multiBytes_nil : multiBytes [] = [] := rfl

theorem multiBytes_cons (p : Part) (ps : List Part) :
    multiBytes (p :: ps) = u32 p.id ++ (u32 p.sig.length ++ (p.sig ++ multiBytes ps)) := by
  simp [multiBytes, List.flatMap_cons]

theorem multiBytes_cons_length (p : Part) (ps : List Part) : 8 ≤ (multiBytes (p :: ps)).length := by
  simp [multiBytes_cons]; omega

/-- one part in front of anything -/
theorem part_append_inj {p p' : Part} {r r' : Bytes} (hp : p.WF) (hp' : p'.WF)
    (h : u32 p.id ++ (u32 p.sig.length ++ (p.sig ++ r)) = u32 p'.id ++ (u32 p'.sig.length ++ (p'.sig ++ r'))) :
    p = p' ∧ r = r' := by
  obtain ⟨hid, h⟩ := u32_append_inj hp.1 hp'.1 h
  obtain ⟨hlen, h⟩ := u32_append_inj hp.2 hp'.2 h
  obtain ⟨hsig, h⟩ := List.append_inj h hlen
  cases p; cases p'; simp_all

/-- a multi-signature is delimited by the NUMBER of its parts (which `qcBytes` writes in front): the
same number of parts in front of anything — the parts and the rest are determined -/
theorem multiBytes_append_inj {ps ps' : List Part} {r r' : Bytes}
    (hw : ∀ p ∈ ps, p.WF) (hw' : ∀ p ∈ ps', p.WF) (hl : ps.length = ps'.length)
    (h : multiBytes ps ++ r = multiBytes ps' ++ r') : ps = ps' ∧ r = r' := by
  induction ps generalizing ps' with
  | nil =>
    cases ps' with
    | nil => simpa [multiBytes_nil] using h
    | cons _ _ => simp at hl
  | cons p ps ih =>
    cases ps' with
    | nil => simp at hl
    | cons p' ps' =>
      simp only [multiBytes_cons, List.append_assoc] at h
      obtain ⟨hp, h⟩ := part_append_inj (hw p (by simp)) (hw' p' (by simp)) h
      obtain ⟨hps, h⟩ := ih (fun q hq => hw q (by simp [hq])) (fun q hq => hw' q (by simp [hq]))
        (by simpa using hl) h
      exact ⟨by rw [hp, hps], h⟩

/-- on its own (nothing behind it) a multi-signature needs no count: every part has at least 8 bytes -/
theorem multiBytes_injective {ps ps' : List Part} (hw : ∀ p ∈ ps, p.WF) (hw' : ∀ p ∈ ps', p.WF)
    (h : multiBytes ps = multiBytes ps') : ps = ps' := by
  induction ps generalizing ps' with
  | nil =>
    cases ps' with
    | nil => rfl
    | cons p' ps' => have := multiBytes_cons_length p' ps'; rw [← h] at this; simp [multiBytes_nil] at this
  | cons p ps ih =>
    cases ps' with
    | nil => have := multiBytes_cons_length p ps; rw [h] at this; simp [multiBytes_nil] at this
    | cons p' ps' =>
      simp only [multiBytes_cons] at h
      obtain ⟨hp, h⟩ := part_append_inj (hw p (by simp)) (hw' p' (by simp)) h
      rw [hp, ih (fun q hq => hw q (by simp [hq])) (fun q hq => hw' q (by simp [hq])) h]


/-! ### quorum certificates -/

/-- ids in front of anything, when the number of ids is known -/
theorem ids_append_inj {ids ids' : List Nat} {r r' : Bytes}
    (hw : ∀ i ∈ ids, i < 2 ^ 32) (hw' : ∀ i ∈ ids', i < 2 ^ 32) (hl : ids.length = ids'.length)
    (h : ids.flatMap u32 ++ r = ids'.flatMap u32 ++ r') : ids = ids' ∧ r = r' := by
  induction ids generalizing ids' with
  | nil =>
    cases ids' with
    | nil => simpa using h
    | cons _ _ => simp at hl
  | cons i ids ih =>
    cases ids' with
    | nil => simp at hl
    | cons i' ids' =>
      simp only [List.flatMap_cons, List.append_assoc] at h
      obtain ⟨hi, h⟩ := u32_append_inj (hw i (by simp)) (hw' i' (by simp)) h
      obtain ⟨hids, h⟩ := ih (fun q hq => hw q (by simp [hq])) (fun q hq => hw' q (by simp [hq]))
        (by simpa using hl) h
      exact ⟨by rw [hi, hids], h⟩

/-- the two signature schemes of the code: multi-signatures (ECDSA, EdDSA) and aggregates (BLS) -/
inductive Scheme | multi | agg
  deriving DecidableEq, Repr

def QSig.scheme : QSig → Scheme
  | .multi _ => .multi
  | .agg _ _ => .agg

/-- what Go's types give: ids are `uint32`s, there are fewer than `2^32` participants, every part is
shorter than 4 GiB.  Nothing is asked of the signature BYTES (arbitrary naturals). -/
def QSig.WF : QSig → Prop
  | .multi ps => ps.length < 2 ^ 32 ∧ ∀ p ∈ ps, p.WF
  | .agg ids _ => ids.length < 2 ^ 32 ∧ ∀ i ∈ ids, i < 2 ^ 32

instance (s : QSig) : Decidable s.WF := by cases s <;> (unfold QSig.WF; infer_instance)

/-- view is a `uint64`, the hash a `[32]byte` -/
def QCv.WF (q : QCv) : Prop :=
  q.view < 2 ^ 64 ∧ q.hash.length = 32 ∧ match q.sig with | none => True | some s => s.WF

instance (q : QCv) : Decidable q.WF := by
  unfold QCv.WF; cases q.sig <;> infer_instance

/-- the certificate is unsigned or signed in the scheme `sch` -/
def QCv.OfScheme (sch : Scheme) (q : QCv) : Prop :=
  match q.sig with | none => True | some s => s.scheme = sch

instance (sch : Scheme) (q : QCv) : Decidable (q.OfScheme sch) := by
  unfold QCv.OfScheme; cases q.sig <;> infer_instance

theorem QSig.participants_lt {s : QSig} (h : s.WF) : ∀ i ∈ s.participants, i < 2 ^ 32 := by
  cases s with
  | multi ps =>
    intro i hi
    simp only [QSig.participants, List.mem_map] at hi
    obtain ⟨p, hp, rfl⟩ := hi
    exact (h.2 p hp).1
  | agg ids b => exact h.2

theorem QSig.participants_length_lt {s : QSig} (h : s.WF) : s.participants.length < 2 ^ 32 := by
  cases s with
  | multi ps => simpa [QSig.participants] using h.1
  | agg ids b => exact h.1

/-- what follows view and hash in the bytes of a certificate -/
def sigTail : Option QSig → Bytes
  | none => []
  | some s => u32 s.participants.length ++ (s.participants.flatMap u32 ++ s.bytes)

theorem qcBytes_eq (q : QCv) : qcBytes q = u64 q.view ++ (q.hash ++ sigTail q.sig) := by
  unfold qcBytes sigTail; cases q.sig <;> simp

theorem qcBytes_length_ge {q : QCv} (h : q.hash.length = 32) : 40 ≤ (qcBytes q).length := by
  simp [qcBytes_eq, h]; omega

/-- the signature part, in front of anything, for signatures of one scheme: a multi-signature is
delimited by the count, an aggregate only by the end of the bytes (hence `r = r'` is a hypothesis
there — see `sigTail_injective`) -/
theorem sigTail_multi_append_inj {ps ps' : List Part} {r r' : Bytes}
    (hw : (QSig.multi ps).WF) (hw' : (QSig.multi ps').WF)
    (h : sigTail (some (.multi ps)) ++ r = sigTail (some (.multi ps')) ++ r') : ps = ps' ∧ r = r' := by
  simp only [sigTail, List.append_assoc] at h
  obtain ⟨hn, h⟩ := u32_append_inj (QSig.participants_length_lt hw) (QSig.participants_length_lt hw') h
  obtain ⟨_, h⟩ := ids_append_inj (QSig.participants_lt hw) (QSig.participants_lt hw') hn h
  simp only [QSig.participants, List.length_map] at hn
  exact multiBytes_append_inj hw.2 hw'.2 hn h

theorem sigTail_injective {s s' : Option QSig} {sch : Scheme}
    (hw : ∀ x, s = some x → x.WF) (hw' : ∀ x, s' = some x → x.WF)
    (hs : ∀ x, s = some x → x.scheme = sch) (hs' : ∀ x, s' = some x → x.scheme = sch)
    (h : sigTail s = sigTail s') : s = s' := by
  cases s with
  | none =>
    cases s' with
    | none => rfl
    | some x' => have := congrArg List.length h; simp [sigTail] at this; omega
  | some x =>
    cases s' with
    | none => have := congrArg List.length h; simp [sigTail] at this
    | some x' =>
      have wx := hw x rfl
      have wx' := hw' x' rfl
      have sx := hs x rfl
      have sx' := hs' x' rfl
      cases x with
      | multi ps =>
        cases x' with
        | multi ps' =>
          have h2 : sigTail (some (.multi ps)) ++ [] = sigTail (some (.multi ps')) ++ [] := by simpa using h
          rw [(sigTail_multi_append_inj wx wx' h2).1]
        | agg ids' b' => rw [← sx'] at sx; cases sx
      | agg ids b =>
        cases x' with
        | multi ps' => rw [← sx'] at sx; cases sx
        | agg ids' b' =>
          simp only [sigTail] at h
          obtain ⟨hn, h⟩ := u32_append_inj (QSig.participants_length_lt wx) (QSig.participants_length_lt wx') h
          obtain ⟨hids, h⟩ := ids_append_inj (QSig.participants_lt wx) (QSig.participants_lt wx') hn h
          simp only [QSig.participants, QSig.bytes] at hids h
          rw [hids, h]

/-- **the bytes of a certificate determine it**, among well-formed certificates of one scheme -/
theorem qcBytes_injective {q q' : QCv} {sch : Scheme} (hw : q.WF) (hw' : q'.WF)
    (hs : q.OfScheme sch) (hs' : q'.OfScheme sch) (h : qcBytes q = qcBytes q') : q = q' := by
  rw [qcBytes_eq, qcBytes_eq] at h
  obtain ⟨hv, h⟩ := u64_append_inj hw.1 hw'.1 h
  obtain ⟨hh, h⟩ := List.append_inj h (by rw [hw.2.1, hw'.2.1])
  have hsig : q.sig = q'.sig := by
    apply sigTail_injective (sch := sch) _ _ _ _ h
    · intro x hx; have := hw.2.2; rw [hx] at this; exact this
    · intro x hx; have := hw'.2.2; rw [hx] at this; exact this
    · intro x hx; have := hs; unfold QCv.OfScheme at this; rw [hx] at this; exact this
    · intro x hx; have := hs'; unfold QCv.OfScheme at this; rw [hx] at this; exact this
  cases q; cases q'; simp_all

/-- the form needed inside a block (the rest is the 8-byte timestamp): an aggregate runs to the end of
the certificate bytes, so the two rests must have the same length -/
theorem qcBytes_append_inj {q q' : QCv} {sch : Scheme} {r r' : Bytes} (hw : q.WF) (hw' : q'.WF)
    (hs : q.OfScheme sch) (hs' : q'.OfScheme sch) (hr : r.length = r'.length)
    (h : qcBytes q ++ r = qcBytes q' ++ r') : q = q' ∧ r = r' := by
  have hl : (qcBytes q).length = (qcBytes q').length := by
    have := congrArg List.length h
    simp only [List.length_append] at this; omega
  obtain ⟨h1, h2⟩ := List.append_inj h hl
  exact ⟨qcBytes_injective hw hw' hs hs' h1, h2⟩


/-! ### partial certificates and timeout messages -/

/-- the bytes of a partial certificate determine the hash and the BYTES of the signature … -/
theorem pcBytes_inj_bytes {h h' : Bytes} {s s' : QSig} (hh : h.length = 32) (hh' : h'.length = 32)
    (e : pcBytes h s = pcBytes h' s') : h = h' ∧ s.bytes = s'.bytes :=
  List.append_inj e (by rw [hh, hh'])

/-- … hence, for multi-signatures (whose bytes name the signers), the partial certificate -/
theorem pcBytes_injective {h h' : Bytes} {ps ps' : List Part} (hh : h.length = 32) (hh' : h'.length = 32)
    (hw : ∀ p ∈ ps, p.WF) (hw' : ∀ p ∈ ps', p.WF)
    (e : pcBytes h (.multi ps) = pcBytes h' (.multi ps')) : h = h' ∧ QSig.multi ps = QSig.multi ps' := by
  obtain ⟨e1, e2⟩ := pcBytes_inj_bytes hh hh' e
  exact ⟨e1, by rw [multiBytes_injective hw hw' e2]⟩

/-- for aggregates: the hash and the signature bytes, NOT the participants (see
`pc_agg_bytes_do_not_name_the_signer` in Props/C12Bytes.lean) -/
theorem pcBytes_injective_agg {h h' : Bytes} {ids ids' : List Nat} {b b' : Bytes}
    (hh : h.length = 32) (hh' : h'.length = 32)
    (e : pcBytes h (.agg ids b) = pcBytes h' (.agg ids' b')) : h = h' ∧ b = b' :=
  pcBytes_inj_bytes hh hh' e

def optQCBytes : Option QCv → Bytes
  | none => []
  | some q => qcBytes q

theorem tmoBytes_eq (id view : Nat) (qc : Option QCv) :
    tmoBytes id view qc = u32 id ++ (u64 view ++ optQCBytes qc) := by
  unfold tmoBytes optQCBytes; cases qc <;> simp

/-- an optional certificate at the end of the bytes: absent = no bytes, present = at least 40 bytes -/
theorem optQCBytes_injective {qc qc' : Option QCv} {sch : Scheme}
    (hw : ∀ q, qc = some q → q.WF) (hw' : ∀ q, qc' = some q → q.WF)
    (hs : ∀ q, qc = some q → q.OfScheme sch) (hs' : ∀ q, qc' = some q → q.OfScheme sch)
    (h : optQCBytes qc = optQCBytes qc') : qc = qc' := by
  cases qc with
  | none =>
    cases qc' with
    | none => rfl
    | some q' =>
      have := qcBytes_length_ge (hw' q' rfl).2.1
      simp only [optQCBytes] at h; rw [← h] at this; simp at this
  | some q =>
    cases qc' with
    | none =>
      have := qcBytes_length_ge (hw q rfl).2.1
      simp only [optQCBytes] at h; rw [h] at this; simp at this
    | some q' =>
      simp only [optQCBytes] at h
      rw [qcBytes_injective (hw q rfl) (hw' q' rfl) (hs q rfl) (hs' q' rfl) h]

/-- **the bytes of a timeout message determine sender, view and the reported certificate** -/
theorem tmoBytes_injective {id id' view view' : Nat} {qc qc' : Option QCv} {sch : Scheme}
    (hid : id < 2 ^ 32) (hid' : id' < 2 ^ 32) (hv : view < 2 ^ 64) (hv' : view' < 2 ^ 64)
    (hw : ∀ q, qc = some q → q.WF) (hw' : ∀ q, qc' = some q → q.WF)
    (hs : ∀ q, qc = some q → q.OfScheme sch) (hs' : ∀ q, qc' = some q → q.OfScheme sch)
    (h : tmoBytes id view qc = tmoBytes id' view' qc') : id = id' ∧ view = view' ∧ qc = qc' := by
  rw [tmoBytes_eq, tmoBytes_eq] at h
  obtain ⟨h1, h⟩ := u32_append_inj hid hid' h
  obtain ⟨h2, h⟩ := u64_append_inj hv hv' h
  exact ⟨h1, h2, optQCBytes_injective hw hw' hs hs' h⟩


/-! ### protobuf varints, commands, batches -/

theorem varintAux_length_le (f n : Nat) : (varintAux f n).length ≤ f + 1 := by
  induction f generalizing n with
  | zero => simp [varintAux]
  | succ f ih =>
    unfold varintAux
    split
    · simp
    · have := ih (n / 128); simp; omega

theorem varintAux_length_pos (f n : Nat) : 1 ≤ (varintAux f n).length := by
  cases f with
  | zero => simp [varintAux]
  | succ f => unfold varintAux; split <;> simp

/-- with fuel `f` the varint is exact, and prefix-free, below `128^(f+1)` -/
theorem varintAux_append_inj {f a b : Nat} {r r' : Bytes} (ha : a < 128 ^ (f + 1)) (hb : b < 128 ^ (f + 1))
    (h : varintAux f a ++ r = varintAux f b ++ r') : a = b ∧ r = r' := by
  induction f generalizing a b with
  | zero =>
    simp only [varintAux, List.cons_append, List.nil_append, List.cons.injEq] at h
    simp at ha hb
    exact ⟨by omega, h.2⟩
  | succ f ih =>
    rw [Nat.pow_succ] at ha hb
    unfold varintAux at h
    split at h <;> split at h <;>
      simp only [List.cons_append, List.nil_append, List.cons.injEq] at h
    · exact ⟨h.1, h.2⟩
    · omega
    · omega
    · obtain ⟨h1, h2⟩ := h
      obtain ⟨h3, h4⟩ := ih (a := a / 128) (b := b / 128) (by omega) (by omega) h2
      exact ⟨by omega, h4⟩

/-- `varint` (fuel 9, ten groups) is injective and prefix-free on `n < 128^10 = 2^70` — every `uint64`
and every length is far below -/
theorem varint_append_inj {a b : Nat} {r r' : Bytes} (ha : a < 2 ^ 70) (hb : b < 2 ^ 70)
    (h : varint a ++ r = varint b ++ r') : a = b ∧ r = r' :=
  varintAux_append_inj (f := 9) (by omega) (by omega) h

theorem varint_injective {a b : Nat} (ha : a < 2 ^ 70) (hb : b < 2 ^ 70) (h : varint a = varint b) : a = b :=
  (varint_append_inj (r := []) (r' := []) ha hb (by simpa using h)).1

theorem varint_length_le (n : Nat) : (varint n).length ≤ 10 := varintAux_length_le 9 n


/-- `ClientID` is a `uint32`, `SequenceNumber` a `uint64`, `Data` shorter than 4 GiB.  Nothing is asked
of the data BYTES: `Data` is the last field and is never parsed. -/
def Cmd.WF (c : Cmd) : Prop := c.client < 2 ^ 32 ∧ c.seq < 2 ^ 64 ∧ c.data.length < 2 ^ 32

instance (c : Cmd) : Decidable c.WF := by unfold Cmd.WF; infer_instance

def fClient (c : Cmd) : Bytes := if c.client = 0 then [] else 0x08 :: varint c.client
def fSeq (c : Cmd) : Bytes := if c.seq = 0 then [] else 0x10 :: varint c.seq
def fData (c : Cmd) : Bytes := if c.data = [] then [] else 0x1a :: (varint c.data.length ++ c.data)

theorem cmdBytes_eq (c : Cmd) : cmdBytes c = fClient c ++ (fSeq c ++ fData c) := by
  simp [cmdBytes, fClient, fSeq, fData]

theorem fData_head (c : Cmd) : fData c = [] ∨ ∃ t, fData c = 0x1a :: t := by
  unfold fData; split
  · exact .inl rfl
  · exact .inr ⟨_, rfl⟩

theorem fSeq_fData_head (c : Cmd) :
    fSeq c ++ fData c = [] ∨ (∃ t, fSeq c ++ fData c = 0x10 :: t) ∨ ∃ t, fSeq c ++ fData c = 0x1a :: t := by
  unfold fSeq; split
  · rcases fData_head c with h | ⟨t, h⟩
    · exact .inl (by simp [h])
    · exact .inr (.inr ⟨t, by simp [h]⟩)
  · exact .inr (.inl ⟨_, rfl⟩)

theorem fData_injective {c c' : Cmd} (hw : c.WF) (hw' : c'.WF) (h : fData c = fData c') : c.data = c'.data := by
  unfold fData at h
  split at h <;> split at h
  · simp_all
  · simp at h
  · simp at h
  · simp only [List.cons.injEq, true_and] at h
    exact (varint_append_inj (by have := hw.2.2; omega) (by have := hw'.2.2; omega) h).2

theorem fSeq_append_inj {c c' : Cmd} (hw : c.WF) (hw' : c'.WF)
    (h : fSeq c ++ fData c = fSeq c' ++ fData c') : c.seq = c'.seq ∧ fData c = fData c' := by
  by_cases h0 : c.seq = 0 <;> by_cases h0' : c'.seq = 0
  · simp only [fSeq, h0, h0', if_true, List.nil_append] at h
    exact ⟨by omega, h⟩
  · simp only [fSeq, h0, h0', if_true, if_false, List.nil_append, List.cons_append] at h
    rcases fData_head c with e | ⟨t, e⟩ <;> rw [e] at h <;> simp at h
  · simp only [fSeq, h0, h0', if_true, if_false, List.nil_append, List.cons_append] at h
    rcases fData_head c' with e | ⟨t, e⟩ <;> rw [e] at h <;> simp at h
  · simp only [fSeq, h0, h0', if_false, List.cons_append, List.cons.injEq, true_and] at h
    exact varint_append_inj (by have := hw.2.1; omega) (by have := hw'.2.1; omega) h

theorem fClient_append_inj {c c' : Cmd} (hw : c.WF) (hw' : c'.WF)
    (h : fClient c ++ (fSeq c ++ fData c) = fClient c' ++ (fSeq c' ++ fData c')) :
    c.client = c'.client ∧ fSeq c ++ fData c = fSeq c' ++ fData c' := by
  by_cases h0 : c.client = 0 <;> by_cases h0' : c'.client = 0
  · simp only [fClient, h0, h0', if_true, List.nil_append] at h
    exact ⟨by omega, h⟩
  · simp only [fClient, h0, h0', if_true, if_false, List.nil_append, List.cons_append] at h
    rcases fSeq_fData_head c with e | ⟨t, e⟩ | ⟨t, e⟩ <;> rw [e] at h <;> simp at h
  · simp only [fClient, h0, h0', if_true, if_false, List.nil_append, List.cons_append] at h
    rcases fSeq_fData_head c' with e | ⟨t, e⟩ | ⟨t, e⟩ <;> rw [e] at h <;> simp at h
  · simp only [fClient, h0, h0', if_false, List.cons_append, List.cons.injEq, true_and] at h
    exact varint_append_inj (by have := hw.1; omega) (by have := hw'.1; omega) h

/-- **the proto3 bytes of a command determine it** (tags 0x08, 0x10, 0x1a in this order, each optional;
the tags are compared only where the parser stands: the data bytes are never looked at) -/
theorem cmdBytes_injective {c c' : Cmd} (hw : c.WF) (hw' : c'.WF) (h : cmdBytes c = cmdBytes c') : c = c' := by
  rw [cmdBytes_eq, cmdBytes_eq] at h
  obtain ⟨h1, h⟩ := fClient_append_inj hw hw' h
  obtain ⟨h2, h⟩ := fSeq_append_inj hw hw' h
  have h3 := fData_injective hw hw' h
  cases c; cases c'; simp_all

theorem cmdBytes_length_lt {c : Cmd} (hw : c.WF) : (cmdBytes c).length < 2 ^ 70 := by
  have h1 := varint_length_le c.client
  have h2 := varint_length_le c.seq
  have h3 := varint_length_le c.data.length
  have := hw.2.2
  have e1 : (fClient c).length ≤ 11 := by unfold fClient; split <;> simp; omega
  have e2 : (fSeq c).length ≤ 11 := by unfold fSeq; split <;> simp; omega
  have e3 : (fData c).length ≤ 11 + c.data.length := by unfold fData; split <;> simp; omega
  rw [cmdBytes_eq]; simp only [List.length_append]; omega

theorem batchBytes_nil : batchBytes [] = [] := rfl

theorem batchBytes_cons (c : Cmd) (cs : List Cmd) :
    batchBytes (c :: cs) = 0x0a :: (varint (cmdBytes c).length ++ (cmdBytes c ++ batchBytes cs)) := by
  simp [batchBytes, List.flatMap_cons]

/-- **the bytes of a batch determine the commands** (every entry: 0x0a, varint length, bytes) -/
theorem batchBytes_injective {cs cs' : List Cmd} (hw : ∀ c ∈ cs, c.WF) (hw' : ∀ c ∈ cs', c.WF)
    (h : batchBytes cs = batchBytes cs') : cs = cs' := by
  induction cs generalizing cs' with
  | nil =>
    cases cs' with
    | nil => rfl
    | cons c' cs' => simp [batchBytes_nil, batchBytes_cons] at h
  | cons c cs ih =>
    cases cs' with
    | nil => simp [batchBytes_nil, batchBytes_cons] at h
    | cons c' cs' =>
      simp only [batchBytes_cons, List.cons.injEq, true_and] at h
      have wc := hw c (by simp)
      have wc' := hw' c' (by simp)
      obtain ⟨hl, h⟩ := varint_append_inj (cmdBytes_length_lt wc) (cmdBytes_length_lt wc') h
      obtain ⟨hc, h⟩ := List.append_inj h hl
      rw [cmdBytes_injective wc wc' hc,
        ih (fun q hq => hw q (by simp [hq])) (fun q hq => hw' q (by simp [hq])) h]


/-! ### blocks -/

/-- parent is a `[32]byte`, proposer a `uint32`, view and timestamp `uint64`s, the batch shorter than
`2^64` bytes (its length is written as a `uint64`), commands and certificate well formed -/
def Blk.WF (b : Blk) : Prop :=
  b.parent.length = 32 ∧ b.proposer < 2 ^ 32 ∧ b.view < 2 ^ 64 ∧ (batchBytes b.cmds).length < 2 ^ 64 ∧
    (∀ c ∈ b.cmds, c.WF) ∧ b.qc.WF ∧ b.ts < 2 ^ 64

instance (b : Blk) : Decidable b.WF := by unfold Blk.WF; infer_instance

theorem blockBytes_eq (b : Blk) :
    blockBytes b = b.parent ++ (u32 b.proposer ++ (u64 b.view ++ (u64 (batchBytes b.cmds).length ++
      (batchBytes b.cmds ++ (qcBytes b.qc ++ u64 b.ts))))) := by
  simp [blockBytes]

/-- **the bytes of a block (what is hashed) determine the block**, among well-formed blocks whose
certificates are of one scheme -/
theorem blockBytes_injective {b b' : Blk} {sch : Scheme} (hw : b.WF) (hw' : b'.WF)
    (hs : b.qc.OfScheme sch) (hs' : b'.qc.OfScheme sch) (h : blockBytes b = blockBytes b') : b = b' := by
  obtain ⟨w1, w2, w3, w4, w5, w6, w7⟩ := hw
  obtain ⟨w1', w2', w3', w4', w5', w6', w7'⟩ := hw'
  rw [blockBytes_eq, blockBytes_eq] at h
  obtain ⟨e1, h⟩ := List.append_inj h (by rw [w1, w1'])
  obtain ⟨e2, h⟩ := u32_append_inj w2 w2' h
  obtain ⟨e3, h⟩ := u64_append_inj w3 w3' h
  obtain ⟨e4, h⟩ := u64_append_inj w4 w4' h
  obtain ⟨e5, h⟩ := List.append_inj h e4
  have e5' := batchBytes_injective w5 w5' e5
  obtain ⟨e6, h⟩ := qcBytes_append_inj w6 w6' hs hs' (by simp) h
  have e7 := le_injective (n := 8) (by omega) (by omega) h
  cases b; cases b'; simp_all


/-! ### lengths: the three kinds of signed bytes (a view: 8 bytes; a timeout message; a block) -/

theorem tmoBytes_length_ge (id view : Nat) (qc : Option QCv) : 12 ≤ (tmoBytes id view qc).length := by
  simp [tmoBytes_eq]; omega

theorem blockBytes_length_ge {b : Blk} (hw : b.WF) : 100 ≤ (blockBytes b).length := by
  have := qcBytes_length_ge hw.2.2.2.2.2.1.2.1
  simp [blockBytes_eq, hw.1]; omega

end HsVerif.Model.Bytes
