import HsVerif.Proofs.ReplicaView
import HsVerif.Proofs.ReplicaLive
import HsVerif.Proofs.SysSignal
/-! Task S15 (`EnterViewAfter`): THE HIGH CERTIFICATES ARE BELOW THE VIEW.

Frames `_ht` (GENERATED from the `_ap` frames of Proofs/ReplicaViewFrames.lean by substitution): everything below
`advanceView` leaves the high TC alone.  With the `_ap` frames (view, high QC): everything below `advanceView`
keeps `CB s : s.highQC.view < s.view ∧ s.highTC.view < s.view`.

`advanceView` (plain timeout rule, `c.agg = false`): the certified view that `verifySyncInfo` reports is at least the
view of the QC and of the TC of the sync info (`verifySyncInfo_bound`); the high certificates are refreshed from
these; then either the certified view is below the current view — nothing else changes — or the replica enters the
certified view + 1.  Either way `CB` is kept (`advanceView_cb`).  With the OLD `advanceView` (`view + 1`) this was
false: a replica that lagged behind adopted certificates of later views and moved on by one view.

Under the aggregate timeout rule a plain QC refreshes the high QC without moving the view (`fix:` 4f3d40f), so
`highQC.view < view` is not an invariant there; `highTC.view < view` is (not proved separately here). -/
open Std.Do
set_option mvcgen.warning false
set_option linter.unusedSimpArgs false
set_option linter.unusedVariables false
namespace HsVerif.Model
open HsVerif.Proofs

/-- the high TC -/
@[reducible] def HT (s : RState) : TC := s.highTC

section HTFrames
theorem emit_ht (o : Out) (x) :
    ⦃fun s => ⌜HT s = x⌝⦄ emit o ⦃⇓ _ s => ⌜HT s = x⌝⦄ := by
  mvcgen [emit] <;> simp_all +zetaDelta [GRec.isAdv]
attribute [local spec] emit_ht

theorem addEvent_ht (e : Ev) (x) :
    ⦃fun s => ⌜HT s = x⌝⦄ addEvent e ⦃⇓ _ s => ⌜HT s = x⌝⦄ := by
  mvcgen [addEvent] <;> simp_all +zetaDelta [GRec.isAdv]
attribute [local spec] addEvent_ht

theorem getBlock_ht (h : Hash) (x) :
    ⦃fun s => ⌜HT s = x⌝⦄ getBlock h ⦃⇓ _ s => ⌜HT s = x⌝⦄ := by
  mvcgen [getBlock] <;> simp_all +zetaDelta [GRec.isAdv]
attribute [local spec] getBlock_ht

theorem fetchFor_ht (h : Hash) (x) :
    ⦃fun s => ⌜HT s = x⌝⦄ fetchFor h ⦃⇓ _ s => ⌜HT s = x⌝⦄ := by
  mvcgen [fetchFor] <;> simp_all +zetaDelta [GRec.isAdv]
attribute [local spec] fetchFor_ht

theorem signMsg_ht (c : RCfg) (m : Msg) (x) :
    ⦃fun s => ⌜HT s = x⌝⦄ signMsg c m ⦃⇓ _ s => ⌜HT s = x⌝⦄ := by
  mvcgen [signMsg] <;> simp_all +zetaDelta [GRec.isAdv]
attribute [local spec] signMsg_ht

theorem verifyQCM_ht (k : Keys) (c : RCfg) (q : QC) (x) :
    ⦃fun s => ⌜HT s = x⌝⦄ verifyQCM k c q ⦃⇓ _ s => ⌜HT s = x⌝⦄ := by
  mvcgen [verifyQCM] <;> simp_all +zetaDelta [GRec.isAdv]
attribute [local spec] verifyQCM_ht

theorem verifyTCM_ht (k : Keys) (c : RCfg) (t : TC) (x) :
    ⦃fun s => ⌜HT s = x⌝⦄ verifyTCM k c t ⦃⇓ _ s => ⌜HT s = x⌝⦄ := by
  mvcgen [verifyTCM] <;> simp_all +zetaDelta [GRec.isAdv]
attribute [local spec] verifyTCM_ht

theorem qcRef_ht (q : QC) (x) :
    ⦃fun s => ⌜HT s = x⌝⦄ qcRef q ⦃⇓ _ s => ⌜HT s = x⌝⦄ := by
  mvcgen [qcRef] <;> simp_all +zetaDelta [GRec.isAdv]
attribute [local spec] qcRef_ht

theorem extendsM_ht (b t : Block) (x) :
    ⦃fun s => ⌜HT s = x⌝⦄ extendsM b t ⦃⇓ _ s => ⌜HT s = x⌝⦄ := by
  mvcgen [extendsM] <;> simp_all +zetaDelta [GRec.isAdv]
attribute [local spec] extendsM_ht

theorem voteRule_ht (c : RCfg) (v : Nat) (b : Block) (agg : Option AggQC) (x) :
    ⦃fun s => ⌜HT s = x⌝⦄ voteRule c v b agg ⦃⇓ _ s => ⌜HT s = x⌝⦄ := by
  mvcgen [voteRule] <;> simp_all +zetaDelta [GRec.isAdv]
attribute [local spec] voteRule_ht

theorem commitRule_ht (c : RCfg) (b : Block) (x) :
    ⦃fun s => ⌜HT s = x⌝⦄ commitRule c b ⦃⇓ _ s => ⌜HT s = x⌝⦄ := by
  mvcgen [commitRule] <;> simp_all +zetaDelta [GRec.isAdv]
attribute [local spec] commitRule_ht

theorem commitInner_ht (fuel : Nat) (b : Block) (x) :
    ⦃fun s => ⌜HT s = x⌝⦄ commitInner fuel b ⦃⇓ _ s => ⌜HT s = x⌝⦄ := by
  induction fuel generalizing b with
  | zero => mvcgen [commitInner] <;> simp_all +zetaDelta [GRec.isAdv]
  | succ n ih => mvcgen [commitInner, ih] <;> simp_all +zetaDelta [GRec.isAdv]
attribute [local spec] commitInner_ht

theorem tryCommit_ht (c : RCfg) (b : Block) (x) :
    ⦃fun s => ⌜HT s = x⌝⦄ tryCommit c b ⦃⇓ _ s => ⌜HT s = x⌝⦄ := by
  mvcgen [tryCommit]
  case inv1 => exact ⇓ _ s => ⌜HT s = x⌝
  all_goals simp_all +zetaDelta [GRec.isAdv]
attribute [local spec] tryCommit_ht

theorem votesCleanup_ht  (x) :
    ⦃fun s => ⌜HT s = x⌝⦄ votesCleanup ⦃⇓ _ s => ⌜HT s = x⌝⦄ := by
  mvcgen [votesCleanup] <;> simp_all +zetaDelta [GRec.isAdv]
attribute [local spec] votesCleanup_ht

theorem collectVote_ht (k : Keys) (c : RCfg) (id : Nat) (sig : Option Sig) (h : Hash) (d : Bool) (x) :
    ⦃fun s => ⌜HT s = x⌝⦄ collectVote k c id sig h d ⦃⇓ _ s => ⌜HT s = x⌝⦄ := by
  mvcgen [collectVote] <;> simp_all +zetaDelta [GRec.isAdv]
attribute [local spec] collectVote_ht

theorem aggregateVote_ht (k : Keys) (c : RCfg) (b : Block) (sg : Sig) (x) :
    ⦃fun s => ⌜HT s = x⌝⦄ aggregateVote k c b sg ⦃⇓ _ s => ⌜HT s = x⌝⦄ := by
  mvcgen [aggregateVote] <;> simp_all +zetaDelta [GRec.isAdv]
attribute [local spec] aggregateVote_ht

theorem markProposed_ht (fuel : Nat) (b : Block) (x) :
    ⦃fun s => ⌜HT s = x⌝⦄ markProposed fuel b ⦃⇓ _ s => ⌜HT s = x⌝⦄ := by
  induction fuel generalizing b with
  | zero => mvcgen [markProposed] <;> simp_all +zetaDelta [GRec.isAdv]
  | succ n ih => mvcgen [markProposed, ih] <;> simp_all +zetaDelta [GRec.isAdv]
attribute [local spec] markProposed_ht

theorem verifyAggM_go_ht (k : Keys) (c : RCfg) (l : List QC) (x) :
    ⦃fun s => ⌜HT s = x⌝⦄ verifyAggM.go k c l ⦃⇓ _ s => ⌜HT s = x⌝⦄ := by
  induction l with
  | nil => mvcgen [verifyAggM.go] <;> simp_all +zetaDelta [GRec.isAdv]
  | cons q rest ih => mvcgen [verifyAggM.go, ih] <;> simp_all +zetaDelta [GRec.isAdv]
attribute [local spec] verifyAggM_go_ht

theorem verifyAggM_ht (k : Keys) (c : RCfg) (a : AggQC) (x) :
    ⦃fun s => ⌜HT s = x⌝⦄ verifyAggM k c a ⦃⇓ _ s => ⌜HT s = x⌝⦄ := by
  mvcgen [verifyAggM] <;> simp_all +zetaDelta [GRec.isAdv]
attribute [local spec] verifyAggM_ht

theorem verifyAnyM_ht (k : Keys) (c : RCfg) (q : QC) (agg : Option AggQC) (x) :
    ⦃fun s => ⌜HT s = x⌝⦄ verifyAnyM k c q agg ⦃⇓ _ s => ⌜HT s = x⌝⦄ := by
  mvcgen [verifyAnyM] <;> simp_all +zetaDelta [GRec.isAdv]
attribute [local spec] verifyAnyM_ht

theorem voterVerify_ht (k : Keys) (c : RCfg) (id : Nat) (b : Block) (agg : Option AggQC) (x) :
    ⦃fun s => ⌜HT s = x⌝⦄ voterVerify k c id b agg ⦃⇓ _ s => ⌜HT s = x⌝⦄ := by
  mvcgen [voterVerify] <;> simp_all +zetaDelta [GRec.isAdv]
attribute [local spec] voterVerify_ht

theorem voteFor_ht (c : RCfg) (b : Block) (id : Nat) (x) :
    ⦃fun s => ⌜HT s = x⌝⦄ voteFor c b id ⦃⇓ _ s => ⌜HT s = x⌝⦄ := by
  mvcgen [voteFor]
  all_goals simp_all +zetaDelta [HT]
attribute [local spec] voteFor_ht

theorem onValidPropose_ht (k : Keys) (c : RCfg) (id : Nat) (b : Block) (x) :
    ⦃fun s => ⌜HT s = x⌝⦄ onValidPropose k c id b ⦃⇓ _ s => ⌜HT s = x⌝⦄ := by
  mvcgen [onValidPropose] <;> simp_all +zetaDelta [GRec.isAdv]
attribute [local spec] onValidPropose_ht

theorem createAndPropose_ht (k : Keys) (c : RCfg) (si : SyncInfo) (x) :
    ⦃fun s => ⌜HT s = x⌝⦄ createAndPropose k c si ⦃⇓ _ s => ⌜HT s = x⌝⦄ := by
  mvcgen [createAndPropose] <;> simp_all +zetaDelta [GRec.isAdv]
attribute [local spec] createAndPropose_ht

theorem verifySyncInfo_ht (k : Keys) (c : RCfg) (si : SyncInfo) (x) :
    ⦃fun s => ⌜HT s = x⌝⦄ verifySyncInfo k c si ⦃⇓ _ s => ⌜HT s = x⌝⦄ := by
  mvcgen [verifySyncInfo] <;> simp_all +zetaDelta [GRec.isAdv]
attribute [local spec] verifySyncInfo_ht

end HTFrames

/-- **the high certificates are below the view** -/
def CB (s : RState) : Prop := s.highQC.view < s.view ∧ s.highTC.view < s.view

theorem cb_init : CB {} := by simp [CB, genesisQC]

theorem cb_congr (s s' : RState) (h : CB s) (hv : s'.view = s.view) (hq : s'.highQC = s.highQC) (ht : s'.highTC = s.highTC) :
    CB s' := by
  unfold CB at *; rw [hv, hq, ht]; exact h

/-- a computation that leaves view, high QC and high TC alone keeps `CB` — and any state-independent fact `R` of its result -/
theorem cb_frameR {α} (f : M α) (R : α → Prop)
    (hap : ∀ x, ⦃fun s => ⌜AP s = x⌝⦄ f ⦃⇓ r s => ⌜AP s = x ∧ R r⌝⦄)
    (hht : ∀ x, ⦃fun s => ⌜HT s = x⌝⦄ f ⦃⇓ _ s => ⌜HT s = x⌝⦄) :
    ⦃fun s => ⌜CB s⌝⦄ f ⦃⇓ r s => ⌜CB s ∧ R r⌝⦄ := by
  apply triple_of_run
  intro s hs
  have h1 := run_res_of_triple f (fun s' => AP s' = AP s) (fun r s' => AP s' = AP s ∧ R r) (hap (AP s)) s rfl
  have h2 := run_res_of_triple f (fun s' => HT s' = HT s) (fun _ s' => HT s' = HT s) (hht (HT s)) s rfl
  obtain ⟨h1, h3⟩ := h1
  simp only [AP, Prod.mk.injEq] at h1
  exact ⟨cb_congr s _ hs h1.2.1 h1.2.2 h2, h3⟩

theorem cb_frame {α} (f : M α)
    (hap : ∀ x, ⦃fun s => ⌜AP s = x⌝⦄ f ⦃⇓ _ s => ⌜AP s = x⌝⦄)
    (hht : ∀ x, ⦃fun s => ⌜HT s = x⌝⦄ f ⦃⇓ _ s => ⌜HT s = x⌝⦄) :
    ⦃fun s => ⌜CB s⌝⦄ f ⦃⇓ _ s => ⌜CB s⌝⦄ := by
  apply triple_of_run
  intro s hs
  have h1 := run_res_of_triple f (fun s' => AP s' = AP s) (fun _ s' => AP s' = AP s) (hap (AP s)) s rfl
  have h2 := run_res_of_triple f (fun s' => HT s' = HT s) (fun _ s' => HT s' = HT s) (hht (HT s)) s rfl
  simp only [AP, Prod.mk.injEq] at h1
  exact cb_congr s _ hs h1.2.1 h1.2.2 h2

/-- what `verifySyncInfo` reports (plain timeout rule): the certified view is at least the view of the sync info's
TC and of the QC it hands back -/
def SIBound (si : SyncInfo) (r : VRes (Option QC × Nat × Bool)) : Prop :=
  ∀ qc view t, r = .ok (qc, view, t) →
    (∀ tc, si.tc = some tc → tc.view ≤ view) ∧ (∀ q, qc = some q → q.view ≤ view)

theorem verifySyncInfo_bound (k : Keys) (c : RCfg) (si : SyncInfo) (hagg : c.agg = false) (x) :
    ⦃fun s => ⌜AP s = x⌝⦄ verifySyncInfo k c si ⦃⇓ r s => ⌜AP s = x ∧ SIBound si r⌝⦄ := by
  mvcgen [verifySyncInfo, verifyTCM_ap, verifyQCM_ap, verifyAggM_ap]
  all_goals simp_all +zetaDelta [SIBound]
  all_goals (try omega)

/-- view, high QC, high TC -/
@[reducible] def VQT (s : RState) : Nat × QC × TC := (s.view, s.highQC, s.highTC)

theorem vqt_frameR {α} (f : M α) (R : α → Prop)
    (hap : ∀ x, ⦃fun s => ⌜AP s = x⌝⦄ f ⦃⇓ r s => ⌜AP s = x ∧ R r⌝⦄)
    (hht : ∀ x, ⦃fun s => ⌜HT s = x⌝⦄ f ⦃⇓ _ s => ⌜HT s = x⌝⦄) (x) :
    ⦃fun s => ⌜VQT s = x⌝⦄ f ⦃⇓ r s => ⌜VQT s = x ∧ R r⌝⦄ := by
  apply triple_of_run
  intro s hs
  have h1 := run_res_of_triple f (fun s' => AP s' = AP s) (fun r s' => AP s' = AP s ∧ R r) (hap (AP s)) s rfl
  have h2 := run_res_of_triple f (fun s' => HT s' = HT s) (fun _ s' => HT s' = HT s) (hht (HT s)) s rfl
  obtain ⟨h1, h3⟩ := h1
  simp only [AP, Prod.mk.injEq] at h1
  refine ⟨?_, h3⟩
  rw [← hs]; simp only [VQT, h1.2.1, h1.2.2, show _ = s.highTC from h2]

theorem vqt_frame {α} (f : M α)
    (hap : ∀ x, ⦃fun s => ⌜AP s = x⌝⦄ f ⦃⇓ _ s => ⌜AP s = x⌝⦄)
    (hht : ∀ x, ⦃fun s => ⌜HT s = x⌝⦄ f ⦃⇓ _ s => ⌜HT s = x⌝⦄) (x) :
    ⦃fun s => ⌜VQT s = x⌝⦄ f ⦃⇓ _ s => ⌜VQT s = x⌝⦄ := by
  apply triple_of_run
  intro s hs
  have h1 := run_res_of_triple f (fun s' => AP s' = AP s) (fun _ s' => AP s' = AP s) (hap (AP s)) s rfl
  have h2 := run_res_of_triple f (fun s' => HT s' = HT s) (fun _ s' => HT s' = HT s) (hht (HT s)) s rfl
  simp only [AP, Prod.mk.injEq] at h1
  rw [← hs]; simp only [VQT, h1.2.1, h1.2.2, show _ = s.highTC from h2]

section CBChain
variable (k : Keys) (c : RCfg)

theorem emit_cb (o : Out) : ⦃fun s => ⌜CB s⌝⦄ emit o ⦃⇓ _ s => ⌜CB s⌝⦄ := cb_frame _ (emit_ap o) (emit_ht o)
theorem addEvent_cb (e : Ev) : ⦃fun s => ⌜CB s⌝⦄ addEvent e ⦃⇓ _ s => ⌜CB s⌝⦄ := cb_frame _ (addEvent_ap e) (addEvent_ht e)
theorem getBlock_cb (h : Hash) : ⦃fun s => ⌜CB s⌝⦄ getBlock h ⦃⇓ _ s => ⌜CB s⌝⦄ := cb_frame _ (getBlock_ap h) (getBlock_ht h)
theorem signMsg_cb (m : Msg) : ⦃fun s => ⌜CB s⌝⦄ signMsg c m ⦃⇓ _ s => ⌜CB s⌝⦄ := cb_frame _ (signMsg_ap c m) (signMsg_ht c m)
theorem collectVote_cb (id : Nat) (sig : Option Sig) (h : Hash) (d : Bool) :
    ⦃fun s => ⌜CB s⌝⦄ collectVote k c id sig h d ⦃⇓ _ s => ⌜CB s⌝⦄ := cb_frame _ (collectVote_ap k c id sig h d) (collectVote_ht k c id sig h d)
theorem voterVerify_cb (id : Nat) (b : Block) (agg : Option AggQC) :
    ⦃fun s => ⌜CB s⌝⦄ voterVerify k c id b agg ⦃⇓ _ s => ⌜CB s⌝⦄ := cb_frame _ (voterVerify_ap k c id b agg) (voterVerify_ht k c id b agg)
theorem onValidPropose_cb (id : Nat) (b : Block) :
    ⦃fun s => ⌜CB s⌝⦄ onValidPropose k c id b ⦃⇓ _ s => ⌜CB s⌝⦄ := cb_frame _ (onValidPropose_ap k c id b) (onValidPropose_ht k c id b)
theorem createAndPropose_cb (si : SyncInfo) :
    ⦃fun s => ⌜CB s⌝⦄ createAndPropose k c si ⦃⇓ _ s => ⌜CB s⌝⦄ := cb_frame _ (createAndPropose_ap k c si) (createAndPropose_ht k c si)

/-- `advanceView` from a state with view `x.1`, high QC `x.2.1`, high TC `x.2.2` (the intermediate states — high
certificates refreshed, view not yet moved — need not satisfy `CB`) -/
theorem advanceView_vqt (hagg : c.agg = false) (si : SyncInfo) (x : Nat × QC × TC) :
    ⦃fun s => ⌜VQT s = x⌝⦄ advanceView k c si ⦃⇓ _ s => ⌜x.2.1.view < x.1 ∧ x.2.2.view < x.1 → CB s⌝⦄ := by
  have h1 := fun si => vqt_frameR _ _ (verifySyncInfo_bound k c si hagg) (verifySyncInfo_ht k c si)
  have h2 := fun h => vqt_frame _ (getBlock_ap h) (getBlock_ht h)
  have h3 := fun si => vqt_frame _ (createAndPropose_ap k c si) (createAndPropose_ht k c si)
  obtain ⟨v, q, t⟩ := x
  mvcgen [advanceView, emit, addEvent, h1, h2, h3]
  all_goals simp_all +zetaDelta [CB, SIBound, VQT]
  all_goals (try intros)
  all_goals (first | omega | (split <;> omega) | (refine ⟨?_, ?_⟩ <;> first | omega | (split <;> omega)))

/-- **`advanceView` keeps the high certificates below the view** (plain timeout rule) -/
theorem advanceView_cb (hagg : c.agg = false) (si : SyncInfo) :
    ⦃fun s => ⌜CB s⌝⦄ advanceView k c si ⦃⇓ _ s => ⌜CB s⌝⦄ := by
  apply triple_of_run
  intro s hs
  exact run_res_of_triple (advanceView k c si) _ _ (advanceView_vqt k c hagg si (VQT s)) s rfl hs

theorem onRemoteTimeout_cb (hagg : c.agg = false) (t : TimeoutMsg) :
    ⦃fun s => ⌜CB s⌝⦄ onRemoteTimeout k c t ⦃⇓ _ s => ⌜CB s⌝⦄ := by
  have h1 := advanceView_cb k c hagg
  mvcgen [onRemoteTimeout, h1]
  all_goals simp_all +zetaDelta [CB]

theorem onLocalTimeout_cb (hagg : c.agg = false) :
    ⦃fun s => ⌜CB s⌝⦄ onLocalTimeout k c ⦃⇓ _ s => ⌜CB s⌝⦄ := by
  have h1 := onRemoteTimeout_cb k c hagg
  have h2 := emit_cb
  have h3 := signMsg_cb c
  mvcgen [onLocalTimeout, h1, h2, h3]
  all_goals simp_all +zetaDelta [CB]

theorem onPropose_cb (hagg : c.agg = false) (id : Nat) (b : Block) (agg : Option AggQC) :
    ⦃fun s => ⌜CB s⌝⦄ onPropose k c id b agg ⦃⇓ _ s => ⌜CB s⌝⦄ := by
  have h1 := advanceView_cb k c hagg
  have h2 := voterVerify_cb k c id b agg
  have h3 := onValidPropose_cb k c id b
  have h4 := emit_cb
  mvcgen [onPropose, h1, h2, h3, h4]
  all_goals simp_all +zetaDelta [CB]

theorem tick_cb (hagg : c.agg = false) :
    ⦃fun s => ⌜CB s⌝⦄ tick k c ⦃⇓ _ s => ⌜CB s⌝⦄ := by
  have h1 := onPropose_cb k c hagg
  have h2 := onRemoteTimeout_cb k c hagg
  have h3 := onLocalTimeout_cb k c hagg
  have h4 := advanceView_cb k c hagg
  have h5 := collectVote_cb k c
  have h6 := emit_cb
  mvcgen [tick, h1, h2, h3, h4, h5, h6]
  all_goals simp_all +zetaDelta [CB]

theorem runLoop_cb (hagg : c.agg = false) (fuel : Nat) :
    ⦃fun s => ⌜CB s⌝⦄ runLoop k c fuel ⦃⇓ _ s => ⌜CB s⌝⦄ := by
  induction fuel with
  | zero => mvcgen [runLoop]
  | succ n ih =>
    have h1 := tick_cb k c hagg
    mvcgen [runLoop, h1, ih]

end CBChain

/-- one delivered event -/
theorem step_cb (k : Keys) (c : RCfg) (hagg : c.agg = false) (s : RState) (e : Ev) (h : CB s) : CB (step k c s e).1 := by
  unfold step
  have h0 : CB { s with out := [], queue := s.queue ++ [e] } := h
  exact run_res_of_triple (runLoop k c 100000) _ _ (runLoop_cb k c hagg 100000) _ h0

/-- `Start` -/
theorem start_cb (k : Keys) (c : RCfg) (hagg : c.agg = false) (s : RState) (h : CB s) : CB (start k c s).1 := by
  unfold start
  have h0 : CB { s with out := [] } := h
  have h1 := createAndPropose_cb k c
  have h2 := runLoop_cb k c hagg
  have spec : ⦃fun s => ⌜CB s⌝⦄ (do
      let s ← get
      if s.view == 1 && c.leader 1 == c.id then
        createAndPropose k c { qc := some s.highQC, tc := some s.highTC }
      runLoop k c 100000 : M Unit) ⦃⇓ _ s => ⌜CB s⌝⦄ := by
    mvcgen [h1, h2]
  exact run_res_of_triple _ _ _ spec _ h0


/-- along every run of one replica from the initial state -/
theorem runEvents_cb (k : Keys) (c : RCfg) (hagg : c.agg = false) (es : List Ev) (s : RState) (h : CB s) :
    CB (HsVerif.Props.C03.runEvents k c s es) := by
  induction es generalizing s with
  | nil => exact h
  | cons e es ih => exact ih _ (step_cb k c hagg s e h)

open HsVerif.Props.C01Sys HsVerif.SysLedger HsVerif.SysSignal in
/-- **in every reachable state of the system of replica models** whose replicas use the plain timeout rule — any rule
set, any scheme, any number of Byzantine replicas, whatever the adversary delivers -/
theorem reach_cb (k : Keys) (C : SysCfg) (hagg : ∀ i, (C.rcfg i).agg = false) (σ : SysState) (hr : Reach k C σ) :
    ∀ i s, σ.reps.lookup i = some s → CB s := by
  induction hr with
  | init =>
    intro i s h
    simp only [sysInit, lookup_init] at h
    split at h
    · cases h; exact cb_init
    · cases h
  | step σ a _ ih =>
    intro i s' hs'
    obtain ⟨s, hs, _⟩ := sysStep_rep_view k C σ a i s' hs'
    exact sysStep_rep_rel k C σ a (fun _ s s' => CB s → CB s') (fun _ _ h => h)
      (fun i s t nb h => start_cb k _ (hagg i) { s with truth := t, nextBytes := nb } h)
      (fun i s t nb e h => step_cb k _ (hagg i) { s with truth := t, nextBytes := nb } e h)
      (fun _ _ _ h => h) i s s' hs hs' (ih i s hs)

end HsVerif.Model
