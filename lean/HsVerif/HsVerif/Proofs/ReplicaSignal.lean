import HsVerif.Proofs.ReplicaLog
/-!
The remaining clauses of C07 (task S7), replica level — no system facts.

A. THE HIGH TC'S VIEW NEVER DECREASES.  `highTC` is written in one place (`advanceView`:
   `if tc.view > s.highTC.view then tc else s.highTC`); the frames `_tcv` (`x ≤ s.highTC.view` is kept;
   GENERATED from the `_lk` frames of Proofs/ReplicaLock.lean by substitution) carry that through every
   handler up to `runLoop`; `step_hightc`, `start_hightc`.  No side condition.

B. VIEW CHANGES ARE SIGNALLED, EACH EXACTLY ONCE, IN ORDER (since `EnterViewAfter`: one signal per ENTERED
   view — a view change may jump over views, the intermediate views are neither entered nor signalled).
   * `vcOuts outs` / `evVCs es`: the views `v` of the outputs `Out.viewChange v _` / of the events
     `Ev.viewChange v _`; `vcOut s`, `vcQueued s`, `vcWaiting s` (deferred lists `waitingVC ++ waitingProp`),
     `vcPending s = vcOut s ++ vcQueued s`: what the synchronizer has decided to signal and the caller of
     `step` has not seen yet.  `tick` moves the queue head to `out` (FIFO), which keeps `vcPending`; the
     handlers only ever defer `.propose` / `.vote` events, so `vcWaiting` stays `[]` — the hypothesis is
     needed because `tick` re-queues the deferred lists.
   * frames `_vd`: everything but `advanceView` and `tick` leaves `VD s = (vcOut s, vcQueued s,
     vcWaiting s, s.view)` alone (GENERATED from the `_ap` frames of Proofs/ReplicaViewFrames.lean by
     substitution; `emit` / `addEvent` are unfolded at their concrete arguments).
   * `SR s0 s`: the one-step invariant carried through `advanceView` … `tick`, `runLoop` (the chain `_sr`,
     same shape as the `_lr` chain of Proofs/ReplicaLog.lean): relative to the state `s0` the step started
     in, `vcWaiting s = []` and, for some list `l` that climbs strictly from `s0.view` to `s.view`
     (`Climb`), `vcPending s = vcPending s0 ++ l` and `entered s = entered s0 ++ l` (`entered`: certified
     view + 1 of every advancement record of the ghost history) (`sr_adv`: the view assignment with its
     ghost record and the `addEvent (.viewChange newView _)` right after it extend all three by
     `newView = certified view + 1 > s.view`).
   * `step_signal`, `start_signal` (`VCStep`): one step from ANY state with `vcWaiting s = []`, ANY event —
     an injected `Ev.viewChange v _` is carried in the equation (`evVCs [e]`).
   * runs with the signalled views accumulated: `stepV`, `startV`, `runV`; the run-level invariant
     `VCInv V s` (`V ++ vcQueued s = entered s`, climbing from view 1 to `s.view`, nothing deferred) and its preservation by steps that
     deliver events other than `Ev.viewChange` (`Ev.noVC`): `stepV_sig`, `startV_sig`, `runV_sig`.
-/
open Std.Do
set_option mvcgen.warning false
set_option linter.unusedSimpArgs false
set_option linter.unusedVariables false
namespace HsVerif.Model
open HsVerif.Proofs

/-! ## A. the high TC -/

section TCFrames
theorem emit_tcv (o : Out) (x : Nat) :
    ⦃fun s => ⌜x ≤ s.highTC.view⌝⦄ emit o ⦃⇓ _ s => ⌜x ≤ s.highTC.view⌝⦄ := by
  mvcgen [emit]  <;> lock_finish
attribute [local spec] emit_tcv

theorem addEvent_tcv (e : Ev) (x : Nat) :
    ⦃fun s => ⌜x ≤ s.highTC.view⌝⦄ addEvent e ⦃⇓ _ s => ⌜x ≤ s.highTC.view⌝⦄ := by
  mvcgen [addEvent]  <;> lock_finish
attribute [local spec] addEvent_tcv

theorem getBlock_tcv (h : Hash) (x : Nat) :
    ⦃fun s => ⌜x ≤ s.highTC.view⌝⦄ getBlock h ⦃⇓ _ s => ⌜x ≤ s.highTC.view⌝⦄ := by
  mvcgen [getBlock]  <;> lock_finish
attribute [local spec] getBlock_tcv

theorem fetchFor_tcv (h : Hash) (x : Nat) :
    ⦃fun s => ⌜x ≤ s.highTC.view⌝⦄ fetchFor h ⦃⇓ _ s => ⌜x ≤ s.highTC.view⌝⦄ := by
  mvcgen [fetchFor]  <;> lock_finish
attribute [local spec] fetchFor_tcv

theorem signMsg_tcv (c : RCfg) (m : Msg) (x : Nat) :
    ⦃fun s => ⌜x ≤ s.highTC.view⌝⦄ signMsg c m ⦃⇓ _ s => ⌜x ≤ s.highTC.view⌝⦄ := by
  mvcgen [signMsg]  <;> lock_finish
attribute [local spec] signMsg_tcv

theorem verifyQCM_tcv (k : Keys) (c : RCfg) (q : QC) (x : Nat) :
    ⦃fun s => ⌜x ≤ s.highTC.view⌝⦄ verifyQCM k c q ⦃⇓ _ s => ⌜x ≤ s.highTC.view⌝⦄ := by
  mvcgen [verifyQCM]  <;> lock_finish
attribute [local spec] verifyQCM_tcv

theorem verifyTCM_tcv (k : Keys) (c : RCfg) (t : TC) (x : Nat) :
    ⦃fun s => ⌜x ≤ s.highTC.view⌝⦄ verifyTCM k c t ⦃⇓ _ s => ⌜x ≤ s.highTC.view⌝⦄ := by
  mvcgen [verifyTCM]  <;> lock_finish
attribute [local spec] verifyTCM_tcv

theorem qcRef_tcv (q : QC) (x : Nat) :
    ⦃fun s => ⌜x ≤ s.highTC.view⌝⦄ qcRef q ⦃⇓ _ s => ⌜x ≤ s.highTC.view⌝⦄ := by
  mvcgen [qcRef]  <;> lock_finish
attribute [local spec] qcRef_tcv

theorem extendsM_tcv (b t : Block) (x : Nat) :
    ⦃fun s => ⌜x ≤ s.highTC.view⌝⦄ extendsM b t ⦃⇓ _ s => ⌜x ≤ s.highTC.view⌝⦄ := by
  mvcgen [extendsM]  <;> lock_finish
attribute [local spec] extendsM_tcv

theorem voteRule_tcv (c : RCfg) (v : Nat) (b : Block) (agg : Option AggQC) (x : Nat) :
    ⦃fun s => ⌜x ≤ s.highTC.view⌝⦄ voteRule c v b agg ⦃⇓ _ s => ⌜x ≤ s.highTC.view⌝⦄ := by
  mvcgen [voteRule]  <;> lock_finish
attribute [local spec] voteRule_tcv

theorem commitRule_tcv (c : RCfg) (b : Block) (x : Nat) :
    ⦃fun s => ⌜x ≤ s.highTC.view⌝⦄ commitRule c b ⦃⇓ _ s => ⌜x ≤ s.highTC.view⌝⦄ := by
  mvcgen [commitRule]
  all_goals (try intros)
  all_goals (try simp +zetaDelta at *)
  all_goals (first | done | omega | (rename_i h; split at h <;> omega) | skip)
attribute [local spec] commitRule_tcv

theorem commitInner_tcv (fuel : Nat) (b : Block) (x : Nat) :
    ⦃fun s => ⌜x ≤ s.highTC.view⌝⦄ commitInner fuel b ⦃⇓ _ s => ⌜x ≤ s.highTC.view⌝⦄ := by
  induction fuel generalizing b with
  | zero => mvcgen [commitInner]  <;> lock_finish
  | succ n ih => mvcgen [commitInner, ih]  <;> lock_finish
attribute [local spec] commitInner_tcv

theorem tryCommit_tcv (c : RCfg) (b : Block) (x : Nat) :
    ⦃fun s => ⌜x ≤ s.highTC.view⌝⦄ tryCommit c b ⦃⇓ _ s => ⌜x ≤ s.highTC.view⌝⦄ := by
  mvcgen [tryCommit]
  case inv1 => exact ⇓ _ s => ⌜x ≤ s.highTC.view⌝
  all_goals lock_finish
attribute [local spec] tryCommit_tcv

theorem votesCleanup_tcv  (x : Nat) :
    ⦃fun s => ⌜x ≤ s.highTC.view⌝⦄ votesCleanup ⦃⇓ _ s => ⌜x ≤ s.highTC.view⌝⦄ := by
  mvcgen [votesCleanup]  <;> lock_finish
attribute [local spec] votesCleanup_tcv

theorem collectVote_tcv (k : Keys) (c : RCfg) (id : Nat) (sig : Option Sig) (h : Hash) (d : Bool) (x : Nat) :
    ⦃fun s => ⌜x ≤ s.highTC.view⌝⦄ collectVote k c id sig h d ⦃⇓ _ s => ⌜x ≤ s.highTC.view⌝⦄ := by
  mvcgen [collectVote]  <;> lock_finish
attribute [local spec] collectVote_tcv

theorem aggregateVote_tcv (k : Keys) (c : RCfg) (b : Block) (sg : Sig) (x : Nat) :
    ⦃fun s => ⌜x ≤ s.highTC.view⌝⦄ aggregateVote k c b sg ⦃⇓ _ s => ⌜x ≤ s.highTC.view⌝⦄ := by
  mvcgen [aggregateVote]  <;> lock_finish
attribute [local spec] aggregateVote_tcv

theorem markProposed_tcv (fuel : Nat) (b : Block) (x : Nat) :
    ⦃fun s => ⌜x ≤ s.highTC.view⌝⦄ markProposed fuel b ⦃⇓ _ s => ⌜x ≤ s.highTC.view⌝⦄ := by
  induction fuel generalizing b with
  | zero => mvcgen [markProposed]  <;> lock_finish
  | succ n ih => mvcgen [markProposed, ih]  <;> lock_finish
attribute [local spec] markProposed_tcv

theorem verifyAggM_go_tcv (k : Keys) (c : RCfg) (l : List QC) (x : Nat) :
    ⦃fun s => ⌜x ≤ s.highTC.view⌝⦄ verifyAggM.go k c l ⦃⇓ _ s => ⌜x ≤ s.highTC.view⌝⦄ := by
  induction l with
  | nil => mvcgen [verifyAggM.go]  <;> lock_finish
  | cons q rest ih => mvcgen [verifyAggM.go, ih]  <;> lock_finish
attribute [local spec] verifyAggM_go_tcv

theorem verifyAggM_tcv (k : Keys) (c : RCfg) (a : AggQC) (x : Nat) :
    ⦃fun s => ⌜x ≤ s.highTC.view⌝⦄ verifyAggM k c a ⦃⇓ _ s => ⌜x ≤ s.highTC.view⌝⦄ := by
  mvcgen [verifyAggM]  <;> lock_finish
attribute [local spec] verifyAggM_tcv

theorem verifyAnyM_tcv (k : Keys) (c : RCfg) (q : QC) (agg : Option AggQC) (x : Nat) :
    ⦃fun s => ⌜x ≤ s.highTC.view⌝⦄ verifyAnyM k c q agg ⦃⇓ _ s => ⌜x ≤ s.highTC.view⌝⦄ := by
  mvcgen [verifyAnyM]  <;> lock_finish
attribute [local spec] verifyAnyM_tcv

theorem voterVerify_tcv (k : Keys) (c : RCfg) (id : Nat) (b : Block) (agg : Option AggQC) (x : Nat) :
    ⦃fun s => ⌜x ≤ s.highTC.view⌝⦄ voterVerify k c id b agg ⦃⇓ _ s => ⌜x ≤ s.highTC.view⌝⦄ := by
  mvcgen [voterVerify]  <;> lock_finish
attribute [local spec] voterVerify_tcv

theorem voteFor_tcv (c : RCfg) (b : Block) (id : Nat) (x : Nat) :
    ⦃fun s => ⌜x ≤ s.highTC.view⌝⦄ voteFor c b id ⦃⇓ _ s => ⌜x ≤ s.highTC.view⌝⦄ := by
  mvcgen [voteFor] <;> lock_finish
attribute [local spec] voteFor_tcv

theorem onValidPropose_tcv (k : Keys) (c : RCfg) (id : Nat) (b : Block) (x : Nat) :
    ⦃fun s => ⌜x ≤ s.highTC.view⌝⦄ onValidPropose k c id b ⦃⇓ _ s => ⌜x ≤ s.highTC.view⌝⦄ := by
  mvcgen [onValidPropose]  <;> lock_finish
attribute [local spec] onValidPropose_tcv

theorem createAndPropose_tcv (k : Keys) (c : RCfg) (si : SyncInfo) (x : Nat) :
    ⦃fun s => ⌜x ≤ s.highTC.view⌝⦄ createAndPropose k c si ⦃⇓ _ s => ⌜x ≤ s.highTC.view⌝⦄ := by
  mvcgen [createAndPropose]  <;> lock_finish
attribute [local spec] createAndPropose_tcv

theorem verifySyncInfo_tcv (k : Keys) (c : RCfg) (si : SyncInfo) (x : Nat) :
    ⦃fun s => ⌜x ≤ s.highTC.view⌝⦄ verifySyncInfo k c si ⦃⇓ _ s => ⌜x ≤ s.highTC.view⌝⦄ := by
  mvcgen [verifySyncInfo]  <;> lock_finish
attribute [local spec] verifySyncInfo_tcv


theorem advanceView_tcv (k : Keys) (c : RCfg) (si : SyncInfo) (x : Nat) :
    ⦃fun s => ⌜x ≤ s.highTC.view⌝⦄ advanceView k c si ⦃⇓ _ s => ⌜x ≤ s.highTC.view⌝⦄ := by
  mvcgen [advanceView] <;> lock_finish
  all_goals grind

theorem onRemoteTimeout_tcv (k : Keys) (c : RCfg) (t : TimeoutMsg) (x : Nat) :
    ⦃fun s => ⌜x ≤ s.highTC.view⌝⦄ onRemoteTimeout k c t ⦃⇓ _ s => ⌜x ≤ s.highTC.view⌝⦄ := by
  mvcgen [onRemoteTimeout, advanceView_tcv] <;> lock_finish

theorem onLocalTimeout_tcv (k : Keys) (c : RCfg) (x : Nat) :
    ⦃fun s => ⌜x ≤ s.highTC.view⌝⦄ onLocalTimeout k c ⦃⇓ _ s => ⌜x ≤ s.highTC.view⌝⦄ := by
  mvcgen [onLocalTimeout, onRemoteTimeout_tcv] <;> lock_finish

theorem onPropose_tcv (k : Keys) (c : RCfg) (id : Nat) (b : Block) (agg : Option AggQC) (x : Nat) :
    ⦃fun s => ⌜x ≤ s.highTC.view⌝⦄ onPropose k c id b agg ⦃⇓ _ s => ⌜x ≤ s.highTC.view⌝⦄ := by
  mvcgen [onPropose, advanceView_tcv] <;> lock_finish

theorem tick_tcv (k : Keys) (c : RCfg) (x : Nat) :
    ⦃fun s => ⌜x ≤ s.highTC.view⌝⦄ tick k c ⦃⇓ _ s => ⌜x ≤ s.highTC.view⌝⦄ := by
  mvcgen [tick, onPropose_tcv, onRemoteTimeout_tcv, onLocalTimeout_tcv, advanceView_tcv] <;> lock_finish

theorem runLoop_tcv (k : Keys) (c : RCfg) (fuel : Nat) (x : Nat) :
    ⦃fun s => ⌜x ≤ s.highTC.view⌝⦄ runLoop k c fuel ⦃⇓ _ s => ⌜x ≤ s.highTC.view⌝⦄ := by
  induction fuel with
  | zero => mvcgen [runLoop] <;> lock_finish
  | succ n ih => mvcgen [runLoop, tick_tcv, ih] <;> lock_finish

end TCFrames

/-- **The view of the high TC never decreases** in one delivered event, from ANY state -/
theorem step_hightc (k : Keys) (c : RCfg) (s : RState) (e : Ev) :
    s.highTC.view ≤ (step k c s e).1.highTC.view := by
  unfold step
  have := run_res_of_triple (runLoop k c 100000) (fun s' => s.highTC.view ≤ s'.highTC.view)
    (fun _ s' => s.highTC.view ≤ s'.highTC.view) (runLoop_tcv k c 100000 s.highTC.view)
    { s with out := [], queue := s.queue ++ [e] } (Nat.le_refl _)
  simp only [StateT.run, Id.run] at this ⊢
  exact this

/-- … and in `Start` -/
theorem start_hightc (k : Keys) (c : RCfg) (s : RState) :
    s.highTC.view ≤ (start k c s).1.highTC.view := by
  unfold start
  have h1 := fun si => createAndPropose_tcv k c si s.highTC.view
  have h2 := fun fuel => runLoop_tcv k c fuel s.highTC.view
  have spec : ⦃fun s' => ⌜s.highTC.view ≤ s'.highTC.view⌝⦄ (do
      let s ← get
      if s.view == 1 && c.leader 1 == c.id then
        createAndPropose k c { qc := some s.highQC, tc := some s.highTC }
      runLoop k c 100000 : M Unit) ⦃⇓ _ s' => ⌜s.highTC.view ≤ s'.highTC.view⌝⦄ := by
    mvcgen [h1, h2]
  exact run_res_of_triple _ _ _ spec { s with out := [] } (Nat.le_refl _)

/-! ## B. signalling of view changes -/

/-- the view of a view-change output -/
def Out.vcOf : Out → Option Nat
  | .viewChange v _ => some v
  | _ => none

/-- the view of a queued view-change event -/
def Ev.vcOf : Ev → Option Nat
  | .viewChange v _ => some v
  | _ => none

def vcOuts (outs : List Out) : List Nat := outs.filterMap Out.vcOf
def evVCs (es : List Ev) : List Nat := es.filterMap Ev.vcOf

def vcOut (s : RState) : List Nat := vcOuts s.out
def vcQueued (s : RState) : List Nat := evVCs s.queue
def vcWaiting (s : RState) : List Nat := evVCs (s.waitingVC ++ s.waitingProp)
def vcPending (s : RState) : List Nat := vcOut s ++ vcQueued s

@[simp] theorem vcOuts_nil : vcOuts [] = [] := rfl
@[simp] theorem vcOuts_append (a b : List Out) : vcOuts (a ++ b) = vcOuts a ++ vcOuts b := by
  simp [vcOuts, List.filterMap_append]
@[simp] theorem evVCs_nil : evVCs [] = [] := rfl
@[simp] theorem evVCs_append (a b : List Ev) : evVCs (a ++ b) = evVCs a ++ evVCs b := by
  simp [evVCs, List.filterMap_append]
@[simp] theorem vcOuts_cons (o : Out) (l : List Out) :
    vcOuts (o :: l) = (match o.vcOf with | some v => [v] | none => []) ++ vcOuts l := by
  simp only [vcOuts, List.filterMap_cons]; cases o.vcOf <;> rfl
@[simp] theorem evVCs_cons (e : Ev) (l : List Ev) :
    evVCs (e :: l) = (match e.vcOf with | some v => [v] | none => []) ++ evVCs l := by
  simp only [evVCs, List.filterMap_cons]; cases e.vcOf <;> rfl

@[reducible] def VD (s : RState) : List Nat × List Nat × List Nat × Nat := (vcOut s, vcQueued s, vcWaiting s, s.view)

macro "vd_finish" : tactic => `(tactic| (
  (try simp_all +zetaDelta [VD, vcOut, vcQueued, vcWaiting, Out.vcOf, Ev.vcOf])))

section VDFrames
theorem getBlock_vd (h : Hash) (x) :
    ⦃fun s => ⌜VD s = x⌝⦄ getBlock h ⦃⇓ _ s => ⌜VD s = x⌝⦄ := by
  mvcgen [getBlock, emit, addEvent] <;> vd_finish
attribute [local spec] getBlock_vd

theorem fetchFor_vd (h : Hash) (x) :
    ⦃fun s => ⌜VD s = x⌝⦄ fetchFor h ⦃⇓ _ s => ⌜VD s = x⌝⦄ := by
  mvcgen [fetchFor, emit, addEvent] <;> vd_finish
attribute [local spec] fetchFor_vd

theorem signMsg_vd (c : RCfg) (m : Msg) (x) :
    ⦃fun s => ⌜VD s = x⌝⦄ signMsg c m ⦃⇓ _ s => ⌜VD s = x⌝⦄ := by
  mvcgen [signMsg, emit, addEvent] <;> vd_finish
attribute [local spec] signMsg_vd

theorem verifyQCM_vd (k : Keys) (c : RCfg) (q : QC) (x) :
    ⦃fun s => ⌜VD s = x⌝⦄ verifyQCM k c q ⦃⇓ _ s => ⌜VD s = x⌝⦄ := by
  mvcgen [verifyQCM, emit, addEvent] <;> vd_finish
attribute [local spec] verifyQCM_vd

theorem verifyTCM_vd (k : Keys) (c : RCfg) (t : TC) (x) :
    ⦃fun s => ⌜VD s = x⌝⦄ verifyTCM k c t ⦃⇓ _ s => ⌜VD s = x⌝⦄ := by
  mvcgen [verifyTCM, emit, addEvent] <;> vd_finish
attribute [local spec] verifyTCM_vd

theorem qcRef_vd (q : QC) (x) :
    ⦃fun s => ⌜VD s = x⌝⦄ qcRef q ⦃⇓ _ s => ⌜VD s = x⌝⦄ := by
  mvcgen [qcRef, emit, addEvent] <;> vd_finish
attribute [local spec] qcRef_vd

theorem extendsM_vd (b t : Block) (x) :
    ⦃fun s => ⌜VD s = x⌝⦄ extendsM b t ⦃⇓ _ s => ⌜VD s = x⌝⦄ := by
  mvcgen [extendsM, emit, addEvent] <;> vd_finish
attribute [local spec] extendsM_vd

theorem voteRule_vd (c : RCfg) (v : Nat) (b : Block) (agg : Option AggQC) (x) :
    ⦃fun s => ⌜VD s = x⌝⦄ voteRule c v b agg ⦃⇓ _ s => ⌜VD s = x⌝⦄ := by
  mvcgen [voteRule, emit, addEvent] <;> vd_finish
attribute [local spec] voteRule_vd

theorem commitRule_vd (c : RCfg) (b : Block) (x) :
    ⦃fun s => ⌜VD s = x⌝⦄ commitRule c b ⦃⇓ _ s => ⌜VD s = x⌝⦄ := by
  mvcgen [commitRule, emit, addEvent] <;> vd_finish
attribute [local spec] commitRule_vd

theorem commitInner_vd (fuel : Nat) (b : Block) (x) :
    ⦃fun s => ⌜VD s = x⌝⦄ commitInner fuel b ⦃⇓ _ s => ⌜VD s = x⌝⦄ := by
  induction fuel generalizing b with
  | zero => mvcgen [commitInner, emit, addEvent] <;> vd_finish
  | succ n ih => mvcgen [commitInner, ih, emit, addEvent] <;> vd_finish
attribute [local spec] commitInner_vd

theorem tryCommit_vd (c : RCfg) (b : Block) (x) :
    ⦃fun s => ⌜VD s = x⌝⦄ tryCommit c b ⦃⇓ _ s => ⌜VD s = x⌝⦄ := by
  mvcgen [tryCommit, emit, addEvent]
  case inv1 => exact ⇓ _ s => ⌜VD s = x⌝
  all_goals vd_finish
attribute [local spec] tryCommit_vd

theorem votesCleanup_vd  (x) :
    ⦃fun s => ⌜VD s = x⌝⦄ votesCleanup ⦃⇓ _ s => ⌜VD s = x⌝⦄ := by
  mvcgen [votesCleanup, emit, addEvent] <;> vd_finish
attribute [local spec] votesCleanup_vd

theorem collectVote_vd (k : Keys) (c : RCfg) (id : Nat) (sig : Option Sig) (h : Hash) (d : Bool) (x) :
    ⦃fun s => ⌜VD s = x⌝⦄ collectVote k c id sig h d ⦃⇓ _ s => ⌜VD s = x⌝⦄ := by
  mvcgen [collectVote, emit, addEvent] <;> vd_finish
attribute [local spec] collectVote_vd

theorem aggregateVote_vd (k : Keys) (c : RCfg) (b : Block) (sg : Sig) (x) :
    ⦃fun s => ⌜VD s = x⌝⦄ aggregateVote k c b sg ⦃⇓ _ s => ⌜VD s = x⌝⦄ := by
  mvcgen [aggregateVote, emit, addEvent] <;> vd_finish
attribute [local spec] aggregateVote_vd

theorem markProposed_vd (fuel : Nat) (b : Block) (x) :
    ⦃fun s => ⌜VD s = x⌝⦄ markProposed fuel b ⦃⇓ _ s => ⌜VD s = x⌝⦄ := by
  induction fuel generalizing b with
  | zero => mvcgen [markProposed, emit, addEvent] <;> vd_finish
  | succ n ih => mvcgen [markProposed, ih, emit, addEvent] <;> vd_finish
attribute [local spec] markProposed_vd

theorem verifyAggM_go_vd (k : Keys) (c : RCfg) (l : List QC) (x) :
    ⦃fun s => ⌜VD s = x⌝⦄ verifyAggM.go k c l ⦃⇓ _ s => ⌜VD s = x⌝⦄ := by
  induction l with
  | nil => mvcgen [verifyAggM.go, emit, addEvent] <;> vd_finish
  | cons q rest ih => mvcgen [verifyAggM.go, ih, emit, addEvent] <;> vd_finish
attribute [local spec] verifyAggM_go_vd

theorem verifyAggM_vd (k : Keys) (c : RCfg) (a : AggQC) (x) :
    ⦃fun s => ⌜VD s = x⌝⦄ verifyAggM k c a ⦃⇓ _ s => ⌜VD s = x⌝⦄ := by
  mvcgen [verifyAggM, emit, addEvent] <;> vd_finish
attribute [local spec] verifyAggM_vd

theorem verifyAnyM_vd (k : Keys) (c : RCfg) (q : QC) (agg : Option AggQC) (x) :
    ⦃fun s => ⌜VD s = x⌝⦄ verifyAnyM k c q agg ⦃⇓ _ s => ⌜VD s = x⌝⦄ := by
  mvcgen [verifyAnyM, emit, addEvent] <;> vd_finish
attribute [local spec] verifyAnyM_vd

theorem voterVerify_vd (k : Keys) (c : RCfg) (id : Nat) (b : Block) (agg : Option AggQC) (x) :
    ⦃fun s => ⌜VD s = x⌝⦄ voterVerify k c id b agg ⦃⇓ _ s => ⌜VD s = x⌝⦄ := by
  mvcgen [voterVerify, emit, addEvent] <;> vd_finish
attribute [local spec] voterVerify_vd

theorem voteFor_vd (c : RCfg) (b : Block) (id : Nat) (x) :
    ⦃fun s => ⌜VD s = x⌝⦄ voteFor c b id ⦃⇓ _ s => ⌜VD s = x⌝⦄ := by
  mvcgen [voteFor, emit, addEvent] <;> vd_finish
attribute [local spec] voteFor_vd

theorem onValidPropose_vd (k : Keys) (c : RCfg) (id : Nat) (b : Block) (x) :
    ⦃fun s => ⌜VD s = x⌝⦄ onValidPropose k c id b ⦃⇓ _ s => ⌜VD s = x⌝⦄ := by
  mvcgen [onValidPropose, emit, addEvent] <;> vd_finish
attribute [local spec] onValidPropose_vd

theorem createAndPropose_vd (k : Keys) (c : RCfg) (si : SyncInfo) (x) :
    ⦃fun s => ⌜VD s = x⌝⦄ createAndPropose k c si ⦃⇓ _ s => ⌜VD s = x⌝⦄ := by
  mvcgen [createAndPropose, emit, addEvent] <;> vd_finish
attribute [local spec] createAndPropose_vd

theorem verifySyncInfo_vd (k : Keys) (c : RCfg) (si : SyncInfo) (x) :
    ⦃fun s => ⌜VD s = x⌝⦄ verifySyncInfo k c si ⦃⇓ _ s => ⌜VD s = x⌝⦄ := by
  mvcgen [verifySyncInfo, emit, addEvent] <;> vd_finish
attribute [local spec] verifySyncInfo_vd

end VDFrames

/-! ### the one-step signalling invariant -/

/-- `Climb a l b`: the list `l` climbs strictly from `a` to `b` — every element is above its predecessor
(`a` for the first) and the last one is `b` (`a = b` when `l` is empty).  The views entered by a replica
that starts in view `a` and ends in view `b`: since `EnterViewAfter` a view change may jump over
intermediate views, so the list is not `a + 1, …, b` but some strictly increasing selection ending in `b`. -/
def Climb (a : Nat) : List Nat → Nat → Prop
  | [], b => a = b
  | x :: l, b => a < x ∧ Climb x l b

theorem Climb.refl (a : Nat) : Climb a [] a := rfl

theorem Climb.append {a b c : Nat} {l l' : List Nat} (h : Climb a l b) (h' : Climb b l' c) : Climb a (l ++ l') c := by
  induction l generalizing a with
  | nil => cases h; exact h'
  | cons x l ih => exact ⟨h.1, ih h.2⟩

theorem Climb.snoc {a b x : Nat} {l : List Nat} (h : Climb a l b) (hx : b < x) : Climb a (l ++ [x]) x :=
  h.append ⟨hx, rfl⟩

theorem Climb.le {a b : Nat} {l : List Nat} (h : Climb a l b) : a ≤ b := by
  induction l generalizing a with
  | nil => cases h; exact Nat.le_refl _
  | cons x l ih => exact Nat.le_trans (Nat.le_of_lt h.1) (ih h.2)

/-- every element is above the start and at most the end -/
theorem Climb.mem {a b : Nat} {l : List Nat} (h : Climb a l b) : ∀ x ∈ l, a < x ∧ x ≤ b := by
  induction l generalizing a with
  | nil => intro x hx; cases hx
  | cons y l ih =>
    intro x hx
    rcases List.mem_cons.mp hx with rfl | hx
    · exact ⟨h.1, h.2.le⟩
    · exact ⟨Nat.lt_trans h.1 (ih h.2 x hx).1, (ih h.2 x hx).2⟩

/-- strictly increasing -/
theorem Climb.pairwise {a b : Nat} {l : List Nat} (h : Climb a l b) : l.Pairwise (· < ·) := by
  induction l generalizing a with
  | nil => exact List.Pairwise.nil
  | cons y l ih => exact List.Pairwise.cons (fun x hx => (h.2.mem x hx).1) (ih h.2)

/-- empty iff the end is the start -/
theorem Climb.nil_iff {a b : Nat} {l : List Nat} (h : Climb a l b) : l = [] ↔ a = b := by
  cases l with
  | nil => exact ⟨fun _ => h, fun _ => rfl⟩
  | cons y l => exact ⟨fun e => (by cases e), fun e => (by have h1 := h.1; have h2 := h.2.le; omega)⟩

/-- the last element is the end -/
theorem Climb.getLast? {a b : Nat} {l : List Nat} (h : Climb a l b) : l.getLast?.getD a = b := by
  induction l generalizing a with
  | nil => exact h
  | cons y l ih =>
    have := ih h.2
    rw [List.getLast?_cons]
    cases hl : l.getLast? with
    | none => simpa [hl] using this
    | some z => simpa [hl] using this

/-- if the end is above the start, it is the last element -/
theorem Climb.end_mem {a b : Nat} {l : List Nat} (h : Climb a l b) (hab : a < b) : b ∈ l := by
  induction l generalizing a with
  | nil => cases h; omega
  | cons y l ih =>
    by_cases hy : y = b
    · subst hy; exact List.mem_cons_self
    · exact List.mem_cons_of_mem _ (ih h.2 (Nat.lt_of_le_of_ne h.2.le hy))

theorem Climb.nil_def (a b : Nat) : Climb a [] b ↔ a = b := Iff.rfl
theorem Climb.cons_def (a x b : Nat) (l : List Nat) : Climb a (x :: l) b ↔ a < x ∧ Climb x l b := Iff.rfl

/- `Climb` is applied to the views of kernel-evaluated runs (Props/C07Signal.lean): the elaborator must not
try to unfold it there (it would evaluate the run with `whnf`); use `Climb.nil_def` / `Climb.cons_def`. -/
attribute [irreducible] Climb

/-- the views ENTERED so far, as the ghost history records them: certified view + 1 of every advancement -/
def entered (s : RState) : List Nat := (s.ghost.filter GRec.isAdv).map GRec.advTo

theorem entered_snoc (g : List GRec) (r : GRec) :
    ((g ++ [r]).filter GRec.isAdv).map GRec.advTo =
      (g.filter GRec.isAdv).map GRec.advTo ++ (match r with | .adv _ cv _ => [cv + 1] | _ => []) := by
  cases r <;> simp [List.filter_append, List.filter_cons, GRec.isAdv, GRec.advTo]

/-- relative to the state `s0` the step started in: no view-change event waits in the deferred lists, and
the pending view-change signals (outputs, then queue) have grown by exactly the views entered since (the
same list extends the entered views of the ghost history), which climb from the old view to the current one -/
structure SR (s0 s : RState) : Prop where
  wait : vcWaiting s = []
  pend : ∃ l, vcPending s = vcPending s0 ++ l ∧ entered s = entered s0 ++ l ∧ Climb s0.view l s.view

theorem SR.le {s0 s : RState} (h : SR s0 s) : s0.view ≤ s.view := by
  obtain ⟨l, _, _, h⟩ := h.pend; exact h.le

theorem SR.refl (s : RState) (hw : vcWaiting s = []) : SR s s := ⟨hw, [], by simp, by simp, Climb.refl _⟩

theorem sr_congr (s0 s s' : RState) (h : SR s0 s) (hv : s'.view = s.view)
    (hp : vcWaiting s = [] → vcPending s' = vcPending s) (hw : vcWaiting s = [] → vcWaiting s' = [])
    (he : entered s' = entered s) : SR s0 s' := by
  obtain ⟨l, h1, h2, h3⟩ := h.pend
  exact ⟨hw h.wait, l, by rw [hp h.wait]; exact h1, by rw [he]; exact h2, by rw [hv]; exact h3⟩

theorem sr_adv (s0 s s' : RState) {w : Nat} (h : SR s0 s) (hv : s'.view = w + 1) (hle : s.view ≤ w)
    (hp : vcWaiting s = [] → vcPending s' = vcPending s ++ [w + 1]) (hw : vcWaiting s = [] → vcWaiting s' = [])
    (he : entered s' = entered s ++ [w + 1]) :
    SR s0 s' := by
  obtain ⟨l, h1, h2, h3⟩ := h.pend
  refine ⟨hw h.wait, l ++ [w + 1], ?_, ?_, ?_⟩
  · rw [hp h.wait, h1, List.append_assoc]
  · rw [he, h2, List.append_assoc]
  · rw [hv]; exact h3.snoc (by omega)

theorem vd_run {α} (f : M α) (h : ∀ x, ⦃fun s => ⌜VD s = x⌝⦄ f ⦃⇓ _ s => ⌜VD s = x⌝⦄) (s : RState) :
    vcOut (f.run s).2 = vcOut s ∧ vcQueued (f.run s).2 = vcQueued s ∧
      vcWaiting (f.run s).2 = vcWaiting s ∧ (f.run s).2.view = s.view := by
  have := run_res_of_triple f (fun s' => VD s' = VD s) (fun _ s' => VD s' = VD s) (h (VD s)) s rfl
  simp only [VD, Prod.mk.injEq] at this
  exact this

theorem sr_frame {α} (s0 : RState) (f : M α) (h : ∀ x, ⦃fun s => ⌜VD s = x⌝⦄ f ⦃⇓ _ s => ⌜VD s = x⌝⦄)
    (h' : ∀ x, ⦃fun s => ⌜AP s = x⌝⦄ f ⦃⇓ _ s => ⌜AP s = x⌝⦄) :
    ⦃fun s => ⌜SR s0 s⌝⦄ f ⦃⇓ _ s => ⌜SR s0 s⌝⦄ := by
  apply triple_of_run
  intro s hs
  obtain ⟨h1, h2, h3, h4⟩ := vd_run f h s
  have h5 := run_res_of_triple f (fun s' => AP s' = AP s) (fun _ s' => AP s' = AP s) (h' (AP s)) s rfl
  have h6 : entered (f.run s).2 = entered s := by
    have := congrArg (fun x => x.1) h5
    simp only [AP] at this
    simp only [entered, this]
  exact sr_congr s0 s _ hs h4 (fun _ => by simp only [vcPending, h1, h2]) (fun hw => by rw [h3]; exact hw) h6

/-- closes a side goal `vcWaiting s = [] → vcPending s' = …` / `… → vcWaiting s' = []` -/
macro "vd_side" : tactic => `(tactic| (
  intro hw0
  (try simp only [vcWaiting, evVCs_append, List.append_eq_nil_iff] at hw0)
  (simp_all +zetaDelta [vcPending, vcOut, vcQueued, vcWaiting, Out.vcOf, Ev.vcOf])))

/-- closes a side goal `entered s' = entered s` / `entered s' = entered s ++ [w + 1]` -/
macro "ent_side" : tactic => `(tactic| (
  (simp +zetaDelta only [entered, entered_snoc, List.append_nil]; done)))

/-- closes the verification conditions of the `SR` chain -/
macro "sr_finish" : tactic => `(tactic| (
  (try intros)
  (try simp only [and_true, true_and, and_self, implies_true] at *)
  (first
    | done
    | assumption
    | (apply sr_congr <;> first | assumption | rfl | vd_side | ent_side)
    | (apply sr_adv <;> first | assumption | rfl | (have hlt := ‹¬ _ < _›; simp +zetaDelta at hlt; omega) | vd_side | ent_side)
    | (simp_all; done)
    | skip)))

section SRChain
variable (k : Keys) (c : RCfg) (s0 : RState)

theorem getBlock_sr (h : Hash) : ⦃fun s => ⌜SR s0 s⌝⦄ getBlock h ⦃⇓ _ s => ⌜SR s0 s⌝⦄ :=
  sr_frame s0 _ (getBlock_vd h) (getBlock_ap h)
theorem signMsg_sr (m : Msg) : ⦃fun s => ⌜SR s0 s⌝⦄ signMsg c m ⦃⇓ _ s => ⌜SR s0 s⌝⦄ :=
  sr_frame s0 _ (signMsg_vd c m) (signMsg_ap c m)
theorem verifySyncInfo_sr (si : SyncInfo) :
    ⦃fun s => ⌜SR s0 s⌝⦄ verifySyncInfo k c si ⦃⇓ _ s => ⌜SR s0 s⌝⦄ :=
  sr_frame s0 _ (verifySyncInfo_vd k c si) (verifySyncInfo_ap k c si)
theorem collectVote_sr (id : Nat) (sig : Option Sig) (h : Hash) (d : Bool) :
    ⦃fun s => ⌜SR s0 s⌝⦄ collectVote k c id sig h d ⦃⇓ _ s => ⌜SR s0 s⌝⦄ :=
  sr_frame s0 _ (collectVote_vd k c id sig h d) (collectVote_ap k c id sig h d)
theorem voterVerify_sr (id : Nat) (b : Block) (agg : Option AggQC) :
    ⦃fun s => ⌜SR s0 s⌝⦄ voterVerify k c id b agg ⦃⇓ _ s => ⌜SR s0 s⌝⦄ :=
  sr_frame s0 _ (voterVerify_vd k c id b agg) (voterVerify_ap k c id b agg)
theorem onValidPropose_sr (id : Nat) (b : Block) :
    ⦃fun s => ⌜SR s0 s⌝⦄ onValidPropose k c id b ⦃⇓ _ s => ⌜SR s0 s⌝⦄ :=
  sr_frame s0 _ (onValidPropose_vd k c id b) (onValidPropose_ap k c id b)
theorem createAndPropose_sr (si : SyncInfo) :
    ⦃fun s => ⌜SR s0 s⌝⦄ createAndPropose k c si ⦃⇓ _ s => ⌜SR s0 s⌝⦄ :=
  sr_frame s0 _ (createAndPropose_vd k c si) (createAndPropose_ap k c si)


theorem advanceView_sr (si : SyncInfo) :
    ⦃fun s => ⌜SR s0 s⌝⦄ advanceView k c si ⦃⇓ _ s => ⌜SR s0 s⌝⦄ := by
  have h1 := verifySyncInfo_sr k c s0
  have h2 := getBlock_sr s0
  have h4 := createAndPropose_sr k c s0
  mvcgen [advanceView, emit, addEvent, h1, h2, h4]
  all_goals sr_finish

theorem onRemoteTimeout_sr (t : TimeoutMsg) :
    ⦃fun s => ⌜SR s0 s⌝⦄ onRemoteTimeout k c t ⦃⇓ _ s => ⌜SR s0 s⌝⦄ := by
  have h1 := advanceView_sr k c s0
  mvcgen [onRemoteTimeout, h1]
  all_goals sr_finish

theorem onLocalTimeout_sr :
    ⦃fun s => ⌜SR s0 s⌝⦄ onLocalTimeout k c ⦃⇓ _ s => ⌜SR s0 s⌝⦄ := by
  have h1 := onRemoteTimeout_sr k c s0
  have h2 := signMsg_sr c s0
  mvcgen [onLocalTimeout, emit, h1, h2]
  all_goals sr_finish

theorem onPropose_sr (id : Nat) (b : Block) (agg : Option AggQC) :
    ⦃fun s => ⌜SR s0 s⌝⦄ onPropose k c id b agg ⦃⇓ _ s => ⌜SR s0 s⌝⦄ := by
  have h1 := advanceView_sr k c s0
  have h2 := voterVerify_sr k c s0 id b agg
  have h3 := onValidPropose_sr k c s0 id b
  mvcgen [onPropose, emit, h1, h2, h3]
  all_goals sr_finish

theorem tick_sr :
    ⦃fun s => ⌜SR s0 s⌝⦄ tick k c ⦃⇓ _ s => ⌜SR s0 s⌝⦄ := by
  have h1 := onPropose_sr k c s0
  have h2 := onRemoteTimeout_sr k c s0
  have h3 := onLocalTimeout_sr k c s0
  have h4 := advanceView_sr k c s0
  have h5 := collectVote_sr k c s0
  mvcgen [tick, emit, h1, h2, h3, h4, h5]
  all_goals sr_finish

theorem runLoop_sr (fuel : Nat) :
    ⦃fun s => ⌜SR s0 s⌝⦄ runLoop k c fuel ⦃⇓ _ s => ⌜SR s0 s⌝⦄ := by
  induction fuel with
  | zero => mvcgen [runLoop]
  | succ n ih =>
    have h1 := tick_sr k c s0
    mvcgen [runLoop, h1, ih]

end SRChain

/-! ### one delivered event, and `Start` -/

/-- what a state satisfying the one-step invariant relative to `s0` looks like, spelled out: `p0` are the
view-change signals pending when the step began; `l` are the views entered in the step (as the ghost history
records them), climbing from the old view to the new one -/
def VCStep (s0 : RState) (p0 : List Nat) (s : RState) (outs : List Out) : Prop :=
  (∃ l, vcOuts outs ++ vcQueued s = p0 ++ l ∧ entered s = entered s0 ++ l ∧ Climb s0.view l s.view) ∧
    vcWaiting s = [] ∧ s0.view ≤ s.view

theorem step_signal (k : Keys) (c : RCfg) (s : RState) (e : Ev) (hw : vcWaiting s = []) :
    VCStep s (vcQueued s ++ evVCs [e]) (step k c s e).1 (step k c s e).2 := by
  unfold step
  have h0 : SR { s with out := [], queue := s.queue ++ [e] } { s with out := [], queue := s.queue ++ [e] } :=
    SR.refl _ hw
  have hsr := run_res_of_triple (runLoop k c 100000) _ _ (runLoop_sr k c _ 100000) _ h0
  refine ⟨?_, hsr.wait, hsr.le⟩
  have : vcPending ({ s with out := [], queue := s.queue ++ [e] } : RState) = vcQueued s ++ evVCs [e] := by
    simp [vcPending, vcOut, vcQueued]
  rw [← this]; exact hsr.pend

theorem start_signal (k : Keys) (c : RCfg) (s : RState) (hw : vcWaiting s = []) :
    VCStep s (vcQueued s) (start k c s).1 (start k c s).2 := by
  unfold start
  have h0 : SR { s with out := [] } { s with out := [] } := SR.refl _ hw
  have h1 := createAndPropose_sr k c { s with out := [] }
  have h2 := runLoop_sr k c { s with out := [] }
  have spec : ⦃fun s' => ⌜SR { s with out := [] } s'⌝⦄ (do
      let s ← get
      if s.view == 1 && c.leader 1 == c.id then
        createAndPropose k c { qc := some s.highQC, tc := some s.highTC }
      runLoop k c 100000 : M Unit) ⦃⇓ _ s' => ⌜SR { s with out := [] } s'⌝⦄ := by
    mvcgen [h1, h2]
  have hsr := run_res_of_triple _ _ _ spec _ h0
  refine ⟨?_, hsr.wait, hsr.le⟩
  have : vcPending ({ s with out := [] } : RState) = vcQueued s := by
    simp [vcPending, vcOut, vcQueued]
  rw [← this]; exact hsr.pend

/-! ### runs with the signalled views accumulated -/

/-- an event that is not a view-change event (`Ev.viewChange` is internal to the replica:
synchronizer → event loop → the components that registered for it) -/
def Ev.noVC : Ev → Bool
  | .viewChange _ _ => false
  | _ => true

theorem evVCs_noVC (e : Ev) (h : e.noVC = true) : evVCs [e] = [] := by
  cases e <;> first | rfl | (simp [Ev.noVC] at h)

/-- the run-level invariant of a replica state `s` together with the list `V` of the views signalled so
far (views of the `Out.viewChange` outputs of all steps so far): nothing deferred, and the signalled views
followed by the views of the queued view-change events are exactly the views ENTERED so far (`entered s`:
certified view + 1 of every advancement record of the ghost history, in order), which climb strictly from
view 1 to the current view -/
structure VCInv (V : List Nat) (s : RState) : Prop where
  wait : vcWaiting s = []
  pos : 1 ≤ s.view
  all : V ++ vcQueued s = entered s
  climb : Climb 1 (entered s) s.view

theorem VCInv.init : VCInv [] ({} : RState) := ⟨rfl, Nat.le_refl _, rfl, Climb.refl 1⟩

/-- a step that continues the sequence keeps the run-level invariant -/
theorem VCInv.step {V : List Nat} {s s' : RState} {outs : List Out} (h : VCInv V s)
    (hs : VCStep s (vcQueued s) s' outs) : VCInv (V ++ vcOuts outs) s' := by
  obtain ⟨⟨l, h1, h1', h1''⟩, h2, h3⟩ := hs
  refine ⟨h2, Nat.le_trans h.pos h3, ?_, ?_⟩
  · rw [List.append_assoc, h1, ← List.append_assoc, h.all, h1']
  · rw [h1']; exact h.climb.append h1''

/-- fields the invariant does not read -/
theorem VCInv.ext {V : List Nat} {s : RState} (t : List (Nat × Atom)) (nb : Nat) (h : VCInv V s) :
    VCInv V { s with truth := t, nextBytes := nb } := ⟨h.wait, h.pos, h.all, h.climb⟩

/-- one delivered event, with the signalled views accumulated -/
def stepV (k : Keys) (c : RCfg) (p : RState × List Nat) (e : Ev) : RState × List Nat :=
  ((step k c p.1 e).1, p.2 ++ vcOuts (step k c p.1 e).2)

/-- `Start`, with the signalled views -/
def startV (k : Keys) (c : RCfg) (s : RState) : RState × List Nat := ((start k c s).1, vcOuts (start k c s).2)

def runV (k : Keys) (c : RCfg) (p : RState × List Nat) (es : List Ev) : RState × List Nat := es.foldl (stepV k c) p

theorem runV_fst (k : Keys) (c : RCfg) (p : RState × List Nat) (es : List Ev) :
    (runV k c p es).1 = es.foldl (fun s e => (step k c s e).1) p.1 := by
  induction es generalizing p with
  | nil => rfl
  | cons e es ih => exact ih _

theorem stepV_sig (k : Keys) (c : RCfg) (p : RState × List Nat) (e : Ev) (he : e.noVC = true) (h : VCInv p.2 p.1) :
    VCInv (stepV k c p e).2 (stepV k c p e).1 := by
  have := step_signal k c p.1 e h.wait
  rw [evVCs_noVC e he, List.append_nil] at this
  exact h.step this

theorem startV_sig (k : Keys) (c : RCfg) : VCInv (startV k c {}).2 (startV k c {}).1 := by
  have := VCInv.init.step (start_signal k c {} rfl)
  simpa [startV] using this

theorem runV_sig (k : Keys) (c : RCfg) (es : List Ev) (hes : ∀ e ∈ es, e.noVC = true) (p : RState × List Nat)
    (h : VCInv p.2 p.1) : VCInv (runV k c p es).2 (runV k c p es).1 := by
  induction es generalizing p with
  | nil => exact h
  | cons e es ih =>
    exact ih (fun x hx => hes x (List.mem_cons_of_mem _ hx)) _ (stepV_sig k c p e (hes e (List.mem_cons_self ..)) h)

end HsVerif.Model
