import HsVerif.Proofs.SysProgressRR
/-!
Recovery by timeouts (C05, Stage 3): every replica is in view `v` — with ARBITRARY lock, chain,
high QC — has timed out, and the timeout messages are delivered, in any order.

* Replica level: one timeout message — `step_timeout_collect` (no quorum yet: high certificates
  refreshed, message kept), `step_timeout_quorum_exact` (quorum at a replica that is not the next
  leader), `step_timeout_stale` (after the view change); `absI`: which certificate a replica ends
  up with (`UpdateHighQC` over the messages it has seen).
* The scenario: `RecData` (view, high QCs, their blocks, high TCs, signature bytes), `RecSetup`
  (everything that is assumed, in particular `cover`: the vote rules are ready for every
  certificate that is the highest of a quorum — `Top`), `RColl` / `RMoved` (a replica before / after
  its view change, as a function of the senders whose message it has seen).
* System level: `rec_step` (one delivery), `rec_deliver` (any list of deliveries: the replicas are
  independent automata, only the table is shared), `recovery_round` (all messages delivered, any
  order), `recovery_syncRound` (the order of `syncRound`), `top_covers` (quorum intersection).
-/
open Std.Do
set_option mvcgen.warning false
set_option linter.unusedSimpArgs false
set_option linter.unusedVariables false
namespace HsVerif.Model
open HsVerif.Proofs HsVerif.Props.C08

/-! ## replica level: one timeout message -/

/-- `onRemoteTimeout` on an accepted timeout message of the current view that does not complete a
quorum: the high certificates are refreshed and the message is kept -/
theorem onRemoteTimeout_collect_run (k : Keys) (c : RCfg) (s : RState) (t : TimeoutMsg) (q : QC) (nb : Block) (tc0 : TC)
    (ha : c.agg = false)
    (hacc : Accepted (fun b => s.truth.lookup b) c.cfg t)
    (hsi : t.si = { qc := some q, tc := some tc0 })
    (htc0 : verifyTC (env k c s) tc0 = true) (hq : verifyQC (env k c s) q = true)
    (hnb : s.chain.blocks.lookup q.hash = some nb) (hv1 : tc0.view < s.view) (hv2 : q.view < s.view)
    (htv : t.view = s.view)
    (hcol : collectorAdd c.cfg.quorum s.timeouts t = (s.timeouts ++ [t], none)) :
    (onRemoteTimeout k c t).run s =
      pure ((), { absorbS s q nb tc0 with timeouts := (s.timeouts ++ [t]).filter (fun x => !(x.view < s.view)) }) := by
  obtain ⟨hsb, vs, hvs, hver⟩ := signedBy_of_accepted _ _ t hacc
  have h1 := advanceView_old k c s q nb tc0 ha htc0 hq hnb hv1 hv2
  rw [hvs] at hsb
  have hts : (absorbS s q nb tc0).timeouts = s.timeouts := rfl
  simp [onRemoteTimeout, hsb, hvs, env, hver, ha, hsi, h1, hts, hcol]

/-- `onRemoteTimeout` on an accepted timeout message of an EARLIER view, the collector being empty:
only the high certificates are refreshed -/
theorem onRemoteTimeout_stale_run (k : Keys) (c : RCfg) (s : RState) (t : TimeoutMsg) (q : QC) (nb : Block) (tc0 : TC)
    (ha : c.agg = false) (hq2 : 2 ≤ c.cfg.quorum)
    (hacc : Accepted (fun b => s.truth.lookup b) c.cfg t)
    (hsi : t.si = { qc := some q, tc := some tc0 })
    (htc0 : verifyTC (env k c s) tc0 = true) (hq : verifyQC (env k c s) q = true)
    (hnb : s.chain.blocks.lookup q.hash = some nb) (hv1 : tc0.view < s.view) (hv2 : q.view < s.view)
    (htv : t.view < s.view) (hts0 : s.timeouts = []) :
    (onRemoteTimeout k c t).run s = pure ((), absorbS s q nb tc0) := by
  obtain ⟨hsb, vs, hvs, hver⟩ := signedBy_of_accepted _ _ t hacc
  have h1 := advanceView_old k c s q nb tc0 ha htc0 hq hnb hv1 hv2
  rw [hvs] at hsb
  have hts : (absorbS s q nb tc0).timeouts = [] := hts0
  have hcol : collectorAdd c.cfg.quorum [] t = ([t], none) := by
    have : (1 : Nat) < c.cfg.quorum := by omega
    simp [collectorAdd, this]
  simp [onRemoteTimeout, hsb, hvs, env, hver, ha, hsi, h1, hts, hcol, htv]
  unfold absorbS
  simp [hts0]


theorem collector_below (q : Nat) (ts : List TimeoutMsg) (t : TimeoutMsg) (hall : ∀ x ∈ ts, x.view = t.view)
    (hnew : ∀ x ∈ ts, x.id ≠ t.id) (hlt : ts.length + 1 < q) : collectorAdd q ts t = (ts ++ [t], none) := by
  unfold collectorAdd
  have hany : ts.any (fun x => x.view == t.view && x.id == t.id) = false := by
    rw [Bool.eq_false_iff]; intro h
    rw [List.any_eq_true] at h
    obtain ⟨x, hx, h2⟩ := h
    simp at h2
    exact hnew x hx h2.2
  have hf : (ts ++ [t]).filter (fun x => x.view == t.view) = ts ++ [t] := by
    apply List.filter_eq_self.mpr
    intro x hx
    simp only [List.mem_append, List.mem_singleton] at hx
    rcases hx with hx | rfl
    · simp [hall x hx]
    · simp
  simp [hany, hf, hlt]

theorem collector_quorum (q : Nat) (ts : List TimeoutMsg) (t : TimeoutMsg) (hall : ∀ x ∈ ts, x.view = t.view)
    (hnew : ∀ x ∈ ts, x.id ≠ t.id) (hge : q ≤ ts.length + 1) : collectorAdd q ts t = ([], some (ts ++ [t])) := by
  unfold collectorAdd
  have hany : ts.any (fun x => x.view == t.view && x.id == t.id) = false := by
    rw [Bool.eq_false_iff]; intro h
    rw [List.any_eq_true] at h
    obtain ⟨x, hx, h2⟩ := h
    simp at h2
    exact hnew x hx h2.2
  have hf : (ts ++ [t]).filter (fun x => x.view == t.view) = ts ++ [t] := by
    apply List.filter_eq_self.mpr
    intro x hx
    simp only [List.mem_append, List.mem_singleton] at hx
    rcases hx with hx | rfl
    · simp [hall x hx]
    · simp
  have hf2 : (ts ++ [t]).filter (fun x => x.view != t.view) = [] := by
    apply List.filter_eq_nil_iff.mpr
    intro x hx
    simp only [List.mem_append, List.mem_singleton] at hx
    rcases hx with hx | rfl
    · simp [hall x hx]
    · simp
  have : ¬ ts.length + 1 < q := by omega
  simp [hany, hf, hf2, this]

/-- **a timeout message that does not complete the quorum** (all collected messages are of the
current view): the high certificates are refreshed, the message is kept, nothing is emitted -/
theorem step_timeout_collect (k : Keys) (c : RCfg) (s : RState) (t : TimeoutMsg) (q : QC) (nb : Block) (tc0 : TC)
    (ha : c.agg = false) (hq0 : s.queue = [])
    (hacc : Accepted (fun b => s.truth.lookup b) c.cfg t)
    (hsi : t.si = { qc := some q, tc := some tc0 })
    (htc0 : verifyTC (env k c s) tc0 = true) (hq : verifyQC (env k c s) q = true)
    (hnb : s.chain.blocks.lookup q.hash = some nb) (hv1 : tc0.view < s.view) (hv2 : q.view < s.view)
    (htv : t.view = s.view)
    (hall : ∀ x ∈ s.timeouts, x.view = t.view) (hnew : ∀ x ∈ s.timeouts, x.id ≠ t.id)
    (hlt : s.timeouts.length + 1 < c.cfg.quorum) :
    step k c s (.timeout t) = ({ absorbS s q nb tc0 with timeouts := s.timeouts ++ [t], out := [] }, []) := by
  let s0 : RState := { s with out := [], queue := s.queue ++ [.timeout t] }
  let sA : RState := { s0 with queue := [] }
  have hrun := onRemoteTimeout_collect_run k c sA t q nb tc0 ha hacc hsi htc0 hq hnb hv1 hv2 htv
    (collector_below _ _ _ hall hnew hlt)
  have hfil : (s.timeouts ++ [t]).filter (fun x => !(x.view < s.view)) = s.timeouts ++ [t] := by
    apply List.filter_eq_self.mpr
    intro x hx
    simp only [List.mem_append, List.mem_singleton] at hx
    rcases hx with hx | rfl
    · simp [hall x hx, htv]
    · simp [htv]
  have ht := tick_timeout k c s0 _ t [] (by show s.queue ++ _ = _; rw [hq0]; rfl) hrun
  rw [step_run_eq k c s _ (99998 + 1 + 1) rfl, runLoop_succ k c _ s0 _ ht, runLoop_idle k c _ 99998 rfl]
  show (({ absorbS sA q nb tc0 with timeouts := (s.timeouts ++ [t]).filter _, out := [] } : RState), ([] : List Out)) = _
  rw [hfil]
  show (({ absorbS { s with out := [], queue := [] } q nb tc0 with timeouts := s.timeouts ++ [t], out := [] } : RState), ([] : List Out)) = _
  rw [← hq0]
  rfl

/-- **a timeout message of an earlier view** (empty collector): only the high certificates are refreshed -/
theorem step_timeout_stale (k : Keys) (c : RCfg) (s : RState) (t : TimeoutMsg) (q : QC) (nb : Block) (tc0 : TC)
    (ha : c.agg = false) (hq2 : 2 ≤ c.cfg.quorum) (hq0 : s.queue = [])
    (hacc : Accepted (fun b => s.truth.lookup b) c.cfg t)
    (hsi : t.si = { qc := some q, tc := some tc0 })
    (htc0 : verifyTC (env k c s) tc0 = true) (hq : verifyQC (env k c s) q = true)
    (hnb : s.chain.blocks.lookup q.hash = some nb) (hv1 : tc0.view < s.view) (hv2 : q.view < s.view)
    (htv : t.view < s.view) (hts0 : s.timeouts = []) :
    step k c s (.timeout t) = ({ absorbS s q nb tc0 with out := [] }, []) := by
  let s0 : RState := { s with out := [], queue := s.queue ++ [.timeout t] }
  let sA : RState := { s0 with queue := [] }
  have hrun := onRemoteTimeout_stale_run k c sA t q nb tc0 ha hq2 hacc hsi htc0 hq hnb hv1 hv2 htv hts0
  have ht := tick_timeout k c s0 _ t [] (by show s.queue ++ _ = _; rw [hq0]; rfl) hrun
  rw [step_run_eq k c s _ (99998 + 1 + 1) rfl, runLoop_succ k c _ s0 _ ht, runLoop_idle k c _ 99998 rfl]
  show (({ absorbS { s with out := [], queue := [] } q nb tc0 with out := [] } : RState), ([] : List Out)) = _
  rw [← hq0]
  rfl


/-- the timeout certificate assembled from a quorum of accepted messages of one view -/
theorem tc_data (k : Keys) (c : RCfg) (s : RState) (ts : List TimeoutMsg) (t : TimeoutMsg)
    (hall : ∀ x ∈ ts, x.view = t.view) (hids : ((ts ++ [t]).map (·.id)).Nodup)
    (hq : c.cfg.quorum ≤ ts.length + 1) (h2 : 2 ≤ ts.length + 1)
    (hacc : ∀ x ∈ ts ++ [t], Accepted (fun b => s.truth.lookup b) c.cfg x) :
    ∃ sigs sg, (ts ++ [t]).mapM (·.viewSig) = some sigs ∧ combine c.cfg sigs = .ok sg ∧
      verifyTC (env k c s) ⟨some sg, t.view⟩ = true := by
  obtain ⟨sigs, sg, hm, hc, hv⟩ := tc_verifies (env k c s) t.view (ts ++ [t])
    (by intro x hx
        simp only [List.mem_append, List.mem_singleton] at hx
        rcases hx with hx | rfl
        · exact hall x hx
        · rfl)
    hids (by have : (ts ++ [t]).length = ts.length + 1 := by simp
             show c.cfg.quorum ≤ _; omega) (by simpa using h2) hacc
  exact ⟨sigs, sg, mapM_some_of_map _ _ _ hm, hc, hv⟩

/-- the state of a non-leader after the timeout message that completes the quorum -/
def tmoMovedS (s : RState) (q : QC) (nb : Block) (tc0 tc : TC) : RState :=
  { absorbS s q nb tc0 with
    highTC := if tc.view > (absorbS s q nb tc0).highTC.view then tc else (absorbS s q nb tc0).highTC,
    view := s.view + 1, lastTimeout := none, timeouts := [],
    ghost := s.ghost ++ [.adv s.view tc.view true], queue := [], out := [] }

/-- **the timeout message that completes the quorum, at a replica that is not the next leader**, exactly -/
theorem step_timeout_quorum_exact (k : Keys) (c : RCfg) (s : RState) (t : TimeoutMsg) (q : QC) (nb hb : Block) (tc0 : TC)
    (ha : c.agg = false) (hq0 : s.queue = []) (hwvc : s.waitingVC = [])
    (hacc : Accepted (fun b => s.truth.lookup b) c.cfg t)
    (hsi : t.si = { qc := some q, tc := some tc0 })
    (htc0 : verifyTC (env k c s) tc0 = true) (hq : verifyQC (env k c s) q = true)
    (hnb : s.chain.blocks.lookup q.hash = some nb) (hv1 : tc0.view < s.view) (hv2 : q.view < s.view)
    (htv : t.view = s.view) (hv0 : s.view ≠ 0)
    (hall : ∀ x ∈ s.timeouts, x.view = t.view) (hids : ((s.timeouts ++ [t]).map (·.id)).Nodup)
    (hge : c.cfg.quorum ≤ s.timeouts.length + 1) (h2 : 2 ≤ s.timeouts.length + 1)
    (haccs : ∀ x ∈ s.timeouts, Accepted (fun b => s.truth.lookup b) c.cfg x)
    (hhq : verifyQC (env k c s) (absorbS s q nb tc0).highQC = true)
    (hhb : s.chain.blocks.lookup (absorbS s q nb tc0).highQC.hash = some hb)
    (hhv : (absorbS s q nb tc0).highQC.view < s.view)
    (hl : c.leader (s.view + 1) ≠ c.id) :
    ∃ sg : Sig, verifyTC (env k c s) ⟨some sg, s.view⟩ = true ∧
      step k c s (.timeout t) =
        (tmoMovedS s q nb tc0 ⟨some sg, s.view⟩,
         [.sendNewView (c.leader (s.view + 1)) { qc := some (absorbS s q nb tc0).highQC, tc := some ⟨some sg, s.view⟩ },
          .viewChange (s.view + 1) true]) := by
  let s0 : RState := { s with out := [], queue := s.queue ++ [.timeout t] }
  let sA : RState := { s0 with queue := [] }
  have hnew : ∀ x ∈ s.timeouts, x.id ≠ t.id := by
    intro x hx e
    simp only [List.map_append, List.map_cons, List.map_nil] at hids
    rw [List.nodup_append] at hids
    exact hids.2.2 _ (List.mem_map_of_mem hx) _ (by simp) e
  obtain ⟨sigs, sg, hmap, hcomb, htc⟩ := tc_data k c sA s.timeouts t hall hids hge h2
    (by intro x hx
        simp only [List.mem_append, List.mem_singleton] at hx
        rcases hx with hx | rfl
        · exact haccs x hx
        · exact hacc)
  have hrun := onRemoteTimeout_quorum_run k c sA t q nb hb tc0 [] (s.timeouts ++ [t]) sigs sg ha hacc hsi htc0 hq hnb hv1 hv2
    htv (by rw [htv]; exact hv0) (collector_quorum _ _ _ hall hnew hge) hmap hcomb htc hhq hhb hhv
  rw [htv] at hrun htc
  refine ⟨sg, htc, ?_⟩
  let m : RState := movedTS { absorbS sA q nb tc0 with timeouts := [] } ⟨some sg, s.view⟩
  let o : Out := .sendNewView (c.leader (s.view + 1)) { qc := some (absorbS s q nb tc0).highQC, tc := some ⟨some sg, s.view⟩ }
  let s7 : RState := { m with out := m.out ++ [o], timeouts := m.timeouts.filter (fun x => !(x.view < s.view)) }
  have hrun' : (onRemoteTimeout k c t).run sA = pure ((), s7) := by
    rw [hrun, if_neg (by exact hl)]
    simp [emit, s7, o]
    rfl
  have ht1 : (tick k c).run s0 = pure (true, s7) := tick_timeout k c s0 s7 t [] (by show s.queue ++ _ = _; rw [hq0]; rfl) hrun'
  have hs7q : s7 = { s7 with queue := [.viewChange (s.view + 1) true] } := by
    show s7 = { s7 with queue := _ }
    have : s7.queue = [.viewChange (s.view + 1) true] := by
      show (sA.queue ++ [Ev.viewChange (sA.view + 1) true]) = _
      rfl
    rw [← this]
  have hrest := runLoop_quiet k c [.viewChange (s.view + 1) true] 99999 s7 (by intro e he; simp at he; subst he; rfl)
    hwvc (by simp)
  rw [step_run_eq k c s _ (99999 + 1) rfl, runLoop_succ k c _ s0 s7 ht1, hs7q, hrest]
  rfl

/-! ## which certificate a replica ends up with -/

/-- the index of the highest certificate seen: start with `cur`, then look at the certificates of
`l` in order; a certificate replaces the current one only if its block has a strictly higher view
(`bv`: view of the certified block) — this is `UpdateHighQC` -/
def absI (bv : Nat → Nat) : Nat → List Nat → Nat
  | cur, [] => cur
  | cur, i :: rest => absI bv (if bv i ≤ bv cur then cur else i) rest

theorem absI_mem (bv : Nat → Nat) : ∀ (l : List Nat) (cur : Nat), absI bv cur l ∈ cur :: l := by
  intro l
  induction l with
  | nil => intro cur; simp [absI]
  | cons i rest ih =>
    intro cur
    unfold absI
    by_cases hc : bv i ≤ bv cur
    · rw [if_pos hc]
      have := ih cur
      simp only [List.mem_cons] at this ⊢
      rcases this with h | h
      · exact Or.inl h
      · exact Or.inr (Or.inr h)
    · rw [if_neg hc]
      have := ih i
      simp only [List.mem_cons] at this ⊢
      exact Or.inr this

theorem absI_max (bv : Nat → Nat) : ∀ (l : List Nat) (cur : Nat), bv cur ≤ bv (absI bv cur l) ∧ ∀ i ∈ l, bv i ≤ bv (absI bv cur l) := by
  intro l
  induction l with
  | nil => intro cur; simp [absI]
  | cons i rest ih =>
    intro cur
    unfold absI
    by_cases hc : bv i ≤ bv cur
    · rw [if_pos hc]
      obtain ⟨h1, h2⟩ := ih cur
      refine ⟨h1, ?_⟩
      intro x hx
      simp only [List.mem_cons] at hx
      rcases hx with rfl | hx
      · omega
      · exact h2 x hx
    · rw [if_neg hc]
      obtain ⟨h1, h2⟩ := ih i
      refine ⟨by omega, ?_⟩
      intro x hx
      simp only [List.mem_cons] at hx
      rcases hx with rfl | hx
      · exact h1
      · exact h2 x hx

theorem absI_snoc (bv : Nat → Nat) (l : List Nat) (cur i : Nat) :
    absI bv cur (l ++ [i]) = (if bv i ≤ bv (absI bv cur l) then absI bv cur l else i) := by
  induction l generalizing cur with
  | nil => simp only [List.nil_append, absI]; rfl
  | cons a rest ih => simp only [List.cons_append, absI]; exact ih _


/-! ## the recovery scenario -/

/-- the data of the scenario: the view `v` every replica is in; for replica `i` its high QC `hq i`
(certifying the block `hb i`), its high TC `htc i`, and the bytes `bt i` of its signature over the view -/
structure RecData where
  v : Nat
  hq : Nat → QC
  hb : Nat → Block
  htc : Nat → TC
  bt : Nat → Nat

/-- the timeout message of replica `i` -/
def RecData.tmsg (D : RecData) (C : SysCfg) (i : Nat) : TimeoutMsg :=
  ⟨i, D.v, some (.multi C.scheme [⟨i, D.bt i⟩]), none, { qc := some (D.hq i), tc := some (D.htc i) }⟩

/-- the view of the block certified by replica `i`'s high QC -/
def RecData.bv (D : RecData) (i : Nat) : Nat := (D.hb i).view

/-- what a timeout round leaves alone in a replica that does not propose -/
structure Frame (s0 s : RState) : Prop where
  chain : s.chain = s0.chain
  lock : s.lock = s0.lock
  committed : s.committed = s0.committed
  lastVoted : s.lastVoted = s0.lastVoted
  lastProposed : s.lastProposed = s0.lastProposed
  nextCmd : s.nextCmd = s0.nextCmd
  votes : s.votes = s0.votes
  wvc : s.waitingVC = s0.waitingVC
  wprop : s.waitingProp = s0.waitingProp

theorem Frame.refl (s : RState) : Frame s s := ⟨rfl, rfl, rfl, rfl, rfl, rfl, rfl, rfl, rfl⟩

/-- replica `j` (with its table) can check everybody's certificates and timeout message -/
structure KnowsAll (k : Keys) (C : SysCfg) (D : RecData) (j : Nat) (s : RState) : Prop where
  qc : ∀ i ∈ C.honest, verifyQC (env k (C.rcfg j) s) (D.hq i) = true ∧
    s.chain.blocks.lookup (D.hq i).hash = some (D.hb i) ∧ (D.hq i).view = (D.hb i).view ∧ (D.hq i).view < D.v
  tc : ∀ i ∈ C.honest, verifyTC (env k (C.rcfg j) s) (D.htc i) = true ∧ (D.htc i).view < D.v
  acc : ∀ i ∈ C.honest, Accepted (fun b => s.truth.lookup b) (C.rcfg j).cfg (D.tmsg C i)

theorem accepted_mono (T T' : Truth) (cfg : Cfg) (t : TimeoutMsg) (hT : TruthLe T T') (h : Accepted T cfg t) :
    Accepted T' cfg t := by
  obtain ⟨sg, h1, h2, h3, h4, h5, h6⟩ := h
  exact ⟨sg, h1, h2, h3, h4, h5, verify_mono T T' cfg sg _ hT h6⟩

theorem verifyTC_mono (k : Keys) (c : RCfg) (s s' : RState) (tc : TC)
    (hT : ∀ b a, s.truth.lookup b = some a → s'.truth.lookup b = some a)
    (hv : verifyTC (env k c s) tc = true) : verifyTC (env k c s') tc = true := by
  unfold verifyTC at hv ⊢
  by_cases h0 : (tc.view == 0) = true
  · rw [if_pos h0]
  · rw [if_neg h0] at hv ⊢
    cases hs : tc.sig with
    | none => rw [hs] at hv; simp at hv
    | some sg =>
      rw [hs] at hv
      simp only at hv ⊢
      by_cases hl : sg.len < (env k c s).cfg.quorum
      · rw [if_pos hl] at hv; simp at hv
      · rw [if_neg hl] at hv
        have hl' : ¬ sg.len < (env k c s').cfg.quorum := hl
        rw [if_neg hl']
        exact verify_mono _ _ _ sg _ (fun b a hb => hT b a hb) hv

/-- the same chain and a larger table: still knows all -/
theorem KnowsAll.mono {k : Keys} {C : SysCfg} {D : RecData} {j : Nat} {s s' : RState} (h : KnowsAll k C D j s)
    (hc : s'.chain = s.chain) (hT : ∀ b a, s.truth.lookup b = some a → s'.truth.lookup b = some a) :
    KnowsAll k C D j s' := by
  refine ⟨?_, ?_, ?_⟩
  · intro i hi
    obtain ⟨h1, h2, h3, h4⟩ := h.qc i hi
    refine ⟨?_, by rw [hc]; exact h2, h3, h4⟩
    exact verifyQC_mono (fun b => s.truth.lookup b) (fun b => s'.truth.lookup b) (C.rcfg j).cfg s.chain.blocks s'.chain.blocks _ _
      (fun b a hb => hT b a hb) (by rw [hc]; exact fun _ _ h => h) h1
  · intro i hi
    obtain ⟨h1, h2⟩ := h.tc i hi
    exact ⟨verifyTC_mono k _ s s' _ hT h1, h2⟩
  · intro i hi
    exact accepted_mono _ _ _ _ (fun b a hb => hT b a hb) (h.acc i hi)

/-- replica `j` is still in view `v` and has collected the timeout messages of `frm` (after its own) -/
structure RColl (C : SysCfg) (D : RecData) (s0 : RState) (j : Nat) (frm : List Nat) (s : RState) : Prop where
  frame : Frame s0 s
  view : s.view = D.v
  queue : s.queue = []
  touts : s.timeouts = D.tmsg C j :: frm.map (D.tmsg C)
  hqc : s.highQC = D.hq (absI D.bv j frm)

/-- replica `j` has moved to view `v + 1` (it is not the next leader) and has seen the messages of `frm` -/
structure RMoved (C : SysCfg) (D : RecData) (s0 : RState) (j : Nat) (frm : List Nat) (s : RState) : Prop where
  frame : Frame s0 s
  view : s.view = D.v + 1
  queue : s.queue = []
  touts : s.timeouts = []
  hqc : s.highQC = D.hq (absI D.bv j frm)


theorem frame_absorb {s0 s : RState} (h : Frame s0 s) (q : QC) (nb : Block) (tc0 : TC) (ts : List TimeoutMsg) :
    Frame s0 { absorbS s q nb tc0 with timeouts := ts, out := [] } :=
  ⟨h.chain, h.lock, h.committed, h.lastVoted, h.lastProposed, h.nextCmd, h.votes, h.wvc, h.wprop⟩

theorem frame_with_table {s0 s : RState} (h : Frame s0 s) (T : List (Nat × Atom)) (nb : Nat) :
    Frame s0 { s with truth := T, nextBytes := nb } :=
  ⟨h.chain, h.lock, h.committed, h.lastVoted, h.lastProposed, h.nextCmd, h.votes, h.wvc, h.wprop⟩

/-- `UpdateHighQC` with the certificate of replica `i` -/
theorem absorb_hq (C : SysCfg) (D : RecData) (s : RState) (j i : Nat) (frm : List Nat) (tc0 : TC)
    (hqc : s.highQC = D.hq (absI D.bv j frm)) (hv : (D.hq (absI D.bv j frm)).view = D.bv (absI D.bv j frm)) :
    (absorbS s (D.hq i) (D.hb i) tc0).highQC = D.hq (absI D.bv j (frm ++ [i])) := by
  rw [absI_snoc]
  show (if (D.hb i).view ≤ s.highQC.view then s.highQC else D.hq i) = _
  rw [hqc, hv]
  show (if D.bv i ≤ _ then _ else _) = _
  split <;> rfl

/-- **one more timeout message at a replica that is still collecting** (no quorum yet) -/
theorem rcoll_add (k : Keys) (C : SysCfg) (D : RecData) (s0 s : RState) (j i : Nat) (frm : List Nat)
    (T : List (Nat × Atom)) (nb : Nat)
    (ha : C.agg = false) (hj : j ∈ C.honest) (hfrm : ∀ x ∈ frm, x ∈ C.honest) (hi : i ∈ C.honest)
    (hnew : i ∉ j :: frm)
    (hc : RColl C D s0 j frm s) (hk : KnowsAll k C D j { s with truth := T, nextBytes := nb })
    (hlt : frm.length + 2 < (C.rcfg j).cfg.quorum) :
    ∃ s', step k (C.rcfg j) { s with truth := T, nextBytes := nb } (.timeout (D.tmsg C i)) = (s', []) ∧
      RColl C D s0 j (frm ++ [i]) s' ∧ s'.truth = T ∧ s'.nextBytes = nb := by
  obtain ⟨q1, q2, q3, q4⟩ := hk.qc i hi
  obtain ⟨t1, t2⟩ := hk.tc i hi
  have hmem : absI D.bv j frm ∈ C.honest := by
    have := absI_mem D.bv frm j
    simp only [List.mem_cons] at this
    rcases this with h | h
    · rw [h]; exact hj
    · exact hfrm _ h
  have hstep := step_timeout_collect k (C.rcfg j) { s with truth := T, nextBytes := nb } (D.tmsg C i) (D.hq i) (D.hb i) (D.htc i)
    ha hc.queue (hk.acc i hi) rfl t1 q1 q2 (by show _ < s.view; rw [hc.view]; exact t2) (by show _ < s.view; rw [hc.view]; exact q4)
    (by show D.v = s.view; rw [hc.view])
    (by show ∀ x ∈ s.timeouts, x.view = D.v
        rw [hc.touts]
        intro x hx
        simp only [List.mem_cons, List.mem_map] at hx
        rcases hx with rfl | ⟨y, _, rfl⟩ <;> rfl)
    (by show ∀ x ∈ s.timeouts, x.id ≠ i
        rw [hc.touts]
        intro x hx e
        simp only [List.mem_cons, List.mem_map] at hx
        rcases hx with rfl | ⟨y, hy, rfl⟩
        · exact hnew (by rw [← e]; simp [RecData.tmsg])
        · exact hnew (by rw [← e]; simp [RecData.tmsg, hy]))
    (by show s.timeouts.length + 1 < _; rw [hc.touts]; simp; omega)
  refine ⟨_, hstep, ⟨frame_absorb (frame_with_table hc.frame T nb) _ _ _ _, hc.view, hc.queue, ?_, ?_⟩, rfl, rfl⟩
  · show s.timeouts ++ [D.tmsg C i] = _
    rw [hc.touts]; simp
  · exact absorb_hq C D _ j i frm (D.htc i) hc.hqc (hk.qc _ hmem).2.2.1

/-- **a late timeout message at a replica that has moved on** -/
theorem rmoved_add (k : Keys) (C : SysCfg) (D : RecData) (s0 s : RState) (j i : Nat) (frm : List Nat)
    (T : List (Nat × Atom)) (nb : Nat)
    (ha : C.agg = false) (hq2 : 2 ≤ (C.rcfg j).cfg.quorum) (hj : j ∈ C.honest) (hfrm : ∀ x ∈ frm, x ∈ C.honest) (hi : i ∈ C.honest)
    (hc : RMoved C D s0 j frm s) (hk : KnowsAll k C D j { s with truth := T, nextBytes := nb }) :
    ∃ s', step k (C.rcfg j) { s with truth := T, nextBytes := nb } (.timeout (D.tmsg C i)) = (s', []) ∧
      RMoved C D s0 j (frm ++ [i]) s' ∧ s'.truth = T ∧ s'.nextBytes = nb := by
  obtain ⟨q1, q2, q3, q4⟩ := hk.qc i hi
  obtain ⟨t1, t2⟩ := hk.tc i hi
  have hmem : absI D.bv j frm ∈ C.honest := by
    have := absI_mem D.bv frm j
    simp only [List.mem_cons] at this
    rcases this with h | h
    · rw [h]; exact hj
    · exact hfrm _ h
  have hstep := step_timeout_stale k (C.rcfg j) { s with truth := T, nextBytes := nb } (D.tmsg C i) (D.hq i) (D.hb i) (D.htc i)
    ha hq2 hc.queue (hk.acc i hi) rfl t1 q1 q2 (by show _ < s.view; rw [hc.view]; omega) (by show _ < s.view; rw [hc.view]; omega)
    (by show D.v < s.view; rw [hc.view]; omega) hc.touts
  refine ⟨_, hstep, ⟨?_, hc.view, hc.queue, hc.touts, ?_⟩, rfl, rfl⟩
  · exact ⟨hc.frame.chain, hc.frame.lock, hc.frame.committed, hc.frame.lastVoted, hc.frame.lastProposed, hc.frame.nextCmd,
      hc.frame.votes, hc.frame.wvc, hc.frame.wprop⟩
  · exact absorb_hq C D _ j i frm (D.htc i) hc.hqc (hk.qc _ hmem).2.2.1


theorem tmsg_ids (C : SysCfg) (D : RecData) (l : List Nat) : (l.map (D.tmsg C)).map (·.id) = l := by
  induction l with
  | nil => rfl
  | cons a rest ih => simp [RecData.tmsg, ih]

/-- **the timeout message that completes the quorum, at a replica that is not the next leader** -/
theorem rcoll_quorum (k : Keys) (C : SysCfg) (D : RecData) (s0 s : RState) (j i : Nat) (frm : List Nat)
    (T : List (Nat × Atom)) (nb : Nat)
    (ha : C.agg = false) (hv0 : D.v ≠ 0) (hq2 : 2 ≤ (C.rcfg j).cfg.quorum)
    (hj : j ∈ C.honest) (hfrm : ∀ x ∈ frm, x ∈ C.honest) (hi : i ∈ C.honest)
    (hnd : (j :: frm).Nodup) (hnew : i ∉ j :: frm) (hw0 : s0.waitingVC = [])
    (hc : RColl C D s0 j frm s) (hk : KnowsAll k C D j { s with truth := T, nextBytes := nb })
    (hge : (C.rcfg j).cfg.quorum ≤ frm.length + 2)
    (hl : (C.rcfg j).leader (D.v + 1) ≠ j) :
    ∃ s' outs, step k (C.rcfg j) { s with truth := T, nextBytes := nb } (.timeout (D.tmsg C i)) = (s', outs) ∧
      RMoved C D s0 j (frm ++ [i]) s' ∧ s'.truth = T ∧ s'.nextBytes = nb := by
  obtain ⟨q1, q2, q3, q4⟩ := hk.qc i hi
  obtain ⟨t1, t2⟩ := hk.tc i hi
  have hmem' : absI D.bv j (frm ++ [i]) ∈ C.honest := by
    have := absI_mem D.bv (frm ++ [i]) j
    simp only [List.mem_cons, List.mem_append, List.mem_singleton, List.not_mem_nil, or_false] at this
    rcases this with h | h | h
    · rw [h]; exact hj
    · exact hfrm _ h
    · rw [h]; exact hi
  have hmem : absI D.bv j frm ∈ C.honest := by
    have := absI_mem D.bv frm j
    simp only [List.mem_cons] at this
    rcases this with h | h
    · rw [h]; exact hj
    · exact hfrm _ h
  have habs := absorb_hq C D { s with truth := T, nextBytes := nb } j i frm (D.htc i) hc.hqc (hk.qc _ hmem).2.2.1
  obtain ⟨a1, a2, a3, a4⟩ := hk.qc _ hmem'
  have htouts : ({ s with truth := T, nextBytes := nb } : RState).timeouts = D.tmsg C j :: frm.map (D.tmsg C) := hc.touts
  obtain ⟨sg, _, hstep⟩ := step_timeout_quorum_exact k (C.rcfg j) { s with truth := T, nextBytes := nb } (D.tmsg C i) (D.hq i) (D.hb i)
    (D.hb (absI D.bv j (frm ++ [i]))) (D.htc i) ha hc.queue (by show s.waitingVC = []; rw [hc.frame.wvc]; exact hw0)
    (hk.acc i hi) rfl t1 q1 q2 (by show _ < s.view; rw [hc.view]; exact t2) (by show _ < s.view; rw [hc.view]; exact q4)
    (by show D.v = s.view; rw [hc.view]) (by show s.view ≠ 0; rw [hc.view]; exact hv0)
    (by rw [htouts]
        intro x hx
        simp only [List.mem_cons, List.mem_map] at hx
        rcases hx with rfl | ⟨y, _, rfl⟩ <;> rfl)
    (by rw [htouts]
        have : (D.tmsg C j :: frm.map (D.tmsg C) ++ [D.tmsg C i]).map (·.id) = (j :: frm) ++ [i] := by
          have := tmsg_ids C D ((j :: frm) ++ [i])
          simpa using this
        rw [this, List.nodup_append]
        refine ⟨hnd, by simp, ?_⟩
        intro a ha' b hb'
        simp at hb'; subst hb'
        exact fun e => hnew (e ▸ ha'))
    (by rw [htouts]; simp; omega) (by rw [htouts]; simp)
    (by rw [htouts]
        intro x hx
        simp only [List.mem_cons, List.mem_map] at hx
        rcases hx with rfl | ⟨y, hy, rfl⟩
        · exact hk.acc j hj
        · exact hk.acc y (hfrm y hy))
    (by rw [habs]; exact a1) (by rw [habs]; exact a2) (by rw [habs]; show _ < s.view; rw [hc.view]; exact a4)
    (by show (C.rcfg j).leader (s.view + 1) ≠ j; rw [hc.view]; exact hl)
  refine ⟨_, _, hstep, ⟨?_, ?_, rfl, rfl, habs⟩, rfl, rfl⟩
  · exact ⟨hc.frame.chain, hc.frame.lock, hc.frame.committed, hc.frame.lastVoted, hc.frame.lastProposed, hc.frame.nextCmd,
      hc.frame.votes, hc.frame.wvc, hc.frame.wprop⟩
  · show s.view + 1 = _; rw [hc.view]


theorem keyed_of_ids (l : List TimeoutMsg) (h : (l.map (·.id)).Nodup) : Keyed l := by
  unfold Keyed
  rw [List.nodup_iff_pairwise_ne, List.pairwise_map] at h
  exact h.imp (fun hne hand => hne hand.2)

theorem ofView_all (l : List TimeoutMsg) (v : Nat) (h : ∀ x ∈ l, x.view = v) : ofView l v = l := by
  unfold ofView
  apply List.filter_eq_self.mpr
  intro x hx; simp [h x hx]

/-- **the timeout message that completes the quorum at the next leader**: it enters view `v + 1` and
proposes on the highest certificate it has seen -/
theorem rcoll_quorum_leader (k : Keys) (C : SysCfg) (D : RecData) (s0 s : RState) (j i : Nat) (frm : List Nat)
    (T : List (Nat × Atom)) (nb : Nat)
    (ha : C.agg = false) (hsch : C.scheme ≠ .bls12) (hr : C.rules ≠ .fast) (hv0 : D.v ≠ 0) (hq2 : 2 ≤ (C.rcfg j).cfg.quorum)
    (hj : j ∈ C.honest) (hfrm : ∀ x ∈ frm, x ∈ C.honest) (hi : i ∈ C.honest)
    (hnd : (j :: frm).Nodup) (hnew : i ∉ j :: frm) (hlv : s0.lastVoted ≤ D.v)
    (hc : RColl C D s0 j frm s) (hk : KnowsAll k C D j { s with truth := T, nextBytes := nb })
    (hfr : FreshL T nb)
    (hge : (C.rcfg j).cfg.quorum ≤ frm.length + 2)
    (hl : (C.rcfg j).leader (D.v + 1) = j)
    (hready : RuleReady (C.rcfg j) s0 (D.v + 1) (D.hb (absI D.bv j (frm ++ [i]))))
    (hmark : markWalk (s0.chain.fuel + 1) s0.chain.blocks s0.lastProposed (D.hb (absI D.bv j (frm ++ [i]))) = true) :
    ∃ (b' : Block),
      b'.view = D.v + 1 ∧ b'.qc = D.hq (absI D.bv j (frm ++ [i])) ∧ b'.parent = (D.hq (absI D.bv j (frm ++ [i]))).hash ∧
      b'.proposer = j ∧
      Out.sendPropose b' none ∈ (step k (C.rcfg j) { s with truth := T, nextBytes := nb } (.timeout (D.tmsg C i))).2 ∧
      D.v + 1 ≤ (step k (C.rcfg j) { s with truth := T, nextBytes := nb } (.timeout (D.tmsg C i))).1.view ∧
      FreshS (step k (C.rcfg j) { s with truth := T, nextBytes := nb } (.timeout (D.tmsg C i))).1 ∧
      Ext { s with truth := T, nextBytes := nb } (step k (C.rcfg j) { s with truth := T, nextBytes := nb } (.timeout (D.tmsg C i))).1 := by
  obtain ⟨q1, q2, q3, q4⟩ := hk.qc i hi
  obtain ⟨t1, t2⟩ := hk.tc i hi
  have hmem' : absI D.bv j (frm ++ [i]) ∈ C.honest := by
    have := absI_mem D.bv (frm ++ [i]) j
    simp only [List.mem_cons, List.mem_append, List.mem_singleton, List.not_mem_nil, or_false] at this
    rcases this with h | h | h
    · rw [h]; exact hj
    · exact hfrm _ h
    · rw [h]; exact hi
  have hmem : absI D.bv j frm ∈ C.honest := by
    have := absI_mem D.bv frm j
    simp only [List.mem_cons] at this
    rcases this with h | h
    · rw [h]; exact hj
    · exact hfrm _ h
  let sT : RState := { s with truth := T, nextBytes := nb }
  have habs := absorb_hq C D sT j i frm (D.htc i) hc.hqc (hk.qc _ hmem).2.2.1
  obtain ⟨a1, a2, a3, a4⟩ := hk.qc _ hmem'
  have htouts : sT.timeouts = D.tmsg C j :: frm.map (D.tmsg C) := hc.touts
  have hallv : ∀ x ∈ sT.timeouts, x.view = (D.tmsg C i).view := by
    rw [htouts]
    intro x hx
    simp only [List.mem_cons, List.mem_map] at hx
    rcases hx with rfl | ⟨y, _, rfl⟩ <;> rfl
  have hids : ((sT.timeouts ++ [D.tmsg C i]).map (·.id)).Nodup := by
    rw [htouts]
    have : (D.tmsg C j :: frm.map (D.tmsg C) ++ [D.tmsg C i]).map (·.id) = (j :: frm) ++ [i] := by
      have := tmsg_ids C D ((j :: frm) ++ [i])
      simpa using this
    rw [this, List.nodup_append]
    refine ⟨hnd, by simp, ?_⟩
    intro a ha' b hb'
    simp at hb'; subst hb'
    exact fun e => hnew (e ▸ ha')
  have hids0 : (sT.timeouts.map (·.id)).Nodup := by
    simp only [List.map_append, List.map_cons, List.map_nil] at hids
    rw [List.nodup_append] at hids
    exact hids.1
  have hov : ofView (sT.timeouts ++ [D.tmsg C i]) (D.tmsg C i).view = sT.timeouts ++ [D.tmsg C i] :=
    ofView_all _ _ (by intro x hx
                       simp only [List.mem_append, List.mem_singleton] at hx
                       rcases hx with hx | rfl
                       · exact hallv x hx
                       · rfl)
  have hpre : TmoQuorumPre k (C.rcfg j) sT (D.tmsg C i) (D.hq i) (D.hb i) (D.hb (absI D.bv j (frm ++ [i]))) (D.htc i) := by
    refine ⟨ha, hsch, hfr, hc.queue, by show D.v = s.view; rw [hc.view], by show s.view ≠ 0; rw [hc.view]; exact hv0,
      hk.acc i hi, rfl, t1, by show _ < s.view; rw [hc.view]; exact t2, q1, by show _ < s.view; rw [hc.view]; exact q4, q2,
      keyed_of_ids _ hids0, ?_, ?_, ?_, ?_, by rw [habs]; exact a1, by rw [habs]; exact a2,
      by rw [habs]; show _ < s.view; rw [hc.view]; exact a4⟩
    · rintro ⟨x, hx, _, hxe⟩
      simp only [List.map_append, List.map_cons, List.map_nil] at hids
      rw [List.nodup_append] at hids
      exact hids.2.2 _ (List.mem_map_of_mem hx) _ (by simp) hxe
    · rw [hov, htouts]; simp; omega
    · rw [hov, htouts]; simp
    · intro x hx _
      rw [htouts] at hx
      simp only [List.mem_cons, List.mem_map] at hx
      rcases hx with rfl | ⟨y, hy, rfl⟩
      · exact hk.acc j hj
      · exact hk.acc y (hfrm y hy)
  obtain ⟨sg, b', p1, p2, p3, p4, p5, p6, p7, p8, p9⟩ := step_timeout_quorum_proposes k (C.rcfg j) sT (D.tmsg C i) (D.hq i) (D.hb i)
    (D.hb (absI D.bv j (frm ++ [i]))) (D.htc i) hpre hr (by show (C.rcfg j).leader (s.view + 1) = j; rw [hc.view]; exact hl)
    (by show s.lastVoted ≤ s.view; rw [hc.frame.lastVoted, hc.view]; exact hlv)
    (by show RuleReady (C.rcfg j) sT (s.view + 1) _
        rw [hc.view]
        exact ruleReady_congr (C.rcfg j) s0 sT _ _ hc.frame.chain hc.frame.lock hready)
    (by intro s' hcs hls
        apply markProposed_walk
        rw [hcs, hls]
        show markWalk (s.chain.fuel + 1) s.chain.blocks s.lastProposed _ = true
        rw [hc.frame.chain, hc.frame.lastProposed]; exact hmark)
  refine ⟨b', by rw [p3]; show s.view + 1 = _; rw [hc.view], by rw [p4, habs], by rw [p5, habs], p6, p7, ?_,
    step_fresh k (C.rcfg j) sT _ hfr, step_ext k (C.rcfg j) sT _ hfr.2⟩
  have : sT.view = D.v := hc.view
  rw [← this]; exact p2

/-! ## system level: the timeout messages are delivered, in any order -/

theorem step_view_mono (k : Keys) (c : RCfg) (s : RState) (e : Ev) : s.view ≤ (step k c s e).1.view := by
  rw [step_run_eq k c s e 100000 rfl]
  exact runLoop_view_mono k c 100000 { s with out := [], queue := s.queue ++ [e] }

/-- certificate `hq i` is the highest among those of a quorum `Q` of replicas that contains `i` -/
def Top (C : SysCfg) (D : RecData) (i : Nat) : Prop :=
  ∃ Q : List Nat, Q.Nodup ∧ (∀ x ∈ Q, x ∈ C.honest) ∧ (C.rcfg 0).cfg.quorum ≤ Q.length ∧ i ∈ Q ∧ ∀ x ∈ Q, D.bv x ≤ D.bv i

/-- **the assumptions of the recovery theorem**: all `n ≥ 2` replicas run the model (chained or
simplified HotStuff, plain timeout rule, ECDSA / EdDSA); they agree that `ℓ` leads view `v + 1`;
every replica `j` is in state `s0 j`: in view `v ≠ 0`, nothing queued or waiting for a view change,
not voted beyond `v`, timed out (its collector holds its own timeout message), high QC `hq j`;
everybody can check everybody's certificates and timeout message against the table `T0`
(`KnowsAll`: the certified blocks are stored); the leader can walk from every certified block
to what it proposed last; and — the fact that the classical argument derives from the safety
invariants — every certificate that is the highest of a quorum (`Top`) makes every replica's vote
rule ready (`RuleReady`: its block is above the replica's lock, or a proposal on it extends the lock) -/
structure RecSetup (k : Keys) (C : SysCfg) (D : RecData) (s0 : Nat → RState) (ℓ : Nat) (T0 : List (Nat × Atom)) : Prop where
  agg : C.agg = false
  scheme : C.scheme ≠ .bls12
  rules : C.rules ≠ .fast
  v0 : D.v ≠ 0
  nodup : C.honest.Nodup
  range : ∀ i ∈ C.honest, 1 ≤ i ∧ i ≤ C.n
  all : C.honest.length = C.n
  two : 2 ≤ C.n
  leader : ∀ j ∈ C.honest, (C.rcfg j).leader (D.v + 1) = ℓ
  lmem : ℓ ∈ C.honest
  init : ∀ j ∈ C.honest, RColl C D (s0 j) j [] (s0 j) ∧ (s0 j).waitingVC = [] ∧ (s0 j).lastVoted ≤ D.v ∧
    KnowsAll k C D j { s0 j with truth := T0 }
  mark : ∀ i ∈ C.honest, markWalk ((s0 ℓ).chain.fuel + 1) (s0 ℓ).chain.blocks (s0 ℓ).lastProposed (D.hb i) = true
  cover : ∀ j ∈ C.honest, ∀ i ∈ C.honest, Top C D i → RuleReady (C.rcfg j) (s0 j) (D.v + 1) (D.hb i)

/-- the state of the timeout round after replica `j` has received the messages of `rec j` -/
structure RecInv (k : Keys) (C : SysCfg) (D : RecData) (s0 : Nat → RState) (ℓ : Nat) (T0 : List (Nat × Atom))
    (rec : Nat → List Nat) (x : SysState × Msgs) : Prop where
  fresh : FreshL x.1.truth x.1.nextBytes
  keys : x.1.reps.map (·.1) = C.honest
  table : ∀ b a, T0.lookup b = some a → x.1.truth.lookup b = some a
  recs : ∀ j ∈ C.honest, (j :: rec j).Nodup ∧ ∀ i ∈ rec j, i ∈ C.honest
  others : ∀ j ∈ C.honest, j ≠ ℓ → ∃ s, x.1.reps.lookup j = some s ∧
    ((rec j).length + 1 < (C.rcfg 0).cfg.quorum → RColl C D (s0 j) j (rec j) s) ∧
    ((C.rcfg 0).cfg.quorum ≤ (rec j).length + 1 → RMoved C D (s0 j) j (rec j) s)
  leaderC : (rec ℓ).length + 1 < (C.rcfg 0).cfg.quorum → ∃ s, x.1.reps.lookup ℓ = some s ∧ RColl C D (s0 ℓ) ℓ (rec ℓ) s
  leaderM : (C.rcfg 0).cfg.quorum ≤ (rec ℓ).length + 1 → ∃ s b', x.1.reps.lookup ℓ = some s ∧ D.v + 1 ≤ s.view ∧
    b'.view = D.v + 1 ∧ b'.qc = D.hq (absI D.bv ℓ ((rec ℓ).take ((C.rcfg 0).cfg.quorum - 1))) ∧
    b'.parent = b'.qc.hash ∧ b'.proposer = ℓ ∧ ∀ j ∈ C.honest, j ≠ ℓ → (j, Ev.propose ℓ b' none) ∈ x.2

theorem route_mem_propose (C : SysCfg) (i j : Nat) (b : Block) (agg : Option AggQC) (outs : List Out)
    (h : Out.sendPropose b agg ∈ outs) (hj : j ∈ C.honest) (hji : j ≠ i) : (j, Ev.propose i b agg) ∈ route C i outs := by
  induction outs with
  | nil => simp at h
  | cons o rest ih =>
    simp only [List.mem_cons] at h
    rcases h with rfl | h
    · simp only [route, List.mem_append, List.mem_map, List.mem_filter, bne_iff_ne, ne_eq]
      exact Or.inl ⟨j, ⟨hj, hji⟩, rfl⟩
    · have := ih h
      cases o <;> simp [route, this]


/-- the senders whose timeout message replica `j` has processed, after one more delivery -/
def recUpd (rec : Nat → List Nat) (j i : Nat) : Nat → List Nat := fun x => if x = j then rec j ++ [i] else rec x

theorem recUpd_same (rec : Nat → List Nat) (j i : Nat) : recUpd rec j i j = rec j ++ [i] := by simp [recUpd]
theorem recUpd_other (rec : Nat → List Nat) (j i x : Nat) (h : x ≠ j) : recUpd rec j i x = rec x := by simp [recUpd, h]

theorem deliver_effect (k : Keys) (C : SysCfg) (σ : SysState) (acc : Msgs) (j : Nat) (e : Ev) (s : RState)
    (hl : σ.reps.lookup j = some s) :
    ∃ σ', deliverAll k C (σ, acc) [(j, e)] =
        (σ', acc ++ route C j (step k (C.rcfg j) { s with truth := σ.truth, nextBytes := σ.nextBytes } e).2) ∧
      σ'.reps = setKV j (step k (C.rcfg j) { s with truth := σ.truth, nextBytes := σ.nextBytes } e).1 σ.reps ∧
      σ'.truth = (step k (C.rcfg j) { s with truth := σ.truth, nextBytes := σ.nextBytes } e).1.truth ∧
      σ'.nextBytes = (step k (C.rcfg j) { s with truth := σ.truth, nextBytes := σ.nextBytes } e).1.nextBytes := by
  obtain ⟨r1, r2, r3, r4⟩ := runOut_spec σ j (fun s => step k (C.rcfg j) s e) s hl
  refine ⟨(σ.runOut j (fun s => step k (C.rcfg j) s e)).1, ?_, r1, r2, r3⟩
  rw [deliverAll_one, r4]

theorem quorum_le_n (n : Nat) (h : 2 ≤ n) : 2 ≤ quorumSize n ∧ quorumSize n ≤ n := quorum_bounds n h


/-- **one timeout message is delivered** -/
theorem rec_step (k : Keys) (C : SysCfg) (D : RecData) (s0 : Nat → RState) (ℓ : Nat) (T0 : List (Nat × Atom))
    (hS : RecSetup k C D s0 ℓ T0) (rec : Nat → List Nat) (σ : SysState) (acc : Msgs) (j i : Nat)
    (hinv : RecInv k C D s0 ℓ T0 rec (σ, acc)) (hj : j ∈ C.honest) (hi : i ∈ C.honest) (hij : i ≠ j) (hnew : i ∉ rec j) :
    RecInv k C D s0 ℓ T0 (recUpd rec j i) (deliverAll k C (σ, acc) [(j, Ev.timeout (D.tmsg C i))]) := by
  have hq : 2 ≤ (C.rcfg 0).cfg.quorum ∧ (C.rcfg 0).cfg.quorum ≤ C.n := quorum_bounds C.n hS.two
  have hqj : ∀ x, (C.rcfg x).cfg.quorum = (C.rcfg 0).cfg.quorum := fun _ => rfl
  obtain ⟨hrnd, hrmem⟩ := hinv.recs j hj
  have hnew' : i ∉ j :: rec j := by
    simp only [List.mem_cons, not_or]; exact ⟨hij, hnew⟩
  have hndj : (rec j).Nodup ∧ j ∉ rec j := by
    rw [List.nodup_cons] at hrnd; exact ⟨hrnd.2, hrnd.1⟩
  -- what holds of `recUpd` in any case
  have hrecs' : ∀ x ∈ C.honest, (x :: recUpd rec j i x).Nodup ∧ ∀ y ∈ recUpd rec j i x, y ∈ C.honest := by
    intro x hx
    by_cases hxj : x = j
    · subst hxj
      rw [recUpd_same]
      refine ⟨?_, ?_⟩
      · rw [List.nodup_cons]
        refine ⟨?_, ?_⟩
        · simp only [List.mem_append, List.mem_singleton, not_or]
          exact ⟨hndj.2, fun e => hij e.symm⟩
        · rw [List.nodup_append]
          exact ⟨hndj.1, by simp, by intro a ha b hb; simp at hb; subst hb; exact fun e => hnew (e ▸ ha)⟩
      · intro y hy
        simp only [List.mem_append, List.mem_singleton] at hy
        rcases hy with hy | rfl
        · exact hrmem y hy
        · exact hi
    · rw [recUpd_other _ _ _ _ hxj]; exact hinv.recs x hx
  have hknow : ∀ (s : RState), Frame (s0 j) s → KnowsAll k C D j { s with truth := σ.truth, nextBytes := σ.nextBytes } := by
    intro s hf
    exact (hS.init j hj).2.2.2.mono (by show s.chain = (s0 j).chain; exact hf.chain) (fun b a hb => hinv.table b a hb)
  by_cases hjl : j = ℓ
  · -- the next leader
    subst hjl
    by_cases hlt : (rec j).length + 1 < (C.rcfg 0).cfg.quorum
    · obtain ⟨s, hl, hc⟩ := hinv.leaderC hlt
      obtain ⟨σ', hd, r1, r2, r3⟩ := deliver_effect k C σ acc j (Ev.timeout (D.tmsg C i)) s hl
      rw [hd]
      by_cases hlt2 : (rec j).length + 2 < (C.rcfg 0).cfg.quorum
      · -- still collecting
        obtain ⟨s', hstep, hc', ht, hn⟩ := rcoll_add k C D (s0 j) s j i (rec j) σ.truth σ.nextBytes hS.agg hj hrmem hi hnew' hc
          (hknow s hc.frame) (by rw [hqj]; exact hlt2)
        rw [hstep] at r1 r2 r3 ⊢
        refine ⟨by rw [r2, r3, ht, hn]; exact hinv.fresh, by rw [r1, keys_setKV _ _ _ (by rw [hinv.keys]; exact hj)]; exact hinv.keys,
          by rw [r2, ht]; exact hinv.table, hrecs', ?_, ?_, ?_⟩
        · intro x hx hxl
          obtain ⟨sx, q1, q2, q3⟩ := hinv.others x hx hxl
          rw [recUpd_other _ _ _ _ hxl]
          exact ⟨sx, by rw [r1, lookup_setKV_other _ _ _ _ hxl]; exact q1, q2, q3⟩
        · intro _
          rw [recUpd_same]
          exact ⟨s', by rw [r1]; exact lookup_setKV_same _ _ _, hc'⟩
        · intro hge
          rw [recUpd_same] at hge
          simp only [List.length_append, List.length_singleton] at hge
          omega
      · -- the quorum: it proposes
        have hge : (C.rcfg j).cfg.quorum ≤ (rec j).length + 2 := by rw [hqj]; omega
        have htop : Top C D (absI D.bv j (rec j ++ [i])) := by
          refine ⟨j :: (rec j ++ [i]), ?_, ?_, ?_, absI_mem D.bv _ j, ?_⟩
          · have := (hrecs' j hj).1; rw [recUpd_same] at this; exact this
          · intro x hx
            simp only [List.mem_cons, List.mem_append, List.mem_singleton, List.not_mem_nil, or_false] at hx
            rcases hx with rfl | hx | rfl
            · exact hj
            · exact hrmem x hx
            · exact hi
          · simp only [List.length_cons, List.length_append, List.length_singleton]; omega
          · intro x hx
            obtain ⟨h1, h2⟩ := absI_max D.bv (rec j ++ [i]) j
            simp only [List.mem_cons] at hx
            rcases hx with rfl | hx
            · exact h1
            · exact h2 x hx
        have hmi : absI D.bv j (rec j ++ [i]) ∈ C.honest := by
          have := absI_mem D.bv (rec j ++ [i]) j
          simp only [List.mem_cons, List.mem_append, List.mem_singleton, List.not_mem_nil, or_false] at this
          rcases this with h | h | h
          · rw [h]; exact hj
          · exact hrmem _ h
          · rw [h]; exact hi
        obtain ⟨b', p1, p2, p3, p4, p5, p6, p7, p8⟩ := rcoll_quorum_leader k C D (s0 j) s j i (rec j) σ.truth σ.nextBytes
          hS.agg hS.scheme hS.rules hS.v0 (by rw [hqj]; exact hq.1) hj hrmem hi hrnd hnew' (hS.init j hj).2.2.1 hc
          (hknow s hc.frame) hinv.fresh hge (hS.leader j hj) (hS.cover j hj _ hmi htop) (hS.mark _ hmi)
        refine ⟨by rw [r2, r3]; exact p7, by rw [r1, keys_setKV _ _ _ (by rw [hinv.keys]; exact hj)]; exact hinv.keys,
          ?_, hrecs', ?_, ?_, ?_⟩
        · intro b a hb
          rw [r2]; exact p8.truth b a (hinv.table b a hb)
        · intro x hx hxl
          obtain ⟨sx, q1, q2, q3⟩ := hinv.others x hx hxl
          rw [recUpd_other _ _ _ _ hxl]
          exact ⟨sx, by rw [r1, lookup_setKV_other _ _ _ _ hxl]; exact q1, q2, q3⟩
        · intro hlt'
          rw [recUpd_same] at hlt'
          simp only [List.length_append, List.length_singleton] at hlt'
          omega
        · intro _
          refine ⟨_, b', by rw [r1]; exact lookup_setKV_same _ _ _, p6, p1, ?_, by rw [p3, p2], p4, ?_⟩
          · rw [p2, recUpd_same]
            have : (rec j ++ [i]).take ((C.rcfg 0).cfg.quorum - 1) = rec j ++ [i] := by
              apply List.take_of_length_le
              simp only [List.length_append, List.length_singleton]; omega
            rw [this]
          · intro x hx hxl
            exact List.mem_append_right _ (route_mem_propose C j x b' none _ p5 hx hxl)
    · -- it has moved on already: whatever it does, it stays in a later view
      obtain ⟨s, b', hl, hv, p1, p2, p3, p4, p5⟩ := hinv.leaderM (by omega)
      obtain ⟨σ', hd, r1, r2, r3⟩ := deliver_effect k C σ acc j (Ev.timeout (D.tmsg C i)) s hl
      rw [hd]
      have hfr' := step_fresh k (C.rcfg j) { s with truth := σ.truth, nextBytes := σ.nextBytes } (Ev.timeout (D.tmsg C i)) hinv.fresh
      have hext := step_ext k (C.rcfg j) { s with truth := σ.truth, nextBytes := σ.nextBytes } (Ev.timeout (D.tmsg C i)) hinv.fresh.2
      refine ⟨by rw [r2, r3]; exact hfr', by rw [r1, keys_setKV _ _ _ (by rw [hinv.keys]; exact hj)]; exact hinv.keys,
        ?_, hrecs', ?_, ?_, ?_⟩
      · intro b a hb
        rw [r2]; exact hext.truth b a (hinv.table b a hb)
      · intro x hx hxl
        obtain ⟨sx, q1, q2, q3⟩ := hinv.others x hx hxl
        rw [recUpd_other _ _ _ _ hxl]
        exact ⟨sx, by rw [r1, lookup_setKV_other _ _ _ _ hxl]; exact q1, q2, q3⟩
      · intro hlt'
        rw [recUpd_same] at hlt'
        simp only [List.length_append, List.length_singleton] at hlt'
        omega
      · intro _
        refine ⟨(step k (C.rcfg j) { s with truth := σ.truth, nextBytes := σ.nextBytes } (Ev.timeout (D.tmsg C i))).1, b',
          by rw [r1]; exact lookup_setKV_same _ _ _,
          Nat.le_trans hv (step_view_mono k (C.rcfg j) { s with truth := σ.truth, nextBytes := σ.nextBytes } _), p1, ?_, p3, p4, ?_⟩
        · rw [p2, recUpd_same, List.take_append_of_le_length (by omega)]
        · intro x hx hxl
          exact List.mem_append_left _ (p5 x hx hxl)
  · -- a replica that is not the next leader
    obtain ⟨s, hl, hC, hM⟩ := hinv.others j hj hjl
    obtain ⟨σ', hd, r1, r2, r3⟩ := deliver_effect k C σ acc j (Ev.timeout (D.tmsg C i)) s hl
    rw [hd]
    -- the three cases give the same kind of result
    have hres : ∃ s' outs, step k (C.rcfg j) { s with truth := σ.truth, nextBytes := σ.nextBytes } (.timeout (D.tmsg C i)) = (s', outs) ∧
        s'.truth = σ.truth ∧ s'.nextBytes = σ.nextBytes ∧
        ((rec j ++ [i]).length + 1 < (C.rcfg 0).cfg.quorum → RColl C D (s0 j) j (rec j ++ [i]) s') ∧
        ((C.rcfg 0).cfg.quorum ≤ (rec j ++ [i]).length + 1 → RMoved C D (s0 j) j (rec j ++ [i]) s') := by
      by_cases hlt : (rec j).length + 1 < (C.rcfg 0).cfg.quorum
      · have hc := hC hlt
        by_cases hlt2 : (rec j).length + 2 < (C.rcfg 0).cfg.quorum
        · obtain ⟨s', hstep, hc', ht, hn⟩ := rcoll_add k C D (s0 j) s j i (rec j) σ.truth σ.nextBytes hS.agg hj hrmem hi hnew' hc
            (hknow s hc.frame) (by rw [hqj]; exact hlt2)
          exact ⟨s', [], hstep, ht, hn, fun _ => hc', fun h => by simp only [List.length_append, List.length_singleton] at h; omega⟩
        · obtain ⟨s', outs, hstep, hc', ht, hn⟩ := rcoll_quorum k C D (s0 j) s j i (rec j) σ.truth σ.nextBytes hS.agg hS.v0
            (by rw [hqj]; exact hq.1) hj hrmem hi hrnd hnew' (hS.init j hj).2.1 hc (hknow s hc.frame) (by rw [hqj]; omega)
            (by rw [hS.leader j hj]; exact fun e => hjl e.symm)
          exact ⟨s', outs, hstep, ht, hn, fun h => by simp only [List.length_append, List.length_singleton] at h; omega, fun _ => hc'⟩
      · have hc := hM (by omega)
        obtain ⟨s', hstep, hc', ht, hn⟩ := rmoved_add k C D (s0 j) s j i (rec j) σ.truth σ.nextBytes hS.agg (by rw [hqj]; exact hq.1)
          hj hrmem hi hc (hknow s hc.frame)
        exact ⟨s', [], hstep, ht, hn, fun h => by simp only [List.length_append, List.length_singleton] at h; omega, fun _ => hc'⟩
    obtain ⟨s', outs, hstep, ht, hn, hC', hM'⟩ := hres
    rw [hstep] at r1 r2 r3 ⊢
    refine ⟨by rw [r2, r3, ht, hn]; exact hinv.fresh, by rw [r1, keys_setKV _ _ _ (by rw [hinv.keys]; exact hj)]; exact hinv.keys,
      by rw [r2, ht]; exact hinv.table, hrecs', ?_, ?_, ?_⟩
    · intro x hx hxl
      by_cases hxj : x = j
      · subst hxj
        rw [recUpd_same]
        exact ⟨s', by rw [r1]; exact lookup_setKV_same _ _ _, hC', hM'⟩
      · obtain ⟨sx, q1, q2, q3⟩ := hinv.others x hx hxl
        rw [recUpd_other _ _ _ _ hxj]
        exact ⟨sx, by rw [r1, lookup_setKV_other _ _ _ _ hxj]; exact q1, q2, q3⟩
    · intro hlt
      rw [recUpd_other _ _ _ _ (fun e => hjl e.symm)] at hlt
      obtain ⟨sl, q1, q2⟩ := hinv.leaderC hlt
      rw [recUpd_other _ _ _ _ (fun e => hjl e.symm)]
      exact ⟨sl, by rw [r1, lookup_setKV_other _ _ _ _ (fun e => hjl e.symm)]; exact q1, q2⟩
    · intro hge
      rw [recUpd_other _ _ _ _ (fun e => hjl e.symm)] at hge
      obtain ⟨sl, b', q1, q2, p1, p2, p3, p4, p5⟩ := hinv.leaderM hge
      rw [recUpd_other _ _ _ _ (fun e => hjl e.symm)]
      exact ⟨sl, b', by rw [r1, lookup_setKV_other _ _ _ _ (fun e => hjl e.symm)]; exact q1, q2, p1, p2, p3, p4,
        fun x hx hxl => List.mem_append_left _ (p5 x hx hxl)⟩


/-- the record of processed senders after the deliveries `msgs` (pairs receiver, sender) -/
def recAll (rec : Nat → List Nat) : List (Nat × Nat) → Nat → List Nat
  | [] => rec
  | (j, i) :: rest => recAll (recUpd rec j i) rest

theorem recAll_mem (msgs : List (Nat × Nat)) : ∀ (rec : Nat → List Nat) (j i : Nat),
    (i ∈ rec j ∨ (j, i) ∈ msgs) → i ∈ recAll rec msgs j := by
  induction msgs with
  | nil => intro rec j i h; rcases h with h | h; exact h; simp at h
  | cons p rest ih =>
    intro rec j i h
    obtain ⟨j', i'⟩ := p
    unfold recAll
    apply ih
    rcases h with h | h
    · left
      by_cases hjj : j = j'
      · subst hjj; rw [recUpd_same]; simp [h]
      · rw [recUpd_other _ _ _ _ hjj]; exact h
    · simp only [List.mem_cons, Prod.mk.injEq] at h
      rcases h with ⟨rfl, rfl⟩ | h
      · left; rw [recUpd_same]; simp
      · right; exact h

/-- **the timeout messages `msgs` are delivered one after the other** (any order) -/
theorem rec_deliver (k : Keys) (C : SysCfg) (D : RecData) (s0 : Nat → RState) (ℓ : Nat) (T0 : List (Nat × Atom))
    (hS : RecSetup k C D s0 ℓ T0) :
    ∀ (msgs : List (Nat × Nat)) (rec : Nat → List Nat) (x : SysState × Msgs),
      RecInv k C D s0 ℓ T0 rec x → msgs.Nodup →
      (∀ p ∈ msgs, p.1 ∈ C.honest ∧ p.2 ∈ C.honest ∧ p.2 ≠ p.1 ∧ p.2 ∉ rec p.1) →
      RecInv k C D s0 ℓ T0 (recAll rec msgs)
        (deliverAll k C x (msgs.map fun p => (p.1, Ev.timeout (D.tmsg C p.2)))) := by
  intro msgs
  induction msgs with
  | nil => intro rec x h _ _; exact h
  | cons p rest ih =>
    intro rec x h hnd hall
    obtain ⟨j, i⟩ := p
    obtain ⟨σ, acc⟩ := x
    obtain ⟨h1, h2, h3, h4⟩ := hall (j, i) (by simp)
    have hstep := rec_step k C D s0 ℓ T0 hS rec σ acc j i h h1 h2 h3 h4
    simp only [List.map_cons]
    rw [show ((j, Ev.timeout (D.tmsg C i)) :: rest.map fun p => (p.1, Ev.timeout (D.tmsg C p.2))) =
      [(j, Ev.timeout (D.tmsg C i))] ++ rest.map fun p => (p.1, Ev.timeout (D.tmsg C p.2)) from rfl, deliverAll_append]
    unfold recAll
    apply ih _ _ hstep (List.nodup_cons.mp hnd).2
    intro p hp
    obtain ⟨q1, q2, q3, q4⟩ := hall p (by simp [hp])
    refine ⟨q1, q2, q3, ?_⟩
    by_cases hpj : p.1 = j
    · rw [hpj, recUpd_same]
      simp only [List.mem_append, List.mem_singleton, not_or]
      refine ⟨by rw [← hpj]; exact q4, ?_⟩
      intro e
      have : p = (j, i) := by
        obtain ⟨a, b⟩ := p
        simp only at hpj e
        rw [hpj, e]
      exact (List.nodup_cons.mp hnd).1 (this ▸ hp)
    · rw [recUpd_other _ _ _ _ hpj]; exact q4


theorem nodup_length_le (l : List Nat) : ∀ (l' : List Nat), l.Nodup → (∀ x ∈ l, x ∈ l') → l.length ≤ l'.length := by
  induction l with
  | nil => intro l' _ _; simp
  | cons a rest ih =>
    intro l' hn hs
    rw [List.nodup_cons] at hn
    have ha : a ∈ l' := hs a (by simp)
    have := ih (l'.erase a) hn.2 (by
      intro x hx
      have hxa : x ≠ a := fun e => hn.1 (e ▸ hx)
      exact (List.mem_erase_of_ne hxa).mpr (hs x (by simp [hx])))
    rw [List.length_erase_of_mem ha] at this
    have hpos : 0 < l'.length := List.length_pos_of_mem ha
    simp only [List.length_cons]
    omega

/-- the initial state of the scenario: replica `j` is in state `s0 j`, the table is `T0` -/
structure RecStart (C : SysCfg) (s0 : Nat → RState) (T0 : List (Nat × Atom)) (σ : SysState) : Prop where
  fresh : FreshL σ.truth σ.nextBytes
  keys : σ.reps.map (·.1) = C.honest
  truth : σ.truth = T0
  reps : ∀ j ∈ C.honest, σ.reps.lookup j = some (s0 j)

/-- a delivery order of the timeout messages: every message (receiver `p.1`, sender `p.2 ≠ p.1`) exactly once -/
structure FullOrder (C : SysCfg) (msgs : List (Nat × Nat)) : Prop where
  nodup : msgs.Nodup
  valid : ∀ p ∈ msgs, p.1 ∈ C.honest ∧ p.2 ∈ C.honest ∧ p.2 ≠ p.1
  full : ∀ j ∈ C.honest, ∀ i ∈ C.honest, i ≠ j → (j, i) ∈ msgs

/-- **Recovery**: all replicas are in view `v` and have timed out (`RecSetup`); the timeout messages
are delivered, in ANY order `msgs`.  Then every replica is in a view `≥ v + 1`; the leader `ℓ` of view
`v + 1` has proposed a block `b'` of view `v + 1` on a certificate `hq i` that is the highest of a
quorum (`Top`), the proposal is in flight to every other replica; and every other replica, in the
state it is in then, votes for `b'` when it receives the proposal: it stores `b'`, signs it, and
sends the signature as its vote to the leader of view `v + 2` (unless it is that leader). -/
theorem recovery_round (k : Keys) (C : SysCfg) (D : RecData) (s0 : Nat → RState) (ℓ : Nat) (T0 : List (Nat × Atom))
    (hS : RecSetup k C D s0 ℓ T0) (σ0 : SysState) (h0 : RecStart C s0 T0 σ0)
    (msgs : List (Nat × Nat)) (hm : FullOrder C msgs) :
    ∃ (i : Nat) (b' : Block),
      i ∈ C.honest ∧ Top C D i ∧
      b'.view = D.v + 1 ∧ b'.qc = D.hq i ∧ b'.parent = (D.hq i).hash ∧ b'.proposer = ℓ ∧
      (∀ j ∈ C.honest, j ≠ ℓ →
        (j, Ev.propose ℓ b' none) ∈ (deliverAll k C (σ0, []) (msgs.map fun p => (p.1, Ev.timeout (D.tmsg C p.2)))).2) ∧
      (∀ j ∈ C.honest, ∃ s,
        (deliverAll k C (σ0, []) (msgs.map fun p => (p.1, Ev.timeout (D.tmsg C p.2)))).1.reps.lookup j = some s ∧
        D.v + 1 ≤ s.view) ∧
      (∀ j ∈ C.honest, j ≠ ℓ → ∃ s bytes,
        (deliverAll k C (σ0, []) (msgs.map fun p => (p.1, Ev.timeout (D.tmsg C p.2)))).1.reps.lookup j = some s ∧
        s.view = D.v + 1 ∧
        (let σ1 := (deliverAll k C (σ0, []) (msgs.map fun p => (p.1, Ev.timeout (D.tmsg C p.2)))).1
         let r := step k (C.rcfg j) { s with truth := σ1.truth, nextBytes := σ1.nextBytes } (.propose ℓ b' none)
         Has b'.hash r.1 ∧ Out.sign (blkMsg b'.hash) ∈ r.2 ∧
         r.1.truth.lookup bytes = some ⟨j, blkMsg b'.hash⟩ ∧
         ((C.rcfg j).leader (D.v + 1 + 1) ≠ j →
           Out.sendVote ((C.rcfg j).leader (D.v + 1 + 1)) (.multi C.scheme [⟨j, bytes⟩]) b'.hash ∈ r.2))) := by
  have hq : 2 ≤ (C.rcfg 0).cfg.quorum ∧ (C.rcfg 0).cfg.quorum ≤ C.n := quorum_bounds C.n hS.two
  -- the initial invariant
  have hinit : RecInv k C D s0 ℓ T0 (fun _ => []) (σ0, []) := by
    refine ⟨h0.fresh, h0.keys, by intro b a hb; rw [h0.truth]; exact hb, by intro j _; simp, ?_, ?_, ?_⟩
    · intro j hj _
      exact ⟨s0 j, h0.reps j hj, fun _ => (hS.init j hj).1, fun h => by simp at h; omega⟩
    · intro _
      exact ⟨s0 ℓ, h0.reps ℓ hS.lmem, (hS.init ℓ hS.lmem).1⟩
    · intro h; simp at h; omega
  have hfin := rec_deliver k C D s0 ℓ T0 hS msgs (fun _ => []) (σ0, []) hinit hm.nodup
    (fun p hp => ⟨(hm.valid p hp).1, (hm.valid p hp).2.1, (hm.valid p hp).2.2, by simp⟩)
  -- everybody has received everybody's message
  have hlen : ∀ j ∈ C.honest, (C.rcfg 0).cfg.quorum ≤ (recAll (fun _ => []) msgs j).length + 1 := by
    intro j hj
    obtain ⟨hnd, hmem⟩ := hfin.recs j hj
    have : C.honest.length ≤ (j :: recAll (fun _ => []) msgs j).length := by
      apply nodup_length_le _ _ hS.nodup
      intro x hx
      by_cases hxj : x = j
      · simp [hxj]
      · exact List.mem_cons_of_mem _ (recAll_mem msgs _ j x (Or.inr (hm.full j hj x hx hxj)))
    simp only [List.length_cons] at this
    have := hS.all
    omega
  obtain ⟨sl, b', hll, hvl, p1, p2, p3, p4, p5⟩ := hfin.leaderM (hlen ℓ hS.lmem)
  let recl := recAll (fun _ => []) msgs ℓ
  let Q := ℓ :: recl.take ((C.rcfg 0).cfg.quorum - 1)
  let i := absI D.bv ℓ (recl.take ((C.rcfg 0).cfg.quorum - 1))
  obtain ⟨hndl, hmeml⟩ := hfin.recs ℓ hS.lmem
  have hQh : ∀ x ∈ Q, x ∈ C.honest := by
    intro x hx
    simp only [Q, List.mem_cons] at hx
    rcases hx with rfl | hx
    · exact hS.lmem
    · exact hmeml x (List.mem_of_mem_take hx)
  have hiQ : i ∈ Q := absI_mem D.bv _ ℓ
  have hih : i ∈ C.honest := hQh i hiQ
  have htop : Top C D i := by
    refine ⟨Q, ?_, hQh, ?_, hiQ, ?_⟩
    · exact List.Sublist.nodup (List.Sublist.cons_cons ℓ (List.take_sublist _ _)) hndl
    · have hl := hlen ℓ hS.lmem
      have hle : (C.rcfg 0).cfg.quorum - 1 ≤ recl.length := by
        show _ ≤ (recAll (fun _ => []) msgs ℓ).length; omega
      show (C.rcfg 0).cfg.quorum ≤ (recl.take ((C.rcfg 0).cfg.quorum - 1)).length + 1
      rw [List.length_take, Nat.min_eq_left hle]
      omega
    · intro x hx
      obtain ⟨h1, h2⟩ := absI_max D.bv (recl.take ((C.rcfg 0).cfg.quorum - 1)) ℓ
      simp only [Q, List.mem_cons] at hx
      rcases hx with rfl | hx
      · exact h1
      · exact h2 x hx
  refine ⟨i, b', hih, htop, p1, p2, by rw [p3, p2], p4, p5, ?_, ?_⟩
  · intro j hj
    by_cases hjl : j = ℓ
    · subst hjl; exact ⟨sl, hll, hvl⟩
    · obtain ⟨s, q1, _, q3⟩ := hfin.others j hj hjl
      have hmv := q3 (hlen j hj)
      exact ⟨s, q1, by rw [hmv.view]; exact Nat.le_refl _⟩
  · intro j hj hjl
    obtain ⟨s, q1, _, q3⟩ := hfin.others j hj hjl
    have hmv := q3 (hlen j hj)
    let σ1 := (deliverAll k C (σ0, []) (msgs.map fun p => (p.1, Ev.timeout (D.tmsg C p.2)))).1
    let sT : RState := { s with truth := σ1.truth, nextBytes := σ1.nextBytes }
    have hknow : KnowsAll k C D j sT :=
      (hS.init j hj).2.2.2.mono (by show s.chain = (s0 j).chain; exact hmv.frame.chain) (fun b a hb => hfin.table b a hb)
    obtain ⟨a1, a2, a3, a4⟩ := hknow.qc i hih
    have hready : RuleReady (C.rcfg j) sT (D.v + 1) (D.hb i) :=
      ruleReady_congr (C.rcfg j) (s0 j) sT _ _ hmv.frame.chain hmv.frame.lock (hS.cover j hj i hih htop)
    have hbv : b'.view = sT.view := by rw [p1]; exact hmv.view.symm
    obtain ⟨bytes, r1, r2, r3, _, r5⟩ := step_propose_votes k (C.rcfg j) sT ℓ b' (D.hb i) hS.scheme hS.agg (hS.range j hj) hfin.fresh
      hbv (by rw [p1]; show s.lastVoted < _; rw [hmv.frame.lastVoted]; have := (hS.init j hj).2.2.1; omega)
      (by rw [p1]; exact (hS.leader j hj).symm) p3 (by rw [p1, p2]; exact Nat.lt_succ_of_lt a4) (by rw [p2]; exact a1) (by rw [p2]; exact a2)
      (by intro s' hc hl
          exact voteRule_ready (C.rcfg j) s' b' (D.hb i) _ (by rw [p1]; exact ruleReady_congr (C.rcfg j) sT s' _ _ hc hl hready)
            (by rw [hc, p2]; exact a2) (Nat.le_refl _) p3)
      hmv.queue
    refine ⟨s, bytes, q1, hmv.view, r1, r2, r3, ?_⟩
    intro hne
    have := r5 (by rw [p1]; exact hne)
    rw [p1] at this
    exact this

deriving instance DecidableEq for AggQC, SyncInfo, TimeoutMsg

/-- the order in which `syncRound` delivers the timeout messages: sender by sender -/
def senderMajor (C : SysCfg) : List (Nat × Nat) :=
  C.honest.flatMap fun i => (C.honest.filter (· != i)).map fun j => (j, i)

theorem nodup_map_pair (l : List Nat) (i : Nat) (h : l.Nodup) : (l.map fun j => (j, i)).Nodup := by
  rw [List.nodup_iff_pairwise_ne, List.pairwise_map]
  rw [List.nodup_iff_pairwise_ne] at h
  exact h.imp (fun hne e => hne (by simpa using e))

theorem senderMajor_nodup (H : List Nat) (hH : H.Nodup) : ∀ (l : List Nat), l.Nodup →
    (l.flatMap fun i => (H.filter (· != i)).map fun j => (j, i)).Nodup := by
  intro l
  induction l with
  | nil => intro _; simp
  | cons i rest ih =>
    intro hn
    rw [List.nodup_cons] at hn
    simp only [List.flatMap_cons]
    rw [List.nodup_append]
    refine ⟨?_, ih hn.2, ?_⟩
    · exact nodup_map_pair _ i (hH.filter _)
    · intro a ha b hb
      simp only [List.mem_map, List.mem_filter] at ha
      obtain ⟨x, _, rfl⟩ := ha
      simp only [List.mem_flatMap, List.mem_map, List.mem_filter] at hb
      obtain ⟨y, hy, z, _, rfl⟩ := hb
      intro e
      simp only [Prod.mk.injEq] at e
      exact hn.1 (e.2 ▸ hy)

theorem senderMajor_full (C : SysCfg) (hn : C.honest.Nodup) : FullOrder C (senderMajor C) := by
  refine ⟨senderMajor_nodup C.honest hn C.honest hn, ?_, ?_⟩
  · intro p hp
    simp only [senderMajor, List.mem_flatMap, List.mem_map, List.mem_filter, bne_iff_ne, ne_eq] at hp
    obtain ⟨i, hi, j, ⟨hj, hji⟩, rfl⟩ := hp
    exact ⟨hj, hi, fun e => hji e.symm⟩
  · intro j hj i hi hij
    simp only [senderMajor, List.mem_flatMap, List.mem_map, List.mem_filter, bne_iff_ne, ne_eq]
    exact ⟨i, hi, j, ⟨hj, fun e => hij e.symm⟩, rfl⟩


/-- the recovery theorem for the synchronous network: one `syncRound` delivers the timeout messages
sender by sender -/
theorem recovery_syncRound (k : Keys) (C : SysCfg) (D : RecData) (s0 : Nat → RState) (ℓ : Nat) (T0 : List (Nat × Atom))
    (hS : RecSetup k C D s0 ℓ T0) (x : SysState × Msgs) (h0 : RecStart C s0 T0 x.1)
    (hx : x.2 = (senderMajor C).map fun p => (p.1, Ev.timeout (D.tmsg C p.2))) :
    ∃ (i : Nat) (b' : Block),
      i ∈ C.honest ∧ Top C D i ∧
      b'.view = D.v + 1 ∧ b'.qc = D.hq i ∧ b'.parent = (D.hq i).hash ∧ b'.proposer = ℓ ∧
      (∀ j ∈ C.honest, j ≠ ℓ → (j, Ev.propose ℓ b' none) ∈ (syncRound k C x).2) ∧
      (∀ j ∈ C.honest, ∃ s, (syncRound k C x).1.reps.lookup j = some s ∧ D.v + 1 ≤ s.view) := by
  obtain ⟨i, b', h1, h2, h3, h4, h5, h6, h7, h8, _⟩ := recovery_round k C D s0 ℓ T0 hS x.1 h0 (senderMajor C)
    (senderMajor_full C hS.nodup)
  refine ⟨i, b', h1, h2, h3, h4, h5, h6, ?_, ?_⟩
  · unfold syncRound; rw [hx]; exact h7
  · unfold syncRound; rw [hx]; exact h8

/-- **quorum intersection, as the recovery argument uses it**: if the certified blocks of more than
`n - quorum` replicas (`Cov`) have view at least `w`, so has the certified block of every
certificate that is the highest of a quorum — any quorum contains a replica of `Cov` -/
theorem top_covers (C : SysCfg) (D : RecData) (hall : C.honest.length = C.n) (Cov : List Nat) (w i : Nat)
    (hnd : Cov.Nodup) (hmem : ∀ x ∈ Cov, x ∈ C.honest) (hbig : C.n < Cov.length + (C.rcfg 0).cfg.quorum)
    (hw : ∀ x ∈ Cov, w ≤ D.bv x) (ht : Top C D i) : w ≤ D.bv i := by
  obtain ⟨Q, hQn, hQm, hQl, _, hQmax⟩ := ht
  -- `Q` and `Cov` meet
  have hmeet : ∃ x, x ∈ Q ∧ x ∈ Cov := by
    apply Classical.byContradiction
    intro hno
    have hdis : ∀ x ∈ Q, x ∉ Cov := fun x hx hc => hno ⟨x, hx, hc⟩
    have hn : (Q ++ Cov).Nodup := by
      rw [List.nodup_append]
      exact ⟨hQn, hnd, fun a ha b hb e => hdis a ha (e ▸ hb)⟩
    have := nodup_length_le (Q ++ Cov) C.honest hn (by
      intro x hx
      simp only [List.mem_append] at hx
      rcases hx with hx | hx
      · exact hQm x hx
      · exact hmem x hx)
    simp only [List.length_append] at this
    omega
  obtain ⟨x, hxQ, hxC⟩ := hmeet
  exact Nat.le_trans (hw x hxC) (hQmax x hxQ)

end HsVerif.Model
