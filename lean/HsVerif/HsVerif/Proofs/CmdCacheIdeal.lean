import HsVerif.Proofs.CmdCache
import HsVerif.Spec.BatchQueue
/-! The cache model refines the ideal batching queue (one caller at a time). -/
set_option linter.unusedVariables false
namespace HsVerif.Model.CmdCache
open HsVerif.Spec.BatchQueue

theorem topAfter_lt (b : List Cmd) (x n : Nat) : ∀ a,
    topAfter b x a < n ↔ a < n ∧ ∀ p ∈ b, p.client = x → p.seq < n := by
  induction b with
  | nil => intro a; simp [topAfter]
  | cons p ps ih =>
    intro a
    simp only [topAfter, List.foldl_cons] at ih ⊢
    rw [ih]
    by_cases hp : p.client = x
    · simp only [hp, ↓reduceIte, List.mem_cons, forall_eq_or_imp, true_implies]
      constructor
      · rintro ⟨h1, h2⟩; exact ⟨by omega, by omega, h2⟩
      · rintro ⟨h1, h2, h3⟩; exact ⟨by omega, h3⟩
    · simp only [hp, ↓reduceIte, List.mem_cons, forall_eq_or_imp, false_implies, true_and]

theorem isFresh_queue (i : Ideal) (q : List Cmd) : ({ i with queue := q } : Ideal).isFresh = i.isFresh := rfl

structure Ref (bs : Nat) (s : Cache) (i : Ideal) : Prop where
  hbs : s.bs = bs
  hfresh : ∀ c, fresh s.marks c = i.isFresh c
  howed : freshOf s.marks s.cache = i.owed
  hready : ReadyInv s

theorem freshOf_congr {m : Marks} {i : Ideal} (h : ∀ c, fresh m c = i.isFresh c) (l : List Cmd) :
    freshOf m l = l.filter i.isFresh := by
  unfold freshOf; exact List.filter_congr (fun x _ => h x)

theorem ref_init (bs : Nat) (h1 : 1 ≤ bs) : Ref bs (Cache.new bs) {} :=
  ⟨rfl, fun c => by simp [Cache.new, fresh, isDup, Ideal.isFresh, get_nil, Nat.pos_iff_ne_zero],
   by simp [Cache.new, freshOf, Ideal.owed], ReadyInv.init bs h1⟩

theorem ref_add {bs : Nat} {s : Cache} {i : Ideal} (r : Ref bs s i) (c : Cmd) :
    Ref bs (add s c) { i with queue := i.queue ++ [c] } := by
  refine ⟨by rw [add_bs]; exact r.hbs, ?_, ?_, r.hready.add c⟩
  · intro x
    have : (add s c).marks = s.marks := by
      unfold CmdCache.add; split
      · rfl
      · simp only; split <;> rfl
    rw [this]; exact r.hfresh x
  · have hf := r.hfresh c
    have ho := r.howed
    unfold CmdCache.add
    by_cases hd : isDup s.marks c = true
    · have : i.isFresh c = false := by rw [← hf]; simp [fresh, hd]
      simp only [hd, ↓reduceIte]
      rw [ho]
      simp [Ideal.owed, List.filter_append, this, isFresh_queue]
    · have hd' : isDup s.marks c = false := by simpa using hd
      have hfc : i.isFresh c = true := by rw [← hf]; simp [fresh, hd']
      have key : freshOf s.marks (s.cache ++ [c]) = (i.queue ++ [c]).filter i.isFresh := by
        simp only [freshOf, List.filter_append]
        have : List.filter (fresh s.marks) s.cache = List.filter i.isFresh i.queue := ho
        rw [this]; simp [fresh, hd', hfc]
      simp only [hd', Bool.false_eq_true, ↓reduceIte]
      split <;> exact key

theorem ref_proposed {bs : Nat} {s : Cache} {i : Ideal} (r : Ref bs s i) (b : List Cmd) : Ref bs (proposed s b) (i.mark b) := by
  have hf : ∀ c, fresh (proposed s b).marks c = (i.mark b).isFresh c := by
    intro c
    simp only [CmdCache.proposed, fresh_foldl_mark, r.hfresh c, Ideal.isFresh, Ideal.mark]
    have := topAfter_lt b c.client c.seq (i.top c.client)
    by_cases h1 : i.top c.client < c.seq
    · by_cases h2 : freshHm b c = true
      · have h3 : ∀ p ∈ b, p.client = c.client → p.seq < c.seq := by
          intro p hp hc
          simp only [freshHm, List.all_eq_true] at h2
          have := h2 p hp
          simp [hc] at this; exact this
        simp [h1, h2, this.mpr ⟨h1, h3⟩]
      · have h2' : freshHm b c = false := by simpa using h2
        have h3 : ¬ topAfter b c.client (i.top c.client) < c.seq := by
          intro hlt
          apply h2
          simp only [freshHm, List.all_eq_true]
          intro p hp
          by_cases hc : p.client = c.client
          · simp [hc, (this.mp hlt).2 p hp hc]
          · simp [hc]
        simp [h1, h2', h3]
    · have h3 : ¬ topAfter b c.client (i.top c.client) < c.seq := fun hlt => h1 (this.mp hlt).1
      simp [h1, h3]
  refine ⟨r.hbs, hf, ?_, r.hready.proposed b⟩
  rw [freshOf_congr hf]
  simp only [CmdCache.proposed, Ideal.owed, Ideal.mark]
  -- cache and queue are unchanged; both sides filter by the new predicate, which implies the old
  have hold : ∀ c, (i.mark b).isFresh c = true → i.isFresh c = true := by
    intro c hc
    simp only [Ideal.isFresh, Ideal.mark] at hc ⊢
    apply decide_eq_true
    exact ((topAfter_lt b c.client c.seq (i.top c.client)).mp (of_decide_eq_true hc)).1
  have e1 : s.cache.filter (i.mark b).isFresh = (s.cache.filter i.isFresh).filter (i.mark b).isFresh := by
    rw [List.filter_filter]; apply List.filter_congr; intro x _
    cases h : (i.mark b).isFresh x
    · simp
    · simp [hold x h]
  have e2 : i.queue.filter (i.mark b).isFresh = (i.queue.filter i.isFresh).filter (i.mark b).isFresh := by
    rw [List.filter_filter]; apply List.filter_congr; intro x _
    cases h : (i.mark b).isFresh x
    · simp
    · simp [hold x h]
  have := r.howed
  rw [freshOf_congr r.hfresh] at this
  simp only [Ideal.owed] at this
  show s.cache.filter (i.mark b).isFresh = i.queue.filter (i.mark b).isFresh
  rw [e1, e2, this]

/-- the locked body against `Ideal.take` -/
theorem ref_body {bs : Nat} {s : Cache} {i : Ideal} (hbs : s.bs = bs) (hfresh : ∀ c, fresh s.marks c = i.isFresh c)
    (howed : freshOf s.marks s.cache = i.owed) :
    (∀ b i', i.take bs = some (b, i') →
        (getLocked s).1 = .batch b ∧ Ref bs (getLocked s).2 i') ∧
    (i.take bs = none → getLocked s = (.again, s)) := by
  constructor
  · intro b i' ht
    simp only [Ideal.take] at ht
    split at ht
    · rename_i hle
      simp only [Option.some.injEq, Prod.mk.injEq] at ht
      obtain ⟨hb, hi⟩ := ht
      have hle' : s.bs ≤ (freshOf s.marks s.cache).length := by rw [hbs, howed]; exact hle
      obtain ⟨s', hg, hb', hm, hf, hr, _⟩ := getLocked_batch s hle'
      rw [hg]
      refine ⟨by simp only; rw [hbs, howed, hb], hb'.trans hbs, ?_, ?_, ?_⟩
      · intro c; simp only; rw [hm]; subst hi; exact hfresh c
      · simp only; rw [hm, hf, hbs, howed]; subst hi
        simp only [Ideal.owed]
        symm
        rw [List.filter_eq_self]
        intro a ha
        have : a ∈ i.queue.filter i.isFresh := (List.drop_sublist _ _).subset ha
        simp only [List.mem_filter] at this
        exact this.2
      · intro hl
        simp only at hl ⊢
        have := freshOf_length_le s'.marks s'.cache
        have : s.bs ≤ s'.cache.length := by rw [hb'] at hl; omega
        simp [hr, this]
    · simp at ht
  · intro hn
    simp only [Ideal.take] at hn
    split at hn
    · simp at hn
    · rename_i hlt
      apply getLocked_again
      rw [hbs, howed]; omega

theorem ref_step {bs : Nat} {s : Cache} {i : Ideal} (r : Ref bs s i) (op : Op) :
    (seqStep s op).2 = (step bs i op).2 ∧ Ref bs (seqStep s op).1 (step bs i op).1 := by
  have hb0 := ref_body (s := { s with ready := false }) (i := i) r.hbs r.hfresh r.howed
  have hb1 := ref_body (s := s) (i := i) r.hbs r.hfresh r.howed
  have hrdy : ∀ b i', i.take bs = some (b, i') → s.ready = true := by
    intro b i' ht
    apply r.hready
    simp only [Ideal.take] at ht
    split at ht
    · rename_i hle; rw [r.hbs, r.howed]; exact hle
    · simp at ht
  have hkeep : Ref bs { s with ready := false } i → i.take bs = none → Ref bs { s with ready := false } i :=
    fun h _ => h
  have hnone : i.take bs = none → Ref bs { s with ready := false } i := by
    intro hn
    refine ⟨r.hbs, r.hfresh, r.howed, ?_⟩
    intro hle
    simp only [Ideal.take] at hn
    split at hn
    · simp at hn
    · rename_i hlt
      simp only at hle
      rw [r.hbs, r.howed] at hle; omega
  cases op with
  | add c => exact ⟨rfl, ref_add r c⟩
  | proposed b => exact ⟨rfl, ref_proposed r b⟩
  | get =>
    cases ht : i.take bs with
    | some p =>
      obtain ⟨b, i'⟩ := p
      obtain ⟨h1, h2⟩ := hb0.1 b i' ht
      have hr := hrdy b i' ht
      rcases hg : getLocked { s with ready := false } with ⟨x, s'⟩
      rw [hg] at h1 h2; simp only at h1 h2; subst h1
      simp [seqStep, step, ht, hr, hg, h2]
    | none =>
      have hg := hb0.2 ht
      by_cases hr : s.ready = true
      · simp [seqStep, step, ht, hr, hg, hnone ht]
      · simp [seqStep, step, ht, hr, r]
  | getc take =>
    cases take with
    | false => simp [seqStep, step, r]
    | true =>
      cases ht : i.take bs with
      | some p =>
        obtain ⟨b, i'⟩ := p
        obtain ⟨h1, h2⟩ := hb0.1 b i' ht
        have hr := hrdy b i' ht
        rcases hg : getLocked { s with ready := false } with ⟨x, s'⟩
        rw [hg] at h1 h2; simp only at h1 h2; subst h1
        simp [seqStep, step, ht, hr, hg, h2]
      | none =>
        have hg := hb0.2 ht
        by_cases hr : s.ready = true
        · simp [seqStep, step, ht, hr, hg, hnone ht]
        · simp [seqStep, step, ht, hr, r]
  | body =>
    cases ht : i.take bs with
    | some p =>
      obtain ⟨b, i'⟩ := p
      obtain ⟨h1, h2⟩ := hb1.1 b i' ht
      rcases hg : getLocked s with ⟨x, s'⟩
      rw [hg] at h1 h2; simp only at h1 h2; subst h1
      simp [seqStep, step, ht, hg, h2]
    | none =>
      have hg := hb1.2 ht
      simp [seqStep, step, ht, hg, r]

theorem run_refines (bs : Nat) : ∀ (ops : List Op) (s : Cache) (h : Hist) (i : Ideal), Ref bs s i →
    (run s h ops).2.2 = runIdeal bs i ops := by
  intro ops
  induction ops with
  | nil => intro s h i _; simp [run, runIdeal]
  | cons op ops ih =>
    intro s h i r
    obtain ⟨h1, h2⟩ := ref_step r op
    simp only [run, runIdeal]
    rw [h1, ih _ _ _ h2]

end HsVerif.Model.CmdCache
