import HsVerif.Proofs.ReplicaFresh
/-!
Vocabulary for the lock rule at replica level (C01 layer B): walking stored parent links, what the
vote rule guarantees relative to a lock, what a vote obliges the lock to cover, and where the lock
comes from.  Definitions only; the invariants are proved in `ReplicaLockInv.lean` /
`ReplicaRule.lean`, the system-level assembly uses them through stored-block lookups, which are
stable (`Grows`).
-/
namespace HsVerif.Model

/-- the block stored under `h` in the replica's block map -/
def sget (s : RState) (h : Hash) : Option Block := s.chain.blocks.lookup h

/-- `w` reaches `l` as `Blockchain.Extends(w, l)` finds it: follow stored parent links while the
view is above `l`'s, then compare hashes -/
inductive StoreExt (s : RState) : Block → Block → Prop
  | here (w l : Block) : ¬ (w.view > l.view) → w.hash = l.hash → StoreExt s w l
  | up (w p l : Block) : w.view > l.view → sget s w.parent = some p → StoreExt s p l → StoreExt s w l

/-- what a positive vote-rule answer for `w` means relative to the lock `L` it was evaluated with -/
def RuleHolds (c : RCfg) (s : RState) (w L : Block) : Prop :=
  match c.rules with
  | .chained => (∃ p, sget s w.qc.hash = some p ∧ p.view > L.view) ∨ StoreExt s w L
  | .simple => ∃ p, sget s w.qc.hash = some p ∧ L.view ≤ p.view
  | .fast => True

/-- the lock covers the grandparent (by certificate links) of a voted block `x`: the block certified
by `x`'s QC is stored, and either it carries no certificate hash or the block IT certifies is stored
and is not above the lock -/
def LockCovers (s : RState) (x : Block) : Prop :=
  ∃ p, sget s x.qc.hash = some p ∧ (p.qc.hash = "" ∨ ∃ g, sget s p.qc.hash = some g ∧ g.view ≤ s.lock.view)

/-- the lock is genesis or the stored grandparent (by certificate links) of a block voted for -/
def LockFrom (s : RState) : Prop :=
  s.lock = genesisBlock ∨
  ∃ x id p, GRec.vote x id ∈ s.ghost ∧ sget s x.qc.hash = some p ∧ p.qc.hash ≠ "" ∧ sget s p.qc.hash = some s.lock

end HsVerif.Model
