import HsVerif.Proofs.SysLedger
import HsVerif.Proofs.ReplicaSignal
/-!
The remaining clauses of C07 (task S7), system level.  Helpers; the property theorems are in
Props/C07Signal.lean.

1. `sysStep_rep_rel`: a relation between replica states that is reflexive, holds across `start` and `step`
   (from the state with the global signature table installed) and across a change of the fetchable blocks
   holds across ANY action of the system, for every replica — no reachability needed.
2. The run with signalled views `sysStepV` / `sysRunV` (like `sysStepL` / `sysRunL` of Proofs/SysLedger.lean:
   the views of the `Out.viewChange` outputs of the step that replica `i` takes in an action are appended to
   `V i`), the invariant `SigInv` (`VCInv (V i) s` for every replica) and its preservation `sysStepV_inv`,
   `sysRunV_inv` — for runs in which the adversary does not deliver `Ev.viewChange` events (`SysAct.noVC`).
3. `reach_vcwait`: no view-change event waits in a deferred list of a reachable replica state (ANY actions);
   `sysStep_deliver_lookup`, `sysStep_start_lookup`: the state and outputs of the replica that takes the step.
-/
set_option linter.unusedVariables false
namespace HsVerif.SysSignal
open HsVerif.Model HsVerif.Props HsVerif.Props.C01Sys HsVerif.SysLedger

/-- **one replica across one action**: a reflexive relation that holds across `start`, `step` and a change
of the fetchable blocks holds across any action -/
theorem sysStep_rep_rel (k : Keys) (C : SysCfg) (σ : SysState) (a : SysAct) (R : Nat → RState → RState → Prop)
    (hrefl : ∀ i s, R i s s)
    (hstart : ∀ i s t nb, R i s (start k (C.rcfg i) { s with truth := t, nextBytes := nb }).1)
    (hstep : ∀ i s t nb e, R i s (step k (C.rcfg i) { s with truth := t, nextBytes := nb } e).1)
    (hfetch : ∀ i s l, R i s { s with chain := { s.chain with fetchable := l } })
    (i : Nat) (s s' : RState) (hs : σ.reps.lookup i = some s) (hs' : (sysStep k C σ a).reps.lookup i = some s') :
    R i s s' := by
  have hrun : ∀ (j : Nat) (f : RState → RState × List Out),
      (∀ sx t nb, R j sx (f { sx with truth := t, nextBytes := nb }).1) →
      (σ.run j f).reps.lookup i = some s' → R i s s' := by
    intro j f hf
    unfold SysState.run
    split
    · intro h
      have : some s = some s' := by rw [← hs, ← h]
      cases this; exact hrefl i s
    · rename_i sj hj
      intro h
      by_cases hij : i = j
      · subst hij
        simp only [lookup_setKV_self] at h
        cases h
        have : some s = some sj := by rw [← hs, ← hj]
        cases this
        exact hf s σ.truth σ.nextBytes
      · simp only [lookup_setKV_ne _ _ _ _ hij] at h
        have : some s = some s' := by rw [← hs, ← h]
        cases this; exact hrefl i s
  cases a with
  | start j => exact hrun j _ (fun sx t nb => hstart j sx t nb) hs'
  | deliver j e => exact hrun j _ (fun sx t nb => hstep j sx t nb e) hs'
  | fetchable j l =>
    simp only [sysStep] at hs'
    split at hs'
    · have : some s = some s' := by rw [← hs, ← hs']
      cases this; exact hrefl i s
    · rename_i sj hj
      by_cases hij : i = j
      · subst hij
        simp only [lookup_setKV_self] at hs'
        cases hs'
        have : some s = some sj := by rw [← hs, ← hj]
        cases this
        exact hfetch i s l
      · simp only [lookup_setKV_ne _ _ _ _ hij] at hs'
        have : some s = some s' := by rw [← hs, ← hs']
        cases this; exact hrefl i s
  | forge a =>
    simp only [sysStep] at hs'
    split at hs'
    · have : some s = some s' := by rw [← hs, ← hs']
      cases this; exact hrefl i s
    · have : some s = some s' := by rw [← hs, ← hs']
      cases this; exact hrefl i s

/-! ### the run with signalled views -/

/-- `sysStep`, appending the views of the `Out.viewChange` outputs of the step to the list of the replica
that took it -/
def sysStepV (k : Keys) (C : SysCfg) (p : SysState × (Nat → List Nat)) (a : SysAct) :
    SysState × (Nat → List Nat) :=
  (sysStep k C p.1 a,
    match stepOuts k C p.1 a with
    | some (i, outs) => fun j => if j = i then p.2 j ++ vcOuts outs else p.2 j
    | none => p.2)

theorem sysStepV_fst (k : Keys) (C : SysCfg) (p : SysState × (Nat → List Nat)) (a : SysAct) :
    (sysStepV k C p a).1 = sysStep k C p.1 a := rfl

def sysRunV (k : Keys) (C : SysCfg) (acts : List SysAct) : SysState × (Nat → List Nat) :=
  acts.foldl (sysStepV k C) (sysInit k C, fun _ => [])

theorem sysRunV_snoc (k : Keys) (C : SysCfg) (acts : List SysAct) (a : SysAct) :
    sysRunV k C (acts ++ [a]) = sysStepV k C (sysRunV k C acts) a := by
  simp [sysRunV, List.foldl_append]

theorem sysRunV_fst (k : Keys) (C : SysCfg) (acts : List SysAct) : (sysRunV k C acts).1 = sysRun k C acts := by
  refine snoc_induction (fun acts => (sysRunV k C acts).1 = sysRun k C acts) rfl ?_ acts
  intro l a ih
  rw [sysRunV_snoc, sysRun_snoc, sysStepV_fst, ih]

/-- the adversary does not inject view-change events into a replica's event loop (`Ev.viewChange` is an
internal event of the replica: synchronizer → event loop → the components registered for it) -/
def _root_.HsVerif.Model.SysAct.noVC : SysAct → Bool
  | .deliver _ e => e.noVC
  | _ => true

/-- every replica's signalled views followed by its queued view-change events are the views it entered, climbing from view 1 to its view -/
def SigInv (σ : SysState) (V : Nat → List Nat) : Prop :=
  ∀ i s, σ.reps.lookup i = some s → VCInv (V i) s

theorem sigInv_init (k : Keys) (C : SysCfg) : SigInv (sysInit k C) (fun _ => []) := by
  intro i s h
  simp only [sysInit, lookup_init] at h
  split at h
  · cases h; exact VCInv.init
  · cases h

/-- `SysState.run` with a step function that continues the sequence keeps the invariant -/
theorem run_sig {σ : SysState} (i : Nat) (f : RState → RState × List Out)
    (hf : ∀ sx : RState, vcWaiting sx = [] → VCStep sx (vcQueued sx) (f sx).1 (f sx).2)
    (V : Nat → List Nat) (h : SigInv σ V) :
    SigInv (σ.run i f)
      (match (σ.reps.lookup i).map (fun s => (i, (f { s with truth := σ.truth, nextBytes := σ.nextBytes }).2)) with
        | some (i, outs) => fun j => if j = i then V j ++ vcOuts outs else V j
        | none => V) := by
  cases hl : σ.reps.lookup i with
  | none =>
    have : σ.run i f = σ := by unfold SysState.run; rw [hl]
    rw [this]; exact h
  | some s =>
    have hrun : σ.run i f = ({ reps := setKV i (f { s with truth := σ.truth, nextBytes := σ.nextBytes }).1 σ.reps
                               truth := (f { s with truth := σ.truth, nextBytes := σ.nextBytes }).1.truth
                               nextBytes := (f { s with truth := σ.truth, nextBytes := σ.nextBytes }).1.nextBytes } : SysState) := by
      unfold SysState.run; rw [hl]
    simp only [Option.map_some]
    intro j sj hj
    by_cases hji : j = i
    · subst hji
      have hlk : (σ.run j f).reps.lookup j = some (f { s with truth := σ.truth, nextBytes := σ.nextBytes }).1 := by
        rw [hrun]; exact lookup_setKV_self _ _ _
      have : sj = (f { s with truth := σ.truth, nextBytes := σ.nextBytes }).1 := by
        have : some sj = some (f { s with truth := σ.truth, nextBytes := σ.nextBytes }).1 := by rw [← hj, ← hlk]
        cases this; rfl
      subst this
      simp only [if_true]
      have hls := (h j s hl).ext σ.truth σ.nextBytes
      exact hls.step (hf _ hls.wait)
    · simp only [if_neg hji]
      have : σ.reps.lookup j = some sj := by
        rw [hrun] at hj
        simpa only [lookup_setKV_ne _ _ _ _ hji] using hj
      exact h j sj this

/-- **one action keeps the invariant**; the action is not the delivery of a view-change event -/
theorem sysStepV_inv (k : Keys) (C : SysCfg) (σ : SysState) (a : SysAct) (ha : a.noVC = true)
    (V : Nat → List Nat) (h : SigInv σ V) : SigInv (sysStep k C σ a) (sysStepV k C (σ, V) a).2 := by
  cases a with
  | start i => exact run_sig i (start k (C.rcfg i)) (fun sx hw => start_signal k _ sx hw) V h
  | deliver i e =>
    refine run_sig i (fun s => step k (C.rcfg i) s e) (fun sx hw => ?_) V h
    have := step_signal k (C.rcfg i) sx e hw
    rw [evVCs_noVC e ha, List.append_nil] at this
    exact this
  | fetchable i l =>
    show SigInv (sysStep k C σ (.fetchable i l)) V
    simp only [sysStep]
    split
    · exact h
    · rename_i s hl
      intro j sj hj
      by_cases hji : j = i
      · subst hji
        simp only [lookup_setKV_self] at hj
        cases hj
        have := h j s hl
        exact ⟨this.wait, this.pos, this.all, this.climb⟩
      · simp only [lookup_setKV_ne _ _ _ _ hji] at hj
        exact h j sj hj
  | forge a =>
    show SigInv (sysStep k C σ (.forge a)) V
    simp only [sysStep]
    split
    · exact h
    · exact h

/-- **the invariant holds along every run without injected view-change events** -/
theorem sysRunV_inv (k : Keys) (C : SysCfg) (acts : List SysAct) :
    (∀ a ∈ acts, a.noVC = true) → SigInv (sysRun k C acts) (sysRunV k C acts).2 := by
  refine snoc_induction (fun acts => (∀ a ∈ acts, a.noVC = true) → SigInv (sysRun k C acts) (sysRunV k C acts).2) ?_ ?_ acts
  · intro _; exact sigInv_init k C
  · intro l a ih hacts
    have I := ih (fun x hx => hacts x (List.mem_append_left _ hx))
    rw [sysRun_snoc]
    have := sysStepV_inv k C _ a (hacts a (by simp)) _ I
    rw [sysRunV_snoc]
    have e : sysRunV k C l = (sysRun k C l, (sysRunV k C l).2) := by rw [← sysRunV_fst]
    rw [e]; exact this

/-! ### per action, from any reachable state -/

/-- no view-change event ever waits in a deferred list of a replica of a reachable system state — whatever
the adversary delivers, `Ev.viewChange` events included -/
theorem reach_vcwait (k : Keys) (C : SysCfg) (σ : SysState) (hr : Reach k C σ) :
    ∀ i s, σ.reps.lookup i = some s → vcWaiting s = [] := by
  induction hr with
  | init =>
    intro i s h
    simp only [sysInit, lookup_init] at h
    split at h
    · cases h; rfl
    · cases h
  | step σ a _ ih =>
    intro i s' hs'
    obtain ⟨s, hs, _⟩ := sysStep_rep_view k C σ a i s' hs'
    exact sysStep_rep_rel k C σ a (fun _ s s' => vcWaiting s = [] → vcWaiting s' = [])
      (fun _ _ h => h)
      (fun i s t nb h => (start_signal k _ { s with truth := t, nextBytes := nb } h).2.1)
      (fun i s t nb e h => (step_signal k _ { s with truth := t, nextBytes := nb } e h).2.1)
      (fun _ _ _ h => h) i s s' hs hs' (ih i s hs)

/-- the state and the outputs of the replica that takes a step in a delivery -/
theorem sysStep_deliver_lookup (k : Keys) (C : SysCfg) (σ : SysState) (i : Nat) (e : Ev) (s : RState)
    (hs : σ.reps.lookup i = some s) :
    (sysStep k C σ (.deliver i e)).reps.lookup i =
        some (step k (C.rcfg i) { s with truth := σ.truth, nextBytes := σ.nextBytes } e).1 ∧
      stepOuts k C σ (.deliver i e) =
        some (i, (step k (C.rcfg i) { s with truth := σ.truth, nextBytes := σ.nextBytes } e).2) := by
  constructor
  · simp only [sysStep, SysState.run, hs]
    exact lookup_setKV_self _ _ _
  · simp only [stepOuts, hs, Option.map_some]

theorem sysStep_start_lookup (k : Keys) (C : SysCfg) (σ : SysState) (i : Nat) (s : RState)
    (hs : σ.reps.lookup i = some s) :
    (sysStep k C σ (.start i)).reps.lookup i =
        some (start k (C.rcfg i) { s with truth := σ.truth, nextBytes := σ.nextBytes }).1 ∧
      stepOuts k C σ (.start i) =
        some (i, (start k (C.rcfg i) { s with truth := σ.truth, nextBytes := σ.nextBytes }).2) := by
  constructor
  · simp only [sysStep, SysState.run, hs]
    exact lookup_setKV_self _ _ _
  · simp only [stepOuts, hs, Option.map_some]

end HsVerif.SysSignal
