/-
Abstract safety of chained and simplified HotStuff (layer A of C01).

The system is any block forest with views, any set of replicas some of which are honest, any
family of replica sets counting as quorums such that two quorums share an honest replica
(C20 + at most f Byzantine), and any vote relation that satisfies the discipline the honest
replica model is proved / checked to follow:
  * at most one vote per view                                   (C03 votes_increasing)
  * a voted block's parent is certified (or genesis) and has a lower view   (C03 vote_wellformed)
  * the lock rule: a replica that voted for x and later (in a higher view) votes for w held a
    lock l -- a certified block or genesis, of view at least that of x's grandparent and
    below w's view -- and w's parent is higher than l or w extends l
    (chained: safeNode; simplified: parent.view >= locked.view, which is a special case)
Conclusion: if b <- b' <- b'' are directly linked with consecutive views and b'' is certified
(the commit condition of both rulesets for b), every certified block of view >= b's extends b;
hence any two blocks committed anywhere are on one branch.
-/
namespace HsVerif.Safety

structure Sys where
  Blk : Type
  Rep : Type
  gen : Blk
  view : Blk → Nat
  par : Blk → Blk
  honest : Rep → Prop
  voted : Rep → Blk → Prop
  Quorum : (Rep → Prop) → Prop

variable (S : Sys)

/-- the `k`-th ancestor -/
def up : Nat → S.Blk → S.Blk
  | 0, w => w
  | k + 1, w => up k (S.par w)

theorem up_add (j k : Nat) (w : S.Blk) : up S (j + k) w = up S j (up S k w) := by
  induction k generalizing w with
  | zero => rfl
  | succ k ih => rw [← Nat.add_assoc]; simp only [up]; exact ih (S.par w)

/-- `w` extends `b`: `b` is reached from `w` by following parent links (possibly none) -/
def Ext (w b : S.Blk) : Prop := ∃ k : Nat, up S k w = b

/-- a quorum of replicas whose honest members all voted for `b` -/
def Certified (b : S.Blk) : Prop := ∃ Q, S.Quorum Q ∧ ∀ r, Q r → S.honest r → S.voted r b

def GC (b : S.Blk) : Prop := b = S.gen ∨ Certified S b

/-- the discipline of honest replicas and the quorum system -/
structure Discipline : Prop where
  gen_view : S.view S.gen = 0
  par_gen : S.par S.gen = S.gen
  inter : ∀ Q1 Q2, S.Quorum Q1 → S.Quorum Q2 → ∃ r, Q1 r ∧ Q2 r ∧ S.honest r
  one_per_view : ∀ r x y, S.honest r → S.voted r x → S.voted r y → S.view x = S.view y → x = y
  wf : ∀ r w, S.honest r → S.voted r w → GC S (S.par w) ∧ S.view (S.par w) < S.view w
  lock : ∀ r x w, S.honest r → S.voted r x → S.voted r w → S.view x < S.view w →
    ∃ l, GC S l ∧ S.view (S.par (S.par x)) ≤ S.view l ∧ S.view l < S.view w ∧
      (S.view l < S.view (S.par w) ∨ Ext S w l)

variable {S}

theorem Ext.refl (b : S.Blk) : Ext S b b := ⟨0, rfl⟩

theorem Ext.step {w b : S.Blk} (h : Ext S (S.par w) b) : Ext S w b := by
  obtain ⟨k, hk⟩ := h
  exact ⟨k + 1, by simpa [up] using hk⟩

theorem Ext.trans {a b c : S.Blk} (h1 : Ext S a b) (h2 : Ext S b c) : Ext S a c := by
  obtain ⟨k, hk⟩ := h1
  obtain ⟨j, hj⟩ := h2
  refine ⟨j + k, ?_⟩
  rw [up_add, hk, hj]

section
variable (D : Discipline S)
include D

/-- a certified block has an honest voter -/
theorem cert_voter {b : S.Blk} (h : Certified S b) : ∃ r, S.honest r ∧ S.voted r b := by
  obtain ⟨Q, hQ, hv⟩ := h
  obtain ⟨r, hr, _, hh⟩ := D.inter Q Q hQ hQ
  exact ⟨r, hh, hv r hr hh⟩

theorem cert_pos {b : S.Blk} (h : Certified S b) : 1 ≤ S.view b := by
  obtain ⟨r, hh, hv⟩ := cert_voter D h
  have := (D.wf r b hh hv).2
  omega

theorem cert_par {b : S.Blk} (h : Certified S b) : GC S (S.par b) ∧ S.view (S.par b) < S.view b := by
  obtain ⟨r, hh, hv⟩ := cert_voter D h
  exact D.wf r b hh hv

/-- at most one certified block per view -/
theorem cert_unique {a b : S.Blk} (ha : Certified S a) (hb : Certified S b) (hv : S.view a = S.view b) : a = b := by
  obtain ⟨Qa, hQa, hva⟩ := ha
  obtain ⟨Qb, hQb, hvb⟩ := hb
  obtain ⟨r, hra, hrb, hh⟩ := D.inter Qa Qb hQa hQb
  exact D.one_per_view r a b hh (hva r hra hh) (hvb r hrb hh) hv

theorem gc_view_zero {b : S.Blk} (h : GC S b) (hz : S.view b = 0) : b = S.gen := by
  rcases h with h | h
  · exact h
  · have := cert_pos D h; omega

/-- two certified blocks of two quorums share an honest voter of both -/
theorem common_voter {a b : S.Blk} (ha : Certified S a) (hb : Certified S b) :
    ∃ r, S.honest r ∧ S.voted r a ∧ S.voted r b := by
  obtain ⟨Qa, hQa, hva⟩ := ha
  obtain ⟨Qb, hQb, hvb⟩ := hb
  obtain ⟨r, hra, hrb, hh⟩ := D.inter Qa Qb hQa hQb
  exact ⟨r, hh, hva r hra hh, hvb r hrb hh⟩

/-- The commit condition for `b`: `b ← b' ← b''` directly linked, consecutive views, `b''` certified. -/
structure ThreeChain (b b' b'' : S.Blk) : Prop where
  p2 : S.par b'' = b'
  p1 : S.par b' = b
  v1 : S.view b' = S.view b + 1
  v2 : S.view b'' = S.view b + 2
  cert : Certified S b''

/-- **Core of the safety argument**: every certified block at or above a three-chain's tail extends it. -/
theorem certified_extends {b b' b'' : S.Blk} (T : ThreeChain (S := S) b b' b'') :
    ∀ n (w : S.Blk), S.view w = n → Certified S w → S.view b ≤ S.view w → Ext S w b := by
  have hb'gc := (cert_par D T.cert).1
  rw [T.p2] at hb'gc
  have hb'c : Certified S b' := by
    rcases hb'gc with h | h
    · have := D.gen_view; rw [← h] at this; have := T.v1; omega
    · exact h
  have hbgc : GC S b := by have := (cert_par D hb'c).1; rwa [T.p1] at this
  intro n
  induction n using Nat.strongRecOn with
  | _ n ih =>
    intro w hn hw hge
    by_cases h0 : S.view w = S.view b
    · -- same view as b
      rcases hbgc with hg | hc
      · have := cert_pos D hw; rw [hg, D.gen_view] at h0; omega
      · rw [cert_unique D hw hc h0]; exact Ext.refl b
    by_cases h1 : S.view w = S.view b + 1
    · have : w = b' := cert_unique D hw hb'c (by rw [T.v1]; exact h1)
      rw [this]; exact Ext.step (by rw [T.p1]; exact Ext.refl b)
    by_cases h2 : S.view w = S.view b + 2
    · have : w = b'' := cert_unique D hw T.cert (by rw [T.v2]; exact h2)
      rw [this]; exact Ext.step (by rw [T.p2]; exact Ext.step (by rw [T.p1]; exact Ext.refl b))
    -- above the chain: a common honest voter of b'' and w
    obtain ⟨r, hh, hvb, hvw⟩ := common_voter D T.cert hw
    have hlt : S.view b'' < S.view w := by rw [T.v2]; omega
    obtain ⟨l, hlgc, hlge, hllt, hrule⟩ := D.lock r b'' w hh hvb hvw hlt
    rw [T.p2, T.p1] at hlge
    obtain ⟨hpgc, hplt⟩ := D.wf r w hh hvw
    rcases hrule with hlive | hsafe
    · -- liveness rule: the parent is certified, above the lock, hence at or above b
      have hpc : Certified S (S.par w) := by
        rcases hpgc with hg | hc
        · rw [hg, D.gen_view] at hlive; omega
        · exact hc
      exact Ext.step (ih (S.view (S.par w)) (by omega) (S.par w) rfl hpc (by omega))
    · -- safety rule: w extends the lock, which is at or above b
      rcases hlgc with hg | hc
      · have hbz : S.view b = 0 := by rw [hg, D.gen_view] at hlge; omega
        have : b = S.gen := gc_view_zero D hbgc hbz
        rw [this, ← hg]; exact hsafe
      · exact Ext.trans hsafe (ih (S.view l) (by omega) l rfl hc hlge)

/-- **Safety (chained / simplified HotStuff)**: two blocks that satisfy the commit condition are on
one branch. -/
theorem committed_on_one_branch {b b' b'' c c' c'' : S.Blk}
    (Tb : ThreeChain (S := S) b b' b'') (Tc : ThreeChain (S := S) c c' c'') : Ext S b c ∨ Ext S c b := by
  have gcOf : ∀ {x x' x'' : S.Blk}, ThreeChain (S := S) x x' x'' → GC S x := by
    intro x x' x'' T
    have h1 := (cert_par D T.cert).1
    rw [T.p2] at h1
    rcases h1 with h | h
    · have := D.gen_view; rw [← h] at this; have := T.v1; omega
    · have := (cert_par D h).1; rwa [T.p1] at this
  have key : ∀ {x x' x'' y y' y'' : S.Blk}, ThreeChain (S := S) x x' x'' → ThreeChain (S := S) y y' y'' →
      S.view x ≤ S.view y → Ext S y x := by
    intro x x' x'' y y' y'' Tx Ty hle
    rcases gcOf Ty with hg | hc
    · have hz : S.view x = 0 := by rw [hg, D.gen_view] at hle; omega
      rw [hg, gc_view_zero D (gcOf Tx) hz]; exact Ext.refl _
    · exact certified_extends D Tx _ y rfl hc hle
  rcases Nat.le_total (S.view b) (S.view c) with h | h
  · exact Or.inr (key Tb Tc h)
  · exact Or.inl (key Tc Tb h)

end
end HsVerif.Safety

/-! ### From blocks on one branch to prefix-related commit logs -/

namespace HsVerif.Safety
variable {S : Sys}

/-- a commit log: every block's parent is the block before it, the first one's parent is genesis -/
def ChainLog (S : Sys) : S.Blk → List S.Blk → Prop
  | _, [] => True
  | prev, b :: rest => S.par b = prev ∧ S.view prev < S.view b ∧ ChainLog S b rest

/-- the last block of a log that starts after `prev` (or `prev` itself) -/
def logHead (prev : S.Blk) : List S.Blk → S.Blk
  | [] => prev
  | b :: rest => logHead b rest

theorem up_view_le (hv : ∀ b : S.Blk, S.view (S.par b) ≤ S.view b) (k : Nat) (w : S.Blk) : S.view (up S k w) ≤ S.view w := by
  induction k generalizing w with
  | zero => exact Nat.le_refl _
  | succ k ih => simp only [up]; exact Nat.le_trans (ih _) (hv w)

/-- the head of a chain log extends its base by exactly the log's length -/
theorem chainLog_up (prev : S.Blk) (l : List S.Blk) (h : ChainLog S prev l) : up S l.length (logHead prev l) = prev := by
  induction l generalizing prev with
  | nil => rfl
  | cons b rest ih =>
    obtain ⟨hp, _, hr⟩ := h
    have := ih b hr
    show up S (rest.length + 1) (logHead b rest) = prev
    rw [Nat.add_comm, up_add, this]
    simpa [up] using hp

theorem chainLog_view (prev : S.Blk) (l : List S.Blk) (h : ChainLog S prev l) : S.view prev + l.length ≤ S.view (logHead prev l) := by
  induction l generalizing prev with
  | nil => simp [logHead]
  | cons b rest ih =>
    obtain ⟨_, hv, hr⟩ := h
    have := ih b hr
    simp only [logHead, List.length_cons]; omega

/-- a chain log is determined by its base, its length and its head: it is the ancestor path -/
theorem chainLog_eq_path (prev : S.Blk) (l : List S.Blk) (h : ChainLog S prev l) :
    l = (List.range l.length).map (fun i => up S (l.length - 1 - i) (logHead prev l)) := by
  induction l generalizing prev with
  | nil => rfl
  | cons b rest ih =>
    obtain ⟨hp, hv, hr⟩ := h
    have ihr := ih b hr
    have hb : up S rest.length (logHead b rest) = b := chainLog_up b rest hr
    simp only [List.length_cons, logHead]
    rw [List.range_succ_eq_map, List.map_cons, List.map_map]
    congr 1
    · simp [hb]
    · conv => lhs; rw [ihr]
      apply List.map_congr_left
      intro i hi
      simp only [Function.comp]
      have : i < rest.length := by simpa using hi
      congr 1; omega

end HsVerif.Safety

namespace HsVerif.Safety
variable {S : Sys}

theorem up_gen (hg : S.par S.gen = S.gen) (m : Nat) : up S m S.gen = S.gen := by
  induction m with
  | zero => rfl
  | succ m ih => simp only [up, hg]; exact ih

theorem chainLog_pos (prev : S.Blk) (l : List S.Blk) (h : ChainLog S prev l) :
    ∀ j, j < l.length → S.view prev < S.view (up S j (logHead prev l)) := by
  induction l generalizing prev with
  | nil => intro j hj; simp at hj
  | cons b rest ih =>
    obtain ⟨hp, hv, hr⟩ := h
    intro j hj
    simp only [logHead]
    by_cases hjr : j < rest.length
    · exact Nat.lt_trans hv (ih b hr j hjr)
    · have : j = rest.length := by simp at hj; omega
      rw [this, chainLog_up b rest hr]; exact hv

/-- **Commit logs are prefix-related when their heads are on one branch.**  Two logs that are chains
from genesis (each block's parent is the block committed before it, views increasing), the head of
the first extending the head of the second: the second log is a prefix of the first. -/
theorem logs_prefix (hg : S.par S.gen = S.gen) (l1 l2 : List S.Blk)
    (h1 : ChainLog S S.gen l1) (h2 : ChainLog S S.gen l2)
    (hx : Ext S (logHead S.gen l1) (logHead S.gen l2)) : l2 <+: l1 := by
  obtain ⟨k, hk⟩ := hx
  have u1 := chainLog_up S.gen l1 h1
  have u2 := chainLog_up S.gen l2 h2
  have p1 := chainLog_pos S.gen l1 h1
  have p2 := chainLog_pos S.gen l2 h2
  by_cases hkn : l1.length ≤ k
  · -- the second head is genesis: its log is empty
    have : logHead S.gen l2 = S.gen := by
      rw [← hk]
      have : k = (k - l1.length) + l1.length := by omega
      rw [this, up_add, u1, up_gen hg]
    have : l2.length = 0 := by
      apply Classical.byContradiction
      intro hne
      have := p2 0 (by omega)
      simp only [up] at this
      rw [‹logHead S.gen l2 = S.gen›] at this
      exact Nat.lt_irrefl _ this
    have : l2 = [] := List.length_eq_zero_iff.mp this
    rw [this]; exact List.nil_prefix
  · have hlen : l1.length = k + l2.length := by
      have e : up S (l2.length + k) (logHead S.gen l1) = S.gen := by rw [up_add, hk, u2]
      rcases Nat.lt_trichotomy (k + l2.length) l1.length with hlt | heq | hgt
      · have := p1 (l2.length + k) (by omega)
        rw [e] at this; exact absurd this (Nat.lt_irrefl _)
      · exact heq.symm
      · have hj : l1.length - k < l2.length := by omega
        have := p2 (l1.length - k) hj
        rw [← hk, ← up_add] at this
        have e2 : l1.length - k + k = l1.length := by omega
        rw [e2, u1] at this; exact absurd this (Nat.lt_irrefl _)
    rw [chainLog_eq_path S.gen l1 h1, chainLog_eq_path S.gen l2 h2]
    refine ⟨(List.range' l2.length k).map (fun i => up S (l1.length - 1 - i) (logHead S.gen l1)), ?_⟩
    rw [hlen, List.range_eq_range', List.range_eq_range']
    have : List.range' 0 (k + l2.length) = List.range' 0 l2.length ++ List.range' l2.length k := by
      rw [Nat.add_comm k]
      have := (List.range'_append_1 (s := 0) (m := l2.length) (n := k)).symm
      simpa using this
    rw [this, List.map_append]
    congr 1
    apply List.map_congr_left
    intro i hi
    have hil : i < l2.length := by simpa [List.mem_range'] using hi
    rw [← hk, ← up_add]
    congr 1
    omega

end HsVerif.Safety
