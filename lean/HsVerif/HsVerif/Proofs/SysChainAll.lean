import HsVerif.Proofs.SysChainGlue
/-!
The rounds of Proofs/SysChain.lean with ALL messages of a round delivered (task S12b, item 4): the new-view messages that
the replicas send to the leader on entering a view by a certificate reach the leader interleaved with the votes, in any
order.  `nvMsg`, `abMsg` (a message of the votes round as an item: vote or new-view), `NVok` (the leader can check the
certificate the new-view messages carry), `ab_nv_step` (a new-view message changes nothing: `newview_old_noop` in both
leader states of `ABInv`), `ab_deliver_all`, `chain_round_AB_all`, `roundItems` (the exact pool of phase A as items),
`chainViewAll`, `chain_view_all`, `synced_commits_all`.  The property theorems are in Props/C05Chain.lean.
-/
open Std.Do
set_option mvcgen.warning false
set_option linter.unusedSimpArgs false
set_option linter.unusedVariables false
namespace HsVerif.Model
open HsVerif.Proofs HsVerif.Props.C08 HsVerif.Props.C01Sys HsVerif.Props.C01SysWF HsVerif.Props.C03 HsVerif.SysSafety
open HsVerif.Props.C05Cover




/-! ## the votes round with the new-view messages delivered too -/

/-- the new-view message replica `i` sends to the leader on entering a view on the certificate `q` -/
def nvMsg (L : Nat) (q : QC) (i : Nat) : Nat × Ev := (L, Ev.newview i { qc := some q })

/-- a message of the votes round at `(w, B)`: the vote of replica `p.2` (`p.1 = true`) or its new-view message -/
def abMsg (C : SysCfg) (L : Nat) (B : Block) (bt : Nat → Nat) (p : Bool × Nat) : Nat × Ev :=
  if p.1 then voteMsg C L B.hash bt p.2 else nvMsg L B.qc p.2

/-- the leader can check the certificate that the new-view messages of the round carry -/
def NVok (k : Keys) (C : SysCfg) (L w : Nat) (B : Block) (σ : SysState) : Prop :=
  ∃ sL, σ.reps.lookup L = some sL ∧
    verifyQC (env k (C.rcfg L) { sL with truth := σ.truth, nextBytes := σ.nextBytes }) B.qc = true ∧ B.qc.view < w

/-- **a new-view message of the round reaches the leader**: nothing changes -/
theorem ab_nv_step (k : Keys) (C : SysCfg) (L w N : Nat) (hC : HappyCfg C L) (B P : Block)
    (σ0 : SysState) (sL0 : RState)
    (hver : verifyQC (env k (C.rcfg L) { sL0 with truth := σ0.truth, nextBytes := σ0.nextBytes }) B.qc = true)
    (hqv : B.qc.view < w) (hP0 : sL0.chain.blocks.lookup B.qc.hash = some P) (hPv : P.view < w) (hBv : B.view = w)
    (done : List Nat) (σ : SysState) (acc : Msgs) (i : Nat)
    (hinv : ABInv C L w N B P σ0 sL0 done (σ, acc)) :
    ABInv C L w N B P σ0 sL0 done (deliverAll k C (σ, acc) [nvMsg L B.qc i]) := by
  have hLmem := hC.leader
  have hnoop : ∀ sL : RState, σ.reps.lookup L = some sL → sL.queue = [] → StoreLe sL0.chain.blocks sL.chain.blocks →
      B.qc.view < sL.view → P.view ≤ sL.highQC.view →
      ∃ σ', deliverAll k C (σ, acc) [nvMsg L B.qc i] = (σ', acc) ∧
        σ'.reps = setKV L ({ sL with truth := σ.truth, nextBytes := σ.nextBytes, out := [] } : RState) σ.reps ∧
        σ'.truth = σ.truth ∧ σ'.nextBytes = σ.nextBytes := by
    intro sL hl hq hst hv hhi
    obtain ⟨σ', hd, r1, r2, r3⟩ := deliver_effect k C σ acc L (Ev.newview i { qc := some B.qc }) sL hl
    have hstep := newview_old_noop k (C.rcfg L) { sL with truth := σ.truth, nextBytes := σ.nextBytes } i B.qc P hC.agg hq
      (verifyQC_mono (fun b => σ0.truth.lookup b) (fun b => σ.truth.lookup b) (C.rcfg L).cfg sL0.chain.blocks sL.chain.blocks _ _
        (fun b a hb => hinv.table b a hb) hst hver)
      (hst _ _ hP0) hv hhi
    rw [hstep] at hd r1 r2 r3
    dsimp only at r1 r2 r3
    refine ⟨σ', ?_, r1, r2, r3⟩
    show deliverAll k C (σ, acc) [(L, _)] = _
    rw [hd]; simp [route]
  by_cases hlt : done.length + 1 < (C.rcfg L).cfg.quorum
  · obtain ⟨hacc, sL, vs, hl, hS, hvs, hch, hcm⟩ := hinv.coll hlt
    obtain ⟨σ', hd, r1, r2, r3⟩ := hnoop sL hl hS.core.queue (by rw [hch]; exact fun _ _ h => h)
      (by show B.qc.view < sL.view; rw [show sL.view = w from hS.core.view]; exact hqv) hS.hqge
    rw [hd]
    refine ⟨by rw [r2, r3]; exact hinv.fresh, by rw [r1, keys_setKV _ _ _ (by rw [hinv.keys]; exact hLmem)]; exact hinv.keys,
      by rw [r2]; exact hinv.table, ?_, ?_, ?_⟩
    · intro x hx
      rw [r1, lookup_setKV_other _ _ _ _ hx]; exact hinv.others x hx
    · intro _
      refine ⟨hacc, ({ sL with truth := σ.truth, nextBytes := σ.nextBytes, out := [] } : RState), vs,
        by rw [r1]; exact lookup_setKV_same _ _ _, ?_, hvs, hch, hcm⟩
      rw [r2, r3]; refine syncL_proj ?_ hS; rfl
    · intro h; omega
  · obtain ⟨B', sL, sgL, sgq, hl, hS, b1, b2, b3, b4, b5, b6, hacc, hcs⟩ := hinv.moved (by omega)
    obtain ⟨σ', hd, r1, r2, r3⟩ := hnoop sL hl hS.core.queue hcs.store
      (by show B.qc.view < sL.view; rw [show sL.view = w + 1 from hS.core.view]; omega)
      (by have h1 : B.view ≤ sL.highQC.view := hS.hqge
          omega)
    rw [hd]
    refine ⟨by rw [r2, r3]; exact hinv.fresh, by rw [r1, keys_setKV _ _ _ (by rw [hinv.keys]; exact hLmem)]; exact hinv.keys,
      by rw [r2]; exact hinv.table, ?_, ?_, ?_⟩
    · intro x hx
      rw [r1, lookup_setKV_other _ _ _ _ hx]; exact hinv.others x hx
    · intro h; omega
    · intro _
      refine ⟨B', ({ sL with truth := σ.truth, nextBytes := σ.nextBytes, out := [] } : RState), sgL, sgq,
        by rw [r1]; exact lookup_setKV_same _ _ _, ?_, b1, b2, b3, b4, by rw [r2]; exact b5, b6, hacc, ?_⟩
      · rw [r2, r3]; refine syncL_proj ?_ hS; rfl
      · exact ⟨hcs.store, fun Z hZ h => ⟨(hcs.walk Z hZ h).walk, (hcs.walk Z hZ h).below⟩, hcs.commit⟩



/-- the senders of the votes among the items -/
def voteIds (items : List (Bool × Nat)) : List Nat := (items.filter (·.1)).map (·.2)

theorem voteIds_cons_true (j : Nat) (rest : List (Bool × Nat)) : voteIds ((true, j) :: rest) = j :: voteIds rest := by
  simp [voteIds]
theorem voteIds_cons_false (j : Nat) (rest : List (Bool × Nat)) : voteIds ((false, j) :: rest) = voteIds rest := by
  simp [voteIds]

/-- **all messages of the votes round reach the leader one after the other** (votes and new-view messages, any order) -/
theorem ab_deliver_all (k : Keys) (C : SysCfg) (L w N : Nat) (hC : HappyCfg C L) (B P : Block) (bt : Nat → Nat)
    (σ0 : SysState) (sL0 : RState) (hN : N + 12 ≤ 99999)
    (hbt : ∀ j ∈ C.honest, j ≠ L → σ0.truth.lookup (bt j) = some ⟨j, blkMsg B.hash⟩)
    (hP0 : sL0.chain.blocks.lookup B.qc.hash = some P) (hPv : P.view < w) (hBv : B.view = w) :
    ∀ (items : List (Bool × Nat)) (done : List Nat) (x : SysState × Msgs), ABInv C L w N B P σ0 sL0 done x →
      (voteIds items).Nodup → (∀ j ∈ voteIds items, j ∈ C.honest ∧ j ≠ L ∧ j ∉ done) →
      ((∃ p ∈ items, p.1 = false) →
        verifyQC (env k (C.rcfg L) { sL0 with truth := σ0.truth, nextBytes := σ0.nextBytes }) B.qc = true ∧ B.qc.view < w) →
      ABInv C L w N B P σ0 sL0 (done ++ voteIds items) (deliverAll k C x (items.map (abMsg C L B bt))) := by
  intro items
  induction items with
  | nil => intro done x h _ _ _; simp only [voteIds, List.filter_nil, List.map_nil, List.append_nil]; exact h
  | cons p rest ih =>
    intro done x h hnd hall hnv
    obtain ⟨σ, acc⟩ := x
    obtain ⟨b, j⟩ := p
    simp only [List.map_cons]
    rw [show (abMsg C L B bt (b, j) :: rest.map (abMsg C L B bt)) = [abMsg C L B bt (b, j)] ++ rest.map (abMsg C L B bt) from rfl,
      deliverAll_append]
    cases b with
    | true =>
      rw [voteIds_cons_true] at hnd hall ⊢
      obtain ⟨h1, h2, h3⟩ := hall j (by simp)
      have hstep := ab_step k C L w N hC B P bt σ0 sL0 hN hbt done σ acc j h h1 h2 h3
      have := ih (done ++ [j]) _ hstep (List.nodup_cons.mp hnd).2 (by
        intro i hi
        obtain ⟨q1, q2, q3⟩ := hall i (by simp [hi])
        refine ⟨q1, q2, ?_⟩
        simp only [List.mem_append, List.mem_singleton, not_or]
        exact ⟨q3, fun e => (List.nodup_cons.mp hnd).1 (e ▸ hi)⟩)
        (fun ⟨p, hp, hf⟩ => hnv ⟨p, by simp [hp], hf⟩)
      rw [List.append_assoc] at this
      exact this
    | false =>
      rw [voteIds_cons_false] at hnd hall ⊢
      obtain ⟨hv1, hv2⟩ := hnv ⟨(false, j), by simp, rfl⟩
      have hstep := ab_nv_step k C L w N hC B P σ0 sL0 hv1 hv2 hP0 hPv hBv done σ acc j h
      exact ih done _ hstep hnd hall (fun ⟨p, hp, hf⟩ => hnv ⟨p, by simp [hp], hf⟩)

/-- **Round A ⟶ B with ALL messages**: the votes and the new-view messages in flight reach the leader in ANY order `items`
(`(true, j)`: the vote of `j`; `(false, i)`: the new-view message of `i`); the votes are those of pairwise different
replicas, enough for a quorum; if a new-view message is among them the leader can check its certificate (`NVok`) -/
theorem chain_round_AB_all (k : Keys) (C : SysCfg) (L w N : Nat) (hC : HappyCfg C L) (B P : Block) (bt : Nat → Nat)
    (σ : SysState) (hN : N + 12 ≤ 99999) (hA : PhaseA C L w N B P bt σ)
    (items : List (Bool × Nat)) (hnd : (voteIds items).Nodup) (hord : ∀ j ∈ voteIds items, j ∈ C.honest ∧ j ≠ L)
    (hlen : (C.rcfg L).cfg.quorum ≤ (voteIds items).length + 1)
    (hnv : (∃ p ∈ items, p.1 = false) → NVok k C L w B σ) :
    ∃ B' : Block,
      PhaseB C L w N B' B P (deliverAll k C (σ, []) (items.map (abMsg C L B bt))).1 ∧
      (deliverAll k C (σ, []) (items.map (abMsg C L B bt))).2 = (othersOf C L).map (propMsg L B') ∧
      (∀ j, j ≠ L → (deliverAll k C (σ, []) (items.map (abMsg C L B bt))).1.reps.lookup j = σ.reps.lookup j) ∧
      (∀ b a, σ.truth.lookup b = some a →
        (deliverAll k C (σ, []) (items.map (abMsg C L B bt))).1.truth.lookup b = some a) ∧
      ∃ sL0 sL, σ.reps.lookup L = some sL0 ∧
        (deliverAll k C (σ, []) (items.map (abMsg C L B bt))).1.reps.lookup L = some sL ∧
        CommitStep w B P sL0 sL := by
  obtain ⟨sL0, sgL, hl0, hS0⟩ := hA.leader
  have hinit : ABInv C L w N B P σ sL0 [] (σ, []) := by
    refine ⟨hA.fresh, hA.keys, fun _ _ h => h, fun _ _ => rfl, ?_, ?_⟩
    · intro _
      exact ⟨rfl, sL0, [(L, sgL)], hl0, hS0, rfl, rfl, rfl⟩
    · intro h
      have := (hC.quorum L).1
      simp at h; omega
  have hfin := ab_deliver_all k C L w N hC B P bt σ sL0 hN hA.bytes hS0.core.hasP hS0.core.pview hS0.core.bview items []
    (σ, []) hinit hnd (fun j hj => ⟨(hord j hj).1, (hord j hj).2, by simp⟩)
    (by intro h
        obtain ⟨sL, e1, e2, e3⟩ := hnv h
        rw [hl0] at e1; cases e1
        exact ⟨e2, e3⟩)
  rw [List.nil_append] at hfin
  obtain ⟨B', sL, sgL', sgq, m1, m2, m3, m4, m5, m6, m7, m8, m9, m10⟩ := hfin.moved hlen
  refine ⟨B', ⟨hfin.fresh, hfin.keys, ?_, ⟨sL, sgL', m1, m2⟩, ⟨m3, m4, m5⟩, ⟨sgq, m6, m7, m8⟩⟩, m9, hfin.others, hfin.table,
    sL0, sL, hl0, m1, m10⟩
  intro j hj hjL
  rw [hfin.others j hjL]
  exact hA.others j hj hjL



/-- the messages in flight in phase A, as items: for every replica of `ord` its new-view message (if `nv`) and its vote -/
def roundItems (nv : Bool) (ord : List Nat) : List (Bool × Nat) :=
  ord.flatMap fun j => (if nv then [(false, j)] else []) ++ [(true, j)]

theorem voteIds_roundItems (nv : Bool) (ord : List Nat) : voteIds (roundItems nv ord) = ord := by
  induction ord with
  | nil => rfl
  | cons j rest ih =>
    have : roundItems nv (j :: rest) = ((if nv then [(false, j)] else []) ++ [(true, j)]) ++ roundItems nv rest := by
      simp [roundItems]
    rw [this]
    cases nv
    · simp only [Bool.false_eq_true, if_false, List.nil_append, List.singleton_append]
      rw [voteIds_cons_true, ih]
    · simp only [if_true, List.singleton_append, List.cons_append, List.nil_append]
      rw [voteIds_cons_false, voteIds_cons_true, ih]

theorem roundItems_false_votes (ord : List Nat) : ∀ p ∈ roundItems false ord, p.1 = true := by
  intro p hp
  simp only [roundItems, Bool.false_eq_true, if_false, List.nil_append, List.mem_flatMap, List.mem_singleton] at hp
  obtain ⟨j, _, rfl⟩ := hp
  rfl

theorem acks_eq_items (C : SysCfg) (L : Nat) (B' : Block) (bt : Nat → Nat) (ord : List Nat) :
    ord.flatMap (ackMsgs C L B' bt) = (roundItems true ord).map (abMsg C L B' bt) := by
  induction ord with
  | nil => rfl
  | cons j rest ih =>
    have : roundItems true (j :: rest) = [(false, j), (true, j)] ++ roundItems true rest := by
      simp [roundItems]
    rw [this, List.flatMap_cons, List.map_append, ← ih]
    rfl

theorem votes_eq_items (C : SysCfg) (L : Nat) (B : Block) (bt : Nat → Nat) (ord : List Nat) :
    ord.map (voteMsg C L B.hash bt) = (roundItems false ord).map (abMsg C L B bt) := by
  induction ord with
  | nil => rfl
  | cons j rest ih =>
    have : roundItems false (j :: rest) = [(true, j)] ++ roundItems false rest := by
      simp [roundItems]
    rw [this, List.map_cons, List.map_append, ← ih]
    rfl

/-- **one view of the chain with ALL messages delivered**: the messages `msgs` (votes and new-view messages) reach the
leader, then the proposals in flight reach the replicas `ordP` -/
def chainViewAll (k : Keys) (C : SysCfg) (msgs : Msgs) (ordP : List Nat) (x : SysState × Msgs) : SysState × Msgs :=
  deliverAll k C ((deliverAll k C (x.1, []) msgs).1, []) (propsIn (deliverAll k C (x.1, []) msgs).2 ordP)

/-- **One view of the chain, every message in flight delivered, in any order.**  Phase A at `(w, B)`; the messages in
flight are exactly the votes for `B` of the other replicas and (`nv = true`; not in the first view after a recovery) their
new-view messages (`x.2 = (roundItems nv ordPrev).map …`); `items` is ANY permutation of them (`msgs = items.map …` is then a
permutation of `x.2`); then the proposals are delivered in any order `ordP`.  Afterwards: phase A at `(w + 1, B')`, the
messages in flight are exactly the new-view messages and votes for `B'`, the leader can check their certificate (`NVok`),
and every replica's committer has made its step. -/
theorem chain_view_all (k : Keys) (C : SysCfg) (L w N : Nat) (hC : HappyCfg C L) (B P : Block) (bt : Nat → Nat)
    (x : SysState × Msgs) (hN : N + 12 ≤ 99999) (hA : PhaseA C L w N B P bt x.1)
    (nv : Bool) (ordPrev : List Nat) (hprev : OthersOrder C L ordPrev)
    (hpool : x.2 = (roundItems nv ordPrev).map (abMsg C L B bt)) (hnvok : nv = true → NVok k C L w B x.1)
    (items : List (Bool × Nat)) (hperm : items.Perm (roundItems nv ordPrev)) (ordP : List Nat) (hP : OthersOrder C L ordP) :
    (items.map (abMsg C L B bt)).Perm x.2 ∧
    ∃ (B' : Block) (bt' : Nat → Nat),
      PhaseA C L (w + 1) (N + 3) B' B bt' (chainViewAll k C (items.map (abMsg C L B bt)) ordP x).1 ∧
      (chainViewAll k C (items.map (abMsg C L B bt)) ordP x).2 = (roundItems true ordP).map (abMsg C L B' bt') ∧
      NVok k C L (w + 1) B' (chainViewAll k C (items.map (abMsg C L B bt)) ordP x).1 ∧ Link B' B ∧
      ∀ j ∈ C.honest, ∃ s0 s, x.1.reps.lookup j = some s0 ∧
        (chainViewAll k C (items.map (abMsg C L B bt)) ordP x).1.reps.lookup j = some s ∧ CommitStep w B P s0 s := by
  refine ⟨by rw [hpool]; exact hperm.map _, ?_⟩
  have hvp : (voteIds items).Perm ordPrev := by
    have := (hperm.filter (·.1)).map (·.2)
    rw [show ((roundItems nv ordPrev).filter (·.1)).map (·.2) = ordPrev from voteIds_roundItems nv ordPrev] at this
    exact this
  have hnvq : (∃ p ∈ items, p.1 = false) → NVok k C L w B x.1 := by
    intro ⟨p, hp, hf⟩
    cases nv with
    | true => exact hnvok rfl
    | false =>
      have := roundItems_false_votes ordPrev p (hperm.mem_iff.mp hp)
      rw [hf] at this; cases this
  obtain ⟨B', a1, a2, a3, a4, sL0, sL, a5, a6, a7⟩ := chain_round_AB_all k C L w N hC B P bt x.1 hN hA items
    (hvp.nodup_iff.mpr hprev.nodup) (fun j hj => hprev.mem j (hvp.mem_iff.mp hj))
    (by rw [hvp.length_eq]; exact hprev.quorum hC) hnvq
  obtain ⟨bt', b1, b2, b3, b4, b5⟩ := chain_round_BA k C L w N hC B' B P _ hN a1 ordP hP.nodup hP.mem hP.full
  have hpi := propsIn_eq C L B' ordP hP.mem
  have hcv : chainViewAll k C (items.map (abMsg C L B bt)) ordP x =
      deliverAll k C ((deliverAll k C (x.1, []) (items.map (abMsg C L B bt))).1, []) (ordP.map (propMsg L B')) := by
    unfold chainViewAll
    rw [a2, hpi]
  rw [hcv]
  obtain ⟨sgq, g1, g2, g3⟩ := a1.qc
  obtain ⟨sLx, _, _, hSLx⟩ := hA.leader
  obtain ⟨sL', sgL', hl', hSL'⟩ := b1.leader
  refine ⟨B', bt', b1, by rw [b2]; exact acks_eq_items C L B' bt' ordP, ?_,
    ⟨a1.blk.2.1, by rw [g1], by rw [a1.blk.2.2, hSLx.core.bview], by rw [hSLx.core.bhash]; exact pname_ne_empty _⟩, ?_⟩
  · refine ⟨sL', hl', ?_, by rw [g1]; show B.view < w + 1; rw [hSLx.core.bview]; omega⟩
    have hlk : sL'.chain.blocks.lookup B.hash = some B := by
      have := hSL'.core.hasP
      rw [g1] at this; exact this
    rw [g1]
    exact verifyQC_of_votes k (C.rcfg L) _ B.hash B sgq hlk rfl
      (by rw [hSLx.core.bhash]; exact pname_ne_genesis _)
      (verify_mono _ _ _ _ _ (fun b a hb => b4 b a hb) g2) g3
  · intro j hj
    by_cases hjL : j = L
    · subst hjL
      exact ⟨sL0, sL, a5, by rw [b3]; exact a6, a7⟩
    · obtain ⟨s0, s, c1, c2, c3⟩ := b5 j hj hjL
      exact ⟨s0, s, by rw [← a3 j hjL]; exact c1, c2, c3⟩



/-- **From a synchronised view to a commit, every message delivered** (votes AND new-view messages of every view, in any
order, also chosen view by view): three views after phase A at `(w, B)` every replica has committed `B`. -/
theorem synced_commits_all (k : Keys) (C : SysCfg) (L w N : Nat) (hC : HappyCfg C L) (B P : Block) (bt : Nat → Nat)
    (x : SysState × Msgs) (hN : N + 18 ≤ 99999) (hA : PhaseA C L w N B P bt x.1)
    (nv : Bool) (ordPrev : List Nat) (hprev : OthersOrder C L ordPrev)
    (hpool : x.2 = (roundItems nv ordPrev).map (abMsg C L B bt)) (hnvok : nv = true → NVok k C L w B x.1)
    (hwalk : ∀ j ∈ C.honest, ∃ s, x.1.reps.lookup j = some s ∧ WalkZ B s)
    (i1 : List (Bool × Nat)) (p1 : List Nat) (h1 : i1.Perm (roundItems nv ordPrev)) (hp1 : OthersOrder C L p1) :
    ∃ (B1 : Block) (bt1 : Nat → Nat), Link B1 B ∧
      ∀ (i2 : List (Bool × Nat)) (p2 : List Nat), i2.Perm (roundItems true p1) → OthersOrder C L p2 →
      ∃ (B2 : Block) (bt2 : Nat → Nat), Link B2 B1 ∧
        ∀ (i3 : List (Bool × Nat)) (p3 : List Nat), i3.Perm (roundItems true p2) → OthersOrder C L p3 →
        ∃ (B3 : Block) (bt3 : Nat → Nat), Link B3 B2 ∧
          PhaseA C L (w + 3) (N + 9) B3 B2 bt3
            (chainViewAll k C (i3.map (abMsg C L B2 bt2)) p3 (chainViewAll k C (i2.map (abMsg C L B1 bt1)) p2
              (chainViewAll k C (i1.map (abMsg C L B bt)) p1 x))).1 ∧
          ∀ j ∈ C.honest, ∃ s0 s, x.1.reps.lookup j = some s0 ∧
            (chainViewAll k C (i3.map (abMsg C L B2 bt2)) p3 (chainViewAll k C (i2.map (abMsg C L B1 bt1)) p2
              (chainViewAll k C (i1.map (abMsg C L B bt)) p1 x))).1.reps.lookup j = some s ∧
            s.committed = B ∧ s0.committed.view < s.committed.view := by
  obtain ⟨_, B1, bt1, a1, a2, a3, a4, a5⟩ := chain_view_all k C L w N hC B P bt x (by omega) hA nv ordPrev hprev hpool hnvok
    i1 h1 p1 hp1
  refine ⟨B1, bt1, a4, ?_⟩
  intro i2 p2 h2 hp2
  obtain ⟨_, B2, bt2, b1, b2, b3, b4, b5⟩ := chain_view_all k C L (w + 1) (N + 3) hC B1 B bt1 _ (by omega) a1 true p1 hp1 a2
    (fun _ => a3) i2 h2 p2 hp2
  refine ⟨B2, bt2, b4, ?_⟩
  intro i3 p3 h3 hp3
  obtain ⟨_, B3, bt3, c1, c2, c3, c4, c5⟩ := chain_view_all k C L (w + 1 + 1) (N + 3 + 3) hC B2 B1 bt2 _ (by omega) b1 true p2 hp2 b2
    (fun _ => b3) i3 h3 p3 hp3
  refine ⟨B3, bt3, c4, c1, ?_⟩
  intro j hj
  obtain ⟨s0, s1, d1, d2, d3⟩ := a5 j hj
  obtain ⟨s1', s2, e1, e2, e3⟩ := b5 j hj
  obtain ⟨s2', s3, f1, f2, f3⟩ := c5 j hj
  rw [d2] at e1; cases e1
  rw [e2] at f1; cases f1
  obtain ⟨s0', g1, g2⟩ := hwalk j hj
  rw [d1] at g1; cases g1
  obtain ⟨hB0, hBv⟩ := hA.hasB j hj s0 d1
  have w1 := d3.walk B g2 (by omega)
  have w2 := e3.walk B w1 (by omega)
  have hB2 : s2.chain.blocks.lookup B.hash = some B := e3.store _ _ (d3.store _ _ hB0)
  have hcm := f3.commit B w2 b4 a4 hB2
  exact ⟨s0, s3, d1, f2, hcm, by rw [hcm]; exact g2.below⟩


/-- `recDone_phaseA` with the exact pool: the messages in flight are exactly the votes for `b'` -/
theorem recDone_phaseA_pool (k : Keys) (C : SysCfg) (L : Nat) (hC : HappyCfg C L) (D : RecData) (N i : Nat) (b' : Block)
    (σ1 : SysState) (hN : N + 12 ≤ 99999) (hR : RecDone k C L D N i b' σ1) (ord : List Nat) (hord : OthersOrder C L ord) :
    ∃ bt : Nat → Nat,
      PhaseA C L (D.v + 1) (N + 2) b' (D.hb i) bt (deliverAll k C (σ1, []) (ord.map (propMsg L b'))).1 ∧
      (deliverAll k C (σ1, []) (ord.map (propMsg L b'))).2 = ord.map (voteMsg C L b'.hash bt) ∧
      ∀ j ∈ C.honest, ∃ s, (deliverAll k C (σ1, []) (ord.map (propMsg L b'))).1.reps.lookup j = some s ∧ WalkZ b' s := by
  have hinit : PAInv C L D N i b' σ1 (fun _ => 0) [] (σ1, []) :=
    ⟨hR.fresh, hR.keys, fun _ _ h => h, rfl, fun _ _ _ => rfl, by simp, rfl⟩
  obtain ⟨bt', hfin⟩ := pa_deliver k C L hC D N i b' σ1 hN hR ord [] (fun _ => 0) (σ1, []) hinit hord.nodup
    (fun j hj => ⟨(hord.mem j hj).1, (hord.mem j hj).2, by simp⟩)
  rw [List.nil_append] at hfin
  obtain ⟨sL, sgL, hlL, hSL, hWL⟩ := hR.leader
  refine ⟨bt', ⟨hfin.fresh, hfin.keys, ?_, ⟨sL, sgL, by rw [hfin.leader]; exact hlL, ?_⟩, ?_⟩, hfin.pool, ?_⟩
  · intro j hj hjL
    obtain ⟨s, d2, d3, _, _⟩ := hfin.did j (hord.full j hj hjL)
    exact ⟨s, d2, d3⟩
  · exact syncL_with_table hSL _ _ (fun b a hb => hfin.table b a hb)
  · intro j hj hjL
    obtain ⟨s, d2, d3, d4, d5⟩ := hfin.did j (hord.full j hj hjL)
    exact d5
  · intro j hj
    by_cases hjL : j = L
    · subst hjL
      exact ⟨sL, by rw [hfin.leader]; exact hlL, hWL⟩
    · obtain ⟨s, d2, d3, d4, d5⟩ := hfin.did j (hord.full j hj hjL)
      exact ⟨s, d2, d4⟩

/-- **Commit after recovery, every message of the three chain views delivered** (votes and new-view messages, any order,
also chosen view by view).  Hypotheses as `commit_after_recovery`.  (The new-view messages of the TIMEOUT round — they
carry timeout certificates — are not delivered: `proposalRound` takes the proposals only.) -/
theorem commit_after_recovery_all_core (k : Keys) (C : SysCfg) (L : Nat) (hC : HappyCfg C L) (D : RecData) (s0 : Nat → RState)
    (σ0 : SysState) (blk : Hash → Block) (hk : KeysOK k) (hr : Reach k C σ0) (hca : CA' σ0 blk)
    (hP : RecPre k C D s0 L σ0.truth) (h0 : RecStart C s0 σ0.truth σ0)
    (msgs : List (Nat × Nat)) (hm : FullOrder C msgs) (N : Nat) (hY : SyncPre C D s0 N)
    (ordP : List Nat) (hordP : OthersOrder C L ordP)
    (i1 : List (Bool × Nat)) (p1 : List Nat) (h1 : i1.Perm (roundItems false ordP)) (hp1 : OthersOrder C L p1) :
    ∃ (i : Nat) (b' : Block) (bt : Nat → Nat), i ∈ C.honest ∧ Top C D i ∧ b'.view = D.v + 1 ∧ b'.qc = D.hq i ∧ b'.proposer = L ∧
      (i1.map (abMsg C L b' bt)).Perm (proposalRound k C ordP (recoveryRound k C D σ0 msgs)).2 ∧
      ∃ (B1 : Block) (bt1 : Nat → Nat),
      ∀ (i2 : List (Bool × Nat)) (p2 : List Nat), i2.Perm (roundItems true p1) → OthersOrder C L p2 →
      ∃ (B2 : Block) (bt2 : Nat → Nat),
        ∀ (i3 : List (Bool × Nat)) (p3 : List Nat), i3.Perm (roundItems true p2) → OthersOrder C L p3 →
        ∀ j ∈ C.honest, ∃ s,
          (chainViewAll k C (i3.map (abMsg C L B2 bt2)) p3 (chainViewAll k C (i2.map (abMsg C L B1 bt1)) p2
            (chainViewAll k C (i1.map (abMsg C L b' bt)) p1
              (proposalRound k C ordP (recoveryRound k C D σ0 msgs))))).1.reps.lookup j = some s ∧
          s.committed = b' ∧ s.committed.view = D.v + 1 ∧ (s0 j).committed.view < s.committed.view := by
  have hS := recSetup_of_reach k C D s0 L σ0 blk hk hr hca hP h0.reps
  have hlockv : ∀ j ∈ C.honest, ∀ i ∈ C.honest, Top C D i → (s0 j).lock.view ≤ (D.hb i).view :=
    fun j hj i hi ht => (top_block_covers_lock k C D s0 L σ0 blk hk hr hca hP h0.reps j i hj hi ht).1
  obtain ⟨i, b', g1, g2, g3, g4, g5, g6, g7, g8⟩ := recovery_round_done k C L N D s0 σ0.truth hC hS hY hlockv σ0 h0 msgs hm
  have hpi := propsIn_of_pool L b' (recoveryRound k C D σ0 msgs).2 ordP g7 (fun j hj => g8 j (hordP.mem j hj).1 (hordP.mem j hj).2)
  obtain ⟨bt, q1, q2, q3⟩ := recDone_phaseA_pool k C L hC D N i b' _ (by have := hY.bound; omega) g6 ordP hordP
  have hy : proposalRound k C ordP (recoveryRound k C D σ0 msgs) =
      deliverAll k C ((recoveryRound k C D σ0 msgs).1, []) (ordP.map (propMsg L b')) := by
    unfold proposalRound; rw [hpi]
  rw [hy]
  have hpool : (deliverAll k C ((recoveryRound k C D σ0 msgs).1, []) (ordP.map (propMsg L b'))).2 =
      (roundItems false ordP).map (abMsg C L b' bt) := by
    rw [q2]; exact votes_eq_items C L b' bt ordP
  refine ⟨i, b', bt, g1, g2, g3, g4, g5, by rw [hpool]; exact h1.map _, ?_⟩
  obtain ⟨B1, bt1, _, c2⟩ := synced_commits_all k C L (D.v + 1) (N + 2) hC b' (D.hb i) bt _ (by have := hY.bound; omega) q1
    false ordP hordP hpool (fun h => by cases h) q3 i1 p1 h1 hp1
  refine ⟨B1, bt1, ?_⟩
  intro i2 p2 h2 hp2
  obtain ⟨B2, bt2, _, c4⟩ := c2 i2 p2 h2 hp2
  refine ⟨B2, bt2, ?_⟩
  intro i3 p3 h3 hp3 j hj
  obtain ⟨B3, bt3, _, _, c6⟩ := c4 i3 p3 h3 hp3
  obtain ⟨_, s, _, d2, d3, _⟩ := c6 j hj
  have hv : s.committed.view = D.v + 1 := by rw [d3]; exact g3
  exact ⟨s, d2, d3, hv, by rw [hv]; have := hY.committed j hj; omega⟩

end HsVerif.Model
