import HsVerif.Model.Cache
import HsVerif.Proofs.Cert
/-! Lemmas for C11: key injectivity and the LRU invariant. -/
namespace HsVerif.Model

theorem insertAtom_perm (a : Atom) (l : List Atom) : (insertAtom a l).Perm (a :: l) := by
  induction l with
  | nil => simp [insertAtom]
  | cons b bs ih =>
    unfold insertAtom
    split
    · exact List.Perm.refl _
    · exact (List.Perm.cons b ih).trans (List.Perm.swap a b bs)

theorem normAtoms_perm (l : List Atom) : (normAtoms l).Perm l := by
  induction l with
  | nil => simp [normAtoms]
  | cons a as ih =>
    simp only [normAtoms, List.foldr_cons] at *
    exact (insertAtom_perm a _).trans (List.Perm.cons a ih)

theorem insertNat_perm (a : Nat) (l : List Nat) : (insertNat a l).Perm (a :: l) := by
  induction l with
  | nil => simp [insertNat]
  | cons b bs ih =>
    unfold insertNat
    split
    · exact List.Perm.refl _
    · exact (List.Perm.cons b ih).trans (List.Perm.swap a b bs)

theorem normNats_perm (l : List Nat) : (normNats l).Perm l := by
  induction l with
  | nil => simp [normNats]
  | cons a as ih =>
    simp only [normNats, List.foldr_cons] at *
    exact (insertNat_perm a _).trans (List.Perm.cons a ih)

theorem perm_of_norm_eq {a a' : List Atom} (h : normAtoms a = normAtoms a') : a.Perm a' :=
  (normAtoms_perm a).symm.trans (h ▸ normAtoms_perm a')

theorem perm_of_normNats_eq {a a' : List Nat} (h : normNats a = normNats a') : a.Perm a' :=
  (normNats_perm a).symm.trans (h ▸ normNats_perm a')

theorem isPerm_congr {a a' x : List Atom} (h : a.Perm a') : a.isPerm x = a'.isPerm x := by
  rw [Bool.eq_iff_iff, List.isPerm_iff, List.isPerm_iff]
  exact ⟨fun p => h.symm.trans p, fun p => h.trans p⟩

theorem isEmpty_congr {a a' : List Nat} (h : a.Perm a') : a.isEmpty = a'.isEmpty := by
  cases a with
  | nil => have := h.symm.eq_nil; subst this; rfl
  | cons x xs =>
    cases a' with
    | nil => have := h.eq_nil; simp at this
    | cons _ _ => rfl

theorem entries_eq_of_maps : ∀ (es es' : List Entry), es.map (·.claimed) = es'.map (·.claimed) →
    es.map (·.bytes) = es'.map (·.bytes) → es = es' := by
  intro es
  induction es with
  | nil => intro es' h _; cases es' with
    | nil => rfl
    | cons _ _ => simp at h
  | cons e es ih =>
    intro es' h1 h2
    cases es' with
    | nil => simp at h1
    | cons e' es' =>
      simp only [List.map_cons, List.cons.injEq] at h1 h2
      have := ih es' h1.2 h2.2
      subst this
      cases e; cases e'
      simp at h1 h2
      simp [h1, h2]

/-- what `verify` / `batchVerify` look at is determined by the key components -/
theorem sig_eq_or_bls_equiv (s s' : Sig) (hp : s.participants = s'.participants)
    (hb : s.typedBytes = s'.typedBytes) (hw : s.WF) (hw' : s'.WF) :
    s = s' ∨ ∃ a j bits a' j' bits', s = .bls a j bits ∧ s' = .bls a' j' bits' ∧ bits.ids = bits'.ids ∧
      bits.len = bits'.len ∧ a.Perm a' ∧ j.Perm j' := by
  cases s with
  | multi k es =>
    cases s' with
    | multi k' es' =>
      left
      simp only [Sig.typedBytes, SigBytes.multi.injEq] at hb
      simp only [Sig.participants] at hp
      obtain ⟨rfl, hb⟩ := hb
      rw [entries_eq_of_maps es es' hp hb]
    | bls _ _ _ => simp [Sig.typedBytes] at hb
  | bls a j bits =>
    cases s' with
    | multi _ _ => simp [Sig.typedBytes] at hb
    | bls a' j' bits' =>
      right
      simp only [Sig.typedBytes, SigBytes.bls.injEq] at hb
      simp only [Sig.participants] at hp
      simp only [Sig.WF] at hw hw'
      exact ⟨a, j, bits, a', j', bits', rfl, rfl, hp, by rw [hw, hw', hp], perm_of_norm_eq hb.1, perm_of_normNats_eq hb.2⟩

theorem key_inj_verify (T : Truth) (c : Cfg) (s s' : Sig) (m m' : Msg) (hw : s.WF) (hw' : s'.WF)
    (h : keyVerify s m = keyVerify s' m') : verify T c s m = verify T c s' m' := by
  simp only [keyVerify, CKey.mk.injEq, List.cons.injEq, Prod.mk.injEq, and_true, true_and] at h
  obtain ⟨rfl, hp, hb⟩ := h
  rcases sig_eq_or_bls_equiv s s' hp hb hw hw' with rfl | ⟨a, j, bits, a', j', bits', rfl, rfl, hi, hl, ha, hj⟩
  · rfl
  · have hf : bits.first = bits'.first := by simp [Bitfield.first, hi]
    simp only [verify, hl, hf, hi, isPerm_congr ha, isEmpty_congr hj]

theorem key_inj_batch (T : Truth) (c : Cfg) (s s' : Sig) (b b' : List (Nat × Msg)) (hw : s.WF) (hw' : s'.WF)
    (h : keyBatch s b = keyBatch s' b') : batchVerify T c s b = batchVerify T c s' b' := by
  simp only [keyBatch, CKey.mk.injEq, true_and] at h
  obtain ⟨rfl, hp, hb⟩ := h
  rcases sig_eq_or_bls_equiv s s' hp hb hw hw' with rfl | ⟨a, j, bits, a', j', bits', rfl, rfl, hi, hl, ha, hj⟩
  · rfl
  · simp only [batchVerify, hl, isPerm_congr ha, isEmpty_congr hj]

theorem key_kinds_differ (s s' : Sig) (m : Msg) (b : List (Nat × Msg)) : keyVerify s m ≠ keyBatch s' b := by
  simp [keyVerify, keyBatch]

/-! LRU -/

def Lru.Inv (c : Lru) : Prop := c.order.Nodup ∧ c.order.length ≤ c.cap

theorem Lru.mem_insert (c : Lru) (k x : CKey) (h : x ∈ (c.insert k).order) : x = k ∨ x ∈ c.order := by
  unfold Lru.insert at h
  split at h
  · simp only [List.mem_cons] at h
    rcases h with h | h
    · exact Or.inl h
    · exact Or.inr (List.mem_of_mem_erase h)
  · simp only [List.mem_cons] at h
    rcases h with h | h
    · exact Or.inl h
    · right
      split at h
      · exact h
      · exact List.dropLast_subset _ h

theorem Lru.mem_check (c : Lru) (k x : CKey) (h : x ∈ (c.check k).1.order) : x ∈ c.order := by
  unfold Lru.check at h
  split at h
  · rename_i hk
    simp only [List.mem_cons] at h
    rcases h with h | h
    · subst h; simpa using hk
    · exact List.mem_of_mem_erase h
  · exact h

theorem Lru.check_hit (c : Lru) (k : CKey) : (c.check k).2 = true ↔ k ∈ c.order := by
  unfold Lru.check
  split
  · rename_i h; simp at h; simp [h]
  · rename_i h; simp at h; simp [h]

theorem Lru.inv_check (c : Lru) (k : CKey) (h : c.Inv) : (c.check k).1.Inv := by
  unfold Lru.check
  split
  · rename_i hk
    have hk' : k ∈ c.order := by simpa using hk
    refine ⟨?_, ?_⟩
    · simp only [List.nodup_cons]
      exact ⟨fun hm => (List.Nodup.mem_erase_iff h.1).mp hm |>.1 rfl, h.1.erase k⟩
    · simp only [List.length_cons, List.length_erase_of_mem hk']
      have := List.length_pos_of_mem hk'
      have := h.2
      show c.order.length - 1 + 1 ≤ c.cap
      omega
  · exact h

theorem Lru.inv_insert (c : Lru) (k : CKey) (h : c.Inv) (hc : 1 ≤ c.cap) : (c.insert k).Inv := by
  unfold Lru.insert
  split
  · rename_i hk
    have hk' : k ∈ c.order := by simpa using hk
    refine ⟨?_, ?_⟩
    · simp only [List.nodup_cons]
      exact ⟨fun hm => (List.Nodup.mem_erase_iff h.1).mp hm |>.1 rfl, h.1.erase k⟩
    · simp only [List.length_cons, List.length_erase_of_mem hk']
      have := List.length_pos_of_mem hk'
      have := h.2
      show c.order.length - 1 + 1 ≤ c.cap
      omega
  · rename_i hk
    have hk' : k ∉ c.order := by simpa using hk
    simp only
    split
    · rename_i hl
      exact ⟨List.nodup_cons.mpr ⟨hk', h.1⟩, by simp; omega⟩
    · rename_i hl
      refine ⟨List.nodup_cons.mpr ⟨fun hm => hk' (List.dropLast_subset _ hm), ?_⟩, ?_⟩
      · exact h.1.sublist (List.dropLast_sublist _)
      · have := h.2
        simp only [List.length_cons, List.length_dropLast]
        show c.order.length - 1 + 1 ≤ c.cap
        omega

theorem Lru.insert_cap (c : Lru) (k : CKey) : (c.insert k).cap = c.cap := by
  unfold Lru.insert; split <;> rfl

theorem Lru.check_cap (c : Lru) (k : CKey) : (c.check k).1.cap = c.cap := by
  unfold Lru.check; split <;> rfl

end HsVerif.Model
