import HsVerif.Proofs.ReplicaSignal
/-!
C10, last sentence (task S9), replica level: INPUT IN WHICH NOTHING VERIFIES LEAVES THE PROTOCOL STATE
UNCHANGED — the direct statement about one delivered event.

* Vocabulary.  `QCFails` / `TCFails` / `AggFails k c T x`: the pure verifier of Model/Cert.lean rejects `x`
  against `env k c s'` for EVERY state `s'` whose signature table is `T` — the monadic verifiers
  (`verifyQCM`, `verifyAggM`) fetch blocks before they verify, so the block store in which the check is
  finally made is not the one the event arrived in; configuration and keys are fixed.  `VoteFails`: the
  vote's signature is absent, or not a single signature, or `verifyPC` rejects it in every such state.
  `viewSigOK`: a timeout's view signature is present, by the claimed sender and verifies (no store involved).
  `SIFails`: every certificate PRESENT in a sync info fails (an empty sync info qualifies).
  `NothingVerifies k c s e` (all certificates and signatures of a peer message) and the weaker `Rejected`
  (only the one the handler checks first) — local and internal events satisfy neither.
* Frames `_nc` (`NC s = NC s0`: everything but the block store is as in `s0`) for what runs below the
  handlers, together with what the verifiers answer: `verifyQCM_nc` (accepts ⇒ the pure verifier accepts in
  the state left behind, which has the table of `s0`), `verifyAggM_nc` (panics only without signature;
  accepts ⇒ `verifyAggQC` accepts in some state with that table — the candidates are verified one by one
  with a fetch before each, `verifyAggM_go_nc`), `verifyTCM_rej`, `verifyAnyM_rej`, `voterVerify_rej`,
  `verifySyncInfo_rej` (all certificates fail ⇒ `.reject`, or `.ok (none, 0, false)` for a sync info
  without TC and QC).
* Handlers: `advanceView_rej` (needs `1 ≤ view` for the sync info without QC: its certified view is 0,
  and `0 < s.view` is what stops `advanceView`), `onPropose_rej` (only `waitingVC` may grow),
  `collectVote_rej` (only `waitingProp` may grow), `onRemoteTimeout_rej` (only the timeout collector is
  pruned).  Code behind a failed check is given the spec `unreachable_spec` (precondition `False`) and the
  resulting goal is closed from the path condition.
* `tick_inert`, `step_inert` (no hypothesis on the deferred lists: the step is the event loop run on from a
  state that agrees with `s` on all `Kept` fields and whose queue is exactly what the tick re-queued),
  `step_inert_quiet` (the step changes no `Kept` field, leaves the queue empty, emits NOTHING).
* Sufficient conditions for the non-vacuity examples: `qcFails_of_bad_entry`, `voteFails_of_bad_entry`,
  `tcFails_of_short`.
-/
open Std.Do
set_option mvcgen.warning false
set_option linter.unusedSimpArgs false
set_option linter.unusedVariables false
namespace HsVerif.Model
open HsVerif.Proofs

/-- everything of the replica state except the block store -/
@[reducible] def NC (s : RState) :=
  (s.view, s.highQC, s.highTC, s.committed, s.lastVoted, s.lastProposed, s.lock, s.lastTimeout, s.votes,
   s.nextCmd, s.truth, s.nextBytes, s.out, s.ghost, s.queue, s.waitingProp, s.waitingVC, s.timeouts)

/-- the QC is rejected in every state with signature table `T` (any block store) -/
def QCFails (k : Keys) (c : RCfg) (T : List (Nat × Atom)) (q : QC) : Prop :=
  ∀ s' : RState, s'.truth = T → verifyQC (env k c s') q = false
/-- the TC is rejected in every state with signature table `T` -/
def TCFails (k : Keys) (c : RCfg) (T : List (Nat × Atom)) (t : TC) : Prop :=
  ∀ s' : RState, s'.truth = T → verifyTC (env k c s') t = false
/-- the aggregate QC is not accepted in any state with signature table `T` (rejected, or no signature) -/
def AggFails (k : Keys) (c : RCfg) (T : List (Nat × Atom)) (a : AggQC) : Prop :=
  ∀ s' : RState, s'.truth = T → ∀ q, verifyAggQC (env k c s') a ≠ .ok q
/-- the vote's signature is absent, or is not a single signature, or is not accepted as a partial
certificate for `h` in any state with signature table `T`.  The sender id of the vote message plays no role:
the voting machine counts the SIGNER of the signature (`Sig.first`). -/
def VoteFails (k : Keys) (c : RCfg) (T : List (Nat × Atom)) (sig : Option Sig) (h : Hash) : Prop :=
  ∀ sg, sig = some sg → sg.len = 1 → ∀ s' : RState, s'.truth = T → verifyPC (env k c s') sig h ≠ .ok ()

macro "nc_finish" : tactic => `(tactic| (
  (try intros)
  (try simp_all +zetaDelta)))

section NCFrames
variable (s0 : RState)

theorem getBlock_nc (h : Hash) :
    ⦃fun s => ⌜NC s = NC s0⌝⦄ getBlock h ⦃⇓ _ s => ⌜NC s = NC s0⌝⦄ := by
  mvcgen [getBlock] <;> nc_finish

theorem fetchFor_nc (h : Hash) :
    ⦃fun s => ⌜NC s = NC s0⌝⦄ fetchFor h ⦃⇓ _ s => ⌜NC s = NC s0⌝⦄ := by
  have h1 := getBlock_nc s0
  mvcgen [fetchFor, h1] <;> nc_finish

theorem extendsM_nc (b t : Block) :
    ⦃fun s => ⌜NC s = NC s0⌝⦄ extendsM b t ⦃⇓ _ s => ⌜NC s = NC s0⌝⦄ := by
  mvcgen [extendsM] <;> nc_finish

theorem voteRule_nc (c : RCfg) (v : Nat) (b : Block) (agg : Option AggQC) :
    ⦃fun s => ⌜NC s = NC s0⌝⦄ voteRule c v b agg ⦃⇓ _ s => ⌜NC s = NC s0⌝⦄ := by
  have h1 := getBlock_nc s0
  have h2 := extendsM_nc s0
  mvcgen [voteRule, h1, h2] <;> nc_finish

theorem nc_truth {s s0 : RState} (h : NC s = NC s0) : s.truth = s0.truth := by simp_all

theorem verifyQCM_nc (k : Keys) (c : RCfg) (q : QC) :
    ⦃fun s => ⌜NC s = NC s0⌝⦄ verifyQCM k c q
    ⦃⇓ r s => ⌜NC s = NC s0 ∧ (r = true → ∃ s' : RState, s'.truth = s0.truth ∧ verifyQC (env k c s') q = true)⌝⦄ := by
  have h1 := fetchFor_nc s0
  mvcgen [verifyQCM, h1]
  all_goals (try intros)
  all_goals (rename_i s h; exact ⟨h, fun hv => ⟨s, nc_truth h, hv⟩⟩)

/-- a QC that fails in every store is rejected -/
theorem verifyQCM_rej (k : Keys) (c : RCfg) (q : QC) :
    ⦃fun s => ⌜NC s = NC s0⌝⦄ verifyQCM k c q
    ⦃⇓ r s => ⌜NC s = NC s0 ∧ (QCFails k c s0.truth q → r = false)⌝⦄ := by
  apply triple_of_run
  intro s hs
  obtain ⟨h1, h2⟩ := run_res_of_triple _ _ _ (verifyQCM_nc s0 k c q) s hs
  refine ⟨h1, fun hf => ?_⟩
  cases hr : ((verifyQCM k c q).run s).1 with
  | false => rfl
  | true =>
    obtain ⟨s', ht, hv⟩ := h2 hr
    rw [hf s' ht] at hv; cases hv

theorem verifyTCM_rej (k : Keys) (c : RCfg) (t : TC) :
    ⦃fun s => ⌜NC s = NC s0⌝⦄ verifyTCM k c t
    ⦃⇓ r s => ⌜NC s = NC s0 ∧ (TCFails k c s0.truth t → r = false)⌝⦄ := by
  mvcgen [verifyTCM]
  rename_i s h
  exact ⟨h, fun hf => hf s (nc_truth h)⟩

theorem verifyAggM_go_nc (k : Keys) (c : RCfg) (l : List QC) :
    ⦃fun s => ⌜NC s = NC s0⌝⦄ verifyAggM.go k c l
    ⦃⇓ r s => ⌜NC s = NC s0 ∧ r ≠ .panic ∧
      ∀ q, r = .ok q → q ∈ l ∧ ∃ s' : RState, s'.truth = s0.truth ∧ verifyQC (env k c s') q = true⌝⦄ := by
  induction l with
  | nil => mvcgen [verifyAggM.go] <;> nc_finish
  | cons q rest ih =>
    have h1 := verifyQCM_nc s0 k c q
    mvcgen [verifyAggM.go, ih, h1]
    all_goals (try intros)
    · rename_i hr s h
      refine ⟨h.1, by simp, ?_⟩
      intro q1 e; cases e
      exact ⟨List.mem_cons_self .., h.2 hr⟩
    · rename_i h; exact h.1
    · rename_i a1 a2 a3
      exact ⟨a1, a2, fun q1 e => ⟨List.mem_cons_of_mem _ (a3 q1 e).1, (a3 q1 e).2⟩⟩

theorem env_T_truth (k : Keys) (c : RCfg) (s s' : RState) (h : s'.truth = s.truth) :
    (env k c s').T = (env k c s).T := by simp [env, h]

/-- `verifyAggM`: only the block store changes; a panic needs an absent signature; an accepted
aggregate QC is accepted by the pure verifier in some state with the same signature table -/
theorem verifyAggM_nc (k : Keys) (c : RCfg) (a : AggQC) :
    ⦃fun s => ⌜NC s = NC s0⌝⦄ verifyAggM k c a
    ⦃⇓ r s => ⌜NC s = NC s0 ∧ (a.sig ≠ none → r ≠ .panic) ∧
      (AggFails k c s0.truth a → ∀ q, r ≠ .ok q)⌝⦄ := by
  have h1 := verifyAggM_go_nc s0 k c
  mvcgen [verifyAggM, h1]
  all_goals (try intros)
  all_goals clear h1
  · simp_all
  · simp_all
  · simp_all
  · rename_i sg hsg hlen s1 hs1 E msgs hb r s a1 a2 a3
    refine ⟨a1, fun _ => a2, fun hf q hq => ?_⟩
    obtain ⟨hm, s', ht, hv⟩ := a3 q hq
    have hT : (env k c s').T = (env k c s1).T := env_T_truth k c s1 s' (ht.trans (nc_truth hs1).symm)
    have hb' : batchVerify (env k c s').T (env k c s').cfg sg
        (a.qcs.map (fun p => (p.1, (env k c s').tmoMsg p.1 a.view p.2))) = true := by
      have hb2 : batchVerify (env k c s1).T (env k c s1).cfg sg
          (a.qcs.map (fun p => (p.1, (env k c s1).tmoMsg p.1 a.view p.2))) = true := by
        simpa +zetaDelta using hb
      rw [hT]; exact hb2
    have hfind : ∃ q', findHighestValidQC (env k c s') (a.qcs.map (·.2)) = some q' := by
      unfold findHighestValidQC
      cases hf' : (sortDesc (a.qcs.map (·.2))).find? (verifyQC (env k c s')) with
      | some q' => exact ⟨q', rfl⟩
      | none =>
        have := List.find?_eq_none.mp hf' q hm
        simp [hv] at this
    obtain ⟨q', hq'⟩ := hfind
    apply hf s' ht q'
    have hlen' : ¬ sg.len < (env k c s').cfg.quorum := hlen
    simp [verifyAggQC, hsg, hlen', hb', hq']

/-- no certificate present in the sync info verifies -/
def SIFails (k : Keys) (c : RCfg) (T : List (Nat × Atom)) (si : SyncInfo) : Prop :=
  (∀ q, si.qc = some q → QCFails k c T q) ∧ (∀ t, si.tc = some t → TCFails k c T t) ∧
  (∀ a, si.agg = some a → AggFails k c T a)

theorem verifyAnyM_rej (k : Keys) (c : RCfg) (bq : QC) (agg : Option AggQC) :
    ⦃fun s => ⌜NC s = NC s0⌝⦄ verifyAnyM k c bq agg
    ⦃⇓ r s => ⌜NC s = NC s0 ∧ (QCFails k c s0.truth bq → r = .reject)⌝⦄ := by
  have h1 := verifyAggM_nc s0 k c
  have h2 := verifyQCM_rej s0 k c bq
  mvcgen [verifyAnyM, h1, h2]
  all_goals (try intros)
  all_goals clear h1 h2
  all_goals simp_all

theorem voterVerify_rej (k : Keys) (c : RCfg) (id : Nat) (b : Block) (agg : Option AggQC) :
    ⦃fun s => ⌜NC s = NC s0⌝⦄ voterVerify k c id b agg
    ⦃⇓ r s => ⌜NC s = NC s0 ∧ (QCFails k c s0.truth b.qc → r = .reject)⌝⦄ := by
  have h1 := voteRule_nc s0 c
  have h2 := verifyAnyM_rej s0 k c b.qc agg
  mvcgen [voterVerify, h1, h2]
  all_goals (try intros)
  all_goals clear h1 h2
  all_goals simp_all

theorem verifySyncInfo_rej (k : Keys) (c : RCfg) (si : SyncInfo) :
    ⦃fun s => ⌜NC s = NC s0⌝⦄ verifySyncInfo k c si
    ⦃⇓ r s => ⌜NC s = NC s0 ∧
      (SIFails k c s0.truth si → r = .reject ∨ (r = .ok (none, 0, false) ∧ si.tc = none ∧ si.qc = none))⌝⦄ := by
  have h1 := verifyAggM_nc s0 k c
  have h2 := verifyQCM_rej s0 k c
  have h3 := verifyTCM_rej s0 k c
  mvcgen [verifySyncInfo, h1, h2, h3]
  all_goals (try intros)
  all_goals clear h1 h2 h3
  all_goals simp_all [SIFails]

/-- placeholder spec for code that the rejected paths never reach -/
theorem unreachable_spec {α} (f : M α) (Q : α → RState → Prop) :
    ⦃fun _ => ⌜False⌝⦄ f ⦃⇓ r s => ⌜Q r s⌝⦄ := by
  intro s h; exact h.elim

theorem verifySyncInfo_rej' (k : Keys) (c : RCfg) (si : SyncInfo) (hsi : SIFails k c s0.truth si) :
    ⦃fun s => ⌜NC s = NC s0⌝⦄ verifySyncInfo k c si
    ⦃⇓ r s => ⌜NC s = NC s0 ∧ (r = .reject ∨ (r = .ok (none, 0, false) ∧ si.tc = none ∧ si.qc = none))⌝⦄ := by
  apply triple_of_run
  intro s hs
  obtain ⟨h1, h2⟩ := run_res_of_triple _ _ _ (verifySyncInfo_rej s0 k c si) s hs
  exact ⟨h1, h2 hsi⟩

theorem advanceView_rej (k : Keys) (c : RCfg) (si : SyncInfo) (hv : 1 ≤ s0.view ∨ si.qc ≠ none)
    (hsi : SIFails k c s0.truth si) :
    ⦃fun s => ⌜NC s = NC s0⌝⦄ advanceView k c si ⦃⇓ _ s => ⌜NC s = NC s0⌝⦄ := by
  have h1 := verifySyncInfo_rej' s0 k c si hsi
  have h2 := getBlock_nc s0
  have h3 := fun si => unreachable_spec (createAndPropose k c si) (fun _ s => NC s = NC s0)
  mvcgen [advanceView, emit, addEvent, h1, h2, h3]
  all_goals (try intros)
  all_goals clear h1 h2 h3 hsi
  all_goals (first | (simp_all +zetaDelta; done) | (simp_all +zetaDelta; omega) | skip)

theorem SIFails.qcOnly {k : Keys} {c : RCfg} {T : List (Nat × Atom)} {q : QC} (hq : QCFails k c T q) :
    SIFails k c T { qc := some q } := by
  refine ⟨?_, ?_, ?_⟩
  · intro q' h; cases h; exact hq
  · intro t h; cases h
  · intro a h; cases h

theorem onPropose_rej (k : Keys) (c : RCfg) (id : Nat) (b : Block) (agg : Option AggQC)
    (hq : QCFails k c s0.truth b.qc) :
    ⦃fun s => ⌜NC s = NC s0⌝⦄ onPropose k c id b agg
    ⦃⇓ _ s => ⌜∃ w, NC s = NC { s0 with waitingVC := w }⌝⦄ := by
  have h1 := advanceView_rej s0 k c { qc := some b.qc } (Or.inr (by simp)) (SIFails.qcOnly hq)
  have h2 := voterVerify_rej s0 k c id b agg
  have h3 := unreachable_spec (onValidPropose k c id b) (fun _ s => ∃ w, NC s = NC { s0 with waitingVC := w })
  mvcgen [onPropose, emit, h1, h2, h3]
  all_goals (try intros)
  all_goals clear h1 h2 h3
  all_goals (first | (simp_all +zetaDelta; done) | skip)

theorem collectVote_rej (k : Keys) (c : RCfg) (id : Nat) (sig : Option Sig) (hash : Hash) (d : Bool)
    (hp : VoteFails k c s0.truth sig hash) :
    ⦃fun s => ⌜NC s = NC s0⌝⦄ collectVote k c id sig hash d
    ⦃⇓ _ s => ⌜∃ w, NC s = NC { s0 with waitingProp := w }⌝⦄ := by
  have h1 := getBlock_nc s0
  mvcgen [collectVote, votesCleanup, addEvent, h1]
  all_goals (try intros)
  all_goals clear h1
  all_goals (first | (simp_all +zetaDelta; done) | skip)
  all_goals (exfalso; subst_vars
             have hx := ‹verifyPC _ _ _ = VRes.ok PUnit.unit›
             exact hp _ rfl (by simp_all) _ (nc_truth (by assumption)) hx)

/-- the view signature of a timeout message is present, by the claimed sender, and verifies -/
def viewSigOK (k : Keys) (c : RCfg) (T : List (Nat × Atom)) (t : TimeoutMsg) : Bool :=
  match t.viewSig with
  | none => false
  | some vs => signedBy t.viewSig t.id && verify (fun b => T.lookup b) c.cfg vs (viewMsg t.view)

theorem onRemoteTimeout_rej (k : Keys) (c : RCfg) (t : TimeoutMsg)
    (ht : viewSigOK k c s0.truth t = false) :
    ⦃fun s => ⌜NC s = NC s0⌝⦄ onRemoteTimeout k c t
    ⦃⇓ _ s => ⌜∃ w, NC s = NC { s0 with timeouts := w }⌝⦄ := by
  have h1 := fun si => unreachable_spec (advanceView k c si) (fun _ s => ∃ w, NC s = NC { s0 with timeouts := w })
  mvcgen [onRemoteTimeout, h1]
  all_goals (try intros)
  all_goals clear h1
  all_goals (first | (simp_all +zetaDelta; done) | skip)
  all_goals (simp_all +zetaDelta [viewSigOK, env]; done)

end NCFrames

/-! ## one delivered event -/

/-- what is enough for an event to be dropped (weaker than `NothingVerifies`): the certificate / signature
the handler checks FIRST fails -/
def Rejected (k : Keys) (c : RCfg) (T : List (Nat × Atom)) : Ev → Prop
  | .propose _ b _ => QCFails k c T b.qc
  | .vote _ sig hash _ => VoteFails k c T sig hash
  | .timeout t => viewSigOK k c T t = false
  | .newview _ si => SIFails k c T si
  | _ => False

def Ev.isPropose : Ev → Bool
  | .propose _ _ _ => true
  | _ => false

def Ev.isNewview : Ev → Bool
  | .newview _ _ => true
  | _ => false

/-- the deferred events that `tick` puts back into the queue after handling `e` -/
def requeued (e : Ev) (s : RState) : List Ev := if e.isPropose then s.waitingProp else []

/-- the fields no rejected input touches: everything but the block store, the two deferred lists, the
timeout collector, the event queue and the effects -/
@[reducible] def Kept (s : RState) :=
  (s.view, s.highQC, s.highTC, s.committed, s.lastVoted, s.lastProposed, s.lock, s.lastTimeout, s.votes,
   s.nextCmd, s.truth, s.nextBytes, s.ghost)

theorem tick_vote_run (k : Keys) (c : RCfg) (s : RState) (id sig hash d rest)
    (h : s.queue = .vote id sig hash d :: rest) :
    (tick k c).run s = (true, ((collectVote k c id sig hash d).run { s with queue := rest }).2) := by
  unfold tick
  simp only [bind, StateT.bind, get, getThe, MonadStateOf.get, StateT.get, StateT.run, h, set, StateT.set, pure, StateT.pure]
  rfl

theorem tick_timeout_run (k : Keys) (c : RCfg) (s : RState) (t rest)
    (h : s.queue = .timeout t :: rest) :
    (tick k c).run s = (true, ((onRemoteTimeout k c t).run { s with queue := rest }).2) := by
  unfold tick
  simp only [bind, StateT.bind, get, getThe, MonadStateOf.get, StateT.get, StateT.run, h, set, StateT.set, pure, StateT.pure]
  rfl

theorem tick_newview_run (k : Keys) (c : RCfg) (s : RState) (id si rest)
    (h : s.queue = .newview id si :: rest) :
    (tick k c).run s = (true, ((advanceView k c si).run { s with queue := rest }).2) := by
  unfold tick
  simp only [bind, StateT.bind, get, getThe, MonadStateOf.get, StateT.get, StateT.run, h, set, StateT.set, pure, StateT.pure]
  rfl

theorem tick_propose_run (k : Keys) (c : RCfg) (s : RState) (id b agg rest)
    (h : s.queue = .propose id b agg :: rest) :
    (tick k c).run s = (true,
      { ((onPropose k c id b agg).run { s with queue := rest }).2 with
        waitingProp := [],
        queue := ((onPropose k c id b agg).run { s with queue := rest }).2.queue ++
                 ((onPropose k c id b agg).run { s with queue := rest }).2.waitingProp }) := by
  unfold tick
  simp only [bind, StateT.bind, get, getThe, MonadStateOf.get, StateT.get, StateT.run, h, set, StateT.set, pure, StateT.pure]
  rfl

theorem tick_nil_run (k : Keys) (c : RCfg) (s : RState) (h : s.queue = []) :
    (tick k c).run s = (false, s) := by
  unfold tick
  simp only [bind, StateT.bind, get, getThe, MonadStateOf.get, StateT.get, StateT.run, h, pure, StateT.pure]

theorem runLoop_succ_run (k : Keys) (c : RCfg) (n : Nat) (s : RState) :
    (runLoop k c (n+1)).run s =
      if ((tick k c).run s).1 then (runLoop k c n).run ((tick k c).run s).2 else ((), ((tick k c).run s).2) := by
  simp only [runLoop, bind, StateT.bind, StateT.run, pure]
  have : ∀ x : Bool × RState, (match x with | (a, s) => (if a = true then runLoop k c n else StateT.pure ()) s) =
      if x.fst = true then runLoop k c n x.snd else ((), x.snd) := by
    rintro ⟨a, s'⟩; cases a <;> rfl
  exact this _

/-- what one `tick` on a rejected event leaves behind -/
structure InertTick (s : RState) (e : Ev) (rest : List Ev) (s1 : RState) : Prop where
  core : Kept s1 = Kept s
  out : s1.out = s.out
  queue : s1.queue = rest ++ requeued e s
  wprop : e.isPropose = true → s1.waitingProp = []

/-- **One tick on a rejected event**: the event is popped, nothing but the block store (fetches), the
deferred lists (a proposal for a later view, a vote for an unknown block: both unverified) and the timeout
collector (stale entries are dropped) changes, nothing is emitted, nothing is queued — except that ANY
proposal re-queues the votes deferred until a proposal arrives. -/
theorem tick_inert (k : Keys) (c : RCfg) (s : RState) (e : Ev) (rest : List Ev)
    (hr : Rejected k c s.truth e) (hq : s.queue = e :: rest) (hv : 1 ≤ s.view ∨ e.isNewview = false) :
    ((tick k c).run s).1 = true ∧ InertTick s e rest ((tick k c).run s).2 := by
  cases e with
  | propose id b agg =>
    rw [tick_propose_run k c s id b agg rest hq]
    obtain ⟨w, hw⟩ := run_res_of_triple _ _ _
      (onPropose_rej { s with queue := rest } k c id b agg hr) { s with queue := rest } rfl
    simp only [NC, Prod.mk.injEq] at hw
    refine ⟨rfl, ?_, ?_, ?_, fun _ => rfl⟩
    · simp only [Kept, Prod.mk.injEq]; simp [hw]
    · simp [hw]
    · simp [hw, requeued, Ev.isPropose]
  | vote id sig hash d =>
    rw [tick_vote_run k c s id sig hash d rest hq]
    obtain ⟨w, hw⟩ := run_res_of_triple _ _ _
      (collectVote_rej { s with queue := rest } k c id sig hash d hr) { s with queue := rest } rfl
    simp only [NC, Prod.mk.injEq] at hw
    refine ⟨rfl, ?_, ?_, ?_, fun h => by simp [Ev.isPropose] at h⟩
    · simp only [Kept, Prod.mk.injEq]; simp [hw]
    · simp [hw]
    · simp [hw, requeued, Ev.isPropose]
  | timeout t =>
    rw [tick_timeout_run k c s t rest hq]
    obtain ⟨w, hw⟩ := run_res_of_triple _ _ _
      (onRemoteTimeout_rej { s with queue := rest } k c t hr) { s with queue := rest } rfl
    simp only [NC, Prod.mk.injEq] at hw
    refine ⟨rfl, ?_, ?_, ?_, fun h => by simp [Ev.isPropose] at h⟩
    · simp only [Kept, Prod.mk.injEq]; simp [hw]
    · simp [hw]
    · simp [hw, requeued, Ev.isPropose]
  | newview id si =>
    rw [tick_newview_run k c s id si rest hq]
    have hv' : 1 ≤ ({ s with queue := rest } : RState).view ∨ si.qc ≠ none := by
      rcases hv with h | h
      · exact Or.inl h
      · simp [Ev.isNewview] at h
    have hw := run_res_of_triple _ _ _
      (advanceView_rej { s with queue := rest } k c si hv' hr) { s with queue := rest } rfl
    simp only [NC, Prod.mk.injEq] at hw
    refine ⟨rfl, ?_, ?_, ?_, fun h => by simp [Ev.isPropose] at h⟩
    · simp only [Kept, Prod.mk.injEq]; simp [hw]
    · simp [hw]
    · simp [hw, requeued, Ev.isPropose]
  | _ => exact hr.elim

/-- `step`, with the loop's result named -/
theorem step_eq (k : Keys) (c : RCfg) (s : RState) (e : Ev) :
    step k c s e =
      ({ ((runLoop k c 100000).run { s with out := [], queue := s.queue ++ [e] }).2 with out := [] },
       ((runLoop k c 100000).run { s with out := [], queue := s.queue ++ [e] }).2.out) := rfl

/-- the rest of a step after its first tick: run the loop on, return state and effects -/
def drain (k : Keys) (c : RCfg) (s1 : RState) : RState × List Out :=
  ({ ((runLoop k c 99999).run s1).2 with out := [] }, ((runLoop k c 99999).run s1).2.out)

/-- **Rejected input, general form** (no hypothesis on the deferred lists): delivering a rejected event to a
replica with an empty queue is the same as running the event loop on from a state `s1` that agrees with `s`
on every kept field, has emitted nothing, and whose queue holds exactly the events the tick re-queued —
nothing for a vote, timeout or new-view; the votes deferred until a proposal arrives (`s.waitingProp`,
earlier input that waited for its block) for a proposal. -/
theorem step_inert (k : Keys) (c : RCfg) (s : RState) (e : Ev)
    (hr : Rejected k c s.truth e) (hq : s.queue = []) (hv : 1 ≤ s.view ∨ e.isNewview = false) :
    ∃ s1, Kept s1 = Kept s ∧ s1.out = [] ∧ s1.queue = requeued e s ∧
      (e.isPropose = true → s1.waitingProp = []) ∧ step k c s e = drain k c s1 := by
  have hq0 : ({ s with out := [], queue := s.queue ++ [e] } : RState).queue = e :: [] := by simp [hq]
  obtain ⟨h1, h2⟩ := tick_inert k c { s with out := [], queue := s.queue ++ [e] } e [] hr hq0 hv
  refine ⟨_, h2.core, h2.out, ?_, h2.wprop, ?_⟩
  · rw [h2.queue]; simp [requeued]
  · rw [step_eq, show (100000 : Nat) = 99999 + 1 from rfl, runLoop_succ_run, h1]
    rfl

theorem runLoop_nil_run (k : Keys) (c : RCfg) (n : Nat) (s : RState) (h : s.queue = []) :
    (runLoop k c n).run s = ((), s) := by
  cases n with
  | zero => rfl
  | succ n => rw [runLoop_succ_run, tick_nil_run k c s h]; rfl

/-- **Rejected input changes nothing**: with an empty queue and — for a proposal — no votes deferred until
a proposal, the step ends after its first tick: every kept field is as before, the queue is empty again and
there are NO effects at all. -/
theorem step_inert_quiet (k : Keys) (c : RCfg) (s : RState) (e : Ev)
    (hr : Rejected k c s.truth e) (hq : s.queue = []) (hw : e.isPropose = true → s.waitingProp = [])
    (hv : 1 ≤ s.view ∨ e.isNewview = false) :
    Kept (step k c s e).1 = Kept s ∧ (step k c s e).1.queue = [] ∧ (step k c s e).2 = [] := by
  obtain ⟨s1, h1, h2, h3, _, h5⟩ := step_inert k c s e hr hq hv
  have h3' : s1.queue = [] := by
    rw [h3]; unfold requeued; split
    · next h => exact hw h
    · rfl
  rw [h5]
  simp only [drain, runLoop_nil_run k c _ s1 h3']
  exact ⟨h1, h3', h2⟩

/-! ## the property's vocabulary -/

/-- the replica's protocol state: view, highest QC, highest TC, lock, committed block, the ghost history
of what it signed and why it moved, the vote history (`lastVoted`), the last timeout message it sent and the
last view it proposed in -/
@[reducible] def PS (s : RState) :=
  (s.view, s.highQC, s.highTC, s.lock, s.committed, s.ghost, s.lastVoted, s.lastTimeout, s.lastProposed)

/-- **Nothing the message carries verifies**, in any state with the signature table of `s` (verification may
fetch blocks, so the block store is quantified over; the configuration is fixed).  Local events and the
loop's internal events are not peer input. -/
def NothingVerifies (k : Keys) (c : RCfg) (s : RState) : Ev → Prop
  | .propose _ b agg => QCFails k c s.truth b.qc ∧ ∀ a, agg = some a → AggFails k c s.truth a
  | .vote _ sig hash _ => VoteFails k c s.truth sig hash
  | .timeout t => viewSigOK k c s.truth t = false ∧ SIFails k c s.truth t.si
  | .newview _ si => SIFails k c s.truth si
  | _ => False

theorem NothingVerifies.rejected {k : Keys} {c : RCfg} {s : RState} {e : Ev} (h : NothingVerifies k c s e) :
    Rejected k c s.truth e := by
  cases e with
  | propose id b agg => exact h.1
  | vote id sig hash d => exact h
  | timeout t => exact h.1
  | newview id si => exact h
  | _ => exact h.elim

theorem ps_of_kept {s s' : RState} (h : Kept s' = Kept s) : PS s' = PS s := by
  simp only [Kept, Prod.mk.injEq] at h
  simp [PS, h]

/-! ### sufficient conditions (used for the non-vacuity examples) -/

/-- the bytes of a signature entry are unknown to the table, or somebody else's -/
def BadEntry (T : List (Nat × Atom)) (e : Entry) : Prop := ∀ a, T.lookup e.bytes = some a → a.signer ≠ e.claimed

theorem badEntry_of_unknown {T : List (Nat × Atom)} {e : Entry} (h : T.lookup e.bytes = none) : BadEntry T e := by
  intro a ha; rw [h] at ha; cases ha

theorem badEntry_of_other {T : List (Nat × Atom)} {e : Entry} (a : Atom) (h : T.lookup e.bytes = some a)
    (hne : a.signer ≠ e.claimed) : BadEntry T e := by
  intro a' ha; rw [h] at ha; cases ha; exact hne

theorem verify_multi_false (T : List (Nat × Atom)) (cf : Cfg) (kk : Scheme) (es : List Entry) (m : Msg) (e : Entry)
    (he : e ∈ es) (hb : BadEntry T e) : verify (fun b => T.lookup b) cf (.multi kk es) m = false := by
  have h1 : verifySingle (fun b => T.lookup b) cf e m = false := by
    have hne : T.lookup e.bytes ≠ some ⟨e.claimed, m⟩ := fun h => hb _ h rfl
    simp [verifySingle, hne]
  have h2 : es.all (fun e => verifySingle (fun b => T.lookup b) cf e m) = false := by
    apply Bool.eq_false_iff.mpr
    intro h
    have := List.all_eq_true.mp h e he
    rw [h1] at this; cases this
  simp [verify, h2]

theorem qcFails_of_bad_entry (k : Keys) (c : RCfg) (T : List (Nat × Atom)) (q : QC) (kk : Scheme) (es : List Entry)
    (e : Entry) (hh : q.hash ≠ genesisHash) (hs : q.sig = some (.multi kk es)) (he : e ∈ es) (hb : BadEntry T e) :
    QCFails k c T q := by
  intro s' ht
  have hv : ∀ m, verify (env k c s').T (env k c s').cfg (.multi kk es) m = false := by
    intro m; simp only [env, ht]; exact verify_multi_false T _ kk es m e he hb
  unfold verifyQC
  simp only [hs, hv]
  simp [hh]
  intros; split <;> simp

theorem voteFails_of_bad_entry (k : Keys) (c : RCfg) (T : List (Nat × Atom)) (kk : Scheme) (es : List Entry)
    (h : Hash) (e : Entry) (he : e ∈ es) (hb : BadEntry T e) : VoteFails k c T (some (.multi kk es)) h := by
  intro sg hsg _ s' ht
  have hv : ∀ m, verify (env k c s').T (env k c s').cfg (.multi kk es) m = false := by
    intro m; simp only [env, ht]; exact verify_multi_false T _ kk es m e he hb
  unfold verifyPC
  split
  · simp
  · simp [hv]

theorem tcFails_of_short (k : Keys) (c : RCfg) (T : List (Nat × Atom)) (t : TC) (sg : Sig)
    (hv : t.view ≠ 0) (hs : t.sig = some sg) (hl : sg.len < c.cfg.quorum) : TCFails k c T t := by
  intro s' _
  have : sg.len < (env k c s').cfg.quorum := hl
  simp [verifyTC, hv, hs, this]

end HsVerif.Model

