import HsVerif.Model.Tree
/-! Helper lemmas for C17 (Kauri tree). -/
set_option linter.unusedVariables false
namespace HsVerif.Model.Tree

/-! ### positions -/

theorem replicaPosition_mk' (id bf : Nat) (pos : List Nat) (x : Nat) :
    (mk' id bf pos).replicaPosition x = if pos.idxOf x < pos.length then some (pos.idxOf x) else none := rfl

theorem replicaPosition_getElem {id bf : Nat} {pos : List Nat} (hnd : pos.Nodup) (p : Nat) (hp : p < pos.length) :
    (mk' id bf pos).replicaPosition pos[p] = some p := by
  rw [replicaPosition_mk', hnd.idxOf_getElem p hp]; simp [hp]

theorem replicaPosition_none {id bf : Nat} {pos : List Nat} {x : Nat} (hx : x ∉ pos) :
    (mk' id bf pos).replicaPosition x = none := by
  rw [replicaPosition_mk']
  have : ¬ pos.idxOf x < pos.length := by rw [List.idxOf_lt_length_iff]; exact hx
  simp [this]

theorem exists_pos_of_mem {pos : List Nat} {x : Nat} (hx : x ∈ pos) : ∃ p, ∃ h : p < pos.length, pos[p] = x :=
  List.mem_iff_getElem.mp hx

/-- membership in the Go slice expression `l[s:e]` -/
theorem mem_slice {l : List Nat} {s e x : Nat} :
    x ∈ (l.take e).drop s ↔ ∃ q, ∃ h : q < l.length, s ≤ q ∧ q < e ∧ l[q] = x := by
  rw [List.mem_iff_getElem?]
  constructor
  · rintro ⟨i, hi⟩
    rw [List.getElem?_drop, List.getElem?_take] at hi
    split at hi
    · rename_i h1
      have h2 : s + i < l.length := by
        false_or_by_contra; rename_i hh
        rw [List.getElem?_eq_none (by omega)] at hi; simp at hi
      refine ⟨s + i, h2, by omega, h1, ?_⟩
      rw [List.getElem?_eq_getElem h2] at hi; simpa using hi
    · simp at hi
  · rintro ⟨q, h, h1, h2, h3⟩
    refine ⟨q - s, ?_⟩
    rw [List.getElem?_drop, List.getElem?_take]
    have : s + (q - s) = q := by omega
    rw [this]; simp [h2, h, h3]

theorem slice_sublist (l : List Nat) (s e : Nat) : ((l.take e).drop s).Sublist l :=
  (List.drop_sublist _ _).trans (List.take_sublist _ _)

/-- arithmetic of the heap layout: `q` is a child position of `p` -/
theorem child_range_iff {b p q : Nat} (hb : 0 < b) :
    (p * b + 1 ≤ q ∧ q < p * b + 1 + b) ↔ (1 ≤ q ∧ (q - 1) / b = p) := by
  rw [Nat.div_eq_iff hb]
  constructor
  · rintro ⟨h1, h2⟩; refine ⟨by omega, by omega, by omega⟩
  · rintro ⟨h1, h2, h3⟩; constructor <;> omega

theorem parentPos_lt {b q : Nat} (hb : 2 ≤ b) (hq : 1 ≤ q) : (q - 1) / b < q := by
  have : (q - 1) / b ≤ q - 1 := Nat.div_le_self _ _
  omega

/-! ### children -/

theorem childrenOf_mk'_getElem {id b : Nat} {pos : List Nat} (hnd : pos.Nodup) (p : Nat) (hp : p < pos.length) :
    (mk' id b pos).childrenOf pos[p] =
      if p * b + 1 ≥ pos.length then []
      else (pos.take (if p * b + 1 + b > pos.length then pos.length else p * b + 1 + b)).drop (p * b + 1) := by
  unfold childrenOf
  rw [replicaPosition_getElem hnd p hp]
  rfl

/-- `ChildrenOf` at the id sitting at position `p`: exactly the ids at the positions `q` with
`q ≥ 1`, `(q-1)/bf = p`. -/
theorem mem_childrenOf_getElem {id b : Nat} {pos : List Nat} (hnd : pos.Nodup) (hb : 2 ≤ b)
    (p : Nat) (hp : p < pos.length) (c : Nat) :
    c ∈ (mk' id b pos).childrenOf pos[p] ↔
      ∃ q, ∃ h : q < pos.length, 1 ≤ q ∧ (q - 1) / b = p ∧ pos[q] = c := by
  rw [childrenOf_mk'_getElem hnd p hp]
  have hb0 : 0 < b := by omega
  by_cases hge : p * b + 1 ≥ pos.length
  · rw [if_pos hge]
    simp only [List.not_mem_nil, false_iff]
    rintro ⟨q, h, h1, h2, _⟩
    have := (child_range_iff (p := p) (q := q) hb0).mpr ⟨h1, h2⟩
    omega
  · rw [if_neg hge, mem_slice]
    constructor
    · rintro ⟨q, h, h1, h2, h3⟩
      have : q < p * b + 1 + b := by split at h2 <;> omega
      obtain ⟨a1, a2⟩ := (child_range_iff (p := p) (q := q) hb0).mp ⟨h1, this⟩
      exact ⟨q, h, a1, a2, h3⟩
    · rintro ⟨q, h, h1, h2, h3⟩
      obtain ⟨a1, a2⟩ := (child_range_iff (p := p) (q := q) hb0).mpr ⟨h1, h2⟩
      refine ⟨q, h, a1, ?_, h3⟩
      split <;> omega

theorem childrenOf_not_mem {id b : Nat} {pos : List Nat} {x : Nat} (hx : x ∉ pos) :
    (mk' id b pos).childrenOf x = [] := by
  unfold childrenOf; rw [replicaPosition_none hx]

theorem childrenOf_sublist (t : Tree) (x : Nat) : (t.childrenOf x).Sublist t.pos := by
  unfold childrenOf
  split
  · exact List.nil_sublist _
  · simp only
    split
    · exact List.nil_sublist _
    · exact slice_sublist _ _ _

theorem childrenOf_id_irrel (id id' b : Nat) (pos : List Nat) (x : Nat) :
    (mk' id b pos).childrenOf x = (mk' id' b pos).childrenOf x := rfl


/-! ### the work-list loop of `SubTree` computes the proper descendants -/

/-- proper descendants along the children lists -/
inductive Desc (ch : Nat → List Nat) (r : Nat) : Nat → Prop
  | child {c : Nat} : c ∈ ch r → Desc ch r c
  | step {x c : Nat} : Desc ch r x → c ∈ ch x → Desc ch r c

structure GoodCh (ch : Nat → List Nat) (U : List Nat) : Prop where
  sub : ∀ x c, c ∈ ch x → c ∈ U
  nodup : ∀ x, (ch x).Nodup
  uniq : ∀ x y c, c ∈ ch x → c ∈ ch y → x = y
  acyc : ∀ x, ¬ Desc ch x x

theorem Desc.mem_univ {ch : Nat → List Nat} {U : List Nat} (g : GoodCh ch U) {r c : Nat} (h : Desc ch r c) : c ∈ U := by
  cases h with
  | child h => exact g.sub _ _ h
  | step _ h => exact g.sub _ _ h

theorem Desc.ne_nil {ch : Nat → List Nat} {r c : Nat} (h : Desc ch r c) : ch r ≠ [] := by
  induction h with
  | child h => intro e; rw [e] at h; simp at h
  | step _ _ ih => exact ih

theorem Desc.trans {ch : Nat → List Nat} {a b c : Nat} (h1 : Desc ch a b) (h2 : Desc ch b c) : Desc ch a c := by
  induction h2 with
  | child h => exact Desc.step h1 h
  | step _ h ih => exact Desc.step ih h

theorem getElem_not_mem_take {l : List Nat} (hnd : l.Nodup) (i : Nat) (hi : i < l.length) : l[i] ∉ l.take i := by
  intro h
  rw [List.mem_take_iff_getElem] at h
  obtain ⟨j, hj, e⟩ := h
  have hj' : j < l.length := by omega
  have := (List.getElem_inj (h₀ := hj') (h₁ := hi) hnd).mp e
  omega

theorem subTreeLoop_spec (t : Tree) (g : GoodCh t.childrenOf t.pos) (r : Nat) :
    ∀ (fuel i : Nat) (sub : List Nat), i ≤ sub.length → sub.Nodup → (∀ x ∈ sub, Desc t.childrenOf r x) →
      sub = t.childrenOf r ++ (sub.take i).flatMap t.childrenOf → t.pos.length ≤ fuel + i →
      (subTreeLoop t fuel i sub).Nodup ∧ (∀ x ∈ subTreeLoop t fuel i sub, Desc t.childrenOf r x) ∧
      subTreeLoop t fuel i sub = t.childrenOf r ++ (subTreeLoop t fuel i sub).flatMap t.childrenOf := by
  intro fuel
  have hlen : ∀ sub : List Nat, sub.Nodup → (∀ x ∈ sub, Desc t.childrenOf r x) → sub.length ≤ t.pos.length :=
    fun sub h1 h2 => h1.length_le_of_subset (fun x hx => (h2 x hx).mem_univ g)
  have done : ∀ (i : Nat) (sub : List Nat), i ≤ sub.length → sub.length ≤ i →
      sub = t.childrenOf r ++ (sub.take i).flatMap t.childrenOf →
      sub = t.childrenOf r ++ sub.flatMap t.childrenOf := by
    intro i sub h1 h2 h3
    have : sub.take i = sub := List.take_of_length_le h2
    rw [this] at h3; exact h3
  induction fuel with
  | zero =>
    intro i sub hi hnd hd heq hf
    have := hlen sub hnd hd
    exact ⟨hnd, hd, done i sub hi (by omega) heq⟩
  | succ fuel ih =>
    intro i sub hi hnd hd heq hf
    unfold subTreeLoop
    by_cases hlt : i < sub.length
    · rw [if_pos hlt]
      have hx : sub.getD i 0 = sub[i] := by simp [List.getD_eq_getElem?_getD, List.getElem?_eq_getElem hlt]
      rw [hx]
      have hxd : Desc t.childrenOf r sub[i] := hd _ (List.getElem_mem hlt)
      apply ih
      · simp; omega
      · rw [List.nodup_append]
        refine ⟨hnd, g.nodup _, ?_⟩
        intro a ha c hc hac
        subst hac
        rw [heq, List.mem_append, List.mem_flatMap] at ha
        rcases ha with ha | ⟨y, hy, hay⟩
        · have := g.uniq _ _ _ ha hc
          rw [← this] at hxd
          exact g.acyc r hxd
        · have := g.uniq _ _ _ hay hc
          rw [this] at hy
          exact getElem_not_mem_take hnd i hlt hy
      · intro x hx'
        rw [List.mem_append] at hx'
        rcases hx' with h | h
        · exact hd x h
        · exact Desc.step hxd h
      · rw [List.take_append_of_le_length (by omega), List.take_add_one, List.getElem?_eq_getElem hlt]
        simp only [Option.toList_some, List.flatMap_append, List.flatMap_cons, List.flatMap_nil, List.append_nil]
        rw [← List.append_assoc, ← heq]
      · omega
    · rw [if_neg hlt]
      exact ⟨hnd, hd, done i sub hi (by omega) heq⟩

theorem mem_of_desc_of_closed {ch : Nat → List Nat} {r : Nat} {res : List Nat}
    (h : res = ch r ++ res.flatMap ch) {c : Nat} (hd : Desc ch r c) : c ∈ res := by
  induction hd with
  | child hc => rw [h]; exact List.mem_append_left _ hc
  | step _ hc ih => rw [h]; exact List.mem_append_right _ (List.mem_flatMap.mpr ⟨_, ih, hc⟩)

/-- `SubTree` of a well-formed tree: duplicate-free, and exactly the proper descendants. -/
theorem subTree_spec (t : Tree) (g : GoodCh t.childrenOf t.pos) :
    t.subTree.Nodup ∧ ∀ c, c ∈ t.subTree ↔ Desc t.childrenOf t.id c := by
  unfold subTree
  simp only
  by_cases h0 : (t.childrenOf t.id).length = 0
  · have hnil : t.childrenOf t.id = [] := List.eq_nil_of_length_eq_zero h0
    simp only [h0, beq_self_eq_true, if_true]
    refine ⟨List.nodup_nil, fun c => ?_⟩
    simp only [List.not_mem_nil, false_iff]
    intro hd; exact hd.ne_nil hnil
  · have hb : ((t.childrenOf t.id).length == 0) = false := by simp [h0]
    simp only [hb]
    obtain ⟨h1, h2, h3⟩ := subTreeLoop_spec t g t.id t.pos.length 0 (t.childrenOf t.id) (by omega) (g.nodup _)
      (fun x hx => Desc.child hx) (by simp) (by omega)
    refine ⟨by simpa using h1, fun c => ⟨fun hc => h2 c (by simpa using hc), fun hd => ?_⟩⟩
    have := mem_of_desc_of_closed h3 hd
    simpa using this


/-! ### well-formed trees: `pos` duplicate-free, `bf ≥ 2` -/

theorem mem_childrenOf_iff {id b : Nat} {pos : List Nat} (hnd : pos.Nodup) (hb : 2 ≤ b) (x c : Nat) :
    c ∈ (mk' id b pos).childrenOf x ↔
      ∃ p q, ∃ hp : p < pos.length, ∃ hq : q < pos.length, pos[p] = x ∧ pos[q] = c ∧ 1 ≤ q ∧ (q - 1) / b = p := by
  by_cases hx : x ∈ pos
  · obtain ⟨p, hp, rfl⟩ := exists_pos_of_mem hx
    rw [mem_childrenOf_getElem hnd hb p hp]
    constructor
    · rintro ⟨q, hq, h1, h2, h3⟩; exact ⟨p, q, hp, hq, rfl, h3, h1, h2⟩
    · rintro ⟨p', q, hp', hq, h0, h3, h1, h2⟩
      have : p' = p := (List.getElem_inj hnd).mp h0
      subst this
      exact ⟨q, hq, h1, h2, h3⟩
  · rw [childrenOf_not_mem hx]
    simp only [List.not_mem_nil, false_iff]
    rintro ⟨p, q, hp, hq, h0, _⟩
    exact hx (h0 ▸ List.getElem_mem hp)

theorem desc_pos_lt {id b : Nat} {pos : List Nat} (hnd : pos.Nodup) (hb : 2 ≤ b) {r c : Nat}
    (h : Desc (mk' id b pos).childrenOf r c) :
    ∃ p q, ∃ hp : p < pos.length, ∃ hq : q < pos.length, pos[p] = r ∧ pos[q] = c ∧ p < q := by
  induction h with
  | child hc =>
    obtain ⟨p, q, hp, hq, h0, h1, h2, h3⟩ := (mem_childrenOf_iff hnd hb _ _).mp hc
    exact ⟨p, q, hp, hq, h0, h1, by have := parentPos_lt hb h2; omega⟩
  | step _ hc ih =>
    obtain ⟨p, q, hp, hq, h0, h1, hlt⟩ := ih
    obtain ⟨p', q', hp', hq', h0', h1', h2, h3⟩ := (mem_childrenOf_iff hnd hb _ _).mp hc
    have : p' = q := (List.getElem_inj hnd).mp (h0'.trans h1.symm)
    subst this
    exact ⟨p, q', hp, hq', h0, h1', by have := parentPos_lt hb h2; omega⟩

theorem goodCh_mk' {id b : Nat} {pos : List Nat} (hnd : pos.Nodup) (hb : 2 ≤ b) :
    GoodCh (mk' id b pos).childrenOf (mk' id b pos).pos := by
  refine ⟨fun x c h => (childrenOf_sublist _ x).subset h, fun x => (childrenOf_sublist _ x).nodup hnd, ?_, ?_⟩
  · intro x y c hx hy
    obtain ⟨p, q, hp, hq, h0, h1, h2, h3⟩ := (mem_childrenOf_iff hnd hb _ _).mp hx
    obtain ⟨p', q', hp', hq', h0', h1', h2', h3'⟩ := (mem_childrenOf_iff hnd hb _ _).mp hy
    have : q = q' := (List.getElem_inj hnd).mp (h1.trans h1'.symm)
    subst this
    rw [← h0, ← h0']
    have : p = p' := by omega
    subst this; rfl
  · intro x hd
    obtain ⟨p, q, hp, hq, h0, h1, hlt⟩ := desc_pos_lt hnd hb hd
    have : p = q := (List.getElem_inj hnd).mp (h0.trans h1.symm)
    omega

/-- `Parent` from the vantage point of the replica at position `q`. -/
theorem parent_getElem {b : Nat} {pos : List Nat} (hnd : pos.Nodup) (hb : 2 ≤ b) (q : Nat) (hq : q < pos.length) :
    (mk' pos[q] b pos).parent =
      if q = 0 then (pos[q], false) else (pos[(q - 1) / b]'(by have := Nat.div_le_self (q - 1) b; omega), true) := by
  unfold parent
  have : (mk' pos[q] b pos).id = pos[q] := rfl
  rw [this, replicaPosition_getElem hnd q hq]
  simp only
  by_cases h0 : q = 0
  · simp [h0]
  · have hlt : (q - 1) / b < pos.length := by have := Nat.div_le_self (q - 1) b; omega
    have hb' : (q == 0) = false := by simp [h0]
    simp only [hb', h0, if_false, Bool.false_eq_true]
    have : (mk' pos[q] b pos).pos.getD ((q - 1) / (mk' pos[q] b pos).bf) 0 = pos[(q - 1) / b] := by
      show pos.getD ((q - 1) / b) 0 = _
      simp [List.getD_eq_getElem?_getD, List.getElem?_eq_getElem hlt]
    rw [this]

/-- every replica other than the root descends from the root -/
theorem desc_root {id b : Nat} {pos : List Nat} (hnd : pos.Nodup) (hb : 2 ≤ b) :
    ∀ q, ∀ hq : q < pos.length, 1 ≤ q → Desc (mk' id b pos).childrenOf (pos[0]'(by omega)) pos[q] := by
  intro q
  induction q using Nat.strongRecOn with
  | _ q ih =>
    intro hq h1
    have hlt := parentPos_lt hb h1
    have hpl : (q - 1) / b < pos.length := by omega
    have hc : pos[q] ∈ (mk' id b pos).childrenOf pos[(q - 1) / b] :=
      (mem_childrenOf_getElem hnd hb _ hpl _).mpr ⟨q, hq, h1, rfl, rfl⟩
    by_cases hz : (q - 1) / b = 0
    · have : pos[(q - 1) / b] = pos[0]'(by omega) := by simp [hz]
      rw [this] at hc
      exact Desc.child hc
    · exact Desc.step (ih _ hlt hpl (Nat.pos_of_ne_zero hz)) hc

theorem nodup_flatMap_of {l : List Nat} {f : Nat → List Nat} (hl : l.Nodup) (hf : ∀ x, (f x).Nodup)
    (hd : ∀ x y c, c ∈ f x → c ∈ f y → x = y) : (l.flatMap f).Nodup := by
  induction l with
  | nil => simp
  | cons a l ih =>
    rw [List.flatMap_cons, List.nodup_append]
    rw [List.nodup_cons] at hl
    refine ⟨hf a, ih hl.2, ?_⟩
    intro x hx y hy hxy
    subst hxy
    obtain ⟨z, hz, hxz⟩ := List.mem_flatMap.mp hy
    have := hd _ _ _ hx hxz
    subst this
    exact hl.1 hz


/-! ### levels and heights -/

/-- first position of level `l` (= 1 + b + … + b^(l-1)) -/
def lvlStart (b : Nat) : Nat → Nat
  | 0 => 0
  | l + 1 => lvlStart b l + b ^ l

theorem lvlStart_succ (b l : Nat) : lvlStart b (l + 1) = b * lvlStart b l + 1 := by
  induction l with
  | zero => simp [lvlStart]
  | succ l ih =>
    have e : lvlStart b (l + 1) = lvlStart b l + b ^ l := rfl
    show lvlStart b (l + 1) + b ^ (l + 1) = b * lvlStart b (l + 1) + 1
    have h1 : b * lvlStart b (l + 1) = b * lvlStart b l + b ^ (l + 1) := by
      rw [e, Nat.mul_add, Nat.pow_succ, Nat.mul_comm (b ^ l) b]
    omega

theorem lvlStart_le_succ (b l : Nat) : lvlStart b l ≤ lvlStart b (l + 1) := Nat.le_add_right _ _

theorem lvlStart_mono (b : Nat) {l m : Nat} (h : l ≤ m) : lvlStart b l ≤ lvlStart b m := by
  induction h with
  | refl => exact Nat.le_refl _
  | step _ ih => exact Nat.le_trans ih (lvlStart_le_succ _ _)

theorem lvlStart_ge (b : Nat) (hb : 1 ≤ b) (l : Nat) : l ≤ lvlStart b l := by
  induction l with
  | zero => exact Nat.le_refl _
  | succ l ih =>
    show l + 1 ≤ lvlStart b l + b ^ l
    have : 1 ≤ b ^ l := Nat.one_le_pow _ _ hb
    omega

/-- `q` lies on level `l` -/
def OnLevel (b q l : Nat) : Prop := lvlStart b l ≤ q ∧ q < lvlStart b (l + 1)

theorem onLevel_unique {b q l m : Nat} (h1 : OnLevel b q l) (h2 : OnLevel b q m) : l = m := by
  false_or_by_contra; rename_i hne
  rcases Nat.lt_or_gt_of_ne hne with h | h
  · have := lvlStart_mono b (show l + 1 ≤ m from h); unfold OnLevel at *; omega
  · have := lvlStart_mono b (show m + 1 ≤ l from h); unfold OnLevel at *; omega

theorem onLevel_zero {b q : Nat} : OnLevel b q 0 ↔ q = 0 := by
  unfold OnLevel; simp [lvlStart]

/-- a position is one level below its parent position -/
theorem onLevel_child {b q l : Nat} (hb : 1 ≤ b) (hq : 1 ≤ q) :
    OnLevel b q (l + 1) ↔ OnLevel b ((q - 1) / b) l := by
  unfold OnLevel
  have e1 := lvlStart_succ b l
  have e2 := lvlStart_succ b (l + 1)
  have c1 := Nat.mul_comm (lvlStart b l) b
  have c2 := Nat.mul_comm (lvlStart b (l + 1)) b
  rw [Nat.le_div_iff_mul_le (by omega), Nat.div_lt_iff_lt_mul (by omega)]
  omega

theorem onLevel_exists {b : Nat} (hb : 1 ≤ b) : ∀ q, ∃ l, OnLevel b q l := by
  intro q
  induction q using Nat.strongRecOn with
  | _ q ih =>
    by_cases h0 : q = 0
    · exact ⟨0, onLevel_zero.mpr h0⟩
    · by_cases hb1 : b = 1
      · refine ⟨q, ?_⟩
        subst hb1
        have : ∀ l, lvlStart 1 l = l := by
          intro l; induction l with
          | zero => rfl
          | succ l ih => show lvlStart 1 l + 1 ^ l = l + 1; rw [ih]; simp
        unfold OnLevel; rw [this, this]; omega
      · have hlt : (q - 1) / b < q := parentPos_lt (by omega) (by omega)
        obtain ⟨l, hl⟩ := ih _ hlt
        exact ⟨l + 1, (onLevel_child hb (by omega)).mpr hl⟩

/-- the loop of `treeHeight`, started at level `k` -/
theorem treeHeightAux_spec {b n : Nat} (hb : 1 ≤ b) :
    ∀ fuel k, n - lvlStart b k ≤ fuel → (k = 0 ∨ lvlStart b (k - 1) < n) →
      let h := treeHeightAux b fuel (n - lvlStart b k) (b ^ k) k
      (h = 0 ∨ lvlStart b (h - 1) < n) ∧ n ≤ lvlStart b h := by
  intro fuel
  induction fuel with
  | zero =>
    intro k hf hk
    simp only [treeHeightAux]
    exact ⟨hk, by omega⟩
  | succ fuel ih =>
    intro k hf hk
    unfold treeHeightAux
    by_cases hpos : n - lvlStart b k > 0
    · rw [if_pos hpos]
      have e1 : n - lvlStart b k - b ^ k = n - lvlStart b (k + 1) := by
        show _ = n - (lvlStart b k + b ^ k); omega
      have e2 : b ^ k * b = b ^ (k + 1) := (Nat.pow_succ b k).symm
      rw [e1, e2]
      apply ih
      · have : 1 ≤ b ^ k := Nat.one_le_pow _ _ hb
        rw [← e1]; omega
      · right; simp; omega
    · rw [if_neg hpos]
      exact ⟨hk, by omega⟩

/-- `treeHeight n b` is the number of levels: the least `h` whose `h` complete levels hold `n` nodes. -/
theorem treeHeight_spec {b n : Nat} (hb : 1 ≤ b) (hn : 1 ≤ n) :
    1 ≤ treeHeight n b ∧ lvlStart b (treeHeight n b - 1) < n ∧ n ≤ lvlStart b (treeHeight n b) := by
  have := treeHeightAux_spec (b := b) (n := n) hb n 0 (by simp [lvlStart]) (Or.inl rfl)
  simp only [lvlStart, Nat.sub_zero, Nat.pow_zero] at this
  have e : treeHeightAux b n n 1 0 = treeHeight n b := rfl
  rw [e] at this
  obtain ⟨h1, h2⟩ := this
  have hpos : 1 ≤ treeHeight n b := by
    false_or_by_contra; rename_i hh
    have : treeHeight n b = 0 := by omega
    rw [this] at h2; simp [lvlStart] at h2; omega
  refine ⟨hpos, ?_, h2⟩
  rcases h1 with h1 | h1
  · omega
  · exact h1

theorem heightLoop_spec {b h rp l : Nat} (hl : OnLevel b rp l) (hlh : l < h) :
    ∀ fuel lvl, lvl ≤ l → h ≤ fuel + lvl →
      heightLoop b h rp fuel lvl (lvlStart b lvl) (b ^ lvl) = h - l := by
  intro fuel
  induction fuel with
  | zero => intro lvl h1 h2; omega
  | succ fuel ih =>
    intro lvl h1 h2
    unfold heightLoop
    have hlt : lvl < h := by omega
    rw [if_pos hlt]
    simp only
    have e : lvlStart b lvl + b ^ lvl = lvlStart b (lvl + 1) := rfl
    rw [e]
    by_cases hin : rp ≥ lvlStart b lvl ∧ rp < lvlStart b (lvl + 1)
    · rw [if_pos hin]
      have : lvl = l := onLevel_unique hin hl
      rw [this]
    · rw [if_neg hin]
      have hne : lvl ≠ l := by
        intro e; subst e; exact hin hl
      rw [← Nat.pow_succ]
      exact ih (lvl + 1) (by omega) (by omega)

/-- `heightOf` for the replica at position `q` on level `l`: tree height minus level -/
theorem heightOf_getElem {id b : Nat} {pos : List Nat} (hnd : pos.Nodup) (hb : 2 ≤ b)
    (q : Nat) (hq : q < pos.length) {l : Nat} (hl : OnLevel b q l) :
    (mk' id b pos).heightOf pos[q] = treeHeight pos.length b - l ∧ l < treeHeight pos.length b := by
  obtain ⟨hpos, hlo, hhi⟩ := treeHeight_spec (b := b) (n := pos.length) (by omega) (by omega)
  have hlh : l < treeHeight pos.length b := by
    false_or_by_contra; rename_i hh
    have := lvlStart_mono b (show treeHeight pos.length b ≤ l by omega)
    unfold OnLevel at hl; omega
  refine ⟨?_, hlh⟩
  unfold heightOf isRoot
  rw [replicaPosition_getElem hnd q hq]
  by_cases h0 : q = 0
  · subst h0
    have : l = 0 := onLevel_unique hl (onLevel_zero.mpr rfl)
    subst this
    simp [mk']
  · have hne : (some q == some 0) = false := by simp [h0]
    rw [hne]
    simp only [Bool.false_eq_true, if_false]
    have hl1 : 1 ≤ l := by
      false_or_by_contra; rename_i hh
      have : l = 0 := by omega
      subst this
      exact h0 (onLevel_zero.mp hl)
    have := heightLoop_spec hl hlh (treeHeight pos.length b) 1 hl1 (by omega)
    have e1 : lvlStart b 1 = 1 := by simp [lvlStart]
    rw [e1, Nat.pow_one] at this
    exact this


/-! ### Shuffle -/

theorem swapAt_length (l : List Nat) (i j : Nat) : (swapAt l i j).length = l.length := by
  simp [swapAt]

theorem swapAt_perm (l : List Nat) (i j : Nat) (hi : i < l.length) (hj : j < l.length) : (swapAt l i j).Perm l := by
  rw [List.perm_iff_count]
  intro b
  have ei : l.getD i 0 = l[i] := by simp [List.getD_eq_getElem?_getD, List.getElem?_eq_getElem hi]
  have ej : l.getD j 0 = l[j] := by simp [List.getD_eq_getElem?_getD, List.getElem?_eq_getElem hj]
  have e : swapAt l i j = (l.set i l[j]).set j l[i] := by unfold swapAt; rw [ei, ej]
  rw [e]
  have hj' : j < (l.set i l[j]).length := by simpa using hj
  rw [List.count_set hj', List.count_set hi]
  have hci : (l[i] == b) = true → 1 ≤ List.count b l := by
    intro h
    have : l[i] = b := by simpa using h
    exact List.count_pos_iff.mpr (this ▸ List.getElem_mem hi)
  have hcj : (l[j] == b) = true → 1 ≤ List.count b l := by
    intro h
    have : l[j] = b := by simpa using h
    exact List.count_pos_iff.mpr (this ▸ List.getElem_mem hj)
  by_cases hij : i = j
  · subst hij
    simp only [List.getElem_set_self]
    by_cases h1 : (l[i] == b) = true
    · have := hci h1; simp only [h1, if_true]; omega
    · simp only [h1, Bool.false_eq_true, if_false]; omega
  · rw [List.getElem_set_ne hij]
    by_cases h1 : (l[i] == b) = true <;> by_cases h2 : (l[j] == b) = true
    · have := hci h1; simp only [h1, h2, if_true]; omega
    · have := hci h1; simp only [h1, h2, if_true, Bool.false_eq_true, if_false]; omega
    · have := hcj h2; simp only [h1, h2, if_true, Bool.false_eq_true, if_false]; omega
    · simp only [h1, h2, Bool.false_eq_true, if_false]; omega

theorem shuffleLoop_perm : ∀ (k : Nat) (js l : List Nat), k < l.length ∨ k = 0 → (shuffleLoop k js l).Perm l := by
  intro k
  induction k with
  | zero => intro js l _; exact List.Perm.refl _
  | succ k ih =>
    intro js l hk
    unfold shuffleLoop
    cases js with
    | nil => exact List.Perm.refl _
    | cons j js =>
      simp only
      have hlt : k + 1 < l.length := by omega
      have hj : j % (k + 2) < l.length := by
        have := Nat.mod_lt j (show 0 < k + 2 by omega); omega
      exact (ih js _ (by rw [swapAt_length]; omega)).trans (swapAt_perm l _ _ hlt hj)

end HsVerif.Model.Tree
