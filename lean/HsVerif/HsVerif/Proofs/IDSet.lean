import HsVerif.Model.IDSet
/-! Helper lemmas for C19 (bit-field and signer lists). -/
namespace HsVerif.Model.Bitfield

theorem getD_append_replicate (l : List Nat) (m j : Nat) :
    (l ++ List.replicate m 0).getD j 0 = l.getD j 0 := by
  simp only [List.getD_eq_getElem?_getD, List.getElem?_append]
  split
  · rfl
  · rename_i h
    have : l[j]? = none := by simp; omega
    simp [this, List.getElem?_replicate]
    split <;> rfl

theorem bitAt_false_of_ge (data : List Nat) (k : Nat) (h : 8 * data.length ≤ k) : bitAt data k = false := by
  unfold bitAt isSet
  have : data.length ≤ k / 8 := by omega
  simp [List.getD_eq_getElem?_getD, List.getElem?_eq_none this]

theorem lt_of_bitAt {data : List Nat} {k : Nat} (h : bitAt data k = true) : k < 8 * data.length := by
  false_or_by_contra
  rename_i hh
  rw [bitAt_false_of_ge data k (by omega)] at h
  exact Bool.noConfusion h

theorem mem_idsOf (data : List Nat) (j : Nat) : j ∈ idsOf data ↔ 1 ≤ j ∧ bitAt data (j - 1) = true := by
  unfold idsOf
  simp only [List.mem_map, List.mem_filter, List.mem_range]
  constructor
  · rintro ⟨k, ⟨_, hk⟩, rfl⟩
    exact ⟨by omega, by simpa using hk⟩
  · rintro ⟨h1, h2⟩
    exact ⟨j - 1, ⟨lt_of_bitAt h2, h2⟩, by omega⟩

theorem idsOf_pairwise (data : List Nat) : (idsOf data).Pairwise (· < ·) := by
  unfold idsOf
  exact List.Pairwise.map (R := (· < ·)) _ (fun a b h => by omega)
    (List.Pairwise.filter _ List.pairwise_lt_range)

theorem idsOf_nodup (data : List Nat) : (idsOf data).Nodup := by
  rw [List.nodup_iff_pairwise_ne]
  exact (idsOf_pairwise data).imp (fun h => Nat.ne_of_lt h)

/-- data after `add` -/
def addData (data : List Nat) (id : Nat) : List Nat :=
  let byteIdx := (index id).1
  let bitIdx := (index id).2
  let d := if data.length ≤ byteIdx then data ++ List.replicate (byteIdx + 1 - data.length) 0 else data
  d.set byteIdx (d.getD byteIdx 0 ||| (1 <<< bitIdx))

theorem add_data (bf : Bitfield) (id : Nat) : (bf.add id).data = addData bf.data id := rfl

theorem ext_len (data : List Nat) (b : Nat) :
    b < (if data.length ≤ b then data ++ List.replicate (b + 1 - data.length) 0 else data).length := by
  split
  · simp; omega
  · omega

theorem ext_getD (data : List Nat) (b j : Nat) :
    (if data.length ≤ b then data ++ List.replicate (b + 1 - data.length) 0 else data).getD j 0 = data.getD j 0 := by
  split
  · exact getD_append_replicate _ _ _
  · rfl

theorem getD_addData (data : List Nat) (id j : Nat) :
    (addData data id).getD j 0 =
      if j = (index id).1 then data.getD j 0 ||| (1 <<< (index id).2) else data.getD j 0 := by
  unfold addData
  simp only
  rw [List.getD_eq_getElem?_getD, List.getElem?_set]
  split
  · rename_i h
    subst h
    simp only [ext_len, ↓reduceIte, Option.getD_some, ext_getD]
  · rename_i h
    have h' : ¬ j = (index id).1 := fun e => h e.symm
    simp only [h', ↓reduceIte, ← List.getD_eq_getElem?_getD, ext_getD]

theorem bitAt_addData (data : List Nat) (id k : Nat) :
    bitAt (addData data id) k = (decide (k = id - 1) || bitAt data k) := by
  unfold bitAt isSet
  rw [getD_addData]
  unfold index
  simp only
  split
  · rename_i h
    rw [Nat.testBit_or, Nat.one_shiftLeft, Nat.testBit_two_pow, Bool.or_comm]
    congr 1
    have : (decide ((id - 1) % 8 = k % 8)) = decide (k = id - 1) := by
      apply decide_eq_decide.mpr; omega
    exact this
  · rename_i h
    have : decide (k = id - 1) = false := by
      apply decide_eq_false; intro e; apply h; rw [e]
    simp [this]

theorem mem_ids_add (bf : Bitfield) (id j : Nat) (hid : 1 ≤ id) :
    j ∈ (bf.add id).ids ↔ j = id ∨ j ∈ bf.ids := by
  unfold ids
  rw [add_data, mem_idsOf, mem_idsOf, bitAt_addData]
  simp only [Bool.or_eq_true, decide_eq_true_eq]
  constructor
  · rintro ⟨h1, h | h⟩
    · left; omega
    · right; exact ⟨h1, h⟩
  · rintro (h | ⟨h1, h2⟩)
    · subst h; exact ⟨hid, Or.inl rfl⟩
    · exact ⟨h1, Or.inr h2⟩

theorem contains_eq (bf : Bitfield) (id : Nat) (hid : 1 ≤ id) :
    bf.contains id = decide (id ∈ bf.ids) := by
  unfold contains ids
  have hb : bitAt bf.data (id - 1) = isSet bf.data (index id).1 (index id).2 := rfl
  split
  · rename_i h
    symm; apply decide_eq_false
    rw [mem_idsOf]
    rintro ⟨_, h2⟩
    have := lt_of_bitAt h2
    unfold index at h; simp only at h; omega
  · rw [← hb]
    cases hh : bitAt bf.data (id - 1)
    · symm; apply decide_eq_false; rw [mem_idsOf]; rintro ⟨_, h2⟩; rw [hh] at h2; exact Bool.noConfusion h2
    · symm; apply decide_eq_true; rw [mem_idsOf]; exact ⟨hid, hh⟩

/-- The cached length is the number of members. -/
def Inv (bf : Bitfield) : Prop := bf.len = bf.ids.length

theorem inv_empty : Inv empty := by simp [Inv, empty, ids, idsOf]

theorem isSet_ext_eq (bf : Bitfield) (id : Nat) :
    isSet (if bf.data.length ≤ (index id).1 then bf.data ++ List.replicate ((index id).1 + 1 - bf.data.length) 0 else bf.data)
      (index id).1 (index id).2 = bitAt bf.data (id - 1) := by
  unfold isSet bitAt isSet
  rw [ext_getD]; rfl

theorem add_len (bf : Bitfield) (id : Nat) :
    (bf.add id).len = if bitAt bf.data (id - 1) then bf.len else bf.len + 1 := by
  unfold add
  simp only [isSet_ext_eq]

theorem inv_add (bf : Bitfield) (id : Nat) (hid : 1 ≤ id) (h : Inv bf) : Inv (bf.add id) := by
  unfold Inv at *
  rw [add_len]
  have hmem : ∀ j, j ∈ (bf.add id).ids ↔ j = id ∨ j ∈ bf.ids := fun j => mem_ids_add bf id j hid
  have nd' : (bf.add id).ids.Nodup := idsOf_nodup _
  have nd : bf.ids.Nodup := idsOf_nodup _
  split
  · rename_i hs
    have hin : id ∈ bf.ids := by unfold ids; rw [mem_idsOf]; exact ⟨hid, hs⟩
    have : (bf.add id).ids.Perm bf.ids := by
      rw [List.perm_ext_iff_of_nodup nd' nd]
      intro j; rw [hmem]; constructor
      · rintro (h | h); subst h; exact hin; exact h
      · exact Or.inr
    rw [this.length_eq]; exact h
  · rename_i hs
    have hnin : id ∉ bf.ids := by
      unfold ids; rw [mem_idsOf]; rintro ⟨_, h2⟩; exact hs h2
    have : (bf.add id).ids.Perm (id :: bf.ids) := by
      rw [List.perm_ext_iff_of_nodup nd' (List.nodup_cons.mpr ⟨hnin, nd⟩)]
      intro j; rw [hmem]; simp
    rw [this.length_eq]; simp [h]

theorem inv_fromBytes (b : List Nat) : Inv (fromBytes b) := rfl

end HsVerif.Model.Bitfield

namespace HsVerif.Model
open Bitfield

theorem multiAppend_spec : ∀ (s acc r : List Nat), multiAppend acc s = some r → acc.Nodup →
    r.Nodup ∧ r = acc ++ s := by
  intro s
  induction s with
  | nil => intro acc r h hn; simp [multiAppend] at h; subst h; simp [hn]
  | cons x xs ih =>
    intro acc r h hn
    unfold multiAppend at h
    split at h
    · simp at h
    · rename_i hc
      have hx : x ∉ acc := by simpa using hc
      have hn' : (acc ++ [x]).Nodup := by
        rw [List.nodup_append]; refine ⟨hn, by simp, ?_⟩
        intro a ha b hb; simp at hb; subst hb; intro e; subst e; exact hx ha
      obtain ⟨h1, h2⟩ := ih _ _ h hn'
      exact ⟨h1, by simp [h2]⟩

theorem multiAppend_complete : ∀ (s acc : List Nat), (acc ++ s).Nodup → multiAppend acc s = some (acc ++ s) := by
  intro s
  induction s with
  | nil => intro acc _; simp [multiAppend]
  | cons x xs ih =>
    intro acc hn
    unfold multiAppend
    have hx : x ∉ acc := by
      intro hx
      rw [List.nodup_append] at hn
      exact hn.2.2 x hx x (by simp) rfl
    have : acc.contains x = false := by simpa using hx
    simp only [this]
    have := ih (acc ++ [x]) (by simpa using hn)
    simpa using this

theorem multiCombineAux_spec : ∀ (sigs : List (List Nat)) (acc r : List Nat),
    multiCombineAux acc sigs = some r → acc.Nodup → r.Nodup ∧ r = acc ++ sigs.flatten := by
  intro sigs
  induction sigs with
  | nil => intro acc r h hn; simp [multiCombineAux] at h; subst h; simp [hn]
  | cons s rest ih =>
    intro acc r h hn
    unfold multiCombineAux at h
    split at h
    · simp at h
    · rename_i acc' ha
      obtain ⟨h1, h2⟩ := multiAppend_spec _ _ _ ha hn
      obtain ⟨h3, h4⟩ := ih _ _ h h1
      exact ⟨h3, by simp [h4, h2]⟩

theorem multiCombineAux_complete : ∀ (sigs : List (List Nat)) (acc : List Nat),
    (acc ++ sigs.flatten).Nodup → multiCombineAux acc sigs = some (acc ++ sigs.flatten) := by
  intro sigs
  induction sigs with
  | nil => intro acc _; simp [multiCombineAux]
  | cons s rest ih =>
    intro acc hn
    unfold multiCombineAux
    have hs : (acc ++ s).Nodup := by
      have : (acc ++ s ++ rest.flatten).Nodup := by simpa using hn
      exact (List.nodup_append.mp this).1
    rw [multiAppend_complete _ _ hs]
    have := ih (acc ++ s) (by simpa using hn)
    simpa using this

theorem blsCombineOne_spec : ∀ (xs : List Nat) (acc r : Bitfield), blsCombineOne acc xs = some r →
    Inv acc → (∀ x ∈ xs, 1 ≤ x) → Inv r ∧ (∀ j, j ∈ r.ids ↔ j ∈ acc.ids ∨ j ∈ xs) := by
  intro xs
  induction xs with
  | nil => intro acc r h hi _; simp [blsCombineOne] at h; subst h; simp [hi]
  | cons x xs ih =>
    intro acc r h hi hx
    unfold blsCombineOne at h
    split at h
    · simp at h
    · have hx1 : 1 ≤ x := hx x (by simp)
      obtain ⟨h1, h2⟩ := ih _ _ h (inv_add _ _ hx1 hi) (fun y hy => hx y (by simp [hy]))
      refine ⟨h1, fun j => ?_⟩
      rw [h2, mem_ids_add _ _ _ hx1]
      simp only [List.mem_cons]
      constructor
      · rintro ((h | h) | h)
        · exact Or.inr (Or.inl h)
        · exact Or.inl h
        · exact Or.inr (Or.inr h)
      · rintro (h | h | h)
        · exact Or.inl (Or.inr h)
        · exact Or.inl (Or.inl h)
        · exact Or.inr h

theorem ids_ge_one (bf : Bitfield) : ∀ x ∈ bf.ids, 1 ≤ x := by
  intro x hx; unfold ids at hx; rw [mem_idsOf] at hx; exact hx.1

theorem blsCombineAux_spec : ∀ (sigs : List Bitfield) (acc r : Bitfield), blsCombineAux acc sigs = some r →
    Inv acc → Inv r ∧ (∀ j, j ∈ r.ids ↔ j ∈ acc.ids ∨ ∃ s ∈ sigs, j ∈ s.ids) := by
  intro sigs
  induction sigs with
  | nil => intro acc r h hi; simp [blsCombineAux] at h; subst h; simp [hi]
  | cons s rest ih =>
    intro acc r h hi
    unfold blsCombineAux at h
    split at h
    · simp at h
    · rename_i acc' ha
      obtain ⟨h1, h2⟩ := blsCombineOne_spec _ _ _ ha hi (ids_ge_one s)
      obtain ⟨h3, h4⟩ := ih _ _ h h1
      refine ⟨h3, fun j => ?_⟩
      rw [h4, h2]
      simp only [List.mem_cons, exists_eq_or_imp]
      constructor
      · rintro ((h | h) | h)
        · exact Or.inl h
        · exact Or.inr (Or.inl h)
        · exact Or.inr (Or.inr h)
      · rintro (h | h | h)
        · exact Or.inl (Or.inl h)
        · exact Or.inl (Or.inr h)
        · exact Or.inr h

end HsVerif.Model
